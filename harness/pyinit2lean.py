#!/usr/bin/env python3
"""pyinit2lean — translator for the initial-condition builders of `EoN.analytic`:
`_initialize_node_status_`, `_count_edge_types_` and `_get_Nk_and_IC_as_arrays_`, read from /repo's working tree on
every run -> lean/EoNVerif/Gen/InitCondGen.lean.  `Proofs/GenInitCond.lean` proves the generated functions equal to the
closed forms of `Model/InitCond.lean` (class counts, pair counts) that the C06 statements about the initial values of
every *_from_graph wrapper are built on.

Output shape: each function becomes a Lean function in `Except String` (a raised EoNError = `throw "EoNError"`).
The graph is read through `G.has_node`, `G.nodes()`, `G.edges()`, `G.degree(node)`, `G.order()` (structure `IArgs`).
Integer locals live in `Int`; NumPy vectors indexed by degree are Lean lists of `Rat` of length `maxk+1`
(`0*Nk`, `c*Nk`, `v[k] += 1`).  `for` loops are folds over the iterated list with the tuple of assigned locals as
state.  Anything outside the supported subset raises Unsupported.
"""
import ast, os, sys, hashlib

REPO = os.environ.get("EON_REPO", "/repo")


class Unsupported(Exception):
    pass


STATUS = {"S": "St.S", "I": "St.I", "R": "St.R"}


def body_of(n):
    return [s for s in n.body if not (isinstance(s, ast.Expr) and isinstance(s.value, ast.Constant))]


class Tr:
    """statement translator over a fixed tuple of mutable locals (the state of every fold)"""

    def __init__(self, kinds, consts):
        self.kinds = dict(kinds)       # mutable local -> kind: int | vec | status
        self.order = [k for k, _ in kinds]
        self.consts = dict(consts)     # immutable names -> (term, kind)
        self.n = 0

    def state(self):
        return "(" + ", ".join(self.order) + ")" if len(self.order) > 1 else self.order[0]

    def state_ty(self):
        ty = {"int": "Int", "vec": "List Rat", "status": "Node → St"}
        return " × ".join(ty[self.kinds[v]] for v in self.order)

    def expr(self, e):
        if isinstance(e, ast.Constant):
            if isinstance(e.value, str) and e.value in STATUS:
                return STATUS[e.value], "st"
            if isinstance(e.value, (int, float)) and not isinstance(e.value, bool):
                if float(e.value) != int(e.value):
                    raise Unsupported("non-integral constant")
                return str(int(e.value)), "num"
            raise Unsupported("constant " + repr(e.value))
        if isinstance(e, ast.Name):
            if e.id in self.kinds:
                return e.id, self.kinds[e.id]
            if e.id in self.consts:
                return self.consts[e.id]
            raise Unsupported("unknown name " + e.id)
        if isinstance(e, ast.Subscript) and isinstance(e.value, ast.Name):
            v, k = self.expr(e.value)
            i, ki = self.expr(e.slice)
            if k == "status" and ki == "node":
                return f"({v} {i})", "st"
            raise Unsupported("subscript " + ast.unparse(e))
        if isinstance(e, ast.Compare) and len(e.ops) == 1 and isinstance(e.ops[0], ast.Eq):
            a, ka = self.expr(e.left)
            b, kb = self.expr(e.comparators[0])
            if ka == "st" and kb == "st":
                return f"decide ({a} = {b})", "bool"
        if isinstance(e, ast.Call) and ast.unparse(e.func) == "G.degree" and len(e.args) == 1:
            a, ka = self.expr(e.args[0])
            if ka == "node":
                return f"(A.degree {a})", "nat"
        if isinstance(e, ast.BinOp):
            a, ka = self.expr(e.left)
            b, kb = self.expr(e.right)
            sym = {ast.Add: "+", ast.Sub: "-", ast.Mult: "*"}.get(type(e.op))
            if sym and {ka, kb} <= {"int", "num"}:
                return f"({a} {sym} {b})", "int"
            if sym and {ka, kb} <= {"rat", "num"}:
                return f"({a} {sym} {b})", "rat"
            if sym == "*" and kb == "vec" and ka in ("num", "rat"):
                return f"({b}.map (fun x => ({a} : Rat) * x))", "vec"
        raise Unsupported("expression " + ast.unparse(e)[:60])

    def block(self, stmts, ind):
        """returns lines; every path ends by (re)binding the state variables; no early return inside"""
        out = []
        for st in stmts:
            if isinstance(st, ast.AugAssign) and isinstance(st.op, ast.Add):
                if isinstance(st.target, ast.Name) and self.kinds.get(st.target.id) == "int":
                    v, k = self.expr(st.value)
                    out.append(f"{ind}let {st.target.id} := {st.target.id} + {v}")
                    continue
                if isinstance(st.target, ast.Subscript) and isinstance(st.target.value, ast.Name) and self.kinds.get(st.target.value.id) == "vec":
                    i, ki = self.expr(st.target.slice)
                    v, k = self.expr(st.value)
                    if ki != "nat" or k != "num":
                        raise Unsupported("vector update kinds")
                    a = st.target.value.id
                    out.append(f"{ind}let {a} ← PyRT.vecAdd {a} {i} {v}")
                    continue
            if isinstance(st, ast.Assign) and len(st.targets) == 1 and isinstance(st.targets[0], ast.Name) and st.targets[0].id == "k" \
                    and ast.unparse(st.value) == "G.degree(node)":
                self.consts["k"] = ("(A.degree node)", "nat")
                continue
            if isinstance(st, ast.Assign) and len(st.targets) == 1 and isinstance(st.targets[0], ast.Subscript) \
                    and isinstance(st.targets[0].value, ast.Name) and self.kinds.get(st.targets[0].value.id) == "status":
                i, ki = self.expr(st.targets[0].slice)
                v, k = self.expr(st.value)
                if ki != "node" or k != "st":
                    raise Unsupported("status assignment kinds")
                out.append(f"{ind}let status := fset status {i} {v}")
                continue
            if isinstance(st, ast.If):
                out += self.ifstmt(st, ind)
                continue
            if isinstance(st, ast.Raise):
                out.append(f'{ind}let _ ← (throw "EoNError" : Except String Unit)')
                continue
            raise Unsupported("statement " + ast.unparse(st)[:60])
        return out

    def ifstmt(self, st, ind):
        src = ast.unparse(st.test)
        if src == "not G.has_node(node)":
            c = "!(A.hasNode node)"
        else:
            c, k = self.expr(st.test)
            if k != "bool":
                raise Unsupported("condition " + src)
        b1 = self.block(st.body, ind + "  ")
        b2 = self.block(st.orelse, ind + "  ") if st.orelse else []
        s = self.state()
        return ([f"{ind}let {s} ← (if {c} then do"] + b1 + [f"{ind}  pure {s}", f"{ind}else do"] + b2 + [f"{ind}  pure {s})"])

    def forloop(self, st, ind):
        it = ast.unparse(st.iter)
        if it in ("initial_infecteds", "initial_recovereds"):
            seq, pat, ty = it, st.target.id, "Node"
            saved = dict(self.consts)
            self.consts[st.target.id] = (st.target.id, "node")
        elif it == "G.nodes()":
            seq, pat, ty = "A.nodes", st.target.id, "Node"
            saved = dict(self.consts)
            self.consts[st.target.id] = (st.target.id, "node")
        elif it == "G.edges()" and isinstance(st.target, ast.Tuple) and len(st.target.elts) == 2:
            a, b = (x.id for x in st.target.elts)
            seq, pat, ty = "A.edges", f"({a}, {b})", "Node × Node"
            saved = dict(self.consts)
            self.consts[a] = (a, "node")
            self.consts[b] = (b, "node")
        else:
            raise Unsupported("iteration over " + it)
        body = self.block(st.body, ind + "  ")
        self.consts = saved
        s = self.state()
        return [f"{ind}let {s} ← {seq}.foldlM (fun (acc : {self.state_ty()}) (x : {ty}) => do",
                f"{ind}  let {s} := acc", f"{ind}  let {pat} := x"] + body + [f"{ind}  pure {s}) {s}"]


def gen_initialize(n):
    if [a.arg for a in n.args.args] != ["G", "initial_infecteds", "initial_recovereds"]:
        raise Unsupported("_initialize_node_status_ parameters")
    b = body_of(n)
    pro = [ast.unparse(s) for s in b[:3]]
    want = ["if initial_recovereds is None:\n    initial_recovereds = []",
            "intersection = set(initial_infecteds).intersection(set(initial_recovereds))"]
    if pro[:2] != want or not (isinstance(b[2], ast.If) and ast.unparse(b[2].test) == "intersection" and len(b[2].body) == 1 and isinstance(b[2].body[0], ast.Raise)):
        raise Unsupported("_initialize_node_status_ prologue changed")
    if ast.unparse(b[3]) != "status = defaultdict(lambda: 'S')" or ast.unparse(b[-1]) != "return status":
        raise Unsupported("_initialize_node_status_ shape")
    tr = Tr([("status", "status")], {})
    lines = []
    for st in b[4:-1]:
        if not isinstance(st, ast.For):
            raise Unsupported("_initialize_node_status_: " + ast.unparse(st)[:40])
        lines += tr.forloop(st, "  ")
    return (f"/-- generated from `_initialize_node_status_` (EoN/analytic.py:{n.lineno}); `initial_recovereds=None` is the empty list -/\n"
            "def initialize_node_status (A : IArgs) (initial_infecteds initial_recovereds : List Node) : Except String (Node → St) := do\n"
            "  -- `set(initial_infecteds).intersection(set(initial_recovereds))` is non-empty\n"
            '  if initial_infecteds.any (fun u => decide (u ∈ initial_recovereds)) then throw "EoNError" else\n'
            "  let status : Node → St := fun _ => St.S\n" + "\n".join(lines) + "\n  pure status\n")


def gen_count_edges(n):
    if [a.arg for a in n.args.args] != ["G", "initial_infecteds", "initial_recovereds", "SIR"]:
        raise Unsupported("_count_edge_types_ parameters")
    b = body_of(n)
    if ast.unparse(b[0]) != "status = _initialize_node_status_(G, initial_infecteds, initial_recovereds)":
        raise Unsupported("_count_edge_types_ no longer starts from _initialize_node_status_")
    if [ast.unparse(s) for s in b[1:4]] != ["SS0 = 0", "SI0 = 0", "II0 = 0"] or not isinstance(b[4], ast.For):
        raise Unsupported("_count_edge_types_ shape")
    if ast.unparse(b[5]) != "if SIR:\n    return (SS0, SI0)\nelse:\n    return (SS0, SI0, II0)":
        raise Unsupported("_count_edge_types_ return changed")
    tr = Tr([("SS0", "int"), ("SI0", "int"), ("II0", "int")], {"status": ("status", "status")})
    lines = tr.forloop(b[4], "  ")
    return (f"/-- generated from `_count_edge_types_` (EoN/analytic.py:{n.lineno}); returns (SS0, SI0, II0) — the SIR variant drops II0 -/\n"
            "def count_edge_types (A : IArgs) (initial_infecteds initial_recovereds : List Node) : Except String (Int × Int × Int) := do\n"
            "  let status ← initialize_node_status A initial_infecteds initial_recovereds\n"
            "  let SS0 : Int := 0\n  let SI0 : Int := 0\n  let II0 : Int := 0\n" + "\n".join(lines) + "\n  pure (SS0, SI0, II0)\n")


def gen_nk(n):
    if [a.arg for a in n.args.args] != ["G", "initial_infecteds", "initial_recovereds", "rho", "SIR"]:
        raise Unsupported("_get_Nk_and_IC_as_arrays_ parameters")
    b = body_of(n)
    # three argument checks, then the degree histogram
    if not all(isinstance(s, ast.If) and isinstance(s.body[0], ast.Raise) for s in b[:3]):
        raise Unsupported("_get_Nk_and_IC_as_arrays_ argument checks changed")
    if [ast.unparse(s) for s in b[3:6]] != ["Nk = Counter(dict(G.degree()).values())", "maxk = max(Nk.keys())",
                                            "Nk = np.array([Nk[k] for k in range(maxk + 1)])"]:
        raise Unsupported("degree histogram changed")
    br = b[6]
    if not (isinstance(br, ast.If) and ast.unparse(br.test) == "initial_infecteds is not None"):
        raise Unsupported("_get_Nk_and_IC_as_arrays_ branch")
    sets = br.body
    if [ast.unparse(s) for s in sets[:4]] != ["status = _initialize_node_status_(G, initial_infecteds, initial_recovereds)",
                                              "Sk0 = 0 * Nk", "Ik0 = 0 * Nk", "Rk0 = 0 * Nk"] or not isinstance(sets[4], ast.For):
        raise Unsupported("explicit-sets branch changed")
    tr = Tr([("Sk0", "vec"), ("Ik0", "vec"), ("Rk0", "vec")], {"status": ("status", "status")})
    lines = tr.forloop(sets[4], "  ")
    rho = br.orelse
    if [ast.unparse(s) for s in rho] != ["if rho is None:\n    rho = 1.0 / G.order()", "Sk0 = (1 - rho) * Nk", "Ik0 = rho * Nk", "Rk0 = 0 * Nk"]:
        raise Unsupported("rho branch changed: %r" % [ast.unparse(s) for s in rho])
    return (f"/-- `Counter(dict(G.degree()).values())` as an array over `0..maxk` -/\n"
            "def degree_hist (A : IArgs) : List Rat :=\n"
            "  let maxk := (A.nodes.map A.degree).foldl max 0\n"
            "  (List.range (maxk + 1)).map (fun k => (((A.nodes.filter (fun u => A.degree u = k)).length : Nat) : Rat))\n\n"
            f"/-- generated from the explicit-sets branch of `_get_Nk_and_IC_as_arrays_` (EoN/analytic.py:{n.lineno}): (Nk, Sk0, Ik0, Rk0) -/\n"
            "def get_Nk_and_IC_sets (A : IArgs) (initial_infecteds initial_recovereds : List Node) :\n"
            "    Except String (List Rat × List Rat × List Rat × List Rat) := do\n"
            "  let Nk := degree_hist A\n"
            "  let status ← initialize_node_status A initial_infecteds initial_recovereds\n"
            "  let Sk0 := Nk.map (fun x => (0 : Rat) * x)\n  let Ik0 := Nk.map (fun x => (0 : Rat) * x)\n  let Rk0 := Nk.map (fun x => (0 : Rat) * x)\n"
            + "\n".join(lines) + "\n  pure (Nk, Sk0, Ik0, Rk0)\n\n"
            "/-- generated from the `rho` branch (`rho=None` is `1/G.order()`): (Nk, Sk0, Ik0, Rk0) -/\n"
            "def get_Nk_and_IC_rho (A : IArgs) (rho : Rat) : List Rat × List Rat × List Rat × List Rat :=\n"
            "  let Nk := degree_hist A\n"
            "  (Nk, Nk.map (fun x => ((1 - rho) : Rat) * x), Nk.map (fun x => (rho : Rat) * x), Nk.map (fun x => (0 : Rat) * x))\n")


HEADER = '''import EoNVerif.Gen.PyRT
/-!
GENERATED by harness/pyinit2lean.py from `_initialize_node_status_`, `_count_edge_types_` and
`_get_Nk_and_IC_as_arrays_` of EoN/analytic.py — do not edit; regenerated on every check run.   source sha1: {sha}
-/
namespace GenInit

/-- what the builders read from the graph -/
structure IArgs where
  nodes : List Node              -- G.nodes()
  edges : List (Node × Node)     -- G.edges(): every undirected edge once, in networkx's order and orientation
  degree : Node → Nat            -- G.degree(node)
  hasNode : Node → Bool          -- G.has_node(node)

'''


def translate(repo=REPO):
    src = open(os.path.join(repo, "EoN", "analytic.py")).read()
    tree = ast.parse(src)
    fns = {n.name: n for n in tree.body if isinstance(n, ast.FunctionDef)}
    errors, parts, sources = {}, [], []
    for name, gen in (("_initialize_node_status_", gen_initialize), ("_count_edge_types_", gen_count_edges),
                      ("_get_Nk_and_IC_as_arrays_", gen_nk)):
        try:
            parts.append(gen(fns[name]))
            sources.append(ast.unparse(fns[name]))
        except (Unsupported, KeyError, IndexError) as ex:
            errors[name] = f"unsupported: {ex}"
    sha = hashlib.sha1("\n".join(sources).encode()).hexdigest()
    return HEADER.format(sha=sha) + "\n".join(parts) + "\nend GenInit\n", errors


def regenerate():
    import warnings
    target = os.path.join(os.path.dirname(os.path.abspath(__file__)), "..", "lean", "EoNVerif", "Gen", "InitCondGen.lean")
    with warnings.catch_warnings():
        warnings.simplefilter("ignore")
        text, errors = translate()
    old = open(target).read() if os.path.exists(target) else None
    if text and not errors and old != text:
        tmp = target + ".tmp%d" % os.getpid()
        with open(tmp, "w") as f:
            f.write(text)
        os.replace(tmp, target)
    return old != text, errors


def main():
    changed, errors = regenerate()
    print("pyinit2lean: Gen/InitCondGen.lean %s" % ("rewritten" if changed else "up to date"))
    for n, e in errors.items():
        print(f"pyinit2lean: {n}: {e}")
    return 1 if errors else 0


if __name__ == "__main__":
    sys.exit(main())
