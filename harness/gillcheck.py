"""Shared by C01 (SIR) and C02 (SIS): tape correspondence of Gillespie_SIR/SIS with the Lean model, and exact
one-step law enumeration of the real functions against the Lean CTMC specification."""
import itertools
from fractions import Fraction as F
import networkx as nx
import common, sims, symu, gen, rng as rngmod
from common import rs, fr


def correspondence(ctx, drv, sis, n_cases, tag):
    cases, impls, reqs = [], [], []
    for _ in range(n_cases):
        c = sims.gillespie_case(ctx.rng, sis)
        impl, G, idx = sims.run_impl_gillespie(c, rng=ctx.rng)
        impl.pop("obj", None)
        cases.append(c); impls.append(impl)
        reqs.append(sims.req_gillespie(c, impl["tape"]))
        ctx.count("%s:n=%d" % (tag, c["n"]))
        ctx.count("%s:init=%s" % (tag, c["init"]["kind"]))
        ctx.count("%s:weights=%s%s" % (tag, "E" if c["ew"] else "-", "N" if c["nw"] else "-"))
        ctx.count("%s:%s" % (tag, "full" if c["full"] else "arrays"))
        if not impl["ok"]:
            ctx.count("%s:err=%s" % (tag, impl["err"]))
        else:
            ctx.count("%s:events" % tag, len(impl["t"]) - 1)
    resps = drv.batch(reqs)
    for c, impl, m in zip(cases, impls, resps):
        nontriv = impl["ok"] and len(impl["t"]) > 1
        ctx.case(c, nontrivial=nontriv, sample=dict(case=c, tape=impl["tape"][:12]))
        d = sims.compare_gillespie(c, impl, m)
        ctx.traces += 1
        tv = common.trace_violation(impl["trace"], m["trace"]) if (impl.get("ok") and m.get("ok") and "trace" in impl and "trace" in m) else None
        if tv:
            ctx.violation("%s: %s" % (tag, tv), dict(entry=tag, case=c, tape=impl["tape"], model_trace=m["trace"][:60]))
        elif d is not None:
            ctx.disagreement(tag + "-tape", dict(entry=tag, case=c, tape=impl["tape"], diff=d))
    generated_model(ctx, tag, cases, impls, reqs)
    return cases, impls, resps


def generated_model(ctx, tag, cases, impls, reqs):
    """the Lean code GENERATED from the source of Gillespie_SIR / Gillespie_SIS (harness/pyfunc2lean.py ->
    Gen/GillespieGen.lean, calling the generated `_ListDict_` code), run by its own driver on the same scripted draws
    as the implementation: validates the translator and ties the refinement theorems (Props/C01e.lean) to the code.
    Compared: the RNG-call trace (clock rates, candidate lists), times, S, I, R and, with full data, the transmission
    list; exception names."""
    import fcntl, subprocess, os, json, pyfunc2lean, pyclass2lean
    lean = common.LEAN
    os.makedirs(os.path.join(lean, ".audit"), exist_ok=True)
    with open(os.path.join(lean, ".audit", "gengill.lock"), "w") as lock:
        fcntl.flock(lock, fcntl.LOCK_EX)
        try:
            _, e1 = pyclass2lean.regenerate()
            _, e2 = pyfunc2lean.regenerate()
            errors = dict(e1, **e2)
        except Exception as e:
            errors = {"translator": "crashed: %r" % e}
        if errors:
            ctx.disagreement("generated-gillespie:translation", dict(entry=tag, errors=errors))
            return
        p = common.lake(["build", "drivergill"])
    if p.returncode != 0:
        ctx.disagreement("generated-gillespie:build", dict(entry=tag, log="\n".join(
            l for l in (p.stdout + p.stderr).splitlines() if "error" in l)[:1500]))
        return
    exe = os.path.join(lean, ".lake", "build", "bin", "drivergill")
    data = "\n".join(json.dumps(dict(r, full=bool(c["full"])), separators=(",", ":")) for r, c in zip(reqs, cases)) + "\n"
    q = subprocess.run([exe], input=data, capture_output=True, text=True)
    lines = q.stdout.splitlines()
    if q.returncode != 0 or len(lines) != len(reqs):
        raise RuntimeError("drivergill crashed: " + q.stderr[-1000:])
    for c, impl, line in zip(cases, impls, lines):
        g = json.loads(line)
        ctx.count("%s:generated-model-runs" % tag)
        d = sims.compare_gillespie(c, impl, g)
        if d is None and impl.get("ok") and c["full"] and "transmissions" in impl:
            if impl["transmissions"] != g.get("transmissions"):
                d = "transmissions differ: impl %s generated %s" % (impl["transmissions"][:8], (g.get("transmissions") or [])[:8])
        if d is not None:
            ctx.disagreement("generated-%s-tape" % tag, dict(entry=tag, case=c, tape=impl["tape"], diff=d))


def one_step_law(case, depth):
    """exact law of the first event of the real simulator from the state described by `case` (tmin=0, unit delays,
    tmax=1.5 so exactly one event fires). outcome = tuple of final statuses.  Also returns logged first clock rate."""
    import EoN, EoN.simulation as sim
    G, lab = sims.build_graph(case)
    idx = gen.index_of(G)
    rates = []

    def fn(ex):
        sr = symu.SymRandom(ex, dt=1.0)
        old = sim.random
        sim.random = sr
        try:
            kw = {}
            if case.get("ew") is not None:
                kw["transmission_weight"] = "w"
            if case.get("nw") is not None:
                kw["recovery_weight"] = "r"
            if not case["sis"]:
                kw["initial_recovereds"] = [lab(i) for i in case["recs"]]
            f = EoN.Gillespie_SIS if case["sis"] else EoN.Gillespie_SIR
            s = f(G, float(F(case["tau"])), float(F(case["gamma"])), initial_infecteds=[lab(i) for i in case["init"]["nodes"]],
                  tmin=0, tmax=1.5, return_full_data=False, **kw)
            if sr.rates:
                rates.append(sr.rates[0])
            # arrays: last row vs first row tells which kind of event; need identity -> use full data? use statuses via 2nd run
            return tuple(int(x[-1]) for x in s[1:]) + (len(s[0]),)
        finally:
            sim.random = old
    ex = symu.Explorer(depth)
    agg = ex.run(fn)
    return agg, (rates[0] if rates else None)


def one_step_law_full(case, depth):
    """as one_step_law but outcome = final status vector (read through full data / get_statuses)"""
    import EoN, EoN.simulation as sim
    G, lab = sims.build_graph(case)
    idx = gen.index_of(G)
    rates = []

    def fn(ex):
        sr = symu.SymRandom(ex, dt=1.0)
        old = sim.random
        sim.random = sr
        try:
            kw = {}
            if case.get("ew") is not None:
                kw["transmission_weight"] = "w"
            if case.get("nw") is not None:
                kw["recovery_weight"] = "r"
            if not case["sis"]:
                kw["initial_recovereds"] = [lab(i) for i in case["recs"]]
            f = EoN.Gillespie_SIS if case["sis"] else EoN.Gillespie_SIR
            s = f(G, float(F(case["tau"])), float(F(case["gamma"])), initial_infecteds=[lab(i) for i in case["init"]["nodes"]],
                  tmin=0, tmax=1.5, return_full_data=True, **kw)
            if sr.rates:
                rates.append(sr.rates[0])
            st = s.get_statuses(time=1.2)
            out = [None] * len(idx)
            for u in G:
                out[idx[u]] = st[u]
            return "".join(out)
        finally:
            sim.random = old
    ex = symu.Explorer(depth)
    agg = ex.run(fn)
    return agg, (rates[0] if rates else None), idx, G, lab


def law_cases(ctx, sis, exhaustive_n, n_random):
    """states to enumerate the one-step law from: (graph, I set, R set, weights)"""
    out = []
    for n in range(1, exhaustive_n + 1):
        for G in gen.all_graphs(n):
            edges = [list(e) for e in G.edges()]
            for code in itertools.product("SIR" if not sis else "SI", repeat=n):
                infs = [i for i in range(n) if code[i] == "I"]
                recs = [i for i in range(n) if code[i] == "R"]
                if not infs:
                    continue
                out.append(dict(n=n, order=list(range(n)), edges=edges, directed=False, ew=None, nw=None, sis=sis,
                                tau="1", gamma=str(ctx.rng.choice([F(1, 2), F(1), F(2)])), init=dict(kind="list", nodes=infs), recs=recs))
    for _ in range(n_random):
        c = sims.graph_case(ctx.rng, 2, 4, weighted_e=ctx.rng.random() < 0.7, weighted_n=ctx.rng.random() < 0.7, zero_w=ctx.rng.random() < 1 / 3)
        n = c["n"]
        code = [ctx.rng.choice("SIR" if not sis else "SI") for _ in range(n)]
        code[ctx.rng.randrange(n)] = "I"
        c.update(sis=sis, tau=str(ctx.rng.choice([F(1, 2), F(1), F(2)])), gamma=str(ctx.rng.choice([F(1, 2), F(1), F(2)])),
                 init=dict(kind="list", nodes=[i for i in range(n) if code[i] == "I"]), recs=[i for i in range(n) if code[i] == "R"])
        out.append(c)
    return out


def law_check(ctx, drv, sis, cases, tag, depth_unw=8, depth_w=14):
    """compare the implementation's exact one-step law with the Lean CTMC spec"""
    reqs, infos = [], []
    for c in cases:
        weighted = c.get("ew") is not None or c.get("nw") is not None
        try:
            agg, rate0, idx, G, lab = one_step_law_full(c, depth_w if weighted else depth_unw)
        except ZeroDivisionError:
            ctx.count(tag + ":law-zero-rate")
            continue
        except symu.Budget:
            # the enumeration of the rejection sampler ran out of leaves (e.g. three of four candidates have weight 0):
            # a limit of the enumerator, no verdict about the code
            ctx.count(tag + ":law-budget")
            continue
        except Exception as e:
            ctx.violation("one-step law enumeration: implementation raised %s" % type(e).__name__,
                          dict(entry=tag, stream="law", case=c, error=type(e).__name__))
            continue
        idx2, adj, ew, nw = sims.graph_req(G, lab, c)
        li = {i: idx[lab(i)] for i in range(c["n"])}
        status = ["S"] * c["n"]
        for i in c["init"]["nodes"]:
            status[li[i]] = "I"
        for i in c["recs"]:
            status[li[i]] = "R"
        reqs.append(dict(op="chain_rates", sis=sis, n=c["n"], adj=adj, tau=c["tau"], gamma=c["gamma"], ew=ew, nw=nw, status=status))
        infos.append((c, agg, rate0, status))
    resps = drv.batch(reqs)
    for (c, agg, rate0, status), spec in zip(infos, resps):
        ctx.count(tag + ":law-states")
        total = F(spec["total"])
        specd = {}
        for e in spec["events"]:
            st = list(status)
            if e[0] == "r":
                st[e[1]] = "S" if sis else "R"
                r = F(e[3 - 1])
            else:
                st[e[2]] = "I"
                r = F(e[3])
            if total > 0 and r > 0:
                k = "".join(st)
                specd[k] = specd.get(k, F(0)) + r / total
        if total == 0:
            specd = {"".join(status): F(1)}         # absorbing state of the chain (e.g. the only infectious node has
                                                    # recovery weight 0 and no susceptible neighbour): nothing happens
        ctx.case(dict(law=c), nontrivial=len(specd) > 1)
        bad = symu.interval_ok(agg, specd)
        if rate0 is not None and rate0 != total:
            ctx.violation("clock rate passed to expovariate (%s) differs from the chain's total rate (%s)" % (rate0, total),
                          dict(entry=tag, stream="law", case=c, clock=str(rate0), spec_total=str(total)))
        elif bad:
            ctx.violation("one-step event law differs from rate/total: %s" % [(k, float(p), float(s)) for k, p, s, _ in bad[:4]],
                          dict(entry=tag, stream="law", case=c,
                               law=[[k, str(p), str(s), str(cut)] for k, p, s, cut in bad]))


def k_step_law(case, steps, depth):
    """exact law of the status vector of the real simulator after exactly `steps` events (unit waiting times)"""
    import EoN, EoN.simulation as sim
    G, lab = sims.build_graph(case)
    idx = gen.index_of(G)

    def fn(ex):
        sr = symu.SymRandom(ex, dt=1.0)
        old = sim.random
        sim.random = sr
        try:
            kw = {}
            if case.get("ew") is not None:
                kw["transmission_weight"] = "w"
            if case.get("nw") is not None:
                kw["recovery_weight"] = "r"
            if not case["sis"]:
                kw["initial_recovereds"] = [lab(i) for i in case["recs"]]
            f = EoN.Gillespie_SIS if case["sis"] else EoN.Gillespie_SIR
            s = f(G, float(F(case["tau"])), float(F(case["gamma"])), initial_infecteds=[lab(i) for i in case["init"]["nodes"]],
                  tmin=0, tmax=steps + 0.5, return_full_data=True, **kw)
            st = s.get_statuses(time=steps + 0.2)
            out = [None] * len(idx)
            for u in G:
                out[idx[u]] = st[u]
            return "".join(out)
        finally:
            sim.random = old
    return symu.Explorer(depth, maxleaves=60000).run(fn), idx, G, lab


def k_step_check(ctx, drv, sis, cases, steps, tag, depth=22):
    """the implementation's exact law after `steps` events vs the `steps`-fold composition of the Lean chain's
    jump law (rate/total per state, absorbing when total = 0)"""
    for c in cases:
        try:
            agg, idx, G, lab = k_step_law(c, steps, depth)
        except symu.Budget:
            ctx.count(tag + ":kstep-budget")
            continue
        except ZeroDivisionError:
            ctx.count(tag + ":law-zero-rate")
            continue
        except Exception as e:
            ctx.violation("%d-step law enumeration: implementation raised %s" % (steps, type(e).__name__),
                          dict(entry=tag, stream="kstep-law", steps=steps, case=c, error=type(e).__name__))
            continue
        idx2, adj, ew, nw = sims.graph_req(G, lab, c)
        li = {i: idx[lab(i)] for i in range(c["n"])}
        status = ["S"] * c["n"]
        for i in c["init"]["nodes"]:
            status[li[i]] = "I"
        for i in c["recs"]:
            status[li[i]] = "R"
        dist = {"".join(status): F(1)}
        for _ in range(steps):
            keys = list(dist)
            resps = drv.batch([dict(op="chain_rates", sis=sis, n=c["n"], adj=adj, tau=c["tau"], gamma=c["gamma"], ew=ew, nw=nw,
                                    status=list(k)) for k in keys])
            nxt = {}
            for k, spec in zip(keys, resps):
                total = F(spec["total"])
                if total == 0:
                    nxt[k] = nxt.get(k, F(0)) + dist[k]
                    continue
                for e in spec["events"]:
                    st = list(k)
                    if e[0] == "r":
                        st[e[1]] = "S" if sis else "R"
                        r = F(e[2])
                    else:
                        st[e[2]] = "I"
                        r = F(e[3])
                    if r > 0:
                        k2 = "".join(st)
                        nxt[k2] = nxt.get(k2, F(0)) + dist[k] * r / total
            dist = nxt
        ctx.count("%s:%d-step-law-states" % (tag, steps))
        ctx.case(dict(kstep=c, steps=steps), nontrivial=len(dist) > 1)
        bad = symu.interval_ok(agg, dist)
        if bad:
            ctx.violation("law after %d events differs from the chain's: %s" % (steps, [(k, float(p), float(s)) for k, p, s, _ in bad[:4]]),
                          dict(entry=tag, stream="kstep-law", steps=steps, case=c, law=[[k, str(p), str(s), str(cut)] for k, p, s, cut in bad]))


def kstep_cases(ctx, sis, count, nmax=4):
    out = []
    for _ in range(count):
        c = sims.graph_case(ctx.rng, 2, nmax, weighted_e=ctx.rng.random() < 0.8, weighted_n=ctx.rng.random() < 0.5)
        n = c["n"]
        code = [ctx.rng.choice("SSIR" if not sis else "SSI") for _ in range(n)]
        code[ctx.rng.randrange(n)] = "I"
        c.update(sis=sis, tau=str(ctx.rng.choice([F(1, 2), F(1), F(2)])), gamma=str(ctx.rng.choice([F(1, 2), F(1), F(2)])),
                 init=dict(kind="list", nodes=[i for i in range(n) if code[i] == "I"]), recs=[i for i in range(n) if code[i] == "R"])
        out.append(c)
    return out
