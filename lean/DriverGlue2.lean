import Driver
import EoNVerif.Gen.OdeGlue2
open Lean Drv

/-! JSON-lines driver for the code GENERATED from the second batch of ODE entry points (Gen/OdeGlue2.lean).  The graph is
`N` and the neighbour index lists, the rate functions are tables, `integrate.odeint` / `_my_odeint_` are the table of rows
the real solver returned in the implementation's own call (`rows`); function-valued arguments (psi, …) are tables of the
values the real callables take at the points where the generated code evaluates them.  The response carries the initial
state the generated code hands to the solver (`x0`) and every returned array. -/
namespace DrvGenGlue2
open Gen PyGlue PyGlue2 GenGlue2

def getV (j : Json) (k : String) : Except String V := do
  pure (V.ofList (← getList getRat (← fld j k)))
def getMx (j : Json) (k : String) : Except String Mx := do
  pure (Mx.ofLists (← getList (getList getRat) (← fld j k)))
def optOf {α : Type} (g : Json → String → Except String α) (j : Json) (k : String) : Except String (Option α) :=
  match fldOpt j k with
  | none => pure none
  | some _ => (g j k).map some
def r (j : Json) (k : String) : Except String Rat := do getRat (← fld j k)
def nl (j : Json) (k : String) : Except String (List Nat) := do getList getNat (← fld j k)
def getDict (x : Json) : Except String (List (Nat × Rat)) :=
  getList (fun e => do match ← getArr e with
    | [k, v] => pure ((← getNat k), (← getRat v))
    | _ => .error "bad dict entry") x
def getDD (x : Json) : Except String (List (Nat × List (Nat × Rat))) :=
  getList (fun e => do match ← getArr e with
    | [k, v] => pure ((← getNat k), (← getDict v))
    | _ => .error "bad dict entry") x

def getF (j : Json) (k : String) : Except String (Rat → Rat) := do
  match fldOpt j k with
  | none => pure fun _ => 0
  | some x =>
    let l ← getList (fun e => do match ← getArr e with
      | [a, b] => pure ((← getRat a), (← getRat b))
      | _ => .error "bad table entry") x
    pure fun y => match l.find? (fun p => p.1 == y) with | some p => p.2 | none => 0

def jOut (tc : Nat) (s : Out) : Json :=
  match s with
  | .s f => Json.mkObj [("s", jArr jRat ((List.range tc).map f))]
  | .m n f => Json.mkObj [("m", jArr (fun i => jArr jRat (vslice n (f i) 0 n).toList) (List.range tc)), ("n", jNat n)]
  | .c a b f => Json.mkObj [("c", jArr (fun i => jArr jRat (vslice (a * b) (f i) 0 (a * b)).toList) (List.range tc)), ("a", jNat a), ("b", jNat b)]
  | .v x => Json.mkObj [("v", jArr jRat x.toList)]
  | .d l => Json.mkObj [("d", jArr (fun kv => Json.arr #[jNat kv.1, jArr jRat ((List.range tc).map kv.2)]) l)]
  | .dl l => Json.mkObj [("dl", jArr (fun kv => Json.arr #[jNat kv.1, jArr jRat kv.2]) l)]

def run (j : Json) : Except String Json := do
  let name ← getStr (← fld j "fn")
  let rows ← match fldOpt j "rows" with | some x => getList (getList getRat) x | none => pure []
  let ode : (V → V) → V → Nat → V := fun _ _ i => V.ofList (rows.getD i [])
  let tc ← match fldOpt j "tcount" with | some x => getNat x | none => pure 0
  let full ← match fldOpt j "return_full_data" with | some b => getBool b | none => pure false
  -- graph
  let GN ← match fldOpt j "N" with | some x => getNat x | none => pure 0
  let nbl ← match fldOpt j "nbrs" with | some x => getList (getList getNat) x | none => pure []
  let nbrs : Nat → List Nat := fun i => nbl.getD i []
  let trl ← match fldOpt j "tr" with | some x => getList (getList getRat) x | none => pure []
  let tr : Nat → Nat → Rat := fun i k => (trl.getD i []).getD k 0
  let rrl ← match fldOpt j "rr" with | some x => getList getRat x | none => pure []
  let rr : Nat → Rat := fun i => rrl.getD i 0
  let oR := optOf r j
  let oV := optOf getV j
  let oM := optOf getMx j
  let oL := optOf nl j
  let res ← (match name with
    | "SIS_individual_based" => do pure (SIS_individual_based ode ode GN nbrs tr rr (← oR "rho") (← oV "Y0") (← oL "nodelist") (← r j "tmin") (← r j "tmax") tc full)
    | "SIR_individual_based" => do pure (SIR_individual_based ode ode GN nbrs tr rr (← oR "rho") (← oV "Y0") (← oV "X0") (← oL "nodelist") (← r j "tmin") (← r j "tmax") tc full)
    | "SIS_individual_based_pure_IC" => do pure (SIS_individual_based_pure_IC ode ode GN nbrs tr rr (← nl j "initial_infecteds") (← oL "nodelist") (← r j "tmin") (← r j "tmax") tc full)
    | "SIR_individual_based_pure_IC" => do pure (SIR_individual_based_pure_IC ode ode GN nbrs tr rr (← nl j "initial_infecteds") (← oL "initial_recovereds") (← oL "nodelist") (← r j "tmin") (← r j "tmax") tc full)
    | "SIS_pair_based" => do pure (SIS_pair_based ode ode GN nbrs tr rr (← oR "rho") (← oL "nodelist") (← oV "Y0") (← oM "XY0") (← oM "XX0") (← r j "tmin") (← r j "tmax") tc full)
    | "SIR_pair_based" => do pure (SIR_pair_based ode ode GN nbrs tr rr (← oR "rho") (← oL "nodelist") (← oV "Y0") (← oV "X0") (← oM "XY0") (← oM "XX0") (← r j "tmin") (← r j "tmax") tc full)
    | "SIS_pair_based_pure_IC" => do pure (SIS_pair_based_pure_IC ode ode GN nbrs tr rr (← nl j "initial_infecteds") (← oL "nodelist") (← r j "tmin") (← r j "tmax") tc full)
    | "SIR_pair_based_pure_IC" => do pure (SIR_pair_based_pure_IC ode ode GN nbrs tr rr (← nl j "initial_infecteds") (← oL "initial_recovereds") (← oL "nodelist") (← r j "tmin") (← r j "tmax") tc full)
    | "SIS_effective_degree" => do pure (SIS_effective_degree ode ode (← getMx j "Ssi0") (← getMx j "Isi0") (← r j "tau") (← r j "gamma") (← r j "tmin") (← r j "tmax") tc full)
    | "SIR_effective_degree" => do pure (SIR_effective_degree ode ode (← getMx j "S_si0") (← r j "I0") (← r j "R0") (← r j "tau") (← r j "gamma") (← r j "tmin") (← r j "tmax") tc full)
    | "SIS_compact_pairwise" => do pure (SIS_compact_pairwise ode ode (← getV j "Sk0") (← getV j "Ik0") (← r j "SI0") (← r j "SS0") (← r j "II0") (← r j "tau") (← r j "gamma") (← r j "tmin") (← r j "tmax") tc full)
    | "SIS_compact_effective_degree" => do pure (SIS_compact_effective_degree ode ode (← getV j "Sk0") (← getV j "Ik0") (← r j "SI0") (← r j "SS0") (← r j "II0") (← r j "tau") (← r j "gamma") (← r j "tmin") (← r j "tmax") tc full)
    | "EBCM" => do pure (EBCM ode ode (← r j "N_") (← getF j "psihat") (← getF j "psihatPrime") (← r j "tau") (← r j "gamma") (← r j "phiS0") (← r j "phiR0") (← r j "R0") (← r j "tmin") (← r j "tmax") tc full)
    | "EBCM_uniform_introduction" => do pure (EBCM_uniform_introduction ode ode (← r j "N_") (← getF j "psi") (← getF j "psiPrime") (← r j "tau") (← r j "gamma") (← r j "rho") (← r j "tmin") (← r j "tmax") tc full)
    | "SIS_heterogeneous_pairwise" => do pure (SIS_heterogeneous_pairwise ode ode (fun _ _ _ _ _ st => st) (← getV j "Sk0") (← getV j "Ik0") (← getMx j "SkSl0") (← getMx j "SkIl0") (← getMx j "IkIl0") (← r j "tau") (← r j "gamma") (← r j "tmin") (← r j "tmax") tc full (← oV "Ks"))
    | "SIR_heterogeneous_pairwise" => do pure (SIR_heterogeneous_pairwise ode ode (fun _ _ _ _ st => st) (← getV j "Sk0") (← getV j "Ik0") (← getV j "Rk0") (← getMx j "SkSl0") (← getMx j "SkIl0") (← r j "tau") (← r j "gamma") (← r j "tmin") (← r j "tmax") tc full (← oV "Ks"))
    | "EBCM_pref_mix" => do pure (EBCM_pref_mix ode ode (fun _ _ _ _ _ st => st) (← r j "N_") (← getDict (← fld j "Pk")) (← getDD (← fld j "Pnk")) (← r j "tau") (← r j "gamma") (← oR "rho") (← r j "tmin") (← r j "tmax") tc full)
    | "EBCM_pref_mix_discrete" => do pure (EBCM_pref_mix_discrete ode ode (← r j "N_") (← getDict (← fld j "Pk")) (← getDD (← fld j "Pnk")) (← r j "p") (← oR "rho") (← (← fld j "tmin").getInt?) (← (← fld j "tmax").getInt?) full)
    | s => .error ("no glue generated for " ++ s))
  match res with
  | .error e => pure (errObj e)
  | .ok (x0, l) =>
    let tc' ← match fldOpt j "outlen" with | some x => getNat x | none => pure tc
    pure (Json.mkObj [("ok", Json.bool true), ("x0", jArr jRat x0.toList), ("out", Json.arr (l.map (jOut tc')).toArray)])

def handle (line : String) : String :=
  match Json.parse line with
  | .ok j => match run j with
    | .ok r => r.compress
    | .error e => (errObj ("driverglue2:" ++ e)).compress
  | .error e => (errObj ("parse:" ++ e)).compress
end DrvGenGlue2
