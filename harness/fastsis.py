"""fast_SIS under scripted exponentials vs the Lean model of its event queue (used by C02)."""
from fractions import Fraction as F
import common, allsims, gen, sims
from predchecks import strip
from c13 import changes_from_history, canon


def correspondence(ctx, drv, n_cases):
    reqs, metas = [], []
    for _ in range(n_cases):
        c = allsims.gen_case(ctx.rng, "fast_SIS")
        if c["init"]["kind"] not in ("list", "single"):
            c["init"] = dict(kind="list", nodes=[0])
        full, G, idx = allsims.run_impl(c, rng=ctx.rng, full=True)
        rep = dict(entry="fast_SIS", case=strip(c), tape=full["tape"])
        if not full["ok"]:
            ctx.case(rep, nontrivial=False)
            ctx.violation("fast_SIS raised %s" % full["err"], dict(rep, error=full["err"], tb=full.get("tb")))
            continue
        plain, _, _ = allsims.run_impl(c, tape=full["tape"], full=False)
        G2, lab = sims.build_graph(c)
        _, adj, ew, nw = sims.graph_req(G2, lab, c)
        infs, _ = allsims.requested_init(c, full)
        reqs.append(dict(op="fastsis", n=c["n"], adj=adj, tau=c["tau"], gamma=c["gamma"], ew=ew, nw=nw, tmin=c["tmin"], tmax=c["tmax"],
                         infs=infs, tape=full["tape"]))
        # property-level oracle used to decide whether a disagreement is a violation: every transmission of the chain
        # goes from a currently infectious node to a susceptible neighbour (Pred.transmissionsValid, shared with C09)
        reqs.append(dict(op="tv", forest=False, shift="0", N=c["n"], succ=allsims.succ_lists(G, idx), tmin=c["tmin"], init=infs,
                         hists=full["history"], trans=full["transmissions"], induced=[["I", "S", "I"]], spont=[["I", "S"]]))
        metas.append((rep, full, plain, c))
        ctx.count("fast_SIS:weights=%s%s" % ("E" if c["ew"] else "-", "N" if c["nw"] else "-"))
    resps = drv.batch(reqs)
    for k, (rep, full, plain, c) in enumerate(metas):
        m, tv = resps[2 * k], resps[2 * k + 1]
        if tv.get("ok") and not tv["holds"]:
            ctx.violation("fast_SIS: an event of the output is not a transition of the SIS chain (transmission from a node that is not infectious / to a node that is not susceptible)",
                          dict(rep, transmissions=full["transmissions"], history=full["history"]))
            continue
        ctx.traces += 1
        log = changes_from_history(full["history"], c["tmin"])
        ctx.case(rep, nontrivial=len(log) > len(full["transmissions"]), sample=dict(rep, log=log[:5]))
        ctx.count("fast_SIS:events", len(log))
        if not m.get("ok"):
            ctx.disagreement("fast_SIS-model-error", dict(rep, model=m))
            continue
        d = []
        if m["trace"] != full["trace"]:
            i = next((i for i in range(min(len(m["trace"]), len(full["trace"]))) if m["trace"][i] != full["trace"][i]), -1)
            d.append("expovariate rate trace differs at call %d: impl %s model %s" % (
                i, full["trace"][i] if 0 <= i < len(full["trace"]) else None, m["trace"][i] if 0 <= i < len(m["trace"]) else None))
        if canon(log, c["tmin"]) != canon(m["log"], c["tmin"]):
            d.append("status-change log")
        if canon(full["transmissions"], c["tmin"]) != canon(m["trans"], c["tmin"]):
            d.append("transmissions")
        if not plain["ok"]:
            d.append("array mode raised %s" % plain["err"])
        elif len(plain["times"]) != len(m["log"]) - len([e for e in m["log"] if F(e[0]) == F(c["tmin"])]) + 1:
            d.append("array length")
        if d:
            ctx.disagreement("fast_SIS-tape:" + ";".join(d)[:300], dict(rep, diffs=d))
    generated_model(ctx, [resq for resq in reqs[0::2]], metas)


def generated_model(ctx, reqs, metas):
    """the Lean code GENERATED from fast_SIS, _process_trans_SIS_Markov, _find_next_trans_SIS_Markov, _process_rec_SIS_
    and myQueue (harness/pyevent2lean.py -> Gen/FastSISGen.lean), run by its own driver on the same scripted
    exponentials as the implementation.  Compared: the expovariate-rate trace, times / S / I (array mode on the same
    draws), the transmission list and every node's infection and recovery times (full-data mode)."""
    import fcntl, subprocess, os, json, pyevent2lean
    lean = common.LEAN
    os.makedirs(os.path.join(lean, ".audit"), exist_ok=True)
    with open(os.path.join(lean, ".audit", "genes.lock"), "w") as lock:
        fcntl.flock(lock, fcntl.LOCK_EX)
        try:
            _, errors = pyevent2lean.regenerate(which=("fsis",))
        except Exception as e:
            errors = {"translator": "crashed: %r" % e}
        if errors:
            ctx.disagreement("generated-fast_SIS:translation", dict(entry="fast_SIS", errors=errors))
            return
        p = common.lake(["build", "driverfs"])
    if p.returncode != 0:
        ctx.disagreement("generated-fast_SIS:build", dict(entry="fast_SIS", log="\n".join(
            l for l in (p.stdout + p.stderr).splitlines() if "error" in l)[:1500]))
        return
    exe = os.path.join(lean, ".lake", "build", "bin", "driverfs")
    data = "\n".join(json.dumps(r, separators=(",", ":")) for r in reqs) + "\n"
    q = subprocess.run([exe], input=data, capture_output=True, text=True)
    lines = q.stdout.splitlines()
    if q.returncode != 0 or len(lines) != len(reqs):
        raise RuntimeError("driverfs crashed: " + q.stderr[-1000:])
    for (rep, full, plain, c), line in zip(metas, lines):
        g = json.loads(line)
        ctx.count("fast_SIS:generated-model-runs")
        if not g.get("ok"):
            ctx.disagreement("generated-fast_SIS-error", dict(rep, generated=g))
            continue
        d = []
        if g["trace"] != full["trace"]:
            d.append("expovariate rate trace")
        if plain["ok"] and (plain["times"] != g["times"] or plain["cols"] != [g["S"], g["I"]]):
            d.append("arrays")
        if full["transmissions"] != g["trans"]:
            d.append("transmissions")
        # node histories of the implementation = alternating infection / recovery times of the generated run
        inf = {u: ts for u, ts in g["infection_times"]}
        rec = {u: ts for u, ts in g["recovery_times"]}
        for u, h in enumerate(full["history"]):
            ti = [t for t, s_ in h if s_ == "I"]
            tr_ = [t for t, s_ in h[1:] if s_ == "S"]
            if ti != inf.get(u, []) or tr_ != rec.get(u, []):
                d.append("node %d infection/recovery times" % u)
                break
        if d:
            ctx.disagreement("generated-fast_SIS-tape:" + ";".join(d), dict(rep, diffs=d))


def sis_master(G, nodes, tau, gamma, ew, nw, infs, T):
    """exact distribution of the SIS state vector at time T (2^N states)"""
    import itertools
    import numpy as np
    from scipy.linalg import expm
    N = len(nodes)
    idx = {u: i for i, u in enumerate(nodes)}
    states = list(itertools.product((0, 1), repeat=N))
    sid = {s: i for i, s in enumerate(states)}
    Q = np.zeros((len(states), len(states)))
    for s in states:
        a = sid[s]
        for i, u in enumerate(nodes):
            if s[i] == 1:
                r = gamma * nw(u)
                t = list(s); t[i] = 0
                Q[a, sid[tuple(t)]] += r; Q[a, a] -= r
                for v in G.neighbors(u):
                    j = idx[v]
                    if s[j] == 0:
                        r = tau * ew(u, v)
                        t = list(s); t[j] = 1
                        Q[a, sid[tuple(t)]] += r; Q[a, a] -= r
    p0 = np.zeros(len(states)); p0[sid[tuple(1 if u in infs else 0 for u in nodes)]] = 1
    return states, p0 @ expm(Q * T)


def law_search(ctx, runs=20000):
    """failing-input search after a broken correspondence: seeded Monte-Carlo state distribution of the real fast_SIS
    at time T on tiny graphs vs the exact master equation, 6-sigma threshold per state"""
    import random
    import numpy as np, networkx as nx, EoN
    cases = []
    G = nx.path_graph(2); cases.append((G, {}, [0], 1.5, 1.0, 1.0))
    G = nx.path_graph(3)
    for (u, v), w in zip(G.edges(), (0.5, 2.0)):
        G.edges[u, v]["w"] = w
    for u, w in zip(G, (1.0, 2.0, 0.5)):
        G.nodes[u]["r"] = w
    cases.append((G, dict(transmission_weight="w", recovery_weight="r"), [0], 2.0, 1.0, 1.0))
    G = nx.complete_graph(3); cases.append((G, {}, [0, 1], 1.0, 0.7, 1.3))
    G = nx.star_graph(3); cases.append((G, {}, [1], 2.5, 1.5, 0.8))
    # dense, strongly supercritical, long horizon: nodes are reinfected by a second neighbour while a transmission
    # from the first one is still queued (interleavings that need a triangle / hub)
    G = nx.Graph([(0, 1), (1, 2), (0, 2), (2, 3)])
    for (u, v), w in zip(G.edges(), (1.0, 2.0, 0.5, 1.5)):
        G.edges[u, v]["w"] = w
    for u, w in zip(G, (1.0, 0.5, 2.0, 1.0)):
        G.nodes[u]["r"] = w
    cases.append((G, dict(transmission_weight="w", recovery_weight="r"), [0], 3.0, 2.0, 1.0))
    G = nx.complete_graph(4); cases.append((G, {}, [0], 3.0, 1.5, 1.0))
    for ci, (G, kw, infs, T, tau, gamma) in enumerate(cases):
        # the chain is time-homogeneous: started at tmin its law at tmin + T is the master-equation solution at T, whatever tmin
        # (start times before -1, after 0 and at 0 are cycled through)
        tmin = [-3.0, 0.0, 2.5, -3.0, 0.0, -20.0][ci % 6]
        nodes = list(G)
        ew = (lambda u, v: G.edges[u, v]["w"]) if kw else (lambda u, v: 1.0)
        nw = (lambda u: G.nodes[u]["r"]) if kw else (lambda u: 1.0)
        states, p = sis_master(G, nodes, tau, gamma, ew, nw, set(infs), T)
        cnt = {s: 0 for s in states}
        random.seed(12345); np.random.seed(12345)
        for _ in range(runs):
            sim = EoN.fast_SIS(G, tau, gamma, initial_infecteds=infs, tmin=tmin, tmax=tmin + T + 1, return_full_data=True, **kw)
            st = sim.get_statuses(time=tmin + T)
            cnt[tuple(1 if st[u] == "I" else 0 for u in nodes)] += 1
        worst = None
        for s, pe in zip(states, p):
            sd = max((pe * (1 - pe) / runs) ** 0.5, 1e-9)
            z = abs(cnt[s] / runs - pe) / sd
            if pe * runs > 20 and (worst is None or z > worst[0]):
                worst = (z, s, cnt[s] / runs, float(pe))
        ctx.count("fast_SIS:law-search-cases")
        # mean prevalence (one aggregated statistic has more power than the per-state tests)
        k_ = [sum(s) for s in states]
        mean_e = float(sum(pe * k for pe, k in zip(p, k_)))
        var_e = float(sum(pe * k * k for pe, k in zip(p, k_))) - mean_e ** 2
        mean_s = sum(cnt[s] * k for s, k in zip(states, k_)) / runs
        zm = abs(mean_s - mean_e) / max((var_e / runs) ** 0.5, 1e-9)
        if zm > 6 and not (worst and worst[0] > 6):
            worst = (zm, ("mean number infected",), mean_s, mean_e)
        if worst and worst[0] > 6:
            ctx.violation("fast_SIS: state distribution at time T differs from the master equation (%.1f sigma: state %s simulated %.4f exact %.4f)"
                          % worst, dict(entry="fast_SIS", stream="master-equation", n=G.order(), edges=list(map(list, G.edges())),
                                        weighted=bool(kw), infs=infs, tmin=tmin, T=T, tau=tau, gamma=gamma, seed=12345, runs=runs,
                                        state=list(worst[1]), simulated=worst[2], exact=worst[3]))
