import EoNVerif.Proofs.EventSIRStep
/-!
Helper lemmas for C11, part 3: the state invariant of the event loop of `fast_nonMarkov_SIR` (Dijkstra's
invariant under arbitrary tie-breaking), its preservation by each kind of step, and the termination measure.
-/
namespace ERat
theorem lt_of_le_of_lt {a b c : ERat} (h1 : ERat.le a b = true) (h2 : ERat.lt b c = true) : ERat.lt a c = true := by
  cases a <;> cases b <;> cases c <;> simp_all
  linarith
end ERat

namespace EventSIR

abbrev TEv := Rat × Option Node × Node

theorem fset_same {α β : Type} [DecidableEq α] (f : α → β) (x : α) (v : β) : fset f x v x = v := by simp [fset]
theorem fset_other {α β : Type} [DecidableEq α] (f : α → β) (x y : α) (v : β) (h : y ≠ x) : fset f x v y = f y := by
  simp [fset, h]

theorem mem_mid {α : Type} {l1 l2 : List α} {x y : α} (h : y ∈ l1 ++ l2) : y ∈ l1 ++ x :: l2 := by
  simp only [List.mem_append, List.mem_cons] at h ⊢; tauto
theorem mem_mid' {α : Type} {l1 l2 : List α} {x y : α} (h : y ∈ l1 ++ x :: l2) (hne : y ≠ x) : y ∈ l1 ++ l2 := by
  simp only [List.mem_append, List.mem_cons] at h ⊢; tauto
theorem count_mid (l1 l2 : List QItem) (x a : QItem) :
    (l1 ++ x :: l2).count a = (l1 ++ l2).count a + if x = a then 1 else 0 := by
  simp only [List.count_append, List.count_cons, beq_iff_eq]; omega

section Inv
variable (nodes : List Node) (nbrs : Node → List Node) (delay : Node → Node → ERat) (dur : Node → ERat)
  (tmin : Rat) (tmax : ERat) (infs recs : List Node)

/-- where a (queued or reported) transmission comes from -/
def SrcOK (tr : List TEv) (t : Rat) (src : Option Node) (v : Node) : Prop :=
  match src with
  | none => v ∈ infs ∧ t = tmin
  | some u => keeps nbrs delay dur u v = true ∧
      ∃ eu ∈ tr, eu.2.2 = u ∧ ERat.add (some eu.1) (delay u v) = some t

/-- the loop invariant, on the components of the state -/
structure InvC (st : Node → St) (rt pr : Node → ERat) (q : List QItem) (tr : List TEv) : Prop where
  st_S : ∀ v, st v = St.S ↔ (v ∉ recs ∧ ∀ e ∈ tr, e.2.2 ≠ v)
  tr_nodup : (tr.map (·.2.2)).Nodup
  tr_lt : ∀ e ∈ tr, ERat.lt (some e.1) tmax = true
  tr_src : ∀ e ∈ tr, SrcOK nbrs delay dur tmin infs tr e.1 e.2.1 e.2.2
  tr_walk : ∀ e ∈ tr, ∃ p, TW nbrs delay dur tmin infs recs e.2.2 p e.1
  tr_opt : ∀ e ∈ tr, ∀ p L, TW nbrs delay dur tmin infs recs e.2.2 p L → e.1 ≤ L
  q_lt : ∀ x ∈ q, ERat.lt (some x.time) tmax = true
  q_tr : ∀ x ∈ q, ∀ src v, x.ev = QEv.trans src v → v ∈ nodes ∧ SrcOK nbrs delay dur tmin infs tr x.time src v
  pred_edge : ∀ e ∈ tr, ∀ v d, keeps nbrs delay dur e.2.2 v = true → st v = St.S → delay e.2.2 v = some d →
      ERat.lt (some (e.1 + d)) tmax = true → ERat.le (pr v) (some (e.1 + d)) = true
  pred_init : ∀ v ∈ infs, st v = St.S → ERat.le (pr v) (some tmin) = true
  pred_q : QJ tmax (fun v => st v = St.S) pr q
  rec_time : ∀ e ∈ tr, rt e.2.2 = ERat.add (some e.1) (dur e.2.2)
  rec_R : ∀ v, st v = St.R → v ∉ recs → ∃ r, rt v = some r ∧ ERat.lt (some r) tmax = true
  rec_I : ∀ v r, st v = St.I → rt v = some r → ERat.lt (some r) tmax = true → (⟨r, QEv.recov v⟩ : QItem) ∈ q
  rec_q : ∀ x ∈ q, ∀ u, x.ev = QEv.recov u → st u = St.I ∧ rt u = some x.time
  rec_cnt : ∀ t u, q.count (⟨t, QEv.recov u⟩ : QItem) ≤ 1

variable {nodes nbrs delay dur tmin tmax infs recs}

theorem SrcOK.mono {tr tr' : List TEv} {t : Rat} {src : Option Node} {v : Node}
    (h : SrcOK nbrs delay dur tmin infs tr t src v) (hsub : ∀ e ∈ tr, e ∈ tr') :
    SrcOK nbrs delay dur tmin infs tr' t src v := by
  cases src with
  | none => exact h
  | some u =>
    obtain ⟨h1, eu, h2, h3⟩ := h
    exact ⟨h1, eu, hsub eu h2, h3⟩

variable {st : Node → St} {rt pr : Node → ERat} {q : List QItem} {tr : List TEv}

theorem InvC.mem_of_not_S (hI : InvC nodes nbrs delay dur tmin tmax infs recs st rt pr q tr) {y : Node}
    (hs : st y ≠ St.S) (hr : y ∉ recs) : ∃ e ∈ tr, e.2.2 = y := by
  by_contra hne
  apply hs
  rw [hI.st_S]
  refine ⟨hr, fun e he heq => hne ⟨e, he, heq⟩⟩

/-- Dijkstra's key step: every walk ending strictly before all queued events ends in a reported node -/
theorem InvC.claim (h : WF nodes nbrs delay dur infs recs)
    (hI : InvC nodes nbrs delay dur tmin tmax infs recs st rt pr q tr) (b : Rat) (hb : ∀ x ∈ q, b ≤ x.time)
    {y : Node} {p : List Node} {L : Rat} (hw : TW nbrs delay dur tmin infs recs y p L)
    (hLb : L < b) (hLt : ERat.lt (some L) tmax = true) : ∃ e ∈ tr, e.2.2 = y ∧ e.1 ≤ L := by
  induction hw with
  | init y hy =>
    have hns : st y ≠ St.S := by
      intro hs
      obtain ⟨p0, hp0, hle⟩ := ERat.le_some_iff.1 (hI.pred_init y hy.1 hs)
      have hlt : ERat.lt (some p0) tmax = true := ERat.lt_of_le_of_lt (by simpa using hle) hLt
      obtain ⟨x, hx, hxt, _⟩ := hI.pred_q y p0 hs hp0 hlt
      have := hb x hx
      linarith
    obtain ⟨e, he, hey⟩ := hI.mem_of_not_S hns hy.2
    refine ⟨e, he, hey, hI.tr_opt e he [] tmin ?_⟩
    rw [hey]; exact GW.init _ hy
  | step u y p t d hw he ih =>
    have hd : 0 ≤ d := Et_nonneg h _ _ _ he
    have htL : ERat.lt (some t) tmax = true :=
      ERat.lt_of_le_of_lt (a := some t) (b := some (t + d)) (by simp; linarith) hLt
    obtain ⟨eu, heu, hu, hle⟩ := ih (by linarith) htL
    have hns : st y ≠ St.S := by
      intro hs
      have hlt2 : ERat.lt (some (eu.1 + d)) tmax = true :=
        ERat.lt_of_le_of_lt (a := some (eu.1 + d)) (b := some (t + d)) (by simp; linarith) hLt
      have h1 := hI.pred_edge eu heu y d (by rw [hu]; exact he.1) hs (by rw [hu]; exact he.2.2) hlt2
      obtain ⟨p0, hp0, hle0⟩ := ERat.le_some_iff.1 h1
      have hlt : ERat.lt (some p0) tmax = true := ERat.lt_of_le_of_lt (by simpa using hle0) hlt2
      obtain ⟨x, hx, hxt, _⟩ := hI.pred_q y p0 hs hp0 hlt
      have := hb x hx
      linarith
    obtain ⟨e, he', hey⟩ := hI.mem_of_not_S hns he.2.1
    refine ⟨e, he', hey, hI.tr_opt e he' (u :: p) (t + d) ?_⟩
    rw [hey]; exact GW.step _ _ _ _ _ hw he

/-! #### popping an event whose target is no longer susceptible -/

theorem InvC.dequeue_notS {l1 l2 : List QItem} {x : QItem} {src : Option Node} {tgt : Node}
    (hI : InvC nodes nbrs delay dur tmin tmax infs recs st rt pr (l1 ++ x :: l2) tr)
    (hev : x.ev = QEv.trans src tgt) (hs : st tgt ≠ St.S) :
    InvC nodes nbrs delay dur tmin tmax infs recs st rt pr (l1 ++ l2) tr where
  st_S := hI.st_S
  tr_nodup := hI.tr_nodup
  tr_lt := hI.tr_lt
  tr_src := hI.tr_src
  tr_walk := hI.tr_walk
  tr_opt := hI.tr_opt
  q_lt := fun y hy => hI.q_lt y (mem_mid hy)
  q_tr := fun y hy => hI.q_tr y (mem_mid hy)
  pred_edge := hI.pred_edge
  pred_init := hI.pred_init
  pred_q := by
    intro v p hv hp hlt
    obtain ⟨y, hy, hyt, src', hev'⟩ := hI.pred_q v p hv hp hlt
    refine ⟨y, mem_mid' hy ?_, hyt, src', hev'⟩
    rintro rfl
    rw [hev] at hev'; injection hev' with _ h2
    subst h2; exact hs hv
  rec_time := hI.rec_time
  rec_R := hI.rec_R
  rec_I := by
    intro v r h1 h2 h3
    refine mem_mid' (hI.rec_I v r h1 h2 h3) ?_
    intro heq
    rw [← heq] at hev; cases hev
  rec_q := fun y hy => hI.rec_q y (mem_mid hy)
  rec_cnt := by
    intro t u
    have := hI.rec_cnt t u
    rw [count_mid] at this; omega

/-! #### a recovery -/

theorem InvC.recover {l1 l2 : List QItem} {x : QItem} {u : Node}
    (hI : InvC nodes nbrs delay dur tmin tmax infs recs st rt pr (l1 ++ x :: l2) tr)
    (hev : x.ev = QEv.recov u) :
    InvC nodes nbrs delay dur tmin tmax infs recs (fset st u St.R) rt pr (l1 ++ l2) tr := by
  have hx : x ∈ l1 ++ x :: l2 := by simp
  obtain ⟨hsu, hru⟩ := hI.rec_q x hx u hev
  have hS : ∀ v, fset st u St.R v = St.S → st v = St.S := by
    intro v hv
    by_cases hvu : v = u
    · subst hvu; rw [fset_same] at hv; cases hv
    · rwa [fset_other _ _ _ _ hvu] at hv
  have hxq : x ∉ l1 ++ l2 := by
    intro hin
    have := hI.rec_cnt x.time u
    rw [count_mid] at this
    have hxe : x = ⟨x.time, QEv.recov u⟩ := by cases x; simp_all
    rw [if_pos hxe] at this
    have : 0 < (l1 ++ l2).count ⟨x.time, QEv.recov u⟩ := by
      rw [← hxe]; exact List.count_pos_iff.2 hin
    omega
  exact {
    st_S := by
      intro v
      by_cases hvu : v = u
      · subst hvu
        rw [fset_same, ← hI.st_S, hsu]; simp
      · rw [fset_other _ _ _ _ hvu]; exact hI.st_S v
    tr_nodup := hI.tr_nodup
    tr_lt := hI.tr_lt
    tr_src := hI.tr_src
    tr_walk := hI.tr_walk
    tr_opt := hI.tr_opt
    q_lt := fun y hy => hI.q_lt y (mem_mid hy)
    q_tr := fun y hy => hI.q_tr y (mem_mid hy)
    pred_edge := fun e he v d h1 h2 => hI.pred_edge e he v d h1 (hS v h2)
    pred_init := fun v hv h2 => hI.pred_init v hv (hS v h2)
    pred_q := by
      intro v p hv hp hlt
      obtain ⟨y, hy, hyt, src', hev'⟩ := hI.pred_q v p (hS v hv) hp hlt
      refine ⟨y, mem_mid' hy ?_, hyt, src', hev'⟩
      rintro rfl
      rw [hev] at hev'; cases hev'
    rec_time := hI.rec_time
    rec_R := by
      intro v hv hr
      by_cases hvu : v = u
      · subst hvu; exact ⟨x.time, hru, hI.q_lt x hx⟩
      · rw [fset_other _ _ _ _ hvu] at hv; exact hI.rec_R v hv hr
    rec_I := by
      intro v r h1 h2 h3
      have hvu : v ≠ u := by
        rintro rfl; rw [fset_same] at h1; cases h1
      rw [fset_other _ _ _ _ hvu] at h1
      refine mem_mid' (hI.rec_I v r h1 h2 h3) ?_
      intro heq
      rw [← heq] at hev; simp only [QEv.recov.injEq] at hev; exact hvu hev
    rec_q := by
      intro y hy u' hev'
      obtain ⟨g1, g2⟩ := hI.rec_q y (mem_mid hy) u' hev'
      have hne : u' ≠ u := by
        rintro rfl
        apply hxq
        have : y = x := by
          cases y; cases x; simp_all
        rwa [this] at hy
      rw [fset_other _ _ _ _ hne]; exact ⟨g1, g2⟩
    rec_cnt := by
      intro t u'
      have := hI.rec_cnt t u'
      rw [count_mid] at this; omega }

end Inv

end EventSIR
