import EoNVerif.Proofs.Simple2
/-!
C03 — property theorems for the model of `Gillespie_simple_contagion` (all proved): the interpreter realises exactly
the user-specified transitions.  `Simple.WF`, `Simple.Inv`, `Simple.Enabled` are defined (unchanged) in
`EoNVerif/Proofs/Simple.lean`; helper lemmas are in `EoNVerif/Proofs/Simple.lean` and `EoNVerif/Proofs/Simple2.lean`.
-/
namespace Simple
variable {σ : Type} [DecidableEq σ]

theorem init_inv (P : SCParams σ) (h : WF P) (ic : Node → σ) (tmin : Rat) :
    ∃ s, init P ic tmin = some s ∧ Inv P s ∧ s.status = ic :=
  init_inv' P h ic tmin

/-- an enabled event is an enabled transition *of the specification*: the modified node currently has the
transition's from-status (and for induced ones the source is a neighbour, along edge direction, with the inducing
status); applying it raises no KeyError, changes exactly that node to the to-status, and restores the invariant -/
theorem applyEvent_inv (P : SCParams σ) (h : WF P) (s : SCState σ) (hs : Inv P s) (e : SCEvent) (t : Rat)
    (he : Enabled s e) :
    ∃ src m old new s', decode P e = some (src, m, old, new) ∧ s.status m = old ∧
      (∀ u, src = some u → m ∈ P.succ u ∧ ∃ tr, P.ind[e.idx - P.spont.length]? = some tr ∧ s.status u = tr.a) ∧
      applyEvent P s e t = some s' ∧ Inv P s' ∧ s'.status = fset s.status m new :=
  applyEvent_inv' P h s hs e t he

/-- the selection step only returns enabled events, for every tape -/
theorem pick_enabled (P : SCParams σ) (s : SCState σ) (cfuel : Nat) (ts ts' : TapeSt) (e : SCEvent)
    (hp : pick P s cfuel ts = .ok (e, ts')) : Enabled s e :=
  pick_enabled' P s cfuel ts ts' e hp

/-- for every tape prefix the invariant holds (nothing but spec transitions ever fires, no KeyError) -/
theorem loop_inv (P : SCParams σ) (h : WF P) (tmax : ERat) (cfuel fuel : Nat) (s s' : SCState σ) (t : ERat)
    (ts ts' : TapeSt) (hs : Inv P s) (hl : loop P tmax cfuel fuel s t ts = .ok (s', ts')) : Inv P s' :=
  loop_inv' P h tmax cfuel fuel s s' t ts ts' hs hl

theorem run_inv (P : SCParams σ) (h : WF P) (ic : Node → σ) (tmin : Rat) (tmax : ERat) (fuel cfuel : Nat)
    (ts ts' : TapeSt) (s' : SCState σ) (hr : run P ic tmin tmax fuel cfuel ts = .ok (s', ts')) : Inv P s' :=
  run_inv' P h ic tmin tmax fuel cfuel ts ts' s' hr

/-- (extra) the run never ends in the model's `KeyError`, for every tape -/
theorem run_no_keyerror (P : SCParams σ) (h : WF P) (ic : Node → σ) (tmin : Rat) (tmax : ERat) (fuel cfuel : Nat)
    (ts : TapeSt) : run P ic tmin tmax fuel cfuel ts ≠ .error "KeyError" :=
  run_no_keyerror' P h ic tmin tmax fuel cfuel ts

/-- **clock**: the rate handed to `expovariate` is the total rate of the specified chain -/
theorem clock_eq (P : SCParams σ) (h : WF P) (s : SCState σ) (hs : Inv P s) :
    totalRate P s = specTotal P s.status :=
  clock_eq' P h s hs

/-- **transition selection**: `pickIdx` returns the index whose cumulative-share interval contains the draw, so
(uniform draw) transition `i` is selected with probability `share_i = rate_i·weight_i/total` -/
theorem pickIdx_interval (shares : List Rat) (hn : ∀ x ∈ shares, 0 ≤ x) (r : Rat) (h0 : 0 ≤ r)
    (hr : r < sumRat shares) :
    let i := pickIdx shares r
    i < shares.length ∧ sumRat (shares.take i) ≤ r ∧ r < sumRat (shares.take (i + 1)) :=
  pickIdx_interval' shares hn r h0 hr

set_option linter.unusedVariables false in -- `h` is not needed for this law
/-- **actor selection** within the chosen transition: proportional to the tabulated weight (C16's law) -/
theorem actor_law (P : SCParams σ) (h : WF P) (s : SCState σ) (hs : Inv P s) (i : Nat) (ld : LD Actor)
    (hl : (s.ptS ++ s.ptI)[i]? = some ld) (a : Actor) (ha : a ∈ ld.items) (k : Nat) (hk : 0 < k)
    (hpos : ld.weighted = true → 0 < ld.weightSum) :
    Dist.mass (ld.chooseDist k) (fun o => o == some a) =
      if ld.weighted then ld.getW a / ld.weightSum * (1 - ld.rejProb ^ k) else 1 / (ld.items.length : Rat) :=
  actor_law' ld (inv_of_getElem P s hs i ld hl) a ha k hk hpos

end Simple

/-! non-vacuity: SIR (recovery rate 1, transmission rate 2) on the path 0 — 1 — 2, node 0 initially infected -/

def nbrs3 (u : Node) : List Node := if u = 0 then [1] else if u = 1 then [0, 2] else if u = 2 then [1] else []

def P3 : SCParams String :=
  { nodes := [0, 1, 2], succ := nbrs3, pred := nbrs3, directed := false,
    spont := [{ src := "I", dst := "R", rate := 1, w := none }],
    ind := [{ a := "I", b := "S", c := "I", rate := 2, w := none }],
    ret := ["S", "I", "R"] }

def ic3 (u : Node) : String := if u = 0 then "I" else "S"

theorem nbrs3_symm (u v : Node) (h : v ∈ nbrs3 u) : u ∈ nbrs3 v := by
  unfold nbrs3 at h ⊢
  split_ifs at h <;> simp at h <;> rcases h with rfl | rfl <;> simp_all

/-- the hypotheses `WF` are satisfiable -/
theorem P3_wf : Simple.WF P3 where
  nodup := by decide
  succ_nodup := by
    intro u hu
    have : u = 0 ∨ u = 1 ∨ u = 2 := by simpa [P3] using hu
    rcases this with rfl | rfl | rfl <;> decide
  succ_mem := by
    intro u hu v hv
    have : u = 0 ∨ u = 1 ∨ u = 2 := by simpa [P3] using hu
    rcases this with rfl | rfl | rfl <;> simp [P3, nbrs3] at hv ⊢ <;> grind
  succ_out := by
    intro u hu
    have : ¬ (u = 0 ∨ u = 1 ∨ u = 2) := by simpa [P3] using hu
    simp only [not_or] at this
    simp [P3, nbrs3, this]
  pred_nodup := by
    intro u hu
    have : u = 0 ∨ u = 1 ∨ u = 2 := by simpa [P3] using hu
    rcases this with rfl | rfl | rfl <;> decide
  pred_iff := fun u v => ⟨nbrs3_symm v u, nbrs3_symm u v⟩
  undirected_symm := fun _ u v hv => nbrs3_symm u v hv
  noloop := by
    intro u hu
    have hu' : u ∈ nbrs3 u := hu
    unfold nbrs3 at hu'
    split_ifs at hu' <;> simp at hu' <;> grind
  wS_nonneg := by
    intro tr htr f hf
    have : tr = { src := "I", dst := "R", rate := 1, w := none } := by simpa [P3] using htr
    rw [this] at hf; cases hf
  wI_nonneg := by
    intro tr htr f hf
    have : tr = { a := "I", b := "S", c := "I", rate := 2, w := none } := by simpa [P3] using htr
    rw [this] at hf; cases hf
  rate_nonneg := by
    constructor
    · intro tr htr
      have : tr = { src := "I", dst := "R", rate := 1, w := none } := by simpa [P3] using htr
      rw [this]; decide
    · intro tr htr
      have : tr = { a := "I", b := "S", c := "I", rate := 2, w := none } := by simpa [P3] using htr
      rw [this]; decide

/-- `init` succeeds; initially the recovery candidate is `[0]`, the transmission candidate the pair `[0, 1]`, total
rate 1·1 + 2·1 = 3; after the transmission `0 → 1` the candidates are `[0], [1]` and the pair `[1, 2]`, rate 4 -/
def view3 (s : SCState String) : List (List Actor) × List (List Actor) :=
  (s.ptS.map (·.items), s.ptI.map (·.items))

example : (Simple.init P3 ic3 0).map view3 = some ([[[0]]], [[[0, 1]]]) := by decide +kernel
example : (Simple.init P3 ic3 0).map (Simple.totalRate P3) = some 3 := by decide +kernel
example : (Simple.init P3 ic3 0).map (·.data) = some [[2], [1], [0]] := by decide +kernel

def step3 : Option (SCState String) :=
  (Simple.init P3 ic3 0).bind fun s => Simple.applyEvent P3 s { idx := 1, actor := [0, 1] } 1

example : step3.map view3 = some ([[[0], [1]]], [[[1, 2]]]) := by decide +kernel
example : step3.map (Simple.totalRate P3) = some 4 := by decide +kernel
example : step3.map (·.data) = some [[1, 2], [2, 1], [0, 0]] := by decide +kernel
