"""Predicate-based checks: the Lean predicates of Spec/Predicates.lean evaluated on the implementation's output."""
from fractions import Fraction as F
import common, allsims, gen
from allsims import KIND, SIR, fl
from common import rs


def runs(ctx, sims_list, per_sim, full=None, filt=None, nmax=8):
    """generate and run cases; yields (case, out, G, idx)"""
    for sim in sims_list:
        for _ in range(per_sim):
            c = allsims.gen_case(ctx.rng, sim, nmax=nmax)
            if filt and not filt(c):
                continue
            out, G, idx = allsims.run_impl(c, rng=ctx.rng, full=full)
            ctx.count("%s:%s" % (sim, "ok" if out["ok"] else "err=" + out["err"]))
            yield c, out, G, idx


def expect_extinct(case):
    sim = case["sim"]
    if sim not in ("Gillespie_SIR", "fast_SIR") or case["tmax"] != "inf":
        return False
    if F(case["gamma"]) <= 0:
        return False
    if case.get("nw") is not None and any(F(w) <= 0 for w in case["nw"]):
        return False
    return True


def wf_request(case, out, N):
    if out["full"]:
        times, cols = out["summary"]["times"], out["summary"]["cols"]
    else:
        times, cols = out["times"], out["cols"]
    return dict(op="wf", kind=KIND[case["sim"]], N=N, tmin=case["tmin"], tmax=case["tmax"], extinct=expect_extinct(case), collapsed=bool(out["full"]),
                times=times, cols=cols)


def strip(case):
    return {k: v for k, v in case.items() if not k.startswith("_")}
