import EoNVerif.Model.ODE
import EoNVerif.Proofs.ListDict
import Mathlib.Tactic.Ring
import Mathlib.Tactic.FieldSimp
import Mathlib.Tactic.Linarith
import Mathlib.Tactic.Positivity
import Mathlib.Algebra.Order.Field.Rat
import Mathlib.Algebra.Order.Ring.Rat
/-!
Helper lemmas for C06 / C08 (right-hand-side models of `EoN.analytic`, `Model/ODE.lean`): linearity, monotonicity
and index shift of `sumTo`, and the interchange of `sumTo` with weighted `zipWith` sums used for the
linear-invariant theorem.
-/
namespace ODE

theorem sumTo_congr (K : Nat) (f g : Nat → Rat) (h : ∀ k, k < K → f k = g k) : sumTo K f = sumTo K g :=
  sumRat_map_congr _ _ _ (fun c hc => h c (List.mem_range.1 hc))

theorem sumTo_add (K : Nat) (f g : Nat → Rat) : sumTo K (fun k => f k + g k) = sumTo K f + sumTo K g :=
  sumRat_map_add _ _ _

theorem sumTo_mul_left (K : Nat) (f : Nat → Rat) (c : Rat) : sumTo K (fun k => c * f k) = c * sumTo K f :=
  sumRat_map_mul_left _ _ _

theorem sumTo_mul_right (K : Nat) (f : Nat → Rat) (c : Rat) : sumTo K (fun k => f k * c) = sumTo K f * c :=
  sumRat_map_mul_right _ _ _

theorem sumTo_const_zero (K : Nat) : sumTo K (fun _ => 0) = 0 :=
  sumRat_map_zero _ _ (fun _ _ => rfl)

theorem sumTo_nonneg (K : Nat) (f : Nat → Rat) (h : ∀ k, k < K → 0 ≤ f k) : 0 ≤ sumTo K f :=
  sumRat_map_nonneg _ _ (fun c hc => h c (List.mem_range.1 hc))

theorem sumTo_zero_left (f : Nat → Rat) : sumTo 0 f = 0 := by simp [sumTo]

theorem sumTo_succ (K : Nat) (f : Nat → Rat) : sumTo (K + 1) f = sumTo K f + f K := by
  simp [sumTo, List.range_succ, sumRat_append]

/-- index shift -/
theorem sumTo_shift (K : Nat) (f : Nat → Rat) : sumTo K (fun k => f (k + 1)) = sumTo (K + 1) f - f 0 := by
  induction K with
  | zero => simp [sumTo_succ, sumTo_zero_left]
  | succ K ih => rw [sumTo_succ, ih, sumTo_succ (K + 1)]; ring

/-- truncated index shift (the form occurring in the compact effective-degree model) -/
theorem sumTo_shift_trunc (K : Nat) (f : Nat → Rat) (hK : 0 < K) :
    sumTo K (fun k => if k + 1 < K then f (k + 1) else 0) = sumTo K f - f 0 := by
  obtain ⟨K', rfl⟩ : ∃ K', K = K' + 1 := ⟨K - 1, by omega⟩
  rw [sumTo_succ, ← sumTo_shift]
  have : ¬ (K' + 1 < K' + 1) := by omega
  rw [if_neg this, add_zero]
  apply sumTo_congr
  intro k hk
  have : k + 1 < K' + 1 := by omega
  rw [if_pos this]

/-- interchange of `sumTo` with a weighted `zipWith` sum -/
theorem sumTo_zipWith (n : Nat) (c : Nat → Rat) (as : List Rat) (xs : List (Nat → Rat)) :
    sumTo n (fun i => c i * sumRat (List.zipWith (fun a (x : Nat → Rat) => a * x i) as xs))
      = sumRat (List.zipWith (fun a (x : Nat → Rat) => a * sumTo n (fun i => c i * x i)) as xs) := by
  induction as generalizing xs with
  | nil => simp [sumTo_const_zero]
  | cons a as ih =>
    cases xs with
    | nil => simp [sumTo_const_zero]
    | cons x xs =>
      simp only [List.zipWith_cons_cons, sumRat_cons]
      rw [← ih xs, ← sumTo_mul_left, ← sumTo_add]
      apply sumTo_congr; intro i _; ring

theorem sumRat_zipWith_const (g : (Nat → Rat) → Rat) (C : Rat) (as : List Rat) (xs : List (Nat → Rat))
    (hlen : xs.length = as.length) (h : ∀ x ∈ xs, g x = C) :
    sumRat (List.zipWith (fun a (x : Nat → Rat) => a * g x) as xs) = sumRat as * C := by
  induction as generalizing xs with
  | nil => simp
  | cons a as ih =>
    cases xs with
    | nil => simp at hlen
    | cons x xs =>
      simp only [List.zipWith_cons_cons, sumRat_cons]
      rw [ih xs (by simpa using hlen) (fun y hy => h y (List.mem_cons_of_mem _ hy)), h x List.mem_cons_self]
      ring

theorem sumRat_zipWith_zero (g : (Nat → Rat) → Rat) (bs : List Rat) (fs : List (Nat → Rat))
    (h : ∀ f ∈ fs, g f = 0) :
    sumRat (List.zipWith (fun b (f : Nat → Rat) => b * g f) bs fs) = 0 := by
  induction bs generalizing fs with
  | nil => simp
  | cons b bs ih =>
    cases fs with
    | nil => simp
    | cons f fs =>
      simp only [List.zipWith_cons_cons, sumRat_cons]
      rw [ih fs (fun y hy => h y (List.mem_cons_of_mem _ hy)), h f List.mem_cons_self]
      ring

theorem kf_zero : kf 0 = 0 := by simp [kf]

theorem kf_nonneg (k : Nat) : 0 ≤ kf k := by simp [kf]

/-- `k θ^(k-1) θ = k θ^k` (also for `k = 0`) -/
theorem kf_pow_pred (k : Nat) (theta : Rat) : kf k * theta ^ (k - 1) * theta = kf k * theta ^ k := by
  cases k with
  | zero => simp [kf]
  | succ k => simp [pow_succ, mul_assoc]

end ODE
