"""Generated-code stream for the stateful part of Simulation_Investigation (harness/pysi2lean.py -> Gen/InvestState.lean,
driver `driversi`): a random SEQUENCE of calls — summary(), summary(G), summary(nodelist=<sub-population>), t(), S(), I(),
R() — is made on the real object (built from node histories) and on the generated state machine; every returned value must
coincide, and (property level) every whole-population answer must equal the counts implied by the node histories."""
import json, os, subprocess, fcntl
from fractions import Fraction as F
import common
from common import rs
from sims import arr, iarr


def run_stream(ctx, objects):
    """objects: list of (rep, obj, nodes, statuses, histories-by-index) from full-data runs of the calling check"""
    import pysi2lean, pyinvest2lean
    lean = common.LEAN
    os.makedirs(os.path.join(lean, ".audit"), exist_ok=True)
    with open(os.path.join(lean, ".audit", "geninv.lock"), "w") as lock:
        fcntl.flock(lock, fcntl.LOCK_EX)
        try:
            _, e1 = pyinvest2lean.regenerate()
            _, e2 = pysi2lean.regenerate()
            errors = dict({k: v for k, v in e1.items() if k == "summary"}, **e2)
        except Exception as e:
            errors = {"translator": "crashed: %r" % e}
        if errors:
            ctx.disagreement("generated-si:translation", dict(entry="Simulation_Investigation(cache)", errors=errors))
            return
        p = common.lake(["build", "driversi"])
    if p.returncode != 0:
        ctx.disagreement("generated-si:build", dict(entry="Simulation_Investigation(cache)", log="\n".join(
            l for l in (p.stdout + p.stderr).splitlines() if "error" in l)[:1500]))
        return
    r = ctx.rng
    reqs, metas = [], []
    for rep, obj, nodes, sts, hists in objects:
        ops, outs = [], []
        for _ in range(r.randint(3, 9)):
            kind = r.choice(["summary", "summaryG", "sub", "sub", "t", "S", "I", "R"])
            try:
                if kind == "summary":
                    ops.append(["summary", None]); res = obj.summary()
                elif kind == "summaryG":
                    ops.append(["summary", "G"]); res = obj.summary(obj.G)
                elif kind == "sub":
                    sub = r.sample(range(len(nodes)), r.randint(1, len(nodes)))
                    ops.append(["summary", sub]); res = obj.summary([nodes[v] for v in sub])
                else:
                    ops.append([kind]); res = getattr(obj, kind)()
                if kind in ("summary", "summaryG", "sub"):
                    outs.append(dict(times=arr(res[0]), cols=[iarr(res[1][s]) for s in sts]))
                elif kind == "t":
                    outs.append(arr(res))
                else:
                    outs.append(iarr(res))
            except Exception as e:
                outs.append(dict(err=type(e).__name__))
        reqs.append(dict(hists=hists, statuses=sts, ops=ops))
        metas.append((rep, ops, outs))
        ctx.count("generated-model:si-sequences")
    exe = os.path.join(lean, ".lake", "build", "bin", "driversi")
    data = "\n".join(json.dumps(x, separators=(",", ":")) for x in reqs) + "\n"
    pr = subprocess.run([exe], input=data, capture_output=True, text=True)
    lines = pr.stdout.splitlines()
    if pr.returncode != 0 or len(lines) != len(reqs):
        raise RuntimeError("driversi crashed: " + pr.stderr[-1000:])
    for (rep, ops, outs), line in zip(metas, lines):
        g = json.loads(line)
        ctx.traces += 1
        if not g.get("ok"):
            ctx.disagreement("generated-si:driver", dict(rep, ops=ops, generated=g))
            continue
        if g["outs"] != outs:
            i = next((i for i in range(min(len(outs), len(g["outs"]))) if outs[i] != g["outs"][i]), min(len(outs), len(g["outs"])))
            ctx.disagreement("generated-si:call %d of the sequence differs" % i,
                             dict(rep, ops=ops, first_diff=i, impl=outs[i] if i < len(outs) else None, generated=g["outs"][i] if i < len(g["outs"]) else None))
