import EoNVerif.Gen.Vec
/-! Functional arrays for the loop-style generated code: `a[i] = v`, `a[i, j] = v`. -/
namespace Gen
/-- `a[i] = v` -/
def upd1 (a : Nat → Rat) (i : Nat) (v : Rat) : Nat → Rat := fun k => if k = i then v else a k
/-- `a[i, j] = v` -/
def upd2 (a : Nat → Nat → Rat) (i j : Nat) (v : Rat) : Nat → Nat → Rat := fun k l => if k = i ∧ l = j then v else a k l
@[simp] theorem upd1_same (a i v) : upd1 a i v i = v := by simp [upd1]
theorem upd1_other (a i v k) (h : k ≠ i) : upd1 a i v k = a k := by simp [upd1, h]
@[simp] theorem upd2_same (a i j v) : upd2 a i j v i j = v := by simp [upd2]
theorem upd2_other (a i j v k l) (h : ¬ (k = i ∧ l = j)) : upd2 a i j v k l = a k l := by simp [upd2, h]
end Gen
