import EoNVerif.Model.EventSIR
import Mathlib.Tactic.Linarith
import Mathlib.Algebra.Order.Field.Rat
import Mathlib.Data.List.Nodup
import Mathlib.Data.List.Perm.Subperm
/-!
Helper lemmas for C11 (`fast_nonMarkov_SIR`), part 1: the order on `ERat`, weighted walks in the kept-edge
digraph, the Bellman–Ford characterisation of `fppTime` and the out-component `outComp`.
-/

/-! ### `ERat` -/
namespace ERat
@[simp] theorem le_some_some (x y : Rat) : ERat.le (some x) (some y) = decide (x ≤ y) := rfl
@[simp] theorem le_none (a : ERat) : ERat.le a none = true := by cases a <;> rfl
@[simp] theorem le_none_some (y : Rat) : ERat.le none (some y) = false := rfl
@[simp] theorem lt_some_some (x y : Rat) : ERat.lt (some x) (some y) = decide (x < y) := rfl
@[simp] theorem lt_some_none (x : Rat) : ERat.lt (some x) none = true := rfl
@[simp] theorem lt_none (b : ERat) : ERat.lt none b = false := rfl
@[simp] theorem add_some_some (x y : Rat) : ERat.add (some x) (some y) = some (x + y) := rfl
@[simp] theorem add_none_left (b : ERat) : ERat.add none b = none := rfl
@[simp] theorem add_none_right (a : ERat) : ERat.add a none = none := by cases a <;> rfl

theorem le_refl (a : ERat) : ERat.le a a = true := by cases a <;> simp
theorem le_trans {a b c : ERat} (h1 : ERat.le a b = true) (h2 : ERat.le b c = true) : ERat.le a c = true := by
  cases a <;> cases b <;> cases c <;> simp_all
  linarith
theorem le_of_not_lt {a b : ERat} (h : ERat.lt a b = false) : ERat.le b a = true := by
  cases a <;> cases b <;> simp_all
theorem add_le_add_right {a b : ERat} (c : ERat) (h : ERat.le a b = true) :
    ERat.le (ERat.add a c) (ERat.add b c) = true := by
  cases a <;> cases b <;> cases c <;> simp_all
theorem le_some_iff {a : ERat} {y : Rat} : ERat.le a (some y) = true ↔ ∃ x, a = some x ∧ x ≤ y := by
  cases a <;> simp
theorem add_eq_some {a b : ERat} {t : Rat} : ERat.add a b = some t ↔ ∃ x y, a = some x ∧ b = some y ∧ x + y = t := by
  cases a <;> cases b <;> simp
end ERat

namespace EventSIR

theorem emin_le_left (a b : ERat) : ERat.le (emin a b) a = true := by
  unfold emin; split
  · exact ERat.le_refl a
  · rename_i h; cases a <;> cases b <;> simp_all; linarith
theorem emin_le_right (a b : ERat) : ERat.le (emin a b) b = true := by
  unfold emin; split
  · assumption
  · exact ERat.le_refl b
theorem emin_cases (a b : ERat) : emin a b = a ∨ emin a b = b := by
  unfold emin; split <;> simp

/-! ### weighted walks -/

/-- `GW I E t0 v p t`: `v :: p` is (in reverse order) a walk from a node of `I` to `v` along edges of `E`, of
total weight `t - t0`. -/
inductive GW (I : Node → Prop) (E : Node → Node → Rat → Prop) (t0 : Rat) : Node → List Node → Rat → Prop
  | init (v : Node) : I v → GW I E t0 v [] t0
  | step (u v : Node) (p : List Node) (t d : Rat) : GW I E t0 u p t → E u v d → GW I E t0 v (u :: p) (t + d)

section GWlemmas
variable {I : Node → Prop} {E : Node → Node → Rat → Prop} {t0 : Rat}

theorem GW.mem_nodes {nodes : List Node} (hI : ∀ v, I v → v ∈ nodes) (hE : ∀ u v d, E u v d → u ∈ nodes → v ∈ nodes)
    {v : Node} {p : List Node} {t : Rat} (h : GW I E t0 v p t) : ∀ x ∈ v :: p, x ∈ nodes := by
  induction h with
  | init v hv => intro x hx; simp at hx; subst hx; exact hI _ hv
  | step u v p t d _ he ih =>
    intro x hx
    rcases List.mem_cons.1 hx with rfl | hx
    · exact hE _ _ _ he (ih u (List.mem_cons_self ..))
    · exact ih x hx

theorem GW.suffix (hd : ∀ u v d, E u v d → 0 ≤ d) {u : Node} {p : List Node} {t : Rat} (h : GW I E t0 u p t)
    (v : Node) (hv : v ∈ u :: p) : ∃ q t', GW I E t0 v q t' ∧ (v :: q) <:+ (u :: p) ∧ t' ≤ t := by
  induction h with
  | init u hu =>
    simp at hv; subst hv
    exact ⟨[], t0, GW.init _ hu, List.suffix_refl _, le_refl _⟩
  | step u0 u p t d hw he ih =>
    rcases List.mem_cons.1 hv with rfl | hv
    · exact ⟨u0 :: p, t + d, GW.step _ _ _ _ _ hw he, List.suffix_refl _, le_refl _⟩
    · obtain ⟨q, t', h1, h2, h3⟩ := ih hv
      refine ⟨q, t', h1, ?_, ?_⟩
      · exact h2.trans (List.suffix_cons _ _)
      · have := hd _ _ _ he; linarith

theorem GW.nodup (hd : ∀ u v d, E u v d → 0 ≤ d) {v : Node} {p : List Node} {t : Rat} (h : GW I E t0 v p t) :
    ∃ p' t', GW I E t0 v p' t' ∧ (v :: p').Nodup ∧ t' ≤ t := by
  induction h with
  | init v hv => exact ⟨[], t0, GW.init _ hv, by simp, le_refl _⟩
  | step u v p t d _ he ih =>
    obtain ⟨p', t', h1, h2, h3⟩ := ih
    by_cases hv : v ∈ u :: p'
    · obtain ⟨q, t'', g1, g2, g3⟩ := GW.suffix hd h1 v hv
      refine ⟨q, t'', g1, h2.sublist g2.sublist, ?_⟩
      have := hd _ _ _ he; linarith
    · exact ⟨u :: p', t' + d, GW.step _ _ _ _ _ h1 he, List.nodup_cons.2 ⟨hv, h2⟩, by linarith⟩

theorem GW.short {nodes : List Node} (hI : ∀ v, I v → v ∈ nodes) (hE : ∀ u v d, E u v d → u ∈ nodes → v ∈ nodes)
    (hd : ∀ u v d, E u v d → 0 ≤ d) {v : Node} {p : List Node} {t : Rat} (h : GW I E t0 v p t) :
    ∃ p' t', GW I E t0 v p' t' ∧ p'.length + 1 ≤ nodes.length ∧ t' ≤ t := by
  obtain ⟨p', t', h1, h2, h3⟩ := GW.nodup hd h
  refine ⟨p', t', h1, ?_, h3⟩
  have hsub : (v :: p') ⊆ nodes := fun x hx => GW.mem_nodes hI hE h1 x hx
  have := (List.subperm_of_subset h2 hsub).length_le
  simpa using this

theorem GW.t0_le (hd : ∀ u v d, E u v d → 0 ≤ d) {v : Node} {p : List Node} {t : Rat} (h : GW I E t0 v p t) :
    t0 ≤ t := by
  induction h with
  | init v hv => exact le_refl _
  | step u v p t d _ he ih => have := hd _ _ _ he; linarith

end GWlemmas

/-! ### the kept-edge digraph -/

/-- timed kept edges (finite delay) into non-recovered nodes -/
def Et (nbrs : Node → List Node) (delay : Node → Node → ERat) (dur : Node → ERat) (recs : List Node)
    (u v : Node) (d : Rat) : Prop :=
  keeps nbrs delay dur u v = true ∧ v ∉ recs ∧ delay u v = some d

/-- initial nodes -/
def It (infs recs : List Node) (v : Node) : Prop := v ∈ infs ∧ v ∉ recs

/-- a timed walk from the initial set to `v` arriving at time `t` -/
abbrev TW (nbrs : Node → List Node) (delay : Node → Node → ERat) (dur : Node → ERat) (tmin : Rat)
    (infs recs : List Node) : Node → List Node → Rat → Prop :=
  GW (It infs recs) (Et nbrs delay dur recs) tmin

/-- well-formed inputs -/
structure WF (nodes : List Node) (nbrs : Node → List Node) (delay : Node → Node → ERat) (dur : Node → ERat)
    (infs recs : List Node) : Prop where
  nodup : nodes.Nodup
  nbr_nodup : ∀ u ∈ nodes, (nbrs u).Nodup
  nbr_mem : ∀ u ∈ nodes, ∀ v ∈ nbrs u, v ∈ nodes
  delay_nonneg : ∀ u v d, delay u v = some d → 0 ≤ d
  dur_nonneg : ∀ u d, dur u = some d → 0 ≤ d
  infs_nodup : infs.Nodup
  infs_mem : ∀ u ∈ infs, u ∈ nodes
  recs_mem : ∀ u ∈ recs, u ∈ nodes
  disjoint : ∀ u ∈ infs, u ∉ recs

def tableParams (nodes : List Node) (nbrs : Node → List Node) (delay : Node → Node → ERat) (dur : Node → ERat)
    (tmin : Rat) (tmax : ERat) : ESParams :=
  { nodes := nodes, nbrs := nbrs, joint := jointOfTables delay dur, tmin := tmin, tmax := tmax }

/-- recoveries reported by a run: rows in which `I` decreases are not recorded with the node in the state, so the
recovery list is reconstructed from `recTime` for the nodes whose final status is `R` (this is what the
implementation's full-data bookkeeping does, simulation.py 2370–2371) -/
def recoveriesOf (nodes recs : List Node) (s : ESState) : List (Rat × Node) :=
  nodes.filterMap fun v =>
    if s.status v = St.R ∧ v ∉ recs then (match s.recTime v with | some t => some (t, v) | none => none) else none

/-- the kept-edge digraph of the percolation builders and its out-component (`get_infected_nodes`) -/
inductive Reach (nbrs : Node → List Node) (delay : Node → Node → ERat) (dur : Node → ERat) (infs recs : List Node) :
    Node → Prop
  | init (v : Node) : v ∈ infs → v ∉ recs → Reach nbrs delay dur infs recs v
  | step (u v : Node) : Reach nbrs delay dur infs recs u → keeps nbrs delay dur u v = true → v ∉ recs →
      Reach nbrs delay dur infs recs v

section Graph
variable {nodes : List Node} {nbrs : Node → List Node} {delay : Node → Node → ERat} {dur : Node → ERat}
  {infs recs : List Node}

theorem keeps_mem (h : WF nodes nbrs delay dur infs recs) {u v : Node} (hk : keeps nbrs delay dur u v = true)
    (hu : u ∈ nodes) : v ∈ nodes := by
  unfold keeps at hk
  simp only [Bool.and_eq_true, List.contains_iff_mem] at hk
  exact h.nbr_mem u hu v hk.1

theorem It_mem (h : WF nodes nbrs delay dur infs recs) : ∀ v, It infs recs v → v ∈ nodes :=
  fun v hv => h.infs_mem v hv.1
theorem Et_mem (h : WF nodes nbrs delay dur infs recs) :
    ∀ u v d, Et nbrs delay dur recs u v d → u ∈ nodes → v ∈ nodes :=
  fun _ _ _ he hu => keeps_mem h he.1 hu
theorem Et_nonneg (h : WF nodes nbrs delay dur infs recs) : ∀ u v d, Et nbrs delay dur recs u v d → 0 ≤ d :=
  fun u v d he => h.delay_nonneg u v d he.2.2

theorem TW.not_recs {tmin : Rat} {v : Node} {p : List Node} {t : Rat}
    (hw : TW nbrs delay dur tmin infs recs v p t) : v ∉ recs := by
  cases hw with
  | init _ hv => exact hv.2
  | step u _ p t d _ he => exact he.2.1

end Graph

/-! ### Bellman–Ford -/

theorem iter_succ' {α : Type} (f : α → α) (n : Nat) (x : α) : iter f (n + 1) x = f (iter f n x) := by
  induction n generalizing x with
  | zero => rfl
  | succ n ih => rw [iter, ih]; rfl

theorem alGet_map {β : Type} (l : List Node) (f : Node → β) (d : β) (x : Node) :
    alGet (l.map fun v => (v, f v)) d x = if x ∈ l then f x else d := by
  induction l with
  | nil => simp [alGet]
  | cons a l ih =>
    simp only [List.map_cons, alGet, ih, List.mem_cons]
    by_cases h : a = x
    · subst h; simp
    · have h' : ¬ x = a := fun e => h e.symm
      simp [h, h']

section Fold
variable (c : Node → Prop) [DecidablePred c] (g : Node → ERat)

theorem foldl_emin_le_init (l : List Node) (a : ERat) :
    ERat.le (l.foldl (fun acc u => if c u then emin acc (g u) else acc) a) a = true := by
  induction l generalizing a with
  | nil => exact ERat.le_refl a
  | cons x l ih =>
    simp only [List.foldl_cons]
    refine ERat.le_trans (ih _) ?_
    split
    · exact emin_le_left _ _
    · exact ERat.le_refl a

theorem foldl_emin_le_term (l : List Node) (a : ERat) (u : Node) (hu : u ∈ l) (hc : c u) :
    ERat.le (l.foldl (fun acc u => if c u then emin acc (g u) else acc) a) (g u) = true := by
  induction l generalizing a with
  | nil => simp at hu
  | cons x l ih =>
    simp only [List.foldl_cons]
    rcases List.mem_cons.1 hu with rfl | hu
    · refine ERat.le_trans (foldl_emin_le_init c g l _) ?_
      rw [if_pos hc]; exact emin_le_right _ _
    · exact ih _ hu

theorem foldl_emin_cases (l : List Node) (a : ERat) :
    l.foldl (fun acc u => if c u then emin acc (g u) else acc) a = a ∨
      ∃ u ∈ l, c u ∧ l.foldl (fun acc u => if c u then emin acc (g u) else acc) a = g u := by
  induction l generalizing a with
  | nil => left; rfl
  | cons x l ih =>
    simp only [List.foldl_cons]
    rcases ih (if c x then emin a (g x) else a) with h | ⟨u, hu, hc, h⟩
    · by_cases hx : c x
      · rw [if_pos hx] at h ⊢
        rcases emin_cases a (g x) with e | e
        · left; rw [h, e]
        · right; exact ⟨x, List.mem_cons_self .., hx, by rw [h, e]⟩
      · rw [if_neg hx] at h ⊢; left; exact h
    · right; exact ⟨u, List.mem_cons_of_mem _ hu, hc, h⟩
end Fold

section BF
variable (nodes : List Node) (nbrs : Node → List Node) (delay : Node → Node → ERat) (dur : Node → ERat)
  (tmin : Rat) (infs recs : List Node)

/-- the distance table after `k` Bellman–Ford rounds -/
def Dk (k : Nat) (v : Node) : ERat :=
  alGet (iter (relax nodes nbrs delay dur recs) k
    (nodes.map fun v => (v, if v ∈ infs ∧ v ∉ recs then some tmin else none))) none v

theorem fppTime_eq : fppTime nodes nbrs delay dur tmin infs recs = Dk nodes nbrs delay dur tmin infs recs nodes.length := rfl

theorem Dk_zero (v : Node) : Dk nodes nbrs delay dur tmin infs recs 0 v =
    if v ∈ nodes then (if v ∈ infs ∧ v ∉ recs then some tmin else none) else none := by
  unfold Dk; rw [iter, alGet_map]

theorem relax_get (d : List (Node × ERat)) (v : Node) : alGet (relax nodes nbrs delay dur recs d) none v =
    if v ∈ nodes then
      (if v ∈ recs then none else
        nodes.foldl (fun acc u =>
          if u ∉ recs ∧ keeps nbrs delay dur u v then emin acc (ERat.add (alGet d none u) (delay u v)) else acc)
          (alGet d none v))
    else none := by
  unfold relax; rw [alGet_map]

theorem Dk_succ (k : Nat) (v : Node) : Dk nodes nbrs delay dur tmin infs recs (k + 1) v =
    if v ∈ nodes then
      (if v ∈ recs then none else
        nodes.foldl (fun acc u =>
          if u ∉ recs ∧ keeps nbrs delay dur u v then
            emin acc (ERat.add (Dk nodes nbrs delay dur tmin infs recs k u) (delay u v)) else acc)
          (Dk nodes nbrs delay dur tmin infs recs k v))
    else none := by
  unfold Dk; rw [iter_succ', relax_get]

variable {nodes nbrs delay dur tmin infs recs}

theorem Dk_walk (k : Nat) : ∀ (v : Node) (t : Rat), Dk nodes nbrs delay dur tmin infs recs k v = some t →
    ∃ p, TW nbrs delay dur tmin infs recs v p t := by
  induction k with
  | zero =>
    intro v t h
    rw [Dk_zero] at h
    split at h
    · split at h
      · rename_i hv; injection h with h; subst h; exact ⟨[], GW.init _ hv⟩
      · cases h
    · cases h
  | succ k ih =>
    intro v t h
    rw [Dk_succ] at h
    split at h
    · split at h
      · cases h
      · rename_i hn hr
        rcases foldl_emin_cases (fun u => u ∉ recs ∧ keeps nbrs delay dur u v = true)
          (fun u => ERat.add (Dk nodes nbrs delay dur tmin infs recs k u) (delay u v)) nodes
          (Dk nodes nbrs delay dur tmin infs recs k v) with e | ⟨u, hu, hc, e⟩
        · rw [e] at h; exact ih v t h
        · rw [e] at h
          obtain ⟨x, y, hx, hy, hxy⟩ := ERat.add_eq_some.1 h
          obtain ⟨p, hp⟩ := ih u x hx
          subst hxy
          exact ⟨u :: p, GW.step _ _ _ _ _ hp ⟨hc.2, hr, hy⟩⟩
    · cases h

theorem Dk_mono (k : Nat) (v : Node) (hr : v ∉ recs) :
    ERat.le (Dk nodes nbrs delay dur tmin infs recs (k + 1) v) (Dk nodes nbrs delay dur tmin infs recs k v) = true := by
  by_cases hn : v ∈ nodes
  · rw [Dk_succ, if_pos hn, if_neg hr]
    exact foldl_emin_le_init _ _ _ _
  · have : Dk nodes nbrs delay dur tmin infs recs k v = none := by
      cases k with
      | zero => rw [Dk_zero, if_neg hn]
      | succ k => rw [Dk_succ, if_neg hn]
    rw [this]; simp

theorem Dk_le_walk (h : WF nodes nbrs delay dur infs recs) {v : Node} {p : List Node} {t : Rat}
    (hw : TW nbrs delay dur tmin infs recs v p t) :
    ∀ k, p.length ≤ k → ERat.le (Dk nodes nbrs delay dur tmin infs recs k v) (some t) = true := by
  induction hw with
  | init v hv =>
    intro k hk
    clear hk
    induction k with
    | zero => rw [Dk_zero, if_pos (h.infs_mem v hv.1), if_pos (show v ∈ infs ∧ v ∉ recs from hv)]; simp
    | succ k ih => exact ERat.le_trans (Dk_mono k v hv.2) ih
  | step u v p t d hw he ih =>
    intro k hk
    cases k with
    | zero => simp at hk
    | succ k =>
      have hun : u ∈ nodes := GW.mem_nodes (It_mem h) (Et_mem h) hw u (List.mem_cons_self ..)
      have hvn : v ∈ nodes := Et_mem h _ _ _ he hun
      have hur : u ∉ recs := TW.not_recs hw
      rw [Dk_succ, if_pos hvn, if_neg he.2.1]
      refine ERat.le_trans (foldl_emin_le_term (fun u => u ∉ recs ∧ keeps nbrs delay dur u v = true)
        (fun u => ERat.add (Dk nodes nbrs delay dur tmin infs recs k u) (delay u v)) nodes _ u hun ⟨hur, he.1⟩) ?_
      have := ih k (by simpa using hk)
      have h2 := ERat.add_le_add_right (delay u v) this
      rw [he.2.2] at h2 ⊢
      simpa using h2

/-- `fppTime` is attained by a walk -/
theorem fppTime_walk {v : Node} {t : Rat} (hv : fppTime nodes nbrs delay dur tmin infs recs v = some t) :
    ∃ p, TW nbrs delay dur tmin infs recs v p t := by
  rw [fppTime_eq] at hv; exact Dk_walk _ v t hv

/-- `fppTime` is a lower bound for all walks -/
theorem fppTime_le_walk (h : WF nodes nbrs delay dur infs recs) {v : Node} {p : List Node} {t : Rat}
    (hw : TW nbrs delay dur tmin infs recs v p t) :
    ERat.le (fppTime nodes nbrs delay dur tmin infs recs v) (some t) = true := by
  obtain ⟨p', t', h1, h2, h3⟩ := GW.short (It_mem h) (Et_mem h) (Et_nonneg h) hw
  rw [fppTime_eq]
  refine ERat.le_trans (Dk_le_walk h h1 nodes.length (by omega)) ?_
  simpa using h3

end BF

/-! ### out-component -/

section OutComp
variable {nodes : List Node} {nbrs : Node → List Node} {delay : Node → Node → ERat} {dur : Node → ERat}
  {infs recs : List Node}

def expandF (nodes : List Node) (nbrs : Node → List Node) (delay : Node → Node → ERat) (dur : Node → ERat)
    (recs : List Node) (cur : List Node) : List Node :=
  nodes.filter fun v => v ∉ recs ∧ (cur.contains v || cur.any fun u => keeps nbrs delay dur u v)

def Ck (nodes : List Node) (nbrs : Node → List Node) (delay : Node → Node → ERat) (dur : Node → ERat)
    (infs recs : List Node) (k : Nat) : List Node :=
  iter (expandF nodes nbrs delay dur recs) k (nodes.filter fun v => v ∈ infs ∧ v ∉ recs)

theorem outComp_eq : outComp nodes nbrs delay dur infs recs = Ck nodes nbrs delay dur infs recs nodes.length := rfl

theorem mem_Ck_zero (v : Node) : v ∈ Ck nodes nbrs delay dur infs recs 0 ↔ v ∈ nodes ∧ v ∈ infs ∧ v ∉ recs := by
  simp [Ck, iter]

theorem mem_expandF (cur : List Node) (v : Node) : v ∈ expandF nodes nbrs delay dur recs cur ↔
    v ∈ nodes ∧ v ∉ recs ∧ (v ∈ cur ∨ ∃ u ∈ cur, keeps nbrs delay dur u v = true) := by
  unfold expandF; simp

theorem mem_Ck_succ (k : Nat) (v : Node) : v ∈ Ck nodes nbrs delay dur infs recs (k + 1) ↔
    v ∈ nodes ∧ v ∉ recs ∧ (v ∈ Ck nodes nbrs delay dur infs recs k ∨
      ∃ u ∈ Ck nodes nbrs delay dur infs recs k, keeps nbrs delay dur u v = true) := by
  unfold Ck; rw [iter_succ', mem_expandF]

theorem Ck_reach (k : Nat) : ∀ v, v ∈ Ck nodes nbrs delay dur infs recs k → Reach nbrs delay dur infs recs v := by
  induction k with
  | zero => intro v hv; rw [mem_Ck_zero] at hv; exact Reach.init v hv.2.1 hv.2.2
  | succ k ih =>
    intro v hv; rw [mem_Ck_succ] at hv
    rcases hv.2.2 with h | ⟨u, hu, hk⟩
    · exact ih v h
    · exact Reach.step u v (ih u hu) hk hv.2.1

theorem Ck_mono (k : Nat) (v : Node) (hv : v ∈ Ck nodes nbrs delay dur infs recs k) :
    v ∈ Ck nodes nbrs delay dur infs recs (k + 1) := by
  rw [mem_Ck_succ]
  cases k with
  | zero => rw [mem_Ck_zero] at hv; exact ⟨hv.1, hv.2.2, Or.inl ((mem_Ck_zero v).2 hv)⟩
  | succ k => have := (mem_Ck_succ k v).1 hv; exact ⟨this.1, this.2.1, Or.inl hv⟩

theorem Ck_mono_le {k j : Nat} (hkj : k ≤ j) (v : Node) (hv : v ∈ Ck nodes nbrs delay dur infs recs k) :
    v ∈ Ck nodes nbrs delay dur infs recs j := by
  induction hkj with
  | refl => exact hv
  | step _ ih => exact Ck_mono _ v ih

/-- untimed kept edges -/
def Er (nbrs : Node → List Node) (delay : Node → Node → ERat) (dur : Node → ERat) (recs : List Node)
    (u v : Node) (d : Rat) : Prop :=
  keeps nbrs delay dur u v = true ∧ v ∉ recs ∧ d = 0

theorem Reach.walk {v : Node} (hr : Reach nbrs delay dur infs recs v) :
    ∃ p, GW (It infs recs) (Er nbrs delay dur recs) 0 v p 0 := by
  induction hr with
  | init v h1 h2 => exact ⟨[], GW.init _ ⟨h1, h2⟩⟩
  | step u v _ hk hv ih =>
    obtain ⟨p, hp⟩ := ih
    have := GW.step (I := It infs recs) (E := Er nbrs delay dur recs) u v p 0 0 hp ⟨hk, hv, rfl⟩
    rw [add_zero] at this
    exact ⟨_, this⟩

theorem walk_Ck (h : WF nodes nbrs delay dur infs recs) {v : Node} {p : List Node} {t : Rat}
    (hw : GW (It infs recs) (Er nbrs delay dur recs) 0 v p t) : v ∈ Ck nodes nbrs delay dur infs recs p.length := by
  induction hw with
  | init v hv => rw [List.length_nil, mem_Ck_zero]; exact ⟨h.infs_mem v hv.1, hv⟩
  | step u v p t d hw he ih =>
    rw [List.length_cons, mem_Ck_succ]
    have hun : u ∈ nodes := ((mem_Ck_succ p.length u).1 (Ck_mono _ _ ih)).1
    exact ⟨keeps_mem h he.1 hun, he.2.1, Or.inr ⟨u, ih, he.1⟩⟩

theorem outComp_iff (h : WF nodes nbrs delay dur infs recs) (v : Node) :
    v ∈ outComp nodes nbrs delay dur infs recs ↔ Reach nbrs delay dur infs recs v := by
  rw [outComp_eq]
  constructor
  · exact Ck_reach _ v
  · intro hr
    obtain ⟨p, hp⟩ := hr.walk
    obtain ⟨p', t', h1, h2, _⟩ := GW.short (nodes := nodes) (It_mem h) (fun u v d he hu => keeps_mem h he.1 hu)
      (fun u v d he => le_of_eq he.2.2.symm) hp
    exact Ck_mono_le (by omega) v (walk_Ck h h1)

end OutComp

end EventSIR
