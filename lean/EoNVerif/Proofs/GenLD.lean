import EoNVerif.Gen.ListDictGen
import EoNVerif.Model.GenLDOps
import EoNVerif.Proofs.ListDict
/-!
Refinement (C16b): the Lean code GENERATED statement by statement from the Python class `_ListDict_`
(`EoNVerif/Gen/ListDictGen.lean`) is simulated by the hand-written model `LD` (`EoNVerif/Model/ListDict.lean`).

* `GenLD.R p l` — the simulation relation (all attributes equal, `item_to_position` is the position map of `items`);
* `init_R`, `remove_sim`, `update_sim`, `insert_sim` (forward), `remove_keyError`, `*_sim_back` (backward),
  `applyOps_sim`, `applyOps_sim_back`, `choose_random_sim`, `total_weight_sim`.
-/

/-! ### association lists: `alFind?`, `ddTouch` -/
namespace GenLD
section AL
variable {κ ν : Type} [DecidableEq κ]

theorem alFind?_of_alHas (d : List (κ × ν)) (k : κ) (dflt : ν) (h : alHas d k = true) :
    PyRT.alFind? d k = some (alGet d dflt k) := by
  induction d with
  | nil => simp [alHas] at h
  | cons p t ih =>
    obtain ⟨k', v⟩ := p
    by_cases hk : k' = k
    · simp [PyRT.alFind?, alGet, hk]
    · simp only [alHas, hk, if_false] at h
      simp [PyRT.alFind?, alGet, hk, ih h]

theorem alFind?_of_not_alHas (d : List (κ × ν)) (k : κ) (h : alHas d k = false) :
    PyRT.alFind? d k = none := by
  induction d with
  | nil => rfl
  | cons p t ih =>
    obtain ⟨k', v⟩ := p
    by_cases hk : k' = k
    · simp [alHas, hk] at h
    · simp only [alHas, hk, if_false] at h
      simp [PyRT.alFind?, hk, ih h]

theorem alHas_of_alFind? (d : List (κ × ν)) (k : κ) (v : ν) (h : PyRT.alFind? d k = some v) :
    alHas d k = true := by
  cases hh : alHas d k with
  | true => rfl
  | false => rw [alFind?_of_not_alHas d k hh] at h; simp at h

theorem alFind?_alDel_ne (d : List (κ × ν)) (x y : κ) (h : y ≠ x) :
    PyRT.alFind? (alDel d x) y = PyRT.alFind? d y := by
  induction d with
  | nil => rfl
  | cons p t ih =>
    obtain ⟨k, w⟩ := p
    simp only [alDel]
    by_cases hk : k = x
    · subst hk; simp [PyRT.alFind?, Ne.symm h, ih]
    · simp only [hk, if_false, PyRT.alFind?, ih]

theorem alFind?_alSet (d : List (κ × ν)) (x y : κ) (v : ν) :
    PyRT.alFind? (alSet d x v) y = if y = x then some v else PyRT.alFind? d y := by
  induction d with
  | nil =>
    by_cases h : y = x
    · simp [alSet, PyRT.alFind?, h]
    · simp [alSet, PyRT.alFind?, h, Ne.symm h]
  | cons p t ih =>
    obtain ⟨k, w⟩ := p
    simp only [alSet]
    by_cases hk : k = x
    · subst hk
      by_cases h : y = k
      · simp [PyRT.alFind?, h]
      · simp [PyRT.alFind?, h, Ne.symm h]
    · simp only [hk, if_false, PyRT.alFind?, ih]
      by_cases h : y = x
      · subst h; simp [hk]
      · simp [h]

theorem alSet_alSet (d : List (κ × ν)) (x : κ) (u v : ν) : alSet (alSet d x u) x v = alSet d x v := by
  induction d with
  | nil => simp [alSet]
  | cons p t ih =>
    obtain ⟨k, w⟩ := p
    simp only [alSet]
    by_cases hk : k = x
    · simp [hk, alSet]
    · simp [hk, alSet, ih]

theorem alHas_alSet_self (d : List (κ × ν)) (x : κ) (v : ν) : alHas (alSet d x v) x = true :=
  (alHas_alSet d x x v).2 (Or.inr rfl)

theorem alHas_eq_false_of_not (d : List (κ × ν)) (x : κ) (h : ¬ alHas d x = true) : alHas d x = false := by
  cases hh : alHas d x with
  | true => exact absurd hh h
  | false => rfl

end AL

section DD
variable {κ : Type} [DecidableEq κ]

theorem ddTouch_of_alHas (d : List (κ × Rat)) (x : κ) (h : alHas d x = true) : PyRT.ddTouch d x = d := by
  simp [PyRT.ddTouch, h]

/-- writing after the insertion-on-read of the `defaultdict` is the same as writing directly -/
theorem alSet_ddTouch (d : List (κ × Rat)) (x : κ) (v : Rat) : alSet (PyRT.ddTouch d x) x v = alSet d x v := by
  unfold PyRT.ddTouch
  split
  · rfl
  · exact alSet_alSet d x 0 v

/-- the insertion-on-read of the `defaultdict` does not change any value read with default 0 -/
theorem alGet_ddTouch (d : List (κ × Rat)) (x y : κ) : alGet (PyRT.ddTouch d x) 0 y = alGet d 0 y := by
  unfold PyRT.ddTouch
  split
  · rfl
  · rename_i h
    by_cases hy : y = x
    · subst hy
      rw [alGet_alSet_self, alGet_of_not_alHas d y 0 (alHas_eq_false_of_not d y h)]
    · exact alGet_alSet_ne d x y 0 0 hy

theorem ddTouch_alSet (d : List (κ × Rat)) (x : κ) (v : Rat) : PyRT.ddTouch (alSet d x v) x = alSet d x v :=
  ddTouch_of_alHas _ _ (alHas_alSet_self d x v)

end DD

/-! ### lists: `idxOf` after `set`, the prelude's `listPop` / `listSet` / `dictPop` -/
section Lists
variable {α : Type} [DecidableEq α]

theorem idxOf_set_self (l : List α) (i : Nat) (z : α) (hz : z ∉ l) (hi : i < l.length) :
    (l.set i z).idxOf z = i := by
  induction l generalizing i with
  | nil => simp at hi
  | cons a t ih =>
    cases i with
    | zero => simp
    | succ j =>
      have ha : a ≠ z := fun h => hz (by simp [h])
      have hz' : z ∉ t := fun h => hz (by simp [h])
      rw [List.set_cons_succ, List.idxOf_cons_ne _ ha, ih j hz' (by simpa using hi)]

theorem idxOf_set_ne (l : List α) (i : Nat) (y z : α) (hy : y ≠ z) (hi : l.idxOf y ≠ i) :
    (l.set i z).idxOf y = l.idxOf y := by
  induction l generalizing i with
  | nil => simp
  | cons a t ih =>
    cases i with
    | zero =>
      have ha : a ≠ y := by
        intro h; apply hi; simp [h]
      rw [List.set_cons_zero, List.idxOf_cons_ne _ (Ne.symm hy), List.idxOf_cons_ne _ ha]
    | succ j =>
      rw [List.set_cons_succ]
      by_cases ha : a = y
      · simp [ha]
      · rw [List.idxOf_cons_ne _ ha, List.idxOf_cons_ne _ ha]
        rw [List.idxOf_cons_ne _ ha] at hi
        rw [ih j (by omega)]

omit [DecidableEq α] in
theorem listPop_concat (l₀ : List α) (z : α) : PyRT.listPop (l₀ ++ [z]) = .ok (z, l₀) := by
  simp [PyRT.listPop, pure, Except.pure]

omit [DecidableEq α] in
theorem listSet_of_lt (l : List α) (i : Nat) (v : α) (h : i < l.length) :
    PyRT.listSet l i v = .ok (l.set i v) := by
  simp [PyRT.listSet, h, pure, Except.pure]

theorem dictPop_of_find {κ ν : Type} [DecidableEq κ] (d : List (κ × ν)) (k : κ) (v : ν)
    (h : PyRT.alFind? d k = some v) : PyRT.dictPop d k = .ok (v, alDel d k) := by
  simp [PyRT.dictPop, h, pure, Except.pure]

theorem dictPop_of_not_has {κ ν : Type} [DecidableEq κ] (d : List (κ × ν)) (k : κ)
    (h : alHas d k = false) : PyRT.dictPop d k = .error "KeyError" := by
  simp [PyRT.dictPop, alFind?_of_not_alHas d k h, throw, throwThe, MonadExceptOf.throw]

theorem ok_bind {ε β γ : Type} (a : β) (f : β → Except ε γ) : (Except.ok a >>= f) = f a := rfl

theorem error_bind {ε β γ : Type} (e : ε) (f : β → Except ε γ) : (Except.error e >>= f) = Except.error e := rfl

theorem pure_eq_ok {ε β : Type} (a : β) : (pure a : Except ε β) = Except.ok a := rfl

end Lists
end GenLD

/-! ### the position map -/
namespace GenLD
variable {α : Type} [DecidableEq α]

/-- `itp` (the Python dict `item_to_position`) is exactly the position map of the list `items` -/
def PosMap (itp : List (α × Nat)) (items : List α) : Prop :=
  (∀ x, alHas itp x = true ↔ x ∈ items) ∧ (∀ x ∈ items, PyRT.alFind? itp x = some (items.idxOf x))

theorem posMap_nil : PosMap ([] : List (α × Nat)) [] := by
  constructor
  · intro x; simp [alHas]
  · intro x hx; simp at hx

/-- removing the last element of the list: only the dictionary entry is deleted -/
theorem posMap_remove_last (itp : List (α × Nat)) (l₀ : List α) (x : α) (hn : (l₀ ++ [x]).Nodup)
    (h : PosMap itp (l₀ ++ [x])) : PosMap (alDel itp x) l₀ := by
  have hnd := List.nodup_append.1 hn
  have hnot : x ∉ l₀ := fun h => hnd.2.2 x h x (by simp) rfl
  constructor
  · intro y
    rw [alHas_alDel, h.1 y]
    constructor
    · rintro ⟨h1, h2⟩
      rcases List.mem_append.1 h1 with h3 | h3
      · exact h3
      · simp at h3; exact absurd h3 h2
    · intro hy
      exact ⟨List.mem_append_left _ hy, fun hyx => hnot (hyx ▸ hy)⟩
  · intro y hy
    have hyx : y ≠ x := fun hyx => hnot (hyx ▸ hy)
    rw [alFind?_alDel_ne _ _ _ hyx, h.2 y (List.mem_append_left _ hy), List.idxOf_append_of_mem hy]

/-- removing an inner element: the last element `z` is moved into its slot and re-registered there -/
theorem posMap_remove_mid (itp : List (α × Nat)) (l₀ : List α) (x z : α) (hn : (l₀ ++ [z]).Nodup)
    (hx : x ∈ l₀) (h : PosMap itp (l₀ ++ [z])) :
    PosMap (alSet (alDel itp x) z (l₀.idxOf x)) (l₀.set (l₀.idxOf x) z) := by
  have hnd := List.nodup_append.1 hn
  have hz : z ∉ l₀ := fun h => hnd.2.2 z h z (by simp) rfl
  have hxz : x ≠ z := fun h => hz (h ▸ hx)
  have hi : l₀.idxOf x < l₀.length := List.idxOf_lt_length_of_mem hx
  have hmem : ∀ y, y ∈ l₀.set (l₀.idxOf x) z ↔ ((y ∈ l₀ ∧ y ≠ x) ∨ y = z) := by
    intro y
    have hp := (LD.set_idxOf_perm l₀ x z hx).mem_iff (a := y)
    rw [hp, List.mem_cons, hnd.1.mem_erase_iff]
    constructor
    · rintro (h1 | ⟨h1, h2⟩)
      · exact Or.inr h1
      · exact Or.inl ⟨h2, h1⟩
    · rintro (⟨h1, h2⟩ | h1)
      · exact Or.inr ⟨h2, h1⟩
      · exact Or.inl h1
  constructor
  · intro y
    rw [alHas_alSet, alHas_alDel, h.1 y, hmem y]
    constructor
    · rintro (⟨h1, h2⟩ | h1)
      · rcases List.mem_append.1 h1 with h3 | h3
        · exact Or.inl ⟨h3, h2⟩
        · simp at h3; exact Or.inr h3
      · exact Or.inr h1
    · rintro (⟨h1, h2⟩ | h1)
      · exact Or.inl ⟨List.mem_append_left _ h1, h2⟩
      · exact Or.inr h1
  · intro y hy
    rw [alFind?_alSet]
    by_cases hyz : y = z
    · subst hyz
      rw [if_pos rfl, idxOf_set_self l₀ _ y hz hi]
    · rw [if_neg hyz]
      rcases (hmem y).1 hy with ⟨h1, h2⟩ | h1
      · rw [alFind?_alDel_ne _ _ _ h2, h.2 y (List.mem_append_left _ h1), List.idxOf_append_of_mem h1]
        have : l₀.idxOf y ≠ l₀.idxOf x := fun hh => h2 ((List.idxOf_inj h1).1 hh)
        rw [idxOf_set_ne l₀ _ y z hyz this]
      · exact absurd h1 hyz

/-- appending a new element and registering it at position `len(items)-1` -/
theorem posMap_append (itp : List (α × Nat)) (l : List α) (x : α) (hx : x ∉ l) (h : PosMap itp l) :
    PosMap (alSet itp x (Int.toNat (((l ++ [x]).length : Int) - (1 : Int)))) (l ++ [x]) := by
  have hlen : Int.toNat (((l ++ [x]).length : Int) - (1 : Int)) = l.length := by
    simp
  rw [hlen]
  constructor
  · intro y
    rw [alHas_alSet, h.1 y]; simp
  · intro y hy
    rw [alFind?_alSet]
    by_cases hyx : y = x
    · subst hyx
      rw [if_pos rfl, List.idxOf_append_of_notMem hx]; simp
    · rw [if_neg hyx]
      have hy' : y ∈ l := by
        rcases List.mem_append.1 hy with h1 | h1
        · exact h1
        · simp at h1; exact absurd h1 hyx
      rw [h.2 y hy', List.idxOf_append_of_mem hy']

end GenLD

/-! ### the simulation relation -/
namespace GenLD
variable {α : Type} [DecidableEq α]

/-- **Simulation relation** between the state `p` of the generated code and the state `l` of the hand-written model:
every modelled attribute is equal, and the attribute the hand model abstracts away (`item_to_position`) is exactly
the position map of `items`. -/
structure R (p : PyLD α) (l : LD α) : Prop where
  items : p.items = l.items
  weighted : p.weighted = l.weighted
  weight : p.weight = l.weight
  maxW : p.max_weight = l.maxW
  maxCnt : p.max_weight_count = l.maxCnt
  total : p.total_weight_ = l.total
  pos_keys : ∀ x, alHas p.item_to_position x = true ↔ x ∈ p.items
  pos_val : ∀ x ∈ p.items, PyRT.alFind? p.item_to_position x = some (p.items.idxOf x)

theorem R.posMap {p : PyLD α} {l : LD α} (h : R p l) : PosMap p.item_to_position p.items := ⟨h.pos_keys, h.pos_val⟩

/-- `__init__` establishes the relation -/
theorem init_R (b : Bool) : R (init b : PyLD α) (LD.empty b) := by
  refine ⟨rfl, rfl, rfl, rfl, rfl, rfl, ?_, ?_⟩
  · intro x; simp [init, alHas]
  · intro x hx; simp [init] at hx

/-- `__contains__` agrees with membership in the list -/
theorem contains_iff {p : PyLD α} {l : LD α} (h : R p l) (x : α) : contains__ p x = true ↔ x ∈ l.items := by
  unfold contains__; rw [h.pos_keys, h.items]

end GenLD

/-! ### `remove` -/
namespace GenLD
variable {α : Type} [DecidableEq α]

theorem swapRemove_concat_self (l₀ : List α) (x : α) (hnot : x ∉ l₀) : LD.swapRemove (l₀ ++ [x]) x = l₀ := by
  have : (l₀ ++ [x]).idxOf x = l₀.length := by
    rw [List.idxOf_append_of_notMem hnot]; simp
  simp [LD.swapRemove, this]

theorem swapRemove_concat_mid (l₀ : List α) (x z : α) (hx : x ∈ l₀) :
    LD.swapRemove (l₀ ++ [z]) x = l₀.set (l₀.idxOf x) z := by
  have h1 : (l₀ ++ [z]).idxOf x = l₀.idxOf x := List.idxOf_append_of_mem hx
  have h2 : l₀.idxOf x ≠ l₀.length := by
    have := List.idxOf_lt_length_of_mem hx; omega
  simp [LD.swapRemove, h1, h2]

omit [DecidableEq α] in
/-- `_update_max_weight` cannot fail when some weight is stored, and computes what `recomputeMax` computes -/
theorem update_max_weight_ok (s : PyLD α) (h : s.weight ≠ []) :
    update_max_weight s = .ok { s with
      max_weight := LD.foldMax (s.weight.map (·.2)),
      max_weight_count := (((s.weight.map (·.2)).filter (· == LD.foldMax (s.weight.map (·.2)))).length : Int) } := by
  obtain ⟨itp, items, wd, wt, mw, tw, mc⟩ := s
  cases wt with
  | nil => exact absurd rfl h
  | cons a t =>
    simp [update_max_weight, PyRT.maxOf, PyRT.countEq, LD.foldMax, pure, Except.pure, bind, Except.bind]

end GenLD

namespace GenLD
variable {α : Type} [DecidableEq α]

theorem ite_ok_congr {ε β : Type} {c : Prop} [Decidable c] (A B : β) (h : c → A = B) :
    (if c then Except.ok A else Except.ok B : Except ε β) = Except.ok B := by
  split
  · rw [h ‹_›]
  · rfl

/-- closed form of the maximum bookkeeping of the generated `remove` (`n` = number of items left) -/
def remMax (wt' : List (α × Rat)) (n : Nat) (w mw : Rat) (mc : Int) : Rat × Int :=
  if n = 0 then (0, 0) else
    if w = mw then
      if mc - 1 = 0 then
        (LD.foldMax (wt'.map (·.2)), (((wt'.map (·.2)).filter (· == LD.foldMax (wt'.map (·.2)))).length : Int))
      else (mw, mc - 1)
    else (mw, mc)

/-- closed form of the running total after the generated `remove`: 0 for an emptied list, recomputed from the table
when it is `<= 0` with items left -/
def remTotal (wt' : List (α × Rat)) (n : Nat) (t : Rat) : Rat :=
  if n = 0 then 0 else if t ≤ 0 then PyRT.sumVals wt' else t

/-- **what the generated `remove` computes** on a weighted structure, in closed form -/
theorem remove_eval_weighted (itp : List (α × Nat)) (l₀ : List α) (z x : α) (wt : List (α × Rat)) (mw tw : Rat)
    (mc : Int) (pos : Nat) (w : Rat)
    (hfind : PyRT.alFind? itp x = some pos) (hpos : pos ≤ l₀.length)
    (hfw : PyRT.alFind? wt x = some w) (hne : l₀ ≠ [] → alDel wt x ≠ []) :
    remove ⟨itp, l₀ ++ [z], true, wt, mw, tw, mc⟩ x = .ok
      ⟨if pos ≠ l₀.length then alSet (alDel itp x) z pos else alDel itp x,
       if pos ≠ l₀.length then l₀.set pos z else l₀, true, alDel wt x,
       (remMax (alDel wt x) l₀.length w mw mc).1, remTotal (alDel wt x) l₀.length (tw - w),
       (remMax (alDel wt x) l₀.length w mw mc).2⟩ := by
  by_cases hp : pos = l₀.length
  · by_cases hlen : l₀.length = 0
    · have hl0 : l₀ = [] := List.eq_nil_of_length_eq_zero hlen
      subst hl0
      have hpop : PyRT.listPop [z] = .ok (z, ([] : List α)) := listPop_concat [] z
      by_cases hmax : w = mw <;> by_cases hc : mc - 1 = 0 <;>
        simp [remove, dictPop_of_find _ _ _ hfind, dictPop_of_find _ _ _ hfw, ok_bind, hpop, hp,
          pure_eq_ok, remMax, remTotal, len__, hmax, hc]
    · have hl0 : l₀ ≠ [] := fun h => hlen (by rw [h]; rfl)
      have hlen' : 0 < l₀.length := Nat.pos_of_ne_zero hlen
      have hne' : ¬ alDel wt x = [] := hne hl0
      rcases eq_or_ne w mw with rfl | hmax
      · by_cases htw : tw ≤ w <;> by_cases hc : mc - 1 = 0 <;>
          simp [remove, dictPop_of_find _ _ _ hfind, dictPop_of_find _ _ _ hfw, ok_bind, listPop_concat, hp,
            pure_eq_ok, remMax, remTotal, len__, hlen, hlen', htw, hc, hl0, sub_nonpos, update_max_weight_ok, hne']
      · by_cases htw : tw ≤ w <;>
          simp [remove, dictPop_of_find _ _ _ hfind, dictPop_of_find _ _ _ hfw, ok_bind, listPop_concat, hp,
            pure_eq_ok, remMax, remTotal, len__, hlen, hlen', htw, hmax, hl0, sub_nonpos]
  · have hlt : pos < l₀.length := Nat.lt_of_le_of_ne hpos hp
    have hlen : l₀.length ≠ 0 := by omega
    have hl0 : l₀ ≠ [] := fun h => hlen (by rw [h]; rfl)
    have hne' : ¬ alDel wt x = [] := hne hl0
    rcases eq_or_ne w mw with rfl | hmax
    · by_cases htw : tw ≤ w <;> by_cases hc : mc - 1 = 0 <;>
        simp [remove, dictPop_of_find _ _ _ hfind, dictPop_of_find _ _ _ hfw, ok_bind, listPop_concat, hp,
          listSet_of_lt _ _ _ hlt, pure_eq_ok, remMax, remTotal, len__, hlen, hlt, htw, hc, hl0, sub_nonpos,
          update_max_weight_ok, hne', Nat.pos_of_ne_zero hlen]
    · by_cases htw : tw ≤ w <;>
        simp [remove, dictPop_of_find _ _ _ hfind, dictPop_of_find _ _ _ hfw, ok_bind, listPop_concat, hp,
          listSet_of_lt _ _ _ hlt, pure_eq_ok, remMax, remTotal, len__, hlen, hlt, htw, hmax, hl0, sub_nonpos,
          Nat.pos_of_ne_zero hlen]

/-- the same for an unweighted structure: only the position bookkeeping happens -/
theorem remove_eval_unweighted (itp : List (α × Nat)) (l₀ : List α) (z x : α) (wt : List (α × Rat)) (mw tw : Rat)
    (mc : Int) (pos : Nat) (hfind : PyRT.alFind? itp x = some pos) (hpos : pos ≤ l₀.length) :
    remove ⟨itp, l₀ ++ [z], false, wt, mw, tw, mc⟩ x = .ok
      ⟨if pos ≠ l₀.length then alSet (alDel itp x) z pos else alDel itp x,
       if pos ≠ l₀.length then l₀.set pos z else l₀, false, wt, mw, tw, mc⟩ := by
  by_cases hp : pos = l₀.length
  · simp [remove, dictPop_of_find _ _ _ hfind, ok_bind, listPop_concat, hp, pure_eq_ok]
  · have hlt : pos < l₀.length := Nat.lt_of_le_of_ne hpos hp
    simp [remove, dictPop_of_find _ _ _ hfind, ok_bind, listPop_concat, hp, listSet_of_lt _ _ _ hlt, pure_eq_ok]

/-- the hand model's `remove` on a weighted structure in the same closed form (under the invariant the two repairs of
the running total are identities) -/
theorem ld_remove_closed (l l' : LD α) (x : α) (hI : LD.Inv l) (hwt : l.weighted = true) (hx : x ∈ l.items)
    (hrem : l.remove x = some l') :
    l'.items = LD.swapRemove l.items x ∧ l'.weighted = true ∧ l'.weight = alDel l.weight x ∧
      l'.maxW = (remMax (alDel l.weight x) (LD.swapRemove l.items x).length (l.getW x) l.maxW l.maxCnt).1 ∧
      l'.maxCnt = (remMax (alDel l.weight x) (LD.swapRemove l.items x).length (l.getW x) l.maxW l.maxCnt).2 ∧
      l'.total = remTotal (alDel l.weight x) (LD.swapRemove l.items x).length (l.total - l.getW x) := by
  have hI' : LD.Inv l' := LD.inv_remove l l' x hI hx hrem
  obtain ⟨s'', hs'', hit, hwd, hrest⟩ := LD.remove_shape l x hx
  rw [hrem] at hs''
  obtain rfl : l' = s'' := Option.some.inj hs''
  obtain ⟨hw', htot', -⟩ := hrest hwt
  have hwt' : l'.weighted = true := by rw [hwd, hwt]
  refine ⟨hit, hwt', hw', ?_, ?_, ?_⟩
  · unfold LD.remove at hrem
    simp only [hx, hwt, if_true] at hrem
    unfold remMax
    by_cases hn : (LD.swapRemove l.items x).length = 0 <;> by_cases hmax : l.getW x = l.maxW <;>
      by_cases hc : l.maxCnt - 1 = 0 <;>
      simp [hn, hmax, hc, LD.forgetMax, LD.recomputeMax, LD.foldMax, Nat.pos_of_ne_zero] at hrem ⊢ <;>
      (subst hrem; simp [hmax])
  · unfold LD.remove at hrem
    simp only [hx, hwt, if_true] at hrem
    unfold remMax
    by_cases hn : (LD.swapRemove l.items x).length = 0 <;> by_cases hmax : l.getW x = l.maxW <;>
      by_cases hc : l.maxCnt - 1 = 0 <;>
      simp [hn, hmax, hc, LD.forgetMax, LD.recomputeMax, LD.foldMax, Nat.pos_of_ne_zero] at hrem ⊢ <;>
      (subst hrem; simp [hmax])
  · unfold remTotal
    rw [← htot']
    by_cases hn : (LD.swapRemove l.items x).length = 0
    · rw [if_pos hn, hI'.total hwt']
      have : l'.items = [] := by rw [hit]; exact List.eq_nil_of_length_eq_zero hn
      simp [LD.weightSum, this]
    · rw [if_neg hn]
      split
      · rw [hI'.total hwt', ← LD.sumVals_eq_weightSum l' hI' hwt', hw']; rfl
      · rfl

theorem remove_sim_last (p : PyLD α) (l l' : LD α) (x : α) (hR : R p l) (hI : LD.Inv l)
    (l₀ : List α) (hl : l.items = l₀ ++ [x]) (hrem : l.remove x = some l') :
    ∃ p', remove p x = .ok p' ∧ R p' l' := by
  have hxin : x ∈ l.items := by rw [hl]; simp
  have hI' : LD.Inv l' := LD.inv_remove l l' x hI hxin hrem
  have hn : (l₀ ++ [x]).Nodup := hl ▸ hI.nodup
  have hnd := List.nodup_append.1 hn
  have hnot : x ∉ l₀ := fun h => hnd.2.2 x h x (by simp) rfl
  have hidx : (l₀ ++ [x]).idxOf x = l₀.length := by
    rw [List.idxOf_append_of_notMem hnot]; simp
  have hsw : LD.swapRemove l.items x = l₀ := by rw [hl]; exact swapRemove_concat_self l₀ x hnot
  obtain ⟨itp, items, wd, wt, mw, tw, mc⟩ := p
  obtain ⟨h1, h2, h3, h4, h5, h6, h7, h8⟩ := hR
  simp only at h1 h2 h3 h4 h5 h6 h7 h8
  have hit : items = l₀ ++ [x] := h1.trans hl
  subst hit h3 h4 h5 h6
  have hfind := h8 x (by simp)
  rw [hidx] at hfind
  have hpm : PosMap (alDel itp x) l₀ := posMap_remove_last itp l₀ x hn ⟨h7, h8⟩
  by_cases hwd : wd = true
  · subst hwd
    have hwt : l.weighted = true := h2.symm
    have hhas : alHas l.weight x = true := (hI.keys hwt x).2 hxin
    have hfw := alFind?_of_alHas l.weight x 0 hhas
    obtain ⟨c1, c2, c3, c4, c5, c6⟩ := ld_remove_closed l l' x hI hwt hxin hrem
    have hne : l₀ ≠ [] → alDel l.weight x ≠ [] := by
      intro h0 hh
      obtain ⟨y, hy⟩ := List.exists_mem_of_ne_nil _ h0
      have := (hI'.keys c2 y).2 (by rw [c1, hsw]; exact hy)
      rw [c3, hh] at this; simp [alHas] at this
    rw [remove_eval_weighted itp l₀ x x l.weight l.maxW l.total l.maxCnt l₀.length (alGet l.weight 0 x) hfind (le_refl _) hfw hne]
    refine ⟨_, rfl, ?_⟩
    simp only [ne_eq, not_true_eq_false, if_false]
    rw [hsw] at c1 c4 c5 c6
    refine ⟨c1.symm, c2.symm, c3.symm, ?_, ?_, ?_, hpm.1, hpm.2⟩
    · rw [c4]; rfl
    · rw [c5]; rfl
    · rw [c6]; rfl
  · have hwd' : wd = false := by simpa using hwd
    subst hwd'
    rw [remove_eval_unweighted itp l₀ x x l.weight l.maxW l.total l.maxCnt l₀.length hfind (le_refl _)]
    refine ⟨_, rfl, ?_⟩
    simp only [ne_eq, not_true_eq_false, if_false]
    have hlw : l.weighted = false := h2.symm
    unfold LD.remove at hrem
    simp only [hxin, hlw, if_true, Bool.false_eq_true, if_false, hsw] at hrem
    obtain rfl := Option.some.inj hrem
    exact ⟨rfl, rfl, rfl, rfl, rfl, rfl, hpm.1, hpm.2⟩

theorem remove_sim_mid (p : PyLD α) (l l' : LD α) (x : α) (hR : R p l) (hI : LD.Inv l)
    (l₀ : List α) (z : α) (hl : l.items = l₀ ++ [z]) (hx0 : x ∈ l₀) (hrem : l.remove x = some l') :
    ∃ p', remove p x = .ok p' ∧ R p' l' := by
  have hxin : x ∈ l.items := by rw [hl]; simp [hx0]
  have hI' : LD.Inv l' := LD.inv_remove l l' x hI hxin hrem
  have hn : (l₀ ++ [z]).Nodup := hl ▸ hI.nodup
  have hidx : (l₀ ++ [z]).idxOf x = l₀.idxOf x := List.idxOf_append_of_mem hx0
  have hilt : l₀.idxOf x < l₀.length := List.idxOf_lt_length_of_mem hx0
  have hine : l₀.idxOf x ≠ l₀.length := by omega
  have hsw : LD.swapRemove l.items x = l₀.set (l₀.idxOf x) z := by rw [hl]; exact swapRemove_concat_mid l₀ x z hx0
  obtain ⟨itp, items, wd, wt, mw, tw, mc⟩ := p
  obtain ⟨h1, h2, h3, h4, h5, h6, h7, h8⟩ := hR
  simp only at h1 h2 h3 h4 h5 h6 h7 h8
  have hit : items = l₀ ++ [z] := h1.trans hl
  subst hit h3 h4 h5 h6
  have hfind := h8 x (by simp [hx0])
  rw [hidx] at hfind
  have hpm : PosMap (alSet (alDel itp x) z (l₀.idxOf x)) (l₀.set (l₀.idxOf x) z) :=
    posMap_remove_mid itp l₀ x z hn hx0 ⟨h7, h8⟩
  by_cases hwd : wd = true
  · subst hwd
    have hwt : l.weighted = true := h2.symm
    have hhas : alHas l.weight x = true := (hI.keys hwt x).2 hxin
    have hfw := alFind?_of_alHas l.weight x 0 hhas
    obtain ⟨c1, c2, c3, c4, c5, c6⟩ := ld_remove_closed l l' x hI hwt hxin hrem
    have hne : l₀ ≠ [] → alDel l.weight x ≠ [] := by
      intro h0 hh
      have hy : z ∈ l'.items := by
        rw [c1, hsw]; exact List.mem_set hilt z   -- z was written at the vacated slot
      have := (hI'.keys c2 z).2 hy
      rw [c3, hh] at this; simp [alHas] at this
    rw [remove_eval_weighted itp l₀ z x l.weight l.maxW l.total l.maxCnt (l₀.idxOf x) (alGet l.weight 0 x) hfind (le_of_lt hilt) hfw hne]
    refine ⟨_, rfl, ?_⟩
    simp only [ne_eq, hine, not_false_eq_true, if_true]
    rw [hsw, List.length_set] at c4 c5 c6
    rw [hsw] at c1
    refine ⟨c1.symm, c2.symm, c3.symm, ?_, ?_, ?_, hpm.1, hpm.2⟩
    · rw [c4]; rfl
    · rw [c5]; rfl
    · rw [c6]; rfl
  · have hwd' : wd = false := by simpa using hwd
    subst hwd'
    rw [remove_eval_unweighted itp l₀ z x l.weight l.maxW l.total l.maxCnt (l₀.idxOf x) hfind (le_of_lt hilt)]
    refine ⟨_, rfl, ?_⟩
    simp only [ne_eq, hine, not_false_eq_true, if_true]
    have hlw : l.weighted = false := h2.symm
    unfold LD.remove at hrem
    simp only [hxin, hlw, if_true, Bool.false_eq_true, if_false, hsw] at hrem
    obtain rfl := Option.some.inj hrem
    exact ⟨rfl, rfl, rfl, rfl, rfl, rfl, hpm.1, hpm.2⟩

theorem mem_of_remove_some (l l' : LD α) (x : α) (h : l.remove x = some l') : x ∈ l.items := by
  by_contra hx
  unfold LD.remove at h
  rw [if_neg hx] at h; simp at h

/-- **forward simulation of `remove`** (simulation.py 311-332): whenever the hand model removes `x`, the generated
code returns normally and the results are related -/
theorem remove_sim (p : PyLD α) (l l' : LD α) (x : α) (hR : R p l) (hI : LD.Inv l)
    (hrem : l.remove x = some l') : ∃ p', remove p x = .ok p' ∧ R p' l' := by
  have hx := mem_of_remove_some l l' x hrem
  have hne : l.items ≠ [] := by intro h; simp [h] at hx
  obtain ⟨l₀, z, hl⟩ : ∃ l₀ z, l.items = l₀ ++ [z] :=
    ⟨l.items.dropLast, l.items.getLast hne, (List.dropLast_append_getLast hne).symm⟩
  by_cases hxz : x = z
  · subst hxz
    exact remove_sim_last p l l' x hR hI l₀ hl hrem
  · have hx0 : x ∈ l₀ := by
      rw [hl] at hx
      rcases List.mem_append.1 hx with h | h
      · exact h
      · simp at h; exact absurd h hxz
    exact remove_sim_mid p l l' x hR hI l₀ z hl hx0 hrem

/-- the one documented failure of `remove`: an absent item raises `KeyError` (`item_to_position.pop`), exactly when
the hand model returns `none` -/
theorem remove_keyError (p : PyLD α) (l : LD α) (x : α) (hR : R p l) (hx : x ∉ l.items) :
    remove p x = .error "KeyError" ∧ l.remove x = none := by
  constructor
  · have : alHas p.item_to_position x = false := by
      apply alHas_eq_false_of_not
      rw [hR.pos_keys, hR.items]; exact hx
    simp only [remove, dictPop_of_not_has _ _ this, error_bind]
  · unfold LD.remove; rw [if_neg hx]

/-- backward simulation of `remove`: if the generated code returns normally, so does the hand model, with related
results -/
theorem remove_sim_back (p p' : PyLD α) (l : LD α) (x : α) (hR : R p l) (hI : LD.Inv l)
    (hrem : remove p x = .ok p') : ∃ l', l.remove x = some l' ∧ R p' l' := by
  by_cases hx : x ∈ l.items
  · obtain ⟨l', hl', -⟩ := LD.remove_shape l x hx
    obtain ⟨p'', hp'', hR'⟩ := remove_sim p l l' x hR hI hl'
    rw [hrem] at hp''
    obtain rfl := Except.ok.inj hp''
    exact ⟨l', hl', hR'⟩
  · rw [(remove_keyError p l x hR hx).1] at hrem
    exact absurd hrem (by simp)

end GenLD

/-! ### `update`, `insert` -/
namespace GenLD
variable {α : Type} [DecidableEq α]

local macro "close_upd" h:ident pm:term : tactic =>
  `(tactic| (have hh := Option.some.inj $h; subst hh; refine ⟨_, rfl, ?_⟩;
             exact ⟨rfl, rfl, rfl, rfl, rfl, rfl, ($pm).1, ($pm).2⟩))

set_option linter.unusedSimpArgs false in
theorem update_sim_some (p : PyLD α) (l l' : LD α) (x : α) (w : Rat) (hR : R p l)
    (hupd : l.update x (some w) = some l') : ∃ p', update p x (some w) = .ok p' ∧ R p' l' := by
  obtain ⟨itp, items, wd, wt, mw, tw, mc⟩ := p
  obtain ⟨lwd, litems, lwt, lmw, lmc, ltw⟩ := l
  obtain ⟨h1, h2, h3, h4, h5, h6, h7, h8⟩ := hR
  simp only at h1 h2 h3 h4 h5 h6 h7 h8
  subst h1 h2 h3 h4 h5 h6
  have hpm : PosMap itp items := ⟨h7, h8⟩
  have hwd : wd = true := by
    cases wd with
    | true => rfl
    | false => simp [LD.update] at hupd
  subst hwd
  have hc4 : alHas itp x = true ↔ x ∈ items := h7 x
  simp only [LD.update, LD.getW, Bool.not_true, Bool.false_eq_true, if_false] at hupd
  simp only [update, alGet_ddTouch, alSet_ddTouch, ddTouch_alSet, contains__, pure_eq_ok]
  by_cases c4 : x ∈ items
  · have c4' := hc4.2 c4
    by_cases c0 : w > 0
    · simp only [c0, decide_true, if_true, ok_bind, alGet_ddTouch, alSet_ddTouch, ddTouch_alSet, if_false, Bool.false_eq_true, true_or] at hupd ⊢
      by_cases c2 : alGet wt 0 x + w > mw
      · simp only [c2, decide_true, if_true, ok_bind, alGet_ddTouch, alSet_ddTouch, ddTouch_alSet, if_false, Bool.false_eq_true, alGet_alSet_self, c4, c4'] at hupd ⊢
        close_upd hupd hpm
      · by_cases c3 : alGet wt 0 x + w = mw
        · simp only [c2, c3, decide_true, decide_false, if_true, if_false, Bool.false_eq_true, ok_bind, alGet_ddTouch, alSet_ddTouch, ddTouch_alSet, if_false, Bool.false_eq_true,
            alGet_alSet_self, ddTouch_alSet, lt_self_iff_false, gt_iff_lt, c4, c4'] at hupd ⊢
          close_upd hupd hpm
        · simp only [c2, c3, decide_true, decide_false, if_true, if_false, Bool.false_eq_true, ok_bind, alGet_ddTouch, alSet_ddTouch, ddTouch_alSet, if_false, Bool.false_eq_true,
            alGet_alSet_self, ddTouch_alSet, c4, c4'] at hupd ⊢
          close_upd hupd hpm
    · by_cases c1 : alGet wt 0 x = mw
      · simp only [c0, c1, decide_true, decide_false, if_true, if_false, Bool.false_eq_true, ok_bind, alGet_ddTouch, alSet_ddTouch, ddTouch_alSet, if_false, Bool.false_eq_true, ne_eq,
          not_true_eq_false, or_self, c4, c4'] at hupd ⊢
        simp only [ite_self, ok_bind, c4', if_true, if_false, Bool.false_eq_true]
        have hh := Option.some.inj hupd; subst hh; refine ⟨_, rfl, ?_⟩
        exact ⟨rfl, rfl, rfl, rfl, by dsimp only; omega, rfl, hpm.1, hpm.2⟩
      · simp only [c0, c1, decide_true, decide_false, if_true, if_false, Bool.false_eq_true, ok_bind, alGet_ddTouch, alSet_ddTouch, ddTouch_alSet, if_false, Bool.false_eq_true, ne_eq,
          not_false_eq_true, or_true, false_or] at hupd ⊢
        by_cases c2 : alGet wt 0 x + w > mw
        · simp only [c2, decide_true, if_true, ok_bind, alGet_ddTouch, alSet_ddTouch, ddTouch_alSet, if_false, Bool.false_eq_true, alGet_alSet_self, c4, c4'] at hupd ⊢
          close_upd hupd hpm
        · by_cases c3 : alGet wt 0 x + w = mw
          · simp only [c2, c3, decide_true, decide_false, if_true, if_false, Bool.false_eq_true, ok_bind, alGet_ddTouch, alSet_ddTouch, ddTouch_alSet, if_false, Bool.false_eq_true,
              alGet_alSet_self, ddTouch_alSet, lt_self_iff_false, gt_iff_lt, c4, c4'] at hupd ⊢
            close_upd hupd hpm
          · simp only [c2, c3, decide_true, decide_false, if_true, if_false, Bool.false_eq_true, ok_bind, alGet_ddTouch, alSet_ddTouch, ddTouch_alSet, if_false, Bool.false_eq_true,
              alGet_alSet_self, ddTouch_alSet, c4, c4'] at hupd ⊢
            close_upd hupd hpm
  · have c4' : alHas itp x = false := alHas_eq_false_of_not _ _ (fun h => c4 (hc4.1 h))
    have hpm' := posMap_append itp items x c4 hpm
    by_cases c0 : w > 0
    · simp only [c0, decide_true, if_true, ok_bind, alGet_ddTouch, alSet_ddTouch, ddTouch_alSet, if_false, Bool.false_eq_true, true_or] at hupd ⊢
      by_cases c2 : alGet wt 0 x + w > mw
      · simp only [c2, decide_true, if_true, ok_bind, alGet_ddTouch, alSet_ddTouch, ddTouch_alSet, if_false, Bool.false_eq_true, alGet_alSet_self, c4, c4'] at hupd ⊢
        close_upd hupd hpm'
      · by_cases c3 : alGet wt 0 x + w = mw
        · simp only [c2, c3, decide_true, decide_false, if_true, if_false, Bool.false_eq_true, ok_bind, alGet_ddTouch, alSet_ddTouch, ddTouch_alSet, if_false, Bool.false_eq_true,
            alGet_alSet_self, ddTouch_alSet, lt_self_iff_false, gt_iff_lt, c4, c4'] at hupd ⊢
          close_upd hupd hpm'
        · simp only [c2, c3, decide_true, decide_false, if_true, if_false, Bool.false_eq_true, ok_bind, alGet_ddTouch, alSet_ddTouch, ddTouch_alSet, if_false, Bool.false_eq_true,
            alGet_alSet_self, ddTouch_alSet, c4, c4'] at hupd ⊢
          close_upd hupd hpm'
    · by_cases c1 : alGet wt 0 x = mw
      · simp only [c0, c1, decide_true, decide_false, if_true, if_false, Bool.false_eq_true, ok_bind, alGet_ddTouch, alSet_ddTouch, ddTouch_alSet, if_false, Bool.false_eq_true, ne_eq,
          not_true_eq_false, or_self, c4, c4'] at hupd ⊢
        simp only [ite_self, ok_bind, c4', if_true, if_false, Bool.false_eq_true]
        have hh := Option.some.inj hupd; subst hh; refine ⟨_, rfl, ?_⟩
        exact ⟨rfl, rfl, rfl, rfl, by dsimp only; omega, rfl, hpm'.1, hpm'.2⟩
      · simp only [c0, c1, decide_true, decide_false, if_true, if_false, Bool.false_eq_true, ok_bind, alGet_ddTouch, alSet_ddTouch, ddTouch_alSet, if_false, Bool.false_eq_true, ne_eq,
          not_false_eq_true, or_true, false_or] at hupd ⊢
        by_cases c2 : alGet wt 0 x + w > mw
        · simp only [c2, decide_true, if_true, ok_bind, alGet_ddTouch, alSet_ddTouch, ddTouch_alSet, if_false, Bool.false_eq_true, alGet_alSet_self, c4, c4'] at hupd ⊢
          close_upd hupd hpm'
        · by_cases c3 : alGet wt 0 x + w = mw
          · simp only [c2, c3, decide_true, decide_false, if_true, if_false, Bool.false_eq_true, ok_bind, alGet_ddTouch, alSet_ddTouch, ddTouch_alSet, if_false, Bool.false_eq_true,
              alGet_alSet_self, ddTouch_alSet, lt_self_iff_false, gt_iff_lt, c4, c4'] at hupd ⊢
            close_upd hupd hpm'
          · simp only [c2, c3, decide_true, decide_false, if_true, if_false, Bool.false_eq_true, ok_bind, alGet_ddTouch, alSet_ddTouch, ddTouch_alSet, if_false, Bool.false_eq_true,
              alGet_alSet_self, ddTouch_alSet, c4, c4'] at hupd ⊢
            close_upd hupd hpm'

theorem update_sim_none (p : PyLD α) (l l' : LD α) (x : α) (hR : R p l)
    (hupd : l.update x none = some l') : ∃ p', update p x none = .ok p' ∧ R p' l' := by
  obtain ⟨itp, items, wd, wt, mw, tw, mc⟩ := p
  obtain ⟨lwd, litems, lwt, lmw, lmc, ltw⟩ := l
  obtain ⟨h1, h2, h3, h4, h5, h6, h7, h8⟩ := hR
  simp only at h1 h2 h3 h4 h5 h6 h7 h8
  subst h1 h2 h3 h4 h5 h6
  have hpm : PosMap itp items := ⟨h7, h8⟩
  have hwd : wd = false := by
    cases wd with
    | false => rfl
    | true => simp [LD.update] at hupd
  subst hwd
  have hc4 : alHas itp x = true ↔ x ∈ items := h7 x
  simp only [LD.update, Bool.false_eq_true, if_false] at hupd
  simp only [update, contains__, pure_eq_ok, Bool.false_eq_true, if_false, ok_bind]
  by_cases c4 : x ∈ items
  · have c4' := hc4.2 c4
    simp only [c4, c4', if_true] at hupd ⊢
    close_upd hupd hpm
  · have c4' : alHas itp x = false := alHas_eq_false_of_not _ _ (fun h => c4 (hc4.1 h))
    have hpm' := posMap_append itp items x c4 hpm
    simp only [c4, c4', if_false, Bool.false_eq_true] at hupd ⊢
    close_upd hupd hpm'

/-- **forward simulation of `update`** (simulation.py 279-309): whenever the hand model performs the update, the
generated code returns normally and the results are related.  (The insertion-on-read of the `defaultdict`, which the
hand model does not have, never changes the outcome.) -/
theorem update_sim (p : PyLD α) (l l' : LD α) (x : α) (w : Option Rat) (hR : R p l)
    (hupd : l.update x w = some l') : ∃ p', update p x w = .ok p' ∧ R p' l' := by
  cases w with
  | none => exact update_sim_none p l l' x hR hupd
  | some v => exact update_sim_some p l l' x v hR hupd

/-- the hand model's `update` succeeds exactly when a weight is passed to a weighted structure or no weight to an
unweighted one -/
theorem update_isSome (l : LD α) (x : α) (w : Option Rat) (hw : w.isSome = l.weighted) :
    ∃ l', l.update x w = some l' := by
  cases w with
  | none =>
    have : l.weighted = false := by simpa using hw.symm
    unfold LD.update
    simp only [this, Bool.false_eq_true, if_false]
    split <;> exact ⟨_, rfl⟩
  | some v =>
    have : l.weighted = true := by simpa using hw.symm
    unfold LD.update
    simp only [this, Bool.not_true, Bool.false_eq_true, if_false]
    split_ifs <;> exact ⟨_, rfl⟩

/-- backward simulation of `update`, for the calls the simulators make (a weight is passed iff the structure is
weighted) -/
theorem update_sim_back (p p' : PyLD α) (l : LD α) (x : α) (w : Option Rat) (hR : R p l)
    (hw : w.isSome = l.weighted) (hupd : update p x w = .ok p') : ∃ l', l.update x w = some l' ∧ R p' l' := by
  obtain ⟨l', hl'⟩ := update_isSome l x w hw
  obtain ⟨p'', hp'', hR'⟩ := update_sim p l l' x w hR hl'
  rw [hupd] at hp''
  obtain rfl := Except.ok.inj hp''
  exact ⟨l', hl', hR'⟩


/-- **forward simulation of `insert`** (simulation.py 261-277: `remove` if present, then `update` unless the weight
is 0) -/
theorem insert_sim (p : PyLD α) (l l' : LD α) (x : α) (w : Option Rat) (hR : R p l) (hI : LD.Inv l)
    (hins : l.insert x w = some l') : ∃ p', insert p x w = .ok p' ∧ R p' l' := by
  have hc := contains_iff hR x
  -- second half: the conditional `update`
  have key : ∀ (p1 : PyLD α) (l1 : LD α), R p1 l1 →
      (if w ≠ some 0 then l1.update x w else some l1) = some l' →
      ∃ p', (if decide (w ≠ some 0) = true then update p1 x w else Except.ok p1) = .ok p' ∧ R p' l' := by
    intro p1 l1 hR1 h2
    by_cases hw0 : w ≠ some 0
    · rw [if_pos hw0] at h2
      rw [if_pos (decide_eq_true hw0)]
      exact update_sim p1 l1 l' x w hR1 h2
    · rw [if_neg hw0] at h2
      obtain rfl := Option.some.inj h2
      rw [if_neg (fun h => hw0 (of_decide_eq_true h))]
      exact ⟨_, rfl, hR1⟩
  simp only [LD.insert, bind, Option.bind] at hins
  simp only [insert, pure_eq_ok]
  by_cases hx : x ∈ l.items
  · have hx' := hc.2 hx
    rw [if_pos hx] at hins
    cases hr : l.remove x with
    | none => rw [hr] at hins; simp at hins
    | some l1 =>
      rw [hr] at hins
      obtain ⟨p1, hp1, hR1⟩ := remove_sim p l l1 x hR hI hr
      simp only [hx', if_true, hp1, ok_bind]
      exact key p1 l1 hR1 hins
  · have hx' : contains__ p x = false := by
      cases h : contains__ p x with
      | false => rfl
      | true => exact absurd (hc.1 h) hx
    rw [if_neg hx] at hins
    simp only [hx', Bool.false_eq_true, if_false, ok_bind]
    exact key p l hR hins


/-! ### the hand model keeps `weighted`, and succeeds on well-typed calls -/

theorem remove_weighted (l l' : LD α) (x : α) (h : l.remove x = some l') : l'.weighted = l.weighted := by
  have hx := mem_of_remove_some l l' x h
  obtain ⟨l'', h'', -, hw, -⟩ := LD.remove_shape l x hx
  rw [h] at h''
  obtain rfl := Option.some.inj h''
  exact hw

theorem update_weighted (l l' : LD α) (x : α) (w : Option Rat) (h : l.update x w = some l') :
    l'.weighted = l.weighted := by
  cases w with
  | some v =>
    obtain ⟨h1, h2, -⟩ := LD.update_shape l l' x v h
    rw [h1, h2]
  | none =>
    unfold LD.update at h
    dsimp only at h
    split_ifs at h
    · obtain rfl := Option.some.inj h; rfl
    · obtain rfl := Option.some.inj h; rfl

theorem insert_weighted (l l' : LD α) (x : α) (w : Option Rat) (h : l.insert x w = some l') :
    l'.weighted = l.weighted := by
  simp only [LD.insert, bind, Option.bind] at h
  have key : ∀ l1 : LD α, l1.weighted = l.weighted →
      (if w ≠ some 0 then l1.update x w else some l1) = some l' → l'.weighted = l.weighted := by
    intro l1 h1 h2
    split_ifs at h2
    · rw [update_weighted l1 l' x w h2, h1]
    · obtain rfl := Option.some.inj h2; exact h1
  by_cases hx : x ∈ l.items
  · rw [if_pos hx] at h
    cases hr : l.remove x with
    | none => rw [hr] at h; simp at h
    | some l1 =>
      rw [hr] at h
      exact key l1 (remove_weighted l l1 x hr) h
  · rw [if_neg hx] at h
    exact key l rfl h

theorem insert_isSome (l : LD α) (x : α) (w : Option Rat) (hw : w.isSome = l.weighted) :
    ∃ l', l.insert x w = some l' := by
  simp only [LD.insert, bind, Option.bind]
  have key : ∀ l1 : LD α, l1.weighted = l.weighted →
      ∃ l', (if w ≠ some 0 then l1.update x w else some l1) = some l' := by
    intro l1 h1
    split_ifs
    · exact update_isSome l1 x w (by rw [h1]; exact hw)
    · exact ⟨_, rfl⟩
  by_cases hx : x ∈ l.items
  · rw [if_pos hx]
    obtain ⟨l1, hr, -⟩ := LD.remove_shape l x hx
    rw [hr]
    exact key l1 (remove_weighted l l1 x hr)
  · rw [if_neg hx]
    exact key l rfl

/-- backward simulation of `insert`, for the calls the simulators make -/
theorem insert_sim_back (p p' : PyLD α) (l : LD α) (x : α) (w : Option Rat) (hR : R p l) (hI : LD.Inv l)
    (hw : w.isSome = l.weighted) (hins : insert p x w = .ok p') : ∃ l', l.insert x w = some l' ∧ R p' l' := by
  obtain ⟨l', hl'⟩ := insert_isSome l x w hw
  obtain ⟨p'', hp'', hR'⟩ := insert_sim p l l' x w hR hI hl'
  rw [hins] at hp''
  obtain rfl := Except.ok.inj hp''
  exact ⟨l', hl', hR'⟩

/-! ### operation histories -/

theorem applyOp_sim (p : PyLD α) (l l' : LD α) (o : LD.Op α) (hR : R p l) (hI : LD.Inv l)
    (h : l.applyOp o = some l') : ∃ p', applyOp p o = .ok p' ∧ R p' l' := by
  cases o with
  | ins x w => exact insert_sim p l l' x w hR hI h
  | upd x w => exact update_sim p l l' x w hR h
  | rem x => exact remove_sim p l l' x hR hI h

theorem applyOp_sim_back (p p' : PyLD α) (l : LD α) (o : LD.Op α) (hR : R p l) (hI : LD.Inv l)
    (ht : opTyped l.weighted o = true) (h : applyOp p o = .ok p') : ∃ l', l.applyOp o = some l' ∧ R p' l' := by
  cases o with
  | ins x w => exact insert_sim_back p p' l x w hR hI (by simpa [opTyped] using ht) h
  | upd x w => exact update_sim_back p p' l x w hR (by simpa [opTyped] using ht) h
  | rem x => exact remove_sim_back p p' l x hR hI h

theorem applyOp_weighted (l l' : LD α) (o : LD.Op α) (h : l.applyOp o = some l') : l'.weighted = l.weighted := by
  cases o with
  | ins x w => exact insert_weighted l l' x w h
  | upd x w => exact update_weighted l l' x w h
  | rem x => exact remove_weighted l l' x h

/-- forward simulation of a whole history from related states -/
theorem applyOps_sim_from (p : PyLD α) (l l' : LD α) (ops : List (LD.Op α)) (hR : R p l) (hI : LD.Inv l)
    (hw : ∀ o ∈ ops, o.nonneg) (h : l.applyOps ops = some l') :
    ∃ p', applyOps p ops = .ok p' ∧ R p' l' := by
  induction ops generalizing p l with
  | nil =>
    simp only [LD.applyOps] at h
    obtain rfl := Option.some.inj h
    exact ⟨p, rfl, hR⟩
  | cons o os ih =>
    simp only [LD.applyOps] at h
    cases ho : l.applyOp o with
    | none => rw [ho] at h; simp at h
    | some l1 =>
      rw [ho] at h
      obtain ⟨p1, hp1, hR1⟩ := applyOp_sim p l l1 o hR hI ho
      have hI1 := LD.inv_step l l1 o hI (hw o (by simp)) ho
      obtain ⟨p', hp', hR'⟩ := ih p1 l1 hR1 hI1 (fun o' ho' => hw o' (by simp [ho'])) h
      refine ⟨p', ?_, hR'⟩
      simp only [applyOps, hp1, hp']

/-- backward simulation of a whole history from related states -/
theorem applyOps_sim_back_from (p p' : PyLD α) (l : LD α) (ops : List (LD.Op α)) (hR : R p l) (hI : LD.Inv l)
    (hw : ∀ o ∈ ops, o.nonneg) (ht : ∀ o ∈ ops, opTyped l.weighted o = true) (h : applyOps p ops = .ok p') :
    ∃ l', l.applyOps ops = some l' ∧ R p' l' := by
  induction ops generalizing p l with
  | nil =>
    simp only [applyOps] at h
    obtain rfl := Except.ok.inj h
    exact ⟨l, rfl, hR⟩
  | cons o os ih =>
    simp only [applyOps] at h
    cases ho : applyOp p o with
    | error e => rw [ho] at h; simp at h
    | ok p1 =>
      rw [ho] at h
      obtain ⟨l1, hl1, hR1⟩ := applyOp_sim_back p p1 l o hR hI (ht o (by simp)) ho
      have hI1 := LD.inv_step l l1 o hI (hw o (by simp)) hl1
      have hwd := applyOp_weighted l l1 o hl1
      obtain ⟨l', hl', hR'⟩ := ih p1 l1 hR1 hI1 (fun o' ho' => hw o' (by simp [ho']))
        (fun o' ho' => by rw [hwd]; exact ht o' (by simp [ho'])) h
      refine ⟨l', ?_, hR'⟩
      simp only [LD.applyOps, hl1, hl']

/-- **forward simulation of operation histories from `__init__`** -/
theorem applyOps_sim (b : Bool) (ops : List (LD.Op α)) (l' : LD α) (hw : ∀ o ∈ ops, o.nonneg)
    (h : (LD.empty b : LD α).applyOps ops = some l') :
    ∃ p', applyOps (init b : PyLD α) ops = .ok p' ∧ R p' l' :=
  applyOps_sim_from _ _ l' ops (init_R b) (LD.inv_empty b) hw h

/-- **backward simulation of operation histories from `__init__`**: every normally terminating run of the generated
code on a well-typed non-negative history is a run of the hand model -/
theorem applyOps_sim_back (b : Bool) (ops : List (LD.Op α)) (p' : PyLD α) (hw : ∀ o ∈ ops, o.nonneg)
    (ht : ∀ o ∈ ops, opTyped b o = true) (h : applyOps (init b : PyLD α) ops = .ok p') :
    ∃ l', (LD.empty b : LD α).applyOps ops = some l' ∧ R p' l' :=
  applyOps_sim_back_from _ p' _ ops (init_R b) (LD.inv_empty b) hw ht h

/-! ### `choose_random`, `total_weight` -/

/-- **selection**: `choose_random` of the generated code returns the item the hand model selects; the only state
change it can make (the `defaultdict` read `self.weight[choice]`) is void because every listed item has a weight
entry, so the state is returned unchanged. -/
theorem choose_random_sim (p : PyLD α) (l : LD α) (draws : List (Nat × Rat)) (c : α) (k : Nat)
    (hR : R p l) (hI : LD.Inv l) (h : l.chooseRandom draws = some (c, k)) :
    choose_random p draws = .ok (p, c) := by
  obtain ⟨itp, items, wd, wt, mw, tw, mc⟩ := p
  obtain ⟨lwd, litems, lwt, lmw, lmc, ltw⟩ := l
  obtain ⟨h1, h2, h3, h4, h5, h6, h7, h8⟩ := hR
  simp only at h1 h2 h3 h4 h5 h6 h7 h8
  subst h1 h2 h3 h4 h5 h6
  induction draws generalizing k with
  | nil => simp [LD.chooseRandom] at h
  | cons d rest ih =>
    obtain ⟨i, r⟩ := d
    unfold LD.chooseRandom at h
    unfold choose_random
    dsimp only at h ⊢
    cases hi : items[i]? with
    | none => rw [hi] at h; simp at h
    | some c' =>
      rw [hi] at h
      dsimp only at h
      have hmem : c' ∈ items := List.mem_of_getElem? hi
      simp only [PyRT.listChoice, hi, pure_eq_ok, ok_bind]
      cases wd with
      | true =>
        have htouch : PyRT.ddTouch wt c' = wt := ddTouch_of_alHas _ _ ((hI.keys rfl c').2 hmem)
        simp only [Bool.not_true, Bool.false_eq_true, if_false] at h
        simp only [if_true, htouch]
        have hthr : LD.acceptThr ⟨true, items, wt, mw, mc, tw⟩ c' = alGet wt 0 c' / mw := rfl
        rw [← hthr]
        by_cases hacc : r < LD.acceptThr ⟨true, items, wt, mw, mc, tw⟩ c'
        · rw [if_pos hacc] at h ⊢
          obtain ⟨rfl, -⟩ := Prod.mk.inj (Option.some.inj h)
          rfl
        · rw [if_neg hacc] at h ⊢
          cases hrec : LD.chooseRandom ⟨true, items, wt, mw, mc, tw⟩ rest with
          | none => rw [hrec] at h; simp at h
          | some q =>
            obtain ⟨c'', m⟩ := q
            rw [hrec] at h
            simp only [Option.map_some] at h
            obtain ⟨rfl, -⟩ := Prod.mk.inj (Option.some.inj h)
            exact ih m hrec
      | false =>
        simp only [Bool.not_false, if_true] at h
        obtain ⟨rfl, -⟩ := Prod.mk.inj (Option.some.inj h)
        simp only [Bool.false_eq_true, if_false]

/-- backward direction of the selection: a normally returning `choose_random` is a run of the hand model
(for some number `k` of rounds), and returns the state unchanged -/
theorem choose_random_sim_back (p p' : PyLD α) (l : LD α) (draws : List (Nat × Rat)) (c : α)
    (hR : R p l) (hI : LD.Inv l) (h : choose_random p draws = .ok (p', c)) :
    p' = p ∧ ∃ k, l.chooseRandom draws = some (c, k) := by
  obtain ⟨itp, items, wd, wt, mw, tw, mc⟩ := p
  obtain ⟨lwd, litems, lwt, lmw, lmc, ltw⟩ := l
  obtain ⟨h1, h2, h3, h4, h5, h6, h7, h8⟩ := hR
  simp only at h1 h2 h3 h4 h5 h6 h7 h8
  subst h1 h2 h3 h4 h5 h6
  induction draws with
  | nil => simp [choose_random, throw, throwThe, MonadExceptOf.throw] at h
  | cons d rest ih =>
    obtain ⟨i, r⟩ := d
    unfold LD.chooseRandom
    unfold choose_random at h
    dsimp only at h ⊢
    cases hi : items[i]? with
    | none =>
      simp [PyRT.listChoice, hi, throw, throwThe, MonadExceptOf.throw, bind, Except.bind] at h
    | some c' =>
      dsimp only
      have hmem : c' ∈ items := List.mem_of_getElem? hi
      simp only [PyRT.listChoice, hi, pure_eq_ok, ok_bind] at h
      cases wd with
      | true =>
        have htouch : PyRT.ddTouch wt c' = wt := ddTouch_of_alHas _ _ ((hI.keys rfl c').2 hmem)
        simp only [Bool.not_true, Bool.false_eq_true, if_false]
        simp only [if_true, htouch] at h
        have hthr : LD.acceptThr ⟨true, items, wt, mw, mc, tw⟩ c' = alGet wt 0 c' / mw := rfl
        rw [← hthr] at h
        by_cases hacc : r < LD.acceptThr ⟨true, items, wt, mw, mc, tw⟩ c'
        · rw [if_pos hacc] at h ⊢
          obtain ⟨rfl, rfl⟩ := Prod.mk.inj (Except.ok.inj h)
          exact ⟨rfl, 1, rfl⟩
        · rw [if_neg hacc] at h ⊢
          obtain ⟨hp, k, hk⟩ := ih h
          exact ⟨hp, k + 1, by rw [hk]; rfl⟩
      | false =>
        simp only [Bool.false_eq_true, if_false] at h
        obtain ⟨rfl, rfl⟩ := Prod.mk.inj (Except.ok.inj h)
        exact ⟨rfl, 1, by simp⟩

/-- **clock**: `total_weight()` of the generated code returns the hand model's `totalWeight` and leaves the state
unchanged -/
theorem total_weight_sim (p : PyLD α) (l : LD α) (hR : R p l) : total_weight p = .ok (p, l.totalWeight) := by
  unfold total_weight LD.totalWeight len__
  rw [hR.weighted, hR.total, hR.items]
  split <;> rfl

end GenLD

/-! ### the relation is functional: `R p l` says `l` is the abstraction `toLD p` of `p` -/
namespace GenLD
variable {α : Type} [DecidableEq α]

theorem R_toLD {p : PyLD α} {l : LD α} (h : R p l) : l = toLD p := by
  obtain ⟨lwd, litems, lwt, lmw, lmc, ltw⟩ := l
  obtain ⟨h1, h2, h3, h4, h5, h6, -, -⟩ := h
  simp only at h1 h2 h3 h4 h5 h6
  subst h1 h2 h3 h4 h5 h6
  rfl

theorem R_iff (p : PyLD α) (l : LD α) : R p l ↔ (l = toLD p ∧ PosMap p.item_to_position p.items) := by
  constructor
  · intro h; exact ⟨R_toLD h, h.posMap⟩
  · rintro ⟨rfl, h1, h2⟩
    exact ⟨rfl, rfl, rfl, rfl, rfl, rfl, h1, h2⟩

/-- the generated `choose_random` and the hand model's `chooseRandom` select the same item on every tape of draws
(and fail together: draws exhausted / index out of range) -/
theorem choose_random_iff (p : PyLD α) (l : LD α) (draws : List (Nat × Rat)) (c : α) (hR : R p l) (hI : LD.Inv l) :
    choose_random p draws = .ok (p, c) ↔ ∃ k, l.chooseRandom draws = some (c, k) := by
  constructor
  · intro h; exact (choose_random_sim_back p p l draws c hR hI h).2
  · rintro ⟨k, hk⟩; exact choose_random_sim p l draws c k hR hI hk

/-- one round of the generated `choose_random` on a weighted structure: the item `c` at the drawn index is accepted
exactly when the drawn number `r` is below `weight[c]/max_weight`; otherwise the next round runs on the SAME state -/
theorem choose_random_round (p : PyLD α) (l : LD α) (hR : R p l) (hI : LD.Inv l) (hwt : p.weighted = true)
    (i : Nat) (r : Rat) (rest : List (Nat × Rat)) (c : α) (hi : p.items[i]? = some c) :
    choose_random p ((i, r) :: rest) =
      if r < alGet p.weight 0 c / p.max_weight then .ok (p, c) else choose_random p rest := by
  have hmem : c ∈ l.items := by rw [← hR.items]; exact List.mem_of_getElem? hi
  have hwt' : l.weighted = true := by rw [← hR.weighted]; exact hwt
  have htouch : PyRT.ddTouch p.weight c = p.weight := by
    apply ddTouch_of_alHas; rw [hR.weight]; exact (hI.keys hwt' c).2 hmem
  obtain ⟨itp, items, wd, wt, mw, tw, mc⟩ := p
  simp only at hwt htouch hi
  subst hwt
  rw [choose_random]
  simp only [PyRT.listChoice, hi, pure_eq_ok, ok_bind, if_true, htouch]

end GenLD
