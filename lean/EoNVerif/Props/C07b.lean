import EoNVerif.Proofs.ODE3
/-!
C07b — more reductions between the ODE models of `EoN.analytic` (continuation of `Props/C07.lean`, `Props/C06b.lean`).

* `hetPW_sir_regular`, `hetPW_sis_regular`: the heterogeneous pairwise models restricted to a single occupied degree
  class are the homogeneous pairwise models (and the single-class subspace is invariant); `*_guard` describe the
  `x[x==0] = 1` guards when they are active.
* `pairBased_sis_regular`: the SIS pair-based model with node-uniform state is the homogeneous pairwise SIS model.
* `ebcm_to_compactED`: semiconjugacy EBCM → SIR compact effective degree, with the observed S (`ebcm_compactED_S`),
  the justification of the explicit derivative (`Skappa_isDeriv`) and the t = 0 map (`compactED_init`).

All statements are algebraic identities over ℚ for every state and parameter value, with explicit non-vanishing
hypotheses for the denominators the code divides by (Lean's `x / 0 = 0` differs from NumPy's `nan`/`inf`).
Definitions `only`, `only2`, `zetaOf`, `Skappa`, `dSkappa`, `SkappaPoly`, `SIof`, `dSIof` live in `Proofs/ODESemi.lean`
and `Proofs/ODE3.lean`.
-/
namespace ODE

/-! ## heterogeneous pairwise on a regular graph = homogeneous pairwise -/

/-- **SIR heterogeneous pairwise on an n-regular graph.**  `_dSIR_heterogeneous_pairwise_` (analytic.py 2759–2805)
evaluated at a state whose only occupied degree class is index `m` (degree `Ks[m] = n`; `S_m = S`, `I_m = I`,
`[S_mS_m] = SS`, `[S_mI_m] = SI`, every other entry 0) returns, in class `m`, exactly what
`_dSIR_homogeneous_pairwise_` (1971–1979) returns for `(S, I, SI, SS)`; every other entry of the returned vector is 0,
so the single-class states form an invariant subspace on which the two models coincide.  The guards
`tmpKs[tmpKs==0] = 1`, `tmpSk[tmpSk==0] = 1` are inactive in the occupied class because `n ≠ 0` and `S ≠ 0`; in the
empty classes they are active but multiply a zero numerator. -/
theorem hetPW_sir_regular (K m : Nat) (hm : m < K) (Ks : Nat → Rat) (tau gamma n S I SS SI : Rat)
    (hKs : Ks m = n) (hn : n ≠ 0) (hS : S ≠ 0) :
    let r := sirHetPW K tau gamma Ks (only m S) (only m I) (only2 m SS) (only2 m SI)
    let h := sirHomPW n tau gamma S I SI SS
    (r.1 m = h.1 ∧ r.2.1 m = h.2.1 ∧ r.2.2.1 m m = h.2.2.2 ∧ r.2.2.2 m m = h.2.2.1) ∧
    (∀ k, k ≠ m → r.1 k = 0 ∧ r.2.1 k = 0) ∧
    (∀ k l, ¬ (k = m ∧ l = m) → r.2.2.1 k l = 0 ∧ r.2.2.2 k l = 0) :=
  hetPW_sir_regular_aux K m hm Ks tau gamma n S I SS SI hKs hn hS

/-- **The SIR guards when active** (`S_m = 0`, `n ≠ 0`): `_dSIR_heterogeneous_pairwise_` divides by `n * 1`, so the
closures are `[SS](n-1)[SI]/n` and `[SI](n-1)[SI]/n` — finite, and 0 on consistent states (`[SS] = [SI] = 0` when no
node is susceptible) — where `_dSIR_homogeneous_pairwise_` divides by `S = 0`. -/
theorem hetPW_sir_regular_guard (K m : Nat) (hm : m < K) (Ks : Nat → Rat) (tau gamma n I SS SI : Rat)
    (hKs : Ks m = n) (hn : n ≠ 0) :
    let r := sirHetPW K tau gamma Ks (only m 0) (only m I) (only2 m SS) (only2 m SI)
    r.2.2.1 m m = -2 * tau * (SS * (n - 1) * SI / n) ∧
    r.2.2.2 m m = -gamma * SI + tau * (SS * (n - 1) * SI / n - SI * (n - 1) * SI / n - SI) :=
  hetPW_sir_regular_guard_aux K m hm Ks tau gamma n I SS SI hKs hn

/-- **SIS heterogeneous pairwise on an n-regular graph.**  `_dSIS_heterogeneous_pairwise_` (analytic.py 2683–2757)
at a single-class state (`Nk[m] = Ntot`, `NkNl[m,m] = Ntot n`, `S_m = S`, `[S_mS_m] = SS`, `[S_mI_m] = SI`, all other
entries 0) returns in class `m` what `_dSIS_homogeneous_pairwise_` (1943–1968) returns for `(S, SI, SS)` and 0
elsewhere.  The guard `kxSk[kxSk==0] = 1` is inactive in class `m` exactly because `n S ≠ 0`. -/
theorem hetPW_sis_regular (K m : Nat) (hm : m < K) (Ks : Nat → Rat) (tau gamma n Ntot S SS SI : Rat)
    (hKs : Ks m = n) (hnS : n * S ≠ 0) :
    let r := sisHetPW K tau gamma Ks (only m Ntot) (only2 m (Ntot * n)) (only m S) (only2 m SS) (only2 m SI)
    let h := sisHomPW Ntot n tau gamma S SI SS
    (r.1 m = h.1 ∧ r.2.1 m m = h.2.2 ∧ r.2.2 m m = h.2.1) ∧
    (∀ k, k ≠ m → r.1 k = 0) ∧
    (∀ k l, ¬ (k = m ∧ l = m) → r.2.1 k l = 0 ∧ r.2.2 k l = 0) :=
  hetPW_sis_regular_aux K m hm Ks tau gamma n Ntot S SS SI hKs hnS

/-- **The SIS guard when active** (`n S = 0`): `_dSIS_heterogeneous_pairwise_` divides by 1 -/
theorem hetPW_sis_regular_guard (K m : Nat) (hm : m < K) (Ks : Nat → Rat) (tau gamma n Ntot S SS SI : Rat)
    (hKs : Ks m = n) (hnS : n * S = 0) :
    let r := sisHetPW K tau gamma Ks (only m Ntot) (only2 m (Ntot * n)) (only m S) (only2 m SS) (only2 m SI)
    r.2.1 m m = 2 * gamma * SI - 2 * tau * (SS * (n - 1) * SI) ∧
    r.2.2 m m = gamma * (Ntot * n - SS - 2 * SI - SI) + tau * (SS * (n - 1) * SI - SI * (n - 1) * SI - SI) :=
  hetPW_sis_regular_guard_aux K m hm Ks tau gamma n Ntot S SS SI hKs hnS

/-! ## SIS pair-based with uniform state = homogeneous pairwise -/

/-- **SIS pair-based model on an n-regular graph.**  `_dSIS_pair_based_` (analytic.py 945–1035) with constant rates
and a node-uniform state (`Y_i = y`, `XY_ij = xy`, `XX_ij = xx`) evaluated at an edge `i–j` whose end nodes have `n`
distinct neighbours (in particular on any n-regular graph): multiplied by the number of nodes `Ntot` (node
equations) and of directed edges `Ntot n` (pair equations) the result is what `_dSIS_homogeneous_pairwise_`
(1943–1968) returns for `[S] = Ntot(1-y)`, `[SI] = Ntot n xy`, `[SS] = Ntot n xx`.  The first component of the
pair-based model is `dY/dt = dI/dt`, hence the minus sign.  SIS analogue of `pairBased_sir_regular`. -/
theorem pairBased_sis_regular (nbrs : Nat → List Nat) (n : Nat) (tau gamma y xy xx Ntot : Rat)
    (i j : Nat) (hdi : (nbrs i).length = n) (hdj : (nbrs j).length = n) (hndi : (nbrs i).Nodup) (hndj : (nbrs j).Nodup)
    (hij : j ∈ nbrs i) (hji : i ∈ nbrs j) (hx : 1 - y ≠ 0) (hn : (n : Rat) ≠ 0) (hN : Ntot ≠ 0) :
    let r := sisPairBased nbrs (fun _ _ => tau) (fun _ => gamma) (fun _ => y) (fun _ _ => xy) (fun _ _ => xx)
    let h := sisHomPW Ntot (n : Rat) tau gamma (Ntot * (1 - y)) (Ntot * n * xy) (Ntot * n * xx)
    Ntot * r.1 i = -h.1 ∧ Ntot * n * r.2.1 i j = h.2.1 ∧ Ntot * n * r.2.2 i j = h.2.2 :=
  pairBased_sis_regular_aux nbrs n tau gamma y xy xx Ntot i j hdi hdj hndi hndj hij hji hx hn hN

/-! ## EBCM → SIR compact effective degree -/
section EBCM
variable (K : Nat) (c : Nat → Rat) (N tau gamma phiS0 phiR0 : Rat)

/-- **EBCM → SIR compact effective degree.**  Let `(θ, R)` be an EBCM state (`_dEBCM_`, analytic.py 5216–5229) and
put `φ_R = φ_R(0) + γ(1-θ)/τ`, `ζ = θ - φ_R`,
`S_κ(θ) = N Σ_k c_k C(k,κ) ζ^κ φ_R^(k-κ)` (a susceptible degree-`k` node has each neighbour independently
non-recovered with probability `ζ/θ`), `[SI](θ) = N ψ̂'(θ) φ_I(θ)`.  Then `_dSIR_compact_effective_degree_`
(4376–4393) evaluated at `(S_κ(θ), R, [SI](θ))` equals the chain-rule image of the EBCM derivative:
`dS_κ/dθ · θ'`, `R'`, `d[SI]/dθ · θ'`.  So the image of an EBCM trajectory solves system (5.43) as coded, including
the truncation `shift(kappas*Skappa,-1)` at the top class `κ = K-1`.  Denominators: `τ` (in `φ_R`), and the code's
`SX = Σ κ S_κ = N ζ ψ̂'(θ)`. -/
theorem ebcm_to_compactED (theta R : Rat) (ht : tau ≠ 0) (hN : N ≠ 0)
    (hz : zetaOf tau gamma phiR0 theta ≠ 0) (hp : psiHP K c theta ≠ 0) :
    let th' := (ebcm K c N tau gamma phiS0 phiR0 theta R).1
    let r := sirCompactED K tau gamma N (Skappa K c N tau gamma phiR0 theta) R (SIof K c N tau gamma phiS0 phiR0 theta)
    (∀ κ, κ < K → r.1 κ = dSkappa K c N tau gamma phiR0 theta κ * th') ∧
    r.2.1 = (ebcm K c N tau gamma phiS0 phiR0 theta R).2 ∧
    r.2.2 = dSIof K c N tau gamma phiS0 phiR0 theta * th' :=
  ebcm_to_compactED_aux K c N tau gamma phiS0 phiR0 theta R ht hN hz hp

/-- the observed susceptible count agrees (`S = Skappa.sum(axis=0)` in `SIR_compact_effective_degree` vs
`S = N*psihat(theta)` in `EBCM`), hence so does `I = N - S - R` -/
theorem ebcm_compactED_S (theta : Rat) : sumTo K (Skappa K c N tau gamma phiR0 theta) = N * psiH K c theta :=
  sum_Skappa K c N tau gamma phiR0 theta

/-- the code's `SX = Skappa.dot(kappas)` and `sum(kappas*(kappas-1)*Skappa)` in EBCM variables -/
theorem ebcm_compactED_moments (theta : Rat) :
    sumTo K (fun κ => Skappa K c N tau gamma phiR0 theta κ * kf κ) = N * zetaOf tau gamma phiR0 theta * psiHP K c theta ∧
    sumTo K (fun κ => kf κ * (kf κ - 1) * Skappa K c N tau gamma phiR0 theta κ)
      = N * zetaOf tau gamma phiR0 theta ^ 2 * psiHDP K c theta :=
  ⟨sum_kSkappa K c N tau gamma phiR0 theta, sum_kkSkappa K c N tau gamma phiR0 theta⟩

/-- `S_κ` is a polynomial in θ and `dSkappa` is its derivative (justifies the explicit `DΦ` used in
`ebcm_to_compactED`; for `SIof`/`dSIof` see `psiHP_deriv`, `psiHDP_deriv` in `Props/C07.lean`) -/
theorem Skappa_isDeriv (theta : Rat) (κ : Nat) :
    Skappa K c N tau gamma phiR0 theta κ = (SkappaPoly K c N tau gamma phiR0 κ).eval theta ∧
    dSkappa K c N tau gamma phiR0 theta κ = (Polynomial.derivative (SkappaPoly K c N tau gamma phiR0 κ)).eval theta :=
  ⟨Skappa_eval K c N tau gamma phiR0 theta κ, dSkappa_eval K c N tau gamma phiR0 theta κ⟩

/-- at `t = 0` (θ = 1, `φ_R(0) = 0`) the change of variables is the initial condition computed by
`SIR_compact_effective_degree_from_graph` in the `rho` branch (analytic.py 4559–4568): `Skappa0 = Nk*(1-rho)`
(`= N c_κ`, with `c_k = P(k)(1-rho)` as in `EBCM_uniform_introduction`, 5354–5400) and
`SI0 = sum(k*Skappa0[k]*rho)` with `rho = 1 - φ_S(0)` -/
theorem compactED_init (h1 : psiHP K c 1 ≠ 0) :
    (∀ κ, κ < K → Skappa K c N tau gamma 0 1 κ = N * c κ) ∧
    SIof K c N tau gamma phiS0 0 1 = sumTo K (fun k => kf k * (N * c k) * (1 - phiS0)) :=
  ⟨fun κ hκ => Skappa_init_aux K c N tau gamma κ hκ, SIof_init_aux K c N tau gamma phiS0 h1⟩

end EBCM
end ODE

/-! non-vacuity: every main theorem is instantiated on a concrete non-trivial state (so its hypotheses are
satisfiable) and both sides are evaluated to the same non-zero rationals -/
section NonVacuity
open ODE
/-- degrees present: 2, 3, 5; only class index 1 (degree 3) is occupied -/
private def KsEx : Nat → Rat := fun k => [2, 3, 5].getD k 0
/-- P(1)=1/4, P(2)=1/2, P(3)=1/4 -/
private def cEx : Nat → Rat := fun k => [0, 1/4, 1/2, 1/4].getD k 0
/-- a triangle: every node has the two other nodes as neighbours -/
private def triEx : Nat → List Nat := fun i => if i = 0 then [1, 2] else if i = 1 then [0, 2] else if i = 2 then [0, 1] else []

example := hetPW_sir_regular 3 1 (by decide) KsEx 1 (1/2) 3 90 8 200 30 (by decide +kernel) (by decide +kernel) (by decide +kernel)
example := hetPW_sis_regular 3 1 (by decide) KsEx 1 (1/2) 3 100 90 200 30 (by decide +kernel) (by decide +kernel)
example := hetPW_sir_regular_guard 3 1 (by decide) KsEx 1 (1/2) 3 8 200 30 (by decide +kernel) (by decide +kernel)
example := hetPW_sis_regular_guard 3 1 (by decide) KsEx 1 (1/2) 3 100 0 200 30 (by decide +kernel) (by decide +kernel)

example :
    let r := sirHetPW 3 1 (1/2) KsEx (only 1 90) (only 1 8) (only2 1 200) (only2 1 30)
    (r.1 1, r.2.1 1, r.2.2.2 1 1, r.2.2.1 1 1) = (-30, 26, -65/9, -800/9)
    ∧ sirHomPW 3 1 (1/2) 90 8 30 200 = (-30, 26, -65/9, -800/9)
    ∧ (r.1 0, r.2.1 2, r.2.2.1 0 1, r.2.2.2 1 2) = (0, 0, 0, 0) := by
  decide +kernel

example :
    let r := sisHetPW 3 1 (1/2) KsEx (only 1 100) (only2 1 (100 * 3)) (only 1 90) (only2 1 200) (only2 1 30)
    (r.1 1, r.2.2 1 1, r.2.1 1 1) = (-25, 115/9, -530/9)
    ∧ sisHomPW 100 3 1 (1/2) 90 30 200 = (-25, 115/9, -530/9) := by
  decide +kernel

example := pairBased_sis_regular triEx 2 2 1 (1/4) (1/8) (3/5) 3 0 1 (by decide) (by decide) (by decide) (by decide)
  (by decide) (by decide) (by decide +kernel) (by decide +kernel) (by decide +kernel)

example :
    let r := sisPairBased triEx (fun _ _ => 2) (fun _ => 1) (fun _ => 1/4) (fun _ _ => 1/8) (fun _ _ => 3/5)
    let h := sisHomPW 3 2 2 1 (3 * (1 - 1/4)) (3 * 2 * (1/8)) (3 * 2 * (3/5))
    (3 * r.1 0, 3 * 2 * r.2.1 0 1, 3 * 2 * r.2.2 0 1) = (3/4, -2/5, -9/10) ∧ (-h.1, h.2.1, h.2.2) = (3/4, -2/5, -9/10) := by
  decide +kernel

/-- EBCM state θ = 9/10, R = 3 with τ = 1, γ = 1/2, N = 100, φ_S(0) = 9/10, φ_R(0) = 0: ζ = 17/20 ≠ 0 -/
example := ebcm_to_compactED 4 cEx 100 1 (1/2) (9/10) 0 (9/10) 3 (by decide +kernel) (by decide +kernel)
  (by decide +kernel) (by decide +kernel)

example :
    let th' := (ebcm 4 cEx 100 1 (1/2) (9/10) 0 (9/10) 3).1
    let r := sirCompactED 4 1 (1/2) 100 (Skappa 4 cEx 100 1 (1/2) 0 (9/10)) 3 (SIof 4 cEx 100 1 (1/2) (9/10) 0 (9/10))
    zetaOf 1 (1/2) 0 (9/10) = 17/20 ∧ th' = -473/8000
    ∧ (r.1 0, r.1 1, r.1 2, r.1 3) = (dSkappa 4 cEx 100 1 (1/2) 0 (9/10) 0 * th', dSkappa 4 cEx 100 1 (1/2) 0 (9/10) 1 * th',
        dSkappa 4 cEx 100 1 (1/2) 0 (9/10) 2 * th', dSkappa 4 cEx 100 1 (1/2) 0 (9/10) 3 * th')
    ∧ r.1 3 ≠ 0 ∧ r.1 0 ≠ 0
    ∧ r.2.1 = 631/80 ∧ r.2.2 = -34685563/6400000
    ∧ dSIof 4 cEx 100 1 (1/2) (9/10) 0 (9/10) * th' = -34685563/6400000 := by
  decide +kernel

example : (Skappa 4 cEx 100 1 (1/2) 0 1 0, Skappa 4 cEx 100 1 (1/2) 0 1 1, Skappa 4 cEx 100 1 (1/2) 0 1 2,
    Skappa 4 cEx 100 1 (1/2) 0 1 3) = (0, 25, 50, 25) ∧ SIof 4 cEx 100 1 (1/2) (9/10) 0 1 = 20 := by
  decide +kernel
end NonVacuity
