import Driver
import EoNVerif.Gen.GillespieGen
open Lean Drv

/-! JSON-lines driver for the code GENERATED from `Gillespie_SIR` / `Gillespie_SIS` (Gen/GillespieGen.lean): the same
request as op "gill" of Driver.lean (`DrvG.run`), run on the generated functions.  Separate executable: when the
generated file does not build only this driver is affected. -/
namespace DrvGenGill

def getArgs (j : Json) : Except String PyTM.GArgs := do
  let P ← DrvG.getParams j
  let tmin ← getRat (← fld j "tmin")
  let tmax ← getERat (← fld j "tmax")
  let full ← match fldOpt j "full" with | some b => getBool b | none => pure false
  pure { nbrs := P.nbrs, order := P.nodes.length, tau := P.tau, gamma := P.gamma, tmin := tmin, tmax := tmax,
         hasTW := P.ew.isSome, hasRW := P.nw.isSome,
         adjw := (match P.ew with | some f => f | none => fun _ _ => 0),
         nodew := (match P.nw with | some f => f | none => fun _ => 0),
         full := full, cfuel := 1000 }

def jTrans (e : ERat × Option Node × Node) : Json :=
  Json.arr #[jERat e.1, (match e.2.1 with | some u => jNat u | none => Json.null), jNat e.2.2]

def jDD (d : List (Node × List ERat)) : Json :=
  jArr (fun p => Json.arr #[jNat p.1, jArr jERat p.2]) d

def run (j : Json) : Except String Json := do
  let A ← getArgs j
  let sis ← getBool (← fld j "sis")
  let recs ← getList getNat (← fld j "recs")
  let tape ← getList getDraw (← fld j "tape")
  let init ← fld j "init"
  if sis then
    let prog : TM GenGSIS.Loc := do
      let infs ← DrvG.normInit A.order init
      GenGSIS.run A infs 100000
    match prog { tape := tape } with
    | .error e => pure (errObj e)
    | .ok (s, ts) =>
      pure (Json.mkObj [("ok", Json.bool true), ("trace", Json.arr (ts.trace.map jCall)), ("unused", jNat ts.tape.length),
        ("times", jArr jERat s.times), ("S", jArr jInt s.S), ("I", jArr jInt s.I), ("R", jArr jInt []),
        ("status", jArr (fun u => jSt (s.status u)) (List.range A.order)),
        ("inf_items", jArr jNat s.infecteds.items),
        ("link_items", jArr (fun p => jArr jNat [p.1, p.2]) s.IS_links.items),
        ("transmissions", jArr jTrans s.transmissions),
        ("infection_times", jDD s.infection_times), ("recovery_times", jDD s.recovery_times)])
  else
    let prog : TM GenGSIR.Loc := do
      let infs ← DrvG.normInit A.order init
      GenGSIR.run A infs recs 100000
    match prog { tape := tape } with
    | .error e => pure (errObj e)
    | .ok (s, ts) =>
      pure (Json.mkObj [("ok", Json.bool true), ("trace", Json.arr (ts.trace.map jCall)), ("unused", jNat ts.tape.length),
        ("times", jArr jERat s.times), ("S", jArr jInt s.S), ("I", jArr jInt s.I), ("R", jArr jInt s.R),
        ("status", jArr (fun u => jSt (s.status u)) (List.range A.order)),
        ("inf_items", jArr jNat s.infecteds.items),
        ("link_items", jArr (fun p => jArr jNat [p.1, p.2]) s.IS_links.items),
        ("transmissions", jArr jTrans s.transmissions),
        ("infection_times", jDD s.infection_times), ("recovery_times", jDD s.recovery_times)])

def handle (line : String) : String :=
  match Json.parse line with
  | .ok j => match run j with
    | .ok r => r.compress
    | .error e => (errObj ("drivergill:" ++ e)).compress
  | .error e => (errObj ("parse:" ++ e)).compress
end DrvGenGill
