import EoNVerif.Model.ListDict
import EoNVerif.Model.ListDictLaw
import Mathlib.Tactic.Ring
import Mathlib.Tactic.FieldSimp
import Mathlib.Tactic.Linarith
import Mathlib.Algebra.Order.Field.Rat
/-!
Helper lemmas for C16 (`_ListDict_`): association lists, `swapRemove`, invariant preservation for each
operation, and the rejection-sampling recurrence.
-/

/-! ### association lists -/
section AL
variable {α β : Type} [DecidableEq α]

theorem alHas_alSet (l : List (α × β)) (x y : α) (v : β) :
    alHas (alSet l x v) y = true ↔ (alHas l y = true ∨ y = x) := by
  induction l with
  | nil =>
    simp only [alSet, alHas]
    by_cases hy : x = y
    · simp [hy]
    · have hy' : ¬ y = x := fun h => hy h.symm
      simp [hy, hy']
  | cons p t ih =>
    obtain ⟨k, w⟩ := p
    simp only [alSet, alHas]
    by_cases hk : k = x
    · subst hk; simp only [if_true, alHas]
      by_cases hy : k = y
      · simp [hy]
      · have hy' : ¬ y = k := fun h => hy h.symm
        simp [hy, hy']
    · simp only [hk, if_false, alHas]
      by_cases hy : k = y
      · simp [hy]
      · simp [hy, ih]

theorem alGet_alSet_self (l : List (α × β)) (x : α) (v d : β) :
    alGet (alSet l x v) d x = v := by
  induction l with
  | nil => simp [alSet, alGet]
  | cons p t ih =>
    obtain ⟨k, w⟩ := p
    simp only [alSet]
    by_cases hk : k = x
    · simp [hk, alGet]
    · simp [hk, alGet, ih]

theorem alGet_alSet_ne (l : List (α × β)) (x y : α) (v d : β) (h : y ≠ x) :
    alGet (alSet l x v) d y = alGet l d y := by
  induction l with
  | nil => simp [alSet, alGet, Ne.symm h]
  | cons p t ih =>
    obtain ⟨k, w⟩ := p
    simp only [alSet]
    by_cases hk : k = x
    · subst hk; simp [alGet, Ne.symm h]
    · simp only [hk, if_false, alGet, ih]

theorem alHas_alDel (l : List (α × β)) (x y : α) :
    alHas (alDel l x) y = true ↔ (alHas l y = true ∧ y ≠ x) := by
  induction l with
  | nil => simp [alDel, alHas]
  | cons p t ih =>
    obtain ⟨k, w⟩ := p
    simp only [alDel, alHas]
    by_cases hk : k = x
    · subst hk; simp only [if_true, ih]
      by_cases hy : k = y
      · subst hy; simp
      · simp [hy]
    · simp only [hk, if_false, alHas]
      by_cases hy : k = y
      · subst hy; simp [hk]
      · simp [hy, ih]

theorem alGet_alDel_ne (l : List (α × β)) (x y : α) (d : β) (h : y ≠ x) :
    alGet (alDel l x) d y = alGet l d y := by
  induction l with
  | nil => simp [alDel, alGet]
  | cons p t ih =>
    obtain ⟨k, w⟩ := p
    simp only [alDel]
    by_cases hk : k = x
    · subst hk; simp [alGet, Ne.symm h, ih]
    · simp only [hk, if_false, alGet, ih]

theorem alGet_of_not_alHas (l : List (α × β)) (x : α) (d : β) (h : alHas l x = false) :
    alGet l d x = d := by
  induction l with
  | nil => simp [alGet]
  | cons p t ih =>
    obtain ⟨k, w⟩ := p
    simp only [alHas] at h
    by_cases hk : k = x
    · simp [hk] at h
    · simp only [hk, if_false] at h; simp [alGet, hk, ih h]

theorem alGet_mem_of_alHas (l : List (α × β)) (x : α) (d : β) (h : alHas l x = true) :
    alGet l d x ∈ l.map (·.2) := by
  induction l with
  | nil => simp [alHas] at h
  | cons p t ih =>
    obtain ⟨k, w⟩ := p
    simp only [alHas] at h
    by_cases hk : k = x
    · simp [alGet, hk]
    · simp only [hk, if_false] at h
      simp only [alGet, hk, if_false, List.map_cons, List.mem_cons]
      exact Or.inr (ih h)

/-- keys of an association list (a Python dict has each key once) -/
def alKeys (l : List (α × β)) : List α := l.map (·.1)

theorem mem_alKeys_iff (l : List (α × β)) (x : α) : x ∈ alKeys l ↔ alHas l x = true := by
  induction l with
  | nil => simp [alKeys, alHas]
  | cons p t ih =>
    obtain ⟨k, w⟩ := p
    by_cases hk : k = x
    · simp [alKeys, alHas, hk]
    · have ih' : x ∈ List.map (fun p => p.1) t ↔ alHas t x = true := ih
      have hk' : ¬ x = k := fun h => hk h.symm
      simp [alKeys, alHas, hk, hk', ih']

theorem alKeys_alSet_nodup (l : List (α × β)) (x : α) (v : β) (h : (alKeys l).Nodup) :
    (alKeys (alSet l x v)).Nodup := by
  induction l with
  | nil => simp [alKeys, alSet]
  | cons p t ih =>
    obtain ⟨k, w⟩ := p
    have h' : k ∉ alKeys t ∧ (alKeys t).Nodup := by simpa [alKeys] using h
    by_cases hk : k = x
    · simpa [alKeys, alSet, hk] using h
    · have hnot : k ∉ alKeys (alSet t x v) := by
        rw [mem_alKeys_iff, alHas_alSet]
        intro hh
        rcases hh with hh | hh
        · exact h'.1 ((mem_alKeys_iff t k).2 hh)
        · exact hk hh
      have := ih h'.2
      simp only [alSet, hk, if_false]
      show ((k :: alKeys (alSet t x v))).Nodup
      exact List.nodup_cons.2 ⟨hnot, this⟩

theorem alKeys_alDel_nodup (l : List (α × β)) (x : α) (h : (alKeys l).Nodup) :
    (alKeys (alDel l x)).Nodup := by
  induction l with
  | nil => simp [alKeys, alDel]
  | cons p t ih =>
    obtain ⟨k, w⟩ := p
    have h' : k ∉ alKeys t ∧ (alKeys t).Nodup := by simpa [alKeys] using h
    by_cases hk : k = x
    · simp only [alDel, hk, if_true]; exact ih h'.2
    · have hnot : k ∉ alKeys (alDel t x) := by
        rw [mem_alKeys_iff, alHas_alDel]
        intro hh
        exact h'.1 ((mem_alKeys_iff t k).2 hh.1)
      simp only [alDel, hk, if_false]
      show ((k :: alKeys (alDel t x))).Nodup
      exact List.nodup_cons.2 ⟨hnot, ih h'.2⟩

/-- with unique keys the stored values are the looked-up values of the keys -/
theorem values_eq_map_alGet (l : List (α × β)) (d : β) (h : (alKeys l).Nodup) :
    l.map (·.2) = (alKeys l).map (alGet l d) := by
  induction l with
  | nil => rfl
  | cons p t ih =>
    obtain ⟨k, w⟩ := p
    have h' : k ∉ alKeys t ∧ (alKeys t).Nodup := by simpa [alKeys] using h
    simp only [List.map_cons, alKeys, alGet, if_true]
    congr 1
    have := ih h'.2
    rw [this]
    apply List.map_congr_left
    intro y hy
    have hne : k ≠ y := fun hky => h'.1 (hky ▸ hy)
    simp [alGet, hne]

end AL

/-! ### sums -/

theorem sumRat_append (l m : List Rat) : sumRat (l ++ m) = sumRat l + sumRat m := by
  induction l with
  | nil => simp
  | cons a t ih => simp [ih]; ring

theorem sumRat_perm {l m : List Rat} (h : l.Perm m) : sumRat l = sumRat m := by
  induction h with
  | nil => rfl
  | cons a _ ih => simp [ih]
  | swap a b l => simp; ring
  | trans _ _ ih1 ih2 => exact ih1.trans ih2

theorem sumRat_map_congr {γ : Type} (l : List γ) (f g : γ → Rat) (h : ∀ c ∈ l, f c = g c) :
    sumRat (l.map f) = sumRat (l.map g) := by
  induction l with
  | nil => rfl
  | cons a t ih =>
    simp only [List.map_cons, sumRat_cons]
    rw [h a (by simp), ih (fun c hc => h c (by simp [hc]))]

theorem sumRat_map_add {γ : Type} (l : List γ) (f g : γ → Rat) :
    sumRat (l.map fun c => f c + g c) = sumRat (l.map f) + sumRat (l.map g) := by
  induction l with
  | nil => simp
  | cons a t ih => simp [ih]; ring

theorem sumRat_map_mul_right {γ : Type} (l : List γ) (f : γ → Rat) (c : Rat) :
    sumRat (l.map fun i => f i * c) = sumRat (l.map f) * c := by
  induction l with
  | nil => simp
  | cons a t ih => simp [ih]; ring

theorem sumRat_map_mul_left {γ : Type} (l : List γ) (f : γ → Rat) (c : Rat) :
    sumRat (l.map fun i => c * f i) = c * sumRat (l.map f) := by
  induction l with
  | nil => simp
  | cons a t ih => simp [ih]; ring

theorem sumRat_map_const {γ : Type} (l : List γ) (c : Rat) :
    sumRat (l.map fun _ => c) = (l.length : Rat) * c := by
  induction l with
  | nil => simp
  | cons a t ih =>
    simp only [List.map_cons, sumRat_cons, ih, List.length_cons, Nat.cast_succ]; ring

theorem sumRat_map_zero {γ : Type} (l : List γ) (f : γ → Rat) (h : ∀ c ∈ l, f c = 0) :
    sumRat (l.map f) = 0 := by
  rw [sumRat_map_congr l f (fun _ => 0) h, sumRat_map_const]; ring

theorem sumRat_map_nonneg {γ : Type} (l : List γ) (f : γ → Rat) (h : ∀ c ∈ l, 0 ≤ f c) :
    0 ≤ sumRat (l.map f) := by
  induction l with
  | nil => simp
  | cons a t ih =>
    simp only [List.map_cons, sumRat_cons]
    have h1 := h a (by simp)
    have h2 := ih (fun c hc => h c (by simp [hc]))
    linarith

theorem sumRat_map_le {γ : Type} (l : List γ) (f g : γ → Rat) (h : ∀ c ∈ l, f c ≤ g c) :
    sumRat (l.map f) ≤ sumRat (l.map g) := by
  induction l with
  | nil => simp
  | cons a t ih =>
    simp only [List.map_cons, sumRat_cons]
    have h1 := h a (by simp)
    have h2 := ih (fun c hc => h c (by simp [hc]))
    linarith

/-- indicator sum over a duplicate-free list -/
theorem sumRat_indicator {γ : Type} [DecidableEq γ] (l : List γ) (x : γ) (f : γ → Rat)
    (hn : l.Nodup) (hx : x ∈ l) :
    sumRat (l.map fun c => f c * (if c = x then 1 else 0)) = f x := by
  induction l with
  | nil => simp at hx
  | cons a t ih =>
    simp only [List.map_cons, sumRat_cons]
    rw [List.nodup_cons] at hn
    by_cases ha : a = x
    · subst ha
      rw [sumRat_map_zero]
      · simp
      · intro c hc
        have : c ≠ a := fun h => hn.1 (h ▸ hc)
        simp [this]
    · have hx' : x ∈ t := by
        rcases List.mem_cons.1 hx with h | h
        · exact absurd h.symm ha
        · exact h
      rw [ih hn.2 hx']; simp [ha]

/-- a positive sum has a positive term -/
theorem exists_pos_of_sumRat_pos {γ : Type} (l : List γ) (f : γ → Rat) (h : 0 < sumRat (l.map f)) :
    ∃ c ∈ l, 0 < f c := by
  induction l with
  | nil => simp at h
  | cons a t ih =>
    simp only [List.map_cons, sumRat_cons] at h
    by_cases ha : 0 < f a
    · exact ⟨a, by simp, ha⟩
    · have : 0 < sumRat (t.map f) := by linarith
      obtain ⟨c, hc, hp⟩ := ih this
      exact ⟨c, by simp [hc], hp⟩

/-! ### `swapRemove` -/
namespace LD
variable {α : Type} [DecidableEq α]

theorem set_idxOf_perm (l : List α) (x z : α) (hx : x ∈ l) :
    (l.set (l.idxOf x) z).Perm (z :: l.erase x) := by
  induction l with
  | nil => simp at hx
  | cons a t ih =>
    by_cases ha : a = x
    · subst ha; simp
    · have hx' : x ∈ t := by
        rcases List.mem_cons.1 hx with h | h
        · exact absurd h.symm ha
        · exact h
      have h1 : (a :: t).idxOf x = t.idxOf x + 1 := by
        simp [ha]
      have h2 : (a :: t).erase x = a :: t.erase x := by
        simp [ha]
      rw [h1, h2, List.set_cons_succ]
      exact ((ih hx').cons a).trans (List.Perm.swap z a _)

theorem swapRemove_perm (l : List α) (x : α) (hn : l.Nodup) (hx : x ∈ l) :
    (swapRemove l x).Perm (l.erase x) := by
  have hne : l ≠ [] := by intro h; simp [h] at hx
  obtain ⟨l₀, z, rfl⟩ : ∃ l₀ z, l = l₀ ++ [z] :=
    ⟨l.dropLast, l.getLast hne, (List.dropLast_append_getLast hne).symm⟩
  have hnd := List.nodup_append.1 hn
  unfold swapRemove
  simp only [List.dropLast_concat, List.getLast?_concat]
  by_cases hz : x = z
  · subst hz
    have hnot : x ∉ l₀ := fun h => hnd.2.2 x h x (by simp) rfl
    have : (l₀ ++ [x]).idxOf x = l₀.length := by
      rw [List.idxOf_append_of_notMem hnot]; simp
    simp only [this, if_true]
    rw [List.erase_append_right _ hnot]; simp
  · have hin : x ∈ l₀ := by
      rcases List.mem_append.1 hx with h | h
      · exact h
      · simp at h; exact absurd h hz
    have h1 : (l₀ ++ [z]).idxOf x = l₀.idxOf x := List.idxOf_append_of_mem hin
    have h2 : l₀.idxOf x ≠ l₀.length := by
      have := List.idxOf_lt_length_of_mem hin; omega
    simp only [h1, h2, if_false]
    rw [List.erase_append_left _ hin]
    exact (set_idxOf_perm l₀ x z hin).trans (List.perm_append_singleton z _).symm

theorem mem_swapRemove (l : List α) (x y : α) (hn : l.Nodup) (hx : x ∈ l) :
    y ∈ swapRemove l x ↔ (y ∈ l ∧ y ≠ x) := by
  rw [(swapRemove_perm l x hn hx).mem_iff, hn.mem_erase_iff]; exact and_comm

theorem nodup_swapRemove (l : List α) (x : α) (hn : l.Nodup) (hx : x ∈ l) :
    (swapRemove l x).Nodup :=
  (swapRemove_perm l x hn hx).nodup_iff.2 (hn.erase x)

theorem sumRat_swapRemove (l : List α) (x : α) (f : α → Rat) (hn : l.Nodup) (hx : x ∈ l) :
    sumRat ((swapRemove l x).map f) = sumRat (l.map f) - f x := by
  rw [sumRat_perm ((swapRemove_perm l x hn hx).map f)]
  have := sumRat_perm ((List.perm_cons_erase hx).map f)
  simp only [List.map_cons, sumRat_cons] at this
  linarith

end LD

/-! ### the invariant and its preservation -/
namespace LD
variable {α : Type} [DecidableEq α]

/-- The invariant of the candidate structure. -/
structure Inv (s : LD α) : Prop where
  nodup : s.items.Nodup
  keys : s.weighted = true → ∀ x, alHas s.weight x = true ↔ x ∈ s.items
  nonneg : s.weighted = true → ∀ x ∈ s.items, 0 ≤ s.getW x
  le_max : s.weighted = true → ∀ x ∈ s.items, s.getW x ≤ s.maxW
  total : s.weighted = true → s.total = s.weightSum
  wkeys : (alKeys s.weight).Nodup

theorem getW_of_not_mem (s : LD α) (h : Inv s) (hwt : s.weighted = true) (x : α) (hx : x ∉ s.items) :
    s.getW x = 0 := by
  apply alGet_of_not_alHas
  cases hh : alHas s.weight x with
  | false => rfl
  | true => exact absurd ((h.keys hwt x).1 hh) hx

/-- `max(Counter(values))` as computed by `recomputeMax` -/
def foldMax (ws : List Rat) : Rat := ws.foldl max (ws.headD 0)

theorem le_foldl_max (ws : List Rat) (init : Rat) :
    init ≤ ws.foldl max init ∧ ∀ v ∈ ws, v ≤ ws.foldl max init := by
  induction ws generalizing init with
  | nil => simp
  | cons a t ih =>
    simp only [List.foldl_cons, List.mem_cons]
    obtain ⟨h1, h2⟩ := ih (max init a)
    refine ⟨le_trans (le_max_left _ _) h1, ?_⟩
    rintro v (rfl | hv)
    · exact le_trans (le_max_right _ _) h1
    · exact h2 v hv

theorem le_foldMax (ws : List Rat) (v : Rat) (hv : v ∈ ws) : v ≤ foldMax ws :=
  (le_foldl_max ws _).2 v hv

theorem forgetMax_fields (s : LD α) :
    (forgetMax s).items = s.items ∧ (forgetMax s).weighted = s.weighted ∧ (forgetMax s).weight = s.weight ∧
      (forgetMax s).total = s.total ∧ ((forgetMax s).maxW = s.maxW ∨ s.items = []) := by
  unfold forgetMax
  split
  · next h => exact ⟨rfl, rfl, rfl, rfl, Or.inr (List.eq_nil_of_length_eq_zero h)⟩
  · exact ⟨rfl, rfl, rfl, rfl, Or.inl rfl⟩

theorem remove_shape (s : LD α) (x : α) (hx : x ∈ s.items) :
    ∃ s', s.remove x = some s' ∧ s'.items = swapRemove s.items x ∧ s'.weighted = s.weighted ∧
      (s.weighted = true → s'.weight = alDel s.weight x ∧ s'.total = s.total - s.getW x ∧
        (s'.maxW = s.maxW ∨ s'.maxW = foldMax ((alDel s.weight x).map (·.2)) ∨ s'.items = [])) := by
  unfold remove
  rw [if_pos hx]
  by_cases hwt : s.weighted = true
  · rw [if_pos hwt]
    dsimp only
    split
    · split
      · refine ⟨_, rfl, ?_, ?_, fun _ => ⟨?_, ?_, ?_⟩⟩
        · rw [(forgetMax_fields _).1]; rfl
        · rw [(forgetMax_fields _).2.1]; rfl
        · rw [(forgetMax_fields _).2.2.1]; rfl
        · rw [(forgetMax_fields _).2.2.2.1]; rfl
        · rcases (forgetMax_fields (recomputeMax
            { weighted := s.weighted, items := swapRemove s.items x, weight := alDel s.weight x, maxW := s.maxW,
              maxCnt := s.maxCnt - 1, total := s.total - s.getW x })).2.2.2.2 with h | h
          · exact Or.inr (Or.inl (h.trans rfl))
          · refine Or.inr (Or.inr ?_); rw [(forgetMax_fields _).1]; exact h
      · refine ⟨_, rfl, ?_, ?_, fun _ => ⟨?_, ?_, ?_⟩⟩
        · rw [(forgetMax_fields _).1]
        · rw [(forgetMax_fields _).2.1]
        · rw [(forgetMax_fields _).2.2.1]
        · rw [(forgetMax_fields _).2.2.2.1]
        · rcases (forgetMax_fields
            { weighted := s.weighted, items := swapRemove s.items x, weight := alDel s.weight x, maxW := s.maxW,
              maxCnt := s.maxCnt - 1, total := s.total - s.getW x }).2.2.2.2 with h | h
          · exact Or.inl h
          · refine Or.inr (Or.inr ?_); rw [(forgetMax_fields _).1]; exact h
    · refine ⟨_, rfl, ?_, ?_, fun _ => ⟨?_, ?_, ?_⟩⟩
      · rw [(forgetMax_fields _).1]
      · rw [(forgetMax_fields _).2.1]
      · rw [(forgetMax_fields _).2.2.1]
      · rw [(forgetMax_fields _).2.2.2.1]
      · rcases (forgetMax_fields
          { weighted := s.weighted, items := swapRemove s.items x, weight := alDel s.weight x, maxW := s.maxW,
            maxCnt := s.maxCnt, total := s.total - s.getW x }).2.2.2.2 with h | h
        · exact Or.inl h
        · refine Or.inr (Or.inr ?_); rw [(forgetMax_fields _).1]; exact h
  · rw [if_neg hwt]; exact ⟨_, rfl, rfl, rfl, fun h => absurd h hwt⟩

theorem remove_wkeys (s s' : LD α) (x : α) (hs : s.remove x = some s') (h : (alKeys s.weight).Nodup) :
    (alKeys s'.weight).Nodup := by
  unfold remove at hs
  have hd := alKeys_alDel_nodup s.weight x h
  split at hs
  · split at hs
    · dsimp only at hs
      split at hs
      · split at hs
        · obtain rfl := Option.some.inj hs
          rw [(forgetMax_fields _).2.2.1]; exact hd
        · obtain rfl := Option.some.inj hs
          rw [(forgetMax_fields _).2.2.1]; exact hd
      · obtain rfl := Option.some.inj hs
        rw [(forgetMax_fields _).2.2.1]; exact hd
    · obtain rfl := Option.some.inj hs; exact h
  · simp at hs

theorem inv_remove (s s' : LD α) (x : α) (h : Inv s) (hx : x ∈ s.items) (hs : s.remove x = some s') :
    Inv s' := by
  obtain ⟨s'', hs'', hit, hwd, hrest⟩ := remove_shape s x hx
  rw [hs] at hs''
  obtain rfl : s' = s'' := Option.some.inj hs''
  have hmem : ∀ y, y ∈ s'.items ↔ (y ∈ s.items ∧ y ≠ x) := by
    intro y; rw [hit]; exact mem_swapRemove _ _ _ h.nodup hx
  have hkeys : s'.weighted = true → ∀ y, alHas s'.weight y = true ↔ y ∈ s'.items := by
    intro hwt y
    rw [hwd] at hwt
    rw [(hrest hwt).1, alHas_alDel, hmem, h.keys hwt]
  have hget : s'.weighted = true → ∀ y ∈ s'.items, s'.getW y = s.getW y := by
    intro hwt y hy
    rw [hwd] at hwt
    unfold getW
    rw [(hrest hwt).1]
    exact alGet_alDel_ne _ _ _ _ ((hmem y).1 hy).2
  refine ⟨?_, hkeys, ?_, ?_, ?_, remove_wkeys s s' x hs h.wkeys⟩
  · rw [hit]; exact nodup_swapRemove _ _ h.nodup hx
  · intro hwt y hy
    rw [hget hwt y hy]
    exact h.nonneg (hwd ▸ hwt) y ((hmem y).1 hy).1
  · intro hwt y hy
    have hwt0 : s.weighted = true := hwd ▸ hwt
    rcases (hrest hwt0).2.2 with hm | hm | hm
    · rw [hm, hget hwt y hy]; exact h.le_max hwt0 y ((hmem y).1 hy).1
    · rw [hm, ← (hrest hwt0).1]
      exact le_foldMax _ _ (alGet_mem_of_alHas _ _ _ ((hkeys hwt y).2 hy))
    · rw [hm] at hy; exact absurd hy (List.not_mem_nil)
  · intro hwt
    have hwt0 : s.weighted = true := hwd ▸ hwt
    rw [(hrest hwt0).2.1, h.total hwt0]
    unfold weightSum
    rw [sumRat_map_congr s'.items s'.getW s.getW (hget hwt), hit,
      sumRat_swapRemove _ _ _ h.nodup hx]

theorem update_shape (s s' : LD α) (x : α) (inc : Rat) (hs : s.update x (some inc) = some s') :
    s.weighted = true ∧ s'.weighted = true ∧ s'.weight = alSet s.weight x (s.getW x + inc) ∧
      s'.total = s.total + inc ∧ s'.items = (if x ∈ s.items then s.items else s.items ++ [x]) ∧
      s'.maxW = (if s.getW x + inc > s.maxW then s.getW x + inc else s.maxW) := by
  unfold update at hs
  dsimp only at hs
  by_cases hwt : s.weighted = true
  · simp only [hwt, Bool.not_true, Bool.false_eq_true, if_false] at hs
    by_cases c4 : x ∈ s.items
    · by_cases c1 : inc > 0 ∨ s.getW x ≠ s.maxW
      · by_cases c2 : s.getW x + inc > s.maxW
        · simp only [c1, c2, c4, if_true] at hs
          obtain rfl := Option.some.inj hs
          simp [c2, c4, hwt]
        · by_cases c3 : s.getW x + inc = s.maxW
          · simp only [c1, c2, c4, if_true, if_false, if_pos c3] at hs
            obtain rfl := Option.some.inj hs
            simp [c2, c4, hwt]
          · simp only [c1, c2, c4, if_true, if_false, if_neg c3] at hs
            obtain rfl := Option.some.inj hs
            simp [c2, c4, hwt]
      · have c2 : ¬ (s.getW x + inc > s.maxW) := by
          rw [not_or, not_not] at c1
          have := c1.1; have := c1.2; intro h; linarith
        simp only [c1, c4, if_true, if_false] at hs
        obtain rfl := Option.some.inj hs
        simp [c2, c4, hwt]
    · by_cases c1 : inc > 0 ∨ s.getW x ≠ s.maxW
      · by_cases c2 : s.getW x + inc > s.maxW
        · simp only [c1, c2, c4, if_true, if_false] at hs
          obtain rfl := Option.some.inj hs
          simp [c2, c4, hwt]
        · by_cases c3 : s.getW x + inc = s.maxW
          · simp only [c1, c2, c4, if_true, if_false, if_pos c3] at hs
            obtain rfl := Option.some.inj hs
            simp [c2, c4, hwt]
          · simp only [c1, c2, c4, if_true, if_false, if_neg c3] at hs
            obtain rfl := Option.some.inj hs
            simp [c2, c4, hwt]
      · have c2 : ¬ (s.getW x + inc > s.maxW) := by
          rw [not_or, not_not] at c1
          have := c1.1; have := c1.2; intro h; linarith
        simp only [c1, c4, if_false] at hs
        obtain rfl := Option.some.inj hs
        simp [c2, c4, hwt]
  · simp [hwt] at hs

theorem update_getW_self (s s' : LD α) (x : α) (inc : Rat) (hs : s.update x (some inc) = some s') :
    s'.getW x = s.getW x + inc := by
  unfold getW
  rw [(update_shape s s' x inc hs).2.2.1]; exact alGet_alSet_self _ _ _ _

theorem update_getW_ne (s s' : LD α) (x y : α) (inc : Rat) (hs : s.update x (some inc) = some s')
    (hy : y ≠ x) : s'.getW y = s.getW y := by
  unfold getW
  rw [(update_shape s s' x inc hs).2.2.1]; exact alGet_alSet_ne _ _ _ _ _ hy

theorem update_mem (s s' : LD α) (x : α) (inc : Rat) (hs : s.update x (some inc) = some s') (y : α) :
    y ∈ s'.items ↔ (y ∈ s.items ∨ y = x) := by
  rw [(update_shape s s' x inc hs).2.2.2.2.1]
  by_cases hx : x ∈ s.items
  · rw [if_pos hx]
    constructor
    · exact Or.inl
    · rintro (h | rfl)
      · exact h
      · exact hx
  · rw [if_neg hx]; simp

theorem update_wkeys (s s' : LD α) (x : α) (w : Option Rat) (hs : s.update x w = some s')
    (h : (alKeys s.weight).Nodup) : (alKeys s'.weight).Nodup := by
  cases w with
  | none =>
    unfold update at hs
    dsimp only at hs
    split at hs
    · simp at hs
    · split at hs <;> (obtain rfl := Option.some.inj hs; exact h)
  | some inc =>
    rw [(update_shape s s' x inc hs).2.2.1]
    exact alKeys_alSet_nodup s.weight x _ h

theorem inv_update_some (s s' : LD α) (x : α) (w : Rat) (h : Inv s) (hw : 0 ≤ w)
    (hs : s.update x (some w) = some s') : Inv s' := by
  obtain ⟨hwt, hwt', hwei, htot, hit, hmax⟩ := update_shape s s' x w hs
  have hmem := update_mem s s' x w hs
  have hself := update_getW_self s s' x w hs
  have hne := update_getW_ne s s' x
  have hw0 : 0 ≤ s.getW x := by
    by_cases hx : x ∈ s.items
    · exact h.nonneg hwt x hx
    · rw [getW_of_not_mem s h hwt x hx]
  have hmax1 : s.maxW ≤ s'.maxW := by
    rw [hmax]; split
    · linarith
    · exact le_refl _
  have hmax2 : s.getW x + w ≤ s'.maxW := by
    rw [hmax]; split
    · exact le_refl _
    · linarith
  refine ⟨?_, ?_, ?_, ?_, ?_, update_wkeys s s' x (some w) hs h.wkeys⟩
  · rw [hit]
    by_cases hx : x ∈ s.items
    · rw [if_pos hx]; exact h.nodup
    · rw [if_neg hx]
      exact List.nodup_append.2 ⟨h.nodup, by simp, by
        intro a ha b hb; simp at hb; subst hb; intro hab; exact hx (hab ▸ ha)⟩
  · intro _ y
    rw [hwei, alHas_alSet, hmem, h.keys hwt]
  · intro _ y hy
    by_cases hyx : y = x
    · subst hyx; rw [hself]; linarith
    · rw [hne y w hs hyx]
      rcases (hmem y).1 hy with h1 | h1
      · exact h.nonneg hwt y h1
      · exact absurd h1 hyx
  · intro _ y hy
    by_cases hyx : y = x
    · subst hyx; rw [hself]; exact hmax2
    · rw [hne y w hs hyx]
      rcases (hmem y).1 hy with h1 | h1
      · exact le_trans (h.le_max hwt y h1) hmax1
      · exact absurd h1 hyx
  · intro _
    rw [htot, h.total hwt]
    unfold weightSum
    rw [hit]
    by_cases hx : x ∈ s.items
    · rw [if_pos hx]
      have hc : ∀ c ∈ s.items, s'.getW c = s.getW c + w * (if c = x then 1 else 0) := by
        intro c _
        by_cases hcx : c = x
        · subst hcx; rw [hself]; simp
        · rw [hne c w hs hcx]; simp [hcx]
      rw [sumRat_map_congr _ _ _ hc, sumRat_map_add, sumRat_indicator _ x (fun _ => w) h.nodup hx]
    · rw [if_neg hx]
      have hc : ∀ c ∈ s.items, s'.getW c = s.getW c := by
        intro c hcm
        exact hne c w hs (fun hcx => hx (hcx ▸ hcm))
      rw [List.map_append, sumRat_append, sumRat_map_congr _ _ _ hc]
      simp only [List.map_cons, List.map_nil, sumRat_cons, sumRat_nil]
      rw [hself, getW_of_not_mem s h hwt x hx]; ring

theorem inv_update_none (s s' : LD α) (x : α) (h : Inv s) (hs : s.update x none = some s') : Inv s' := by
  unfold update at hs
  dsimp only at hs
  by_cases hwt : s.weighted = true
  · simp [hwt] at hs
  · rw [if_neg hwt] at hs
    by_cases hx : x ∈ s.items
    · rw [if_pos hx] at hs
      obtain rfl := Option.some.inj hs; exact h
    · rw [if_neg hx] at hs
      obtain rfl := Option.some.inj hs
      refine ⟨?_, fun h' => absurd h' hwt, fun h' => absurd h' hwt, fun h' => absurd h' hwt,
        fun h' => absurd h' hwt, h.wkeys⟩
      exact List.nodup_append.2 ⟨h.nodup, by simp, by
        intro a ha b hb; simp at hb; subst hb; intro hab; exact hx (hab ▸ ha)⟩

theorem inv_update (s s' : LD α) (x : α) (w : Option Rat) (h : Inv s) (hw : ∀ v, w = some v → 0 ≤ v)
    (hs : s.update x w = some s') : Inv s' := by
  cases w with
  | none => exact inv_update_none s s' x h hs
  | some v => exact inv_update_some s s' x v h (hw v rfl) hs

theorem inv_insert (s s' : LD α) (x : α) (w : Option Rat) (h : Inv s) (hw : ∀ v, w = some v → 0 ≤ v)
    (hs : s.insert x w = some s') : Inv s' := by
  unfold insert at hs
  have key : ∀ s1 : LD α, Inv s1 →
      (if w ≠ some 0 then s1.update x w else some s1) = some s' → Inv s' := by
    intro s1 h1 h2
    by_cases hw0 : w ≠ some 0
    · rw [if_pos hw0] at h2; exact inv_update s1 s' x w h1 hw h2
    · rw [if_neg hw0] at h2; obtain rfl := Option.some.inj h2; exact h1
  by_cases hx : x ∈ s.items
  · rw [if_pos hx] at hs
    cases hr : s.remove x with
    | none => rw [hr] at hs; simp at hs
    | some s1 =>
      rw [hr] at hs
      exact key s1 (inv_remove s s1 x h hx hr) hs
  · rw [if_neg hx] at hs
    exact key s h hs

theorem inv_empty (b : Bool) : Inv (LD.empty b : LD α) := by
  refine ⟨by simp [empty], ?_, ?_, ?_, ?_, by simp [empty, alKeys]⟩
  · intro _ x; simp [empty, alHas]
  · intro _ x hx; simp [empty] at hx
  · intro _ x hx; simp [empty] at hx
  · intro _; simp [empty, weightSum]

theorem inv_step (s s' : LD α) (o : Op α) (h : Inv s) (hw : o.nonneg) (hs : s.applyOp o = some s') :
    Inv s' := by
  cases o with
  | ins x w =>
    refine inv_insert s s' x w h ?_ hs
    intro v hv; subst hv; exact hw
  | upd x w =>
    refine inv_update s s' x w h ?_ hs
    intro v hv; subst hv; exact hw
  | rem x =>
    have hs' : s.remove x = some s' := hs
    have hx : x ∈ s.items := by
      by_contra hx
      unfold remove at hs'
      rw [if_neg hx] at hs'; simp at hs'
    exact inv_remove s s' x h hx hs'

theorem inv_applyOps (s0 : LD α) (ops : List (Op α)) (s : LD α) (h0 : Inv s0) (hw : ∀ o ∈ ops, o.nonneg)
    (hs : s0.applyOps ops = some s) : Inv s := by
  induction ops generalizing s0 with
  | nil =>
    simp only [applyOps] at hs
    obtain rfl := Option.some.inj hs; exact h0
  | cons o os ih =>
    simp only [applyOps] at hs
    cases ho : s0.applyOp o with
    | none => rw [ho] at hs; simp at hs
    | some s1 =>
      rw [ho] at hs
      exact ih s1 (inv_step s0 s1 o h0 (hw o (by simp)) ho) (fun o' ho' => hw o' (by simp [ho'])) hs

end LD

/-! ### finite distributions -/
namespace Dist
variable {α β : Type}

theorem mass_nil (P : α → Bool) : mass ([] : Dist α) P = 0 := rfl

theorem mass_cons (a : α) (p : Rat) (d : Dist α) (P : α → Bool) :
    mass ((a, p) :: d) P = (if P a then p else 0) + mass d P := rfl

theorem mass_append (d e : Dist α) (P : α → Bool) : mass (d ++ e) P = mass d P + mass e P := by
  simp [mass, sumRat_append]

theorem mass_scale (d : Dist β) (p : Rat) (P : β → Bool) :
    mass (d.map fun (b, q) => (b, p * q)) P = p * mass d P := by
  induction d with
  | nil => simp [mass]
  | cons x xs ih =>
    obtain ⟨b, q⟩ := x
    simp only [List.map_cons, mass_cons, ih]
    split
    · ring
    · ring

theorem mass_bind (d : Dist α) (f : α → Dist β) (P : β → Bool) :
    mass (Dist.bind d f) P = sumRat (d.map fun (a, p) => p * mass (f a) P) := by
  induction d with
  | nil => simp [Dist.bind, mass]
  | cons x xs ih =>
    obtain ⟨a, p⟩ := x
    have : Dist.bind ((a, p) :: xs) f = ((f a).map fun (b, q) => (b, p * q)) ++ Dist.bind xs f := by
      simp [Dist.bind]
    rw [this, mass_append, mass_scale, ih]; simp

theorem mass_pure (a : α) (P : α → Bool) : mass (Dist.pure a) P = if P a then 1 else 0 := by
  simp [Dist.pure, mass]

theorem mass_bern_bind (p : Rat) (f : Bool → Dist β) (P : β → Bool) :
    mass (Dist.bind (bern p) f) P = p * mass (f true) P + (1 - p) * mass (f false) P := by
  rw [mass_bind]; simp [bern]

theorem mass_uniformIdx_bind (n : Nat) (f : Nat → Dist β) (P : β → Bool) :
    mass (Dist.bind (uniformIdx n) f) P
      = sumRat ((List.range n).map fun i => (1 / (n : Rat)) * mass (f i) P) := by
  rw [mass_bind]; simp [uniformIdx, List.map_map, Function.comp_def]

end Dist

theorem sumRat_range_getElem? {γ : Type} (l : List γ) (F : Option γ → Rat) :
    sumRat ((List.range l.length).map fun i => F l[i]?) = sumRat (l.map fun c => F (some c)) := by
  congr 1
  apply List.ext_getElem
  · simp
  · intro i h1 h2
    simp at h1
    simp [List.getElem?_eq_getElem h1]

/-! ### the law of `choose_random` -/
namespace LD
variable {α : Type} [DecidableEq α]
open Dist

/-- one round of `chooseDist`, as a sum over the candidates -/
theorem chooseDist_succ_mass (s : LD α) (k : Nat) (P : Option α → Bool) :
    mass (s.chooseDist (k + 1)) P = sumRat (s.items.map fun c => (1 / (s.items.length : Rat)) *
      (if s.weighted = true then
        s.acceptThr c * (if P (some c) then 1 else 0) + (1 - s.acceptThr c) * mass (s.chooseDist k) P
       else (if P (some c) then 1 else 0))) := by
  rw [chooseDist, mass_uniformIdx_bind]
  rw [← sumRat_range_getElem? s.items (fun o => (1 / (s.items.length : Rat)) *
      (match o with
       | none => mass (Dist.pure none) P
       | some c => (if s.weighted = true then
          s.acceptThr c * (if P (some c) then 1 else 0) + (1 - s.acceptThr c) * mass (s.chooseDist k) P
         else (if P (some c) then 1 else 0))))]
  apply sumRat_map_congr
  intro i _
  cases s.items[i]? with
  | none => rfl
  | some c =>
    dsimp only
    cases hw : s.weighted with
    | false => simp [mass_pure]
    | true => simp [mass_bern_bind, mass_pure]

theorem choose_step (s : LD α) (h : Inv s) (hwt : s.weighted = true) (x : α) (hx : x ∈ s.items) (k : Nat) :
    mass (s.chooseDist (k + 1)) (fun o => o == some x)
      = (1 / (s.items.length : Rat)) * (s.getW x / s.maxW)
        + ((1 / (s.items.length : Rat)) * ((s.items.length : Rat) - s.weightSum / s.maxW))
          * mass (s.chooseDist k) (fun o => o == some x) := by
  rw [chooseDist_succ_mass]
  have hc : ∀ c ∈ s.items, (1 / (s.items.length : Rat)) *
      (if s.weighted = true then
        s.acceptThr c * (if ((fun o => o == some x) (some c)) = true then 1 else 0)
          + (1 - s.acceptThr c) * mass (s.chooseDist k) (fun o => o == some x)
       else (if ((fun o => o == some x) (some c)) = true then 1 else 0))
      = ((1 / (s.items.length : Rat)) * (s.getW c / s.maxW)) * (if c = x then 1 else 0)
        + ((1 / (s.items.length : Rat)) * (1 - s.getW c * s.maxW⁻¹))
          * mass (s.chooseDist k) (fun o => o == some x) := by
    intro c _
    rw [if_pos hwt]
    unfold acceptThr
    by_cases hcx : c = x
    · simp [hcx]; ring
    · simp [hcx]; ring
  rw [sumRat_map_congr _ _ _ hc, sumRat_map_add, sumRat_map_mul_right,
    sumRat_indicator s.items x (fun c => (1 / (s.items.length : Rat)) * (s.getW c / s.maxW)) h.nodup hx,
    sumRat_map_mul_left]
  have : sumRat (s.items.map fun c => 1 - s.getW c * s.maxW⁻¹)
      = (s.items.length : Rat) - s.weightSum / s.maxW := by
    have := sumRat_map_add s.items (fun _ => (1 : Rat)) (fun c => -(s.getW c * s.maxW⁻¹))
    simp only [← sub_eq_add_neg] at this
    rw [this, sumRat_map_const]
    have h2 := sumRat_map_mul_right s.items (fun c => -s.getW c) s.maxW⁻¹
    have h3 := sumRat_map_mul_left s.items s.getW (-1)
    simp only [neg_mul, one_mul] at h2 h3
    rw [h2, h3]; unfold weightSum; ring
  rw [this]

end LD

namespace LD
variable {α : Type} [DecidableEq α]
open Dist

theorem maxW_pos (s : LD α) (h : Inv s) (hwt : s.weighted = true) (hpos : 0 < s.weightSum) :
    0 < s.maxW ∧ 0 < (s.items.length : Rat) := by
  obtain ⟨c, hc, hp⟩ := exists_pos_of_sumRat_pos s.items s.getW hpos
  refine ⟨lt_of_lt_of_le hp (h.le_max hwt c hc), ?_⟩
  have : 0 < s.items.length := List.length_pos_of_mem hc
  exact_mod_cast this

theorem weightSum_le (s : LD α) (h : Inv s) (hwt : s.weighted = true) :
    s.weightSum ≤ (s.items.length : Rat) * s.maxW := by
  have := sumRat_map_le s.items s.getW (fun _ => s.maxW) (h.le_max hwt)
  rwa [sumRat_map_const] at this

theorem rej_bounds (s : LD α) (h : Inv s) (hwt : s.weighted = true) (hpos : 0 < s.weightSum) :
    0 ≤ s.rejProb ∧ s.rejProb < 1 := by
  obtain ⟨hM, hn⟩ := maxW_pos s h hwt hpos
  have hnM : 0 < (s.items.length : Rat) * s.maxW := mul_pos hn hM
  have h1 : s.weightSum / ((s.items.length : Rat) * s.maxW) ≤ 1 :=
by
    rw [div_le_iff₀ hnM]; linarith [weightSum_le s h hwt]
  have h2 : 0 < s.weightSum / ((s.items.length : Rat) * s.maxW) := div_pos hpos hnM
  unfold rejProb
  constructor <;> linarith

theorem choose_law (s : LD α) (h : Inv s) (hwt : s.weighted = true) (hpos : 0 < s.weightSum)
    (x : α) (hx : x ∈ s.items) (k : Nat) :
    mass (s.chooseDist k) (fun o => o == some x) = s.getW x / s.weightSum * (1 - s.rejProb ^ k) := by
  obtain ⟨hM, hn⟩ := maxW_pos s h hwt hpos
  induction k with
  | zero => simp [chooseDist, mass_pure]
  | succ k ih =>
    rw [choose_step s h hwt x hx k, ih]
    have hρ : (1 / (s.items.length : Rat)) * ((s.items.length : Rat) - s.weightSum / s.maxW)
        = s.rejProb := by
      unfold rejProb; field_simp
    have hq : (1 / (s.items.length : Rat)) * (s.getW x / s.maxW)
        = s.getW x / s.weightSum * (1 - s.rejProb) := by
      unfold rejProb; field_simp; ring
    rw [hρ, hq, pow_succ]; ring

theorem choose_law_unweighted (s : LD α) (h : Inv s) (hwt : s.weighted = false)
    (x : α) (hx : x ∈ s.items) (k : Nat) :
    mass (s.chooseDist (k + 1)) (fun o => o == some x) = 1 / (s.items.length : Rat) := by
  rw [chooseDist_succ_mass]
  have hc : ∀ c ∈ s.items, (1 / (s.items.length : Rat)) *
      (if s.weighted = true then
        s.acceptThr c * (if ((fun o => o == some x) (some c)) = true then 1 else 0)
          + (1 - s.acceptThr c) * mass (s.chooseDist k) (fun o => o == some x)
       else (if ((fun o => o == some x) (some c)) = true then 1 else 0))
      = (1 / (s.items.length : Rat)) * (if c = x then 1 else 0) := by
    intro c _
    simp [hwt]
  rw [sumRat_map_congr _ _ _ hc,
    sumRat_indicator s.items x (fun _ => 1 / (s.items.length : Rat)) h.nodup hx]

theorem zero_never (s : LD α) (h : Inv s) (hwt : s.weighted = true)
    (x : α) (hx : x ∈ s.items) (h0 : s.getW x = 0) (k : Nat) :
    mass (s.chooseDist k) (fun o => o == some x) = 0 := by
  induction k with
  | zero => simp [chooseDist, mass_pure]
  | succ k ih => rw [choose_step s h hwt x hx k, ih, h0]; simp

theorem choose_tape (s : LD α) (h : Inv s) (draws : List (Nat × Rat)) (hd : ∀ d ∈ draws, 0 ≤ d.2)
    (c : α) (n : Nat) (hc : s.chooseRandom draws = some (c, n)) :
    c ∈ s.items ∧ (s.weighted = true → 0 < s.getW c) := by
  induction draws generalizing n with
  | nil => simp [chooseRandom] at hc
  | cons d rest ih =>
    obtain ⟨i, r⟩ := d
    have hr : 0 ≤ r := hd (i, r) (by simp)
    have ih' := fun n hc => ih (fun d hd' => hd d (by simp [hd'])) n hc
    unfold chooseRandom at hc
    cases hi : s.items[i]? with
    | none => rw [hi] at hc; simp at hc
    | some c' =>
      rw [hi] at hc
      dsimp only at hc
      have hmem : c' ∈ s.items := List.mem_of_getElem? hi
      by_cases hwt : s.weighted = true
      · simp only [hwt, Bool.not_true, Bool.false_eq_true, if_false] at hc
        by_cases hacc : r < s.acceptThr c'
        · rw [if_pos hacc] at hc
          obtain ⟨rfl, -⟩ := Prod.mk.inj (Option.some.inj hc)
          refine ⟨hmem, fun _ => ?_⟩
          have h1 := h.nonneg hwt c' hmem
          rcases lt_or_eq_of_le h1 with h2 | h2
          · exact h2
          · exfalso
            unfold acceptThr at hacc
            rw [← h2] at hacc; simp at hacc; linarith
        · rw [if_neg hacc] at hc
          cases hrec : s.chooseRandom rest with
          | none => rw [hrec] at hc; simp at hc
          | some p =>
            obtain ⟨c'', m⟩ := p
            rw [hrec] at hc
            simp only [Option.map_some] at hc
            obtain ⟨rfl, -⟩ := Prod.mk.inj (Option.some.inj hc)
            exact ih' m hrec
      · simp only [hwt, Bool.not_false, if_true] at hc
        obtain ⟨rfl, -⟩ := Prod.mk.inj (Option.some.inj hc)
        exact ⟨hmem, fun h' => absurd h' hwt⟩

theorem choose_round (s : LD α) (hwt : s.weighted = true) (i : Nat) (r : Rat) (rest : List (Nat × Rat))
    (c : α) (hi : s.items[i]? = some c) :
    s.chooseRandom ((i, r) :: rest) =
      if r < s.acceptThr c then some (c, 1)
      else (s.chooseRandom rest).map fun (c', k) => (c', k + 1) := by
  rw [chooseRandom, hi]
  simp [hwt]

end LD

namespace LD
variable {α : Type} [DecidableEq α]

/-- `sum(self.weight.values())` equals the sum of the weights of the listed items: the dict has each key once and its
keys are the listed items (this is the recomputation `remove` falls back to when the running total is `<= 0`) -/
theorem sumVals_eq_weightSum (s : LD α) (h : Inv s) (hwt : s.weighted = true) :
    sumRat (s.weight.map (·.2)) = s.weightSum := by
  rw [values_eq_map_alGet s.weight 0 h.wkeys]
  unfold weightSum
  have hp : (alKeys s.weight).Perm s.items := by
    apply (List.perm_ext_iff_of_nodup h.wkeys h.nodup).2
    intro a
    rw [mem_alKeys_iff, h.keys hwt]
  exact sumRat_perm (hp.map _)

end LD
