import EoNVerif.Proofs.GenWrap3
/-!
Lemmas for C06j (`Props/C06j.lean`): the `*_from_graph` wrappers of `Gen/WrapGen.lean` not covered by C06e / C06g / C06h —
the explicit-sets branch of `SIR_compact_effective_degree_from_graph` (node loop on `(Skappa0, SI0, I0, R0)`),
`SIS_super_compact_pairwise_from_graph` (moments through `np.dot`), `SIR_super_compact_pairwise_from_graph` (closures
`psihat`, `psihatPrime`, `psihatDPrime`), `EBCM_pref_mix(_discrete)_from_graph`.
-/
set_option linter.unusedSimpArgs false
namespace GenWrapProofs4
open GenInit InitCond GenInitProofs GenWrap GenWrapProofs GenWrapProofs2 GenWrapProofs3
open GenHelpProofs (ok_bind err_bind pure_eq_ok throw_eq_err PkAL kAveAL fold_keys_ok)

/-! ## 1. `SIR_compact_effective_degree_from_graph`, explicit sets -/

/-- a neighbour count with an arbitrary test -/
theorem nbFoldP (p : Node → Prop) [DecidablePred p] (l : List Node) : ∀ (a : Int),
    l.foldlM (fun (acc_ : Int) (nbr : Node) =>
      if decide (p nbr) then (pure (acc_ + (1 : Int)) : Except String Int) else pure acc_) a
      = .ok (a + ((l.filter fun v => p v).length : Nat)) := by
  induction l with
  | nil => intro a; simp
  | cons b t ih =>
    intro a
    rw [List.foldlM_cons]
    by_cases h : p b
    · rw [if_pos (by simpa using h)]
      show List.foldlM _ (a + 1) t = _
      rw [ih]; simp [h]; ring
    · rw [if_neg (by simpa using h)]
      show List.foldlM _ a t = _
      rw [ih]; simp [h]

/-- number of neighbours (as `G.neighbors` lists them) that are NOT recovered: the `kappa` of the wrapper -/
def nrCount (st : Node → St) (nb : Node → List Node) (u : Node) : Nat :=
  ((nb u).filter fun v => st v ≠ St.R).length

/-- one pass of the node loop of `SIR_compact_effective_degree_from_graph` on `(Skappa0, SI0, I0, R0)` -/
def cedStep (κ si : Node → Nat) (st : Node → St) (acc : List Rat × Int × Int × Int) (u : Node) :
    List Rat × Int × Int × Int :=
  if st u = St.S then (acc.1.set (κ u) (acc.1.getD (κ u) 0 + 1), acc.2.1 + (si u : Nat), acc.2.2.1, acc.2.2.2)
  else if st u = St.I then (acc.1, acc.2.1, acc.2.2.1 + 1, acc.2.2.2)
  else (acc.1, acc.2.1, acc.2.2.1, acc.2.2.2 + 1)

theorem cedStep_length (κ si : Node → Nat) (st : Node → St) (acc : List Rat × Int × Int × Int) (u : Node) :
    (cedStep κ si st acc u).1.length = acc.1.length := by
  unfold cedStep
  split
  · simp
  · split <;> rfl

theorem foldl_cedStep (κ si : Node → Nat) (st : Node → St) (M : Nat) (l : List Node)
    (hl : ∀ u ∈ l, st u = St.S → κ u ≤ M) : ∀ (F : Nat → Rat) (SI I0 R0 : Int),
    l.foldl (cedStep κ si st) (vec M F, SI, I0, R0) =
      (vec M (fun k => F k + (cnt κ st l St.S k : Rat)), SI + (sumS st si l : Nat),
       I0 + ((l.filter fun u => st u = St.I).length : Nat), R0 + ((l.filter fun u => st u = St.R).length : Nat)) := by
  induction l with
  | nil => intro F SI I0 R0; simp [cnt, sumS]
  | cons a t ih =>
    intro F SI I0 R0
    rw [List.foldl_cons]
    cases h : st a
    · have ha := hl a (by simp) h
      rw [show cedStep κ si st (vec M F, SI, I0, R0) a =
          ((vec M F).set (κ a) ((vec M F).getD (κ a) 0 + 1), SI + (si a : Nat), I0, R0) from by simp [cedStep, h],
        vec_set M F (κ a) 1 ha, ih (fun u hu => hl u (by simp [hu]))]
      refine Prod.ext ?_ (Prod.ext ?_ (Prod.ext ?_ ?_))
      · apply vec_congr; intro k
        simp only [cnt_cons, ind, h]
        by_cases hk : κ a = k
        · subst hk; simp; ring
        · simp [hk]
      · simp [sumS, h]; ring
      · simp [h]
      · simp [h]
    · rw [show cedStep κ si st (vec M F, SI, I0, R0) a = (vec M F, SI, I0 + 1, R0) from by simp [cedStep, h],
        ih (fun u hu => hl u (by simp [hu]))]
      refine Prod.ext ?_ (Prod.ext ?_ (Prod.ext ?_ ?_))
      · apply vec_congr; intro k
        simp [cnt_cons, ind, h]
      · simp [sumS, h]
      · simp [h]; ring
      · simp [h]
    · rw [show cedStep κ si st (vec M F, SI, I0, R0) a = (vec M F, SI, I0, R0 + 1) from by simp [cedStep, h],
        ih (fun u hu => hl u (by simp [hu]))]
      refine Prod.ext ?_ (Prod.ext ?_ (Prod.ext ?_ ?_))
      · apply vec_congr; intro k
        simp [cnt_cons, ind, h]
      · simp [sumS, h]
      · simp [h]
      · simp [h]; ring

/-- a node loop on `(Skappa0, SI0, I0, R0)` whose body is `cedStep` whenever the array has `M + 1` entries -/
theorem loopCed (κ si : Node → Nat) (st : Node → St) (M : Nat) (l : List Node)
    (hl : ∀ u ∈ l, st u = St.S → κ u ≤ M)
    (step : List Rat × Int × Int × Int → Node → Except String (List Rat × Int × Int × Int))
    (hstep : ∀ acc u, u ∈ l → acc.1.length = M + 1 → step acc u = .ok (cedStep κ si st acc u))
    (F : Nat → Rat) (SI I0 R0 : Int) :
    l.foldlM step (vec M F, SI, I0, R0) =
      .ok (vec M (fun k => F k + (cnt κ st l St.S k : Rat)), SI + (sumS st si l : Nat),
       I0 + ((l.filter fun u => st u = St.I).length : Nat), R0 + ((l.filter fun u => st u = St.R).length : Nat)) := by
  rw [foldlM_of_pure_on step (cedStep κ si st) (fun acc => acc.1.length = M + 1) l _ _ (vec_length _ _),
    foldl_cedStep κ si st M l hl]
  intro a x hx hP
  exact ⟨hstep a x hx hP, by rw [cedStep_length]; exact hP⟩

/-- `SIR_compact_effective_degree_from_graph` with explicit sets, status map built, graph with nodes, and every
susceptible node has at most `maxdeg` non-recovered neighbours (true as soon as `len(G.neighbors(u)) = G.degree(u)`) -/
theorem SIRced_sets (A : WArgs) (tau gamma : Rat) (infs : List Node) (recs : Option (List Node)) (tmin tmax : Rat)
    (tcount : Int) (full : Bool) (st : Node → St)
    (hst : initialize_node_status A.toIArgs infs (recs.getD []) = .ok st) (hne : A.nodes ≠ [])
    (hk : ∀ u ∈ A.nodes, st u = St.S → nrCount st A.neighbors u ≤ Helpers.maxDeg (A.nodes.map A.degree)) :
    SIR_compact_effective_degree_from_graph_args A tau gamma (some infs) recs none tmin tmax tcount full =
      .ok { Skappa0 := vec (Helpers.maxDeg (A.nodes.map A.degree))
              (fun k => (cnt (nrCount st A.neighbors) st A.nodes St.S k : Rat)),
            I0 := (((A.nodes.filter fun u => st u = St.I).length : Nat) : Rat),
            R0 := (((A.nodes.filter fun u => st u = St.R).length : Nat) : Rat),
            SI0 := ((sumS st (fun u => nbCount st A.neighbors u St.I) A.nodes : Nat) : Rat),
            tau := tau, gamma := gamma, tmin := tmin, tmax := tmax, tcount := tcount, return_full_data := full } := by
  unfold SIR_compact_effective_degree_from_graph_args
  have hne' : A.nodes.map A.degree ≠ [] := fun e => hne (List.map_eq_nil_iff.mp e)
  simp only [Option.isSome_none, Bool.false_and, Bool.false_eq_true, if_false, ok_bind, hst, maxKey_counter, hne',
    zeros_eq]
  rw [loopCed (nrCount st A.neighbors) (fun u => nbCount st A.neighbors u St.I) st
    (Helpers.maxDeg (A.nodes.map A.degree)) A.nodes hk]
  swap
  · intro acc u hu hlen
    obtain ⟨a, b, c, d⟩ := acc
    simp only at hlen
    cases h : st u
    · have hku := hk u hu h
      have e4 := vecAdd_nat a (nrCount st A.neighbors u) 1 (by omega)
      unfold nrCount at e4
      simp only [decide_true, if_true, ok_bind, nbFoldP, zero_add, e4, Int.cast_one]
      simp [cedStep, h, nbCount, nrCount]
    · simp [cedStep, h]
    · simp [cedStep, h]
  simp [ok_bind]

/-- the exceptions of the explicit-sets branch, in the order of the generated code: `max` of no degrees FIRST
(ValueError, whatever the sets), then the status builder -/
theorem SIRced_sets_error (A : WArgs) (tau gamma : Rat) (infs : List Node) (recs : Option (List Node)) (tmin tmax : Rat)
    (tcount : Int) (full : Bool) :
    (A.nodes = [] →
      SIR_compact_effective_degree_from_graph_args A tau gamma (some infs) recs none tmin tmax tcount full
        = .error "ValueError") ∧
    (∀ e, A.nodes ≠ [] → initialize_node_status A.toIArgs infs (recs.getD []) = .error e →
      SIR_compact_effective_degree_from_graph_args A tau gamma (some infs) recs none tmin tmax tcount full
        = .error e) := by
  constructor
  · intro hN
    unfold SIR_compact_effective_degree_from_graph_args
    simp only [Option.isSome_none, Bool.false_and, Bool.false_eq_true, if_false, maxKey_counter, hN, List.map_nil,
      if_true, err_bind]
  · intro e hne he
    have hne' : A.nodes.map A.degree ≠ [] := fun e => hne (List.map_eq_nil_iff.mp e)
    unfold SIR_compact_effective_degree_from_graph_args
    simp only [Option.isSome_none, Bool.false_and, Bool.false_eq_true, if_false, ok_bind, he, maxKey_counter, hne',
      zeros_eq, err_bind]

/-! ## 2. `SIS_super_compact_pairwise_from_graph` -/

/-- `d.get(k, dflt)` for a key that is a natural number read as a float -/
theorem dictGetD_nat (d : List (Nat × Rat)) (i : Nat) (dflt : Rat) :
    PyWrap.dictGetD d ((i : Nat) : Rat) dflt = alGet d dflt i := by
  unfold PyWrap.dictGetD
  induction d with
  | nil => rfl
  | cons q t ih =>
    obtain ⟨k, v⟩ := q
    by_cases h : k = i
    · subst h; simp [alGet]
    · have h' : ((k : Nat) : Rat) ≠ ((i : Nat) : Rat) := by exact_mod_cast h
      simp only [List.find?_cons, h', decide_false, alGet, h, if_false]
      exact ih

/-- `np.arange(n)` -/
theorem ks_eq (n : Nat) :
    (PyWrap.range ((n : Nat) : Int)).map (fun (i_ : Int) => ((i_ : Int) : Rat)) = (List.range n).map (fun k => ((k : Nat) : Rat)) := by
  rw [range_nat, List.map_map]
  apply List.map_congr_left
  intro k _
  simp

theorem vmul_maps (n : Nat) (F G : Nat → Rat) :
    PyWrap.vmul ((List.range n).map F) ((List.range n).map G) = .ok ((List.range n).map fun k => F k * G k) := by
  unfold PyWrap.vmul
  simp [List.zipWith_map, List.zipWith_self]

theorem dot_maps (n : Nat) (F G : Nat → Rat) :
    PyWrap.dot ((List.range n).map F) ((List.range n).map G) = .ok (sumRat ((List.range n).map fun k => F k * G k)) := by
  unfold PyWrap.dot
  simp [List.zipWith_map, List.zipWith_self]

/-- `[Pk.get(k, 0) for k in ks]` -/
theorem Pks_eq (degs : List Nat) (n : Nat) :
    ((List.range n).map (fun k => ((k : Nat) : Rat))).mapM (fun (k : Rat) =>
      (pure (PyWrap.dictGetD (PkAL degs) k ((0 : Int) : Rat)) : Except String Rat))
      = .ok ((List.range n).map fun k => Helpers.Pk degs k) := by
  rw [mapM_pure', List.map_map]
  congr 1
  apply List.map_congr_left
  intro k _
  simp only [Function.comp, Int.cast_zero, dictGetD_nat, GenHelpProofs.PkAL_get]

theorem Pks_eq' (degs : List Nat) (n : Nat) :
    ((List.range n).map (fun k => ((k : Nat) : Rat))).mapM (fun (k : Rat) =>
      (Except.ok (PyWrap.dictGetD (PkAL degs) k ((0 : Int) : Rat)) : Except String Rat))
      = .ok ((List.range n).map fun k => Helpers.Pk degs k) := Pks_eq degs n

/-- the `j`-th moment of the degree list: `Σ_u deg(u)^j / N` -/
def kMoment (degs : List Nat) (j : Nat) : Rat := Helpers.meanDeg degs (fun k => ((k : Nat) : Rat) ^ j)

theorem kMoment_dot (degs : List Nat) (j : Nat) :
    sumRat ((List.range (Helpers.maxDeg degs + 1)).map fun k => Helpers.Pk degs k * ((k : Nat) : Rat) ^ j)
      = kMoment degs j := Helpers.sumRat_Pk_mul degs _

/-- `np.dot(Nk, arange(len(Nk)))` = `Σ_u deg u` -/
theorem dot_hist (A : IArgs) :
    PyWrap.dot (degree_hist A)
        ((PyWrap.range (((degree_hist A).length : Nat) : Int)).map (fun (i : Int) => ((i : Int) : Rat)))
      = .ok ((degSum A : Nat) : Rat) := by
  rw [degree_hist_length A]
  conv_lhs => rw [degree_hist_as_map A]
  rw [dot_range, hist_weighted]

/-- the three moments as the wrapper computes them (arrays of `maxdeg + 1` entries) -/
theorem moments_ok (degs : List Nat) :
    let ks := (List.range (Helpers.maxDeg degs + 1)).map (fun k => ((k : Nat) : Rat))
    let ks2 := (List.range (Helpers.maxDeg degs + 1)).map (fun k => ((k : Nat) : Rat) * ((k : Nat) : Rat))
    let ks3 := (List.range (Helpers.maxDeg degs + 1)).map
      (fun k => ((k : Nat) : Rat) * ((k : Nat) : Rat) * ((k : Nat) : Rat))
    let Pks := (List.range (Helpers.maxDeg degs + 1)).map fun k => Helpers.Pk degs k
    PyWrap.dot Pks ks = .ok (kMoment degs 1) ∧ PyWrap.vmul ks ks = .ok ks2 ∧
    PyWrap.dot Pks ks2 = .ok (kMoment degs 2) ∧ PyWrap.vmul ks2 ks = .ok ks3 ∧
    PyWrap.dot Pks ks3 = .ok (kMoment degs 3) := by
  intro ks ks2 ks3 Pks
  refine ⟨?_, vmul_maps _ _ _, ?_, vmul_maps _ _ _, ?_⟩
  · rw [dot_maps, ← kMoment_dot]
    congr 1
    apply congrArg
    apply List.map_congr_left; intro k _; ring
  · rw [dot_maps, ← kMoment_dot]
    congr 1
    apply congrArg
    apply List.map_congr_left; intro k _; ring
  · rw [dot_maps, ← kMoment_dot]
    congr 1
    apply congrArg
    apply List.map_congr_left; intro k _; ring

theorem maxDeg_eq (adj : List (List Nat)) : maxDeg adj = Helpers.maxDeg (adj.map (·.length)) := rfl

theorem nodes_ne_nil' (A : WArgs) (adj : List (List Nat)) (hG : GraphOK A.toIArgs adj) (hN : adj.length ≠ 0) :
    A.nodes ≠ [] := by
  intro e
  have := nodes_length A.toIArgs adj hG
  rw [e] at this; exact hN this.symm

/-- `SIS_super_compact_pairwise_from_graph` with an explicit initial set, status map built -/
theorem SISscp_sets (A : WArgs) (adj : List (List Nat)) (hG : GraphOK A.toIArgs adj) (tau gamma : Rat)
    (infs : List Node) (tmin tmax : Rat) (tcount : Int) (full : Bool) (st : Node → St)
    (hst : initialize_node_status A.toIArgs infs [] = .ok st) (hN : adj.length ≠ 0) :
    SIS_super_compact_pairwise_from_graph_args A tau gamma (some infs) none tmin tmax tcount full =
      .ok { S0 := sumRat (vec (maxDeg adj) fun k => (classCount adj st St.S k : Rat)),
            I0 := sumRat (vec (maxDeg adj) fun k => (classCount adj st St.I k : Rat)),
            SS0 := (pairCount adj st St.S St.S : Rat), SI0 := (pairCount adj st St.S St.I : Rat),
            II0 := (pairCount adj st St.I St.I : Rat), tau := tau, gamma := gamma,
            k_ave := kMoment (adj.map (·.length)) 1, ksquare_ave := kMoment (adj.map (·.length)) 2,
            kcube_ave := kMoment (adj.map (·.length)) 3,
            tmin := tmin, tmax := tmax, tcount := tcount, return_full_data := full } := by
  have hne := nodes_ne_nil' A adj hG hN
  obtain ⟨m1, v2, m2, v3, m3⟩ := moments_ok (adj.map (·.length))
  unfold SIS_super_compact_pairwise_from_graph_args
  simp only [Option.isSome_none, Option.isSome_some, Bool.false_and, Bool.false_eq_true, if_false, arrays_closed,
    and_false, and_true, hne, Option.getD_none, sets_ok A.toIArgs adj hG infs [] st hst, ok_bind,
    count_ok A.toIArgs adj hG infs [] st hst, GenHelpProofs.get_Pk_eq, vec_length, ks_eq, degs_eq A.toIArgs adj hG,
    maxDeg_eq, Pks_eq', m1, v2, m2, v3, m3, pure_eq_ok]
  simp

/-- `Σ_k c·N_k·k = c·Σ_u deg u` over `k = 0..maxdeg` -/
theorem sum_Nk_weighted (adj : List (List Nat)) (c : Rat) :
    sumRat ((List.range (Helpers.maxDeg (adj.map (·.length)) + 1)).map
      fun k => c * (Nk adj k : Rat) * ((k : Nat) : Rat)) = c * (twoM adj : Rat) := by
  have h := weighted_countEq (adj.map (·.length))
  rw [show (fun k => c * (Nk adj k : Rat) * ((k : Nat) : Rat))
      = fun k => c * (((k : Nat) : Rat) * ((Helpers.countEq (adj.map (·.length)) k : Nat) : Rat)) from by
        funext k; rw [countEq_degs]; ring,
    sumRat_mul_left, h]
  rfl

/-- `SIS_super_compact_pairwise_from_graph` without `initial_infecteds`, graph with nodes -/
theorem SISscp_rho (A : WArgs) (adj : List (List Nat)) (hG : GraphOK A.toIArgs adj) (tau gamma : Rat)
    (rho : Option Rat) (tmin tmax : Rat) (tcount : Int) (full : Bool) (hN : adj.length ≠ 0) :
    SIS_super_compact_pairwise_from_graph_args A tau gamma none rho tmin tmax tcount full =
      .ok { S0 := sumRat (vec (maxDeg adj) fun k => rhoSk adj (rho.getD (1 / (adj.length : Rat))) k),
            I0 := sumRat (vec (maxDeg adj) fun k => rhoIk adj (rho.getD (1 / (adj.length : Rat))) k),
            SS0 := (1 - rho.getD (1 / (adj.length : Rat))) * ((1 - rho.getD (1 / (adj.length : Rat))) * (twoM adj : Rat)),
            SI0 := rho.getD (1 / (adj.length : Rat)) * ((1 - rho.getD (1 / (adj.length : Rat))) * (twoM adj : Rat)),
            II0 := rho.getD (1 / (adj.length : Rat)) * rho.getD (1 / (adj.length : Rat)) * (1 * (twoM adj : Rat)),
            tau := tau, gamma := gamma,
            k_ave := kMoment (adj.map (·.length)) 1, ksquare_ave := kMoment (adj.map (·.length)) 2,
            kcube_ave := kMoment (adj.map (·.length)) 3,
            tmin := tmin, tmax := tmax, tcount := tcount, return_full_data := full } := by
  have hne := nodes_ne_nil' A adj hG hN
  have hNl : A.nodes.length ≠ 0 := by rw [nodes_length A.toIArgs adj hG]; exact hN
  obtain ⟨m1, v2, m2, v3, m3⟩ := moments_ok (adj.map (·.length))
  have d1 : ∀ r : Rat, PyWrap.dot (vec (Helpers.maxDeg (adj.map (·.length))) fun k => rhoSk adj r k)
      ((List.range (Helpers.maxDeg (adj.map (·.length)) + 1)).map (fun k => ((k : Nat) : Rat)))
      = .ok ((1 - r) * (twoM adj : Rat)) := by
    intro r
    unfold vec rhoSk
    rw [dot_maps, sum_Nk_weighted]
  have d2 : PyWrap.dot (vec (Helpers.maxDeg (adj.map (·.length))) fun k => (Nk adj k : Rat))
      ((List.range (Helpers.maxDeg (adj.map (·.length)) + 1)).map (fun k => ((k : Nat) : Rat)))
      = .ok (1 * (twoM adj : Rat)) := by
    unfold vec
    rw [← sum_Nk_weighted adj 1, dot_maps]
    congr 2
    apply List.map_congr_left; intro k _; ring
  unfold SIS_super_compact_pairwise_from_graph_args
  cases rho with
  | some r =>
    simp only [Option.isSome_none, Option.isSome_some, Bool.and_false, Bool.false_eq_true, if_false, arrays_closed,
      and_false, and_true, false_and, hne, Option.getD_some, rho_ok A.toIArgs adj hG, ok_bind,
      GenHelpProofs.get_Pk_eq, vec_length, ks_eq, degs_eq A.toIArgs adj hG,
      maxDeg_eq, Pks_eq, Pks_eq', m1, v2, m2, v3, m3, pure_eq_ok, d1, d2, Int.cast_one]
  | none =>
    rw [Int.cast_natCast (R := Rat) A.nodes.length]
    simp only [Option.isSome_none, Option.isSome_some, Bool.and_false, Bool.false_eq_true, if_false, arrays_closed,
      and_false, and_true, false_and, hne, Option.getD_none, rho_ok A.toIArgs adj hG, ok_bind,
      GenHelpProofs.get_Pk_eq, vec_length, ks_eq, degs_eq A.toIArgs adj hG, fdiv_N, hNl,
      maxDeg_eq, Pks_eq, Pks_eq', m1, v2, m2, v3, m3, pure_eq_ok, d1, d2, Int.cast_one,
      nodes_length A.toIArgs adj hG, hN]

/-- the exceptions of `SIS_super_compact_pairwise_from_graph`, ALL inputs: `EoNError` for `rho` with a set, then
ValueError on a graph without nodes (`max` of no degrees, also for the default request — no ZeroDivisionError), then the
status builder -/
theorem SISscp_error (A : WArgs) (tau gamma : Rat) (tmin tmax : Rat) (tcount : Int) (full : Bool) :
    (∀ infs r, SIS_super_compact_pairwise_from_graph_args A tau gamma (some infs) (some r) tmin tmax tcount full
      = .error "EoNError") ∧
    (∀ infs rho, ¬ (rho.isSome ∧ infs.isSome) → A.nodes = [] →
      SIS_super_compact_pairwise_from_graph_args A tau gamma infs rho tmin tmax tcount full = .error "ValueError") ∧
    (∀ infs e, A.nodes ≠ [] → initialize_node_status A.toIArgs infs [] = .error e →
      SIS_super_compact_pairwise_from_graph_args A tau gamma (some infs) none tmin tmax tcount full = .error e) := by
  refine ⟨fun infs r => rfl, fun infs rho hb hN => ?_, fun infs e hne he => ?_⟩
  · have h' : (rho.isSome && infs.isSome) = false := by
      cases rho <;> cases infs <;> simp at hb ⊢
    unfold SIS_super_compact_pairwise_from_graph_args
    simp only [h', Bool.false_eq_true, if_false, arrays_closed, hb, Option.isSome_none, and_false, and_true, hN,
      if_true, err_bind]
  · unfold SIS_super_compact_pairwise_from_graph_args
    simp only [Option.isSome_none, Option.isSome_some, Bool.false_and, Bool.false_eq_true, if_false, arrays_closed,
      and_false, and_true, false_and, hne, Option.getD_none, sets_unfold, he, err_bind]

/-! ## 3. `SIR_super_compact_pairwise_from_graph`: the closures -/

theorem powI_sub2 (x : Rat) (k : Nat) (hk : 2 ≤ k) : PyWrap.powI x (((k : Nat) : Int) - 2) = .ok (x ^ (k - 2)) := by
  unfold PyWrap.powI
  have : (((k : Nat) : Int) - 2).toNat = k - 2 := by omega
  rw [if_pos (by omega), this]; rfl

theorem powI_neg2 (x : Rat) (k : Nat) (hk : k < 2) (hx : x ≠ 0) : ∃ y, PyWrap.powI x (((k : Nat) : Int) - 2) = .ok y := by
  unfold PyWrap.powI
  rw [if_neg (by omega), if_neg hx]; exact ⟨_, rfl⟩

theorem powI_neg2_zero (k : Nat) (hk : k < 2) : PyWrap.powI 0 (((k : Nat) : Int) - 2) = .error "ZeroDivisionError" := by
  unfold PyWrap.powI
  rw [if_neg (by omega), if_pos rfl]; rfl

/-- `Σ_k val(k)·x^k` through a getter that succeeds on every key -/
theorem fold0 (keys : List Nat) (get : Int → Except String Rat) (val : Nat → Rat)
    (hget : ∀ k ∈ keys, get ((k : Nat) : Int) = .ok (val k)) (x : Rat) :
    keys.foldlM (fun (acc_ : Rat) (k_ : Nat) => do
        let d_3 ← get ((k_ : Nat) : Int)
        let p_4 ← PyWrap.powI x ((k_ : Nat) : Int)
        (Except.ok (acc_ + (d_3 * p_4)) : Except String Rat)) 0 = .ok (sumRat (keys.map fun k => val k * x ^ k)) := by
  rw [fold_keys_ok _ (fun k => val k * x ^ k)]
  · simp
  · intro k hk acc
    rw [hget k hk, powI_nat]; rfl

/-- `Σ_{k>0} k·val(k)·x^(k-1)` -/
def sum1 (keys : List Nat) (val : Nat → Rat) (x : Rat) : Rat :=
  sumRat (keys.map fun k => if 0 < k then (((k : Nat) : Rat) * val k) * x ^ (k - 1) else 0)

theorem fold1 (keys : List Nat) (get : Int → Except String Rat) (val : Nat → Rat)
    (hget : ∀ k ∈ keys, get ((k : Nat) : Int) = .ok (val k)) (x : Rat) (hx : x ≠ 0 ∨ 0 ∉ keys) :
    keys.foldlM (fun (acc_ : Rat) (k_ : Nat) => do
        let d_7 ← get ((k_ : Nat) : Int)
        let p_8 ← PyWrap.powI x (((k_ : Nat) : Int) - (1 : Int))
        (Except.ok (acc_ + ((((((k_ : Nat) : Int) : Int) : Rat) * d_7) * p_8)) : Except String Rat)) 0
      = .ok (sum1 keys val x) := by
  rw [fold_keys_ok _ (fun k => if 0 < k then (((k : Nat) : Rat) * val k) * x ^ (k - 1) else 0)]
  · simp [sum1]
  · intro k hk acc
    rw [hget k hk]
    by_cases hk0 : 0 < k
    · rw [powI_pred x k hk0]; simp [hk0]
    · have : k = 0 := by omega
      subst this
      have hx' : x ≠ 0 := by
        rcases hx with h | h
        · exact h
        · exact absurd hk h
      obtain ⟨y, hy⟩ := powI_neg x hx'
      rw [hy]; simp

theorem fold1_zero (keys : List Nat) (get : Int → Except String Rat) (val : Nat → Rat)
    (hget : ∀ k ∈ keys, get ((k : Nat) : Int) = .ok (val k)) (h0 : 0 ∈ keys) :
    keys.foldlM (fun (acc_ : Rat) (k_ : Nat) => do
        let d_7 ← get ((k_ : Nat) : Int)
        let p_8 ← PyWrap.powI (0 : Rat) (((k_ : Nat) : Int) - (1 : Int))
        (Except.ok (acc_ + ((((((k_ : Nat) : Int) : Int) : Rat) * d_7) * p_8)) : Except String Rat)) 0
      = .error "ZeroDivisionError" := by
  apply GenHelpProofs.fold_keys_err _ (fun k => if 0 < k then (((k : Nat) : Rat) * val k) * (0 : Rat) ^ (k - 1) else 0)
  · intro k hk
    by_cases hk0 : 0 < k
    · left; intro acc
      rw [hget k hk, powI_pred 0 k hk0]; simp [hk0]
    · right; intro acc
      have : k = 0 := by omega
      subst this
      rw [hget 0 hk, powI_neg_zero]; rfl
  · refine ⟨0, h0, fun acc => ?_⟩
    rw [hget 0 h0, powI_neg_zero]; rfl

/-- `Σ_{k≥2} k(k-1)·val(k)·x^(k-2)` -/
def sum2 (keys : List Nat) (val : Nat → Rat) (x : Rat) : Rat :=
  sumRat (keys.map fun k => if 2 ≤ k then ((((k : Nat) : Rat) * (((k : Nat) : Rat) - 1)) * val k) * x ^ (k - 2) else 0)

theorem fold2 (keys : List Nat) (get : Int → Except String Rat) (val : Nat → Rat)
    (hget : ∀ k ∈ keys, get ((k : Nat) : Int) = .ok (val k)) (x : Rat) (hx : x ≠ 0 ∨ (0 ∉ keys ∧ 1 ∉ keys)) :
    keys.foldlM (fun (acc_ : Rat) (k_ : Nat) => do
        let d_11 ← get ((k_ : Nat) : Int)
        let p_12 ← PyWrap.powI x (((k_ : Nat) : Int) - (2 : Int))
        (Except.ok (acc_ + ((((((k_ : Nat) : Int) * (((k_ : Nat) : Int) - (1 : Int)) : Int) : Rat) * d_11) * p_12))
          : Except String Rat)) 0
      = .ok (sum2 keys val x) := by
  rw [fold_keys_ok _ (fun k => if 2 ≤ k then ((((k : Nat) : Rat) * (((k : Nat) : Rat) - 1)) * val k) * x ^ (k - 2)
    else 0)]
  · simp [sum2]
  · intro k hk acc
    rw [hget k hk]
    by_cases hk2 : 2 ≤ k
    · rw [powI_sub2 x k hk2]; simp [hk2]
    · have hk' : k < 2 := by omega
      have hx' : x ≠ 0 := by
        rcases hx with h | ⟨h0, h1⟩
        · exact h
        · exfalso
          have : k = 0 ∨ k = 1 := by omega
          rcases this with rfl | rfl
          · exact h0 hk
          · exact h1 hk
      obtain ⟨y, hy⟩ := powI_neg2 x k hk' hx'
      rw [hy]
      have : k = 0 ∨ k = 1 := by omega
      rcases this with rfl | rfl <;> simp

theorem fold2_zero (keys : List Nat) (get : Int → Except String Rat) (val : Nat → Rat)
    (hget : ∀ k ∈ keys, get ((k : Nat) : Int) = .ok (val k)) (h01 : 0 ∈ keys ∨ 1 ∈ keys) :
    keys.foldlM (fun (acc_ : Rat) (k_ : Nat) => do
        let d_11 ← get ((k_ : Nat) : Int)
        let p_12 ← PyWrap.powI (0 : Rat) (((k_ : Nat) : Int) - (2 : Int))
        (Except.ok (acc_ + ((((((k_ : Nat) : Int) * (((k_ : Nat) : Int) - (1 : Int)) : Int) : Rat) * d_11) * p_12))
          : Except String Rat)) 0
      = .error "ZeroDivisionError" := by
  apply GenHelpProofs.fold_keys_err _ (fun k => if 2 ≤ k then
      ((((k : Nat) : Rat) * (((k : Nat) : Rat) - 1)) * val k) * (0 : Rat) ^ (k - 2) else 0)
  · intro k hk
    by_cases hk2 : 2 ≤ k
    · left; intro acc
      rw [hget k hk, powI_sub2 0 k hk2]; simp [hk2]
    · right; intro acc
      rw [hget k hk, powI_neg2_zero k (by omega)]; rfl
  · rcases h01 with h | h
    · refine ⟨0, h, fun acc => ?_⟩
      rw [hget 0 h, powI_neg2_zero 0 (by omega)]; rfl
    · refine ⟨1, h, fun acc => ?_⟩
      rw [hget 1 h, powI_neg2_zero 1 (by omega)]; rfl

/-- the keys of the graph's `Pk` index the class arrays -/
theorem keys_lt (degs : List Nat) (v : List Rat) (hv : v.length = Helpers.maxDeg degs + 1) :
    ∀ k ∈ (PkAL degs).map (·.1), PyWrap.vecGet v ((k : Nat) : Int) = .ok (v.getD k 0) := by
  intro k hk
  have := Helpers.le_maxDeg degs k (keys_PkAL_mem degs k hk)
  exact vecGet_nat v k (by omega)

/-- `SIR_super_compact_pairwise_from_graph` with explicit sets, status map built, graph with nodes: the scalars, and the
three closures as sums over the keys of `Pk` of the CLASS COUNTS `cS(k)`, divided by `N` -/
theorem SIRscp_sets (A : WArgs) (adj : List (List Nat)) (hG : GraphOK A.toIArgs adj) (tau gamma : Rat)
    (infs : List Node) (recs : Option (List Node)) (tmin tmax : Rat) (tcount : Int) (full : Bool) (st : Node → St)
    (hst : initialize_node_status A.toIArgs infs (recs.getD []) = .ok st) (hN : adj.length ≠ 0) :
    ∃ a, SIR_super_compact_pairwise_from_graph_args A tau gamma (some infs) recs none tmin tmax tcount full = .ok a ∧
      a.R0 = sumRat (vec (maxDeg adj) fun k => (classCount adj st St.R k : Rat)) ∧
      a.SS0 = (pairCount adj st St.S St.S : Rat) ∧ a.SI0 = (pairCount adj st St.S St.I : Rat) ∧
      a.N = (adj.length : Rat) ∧
      (∀ x, a.psihat x = .ok (sumRat (((PkAL (adj.map (·.length))).map (·.1)).map
        fun k => (vec (maxDeg adj) fun k => (classCount adj st St.S k : Rat)).getD k 0 * x ^ k) / (adj.length : Rat))) ∧
      (∀ x, x ≠ 0 ∨ 0 ∉ adj.map (·.length) → a.psihatPrime x = .ok (sum1 ((PkAL (adj.map (·.length))).map (·.1))
        (fun k => (vec (maxDeg adj) fun k => (classCount adj st St.S k : Rat)).getD k 0) x / (adj.length : Rat))) ∧
      (0 ∈ adj.map (·.length) → a.psihatPrime 0 = .error "ZeroDivisionError") ∧
      (∀ x, x ≠ 0 ∨ (0 ∉ adj.map (·.length) ∧ 1 ∉ adj.map (·.length)) →
        a.psihatDPrime x = .ok (sum2 ((PkAL (adj.map (·.length))).map (·.1))
        (fun k => (vec (maxDeg adj) fun k => (classCount adj st St.S k : Rat)).getD k 0) x / (adj.length : Rat))) ∧
      (0 ∈ adj.map (·.length) ∨ 1 ∈ adj.map (·.length) → a.psihatDPrime 0 = .error "ZeroDivisionError") ∧
      a.tau = tau ∧ a.gamma = gamma ∧ a.tmin = tmin ∧ a.tmax = tmax ∧ a.tcount = tcount ∧
      a.return_full_data = full := by
  have hne := nodes_ne_nil' A adj hG hN
  have hNr : ((adj.length : Nat) : Rat) ≠ 0 := by exact_mod_cast hN
  have hkeys : ∀ k : Nat, k ∈ (PkAL (adj.map (·.length))).map (·.1) ↔ k ∈ adj.map (·.length) := by
    intro k; rw [GenHelpProofs.PkAL_keys]; exact List.mem_eraseDups
  have hget := keys_lt (adj.map (·.length)) (vec (maxDeg adj) fun k => (classCount adj st St.S k : Rat))
    (vec_length _ _)
  unfold SIR_super_compact_pairwise_from_graph_args
  rw [Int.cast_natCast (R := Rat) A.nodes.length]
  simp only [Option.isSome_none, Option.isSome_some, Bool.false_and, Bool.false_eq_true, if_false, arrays_closed,
    Option.isNone_none, Option.isNone_some, Bool.and_false, Bool.false_and, pure_eq_ok,
    and_false, and_true, false_and, hne, sets_ok A.toIArgs adj hG infs (recs.getD []) st hst, ok_bind,
    count_ok A.toIArgs adj hG infs (recs.getD []) st hst, GenHelpProofs.get_Pk_eq, degs_eq A.toIArgs adj hG,
    nodes_length A.toIArgs adj hG, Bool.true_eq_false]
  have h0' : 0 ∈ adj.map (·.length) → 0 ∈ (PkAL (adj.map (·.length))).map (·.1) := (hkeys 0).2
  refine ⟨_, rfl, rfl, by simp, by simp, rfl, fun x => ?_, fun x hx => ?_, fun h0 => ?_, fun x hx => ?_, fun h01 => ?_,
    rfl, rfl, rfl, rfl, rfl, rfl⟩
  · simp only [fold0 _ _ _ hget, ok_bind]
    simp only [Int.cast_natCast, GenHelpProofs.fdiv_ok _ _ hNr]
  · have hx' : x ≠ 0 ∨ 0 ∉ (PkAL (adj.map (·.length))).map (·.1) := by
      rcases hx with h | h
      · exact Or.inl h
      · exact Or.inr (fun h' => h ((hkeys 0).1 h'))
    simp only [fold1 _ _ _ hget x hx', ok_bind]
    simp only [Int.cast_natCast, GenHelpProofs.fdiv_ok _ _ hNr]
  · simp only [fold1_zero _ _ _ hget (h0' h0), err_bind]
  · have hx' : x ≠ 0 ∨ (0 ∉ (PkAL (adj.map (·.length))).map (·.1) ∧ 1 ∉ (PkAL (adj.map (·.length))).map (·.1)) := by
      rcases hx with h | ⟨h, h1⟩
      · exact Or.inl h
      · exact Or.inr ⟨fun h' => h ((hkeys 0).1 h'), fun h' => h1 ((hkeys 1).1 h')⟩
    simp only [fold2 _ _ _ hget x hx', ok_bind]
    simp only [Int.cast_natCast, GenHelpProofs.fdiv_ok _ _ hNr]
  · have h01' : 0 ∈ (PkAL (adj.map (·.length))).map (·.1) ∨ 1 ∈ (PkAL (adj.map (·.length))).map (·.1) := by
      rcases h01 with h | h
      · exact Or.inl ((hkeys 0).2 h)
      · exact Or.inr ((hkeys 1).2 h)
    simp only [fold2_zero _ _ _ hget h01', err_bind]

/-- `SIR_super_compact_pairwise_from_graph` without `initial_infecteds` and without `initial_recovereds`, graph with
nodes: `rho` (default `1/N`), `ψ(x) = Σ_k Pk[k] x^k` -/
theorem SIRscp_rho (A : WArgs) (adj : List (List Nat)) (hG : GraphOK A.toIArgs adj) (tau gamma : Rat)
    (rho : Option Rat) (tmin tmax : Rat) (tcount : Int) (full : Bool) (hN : adj.length ≠ 0) :
    ∃ a, SIR_super_compact_pairwise_from_graph_args A tau gamma none none rho tmin tmax tcount full = .ok a ∧
      a.R0 = sumRat (vec (maxDeg adj) fun _ => 0) ∧
      a.SS0 = (1 - rho.getD (1 / (adj.length : Rat))) * ((1 - rho.getD (1 / (adj.length : Rat))) * (twoM adj : Rat)) ∧
      a.SI0 = rho.getD (1 / (adj.length : Rat)) * ((1 - rho.getD (1 / (adj.length : Rat))) * (twoM adj : Rat)) ∧
      a.N = (adj.length : Rat) ∧
      (∀ x, a.psihat x = .ok ((1 - rho.getD (1 / (adj.length : Rat))) * psiK (PkAL (adj.map (·.length))) x)) ∧
      (∀ x, x ≠ 0 ∨ 0 ∉ adj.map (·.length) →
        a.psihatPrime x = .ok ((1 - rho.getD (1 / (adj.length : Rat))) * psiKP (PkAL (adj.map (·.length))) x)) ∧
      (0 ∈ adj.map (·.length) → a.psihatPrime 0 = .error "ZeroDivisionError") ∧
      (∀ x, x ≠ 0 ∨ (0 ∉ adj.map (·.length) ∧ 1 ∉ adj.map (·.length)) →
        a.psihatDPrime x = .ok ((1 - rho.getD (1 / (adj.length : Rat))) *
          sum2 ((PkAL (adj.map (·.length))).map (·.1)) (fun k => alGet (PkAL (adj.map (·.length))) 0 k) x)) ∧
      (0 ∈ adj.map (·.length) ∨ 1 ∈ adj.map (·.length) → a.psihatDPrime 0 = .error "ZeroDivisionError") ∧
      a.tau = tau ∧ a.gamma = gamma ∧ a.tmin = tmin ∧ a.tmax = tmax ∧ a.tcount = tcount ∧
      a.return_full_data = full := by
  have hne := nodes_ne_nil' A adj hG hN
  have hNl : A.nodes.length ≠ 0 := by rw [nodes_length A.toIArgs adj hG]; exact hN
  have hkeys : ∀ k : Nat, k ∈ (PkAL (adj.map (·.length))).map (·.1) ↔ k ∈ adj.map (·.length) := by
    intro k; rw [GenHelpProofs.PkAL_keys]; exact List.mem_eraseDups
  have hget : ∀ k ∈ (PkAL (adj.map (·.length))).map (·.1),
      PyWrap.dictGet (PkAL (adj.map (·.length))) ((k : Nat) : Int) = .ok (alGet (PkAL (adj.map (·.length))) 0 k) :=
    fun k hk => wdictGet_key _ k hk
  have d1 : ∀ r : Rat, PyWrap.dot (vec (Helpers.maxDeg (adj.map (·.length))) fun k => rhoSk adj r k)
      ((List.range (Helpers.maxDeg (adj.map (·.length)) + 1)).map (fun k => ((k : Nat) : Rat)))
      = .ok ((1 - r) * (twoM adj : Rat)) := by
    intro r
    unfold vec rhoSk
    rw [dot_maps, sum_Nk_weighted]
  have main : ∀ r : Rat, ∃ a,
      SIR_super_compact_pairwise_from_graph_args A tau gamma none none (some r) tmin tmax tcount full = .ok a ∧
      a.R0 = sumRat (vec (maxDeg adj) fun _ => 0) ∧
      a.SS0 = (1 - r) * ((1 - r) * (twoM adj : Rat)) ∧ a.SI0 = r * ((1 - r) * (twoM adj : Rat)) ∧
      a.N = (adj.length : Rat) ∧
      (∀ x, a.psihat x = .ok ((1 - r) * psiK (PkAL (adj.map (·.length))) x)) ∧
      (∀ x, x ≠ 0 ∨ 0 ∉ adj.map (·.length) → a.psihatPrime x = .ok ((1 - r) * psiKP (PkAL (adj.map (·.length))) x)) ∧
      (0 ∈ adj.map (·.length) → a.psihatPrime 0 = .error "ZeroDivisionError") ∧
      (∀ x, x ≠ 0 ∨ (0 ∉ adj.map (·.length) ∧ 1 ∉ adj.map (·.length)) →
        a.psihatDPrime x = .ok ((1 - r) *
          sum2 ((PkAL (adj.map (·.length))).map (·.1)) (fun k => alGet (PkAL (adj.map (·.length))) 0 k) x)) ∧
      (0 ∈ adj.map (·.length) ∨ 1 ∈ adj.map (·.length) → a.psihatDPrime 0 = .error "ZeroDivisionError") ∧
      a.tau = tau ∧ a.gamma = gamma ∧ a.tmin = tmin ∧ a.tmax = tmax ∧ a.tcount = tcount ∧
      a.return_full_data = full := by
    intro r
    unfold SIR_super_compact_pairwise_from_graph_args
    rw [Int.cast_natCast (R := Rat) A.nodes.length]
    simp only [Option.isSome_none, Option.isSome_some, Bool.and_false, Bool.false_eq_true, if_false, arrays_closed,
      Option.isNone_none, Option.isNone_some, Bool.false_and, pure_eq_ok, Bool.and_self,
      and_false, and_true, false_and, hne, Option.getD_some, rho_ok A.toIArgs adj hG, ok_bind,
      GenHelpProofs.get_Pk_eq, vec_length, ks_eq, degs_eq A.toIArgs adj hG, maxDeg_eq, d1, PyWrap.num,
      nodes_length A.toIArgs adj hG, Int.cast_one]
    refine ⟨_, rfl, rfl, rfl, rfl, rfl, fun x => ?_, fun x hx => ?_, fun h0 => ?_, fun x hx => ?_, fun h01 => ?_,
      rfl, rfl, rfl, rfl, rfl, rfl⟩
    · simp only [fold0 _ _ _ hget, ok_bind]
      rfl
    · have hx' : x ≠ 0 ∨ 0 ∉ (PkAL (adj.map (·.length))).map (·.1) := by
        rcases hx with h | h
        · exact Or.inl h
        · exact Or.inr (fun h' => h ((hkeys 0).1 h'))
      simp only [fold1 _ _ _ hget x hx', ok_bind]
      rfl
    · simp only [fold1_zero _ _ _ hget ((hkeys 0).2 h0), err_bind]
    · have hx' : x ≠ 0 ∨ (0 ∉ (PkAL (adj.map (·.length))).map (·.1) ∧ 1 ∉ (PkAL (adj.map (·.length))).map (·.1)) := by
        rcases hx with h | ⟨h, h1⟩
        · exact Or.inl h
        · exact Or.inr ⟨fun h' => h ((hkeys 0).1 h'), fun h' => h1 ((hkeys 1).1 h')⟩
      simp only [fold2 _ _ _ hget x hx', ok_bind]
    · have h01' : 0 ∈ (PkAL (adj.map (·.length))).map (·.1) ∨ 1 ∈ (PkAL (adj.map (·.length))).map (·.1) := by
        rcases h01 with h | h
        · exact Or.inl ((hkeys 0).2 h)
        · exact Or.inr ((hkeys 1).2 h)
      simp only [fold2_zero _ _ _ hget h01', err_bind]
  cases rho with
  | some r => exact main r
  | none =>
    have e : SIR_super_compact_pairwise_from_graph_args A tau gamma none none none tmin tmax tcount full =
        SIR_super_compact_pairwise_from_graph_args A tau gamma none none (some (1 / (adj.length : Rat))) tmin tmax
          tcount full := by
      unfold SIR_super_compact_pairwise_from_graph_args
      rw [Int.cast_natCast (R := Rat) A.nodes.length]
      simp only [Option.isSome_none, Bool.false_and, Bool.false_eq_true, if_false, Option.isNone_none, Bool.and_self,
        if_true, fdiv_N, hNl, hN, ok_bind, pure_eq_ok, Option.isSome_some, Bool.and_false,
        Option.isNone_some, nodes_length A.toIArgs adj hG]
    rw [e]
    exact main _

/-- the exceptions of `SIR_super_compact_pairwise_from_graph` for ALL inputs, in the order of the generated code -/
theorem SIRscp_error (A : WArgs) (tau gamma : Rat) (tmin tmax : Rat) (tcount : Int) (full : Bool) :
    (∀ infs recs r, SIR_super_compact_pairwise_from_graph_args A tau gamma (some infs) recs (some r) tmin tmax tcount full
      = .error "EoNError") ∧
    (∀ recs, A.nodes.length = 0 →
      SIR_super_compact_pairwise_from_graph_args A tau gamma none recs none tmin tmax tcount full
        = .error "ZeroDivisionError") ∧
    (∀ l rho, rho.isSome ∨ A.nodes.length ≠ 0 →
      SIR_super_compact_pairwise_from_graph_args A tau gamma none (some l) rho tmin tmax tcount full
        = .error "EoNError") ∧
    (∀ infs recs, A.nodes = [] →
      SIR_super_compact_pairwise_from_graph_args A tau gamma (some infs) recs none tmin tmax tcount full
        = .error "ValueError") ∧
    (∀ r, A.nodes = [] →
      SIR_super_compact_pairwise_from_graph_args A tau gamma none none (some r) tmin tmax tcount full
        = .error "ValueError") ∧
    (∀ infs recs e, A.nodes ≠ [] → initialize_node_status A.toIArgs infs (recs.getD []) = .error e →
      SIR_super_compact_pairwise_from_graph_args A tau gamma (some infs) recs none tmin tmax tcount full = .error e) := by
  refine ⟨fun infs recs r => rfl, fun recs hN => ?_, fun l rho h => ?_, fun infs recs hN => ?_, fun r hN => ?_,
    fun infs recs e hne he => ?_⟩
  · unfold SIR_super_compact_pairwise_from_graph_args
    simp [hN]
  · unfold SIR_super_compact_pairwise_from_graph_args
    cases rho with
    | some r => simp [arrays_closed]
    | none =>
      have hN : A.nodes.length ≠ 0 := by simpa using h
      rw [Int.cast_natCast (R := Rat) A.nodes.length]
      simp [arrays_closed, fdiv_N, hN]
  · unfold SIR_super_compact_pairwise_from_graph_args
    simp [arrays_closed, hN]
  · unfold SIR_super_compact_pairwise_from_graph_args
    simp [arrays_closed, hN]
  · unfold SIR_super_compact_pairwise_from_graph_args
    simp only [Option.isSome_none, Option.isSome_some, Bool.false_and, Bool.false_eq_true, if_false, arrays_closed,
      Option.isNone_none, Option.isNone_some, Bool.and_false, Bool.false_and, pure_eq_ok, Bool.true_eq_false,
      and_false, and_true, false_and, hne, ok_bind, sets_unfold, he, err_bind]

end GenWrapProofs4
