"""fast_SIS under scripted exponentials vs the Lean model of its event queue (used by C02)."""
from fractions import Fraction as F
import common, allsims, gen, sims
from predchecks import strip
from c13 import changes_from_history, canon


def correspondence(ctx, drv, n_cases):
    reqs, metas = [], []
    for _ in range(n_cases):
        c = allsims.gen_case(ctx.rng, "fast_SIS")
        if c["init"]["kind"] not in ("list", "single"):
            c["init"] = dict(kind="list", nodes=[0])
        full, G, idx = allsims.run_impl(c, rng=ctx.rng, full=True)
        rep = dict(entry="fast_SIS", case=strip(c), tape=full["tape"])
        if not full["ok"]:
            ctx.case(rep, nontrivial=False)
            ctx.violation("fast_SIS raised %s" % full["err"], dict(rep, error=full["err"], tb=full.get("tb")))
            continue
        plain, _, _ = allsims.run_impl(c, tape=full["tape"], full=False)
        G2, lab = sims.build_graph(c)
        _, adj, ew, nw = sims.graph_req(G2, lab, c)
        infs, _ = allsims.requested_init(c, full)
        reqs.append(dict(op="fastsis", n=c["n"], adj=adj, tau=c["tau"], gamma=c["gamma"], ew=ew, nw=nw, tmin=c["tmin"], tmax=c["tmax"],
                         infs=infs, tape=full["tape"]))
        # property-level oracle used to decide whether a disagreement is a violation: every transmission of the chain
        # goes from a currently infectious node to a susceptible neighbour (Pred.transmissionsValid, shared with C09)
        reqs.append(dict(op="tv", forest=False, shift="0", N=c["n"], succ=allsims.succ_lists(G, idx), tmin=c["tmin"], init=infs,
                         hists=full["history"], trans=full["transmissions"], induced=[["I", "S", "I"]], spont=[["I", "S"]]))
        metas.append((rep, full, plain, c))
        ctx.count("fast_SIS:weights=%s%s" % ("E" if c["ew"] else "-", "N" if c["nw"] else "-"))
    resps = drv.batch(reqs)
    for k, (rep, full, plain, c) in enumerate(metas):
        m, tv = resps[2 * k], resps[2 * k + 1]
        if tv.get("ok") and not tv["holds"]:
            ctx.violation("fast_SIS: an event of the output is not a transition of the SIS chain (transmission from a node that is not infectious / to a node that is not susceptible)",
                          dict(rep, transmissions=full["transmissions"], history=full["history"]))
            continue
        ctx.traces += 1
        log = changes_from_history(full["history"], c["tmin"])
        ctx.case(rep, nontrivial=len(log) > len(full["transmissions"]), sample=dict(rep, log=log[:5]))
        ctx.count("fast_SIS:events", len(log))
        if not m.get("ok"):
            ctx.disagreement("fast_SIS-model-error", dict(rep, model=m))
            continue
        d = []
        if m["trace"] != full["trace"]:
            i = next((i for i in range(min(len(m["trace"]), len(full["trace"]))) if m["trace"][i] != full["trace"][i]), -1)
            d.append("expovariate rate trace differs at call %d: impl %s model %s" % (
                i, full["trace"][i] if 0 <= i < len(full["trace"]) else None, m["trace"][i] if 0 <= i < len(m["trace"]) else None))
        if canon(log, c["tmin"]) != canon(m["log"], c["tmin"]):
            d.append("status-change log")
        if canon(full["transmissions"], c["tmin"]) != canon(m["trans"], c["tmin"]):
            d.append("transmissions")
        if not plain["ok"]:
            d.append("array mode raised %s" % plain["err"])
        elif len(plain["times"]) != len(m["log"]) - len([e for e in m["log"] if F(e[0]) == F(c["tmin"])]) + 1:
            d.append("array length")
        if d:
            ctx.disagreement("fast_SIS-tape:" + ";".join(d)[:300], dict(rep, diffs=d))
