import EoNVerif.Basic
/-!
Model of `fast_nonMarkov_SIS` (simulation.py 2928–2990) with `_process_trans_SIS_nonMarkov_` (2542–2576) and
`_process_rec_SIS_` (2646–2650): the *lazy* queue in which every (source,target) pair has at most one pending
attempt that carries its later attempts along (`future_transmissions`), and the *naive reference semantics* the
property compares it with (every attempt is an agenda entry of its own).

User rules: `dur u k` = infection duration of `u`'s `k`-th infection, `delays u v k` = ascending list of transmission
delays from `u` to neighbour `v` during that infection.
-/

inductive SEv
  | trans (src : Option Node) (tgt : Node) (future : List Rat)
  | recov (u : Node)
deriving DecidableEq, Repr

structure SItem where
  time : Rat
  ev : SEv
deriving DecidableEq, Repr

structure SSParams where
  nodes : List Node
  nbrs : Node → List Node
  dur : Node → Nat → Rat
  delays : Node → Node → Nat → List Rat
  tmin : Rat
  tmax : Rat

/-- a status change: (time, node, becomes infected?) -/
abbrev Change := Rat × Node × Bool

structure SSState where
  inf : Node → Bool                 -- status[u] == 'I'
  recTime : Node → Rat              -- default tmin - 1
  count : Node → Nat                -- how many times `u` has been infected so far
  queue : List SItem                -- insertion order
  log : List Change                 -- reversed
  trans : List (Rat × Option Node × Node)   -- reversed

namespace EventSIS

def qadd (tmax : Rat) (q : List SItem) (t : Rat) (e : SEv) : List SItem :=
  if t < tmax then q ++ [⟨t, e⟩] else q

def minTime : List SItem → Option Rat
  | [] => none
  | x :: xs => match minTime xs with
    | none => some x.time
    | some m => some (if x.time ≤ m then x.time else m)

/-- pop the first (smallest insertion index = smallest counter) event of minimal time -/
def pop (q : List SItem) : Option (SItem × List SItem) :=
  match minTime q with
  | none => none
  | some m =>
    match q.findIdx? (fun x => x.time == m) with
    | none => none
    | some i => match q[i]? with
      | some x => some (x, q.eraseIdx i)
      | none => none

/-- the loop over the neighbours of a freshly infected `tgt` (2558–2567) -/
def scheduleNbrs (P : SSParams) (s : SSState) (time : Rat) (tgt : Node) (k : Nat) : List Node → List SItem → List SItem
  | [], q => q
  | v :: rest, q =>
    let tds := P.delays tgt v k
    if tds.isEmpty then scheduleNbrs P s time tgt k rest q else
    let tt := tds.map fun d => time + d
    let tt := if s.inf v then tt.filter fun t => t > s.recTime v else tt
    match tt with
    | [] => scheduleNbrs P s time tgt k rest q
    | t0 :: following => scheduleNbrs P s time tgt k rest (qadd P.tmax q t0 (SEv.trans (some tgt) v following))

def processTrans (P : SSParams) (s : SSState) (time : Rat) (src : Option Node) (tgt : Node) (future : List Rat) : SSState :=
  let s1 : SSState :=
    if !s.inf tgt then
      let k := s.count tgt
      let recT := time + P.dur tgt k
      let sI : SSState := { s with inf := fset s.inf tgt true, recTime := fset s.recTime tgt recT, count := fset s.count tgt (k + 1),
                                   log := (time, tgt, true) :: s.log, trans := (time, src, tgt) :: s.trans }
      let q1 := qadd P.tmax sI.queue recT (SEv.recov tgt)
      -- `status[v]` / `rec_time[v]` are read after the target's own update
      { sI with queue := scheduleNbrs P sI time tgt k (P.nbrs tgt) q1 }
    else s
  -- 2571–2576: re-queue the remaining attempts of this (source,target) chain that fall after the target's
  -- current recovery time
  match src with
  | none => s1
  | some u =>
    match future.filter (fun t => t > s1.recTime tgt) with
    | [] => s1
    | t0 :: following => { s1 with queue := qadd P.tmax s1.queue t0 (SEv.trans (some u) tgt following) }

def processRec (s : SSState) (time : Rat) (u : Node) : SSState :=
  { s with inf := fset s.inf u false, log := (time, u, false) :: s.log }

def step (P : SSParams) (s : SSState) : Option SSState :=
  match pop s.queue with
  | none => none
  | some (x, q) =>
    let s' := { s with queue := q }
    match x.ev with
    | .trans src tgt fut => some (processTrans P s' x.time src tgt fut)
    | .recov u => some (processRec s' x.time u)

def loop (P : SSParams) : Nat → SSState → SSState
  | 0, s => s
  | fuel + 1, s => match step P s with
    | none => s
    | some s' => loop P fuel s'

def init (P : SSParams) (infs : List Node) : SSState :=
  { inf := fun _ => false, recTime := fun _ => P.tmin - 1, count := fun _ => 0,
    queue := infs.foldl (fun q u => qadd P.tmax q P.tmin (SEv.trans none u [])) [],
    log := [], trans := [] }

def run (P : SSParams) (infs : List Node) (fuel : Nat) : SSState := loop P fuel (init P infs)

/-! ### naive reference semantics -/

inductive AEv
  | attempt (src : Option Node) (tgt : Node)
  | recov (u : Node)
deriving DecidableEq, Repr

structure AItem where
  time : Rat
  ev : AEv
deriving DecidableEq, Repr

structure RefState where
  inf : Node → Bool
  count : Node → Nat
  agenda : List AItem
  log : List Change
  trans : List (Rat × Option Node × Node)
  seen : List Rat            -- times of all executed agenda entries (to detect simultaneous events)

def aadd (tmax : Rat) (q : List AItem) (t : Rat) (e : AEv) : List AItem := if t < tmax then q ++ [⟨t, e⟩] else q

def aminTime : List AItem → Option Rat
  | [] => none
  | x :: xs => match aminTime xs with
    | none => some x.time
    | some m => some (if x.time ≤ m then x.time else m)

def apop (q : List AItem) : Option (AItem × List AItem) :=
  match aminTime q with
  | none => none
  | some m => match q.findIdx? (fun x => x.time == m) with
    | none => none
    | some i => match q[i]? with
      | some x => some (x, q.eraseIdx i)
      | none => none

/-- infecting `v` at `t`: schedule its recovery and *every* listed attempt on every neighbour -/
def refInfect (P : SSParams) (s : RefState) (t : Rat) (src : Option Node) (v : Node) : RefState :=
  let k := s.count v
  let q1 := aadd P.tmax s.agenda (t + P.dur v k) (AEv.recov v)
  let q2 := (P.nbrs v).foldl (fun q w => (P.delays v w k).foldl (fun q d => aadd P.tmax q (t + d) (AEv.attempt (some v) w)) q) q1
  { s with inf := fset s.inf v true, count := fset s.count v (k + 1), agenda := q2,
           log := (t, v, true) :: s.log, trans := (t, src, v) :: s.trans }

def refStep (P : SSParams) (s : RefState) : Option RefState :=
  match apop s.agenda with
  | none => none
  | some (x, q) =>
    let s' := { s with agenda := q, seen := x.time :: s.seen }
    match x.ev with
    | .attempt src v => if s'.inf v then some s' else some (refInfect P s' x.time src v)
    | .recov u => some { s' with inf := fset s'.inf u false, log := (x.time, u, false) :: s'.log }

def refLoop (P : SSParams) : Nat → RefState → RefState
  | 0, s => s
  | fuel + 1, s => match refStep P s with
    | none => s
    | some s' => refLoop P fuel s'

def refRun (P : SSParams) (infs : List Node) (fuel : Nat) : RefState :=
  refLoop P fuel { inf := fun _ => false, count := fun _ => 0,
                   agenda := infs.foldl (fun q u => aadd P.tmax q P.tmin (AEv.attempt none u)) [],
                   log := [], trans := [], seen := [] }

/-- the property's hypothesis "distinct event times": no two executed agenda entries after `tmin` share a time -/
def distinctTimes (tmin : Rat) (seen : List Rat) : Bool :=
  let l := seen.filter (· != tmin)
  l.all fun t => (l.filter (· == t)).length == 1

end EventSIS
