"""C18 — simulations are reproducible from the random seeds.
(a) real generators seeded identically -> identical output on repeated calls in one process (and the generator states
afterwards are identical: the same amount of randomness was consumed); (b) randomness is consumed only through the five
primitives of `random` / `numpy.random` (the tape proxies of every other check raise on anything else); (c) for the
continuous-time simulators the arrays equal the summary of the full-data run with the same seeds; (d) identical output
across interpreter hash seeds (subprocesses with PYTHONHASHSEED=0..3) with string node names and string statuses."""
import json, os, subprocess, sys
from fractions import Fraction as F
import common, allsims, sims, gen
from predchecks import strip
import c18_worker

CONT = ["Gillespie_SIR", "Gillespie_SIS", "fast_SIR", "fast_SIS", "Gillespie_simple_contagion", "Gillespie_complex_contagion",
        "fast_nonMarkov_SIR", "fast_nonMarkov_SIS"]


def string_labels(c, rng):
    names = ["n%s%s" % (chr(97 + (7 * i) % 26), i) for i in range(c["n"])]
    rng.shuffle(names)
    c["labels"] = names


def run(ctx):
    # (a) + (c) in-process
    for sim in allsims.SIMS:
        for _ in range(ctx.scale(25, 150)):
            c = allsims.gen_case(ctx.rng, sim)
            if ctx.rng.random() < 0.5:
                string_labels(c, ctx.rng)
                c["container"] = "list"
            seed = ctx.rng.randrange(10 ** 6)
            rep = dict(entry=sim, case=strip(c), seed=seed)
            r1 = c18_worker.run_case(c, seed, c["full"])
            r2 = c18_worker.run_case(c, seed, c["full"])
            ctx.case(rep, nontrivial=r1["ok"], sample=rep)
            ctx.count("inproc:" + sim)
            if not r1["ok"]:
                ctx.violation("%s raised %s with the real generators" % (sim, r1["err"]), rep)
                continue
            if r1 != r2:
                ctx.violation("%s: two calls with identically seeded random / numpy.random differ" % sim, rep)
                continue
            if sim in CONT[:6]:
                f = c18_worker.run_case(c, seed, True)
                a = c18_worker.run_case(c, seed, False)
                if f["ok"] and a["ok"]:
                    s = f["out"]["summary"]
                    ft = [repr(float(F(x))) for x in s["times"]]
                    at = a["out"]["times"]
                    # arrays may contain simultaneous rows; compare as sets of distinct times and final counts
                    if sorted(set(ft), key=float) != sorted(set(at), key=float) or \
                       [float(col[-1]) for col in s["cols"]] != [float(col[-1]) for col in a["out"]["cols"]]:
                        ctx.violation("%s: result depends on return_full_data although the draws do not" % sim, rep)
    large_fanout(ctx)
    after_aborted_call(ctx)
    long_weighted_repeats(ctx)
    # (d) cross-process, hash seeds
    jobs = []
    for sim in CONT:
        generic = sim == "Gillespie_simple_contagion"
        for k_ in range(ctx.scale(48 if generic else 16, 160 if generic else 48)):
            c = allsims.gen_case(ctx.rng, sim, nmax=10 if generic else 8)
            if generic and k_ % 2 == 0:
                # directed contact graph with many two-way and converging edges: the order in which the edges at a
                # changing node are re-filed must not be a hash order of (string, string) tuples
                while not (c.get("directed") and len(c["edges"]) >= 2 * c["n"]):
                    c = allsims.gen_case(ctx.rng, sim, nmax=10)
                    c["directed"] = True
                    n_ = c["n"]
                    c["edges"] = [[u, v] for u in range(n_) for v in range(n_) if u != v and ctx.rng.random() < 0.55]
                    c["edgew"] = [str(ctx.rng.choice([1, 2])) for _ in c["edges"]]
                    c["edgew_rev"] = list(c["edgew"])
                    if n_ < 4:
                        c["directed"] = False
                c["tmax"] = str(F(c["tmin"]) + 8)
            if k_ % 2 == 0 and sim in ("Gillespie_SIR", "fast_SIR", "fast_nonMarkov_SIR", "Gillespie_SIS", "fast_SIS", "fast_nonMarkov_SIS") and c["n"] >= 5:
                # several string-named initial infecteds (+ initially recovered nodes for SIR): the order in which they
                # enter the candidate structures must be the caller's, not a hash order
                nodes = list(range(c["n"]))
                ctx.rng.shuffle(nodes)
                c["init"] = dict(kind="list", nodes=nodes[:3])
                c["recs"] = nodes[3:5] if sim in allsims.HAS_RECS else []
            string_labels(c, ctx.rng)
            c["container"] = ctx.rng.choice(["list", "set"]) if c.get("init", {}).get("kind") == "list" else "list"
            if c.get("container") == "set":
                c["container"] = "list"          # a caller-supplied set is iterated in hash order: the caller's choice, not the library's
            jobs.append([strip(c), ctx.rng.randrange(10 ** 6), True])
    outs = []
    for hs in range(4):
        env = dict(os.environ, PYTHONHASHSEED=str(hs))
        p = subprocess.run([sys.executable, os.path.join(os.path.dirname(os.path.abspath(__file__)), "c18_worker.py")],
                           input=json.dumps(jobs), capture_output=True, text=True, env=env)
        if p.returncode != 0:
            raise RuntimeError("c18 worker failed: " + p.stderr[-800:])
        outs.append(json.loads(p.stdout.strip().splitlines()[-1]))
    for i, (c, seed, full) in enumerate(jobs):
        rep = dict(entry=c["sim"], stream="hashseed", case=c, seed=seed)
        ctx.case(rep, nontrivial=True)
        ctx.count("hashseed:" + c["sim"])
        rs_ = [o[i] for o in outs]
        if any(r != rs_[0] for r in rs_[1:]):
            k = next(k for k in range(1, 4) if rs_[k] != rs_[0])
            ctx.violation("%s: output differs between PYTHONHASHSEED=0 and %d (string node names / statuses)" % (c["sim"], k), rep)


def large_fanout(ctx):
    """(e) hubs: a node that transmits to 64+ neighbours in one step (stars, wheels, hub-and-spoke trees with 80-300 spokes,
    high transmission rate).  Code paths that only switch on for many simultaneous recipients (vectorised sampling, bulk
    draws) must draw from the seeded generators too: two identically seeded calls agree, in arrays and in full data, and leave
    both generators in the same state."""
    import random
    import numpy as np, networkx as nx, EoN
    sims_ = ["fast_SIR", "fast_SIS", "Gillespie_SIR", "Gillespie_SIS", "basic_discrete_SIR", "basic_discrete_SIS"]
    for k in range(ctx.scale(18, 90)):
        r = ctx.rng
        sim = sims_[k % len(sims_)]
        m = r.choice([80, 120, 200, 300])
        kind = r.choice(["star", "wheel", "double-star"])
        if kind == "star":
            G = nx.star_graph(m)
        elif kind == "wheel":
            G = nx.wheel_graph(m + 1)
        else:
            G = nx.star_graph(m)
            G.add_edges_from((m + 1, i) for i in range(1, m + 1, 2))
        if r.random() < 0.4:
            G = nx.relabel_nodes(G, {u: "v%d" % u for u in G})
        hub = list(G)[0]
        weighted = sim in ("fast_SIR", "fast_SIS", "Gillespie_SIR", "Gillespie_SIS") and r.random() < 0.4
        kw = {}
        if weighted:
            for e in G.edges():
                G.edges[e]["w"] = r.choice([0.5, 1.0, 2.0])
            for u in G:
                G.nodes[u]["r"] = r.choice([0.5, 1.0])
            kw = dict(transmission_weight="w", recovery_weight="r")
        seed = r.randrange(10 ** 6)
        full = r.random() < 0.5
        rep = dict(entry=sim, stream="large-fanout", kind=kind, spokes=m, weighted=weighted, seed=seed, full=full)
        ctx.count("large-fanout:" + sim)

        def call(full_):
            random.seed(seed); np.random.seed(seed)
            if sim.startswith("basic_discrete"):
                out = getattr(EoN, sim)(G, 0.9, initial_infecteds=[hub], tmax=4, return_full_data=full_)
            else:
                out = getattr(EoN, sim)(G, 5.0, 1.0, initial_infecteds=[hub], tmax=2.0, return_full_data=full_, **kw)
            st = (random.getstate(), np.random.get_state()[1].tolist(), np.random.get_state()[2])
            if full_:
                t, D = out.summary()
                res = ([float(x) for x in t], {k_: [int(x) for x in v] for k_, v in D.items()},
                       sorted((repr(u), [float(x) for x in out.node_history(u)[0]], list(out.node_history(u)[1])) for u in G),
                       [(float(a), repr(b), repr(c)) for a, b, c in out.transmissions()] if hasattr(out, "transmissions") else None)
            else:
                res = [[float(x) for x in col] for col in out]
            return res, st
        try:
            a, sa = call(full)
            b, sb = call(full)
        except Exception as e:
            ctx.case(rep, nontrivial=False)
            ctx.violation("%s raised %s on a hub graph with the real generators" % (sim, type(e).__name__), dict(rep, error=repr(e)[:200]))
            continue
        ctx.case(rep, nontrivial=True)
        if a != b:
            ctx.violation("%s: two calls with identically seeded random / numpy.random differ on a hub graph (%d spokes)" % (sim, m), rep)
        elif sa != sb:
            ctx.violation("%s: identically seeded calls leave random / numpy.random in different states (hub graph)" % sim, rep)


def after_aborted_call(ctx):
    """(f) a simulation that is ABORTED half-way (a user rule raises, as a Ctrl-C or a bug in a callback would) must leave
    nothing behind: the same seeded call made before the aborted run, right after it and once more must return identical
    output.  Event-driven and Gillespie simulators; real seeded generators."""
    import random
    import numpy as np, networkx as nx, EoN

    class Abort(Exception):
        pass
    targets = ["fast_SIR", "fast_SIS", "fast_nonMarkov_SIR", "fast_nonMarkov_SIS", "Gillespie_SIR", "Gillespie_SIS"]
    for k in range(ctx.scale(18, 90)):
        r = ctx.rng
        G = nx.gnp_random_graph(r.randint(8, 20), 0.4, seed=r.randrange(10 ** 6))
        if G.number_of_edges() == 0:
            continue
        sim = targets[k % len(targets)]
        seed = r.randrange(10 ** 6)
        seeds_ = [u for u in G if G.degree(u) > 0][:2]
        rep = dict(entry=sim, stream="after-aborted-call", n=G.order(), seed=seed)

        def good():
            random.seed(seed); np.random.seed(seed)
            if sim == "fast_nonMarkov_SIR":
                out = EoN.fast_nonMarkov_SIR(G, trans_time_fxn=lambda s, t: random.expovariate(1.0), rec_time_fxn=lambda u: random.expovariate(1.0),
                                             initial_infecteds=seeds_, tmax=4)
            elif sim == "fast_nonMarkov_SIS":
                out = EoN.fast_nonMarkov_SIS(G, trans_time_fxn=lambda s, t, d: [x for x in [random.expovariate(1.0)] if x < d],
                                             rec_time_fxn=lambda u: random.expovariate(1.0), initial_infecteds=seeds_, tmax=4)
            else:
                out = getattr(EoN, sim)(G, 1.0, 1.0, initial_infecteds=seeds_, tmax=4)
            return [[float(x) for x in col] for col in out]

        def aborted():
            calls = [0]

            def bomb(*a):
                calls[0] += 1
                if calls[0] > 3:
                    raise Abort()
                return 0.5
            try:
                which = r.choice(["SIR", "SIS"])
                if which == "SIR":
                    EoN.fast_nonMarkov_SIR(G, trans_time_fxn=bomb, rec_time_fxn=lambda u: 5.0, initial_infecteds=seeds_, tmax=50)
                else:
                    EoN.fast_nonMarkov_SIS(G, trans_time_fxn=lambda s, t, d: [bomb()], rec_time_fxn=lambda u: 5.0, initial_infecteds=seeds_, tmax=50)
            except Abort:
                return True
            return False
        try:
            a = good()
            was_aborted = aborted()
            b = good()
            c = good()
        except Exception as e:
            ctx.case(rep, nontrivial=False)
            ctx.violation("%s raised %s around an aborted run" % (sim, type(e).__name__), dict(rep, error=repr(e)[:200]))
            continue
        ctx.case(rep, nontrivial=was_aborted)
        ctx.count("after-aborted-call:" + sim)
        if not (a == b == c):
            ctx.violation("%s: the same seeded call returns different output after another simulation was aborted by an exception "
                          "(before / right after / once more: %s)" % (sim, [a == b, b == c]), rep)


def long_weighted_repeats(ctx):
    """(g) long WEIGHTED runs with generic (non-dyadic) float weights, the same seeded call four times in one process: every
    call must return bit-identical output.  Thousands of candidate insertions / removals per run, so that anything counted
    across calls or across structures (a process-wide counter, a periodic recomputation whose phase depends on earlier
    calls) shows as a last-bit difference in the event times."""
    import random
    import numpy as np, networkx as nx, EoN
    for k in range(ctx.scale(4, 12)):
        r = ctx.rng
        sim = ["Gillespie_SIS", "Gillespie_SIR", "Gillespie_SIS", "Gillespie_simple_contagion"][k % 4]
        n = r.choice([120, 200])
        gseed = r.randrange(10 ** 6)
        G = nx.random_regular_graph(6, n, seed=gseed)
        wr = random.Random(gseed)
        for u, v in G.edges():
            G.edges[u, v]["w"] = 0.3 + wr.random()
        for u in G:
            G.nodes[u]["r"] = 0.5 + wr.random()
        seed = r.randrange(10 ** 6)
        infs = list(G)[: n // 10]
        rep = dict(entry=sim, stream="long-weighted-repeats", n=n, graph_seed=gseed, seed=seed)
        ctx.count("long-weighted-repeats:" + sim)

        def call():
            random.seed(seed); np.random.seed(seed)
            if sim == "Gillespie_SIS":
                out = EoN.Gillespie_SIS(G, 1.0, 1.0, initial_infecteds=infs, tmax=6, transmission_weight="w", recovery_weight="r")
            elif sim == "Gillespie_SIR":
                out = EoN.Gillespie_SIR(G, 1.5, 1.0, initial_infecteds=infs, tmax=20, transmission_weight="w", recovery_weight="r")
            else:
                H = nx.DiGraph(); H.add_edge("I", "S", rate=1.0, weight_label="r")
                J = nx.DiGraph(); J.add_edge(("I", "S"), ("I", "I"), rate=1.0, weight_label="w")
                IC = {u: ("I" if u in infs else "S") for u in G}
                out = EoN.Gillespie_simple_contagion(G, H, J, IC, ["S", "I"], tmax=5)
            return [[float(x) for x in col] for col in out]
        try:
            outs = [call() for _ in range(4)]
        except Exception as e:
            ctx.case(rep, nontrivial=False)
            ctx.violation("%s raised %s on a long weighted run" % (sim, type(e).__name__), dict(rep, error=repr(e)[:200]))
            continue
        ctx.case(dict(rep, events=len(outs[0][0])), nontrivial=True)
        diff = [i for i in range(1, 4) if outs[i] != outs[0]]
        if diff:
            j = diff[0]
            where = next((i for i, (a, b) in enumerate(zip(outs[0][0], outs[j][0])) if a != b), None)
            ctx.violation("%s: identically seeded repeated calls differ (call %d vs call 0, first differing event time at row %s of %d) on a "
                          "long weighted run with generic float weights" % (sim, j, where, len(outs[0][0])), rep)
