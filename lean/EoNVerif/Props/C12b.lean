import EoNVerif.Proofs.ReedFrost
/-!
C12b — the JOINT Reed–Frost law of one generation of the discrete-time simulators.

`ReedFrost.stepDist p nbrs infecteds sus redraw` (EoNVerif/Model/ReedFrost.lean) is the law of `new_infecteds` produced
by the double loop of `discrete_SIR` (/repo/EoN/simulation.py 614–624) when `test_transmission` is the rule
`_simple_test_transmission_` (`random.random() < p`, simulation.py 415–442) that `basic_discrete_SIR`
(simulation.py 677–774) passes in.  The model draws *sequentially*, exactly as the code does:

* `redraw = false`: a draw is consumed only for a contact `u → v` with `v` still susceptible
  (`if susceptible[v] and test_transmission(u, v, *args)`, line 616 — the `and` short-circuits), a node infected
  earlier in the same generation is not drawn for again;
* `redraw = true`: a draw is also consumed for a node already infected in this generation and thrown away as far as
  `new_infecteds` is concerned — this is `discrete_SIR(..., return_full_data=True)` (the `elif` of lines 621–624) and
  `basic_discrete_SIS` (`if v not in infecteds and random.random()<p`, simulation.py 873–880; there
  `sus v = !infecteds.contains v`, `ReedFrost.stepDistSIS`).

NOTE on the task statement: `basic_discrete_SIS` does *not* have literally the same draw structure as `discrete_SIR`
(it draws for every contact with a non-infectious node, also after that node has been infected in the same
generation); the flag `redraw` covers both and the theorems hold for both values.

`ReedFrost.contacts nbrs infecteds v` = number of pairs visited by the two loops whose target is `v`
(`(infecteds.flatMap nbrs).count v`), `ReedFrost.agrees nodes A new` = "for every `v ∈ nodes`: `v ∈ new ↔ A v`",
`ReedFrost.factor p sus A m v` = `1-(1-p)^(m v)` / `(1-p)^(m v)` for a susceptible `v` with / without `A v`, and
`0` / `1` for a non-susceptible `v` with / without `A v`.

All statements hold for every rational `p` (they are polynomial identities; `0 ≤ p ≤ 1` is only needed to read the
masses as probabilities), every graph, every list of infecteds and every `sus` table.
-/
namespace ReedFrost

/-- **joint Reed–Frost law.**  For ANY duplicate-free list `nodes` of nodes (all of them, or any subset) and any target
`A`, the probability that, among `nodes`, exactly the nodes with `A v` are newly infected in this generation is the
product over `v ∈ nodes` of the per-node Reed–Frost factors: `1-(1-p)^m(v)` for a susceptible node that must be
infected, `(1-p)^m(v)` for a susceptible node that must escape (`m(v)` = number of contacts `· → v` the loops make),
and `0`/`1` for a node that is not susceptible.  For the Python code: one pass of the `for u in infecteds: for v in
G.neighbors(u)` loop of `discrete_SIR` (simulation.py 614–624) with the `basic_discrete_SIR` rule infects the susceptible
nodes independently of each other although the draws are made sequentially and are skipped for nodes already
infected. -/
theorem joint_law (p : Rat) (nbrs : Node → List Node) (infecteds : List Node) (sus : Node → Bool) (redraw : Bool)
    (nodes : List Node) (hn : nodes.Nodup) (A : Node → Bool) :
    Dist.mass (stepDist p nbrs infecteds sus redraw) (agrees nodes A)
      = prodRat (nodes.map (factor p sus A (contacts nbrs infecteds))) :=
  stepDist_joint' p nbrs infecteds sus redraw nodes hn A

/-- **joint law in the textbook form**: if every neighbour list is duplicate free (a simple graph), and the target `A`
only contains susceptible nodes, the probability that the set of newly infected nodes (within `nodes`) is exactly `A`
is `∏_{v ∈ nodes, v susceptible} (if A v then 1-(1-p)^k(v) else (1-p)^k(v))` with `k(v) = Discrete.infNbrs …` the number
of infectious neighbours of `v` (the quantity of the existing marginal theorem `Discrete.basic_marginal`). -/
theorem joint_law_infNbrs (p : Rat) (nbrs : Node → List Node) (infecteds : List Node) (sus : Node → Bool)
    (redraw : Bool) (nodes : List Node) (hn : nodes.Nodup) (A : Node → Bool)
    (hnb : ∀ u ∈ infecteds, (nbrs u).Nodup) (hA : ∀ v ∈ nodes, A v = true → sus v = true) :
    Dist.mass (stepDist p nbrs infecteds sus redraw) (agrees nodes A)
      = prodRat ((nodes.filter sus).map fun v =>
          if A v then Discrete.infProb p (Discrete.infNbrs nodes nbrs infecteds v)
          else (1 - p) ^ Discrete.infNbrs nodes nbrs infecteds v) := by
  rw [joint_law p nbrs infecteds sus redraw nodes hn A, prod_factor_filter p sus A _ nodes hA]
  apply prodRat_map_congr
  intro v _
  rw [contacts_eq_infNbrs nodes nbrs infecteds hnb v]

/-- a target set containing a node that is not susceptible has probability 0 (`susceptible[v]` is tested before every
draw, simulation.py 616) -/
theorem impossible (p : Rat) (nbrs : Node → List Node) (infecteds : List Node) (sus : Node → Bool) (redraw : Bool)
    (nodes : List Node) (hn : nodes.Nodup) (A : Node → Bool) (v : Node) (hv : v ∈ nodes) (hA : A v = true)
    (hs : sus v = false) :
    Dist.mass (stepDist p nbrs infecteds sus redraw) (agrees nodes A) = 0 :=
  stepDist_impossible' p nbrs infecteds sus redraw nodes hn A v hv hA hs

/-- **total mass 1**: the sequential program is a probability distribution (for every `p`, the weights sum to 1) -/
theorem total_mass (p : Rat) (nbrs : Node → List Node) (infecteds : List Node) (sus : Node → Bool) (redraw : Bool) :
    Dist.mass (stepDist p nbrs infecteds sus redraw) (fun _ => true) = 1 :=
  stepDist_total' p nbrs infecteds sus redraw

/-- **independence across nodes**: the joint mass of "for all `v ∈ nodes`: `v` newly infected iff `A v`" is the product
of the single-node masses of the same program -/
theorem independent (p : Rat) (nbrs : Node → List Node) (infecteds : List Node) (sus : Node → Bool) (redraw : Bool)
    (nodes : List Node) (hn : nodes.Nodup) (A : Node → Bool) :
    Dist.mass (stepDist p nbrs infecteds sus redraw) (agrees nodes A)
      = prodRat (nodes.map fun v =>
          Dist.mass (stepDist p nbrs infecteds sus redraw) (fun new => new.contains v == A v)) :=
  stepDist_independent' p nbrs infecteds sus redraw nodes hn A

/-- **the marginal follows**: a susceptible node with `m` contacts is newly infected with probability `1-(1-p)^m`
(`Discrete.infProb`), a non-susceptible node with probability 0 -/
theorem marginal (p : Rat) (nbrs : Node → List Node) (infecteds : List Node) (sus : Node → Bool) (redraw : Bool)
    (v : Node) :
    Dist.mass (stepDist p nbrs infecteds sus redraw) (fun new => new.contains v)
      = if sus v then Discrete.infProb p (contacts nbrs infecteds v) else 0 :=
  stepDist_marginal' p nbrs infecteds sus redraw v

/-- the marginal of the sequential program is the law of the existing one-node model `Discrete.anyContact`
(theorem `Discrete.basic_marginal` of C12) -/
theorem marginal_eq_anyContact (p : Rat) (nbrs : Node → List Node) (infecteds : List Node) (sus : Node → Bool)
    (redraw : Bool) (v : Node) (hs : sus v = true) :
    Dist.mass (stepDist p nbrs infecteds sus redraw) (fun new => new.contains v)
      = Dist.mass (Discrete.anyContact p (contacts nbrs infecteds v)) (fun b => b) := by
  rw [marginal, Discrete.basic_marginal' p _, if_pos hs]

/-- **the iteration order of the set `infecteds` and the extra draws do not matter**: Python iterates a `set`
(`for u in infecteds`), whose order is arbitrary; the law of the set of new infecteds is the same for every order,
and the same with or without the draws for already-infected nodes (`return_full_data=True`, `basic_discrete_SIS`) -/
theorem order_and_redraw_irrelevant (p : Rat) (nbrs : Node → List Node) (i1 i2 : List Node) (hp : i1.Perm i2)
    (sus : Node → Bool) (r1 r2 : Bool) (nodes : List Node) (hn : nodes.Nodup) (A : Node → Bool) :
    Dist.mass (stepDist p nbrs i1 sus r1) (agrees nodes A) = Dist.mass (stepDist p nbrs i2 sus r2) (agrees nodes A) := by
  rw [joint_law p nbrs i1 sus r1 nodes hn A, joint_law p nbrs i2 sus r2 nodes hn A]
  apply prodRat_map_congr
  intro v _
  unfold factor
  rw [contacts_perm nbrs i1 i2 hp v]

/-- **support**: every outcome of the sequential program is a duplicate-free list (so it represents the Python `set`
`new_infecteds` faithfully) of nodes that were susceptible and were contacted at least once -/
theorem support (p : Rat) (nbrs : Node → List Node) (infecteds : List Node) (sus : Node → Bool) (redraw : Bool)
    (new : List Node) (h : ∃ q, (new, q) ∈ stepDist p nbrs infecteds sus redraw) :
    new.Nodup ∧ ∀ v ∈ new, sus v = true ∧ 0 < contacts nbrs infecteds v :=
  stepDist_support' p nbrs infecteds sus redraw new h

/-- **`basic_discrete_SIS`** (simulation.py 873–880): same joint law, with "susceptible" = "not currently infectious" -/
theorem joint_law_SIS (p : Rat) (nbrs : Node → List Node) (infecteds : List Node)
    (nodes : List Node) (hn : nodes.Nodup) (A : Node → Bool) :
    Dist.mass (stepDistSIS p nbrs infecteds) (agrees nodes A)
      = prodRat (nodes.map (factor p (fun v => !infecteds.contains v) A (contacts nbrs infecteds))) :=
  stepDist_joint' p nbrs infecteds _ true nodes hn A

end ReedFrost

/-! ### non-vacuity / concrete instances -/
section Examples
open ReedFrost

/-- path 0-1-2 -/
def exRFpath (u : Node) : List Node := match u with | 0 => [1] | 1 => [0, 2] | 2 => [1] | _ => []
/-- 4-cycle 0-1-2-3-0 -/
def exRFcyc (u : Node) : List Node := match u with | 0 => [1, 3] | 1 => [0, 2] | 2 => [1, 3] | 3 => [2, 0] | _ => []
def exRFsus (v : Node) : Bool := !(v == 0 || v == 2)

/- path, infecteds [0,2], p = 1/3: the program has three outcomes; node 1 (two infectious neighbours) is infected with
probability 1-(2/3)^2 = 5/9 -/
example : stepDist (1/3) exRFpath [0, 2] exRFsus = [([1], 1/3), ([1], 2/9), ([], 4/9)] := by decide +kernel
example : Dist.mass (stepDist (1/3) exRFpath [0, 2] exRFsus) (agrees [0, 1, 2] fun v => v == 1) = 5/9 := by
  decide +kernel
example : Dist.mass (stepDist (1/3) exRFpath [0, 2] exRFsus) (agrees [0, 1, 2] fun v => v == 1) = 5/9 := by
  rw [joint_law _ _ _ _ _ _ (by decide)]; decide +kernel
/- with the extra draws (`redraw = true`) the program has four outcomes but the same law -/
example : (stepDist (1/3) exRFpath [0, 2] exRFsus true).length = 4 := by decide +kernel
example : Dist.mass (stepDist (1/3) exRFpath [0, 2] exRFsus true) (agrees [0, 1, 2] fun v => v == 1) = 5/9 := by
  decide +kernel

/- 4-cycle, infecteds [0,2], p = 1/3: nodes 1 and 3 have two infectious neighbours each;
P(1 infected, 3 not) = 5/9 · 4/9 = 20/81, P(both) = 25/81, P(none) = 16/81 -/
example : Dist.mass (stepDist (1/3) exRFcyc [0, 2] exRFsus) (agrees [0, 1, 2, 3] fun v => v == 1) = 20/81 := by
  decide +kernel
example : Dist.mass (stepDist (1/3) exRFcyc [0, 2] exRFsus) (agrees [0, 1, 2, 3] fun v => v == 1 || v == 3) = 25/81 := by
  decide +kernel
example : Dist.mass (stepDist (1/3) exRFcyc [0, 2] exRFsus) (agrees [0, 1, 2, 3] fun _ => false) = 16/81 := by
  decide +kernel
/- the right-hand side of `joint_law_infNbrs` on the same instance -/
example : prodRat (([0, 1, 2, 3].filter exRFsus).map fun v =>
      if v == 1 then Discrete.infProb (1/3) (Discrete.infNbrs [0, 1, 2, 3] exRFcyc [0, 2] v)
      else (1 - 1/3) ^ Discrete.infNbrs [0, 1, 2, 3] exRFcyc [0, 2] v) = 20/81 := by decide +kernel
example : Dist.mass (stepDist (1/3) exRFcyc [0, 2] exRFsus) (agrees [0, 1, 2, 3] fun v => v == 1) = 20/81 := by
  rw [joint_law_infNbrs (1/3) exRFcyc [0, 2] exRFsus false [0, 1, 2, 3] (by decide) (fun v => v == 1)
    (by decide) (by decide)]
  decide +kernel
/- an infectious node in the target: impossible -/
example : Dist.mass (stepDist (1/3) exRFcyc [0, 2] exRFsus) (agrees [0, 1, 2, 3] fun v => v == 0) = 0 :=
  impossible _ _ _ _ _ _ (by decide) _ 0 (by decide) rfl rfl
example : Dist.mass (stepDist (1/3) exRFcyc [0, 2] exRFsus) (fun _ => true) = 1 := total_mass _ _ _ _ _
example : Dist.mass (stepDist (1/3) exRFcyc [0, 2] exRFsus) (fun new => new.contains 3) = 5/9 := by
  rw [marginal]; decide +kernel
/- `basic_discrete_SIS` on the 4-cycle -/
example : Dist.mass (stepDistSIS (1/3) exRFcyc [0, 2]) (agrees [0, 1, 2, 3] fun v => v == 3) = 20/81 := by
  decide +kernel
/- the algebra does not need 0 ≤ p ≤ 1 -/
example : Dist.mass (stepDist 2 exRFcyc [0, 2] exRFsus) (agrees [0, 1, 2, 3] fun v => v == 1) = 0 := by
  decide +kernel

end Examples
