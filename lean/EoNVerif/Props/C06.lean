import EoNVerif.Props.C08
import EoNVerif.Model.InitCond
import EoNVerif.Props.C06b
/-!
C06 — the conservation / sign-structure theorems about the right-hand-side models are stated and proved in
`Props/C08.lean` (same file as the limit identities, one development about `Model/ODE.lean`):
`ODE.sisHomMF_conserve`, `ODE.sisHetMF_conserve`, `ODE.sisSuperCompactPW_pairs`, `ODE.linear_invariant_of_step`,
`ODE.sirHomMF_signs`, `ODE.sirHomPW_signs`, `ODE.sirCompactPW_signs`, `ODE.sirHetMF_signs`, `ODE.sirIndividual_signs`.
The initial-condition model is `Model/InitCond.lean`.
-/
