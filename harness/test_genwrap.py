#!/usr/bin/env python3
"""stand-alone run of the generated-wrapper stream (harness/genwrap.py) with the harness's own context class"""
import sys, time, os
sys.path.insert(0, os.path.dirname(os.path.abspath(__file__)))
import common, genwrap


def main():
    tier = "thorough" if "--thorough" in sys.argv else "quick"
    seed = int(os.environ.get("VERIF_SEED", "1"))
    ctx = common.Ctx("C06", tier, seed)
    t0 = time.time()
    genwrap.run_stream(ctx)
    dt = time.time() - t0
    print("genwrap: %d cases (%d non-trivial, %d distinct), %d disagreements, %.1f s" % (ctx.evaluations, sum(1 for _ in ctx.nontrivial), len(ctx.nontrivial),
                                                                                       len(ctx.disagreements), dt))
    for k in sorted(ctx.hist):
        print("   %-45s %d" % (k, ctx.hist[k]))
    seen = {}
    for what, replay in ctx.disagreements:
        seen.setdefault((replay.get("entry"), what.split(":")[1] if ":" in what else what), []).append((what, replay))
    for (entry, _), l in sorted(seen.items(), key=lambda kv: str(kv[0])):
        what, replay = l[0]
        print("DISAGREEMENT x%d  %s  %s" % (len(l), entry, what))
        print("    ", {k: replay.get(k) for k in ("style", "nodes", "edges", "args", "kwargs", "errors", "log") if k in replay})
    return 1 if ctx.disagreements else 0


if __name__ == "__main__":
    sys.exit(main())
