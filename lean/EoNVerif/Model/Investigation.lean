import EoNVerif.Spec.Predicates
import EoNVerif.Model.Gillespie
/-!
Model of the full-data bookkeeping: from an event log to node histories (`_transform_to_node_history_`,
simulation.py 363–397, and the in-place history updates of the generic simulators), to the arrays the simulators
return, and to `Simulation_Investigation.summary / node_status` (whose specifications are `Pred.summarySpec`,
`Pred.statusAt`).

An event log is a list `(time, node, new status)` in the order the events happened; `init` is the status of every
node at `tmin`.
-/
namespace Invest

abbrev Log := List (Rat × Node × String)

/-- history of node `v`: the initial entry followed by its own events, in log order -/
def histOf (tmin : Rat) (init : Node → String) (log : Log) (v : Node) : Pred.Hist :=
  (tmin, init v) :: (log.filter fun e => e.2.1 == v).map fun e => (e.1, e.2.2)

def histories (tmin : Rat) (init : Node → String) (log : Log) (nodes : List Node) : List Pred.Hist :=
  nodes.map (histOf tmin init log)

/-- status of node `v` after the first `k` events of the log -/
def statusAfter (init : Node → String) (log : Log) (k : Nat) (v : Node) : String :=
  ((log.take k).filter fun e => e.2.1 == v).getLast?.map (·.2.2) |>.getD (init v)

/-- the arrays a simulator returns: one row for the initial state and one per event -/
def arraysOf (tmin : Rat) (init : Node → String) (log : Log) (nodes : List Node) (statuses : List String) : Traj :=
  { times := tmin :: log.map (·.1),
    cols := statuses.map fun s => (List.range (log.length + 1)).map fun k =>
      ((nodes.filter fun v => statusAfter init log k v == s).length : Int) }

/-- a log is valid when its times are nondecreasing, not before `tmin`, and every event concerns a listed node -/
def ValidLog (tmin : Rat) (nodes : List Node) (log : Log) : Prop :=
  (tmin :: log.map (·.1)).Pairwise (· ≤ ·) ∧ ∀ e ∈ log, e.2.1 ∈ nodes

/-! ### Gillespie SIR / SIS: the event log of the model as a status-change log -/

def stName (s : St) : String := match s with | .S => "S" | .I => "I" | .R => "R"

/-- the status-change log recorded by a Gillespie run (model state `s`, `log` kept reversed there) -/
def gLog (P : GParams) (s : GState) : Log :=
  s.log.reverse.map fun e =>
    match e.2 with
    | .recover u => (e.1, u, if P.sis then "S" else "R")
    | .transmit _ v => (e.1, v, "I")

/-- the transmission list recorded by a Gillespie run with full data: initial entries then one per transmission -/
def gTrans (tmin : Rat) (infs : List Node) (s : GState) : List Pred.Trans :=
  (infs.map fun u => ({ t := tmin, src := none, tgt := u } : Pred.Trans)) ++
  s.log.reverse.filterMap fun e =>
    match e.2 with
    | .recover _ => none
    | .transmit u v => some { t := e.1, src := some u, tgt := v }

/-- the trajectory arrays of a Gillespie run -/
def gTraj (P : GParams) (s : GState) : Traj :=
  { times := s.times.reverse, cols := if P.sis then [s.S.reverse, s.I.reverse] else [s.S.reverse, s.I.reverse, s.R.reverse] }

end Invest
