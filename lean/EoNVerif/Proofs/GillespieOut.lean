import EoNVerif.Model.Investigation
import EoNVerif.Proofs.Gillespie
import Mathlib.Data.List.Perm.Subperm
/-!
Helper lemmas for C04 / C05 (`Gillespie_SIR` / `Gillespie_SIS` outputs): shapes of the event applications, a
generic induction principle for the main loop, the count invariant, and the trajectory invariant behind
`Pred.wellFormed`.
-/
namespace Gillespie
open Pred Invest

/-- every `expovariate` value on the tape is non-negative (documented behaviour of the primitive) -/
def TapeNonneg (ts : TapeSt) : Prop := ∀ d ∈ ts.tape, ∀ x, d = Draw.expo x → 0 ≤ x

/-- initial status names for the history model -/
def initName (infs recs : List Node) (v : Node) : String := stName (initStatus infs recs v)

/-! ### shapes of the event applications -/

theorem applyRec_shape (P : GParams) (s s' : GState) (u : Node) (t : Rat) (h : applyRec P s u t = some s') :
    s'.status = fset s.status u (if P.sis then St.S else St.R) ∧ s'.times = t :: s.times ∧
    s'.S = (if P.sis then hd s.S + 1 else hd s.S) :: s.S ∧ s'.I = (hd s.I - 1) :: s.I ∧
    s'.R = (if P.sis then s.R else (hd s.R + 1) :: s.R) ∧ s'.log = (t, GEvent.recover u) :: s.log := by
  unfold applyRec at h
  cases h1 : s.inf.remove u with
  | none => simp [h1] at h
  | some inf =>
    cases h2 : (if P.sis then recLoopSIS P (fset s.status u (if P.sis then St.S else St.R)) u s.links (P.nbrs u)
               else recLoopSIR (fset s.status u (if P.sis then St.S else St.R)) u s.links (P.nbrs u)) with
    | none => simp [h1, h2] at h
    | some links =>
      simp only [h1, h2, Option.bind_eq_bind, Option.bind_some, Option.pure_def, Option.some.injEq] at h
      subst h
      exact ⟨rfl, rfl, rfl, rfl, rfl, rfl⟩

theorem applyTrans_shape (P : GParams) (s s' : GState) (u v : Node) (t : Rat)
    (h : applyTrans P s u v t = some s') :
    s'.status = fset s.status v St.I ∧ s'.times = t :: s.times ∧
    s'.S = (hd s.S - 1) :: s.S ∧ s'.I = (hd s.I + 1) :: s.I ∧
    s'.R = (if P.sis then s.R else hd s.R :: s.R) ∧ s'.log = (t, GEvent.transmit u v) :: s.log := by
  unfold applyTrans at h
  cases h1 : s.inf.update v (nodeW P v) with
  | none => simp [h1] at h
  | some inf =>
    cases h2 : transLoop P (fset s.status v St.I) v s.links (P.nbrs v) with
    | none => simp [h1, h2] at h
    | some links =>
      simp only [h1, h2, Option.bind_eq_bind, Option.bind_some, Option.pure_def, Option.some.injEq] at h
      subst h
      exact ⟨rfl, rfl, rfl, rfl, rfl, rfl⟩

theorem init_shape (P : GParams) (infs recs : List Node) (tmin : Rat) (s0 : GState)
    (h0 : init P infs recs tmin = some s0) :
    s0.status = initStatus infs recs ∧ s0.times = [tmin] ∧
    s0.S = [(P.nodes.length : Int) - (infs.length : Int) - (recs.length : Int)] ∧
    s0.I = [(infs.length : Int)] ∧ s0.R = [(recs.length : Int)] ∧ s0.log = [] := by
  unfold init at h0
  dsimp only at h0
  cases hl : initLoop P (initStatus infs recs) infs (LD.empty P.nw.isSome) (LD.empty P.ew.isSome) with
  | none => rw [hl] at h0; cases h0
  | some p =>
    obtain ⟨inf, links⟩ := p
    rw [hl] at h0
    cases h0
    exact ⟨rfl, rfl, rfl, rfl, rfl, rfl⟩

/-- time of the latest row -/
def lastT (s : GState) : Rat := s.times.headD 0

theorem applyEvent_lastT (P : GParams) (s s' : GState) (e : GEvent) (t : Rat)
    (h : applyEvent P s e t = some s') : lastT s' = t := by
  cases e with
  | recover u => obtain ⟨-, h2, -⟩ := applyRec_shape P s s' u t h; simp [lastT, h2]
  | transmit u v => obtain ⟨-, h2, -⟩ := applyTrans_shape P s s' u v t h; simp [lastT, h2]

/-! ### the tape only shrinks -/

theorem popUnif_tape (ts ts' : TapeSt) (r : Rat) (h : TM.popUnif ts = .ok (r, ts')) :
    ∀ d ∈ ts'.tape, d ∈ ts.tape := by
  unfold TM.popUnif at h
  split at h
  · rename_i r' t heq
    cases h
    intro d hd; rw [heq]; exact List.mem_cons_of_mem _ hd
  · cases h
  · cases h

theorem popChoice_tape (seq : List (List Nat)) (ts ts' : TapeSt) (i : Nat)
    (h : TM.popChoice seq ts = .ok (i, ts')) : ∀ d ∈ ts'.tape, d ∈ ts.tape := by
  unfold TM.popChoice at h
  split at h
  · cases h
  · split at h
    · rename_i i' t heq
      split at h
      · cases h
        intro d hd; rw [heq]; exact List.mem_cons_of_mem _ hd
      · cases h
    · cases h
    · cases h

theorem popExpo_tape (rate : Rat) (ts ts' : TapeSt) (x : Rat) (h : TM.popExpo rate ts = .ok (x, ts')) :
    Draw.expo x ∈ ts.tape ∧ ∀ d ∈ ts'.tape, d ∈ ts.tape := by
  unfold TM.popExpo at h
  split at h
  · cases h
  · split at h
    · rename_i d t heq
      cases h
      rw [heq]
      exact ⟨List.mem_cons_self, fun d hd => List.mem_cons_of_mem _ hd⟩
    · cases h
    · cases h

theorem chooseTM_tape {α : Type} [DecidableEq α] (enc : α → List Nat) (ld : LD α) (fuel : Nat)
    (ts ts' : TapeSt) (c : α) (hc : chooseTM enc ld fuel ts = .ok (c, ts')) :
    ∀ d ∈ ts'.tape, d ∈ ts.tape := by
  induction fuel generalizing ts with
  | zero => exact absurd hc (TM.fail_ne_ok _ _ _)
  | succ fuel ih =>
    rw [chooseTM] at hc
    obtain ⟨i, ts1, h1, h2⟩ := TM.bind_ok _ _ _ _ _ hc
    have hsub1 := popChoice_tape _ _ _ _ h1
    cases hi : ld.items[i]? with
    | none => rw [hi] at h2; exact absurd h2 (TM.fail_ne_ok _ _ _)
    | some c' =>
      rw [hi] at h2
      dsimp only at h2
      split at h2
      · obtain ⟨-, rfl⟩ := TM.pure_ok _ _ _ _ h2; exact hsub1
      · split at h2
        · exact absurd h2 (TM.fail_ne_ok _ _ _)
        · obtain ⟨r, ts2, h3, h4⟩ := TM.bind_ok _ _ _ _ _ h2
          have hsub2 := popUnif_tape _ _ _ h3
          split at h4
          · obtain ⟨-, rfl⟩ := TM.pure_ok _ _ _ _ h4
            exact fun d hd => hsub1 d (hsub2 d hd)
          · exact fun d hd => hsub1 d (hsub2 d (ih ts2 h4 d hd))

theorem pick_tape (P : GParams) (s : GState) (fuel : Nat) (ts ts' : TapeSt) (e : GEvent)
    (hp : pick P s fuel ts = .ok (e, ts')) : ∀ d ∈ ts'.tape, d ∈ ts.tape := by
  unfold pick at hp
  obtain ⟨r, ts1, h1, h2⟩ := TM.bind_ok _ _ _ _ _ hp
  have hsub1 := popUnif_tape _ _ _ h1
  split at h2
  · obtain ⟨u, ts2, h3, h4⟩ := TM.bind_ok _ _ _ _ _ h2
    obtain ⟨-, rfl⟩ := TM.pure_ok _ _ _ _ h4
    exact fun d hd => hsub1 d (chooseTM_tape _ _ _ _ _ _ h3 d hd)
  · obtain ⟨⟨u, v⟩, ts2, h3, h4⟩ := TM.bind_ok _ _ _ _ _ h2
    obtain ⟨-, rfl⟩ := TM.pure_ok _ _ _ _ h4
    exact fun d hd => hsub1 d (chooseTM_tape _ _ _ _ _ _ h3 d hd)

theorem TapeNonneg.mono {ts ts' : TapeSt} (h : TapeNonneg ts) (hsub : ∀ d ∈ ts'.tape, d ∈ ts.tape) :
    TapeNonneg ts' := fun d hd x hx => h d (hsub d hd) x hx

/-! ### induction principle for the main loop

`c` switches the time bookkeeping on: with `c` (and a non-negative tape) the step hypothesis may use that the new
event time is at least the time of the latest row. -/

theorem loop_ind (P : GParams) (h : WF P) (tmax : ERat) (c : Prop) (Q : GState → Prop)
    (hstep : ∀ s e tv s', Inv P s → Q s → Enabled s e → (c → lastT s ≤ tv) → ERat.lt (some tv) tmax = true →
      applyEvent P s e tv = some s' → Q s')
    (cfuel fuel : Nat) (s s' : GState) (t : ERat) (ts ts' : TapeSt) (hs : Inv P s) (hQ : Q s)
    (hts : c → TapeNonneg ts) (ht : c → ∀ tv, t = some tv → lastT s ≤ tv)
    (hl : loop P tmax cfuel fuel s t ts = .ok (s', ts')) : Q s' := by
  induction fuel generalizing s t ts with
  | zero => rw [loop] at hl; exact absurd hl (TM.fail_ne_ok _ _ _)
  | succ fuel ih =>
    cases t with
    | none =>
      rw [loop] at hl
      obtain ⟨rfl, -⟩ := TM.pure_ok _ _ _ _ hl; exact hQ
    | some tv =>
      rw [loop] at hl
      split at hl
      · obtain ⟨rfl, -⟩ := TM.pure_ok _ _ _ _ hl; exact hQ
      · rename_i hcond
        have hlt : ERat.lt (some tv) tmax = true := by
          by_contra hc
          exact hcond (Or.inr (by simp [hc]))
        obtain ⟨e, ts1, h1, h2⟩ := TM.bind_ok _ _ _ _ _ hl
        have hen := pick_enabled' P s cfuel ts ts1 e h1
        have hsub1 := pick_tape P s cfuel ts ts1 e h1
        obtain ⟨s1, hs1, hinv1⟩ := applyEvent_inv P h s hs e tv hen
        have hQ1 : Q s1 := hstep s e tv s1 hs hQ hen (fun hc => ht hc tv rfl) hlt hs1
        have hlast : lastT s1 = tv := applyEvent_lastT P s s1 e tv hs1
        rw [hs1] at h2
        dsimp only at h2
        split at h2
        · obtain ⟨d, ts2, h3, h4⟩ := TM.bind_ok _ _ _ _ _ h2
          obtain ⟨hd1, hsub2⟩ := popExpo_tape _ _ _ _ h3
          refine ih s1 _ ts2 hinv1 hQ1 (fun hc => ((hts hc).mono hsub1).mono hsub2) ?_ h4
          intro hc tv' htv'
          obtain rfl := Option.some.inj htv'
          have hd0 : 0 ≤ d := (hts hc).mono hsub1 _ hd1 d rfl
          rw [hlast]; linarith
        · exact ih s1 _ ts1 hinv1 hQ1 (fun hc => (hts hc).mono hsub1) (fun _ tv' htv' => by cases htv') h2

theorem run_ind (P : GParams) (h : WF P) (infs recs : List Node) (tmin : Rat) (tmax : ERat) (c : Prop)
    (Q : GState → Prop)
    (hi : infs.Nodup) (him : ∀ u ∈ infs, u ∈ P.nodes) (hdis : ∀ u ∈ infs, u ∉ recs)
    (hsis : P.sis = true → recs = [])
    (hinit : ∀ s0, init P infs recs tmin = some s0 → Inv P s0 → s0.status = initStatus infs recs → Q s0)
    (hstep : ∀ s e tv s', Inv P s → Q s → Enabled s e → (c → lastT s ≤ tv) → ERat.lt (some tv) tmax = true →
      applyEvent P s e tv = some s' → Q s')
    (fuel cfuel : Nat) (ts ts' : TapeSt) (hts : c → TapeNonneg ts) (s' : GState)
    (hrun : run P infs recs tmin tmax fuel cfuel ts = .ok (s', ts')) : Q s' := by
  obtain ⟨s0, h0, hinv0, hst0⟩ := init_inv' P h infs recs tmin hi him hdis hsis
  have hQ0 := hinit s0 h0 hinv0 hst0
  have hl0 : lastT s0 = tmin := by
    obtain ⟨-, h2, -⟩ := init_shape P infs recs tmin s0 h0
    simp [lastT, h2]
  unfold run at hrun
  rw [h0] at hrun
  dsimp only at hrun
  split at hrun
  · obtain ⟨d, ts1, h1, h2⟩ := TM.bind_ok _ _ _ _ _ hrun
    obtain ⟨hd1, hsub⟩ := popExpo_tape _ _ _ _ h1
    refine loop_ind P h tmax c Q hstep cfuel fuel s0 s' _ ts1 ts' hinv0 hQ0 (fun hc => (hts hc).mono hsub) ?_ h2
    intro hc tv' htv'
    obtain rfl := Option.some.inj htv'
    have hd0 : 0 ≤ d := hts hc _ hd1 d rfl
    rw [hl0]; linarith
  · exact loop_ind P h tmax c Q hstep cfuel fuel s0 s' _ ts ts' hinv0 hQ0 hts
      (fun _ tv' htv' => by cases htv') hrun

/-! ### the loop's other exit: total rate 0 -/

theorem sumRat_map_pos {γ : Type} (l : List γ) (f : γ → Rat) (hne : l ≠ []) (h : ∀ c ∈ l, 0 < f c) :
    0 < sumRat (l.map f) := by
  induction l with
  | nil => exact absurd rfl hne
  | cons a t ih =>
    rw [List.map_cons, sumRat_cons]
    have ha := h a List.mem_cons_self
    have ht : 0 ≤ sumRat (t.map f) :=
      sumRat_map_nonneg _ _ fun c hc => le_of_lt (h c (List.mem_cons_of_mem _ hc))
    linarith

theorem totalWeight_nonneg {α : Type} [DecidableEq α] (s : LD α) (h : LD.Inv s) : 0 ≤ s.totalWeight := by
  unfold LD.totalWeight
  cases hwt : s.weighted with
  | true => simp only [if_true]; rw [h.total hwt]; exact weightSum_nonneg _ h hwt
  | false => simp

theorem ends_without_infecteds' (P : GParams) (h : WF P) (s : GState) (hs : Inv P s)
    (hg : 0 < P.gamma) (hw : ∀ f, P.nw = some f → ∀ u, 0 < f u) (h0 : totalRate P s = 0) :
    s.inf.items = [] := by
  have hlw := totalWeight_nonneg s.links hs.linkInv
  have hiw := totalWeight_nonneg s.inf hs.infInv
  unfold totalRate recRate transRate at h0
  have h1 : P.gamma * s.inf.totalWeight = 0 := by
    have a1 := mul_nonneg h.tau_nonneg hlw
    have a2 := mul_nonneg (le_of_lt hg) hiw
    linarith
  have h2 : s.inf.totalWeight = 0 := by
    rcases mul_eq_zero.1 h1 with h3 | h3
    · exact absurd h3 (ne_of_gt hg)
    · exact h3
  by_contra hne
  have hpos : 0 < s.inf.totalWeight := by
    unfold LD.totalWeight
    cases hf : P.nw with
    | none =>
      have hwt : s.inf.weighted = false := by rw [hs.infW, hf]; rfl
      simp only [hwt, Bool.false_eq_true, if_false]
      have : 0 < s.inf.items.length := List.length_pos_iff.2 hne
      exact_mod_cast this
    | some f =>
      have hwt : s.inf.weighted = true := by rw [hs.infW, hf]; rfl
      simp only [hwt, if_true]
      rw [hs.infInv.total hwt]
      unfold LD.weightSum
      apply sumRat_map_pos _ _ hne
      intro c hc
      rw [hs.inf_w f hf c hc]
      exact hw f hf c
  linarith

/-! ### status counts -/

/-- number of listed nodes with status `a` -/
def cnt (P : GParams) (st : Node → St) (a : St) : Int := ((P.nodes.filter fun u => st u = a).length : Int)

theorem cnt_nonneg (P : GParams) (st : Node → St) (a : St) : 0 ≤ cnt P st a := by
  unfold cnt; exact Int.natCast_nonneg _

theorem filter_fset_length (l : List Node) (hl : l.Nodup) (f : Node → St) (u : Node) (x a : St) :
    (((l.filter fun v => fset f u x v = a).length : Nat) : Int) =
      ((l.filter fun v => f v = a).length : Int) +
        (if u ∈ l then (if x = a then 1 else 0) - (if f u = a then 1 else 0) else 0) := by
  induction l with
  | nil => simp
  | cons y t ih =>
    rw [List.nodup_cons] at hl
    obtain ⟨hy, ht⟩ := hl
    have ih' := ih ht
    by_cases hyu : y = u
    · subst hyu
      have hnot : y ∉ t := hy
      simp only [hnot, if_false] at ih'
      simp only [List.filter_cons, fset, List.mem_cons, true_or, if_true]
      by_cases h1 : x = a <;> by_cases h2 : f y = a <;>
        simp [fset, h1, h2] at ih' ⊢ <;> omega
    · have hmem : (u ∈ y :: t) ↔ u ∈ t := by
        simp only [List.mem_cons]
        exact ⟨fun h => h.elim (fun h => absurd h.symm hyu) id, Or.inr⟩
      simp only [hmem]
      simp only [List.filter_cons]
      have hfy : fset f u x y = f y := by simp [fset, hyu]
      rw [hfy]
      by_cases h2 : f y = a <;> simp [h2] <;> omega

theorem cnt_fset (P : GParams) (h : WF P) (st : Node → St) (u : Node) (hu : u ∈ P.nodes) (x a : St) :
    cnt P (fset st u x) a = cnt P st a + (if x = a then 1 else 0) - (if st u = a then 1 else 0) := by
  unfold cnt
  rw [filter_fset_length P.nodes h.nodup st u x a]
  simp only [hu, if_true]
  omega

theorem filter_three (l : List Node) (st : Node → St) :
    ((l.filter fun u => st u = St.S).length : Int) + (l.filter fun u => st u = St.I).length +
      (l.filter fun u => st u = St.R).length = l.length := by
  induction l with
  | nil => simp
  | cons y t ih =>
    simp only [List.filter_cons, List.length_cons]
    cases hy : st y <;> simp <;> omega

theorem cnt_sum (P : GParams) (st : Node → St) :
    cnt P st St.S + cnt P st St.I + cnt P st St.R = P.nodes.length := filter_three P.nodes st

theorem cnt_R_sis (P : GParams) (st : Node → St) (hno : ∀ u, st u ≠ St.R) : cnt P st St.R = 0 := by
  unfold cnt
  have : (P.nodes.filter fun u => st u = St.R) = [] := by
    rw [List.filter_eq_nil_iff]
    intro a _
    simp [hno a]
  rw [this]; rfl

theorem filter_length_eq (l m : List Node) (hl : l.Nodup) (hm : m.Nodup) (p : Node → Bool)
    (hiff : ∀ a, (a ∈ l ∧ p a = true) ↔ a ∈ m) : (l.filter p).length = m.length := by
  apply List.Perm.length_eq
  rw [List.perm_ext_iff_of_nodup (hl.filter _) hm]
  intro a
  rw [List.mem_filter]; exact hiff a

theorem cnt_init (P : GParams) (h : WF P) (infs recs : List Node)
    (hi : infs.Nodup) (him : ∀ u ∈ infs, u ∈ P.nodes) (hrn : recs.Nodup) (hr : ∀ u ∈ recs, u ∈ P.nodes)
    (hdis : ∀ u ∈ infs, u ∉ recs) :
    cnt P (initStatus infs recs) St.I = infs.length ∧ cnt P (initStatus infs recs) St.R = recs.length := by
  unfold cnt
  constructor
  · congr 1
    apply filter_length_eq _ _ h.nodup hi
    intro a
    unfold initStatus
    by_cases h1 : a ∈ recs <;> by_cases h2 : a ∈ infs <;> simp [h1, h2]
    · exact hdis a h2 h1
    · exact him a h2
  · congr 1
    apply filter_length_eq _ _ h.nodup hrn
    intro a
    unfold initStatus
    by_cases h1 : a ∈ recs <;> by_cases h2 : a ∈ infs <;> simp [h1, h2]
    · exact hr a h1
    · exact hr a h1

/-- the heads of the count columns are the status counts -/
structure Counts (P : GParams) (s : GState) : Prop where
  cS : hd s.S = cnt P s.status St.S
  cI : hd s.I = cnt P s.status St.I
  cR : P.sis = false → hd s.R = cnt P s.status St.R

theorem counts_init (P : GParams) (h : WF P) (infs recs : List Node) (tmin : Rat)
    (hi : infs.Nodup) (him : ∀ u ∈ infs, u ∈ P.nodes) (hrn : recs.Nodup) (hr : ∀ u ∈ recs, u ∈ P.nodes)
    (hdis : ∀ u ∈ infs, u ∉ recs) (s0 : GState) (h0 : init P infs recs tmin = some s0) : Counts P s0 := by
  obtain ⟨hst, -, hS, hI, hR, -⟩ := init_shape P infs recs tmin s0 h0
  obtain ⟨c1, c2⟩ := cnt_init P h infs recs hi him hrn hr hdis
  have c3 := cnt_sum P (initStatus infs recs)
  refine ⟨?_, ?_, fun _ => ?_⟩
  · rw [hS, hst]; simp only [hd, List.headD_cons]; omega
  · rw [hI, hst]; simp only [hd, List.headD_cons]; omega
  · rw [hR, hst]; simp only [hd, List.headD_cons]; omega

theorem counts_step (P : GParams) (h : WF P) (s s' : GState) (e : GEvent) (t : Rat) (hs : Inv P s)
    (hc : Counts P s) (hen : Enabled s e) (ha : applyEvent P s e t = some s') : Counts P s' := by
  cases e with
  | recover u =>
    obtain ⟨hst, -, hS, hI, hR, -⟩ := applyRec_shape P s s' u t ha
    obtain ⟨hun, hsu⟩ := (hs.inf_items u).1 hen
    cases hsis : P.sis with
    | true =>
      simp only [hsis, if_true] at hst hS hI hR
      refine ⟨?_, ?_, fun hc' => by rw [hsis] at hc'; cases hc'⟩
      · rw [hS, hst, cnt_fset P h _ u hun, hsu]; simp [hd, ← hc.cS]
      · rw [hI, hst, cnt_fset P h _ u hun, hsu]; simp [hd, ← hc.cI]
    | false =>
      simp only [hsis, Bool.false_eq_true, if_false] at hst hS hI hR
      refine ⟨?_, ?_, fun _ => ?_⟩
      · rw [hS, hst, cnt_fset P h _ u hun, hsu]; simp [hd, ← hc.cS]
      · rw [hI, hst, cnt_fset P h _ u hun, hsu]; simp [hd, ← hc.cI]
      · rw [hR, hst, cnt_fset P h _ u hun, hsu]; simp [hd, ← hc.cR hsis]
  | transmit u v =>
    obtain ⟨hst, -, hS, hI, hR, -⟩ := applyTrans_shape P s s' u v t ha
    obtain ⟨hu, hsu, hvu, hsv⟩ := (hs.link_items u v).1 hen
    have hvn : v ∈ P.nodes := h.nbr_mem u hu v hvu
    refine ⟨?_, ?_, fun hsis => ?_⟩
    · rw [hS, hst, cnt_fset P h _ v hvn, hsv]; simp [hd, ← hc.cS]
    · rw [hI, hst, cnt_fset P h _ v hvn, hsv]; simp [hd, ← hc.cI]
    · simp only [hsis, Bool.false_eq_true, if_false] at hR
      rw [hR, hst, cnt_fset P h _ v hvn, hsv]; simp [hd, ← hc.cR hsis]

theorem counts_run (P : GParams) (h : WF P) (infs recs : List Node) (tmin : Rat) (tmax : ERat) (fuel cfuel : Nat)
    (hi : infs.Nodup) (him : ∀ u ∈ infs, u ∈ P.nodes) (hrn : recs.Nodup) (hr : ∀ u ∈ recs, u ∈ P.nodes)
    (hdis : ∀ u ∈ infs, u ∉ recs) (hsis : P.sis = true → recs = []) (ts ts' : TapeSt) (s' : GState)
    (hrun : run P infs recs tmin tmax fuel cfuel ts = .ok (s', ts')) : Counts P s' := by
  refine run_ind P h infs recs tmin tmax False (Counts P) hi him hdis hsis ?_ ?_ fuel cfuel ts ts'
    (fun hc => hc.elim) s' hrun
  · intro s0 h0 _ _
    exact counts_init P h infs recs tmin hi him hrn hr hdis s0 h0
  · intro s e tv s1 hs hQ hen _ _ ha
    exact counts_step P h s s1 e tv hs hQ hen ha

/-! ### initial condition -/

theorem ic_gillespie' (P : GParams) (infs recs : List Node) (tmin : Rat)
    (hsis : P.sis = true → recs = []) (s0 : GState) (h0 : init P infs recs tmin = some s0) :
    initialOK P.nodes.length infs recs (Pred.row (gTraj P s0).cols 0) none (!P.sis) = true ∧
    (∀ v, s0.status v = initStatus infs recs v) := by
  obtain ⟨hst, -, hS, hI, hR, -⟩ := init_shape P infs recs tmin s0 h0
  refine ⟨?_, fun v => by rw [hst]⟩
  cases hs : P.sis with
  | true =>
    have hr := hsis hs
    subst hr
    simp [initialOK, gTraj, Pred.row, hs, hS, hI]
  | false =>
    simp [initialOK, gTraj, Pred.row, hs, hS, hI, hR]

/-! ### initially recovered nodes are never infected (SIR) -/

theorem recovered_never_infected' (P : GParams) (h : WF P) (infs recs : List Node) (tmin : Rat) (tmax : ERat)
    (fuel cfuel : Nat) (hi : infs.Nodup) (him : ∀ u ∈ infs, u ∈ P.nodes)
    (hdis : ∀ u ∈ infs, u ∉ recs) (hsis : P.sis = false) (ts ts' : TapeSt) (s' : GState)
    (hrun : run P infs recs tmin tmax fuel cfuel ts = .ok (s', ts')) :
    ∀ e ∈ s'.log, ∀ u v, e.2 = GEvent.transmit u v → v ∉ recs := by
  have key : (∀ v ∈ recs, s'.status v = St.R) ∧ ∀ e ∈ s'.log, ∀ u v, e.2 = GEvent.transmit u v → v ∉ recs := by
    refine run_ind P h infs recs tmin tmax False
      (fun s => (∀ v ∈ recs, s.status v = St.R) ∧ ∀ e ∈ s.log, ∀ u v, e.2 = GEvent.transmit u v → v ∉ recs)
      hi him hdis (fun hc => by rw [hsis] at hc; cases hc) ?_ ?_ fuel cfuel ts ts' (fun hc => hc.elim) s' hrun
    · intro s0 h0 _ hst
      obtain ⟨-, -, -, -, -, hlog⟩ := init_shape P infs recs tmin s0 h0
      refine ⟨?_, ?_⟩
      · intro v hv; rw [hst]; simp [initStatus, hv]
      · intro e he; rw [hlog] at he; cases he
    · intro s e tv s1 hs hQ hen _ _ ha
      obtain ⟨hQ1, hQ2⟩ := hQ
      cases e with
      | recover u =>
        obtain ⟨hst, -, -, -, -, hlog⟩ := applyRec_shape P s s1 u tv ha
        refine ⟨?_, ?_⟩
        · intro v hv
          rw [hst]
          by_cases hvu : v = u
          · subst hvu; simp [fset, hsis]
          · rw [fset_ne _ _ _ _ hvu]; exact hQ1 v hv
        · intro e he u' v' hev
          rw [hlog] at he
          rcases List.mem_cons.1 he with he | he
          · subst he; cases hev
          · exact hQ2 e he u' v' hev
      | transmit u v =>
        obtain ⟨hst, -, -, -, -, hlog⟩ := applyTrans_shape P s s1 u v tv ha
        obtain ⟨-, -, -, hsv⟩ := (hs.link_items u v).1 hen
        have hvr : v ∉ recs := fun hc => by
          have := hQ1 v hc
          rw [hsv] at this; cases this
        refine ⟨?_, ?_⟩
        · intro w hw
          have hwv : w ≠ v := fun hc => hvr (hc ▸ hw)
          rw [hst, fset_ne _ _ _ _ hwv]; exact hQ1 w hw
        · intro e he u' v' hev
          rw [hlog] at he
          rcases List.mem_cons.1 he with he | he
          · subst he
            cases hev
            exact hvr
          · exact hQ2 e he u' v' hev
  exact key.2

/-! ### the trajectory invariant behind `Pred.wellFormed` -/

theorem getD_reverse {α : Type} (l : List α) (d : α) (i : Nat) (h : i < l.length) :
    l.reverse.getD i d = l.getD (l.length - 1 - i) d := by
  simp only [List.getD_eq_getElem?_getD]
  rw [List.getElem?_reverse h]

theorem nondecreasing_of_idx (l : List Rat)
    (h : ∀ k, k + 1 < l.length → l.getD k 0 ≤ l.getD (k + 1) 0) : nondecreasing l = true := by
  induction l with
  | nil => rfl
  | cons a t ih =>
    cases t with
    | nil => rfl
    | cons b t' =>
      simp only [nondecreasing, Bool.and_eq_true, decide_eq_true_eq]
      refine ⟨by simpa using h 0 (by simp), ih ?_⟩
      intro k hk
      have := h (k + 1) (by simpa using hk)
      simpa using this

theorem nonincrInt_of_idx (l : List Int)
    (h : ∀ k, k + 1 < l.length → l.getD (k + 1) 0 ≤ l.getD k 0) : nonincrInt l = true := by
  induction l with
  | nil => rfl
  | cons a t ih =>
    cases t with
    | nil => rfl
    | cons b t' =>
      simp only [nonincrInt, Bool.and_eq_true, decide_eq_true_eq]
      refine ⟨by simpa using h 0 (by simp), ih ?_⟩
      intro k hk
      have := h (k + 1) (by simpa using hk)
      simpa using this

theorem nondecrInt_of_idx (l : List Int)
    (h : ∀ k, k + 1 < l.length → l.getD k 0 ≤ l.getD (k + 1) 0) : nondecrInt l = true := by
  induction l with
  | nil => rfl
  | cons a t ih =>
    cases t with
    | nil => rfl
    | cons b t' =>
      simp only [nondecrInt, Bool.and_eq_true, decide_eq_true_eq]
      refine ⟨by simpa using h 0 (by simp), ih ?_⟩
      intro k hk
      have := h (k + 1) (by simpa using hk)
      simpa using this

theorem allIdx_iff (n : Nat) (p : Nat → Bool) : allIdx n p = true ↔ ∀ i < n, p i = true := by
  simp [allIdx]

theorem hd_eq_getD (l : List Int) : hd l = l.getD 0 0 := by
  cases l <;> rfl

theorem getD_mem_or {α : Type} (l : List α) (d : α) (k : Nat) (hk : k < l.length) : l.getD k d ∈ l := by
  simp [List.getD_eq_getElem?_getD, List.getElem?_eq_getElem hk]

/-- invariant of the returned arrays (lists are kept reversed in the state: index 0 is the latest row) -/
structure TrajInv (P : GParams) (tmin : Rat) (tmax : ERat) (s : GState) : Prop where
  lenS : s.S.length = s.times.length
  lenI : s.I.length = s.times.length
  lenR : P.sis = false → s.R.length = s.times.length
  first : s.times.getLast? = some tmin
  mono : ∀ k, k + 1 < s.times.length → s.times.getD (k + 1) 0 ≤ s.times.getD k 0
  horizon : ∀ t ∈ s.times, ERat.lt (some t) tmax = true
  nonnegS : ∀ x ∈ s.S, 0 ≤ x
  nonnegI : ∀ x ∈ s.I, 0 ≤ x
  nonnegR : P.sis = false → ∀ x ∈ s.R, 0 ≤ x
  sum : ∀ k < s.times.length,
    s.S.getD k 0 + s.I.getD k 0 + (if P.sis then 0 else s.R.getD k 0) = P.nodes.length
  move : ∀ k, k + 1 < s.times.length →
    (s.S.getD k 0 = s.S.getD (k + 1) 0 - 1 ∧ s.I.getD k 0 = s.I.getD (k + 1) 0 + 1 ∧
      (P.sis = false → s.R.getD k 0 = s.R.getD (k + 1) 0)) ∨
    (s.S.getD k 0 = s.S.getD (k + 1) 0 + (if P.sis then 1 else 0) ∧ s.I.getD k 0 = s.I.getD (k + 1) 0 - 1 ∧
      (P.sis = false → s.R.getD k 0 = s.R.getD (k + 1) 0 + 1))

theorem counts_sum (P : GParams) (s : GState) (hs : Inv P s) (hc : Counts P s) :
    hd s.S + hd s.I + (if P.sis then 0 else hd s.R) = P.nodes.length := by
  have h3 := cnt_sum P s.status
  rw [hc.cS, hc.cI]
  cases hsis : P.sis with
  | true =>
    have := cnt_R_sis P s.status (hs.sis_noR hsis)
    simp only [if_true]; omega
  | false =>
    rw [hc.cR hsis]
    simp only [Bool.false_eq_true, if_false]; omega

theorem trajInv_init (P : GParams) (infs recs : List Node) (tmin : Rat) (tmax : ERat)
    (htm : ERat.lt (some tmin) tmax = true) (s0 : GState) (h0 : init P infs recs tmin = some s0)
    (hinv : Inv P s0) (hc : Counts P s0) : TrajInv P tmin tmax s0 := by
  obtain ⟨-, hT, hS, hI, hR, -⟩ := init_shape P infs recs tmin s0 h0
  have hsum := counts_sum P s0 hinv hc
  have c1 := hc.cS
  have c2 := hc.cI
  have c3 := hc.cR
  have n1 := cnt_nonneg P s0.status St.S
  have n2 := cnt_nonneg P s0.status St.I
  have n3 := cnt_nonneg P s0.status St.R
  rw [hS] at c1; rw [hI] at c2; rw [hR] at c3
  rw [hS, hI, hR] at hsum
  simp only [hd, List.headD_cons] at c1 c2 c3 hsum
  refine ⟨by rw [hS, hT]; rfl, by rw [hI, hT]; rfl, fun _ => by rw [hR, hT]; rfl, by rw [hT]; rfl, ?_, ?_, ?_,
    ?_, ?_, ?_, ?_⟩
  · intro k hk; rw [hT] at hk; simp at hk
  · intro t ht; rw [hT] at ht; simp at ht; subst ht; exact htm
  · intro x hx; rw [hS] at hx; simp at hx; subst hx; rw [c1]; exact n1
  · intro x hx; rw [hI] at hx; simp at hx; subst hx; rw [c2]; exact n2
  · intro hs x hx; rw [hR] at hx; simp at hx; subst hx; rw [c3 hs]; exact n3
  · intro k hk
    rw [hT] at hk
    have : k = 0 := by simpa using hk
    subst this
    rw [hS, hI, hR]
    simpa using hsum
  · intro k hk; rw [hT] at hk; simp at hk

theorem trajInv_step (P : GParams) (h : WF P) (tmin : Rat) (tmax : ERat) (s s' : GState) (e : GEvent) (t : Rat)
    (hs : Inv P s) (hc : Counts P s) (hT : TrajInv P tmin tmax s) (hen : Enabled s e)
    (hle : lastT s ≤ t) (hlt : ERat.lt (some t) tmax = true) (ha : applyEvent P s e t = some s') :
    TrajInv P tmin tmax s' := by
  obtain ⟨s'', ha', hinv'⟩ := applyEvent_inv P h s hs e t hen
  rw [ha] at ha'
  obtain rfl := Option.some.inj ha'
  have hc' := counts_step P h s s' e t hs hc hen ha
  have hsum' := counts_sum P s' hinv' hc'
  have n1 := cnt_nonneg P s'.status St.S
  have n2 := cnt_nonneg P s'.status St.I
  have n3 := cnt_nonneg P s'.status St.R
  rw [← hc'.cS] at n1
  rw [← hc'.cI] at n2
  have hne : s.times ≠ [] := by
    intro hc0
    have := hT.first
    rw [hc0] at this; cases this
  -- the shape of the new state, uniformly for both events
  have shape : ∃ a b c, s'.times = t :: s.times ∧ s'.S = a :: s.S ∧ s'.I = b :: s.I ∧
      s'.R = (if P.sis then s.R else c :: s.R) ∧
      ((a = hd s.S - 1 ∧ b = hd s.I + 1 ∧ (P.sis = false → c = hd s.R)) ∨
       (a = hd s.S + (if P.sis then 1 else 0) ∧ b = hd s.I - 1 ∧ (P.sis = false → c = hd s.R + 1))) := by
    cases e with
    | recover u =>
      obtain ⟨-, h2, h3, h4, h5, -⟩ := applyRec_shape P s s' u t ha
      refine ⟨_, _, hd s.R + 1, h2, h3, h4, h5, Or.inr ⟨?_, rfl, fun _ => rfl⟩⟩
      cases P.sis <;> simp
    | transmit u v =>
      obtain ⟨-, h2, h3, h4, h5, -⟩ := applyTrans_shape P s s' u v t ha
      exact ⟨_, _, hd s.R, h2, h3, h4, h5, Or.inl ⟨rfl, rfl, fun _ => rfl⟩⟩
  obtain ⟨a, b, c, hTm, hS, hI, hR, hmv⟩ := shape
  have ha0 : 0 ≤ a := by rw [hS] at n1; simpa [hd] using n1
  have hb0 : 0 ≤ b := by rw [hI] at n2; simpa [hd] using n2
  have hc0 : P.sis = false → 0 ≤ c := by
    intro hsis
    rw [← hc'.cR hsis, hR] at n3
    simpa [hd, hsis] using n3
  refine ⟨?_, ?_, ?_, ?_, ?_, ?_, ?_, ?_, ?_, ?_, ?_⟩
  · rw [hS, hTm]; simp [hT.lenS]
  · rw [hI, hTm]; simp [hT.lenI]
  · intro hsis; rw [hR, hTm]; simp [hsis, hT.lenR hsis]
  · rw [hTm, List.getLast?_cons_of_ne_nil hne]; exact hT.first
  · intro k hk
    rw [hTm] at hk ⊢
    cases k with
    | zero =>
      simp only [List.getD_cons_succ, List.getD_cons_zero]
      have : s.times.getD 0 0 = lastT s := by
        unfold lastT; cases s.times <;> rfl
      rw [this]; exact hle
    | succ k =>
      simp only [List.getD_cons_succ]
      exact hT.mono k (by simpa using hk)
  · intro x hx
    rw [hTm] at hx
    rcases List.mem_cons.1 hx with rfl | hx
    · exact hlt
    · exact hT.horizon x hx
  · intro x hx
    rw [hS] at hx
    rcases List.mem_cons.1 hx with rfl | hx
    · exact ha0
    · exact hT.nonnegS x hx
  · intro x hx
    rw [hI] at hx
    rcases List.mem_cons.1 hx with rfl | hx
    · exact hb0
    · exact hT.nonnegI x hx
  · intro hsis x hx
    rw [hR] at hx
    simp only [hsis, Bool.false_eq_true, if_false] at hx
    rcases List.mem_cons.1 hx with rfl | hx
    · exact hc0 hsis
    · exact hT.nonnegR hsis x hx
  · intro k hk
    rw [hTm] at hk
    cases k with
    | zero =>
      rw [hS, hI, hR] at hsum' ⊢
      cases hsis : P.sis <;> simp [hsis, hd] at hsum' ⊢ <;> exact hsum'
    | succ k =>
      have := hT.sum k (by simpa using hk)
      rw [hS, hI, hR]
      cases hsis : P.sis <;> simp [hsis] at this ⊢ <;> exact this
  · intro k hk
    rw [hTm] at hk
    cases k with
    | zero =>
      rw [hS, hI, hR]
      simp only [List.getD_cons_succ, List.getD_cons_zero, ← hd_eq_getD]
      rcases hmv with ⟨m1, m2, m3⟩ | ⟨m1, m2, m3⟩
      · refine Or.inl ⟨m1, m2, fun hsis => ?_⟩
        simp only [hsis, Bool.false_eq_true, if_false, List.getD_cons_succ, ← hd_eq_getD]
        exact m3 hsis
      · refine Or.inr ⟨m1, m2, fun hsis => ?_⟩
        simp only [hsis, Bool.false_eq_true, if_false, List.getD_cons_succ, ← hd_eq_getD]
        exact m3 hsis
    | succ k =>
      have := hT.move k (by simpa using hk)
      rw [hS, hI, hR]
      simp only [List.getD_cons_succ]
      rcases this with ⟨m1, m2, m3⟩ | ⟨m1, m2, m3⟩
      · refine Or.inl ⟨m1, m2, fun hsis => ?_⟩
        simp only [hsis, Bool.false_eq_true, if_false, List.getD_cons_succ]
        exact m3 hsis
      · refine Or.inr ⟨m1, m2, fun hsis => ?_⟩
        simp only [hsis, Bool.false_eq_true, if_false, List.getD_cons_succ]
        exact m3 hsis

theorem trajInv_wellFormed (P : GParams) (tmin : Rat) (tmax : ERat) (s : GState) (hT : TrajInv P tmin tmax s) :
    wellFormed (if P.sis then TrajKind.sisCont else TrajKind.sirCont) P.nodes.length tmin tmax false false
      (gTraj P s) = true := by
  have hne : s.times ≠ [] := by
    intro hc0
    have := hT.first
    rw [hc0] at this; cases this
  have hpos : 0 < s.times.length := List.length_pos_iff.2 hne
  have hfirst : s.times.reverse.head? = some tmin := by rw [List.head?_reverse]; exact hT.first
  have hmono : nondecreasing s.times.reverse = true := by
    apply nondecreasing_of_idx
    intro k hk
    rw [List.length_reverse] at hk
    rw [getD_reverse _ _ _ (by omega), getD_reverse _ _ _ (by omega)]
    have := hT.mono (s.times.length - 1 - (k + 1)) (by omega)
    have e : s.times.length - 1 - (k + 1) + 1 = s.times.length - 1 - k := by omega
    rw [e] at this
    exact this
  have lS := hT.lenS
  have lI := hT.lenI
  cases hsis : P.sis with
  | true =>
    simp only [hsis, if_true, gTraj]
    simp only [wellFormed, Bool.and_eq_true, and_assoc, allIdx_iff, beforeHorizon, Pred.row, List.map_cons,
      List.map_nil, sumInt, List.foldr_cons, List.foldr_nil, List.all_cons, List.all_nil, Bool.and_true,
      decide_eq_true_eq, beq_iff_eq, List.length_reverse, List.length_cons, List.length_nil, Bool.false_or,
      Bool.not_false, Bool.true_or, List.all_eq_true, List.mem_reverse]
    refine ⟨hpos, trivial, lS, lI, hfirst, hmono, hT.horizon, ?_, ?_, ?_⟩
    · intro i hi
      rw [getD_reverse _ _ _ (by omega), getD_reverse _ _ _ (by omega)]
      exact ⟨hT.nonnegS _ (getD_mem_or _ _ _ (by omega)), hT.nonnegI _ (getD_mem_or _ _ _ (by omega))⟩
    · intro i hi
      rw [getD_reverse _ _ _ (by omega), getD_reverse _ _ _ (by omega), lS, lI]
      have := hT.sum (s.times.length - 1 - i) (by omega)
      simp only [hsis, if_true] at this
      omega
    · intro i hi
      rw [getD_reverse _ _ _ (by omega), getD_reverse _ _ _ (by omega), getD_reverse _ _ _ (by omega),
        getD_reverse _ _ _ (by omega), lS, lI]
      have := hT.move (s.times.length - 1 - (i + 1)) (by omega)
      have e : s.times.length - 1 - (i + 1) + 1 = s.times.length - 1 - i := by omega
      rw [e] at this
      simp only [hsis, if_true] at this
      simp only [sisMove, Bool.or_eq_true, Bool.and_eq_true, beq_iff_eq]
      rcases this with ⟨m1, m2, -⟩ | ⟨m1, m2, -⟩
      · exact Or.inl ⟨m1, m2⟩
      · exact Or.inr ⟨m1, m2⟩
  | false =>
    have lR := hT.lenR hsis
    simp only [hsis, Bool.false_eq_true, if_false, gTraj]
    simp only [wellFormed, Bool.and_eq_true, and_assoc, allIdx_iff, beforeHorizon, Pred.row, List.map_cons,
      List.map_nil, sumInt, List.foldr_cons, List.foldr_nil, List.all_cons, List.all_nil, Bool.and_true,
      decide_eq_true_eq, beq_iff_eq, List.length_reverse, List.length_cons, List.length_nil, Bool.false_or,
      Bool.not_false, Bool.true_or, List.all_eq_true, List.mem_reverse]
    refine ⟨hpos, trivial, lS, lI, lR, hfirst, hmono, hT.horizon, ?_, ?_, ?_, ?_, ?_⟩
    · intro i hi
      rw [getD_reverse _ _ _ (by omega), getD_reverse _ _ _ (by omega), getD_reverse _ _ _ (by omega)]
      exact ⟨hT.nonnegS _ (getD_mem_or _ _ _ (by omega)), hT.nonnegI _ (getD_mem_or _ _ _ (by omega)),
        hT.nonnegR hsis _ (getD_mem_or _ _ _ (by omega))⟩
    · intro i hi
      rw [getD_reverse _ _ _ (by omega), getD_reverse _ _ _ (by omega), getD_reverse _ _ _ (by omega), lS, lI, lR]
      have := hT.sum (s.times.length - 1 - i) (by omega)
      simp only [hsis, Bool.false_eq_true, if_false] at this
      omega
    · intro i hi
      rw [getD_reverse _ _ _ (by omega), getD_reverse _ _ _ (by omega), getD_reverse _ _ _ (by omega),
        getD_reverse _ _ _ (by omega), getD_reverse _ _ _ (by omega), getD_reverse _ _ _ (by omega), lS, lI, lR]
      have := hT.move (s.times.length - 1 - (i + 1)) (by omega)
      have e : s.times.length - 1 - (i + 1) + 1 = s.times.length - 1 - i := by omega
      rw [e] at this
      simp only [hsis, Bool.false_eq_true, if_false, add_zero] at this
      simp only [sirMove, Bool.or_eq_true, Bool.and_eq_true, beq_iff_eq]
      rcases this with ⟨m1, m2, m3⟩ | ⟨m1, m2, m3⟩
      · exact Or.inl ⟨⟨m1, m2⟩, m3 trivial⟩
      · exact Or.inr ⟨⟨m1, m2⟩, m3 trivial⟩
    · show nonincrInt s.S.reverse = true
      apply nonincrInt_of_idx
      intro k hk
      rw [List.length_reverse] at hk
      rw [getD_reverse _ _ _ (by omega), getD_reverse _ _ _ (by omega)]
      have := hT.move (s.S.length - 1 - (k + 1)) (by omega)
      have e : s.S.length - 1 - (k + 1) + 1 = s.S.length - 1 - k := by omega
      rw [e] at this
      simp only [hsis, Bool.false_eq_true, if_false, add_zero] at this
      rcases this with ⟨m1, -, -⟩ | ⟨m1, -, -⟩ <;> omega
    · show nondecrInt s.R.reverse = true
      apply nondecrInt_of_idx
      intro k hk
      rw [List.length_reverse] at hk
      rw [getD_reverse _ _ _ (by omega), getD_reverse _ _ _ (by omega)]
      have := hT.move (s.R.length - 1 - (k + 1)) (by omega)
      have e : s.R.length - 1 - (k + 1) + 1 = s.R.length - 1 - k := by omega
      rw [e] at this
      rcases this with ⟨-, -, m3⟩ | ⟨-, -, m3⟩ <;> have := m3 hsis <;> omega

theorem wf_run (P : GParams) (h : WF P) (infs recs : List Node) (tmin : Rat) (tmax : ERat) (fuel cfuel : Nat)
    (hi : infs.Nodup) (him : ∀ u ∈ infs, u ∈ P.nodes) (hrn : recs.Nodup) (hr : ∀ u ∈ recs, u ∈ P.nodes)
    (hdis : ∀ u ∈ infs, u ∉ recs) (hsis : P.sis = true → recs = []) (htm : ERat.lt (some tmin) tmax = true)
    (ts ts' : TapeSt) (hts : TapeNonneg ts) (s' : GState)
    (hrun : run P infs recs tmin tmax fuel cfuel ts = .ok (s', ts')) :
    Counts P s' ∧ TrajInv P tmin tmax s' := by
  refine run_ind P h infs recs tmin tmax True (fun s => Counts P s ∧ TrajInv P tmin tmax s) hi him hdis hsis
    ?_ ?_ fuel cfuel ts ts' (fun _ => hts) s' hrun
  · intro s0 h0 hinv _
    have hc := counts_init P h infs recs tmin hi him hrn hr hdis s0 h0
    exact ⟨hc, trajInv_init P infs recs tmin tmax htm s0 h0 hinv hc⟩
  · intro s e tv s1 hs hQ hen hle hlt ha
    exact ⟨counts_step P h s s1 e tv hs hQ.1 hen ha,
      trajInv_step P h tmin tmax s s1 e tv hs hQ.1 hQ.2 hen (hle trivial) hlt ha⟩

end Gillespie
