import DriverSC
partial def loopSC (h : IO.FS.Stream) (out : IO.FS.Stream) : IO Unit := do
  let line ← h.getLine
  if line.isEmpty then return ()
  out.putStrLn (DrvGenSC.handle line)
  loopSC h out
def main : IO Unit := do loopSC (← IO.getStdin) (← IO.getStdout)
