"""Registry of the ODE entry points of EoN.analytic: how to call each from a graph + initial condition, the documented
layout of its return value, and graph generators.  Used by C06, C07, C08, C14, C19."""
from fractions import Fraction as F
import numpy as np, networkx as nx

# name -> dict(sir, ic: allowed styles, full: names of the returned series after `t` with return_full_data=True
#              (None = no such flag), nodelevel, small: needs a small graph)
E = {}


def reg(name, sir, ic, full, nodelevel=False, small=False, discrete=False, scalar=False, p=False):
    E[name] = dict(name=name, sir=sir, ic=ic, full=full, nodelevel=nodelevel, small=small, discrete=discrete, scalar=scalar, p=p)


ALL = ("rho", "default", "sets", "setsrec")
SIS_IC = ("rho", "default", "sets")
reg("SIS_homogeneous_meanfield_from_graph", False, SIS_IC, None)
reg("SIR_homogeneous_meanfield_from_graph", True, ALL, None)
reg("SIS_homogeneous_pairwise_from_graph", False, SIS_IC, ["S", "I", "SI", "SS", "II"])
reg("SIR_homogeneous_pairwise_from_graph", True, ALL, ["S", "I", "R", "SI", "SS"])
reg("SIS_heterogeneous_meanfield_from_graph", False, SIS_IC, ["S", "I", "Sk", "Ik"])
reg("SIR_heterogeneous_meanfield_from_graph", True, ALL, ["Sk", "Ik", "Rk"])
reg("SIS_heterogeneous_pairwise_from_graph", False, SIS_IC, ["S", "I", "SkK", "IkK", "SkIl", "SkSl", "IkIl"])
reg("SIR_heterogeneous_pairwise_from_graph", True, ALL, ["S", "I", "R", "SkK", "IkK", "RkK", "SkIl", "SkSl"])
reg("SIS_compact_pairwise_from_graph", False, SIS_IC, ["S", "I", "Sk", "Ik", "SI", "SS", "II"])
reg("SIR_compact_pairwise_from_graph", True, ALL, ["Sk", "I", "R", "SS", "SI"])
reg("SIS_super_compact_pairwise_from_graph", False, SIS_IC, ["S", "I", "SS", "SI", "II"])
reg("SIR_super_compact_pairwise_from_graph", True, ALL, ["S", "I", "R", "SS", "SI"])
reg("SIS_effective_degree_from_graph", False, SIS_IC, ["S", "I", "Ssi", "Isi"])
reg("SIR_effective_degree_from_graph", True, ALL, ["S", "I", "R", "Ssi"])
reg("SIS_compact_effective_degree_from_graph", False, SIS_IC, ["S", "I", "Sk", "Ik", "SI", "SS", "II"])
reg("SIR_compact_effective_degree_from_graph", True, ALL, ["S", "I", "R", "Skappa", "SIe"])
reg("EBCM_from_graph", True, ALL, ["S", "I", "R", "theta"])
reg("EBCM_pref_mix_from_graph", True, ("rho", "default"), ["S", "I", "R", "thetadict"])
reg("EBCM_discrete_from_graph", True, ALL, ["S", "I", "R", "theta"], discrete=True, p=True)
reg("EBCM_pref_mix_discrete_from_graph", True, ("rho", "default"), ["S", "I", "R", "thetadict"], discrete=True, p=True)
reg("SIS_individual_based", False, ("rho",), ["Ss", "Is"], nodelevel=True)
reg("SIR_individual_based", True, ("rho",), ["S", "I", "R", "Ss", "Is", "Rs"], nodelevel=True)
reg("SIS_individual_based_pure_IC", False, ("sets",), ["Ss", "Is"], nodelevel=True)
reg("SIR_individual_based_pure_IC", True, ("sets", "setsrec"), ["S", "I", "R", "Ss", "Is", "Rs"], nodelevel=True)
reg("SIS_pair_based", False, ("rho", "default"), ["S", "I", "Xs", "Ys", "XY", "XX"], nodelevel=True, small=True)
reg("SIR_pair_based", True, ("rho", "default"), ["S", "I", "R", "Xs", "Ys", "Zs", "XY", "XX"], nodelevel=True, small=True)
reg("SIS_pair_based_pure_IC", False, ("sets",), ["S", "I", "Xs", "Ys", "XY", "XX"], nodelevel=True, small=True)
reg("SIR_pair_based_pure_IC", True, ("sets", "setsrec"), ["S", "I", "R", "Xs", "Ys", "Zs", "XY", "XX"], nodelevel=True, small=True)
reg("Attack_rate_discrete_from_graph", True, ALL, None, scalar=True, p=True)
reg("Attack_rate_cts_time_from_graph", True, ALL, None, scalar=True)


KINDS = ["regular", "star", "gnp", "isolated", "components", "path", "tree"]


def decorate(rng, G):
    """attributes the call does not ask for (an edge / node attribute literally named 'weight' — networkx's default weight
    key — and an unrelated one): with transmission_weight / recovery_weight left at None every edge transmits at rate
    tau and every node recovers at rate gamma, whatever is stored on the graph"""
    for u, v in G.edges():
        G.edges[u, v]["weight"] = rng.choice([0.5, 2.5, 3.0])
        G.edges[u, v]["length"] = rng.choice([1, 7])
    for u in G:
        G.nodes[u]["weight"] = rng.choice([0.25, 4.0])
    return G


def graph(rng, small=False, kind=None):
    kind = kind or rng.choice(KINDS)
    n = rng.randint(4, 8) if small else rng.randint(6, 24)
    seed = rng.randrange(10 ** 6)
    if kind == "regular":
        d = rng.choice([2, 3, 4])
        if n <= d:
            n = d + 2
        if (n * d) % 2:
            n += 1
        G = nx.random_regular_graph(d, n, seed=seed)
    elif kind == "star":
        G = nx.star_graph(n - 1)
    elif kind == "gnp":
        G = nx.gnp_random_graph(n, 0.35, seed=seed)
    elif kind == "isolated":
        G = nx.gnp_random_graph(n - 1, 0.4, seed=seed)
        G.add_node(n - 1)
    elif kind == "components":
        a = n // 2
        G = nx.disjoint_union(nx.cycle_graph(max(a, 3)), nx.path_graph(max(n - a, 2)))
    elif kind == "path":
        G = nx.path_graph(n)
    else:
        G = nx.random_labeled_tree(n, seed=seed) if hasattr(nx, "random_labeled_tree") else nx.path_graph(n)
    if G.number_of_edges() == 0:
        G = nx.path_graph(max(n, 2))
    if rng.random() < 1 / 3:
        decorate(rng, G)
    return G, kind


def ic_kwargs(entry, style, G, rng, rho=None):
    """returns (kwargs, description dict with infs/recs (node objects) or rho)"""
    nodes = list(G)
    N = len(nodes)
    if style == "rho":
        # (rho = 0 exactly is a number, not "not given": nobody is infected and nothing happens; the scalar attack-rate wrappers
        # document another meaning for rho = 0 and are left out)
        rho = rho if rho is not None else rng.choice([0.125, 0.25, 0.5] + ([0.0] if not E[entry]["scalar"] else []))
        return dict(rho=rho), dict(style=style, rho=rho)
    if style == "default":
        return {}, dict(style=style, rho=1.0 / N)
    k = rng.randint(1, max(1, min(3, N - 1)))
    infs = rng.sample(nodes, k)
    # often: a whole degree class is infected (that class then has no susceptible node at tmin — the 0/0 corner of the
    # degree-stratified models)
    byk = {}
    for u in nodes:
        byk.setdefault(G.degree(u), []).append(u)
    small = [c for c in byk.values() if len(c) <= 3 and len(c) < N]
    if small and rng.random() < 0.4:
        infs = list(rng.choice(small))
    desc = dict(style=style, infs=infs, recs=[])
    kw = dict(initial_infecteds=infs)
    if style == "setsrec":
        rest = [u for u in nodes if u not in infs]
        recs = rng.sample(rest, rng.randint(1, min(2, len(rest)))) if rest else []
        kw["initial_recovereds"] = recs
        desc["recs"] = recs
    return kw, desc


def call(entry, G, kw_ic, tau, gamma, tmin, tmax, tcount, full, nodelist=None, p=None, extra=None):
    import EoN
    e = E[entry]
    f = getattr(EoN, entry)
    kw = dict(kw_ic)
    if extra:
        kw.update(extra)
    if e["scalar"]:
        if e["p"]:
            return f(G, p, **kw)
        return f(G, tau, gamma, **kw)
    if e["discrete"]:
        kw.update(tmin=tmin, tmax=tmax)
        if e["full"] is not None:
            kw["return_full_data"] = full
        return f(G, p, **kw)
    kw.update(tmin=tmin, tmax=tmax, tcount=tcount)
    if e["full"] is not None:
        kw["return_full_data"] = full
    if e["nodelevel"] and nodelist is not None:
        kw["nodelist"] = nodelist
    if entry in ("SIS_individual_based_pure_IC", "SIR_individual_based_pure_IC", "SIS_pair_based_pure_IC", "SIR_pair_based_pure_IC"):
        ii = kw.pop("initial_infecteds")
        return f(G, tau, gamma, ii, **kw)
    return f(G, tau, gamma, **kw)


def sir_curves(entry, res, full):
    """(t, S, I, R or None) as 1-d float arrays from a return value"""
    e = E[entry]
    t = np.asarray(res[0], dtype=float)
    names = (e["full"] if (full and e["full"] is not None) else (["S", "I", "R"] if e["sir"] else ["S", "I"]))
    d = dict(zip(names, res[1:]))

    def tot(x):
        x = np.asarray(x, dtype=float)
        return x if x.ndim == 1 else x.reshape(-1, x.shape[-1]).sum(axis=0)
    S = tot(d["S"]) if "S" in d else tot(d.get("Sk", d.get("Ss")))
    I = tot(d["I"]) if "I" in d else tot(d.get("Ik", d.get("Is")))
    R = None
    if e["sir"]:
        R = tot(d["R"]) if "R" in d else tot(d.get("Rk", d.get("Rs")))
    return t, S, I, R, d
