"""C01 — Markovian SIR simulators sample the exact SIR chain (Gillespie_SIR tape correspondence + exact law;
fast_SIR: see fastsir.py)."""
import common, gillcheck, c11


def run(ctx):
    drv = common.LeanDriver()
    gillcheck.correspondence(ctx, drv, False, ctx.scale(1500, 6000), "Gillespie_SIR")
    cases = gillcheck.law_cases(ctx, False, ctx.scale(3, 4), ctx.scale(30, 300))
    if not ctx.thorough:
        cases = ctx.rng.sample(cases, min(len(cases), 150))
    gillcheck.law_check(ctx, drv, False, cases, "Gillespie_SIR")
    # law after 2 and 3 events (exact enumeration of the real code vs the composed chain): reaches what only shows
    # after the event lists have been updated (removal of the heaviest item, re-insertion of existing links, ...)
    gillcheck.k_step_check(ctx, drv, False, gillcheck.kstep_cases(ctx, False, ctx.scale(25, 150)), 2, "Gillespie_SIR")
    gillcheck.k_step_check(ctx, drv, False, gillcheck.kstep_cases(ctx, False, ctx.scale(10, 60)), 3, "Gillespie_SIR")
    if any(st.startswith("Gillespie_SIR") for st, _ in ctx.disagreements) and not ctx.violations:
        # tape correspondence broke without a property-level failure so far: search harder for a concrete failing input
        gillcheck.k_step_check(ctx, drv, False, gillcheck.kstep_cases(ctx, False, 150), 2, "Gillespie_SIR")
        if not ctx.violations:
            gillcheck.k_step_check(ctx, drv, False, gillcheck.kstep_cases(ctx, False, 100), 3, "Gillespie_SIR")
    # fast_SIR on both dispatch paths: first-passage percolation of the delays/durations it drew (shared with C11)
    c11.fast_sir(ctx, drv)
