import EoNVerif.Proofs.GenLabel
import EoNVerif.Props.GenLoops
import EoNVerif.Props.GenLoops2
/-!
C14 (node labels) for the node-level ODE right-hand sides of `EoN/analytic.py`, on the code GENERATED from the Python
source.  `_dSIS_individual_based_`, `_dSIR_individual_based_`, `_dSIS_pair_based_`, `_dSIR_pair_based_` receive the
nodes as arbitrary hashable labels (`nodelist`), the dict `index_of_node = {node: i for i, node in enumerate(nodelist)}`,
and call `G.neighbors`, `trans_rate_fxn`, `rec_rate_fxn` on LABELS.  Two translations of the same source are
regenerated on every run by `harness/py2lean_loops.py`:
* `Gen/AnalyticLoopsL.lean` (`GenL.*L`) keeps the labels: `nodelist : List Nat`, `idx = index_of_node`,
  `nbrs`/`tr`/`rr` take labels;
* `Gen/AnalyticLoops.lean` (`Gen.*`) identifies a node with its array position (the one tied to the hand models in
  `Props/GenLoops.lean`, `Props/GenLoops2.lean`).

Statements (all for an arbitrary state vector, arbitrary rate functions; proofs in `Proofs/GenLabel.lean`):
1. `*_label_erasure`: for a well-formed labelled instance (`LabelOK`) the labelled function returns LITERALLY the same
   vector (`V`, length and index function) as the index-level function on the erased data `eraseNbrs`/`eraseTr`/`eraseRr`.
2. `*_relabel`: renaming every label by `f` (with `g ∘ f = id` on the labels, i.e. `f` injective on `nodelist`) — in
   `nodelist`, in the neighbour lists, in the rate functions and in `index_of_node` — returns literally the same vector.
   Only "neighbours of listed nodes are listed" is used.  (`*_mor` is the general form: a label morphism.)
3. `*_nbr_perm`: reordering every neighbour list (edge insertion order) returns literally the same vector; no
   hypothesis on the instance at all.
4. `*_nodelist_perm`: listing the nodes in another order (node insertion order; `index_of_node` changes with it) and
   permuting the state accordingly permutes the output accordingly (entrywise statements, all four functions);
   `*_label_form`: the individual-based entries as functions of label-indexed data.
5. `*L_eq_model`: through 1., the labelled code computes the hand models of `Model/ODE.lean`, `Model/ODE2.lean`.
-/
set_option linter.unusedVariables false
namespace GenLabel
open Gen

/-! ## 1. label erasure -/

/-- `_dSIS_individual_based_` on labels = on array positions -/
theorem sisIndividual_label_erasure (nodelist : List Nat) (idx : Nat → Nat) (nbrs : Nat → List Nat)
    (h : LabelOK nodelist idx nbrs) (tr : Nat → Nat → Rat) (rr : Nat → Rat) (Y : V) :
    GenL.dSIS_individual_basedL Y nodelist idx nbrs tr rr
      = Gen.dSIS_individual_based Y nodelist.length (eraseNbrs nodelist idx nbrs) (eraseTr nodelist tr)
          (eraseRr nodelist rr) :=
  sisInd_erase h tr rr Y

/-- `_dSIR_individual_based_` on labels = on array positions -/
theorem sirIndividual_label_erasure (nodelist : List Nat) (idx : Nat → Nat) (nbrs : Nat → List Nat)
    (h : LabelOK nodelist idx nbrs) (tr : Nat → Nat → Rat) (rr : Nat → Rat) (Vst : V) :
    GenL.dSIR_individual_basedL Vst nodelist idx nbrs tr rr
      = Gen.dSIR_individual_based Vst nodelist.length (eraseNbrs nodelist idx nbrs) (eraseTr nodelist tr)
          (eraseRr nodelist rr) :=
  sirInd_erase h tr rr Vst

/-- `_dSIS_pair_based_` on labels = on array positions (the loops run over `nodelist` / `G.neighbors(u)` with labels
and index with `index_of_node`; the `if w == u: continue` guards compare labels) -/
theorem sisPairBased_label_erasure (nodelist : List Nat) (idx : Nat → Nat) (nbrs : Nat → List Nat)
    (h : LabelOK nodelist idx nbrs) (tr : Nat → Nat → Rat) (rr : Nat → Rat) (Vst : V) :
    GenL.dSIS_pair_basedL Vst nodelist idx nbrs tr rr
      = Gen.dSIS_pair_based Vst nodelist.length (eraseNbrs nodelist idx nbrs) (eraseTr nodelist tr)
          (eraseRr nodelist rr) :=
  sisPair_erase h tr rr Vst

/-- `_dSIR_pair_based_` on labels = on array positions -/
theorem sirPairBased_label_erasure (nodelist : List Nat) (idx : Nat → Nat) (nbrs : Nat → List Nat)
    (h : LabelOK nodelist idx nbrs) (tr : Nat → Nat → Rat) (rr : Nat → Rat) (Vst : V) :
    GenL.dSIR_pair_basedL Vst nodelist idx nbrs tr rr
      = Gen.dSIR_pair_based Vst nodelist.length (eraseNbrs nodelist idx nbrs) (eraseTr nodelist tr)
          (eraseRr nodelist rr) :=
  sirPair_erase h tr rr Vst

/-! ## 2. relabelling invariance -/

/-- the renamed instance is again well-formed (so 1. applies to it as well) -/
theorem labelOK_relabel (f g : Nat → Nat) (nodelist : List Nat) (idx : Nat → Nat) (nbrs : Nat → List Nat)
    (h : LabelOK nodelist idx nbrs) (hg : ∀ u ∈ nodelist, g (f u) = u) :
    LabelOK (nodelist.map f) (idx ∘ g) (fun u => (nbrs (g u)).map f) :=
  h.rename f g hg

theorem sisIndividual_relabel (f g : Nat → Nat) (nodelist : List Nat) (idx : Nat → Nat) (nbrs : Nat → List Nat)
    (h : LabelOK nodelist idx nbrs) (hg : ∀ u ∈ nodelist, g (f u) = u)
    (tr : Nat → Nat → Rat) (rr : Nat → Rat) (Y : V) :
    GenL.dSIS_individual_basedL Y (nodelist.map f) (idx ∘ g) (fun u => (nbrs (g u)).map f)
        (fun u v => tr (g u) (g v)) (fun u => rr (g u))
      = GenL.dSIS_individual_basedL Y nodelist idx nbrs tr rr :=
  sisInd_mor (mor_rename f g nodelist idx nbrs tr rr hg h.2.2) Y

theorem sirIndividual_relabel (f g : Nat → Nat) (nodelist : List Nat) (idx : Nat → Nat) (nbrs : Nat → List Nat)
    (h : LabelOK nodelist idx nbrs) (hg : ∀ u ∈ nodelist, g (f u) = u)
    (tr : Nat → Nat → Rat) (rr : Nat → Rat) (Vst : V) :
    GenL.dSIR_individual_basedL Vst (nodelist.map f) (idx ∘ g) (fun u => (nbrs (g u)).map f)
        (fun u v => tr (g u) (g v)) (fun u => rr (g u))
      = GenL.dSIR_individual_basedL Vst nodelist idx nbrs tr rr :=
  sirInd_mor (mor_rename f g nodelist idx nbrs tr rr hg h.2.2) Vst

theorem sisPairBased_relabel (f g : Nat → Nat) (nodelist : List Nat) (idx : Nat → Nat) (nbrs : Nat → List Nat)
    (h : LabelOK nodelist idx nbrs) (hg : ∀ u ∈ nodelist, g (f u) = u)
    (tr : Nat → Nat → Rat) (rr : Nat → Rat) (Vst : V) :
    GenL.dSIS_pair_basedL Vst (nodelist.map f) (idx ∘ g) (fun u => (nbrs (g u)).map f)
        (fun u v => tr (g u) (g v)) (fun u => rr (g u))
      = GenL.dSIS_pair_basedL Vst nodelist idx nbrs tr rr :=
  sisPair_mor (mor_rename f g nodelist idx nbrs tr rr hg h.2.2) Vst

theorem sirPairBased_relabel (f g : Nat → Nat) (nodelist : List Nat) (idx : Nat → Nat) (nbrs : Nat → List Nat)
    (h : LabelOK nodelist idx nbrs) (hg : ∀ u ∈ nodelist, g (f u) = u)
    (tr : Nat → Nat → Rat) (rr : Nat → Rat) (Vst : V) :
    GenL.dSIR_pair_basedL Vst (nodelist.map f) (idx ∘ g) (fun u => (nbrs (g u)).map f)
        (fun u v => tr (g u) (g v)) (fun u => rr (g u))
      = GenL.dSIR_pair_basedL Vst nodelist idx nbrs tr rr :=
  sirPair_mor (mor_rename f g nodelist idx nbrs tr rr hg h.2.2) Vst

/-- an injective `f` has such a `g` -/
theorem exists_left_inverse (f : Nat → Nat) (hf : Function.Injective f) : ∃ g : Nat → Nat, ∀ u, g (f u) = u :=
  ⟨Function.invFun f, Function.leftInverse_invFun hf⟩

/-! ## 3. order of the neighbour lists (insertion order of the edges)

Literal equality of the returned vectors; NO hypothesis on the instance (labels may repeat, neighbours may be unlisted
or repeated).  Individual-based: the sum over `G.neighbors(node)` is order independent.  Pair-based: every iteration
of the three nested loops adds a state-independent increment to the tuple of arrays (`IsShift`), such iterations
commute (`foldl_perm_shift`). -/

theorem sisIndividual_nbr_perm (nodelist : List Nat) (idx : Nat → Nat) (nbrs nbrs' : Nat → List Nat)
    (hp : ∀ u, (nbrs u).Perm (nbrs' u)) (tr : Nat → Nat → Rat) (rr : Nat → Rat) (Y : V) :
    GenL.dSIS_individual_basedL Y nodelist idx nbrs tr rr = GenL.dSIS_individual_basedL Y nodelist idx nbrs' tr rr :=
  sisInd_nbr_perm nodelist idx nbrs nbrs' hp tr rr Y

theorem sirIndividual_nbr_perm (nodelist : List Nat) (idx : Nat → Nat) (nbrs nbrs' : Nat → List Nat)
    (hp : ∀ u, (nbrs u).Perm (nbrs' u)) (tr : Nat → Nat → Rat) (rr : Nat → Rat) (Vst : V) :
    GenL.dSIR_individual_basedL Vst nodelist idx nbrs tr rr = GenL.dSIR_individual_basedL Vst nodelist idx nbrs' tr rr :=
  sirInd_nbr_perm nodelist idx nbrs nbrs' hp tr rr Vst

theorem sisPairBased_nbr_perm (nodelist : List Nat) (idx : Nat → Nat) (nbrs nbrs' : Nat → List Nat)
    (hp : ∀ u, (nbrs u).Perm (nbrs' u)) (tr : Nat → Nat → Rat) (rr : Nat → Rat) (Vst : V) :
    GenL.dSIS_pair_basedL Vst nodelist idx nbrs tr rr = GenL.dSIS_pair_basedL Vst nodelist idx nbrs' tr rr :=
  sisPair_nbr_perm nodelist idx nbrs nbrs' hp tr rr Vst

theorem sirPairBased_nbr_perm (nodelist : List Nat) (idx : Nat → Nat) (nbrs nbrs' : Nat → List Nat)
    (hp : ∀ u, (nbrs u).Perm (nbrs' u)) (tr : Nat → Nat → Rat) (rr : Nat → Rat) (Vst : V) :
    GenL.dSIR_pair_basedL Vst nodelist idx nbrs tr rr = GenL.dSIR_pair_basedL Vst nodelist idx nbrs' tr rr :=
  sirPair_nbr_perm nodelist idx nbrs nbrs' hp tr rr Vst

/-! ## 4. order of `nodelist`

`*_label_form`: the entry of node `u` (position `idx u`) is a function of the label-indexed data only.
`*_nodelist_perm`: listing the nodes in another order `nodelist'` (with its own `index_of_node`, `idx'`) and
permuting the state accordingly permutes the output accordingly. -/

theorem sisIndividual_label_form (nodelist : List Nat) (idx : Nat → Nat) (nbrs : Nat → List Nat)
    (h : LabelOK nodelist idx nbrs) (tr : Nat → Nat → Rat) (rr : Nat → Rat) (Y : V) (u : Nat) (hu : u ∈ nodelist) :
    (GenL.dSIS_individual_basedL Y nodelist idx nbrs tr rr).f (idx u)
      = sumRat ((nbrs u).map fun v => tr u v * (1 - Y.f (idx u)) * Y.f (idx v)) - rr u * Y.f (idx u) :=
  sisInd_label_form h tr rr Y u hu

theorem sirIndividual_label_form (nodelist : List Nat) (idx : Nat → Nat) (nbrs : Nat → List Nat)
    (h : LabelOK nodelist idx nbrs) (tr : Nat → Nat → Rat) (rr : Nat → Rat) (Vst : V) (u : Nat) (hu : u ∈ nodelist) :
    (GenL.dSIR_individual_basedL Vst nodelist idx nbrs tr rr).f (idx u)
      = (-(Vst.f (idx u))) * sumRat ((nbrs u).map fun v => tr u v * Vst.f (nodelist.length + idx v)) ∧
    (GenL.dSIR_individual_basedL Vst nodelist idx nbrs tr rr).f (nodelist.length + idx u)
      = (-((-(Vst.f (idx u))) * sumRat ((nbrs u).map fun v => tr u v * Vst.f (nodelist.length + idx v))))
        - rr u * Vst.f (nodelist.length + idx u) :=
  sirInd_label_form h tr rr Vst u hu

theorem sisIndividual_nodelist_perm (nodelist nodelist' : List Nat) (idx idx' : Nat → Nat) (nbrs : Nat → List Nat)
    (h : LabelOK nodelist idx nbrs) (h' : LabelOK nodelist' idx' nbrs) (hp : nodelist.Perm nodelist')
    (tr : Nat → Nat → Rat) (rr : Nat → Rat) (Y Y' : V) (hY : ∀ u ∈ nodelist, Y'.f (idx' u) = Y.f (idx u))
    (u : Nat) (hu : u ∈ nodelist) :
    (GenL.dSIS_individual_basedL Y' nodelist' idx' nbrs tr rr).f (idx' u)
      = (GenL.dSIS_individual_basedL Y nodelist idx nbrs tr rr).f (idx u) :=
  sisInd_nodelist_perm h h' hp tr rr Y Y' hY u hu

theorem sirIndividual_nodelist_perm (nodelist nodelist' : List Nat) (idx idx' : Nat → Nat) (nbrs : Nat → List Nat)
    (h : LabelOK nodelist idx nbrs) (h' : LabelOK nodelist' idx' nbrs) (hp : nodelist.Perm nodelist')
    (tr : Nat → Nat → Rat) (rr : Nat → Rat) (Vst Vst' : V)
    (hX : ∀ u ∈ nodelist, Vst'.f (idx' u) = Vst.f (idx u))
    (hY : ∀ u ∈ nodelist, Vst'.f (nodelist'.length + idx' u) = Vst.f (nodelist.length + idx u))
    (u : Nat) (hu : u ∈ nodelist) :
    (GenL.dSIR_individual_basedL Vst' nodelist' idx' nbrs tr rr).f (idx' u)
      = (GenL.dSIR_individual_basedL Vst nodelist idx nbrs tr rr).f (idx u) ∧
    (GenL.dSIR_individual_basedL Vst' nodelist' idx' nbrs tr rr).f (nodelist'.length + idx' u)
      = (GenL.dSIR_individual_basedL Vst nodelist idx nbrs tr rr).f (nodelist.length + idx u) :=
  sirInd_nodelist_perm h h' hp tr rr Vst Vst' hX hY u hu

/-- `_dSIS_pair_based_`: listing the nodes in another order `nodelist'` (with its own `index_of_node`) and permuting
the state `(Y, XY, XX)` accordingly permutes the output `(dY, dXY, dXX)` accordingly.  (The outer loop is a loop of
shifts, so its order is irrelevant; the runs with positions `idx` / `idx'` are related by a simulation.) -/
theorem sisPairBased_nodelist_perm (nodelist nodelist' : List Nat) (idx idx' : Nat → Nat) (nbrs : Nat → List Nat)
    (h : LabelOK nodelist idx nbrs) (h' : LabelOK nodelist' idx' nbrs) (hp : nodelist.Perm nodelist')
    (tr : Nat → Nat → Rat) (rr : Nat → Rat) (Vst Vst' : V)
    (hY : ∀ u ∈ nodelist, Vst'.f (idx' u) = Vst.f (idx u))
    (hXY : ∀ u ∈ nodelist, ∀ v ∈ nodelist,
      Vst'.f (nodelist.length + (idx' u * nodelist.length + idx' v))
        = Vst.f (nodelist.length + (idx u * nodelist.length + idx v)))
    (hXX : ∀ u ∈ nodelist, ∀ v ∈ nodelist,
      Vst'.f (nodelist.length + (nodelist.length * nodelist.length + (idx' u * nodelist.length + idx' v)))
        = Vst.f (nodelist.length + (nodelist.length * nodelist.length + (idx u * nodelist.length + idx v)))) :
    let N := nodelist.length
    let r := GenL.dSIS_pair_basedL Vst nodelist idx nbrs tr rr
    let r' := GenL.dSIS_pair_basedL Vst' nodelist' idx' nbrs tr rr
    (∀ u ∈ nodelist, r'.f (idx' u) = r.f (idx u)) ∧
    (∀ u ∈ nodelist, ∀ v ∈ nodelist, r'.f (N + (idx' u * N + idx' v)) = r.f (N + (idx u * N + idx v)) ∧
      r'.f (N + (N * N + (idx' u * N + idx' v))) = r.f (N + (N * N + (idx u * N + idx v)))) :=
  sisPair_nodelist_perm h h' hp tr rr Vst Vst' hY hXY hXX

/-- `_dSIR_pair_based_`: the same for the state `(X, Y, XY, XX)` and the output `(dX, dY, dXY, dXX)` -/
theorem sirPairBased_nodelist_perm (nodelist nodelist' : List Nat) (idx idx' : Nat → Nat) (nbrs : Nat → List Nat)
    (h : LabelOK nodelist idx nbrs) (h' : LabelOK nodelist' idx' nbrs) (hp : nodelist.Perm nodelist')
    (tr : Nat → Nat → Rat) (rr : Nat → Rat) (Vst Vst' : V)
    (hX : ∀ u ∈ nodelist, Vst'.f (idx' u) = Vst.f (idx u))
    (hY : ∀ u ∈ nodelist, Vst'.f (nodelist.length + idx' u) = Vst.f (nodelist.length + idx u))
    (hXY : ∀ u ∈ nodelist, ∀ v ∈ nodelist,
      Vst'.f (nodelist.length + (nodelist.length + (idx' u * nodelist.length + idx' v)))
        = Vst.f (nodelist.length + (nodelist.length + (idx u * nodelist.length + idx v))))
    (hXX : ∀ u ∈ nodelist, ∀ v ∈ nodelist,
      Vst'.f (nodelist.length + (nodelist.length + (nodelist.length * nodelist.length
          + (idx' u * nodelist.length + idx' v))))
        = Vst.f (nodelist.length + (nodelist.length + (nodelist.length * nodelist.length
          + (idx u * nodelist.length + idx v))))) :
    let N := nodelist.length
    let r := GenL.dSIR_pair_basedL Vst nodelist idx nbrs tr rr
    let r' := GenL.dSIR_pair_basedL Vst' nodelist' idx' nbrs tr rr
    (∀ u ∈ nodelist, r'.f (idx' u) = r.f (idx u) ∧ r'.f (N + idx' u) = r.f (N + idx u)) ∧
    (∀ u ∈ nodelist, ∀ v ∈ nodelist,
      r'.f (N + (N + (idx' u * N + idx' v))) = r.f (N + (N + (idx u * N + idx v))) ∧
      r'.f (N + (N + (N * N + (idx' u * N + idx' v)))) = r.f (N + (N + (N * N + (idx u * N + idx v))))) :=
  sirPair_nodelist_perm h h' hp tr rr Vst Vst' hX hY hXY hXX

/-! ## consequences: the labelled code computes the hand models (on the erased data)

Through 1. every theorem of `Props/GenLoops.lean` / `Props/GenLoops2.lean` about the index-level code (hence every
theorem about the hand models `ODE.sisIndividual`, …, `ODE.sirPairBased`) applies to the code as it runs on labels. -/

theorem sisIndividualL_eq_model (nodelist : List Nat) (idx : Nat → Nat) (nbrs : Nat → List Nat)
    (h : LabelOK nodelist idx nbrs) (tr : Nat → Nat → Rat) (rr : Nat → Rat) (Y : Nat → Rat) :
    let N := nodelist.length
    let r := GenL.dSIS_individual_basedL ⟨N, Y⟩ nodelist idx nbrs tr rr
    r.n = N ∧ ∀ i, i < N →
      r.f i = ODE.sisIndividual (eraseNbrs nodelist idx nbrs) (eraseTr nodelist tr) (eraseRr nodelist rr) Y i := by
  intro N r
  simp only [r, sisIndividual_label_erasure nodelist idx nbrs h]
  exact GenEqLoops.gen_sisIndividual N _ _ _ Y

theorem sirIndividualL_eq_model (nodelist : List Nat) (idx : Nat → Nat) (nbrs : Nat → List Nat)
    (h : LabelOK nodelist idx nbrs) (tr : Nat → Nat → Rat) (rr : Nat → Rat) (X Y : Nat → Rat) :
    let N := nodelist.length
    let r := GenL.dSIR_individual_basedL (V.append ⟨N, X⟩ ⟨N, Y⟩) nodelist idx nbrs tr rr
    let m := ODE.sirIndividual (eraseNbrs nodelist idx nbrs) (eraseTr nodelist tr) (eraseRr nodelist rr) X Y
    r.n = N + N ∧ ∀ i, i < N → r.f i = m.1 i ∧ r.f (N + i) = m.2 i := by
  intro N r m
  simp only [r, sirIndividual_label_erasure nodelist idx nbrs h]
  exact GenEqLoops.gen_sirIndividual N _ _ _ X Y

/-- `_dSIS_pair_based_` on labels, packed state `concatenate((Y, XY.flat, XX.flat))`; `G.neighbors` lists every
neighbour once -/
theorem sisPairBasedL_eq_model (nodelist : List Nat) (idx : Nat → Nat) (nbrs : Nat → List Nat)
    (h : LabelOK nodelist idx nbrs) (hn : ∀ u ∈ nodelist, (nbrs u).Nodup) (tr : Nat → Nat → Rat) (rr : Nat → Rat)
    (Y : Nat → Rat) (XY XX : Nat → Nat → Rat) :
    let N := nodelist.length
    let Vst := V.append ⟨N, Y⟩ (V.append (GenEqLoops2.flat N N XY) (GenEqLoops2.flat N N XX))
    let r := GenL.dSIS_pair_basedL Vst nodelist idx nbrs tr rr
    let m := ODE.sisPairBased (eraseNbrs nodelist idx nbrs) (eraseTr nodelist tr) (eraseRr nodelist rr) Y XY XX
    r.n = N + (N * N + N * N) ∧ (∀ i, i < N → r.f i = m.1 i) ∧
    (∀ i j, i < N → j < N → r.f (N + (i * N + j)) = m.2.1 i j ∧ r.f (N + (N * N + (i * N + j))) = m.2.2 i j) := by
  intro N Vst r m
  simp only [r, sisPairBased_label_erasure nodelist idx nbrs h]
  exact GenEqLoops2.sis_pair_based_generated_eq_model N _ _ _ Y XY XX (h.erase_nodup hn) h.erase_bound

/-- `_dSIR_pair_based_` on labels, packed state `concatenate((X, Y, XY.flat, XX.flat))` -/
theorem sirPairBasedL_eq_model (nodelist : List Nat) (idx : Nat → Nat) (nbrs : Nat → List Nat)
    (h : LabelOK nodelist idx nbrs) (hn : ∀ u ∈ nodelist, (nbrs u).Nodup) (tr : Nat → Nat → Rat) (rr : Nat → Rat)
    (X Y : Nat → Rat) (XY XX : Nat → Nat → Rat) :
    let N := nodelist.length
    let Vst := V.append ⟨N, X⟩ (V.append ⟨N, Y⟩ (V.append (GenEqLoops2.flat N N XY) (GenEqLoops2.flat N N XX)))
    let r := GenL.dSIR_pair_basedL Vst nodelist idx nbrs tr rr
    let m := ODE.sirPairBased (eraseNbrs nodelist idx nbrs) (eraseTr nodelist tr) (eraseRr nodelist rr) X Y XY XX
    r.n = N + (N + (N * N + N * N)) ∧ (∀ i, i < N → r.f i = m.1 i ∧ r.f (N + i) = m.2.1 i) ∧
    (∀ i j, i < N → j < N → r.f (N + (N + (i * N + j))) = m.2.2.1 i j ∧
      r.f (N + (N + (N * N + (i * N + j)))) = m.2.2.2 i j) := by
  intro N Vst r m
  simp only [r, sirPairBased_label_erasure nodelist idx nbrs h]
  exact GenEqLoops2.sir_pair_based_generated_eq_model N _ _ _ X Y XY XX (h.erase_nodup hn) h.erase_bound

/-! ## non-vacuity: the path `7 - 3 - 5` (array order `[7, 3, 5]`) against the path `0 - 1 - 2` -/
namespace C14bEx
open GenEqLoops2 (pathNbrs exTr exRr exY exX exXY exXX exVsis exVsir)

def nl : List Nat := [7, 3, 5]
/-- `index_of_node = {7: 0, 3: 1, 5: 2}` -/
def idx : Nat → Nat := fun u => match u with | 7 => 0 | 3 => 1 | 5 => 2 | _ => 99
/-- `G.neighbors` on labels -/
def nbrsL : Nat → List Nat := fun u => match u with | 7 => [3] | 3 => [7, 5] | 5 => [3] | _ => []
/-- rates given on labels (node 7 plays the role of position 0, …) -/
def trL : Nat → Nat → Rat := fun u v => exTr (idx u) (idx v)
def rrL : Nat → Rat := fun u => exRr (idx u)

/-- the hypotheses hold for this instance -/
theorem nl_ok : LabelOK nl idx nbrsL := by
  refine ⟨by decide, ?_, by decide⟩
  intro i hi
  have : i < 3 := hi
  match i, this with
  | 0, _ => rfl
  | 1, _ => rfl
  | 2, _ => rfl

/-- its erasure is the path `0 - 1 - 2` with the rates of `Props/GenLoops2.lean` (on the three positions) -/
example : ∀ i, i < 3 → eraseNbrs nl idx nbrsL i = pathNbrs i ∧ eraseRr nl rrL i = exRr i ∧
    ∀ j, j < 3 → eraseTr nl trL i j = exTr i j := by decide +kernel

/-- labelled code on `[7, 3, 5]` evaluated by the kernel = index-level code on `0 - 1 - 2`, all components -/
example : (GenL.dSIS_individual_basedL ⟨3, exY⟩ nl idx nbrsL trL rrL).toList
    = (Gen.dSIS_individual_based ⟨3, exY⟩ 3 pathNbrs exTr exRr).toList := by decide +kernel
example : (GenL.dSIR_individual_basedL (V.append ⟨3, exX⟩ ⟨3, exY⟩) nl idx nbrsL trL rrL).toList
    = (Gen.dSIR_individual_based (V.append ⟨3, exX⟩ ⟨3, exY⟩) 3 pathNbrs exTr exRr).toList := by decide +kernel
example : (GenL.dSIS_pair_basedL exVsis nl idx nbrsL trL rrL).toList
    = (Gen.dSIS_pair_based exVsis 3 pathNbrs exTr exRr).toList := by decide +kernel
example : (GenL.dSIR_pair_basedL exVsir nl idx nbrsL trL rrL).toList
    = (Gen.dSIR_pair_based exVsir 3 pathNbrs exTr exRr).toList := by decide +kernel
/-- and the common values are non-trivial -/
example : (GenL.dSIS_individual_basedL ⟨3, exY⟩ nl idx nbrsL trL rrL).toList = [-7/96, 1/48, 5/16] := by decide +kernel
example : (GenL.dSIS_pair_basedL exVsis nl idx nbrsL trL rrL).f (3 + (1 * 3 + 2)) = -47 / 25 := by decide +kernel

/-- the theorem applies: the labelled code equals the index-level code on the erased data -/
example : GenL.dSIS_pair_basedL exVsis nl idx nbrsL trL rrL
    = Gen.dSIS_pair_based exVsis 3 (eraseNbrs nl idx nbrsL) (eraseTr nl trL) (eraseRr nl rrL) :=
  sisPairBased_label_erasure nl idx nbrsL nl_ok trL rrL exVsis

/-- relabelling `7 ↦ 10, 3 ↦ 20, 5 ↦ 30` (not monotone w.r.t. the array order, not a permutation of the labels) -/
def f : Nat → Nat := fun u => match u with | 7 => 10 | 3 => 20 | 5 => 30 | _ => 0
def g : Nat → Nat := fun u => match u with | 10 => 7 | 20 => 3 | 30 => 5 | _ => 0
theorem gf : ∀ u ∈ nl, g (f u) = u := by decide

example : nl.map f = [10, 20, 30] ∧ (fun u => (nbrsL (g u)).map f) 20 = [10, 30] ∧ (idx ∘ g) 30 = 2 := by decide
example : GenL.dSIR_pair_basedL exVsir (nl.map f) (idx ∘ g) (fun u => (nbrsL (g u)).map f)
      (fun u v => trL (g u) (g v)) (fun u => rrL (g u))
    = GenL.dSIR_pair_basedL exVsir nl idx nbrsL trL rrL :=
  sirPairBased_relabel f g nl idx nbrsL nl_ok gf trL rrL exVsir
example : (GenL.dSIR_pair_basedL exVsir (nl.map f) (idx ∘ g) (fun u => (nbrsL (g u)).map f)
      (fun u v => trL (g u) (g v)) (fun u => rrL (g u))).toList
    = (GenL.dSIR_pair_basedL exVsir nl idx nbrsL trL rrL).toList := by decide +kernel

/-- edge insertion order: node 3 lists its neighbours as `[5, 7]` instead of `[7, 5]` -/
def nbrsL' : Nat → List Nat := fun u => (nbrsL u).reverse
theorem nbrs_perm : ∀ u, (nbrsL u).Perm (nbrsL' u) := fun u => (List.reverse_perm _).symm
example : nbrsL 3 = [7, 5] ∧ nbrsL' 3 = [5, 7] := by decide
example : GenL.dSIS_pair_basedL exVsis nl idx nbrsL trL rrL = GenL.dSIS_pair_basedL exVsis nl idx nbrsL' trL rrL :=
  sisPairBased_nbr_perm nl idx nbrsL nbrsL' nbrs_perm trL rrL exVsis
example : (GenL.dSIS_pair_basedL exVsis nl idx nbrsL' trL rrL).toList
    = (GenL.dSIS_pair_basedL exVsis nl idx nbrsL trL rrL).toList := by decide +kernel

/-- order of `nodelist`: the same labelled graph listed as `[5, 7, 3]` -/
def nl' : List Nat := [5, 7, 3]
def idx' : Nat → Nat := fun u => match u with | 5 => 0 | 7 => 1 | 3 => 2 | _ => 99
theorem nl'_ok : LabelOK nl' idx' nbrsL := by
  refine ⟨by decide, ?_, by decide⟩
  intro i hi
  have : i < 3 := hi
  match i, this with
  | 0, _ => rfl
  | 1, _ => rfl
  | 2, _ => rfl
/-- the state listed in the order of `nl'` -/
def exY' : Nat → Rat := fun i => exY (idx (nl'.getD i 0))
theorem exY'_ok : ∀ u ∈ nl, (⟨3, exY'⟩ : V).f (idx' u) = (⟨3, exY⟩ : V).f (idx u) := by decide +kernel
example : (GenL.dSIS_individual_basedL ⟨3, exY'⟩ nl' idx' nbrsL trL rrL).f (idx' 7)
    = (GenL.dSIS_individual_basedL ⟨3, exY⟩ nl idx nbrsL trL rrL).f (idx 7) :=
  sisIndividual_nodelist_perm nl nl' idx idx' nbrsL nl_ok nl'_ok (by decide) trL rrL ⟨3, exY⟩ ⟨3, exY'⟩ exY'_ok 7
    (by decide)
/-- entries `[r₀, r₁, r₂]` for `[7, 3, 5]` become `[r₂, r₀, r₁]` for `[5, 7, 3]` -/
example : (GenL.dSIS_individual_basedL ⟨3, exY'⟩ nl' idx' nbrsL trL rrL).toList = [5/16, -7/96, 1/48] := by
  decide +kernel

/-- pair-based: the packed state `(Y, XY, XX)` listed in the order of `nl'` -/
def exXY' : Nat → Nat → Rat := fun i j => exXY (idx (nl'.getD i 0)) (idx (nl'.getD j 0))
def exXX' : Nat → Nat → Rat := fun i j => exXX (idx (nl'.getD i 0)) (idx (nl'.getD j 0))
def exVsis' : V := V.append ⟨3, exY'⟩ (V.append (GenEqLoops2.flat 3 3 exXY') (GenEqLoops2.flat 3 3 exXX'))
/-- `d[X_3 Y_5]/dt` sits at cell `(1, 2)` for `[7, 3, 5]` and at cell `(2, 0)` for `[5, 7, 3]` -/
example : (GenL.dSIS_pair_basedL exVsis' nl' idx' nbrsL trL rrL).f (3 + (idx' 3 * 3 + idx' 5))
    = (GenL.dSIS_pair_basedL exVsis nl idx nbrsL trL rrL).f (3 + (idx 3 * 3 + idx 5)) :=
  ((sisPairBased_nodelist_perm nl nl' idx idx' nbrsL nl_ok nl'_ok (by decide) trL rrL exVsis exVsis'
    (by decide +kernel) (by decide +kernel) (by decide +kernel)).2 3 (by decide) 5 (by decide)).1
example : (GenL.dSIS_pair_basedL exVsis' nl' idx' nbrsL trL rrL).f (3 + (2 * 3 + 0)) = -47 / 25 := by decide +kernel

/-- the labelled code computes the hand model: `d[X_3 Y_5]/dt` (positions 1, 2) -/
example : (GenL.dSIS_pair_basedL exVsis nl idx nbrsL trL rrL).f (3 + (1 * 3 + 2))
    = (ODE.sisPairBased (eraseNbrs nl idx nbrsL) (eraseTr nl trL) (eraseRr nl rrL) exY exXY exXX).2.1 1 2 :=
  ((sisPairBasedL_eq_model nl idx nbrsL nl_ok (by decide) trL rrL exY exXY exXX).2.2 1 2 (by decide) (by decide)).1


end C14bEx

end GenLabel
