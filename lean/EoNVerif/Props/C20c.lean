import EoNVerif.Proofs.GenHelp
import EoNVerif.Props.C20
/-!
C20c — the C20 statements about the degree-distribution helpers for the Lean code GENERATED from `EoN/analytic.py`
(`GenHelp.get_Pk`, `get_PGF`, `get_PGFPrime`, `get_PGFDPrime`, `estimate_R0` of Gen/HelpersGen.lean), obtained by proving
the generated code equal to the hand-written models `Helpers.Pk / psi / psiP / psiDP / R0` of C20, for ALL inputs.
Lemmas: Proofs/GenHelp.lean.

Error domains found (exact):
* `get_Pk` never raises — not even for an empty degree list (`Counter([])` is empty, the division by `len(degs) = 0` sits
  inside the comprehension and is never reached): `get_Pk [] = .ok []`.
* `get_PGF*` raise ValueError exactly for the empty dict (`max(Pk.keys())`).
* `estimate_R0`: first the transmissibility (EoNError when `transmissibility`, and `tau` or `gamma`, are missing;
  ZeroDivisionError when `tau + gamma = 0`), THEN ValueError for an empty graph (from `get_PGFDPrime({})`, not a
  ZeroDivisionError), then ZeroDivisionError when `ψ'(1) = 0`, i.e. when every degree is 0.
-/
namespace GenHelpDeg
open GenHelpProofs

/-! ### 1. get_Pk -/

/-- **generated get_Pk**, every `degs` (also `[]`): never an error; the keys are the distinct degrees in order of first
occurrence (`List.eraseDups` keeps first occurrences), without repetition, and the stored / defaulted value at every `k`
(key or not) is `Helpers.Pk degs k = N_k / N` -/
theorem gen_get_Pk_spec (degs : List Nat) :
    ∃ d : List (Nat × Rat), GenHelp.get_Pk degs = .ok d ∧
      d.map (·.1) = degs.eraseDups ∧ (d.map (·.1)).Nodup ∧ (∀ k, k ∈ d.map (·.1) ↔ k ∈ degs) ∧
      ∀ k, alGet d 0 k = Helpers.Pk degs k := by
  refine ⟨PkAL degs, get_Pk_eq degs, PkAL_keys degs, ?_, ?_, PkAL_get degs⟩
  · rw [PkAL_keys]; exact nodup_eraseDups degs
  · intro k; rw [PkAL_keys]; exact List.mem_eraseDups

/-- the empty degree list gives the empty dict — no ZeroDivisionError -/
theorem gen_get_Pk_nil : GenHelp.get_Pk [] = .ok [] := rfl

/-- a degree that does not occur: the dict has no such key and both sides are 0 -/
theorem gen_get_Pk_absent (degs : List Nat) (d : List (Nat × Rat)) (h : GenHelp.get_Pk degs = .ok d) (k : Nat)
    (hk : k ∉ degs) : alHas d k = false ∧ alGet d 0 k = 0 ∧ Helpers.Pk degs k = 0 := by
  rw [get_Pk_eq] at h
  injection h with h
  subst h
  have h0 : Helpers.Pk degs k = 0 := by
    have : Helpers.countEq degs k = 0 := by
      unfold Helpers.countEq
      rw [List.length_eq_zero_iff, List.filter_eq_nil_iff]
      intro a ha
      have : a ≠ k := fun e => hk (e ▸ ha)
      simpa using this
    simp [Helpers.Pk, this]
  refine ⟨?_, by rw [PkAL_get, h0], h0⟩
  cases hh : alHas (PkAL degs) k with
  | false => rfl
  | true =>
    have := (mem_alKeys_iff (PkAL degs) k).2 hh
    rw [alKeys, PkAL_keys, List.mem_eraseDups] at this
    exact absurd this hk

/-- the stored value times `N` is the number of nodes of degree `k` (C20 `Pk_hist`) -/
theorem gen_Pk_hist (degs : List Nat) (hne : degs ≠ []) (d : List (Nat × Rat)) (h : GenHelp.get_Pk degs = .ok d) (k : Nat) :
    alGet d 0 k * (degs.length : Rat) = (Helpers.countEq degs k : Rat) := by
  rw [get_Pk_eq] at h
  injection h with h
  subst h
  rw [PkAL_get]
  exact Helpers.Pk_hist degs hne k

/-! ### 2. the generating functions -/

/-- **generated get_PGF ∘ get_Pk = ψ** (as functions), for every non-empty degree list -/
theorem gen_get_PGF_eq (degs : List Nat) (hne : degs ≠ []) (d : List (Nat × Rat)) (h : GenHelp.get_Pk degs = .ok d) :
    GenHelp.get_PGF d = .ok (Helpers.psi degs) := by
  rw [get_Pk_eq] at h
  injection h with h
  subst h
  exact get_PGF_PkAL degs hne

theorem gen_get_PGFPrime_eq (degs : List Nat) (hne : degs ≠ []) (d : List (Nat × Rat)) (h : GenHelp.get_Pk degs = .ok d) :
    GenHelp.get_PGFPrime d = .ok (Helpers.psiP degs) := by
  rw [get_Pk_eq] at h
  injection h with h
  subst h
  exact get_PGFPrime_PkAL degs hne

theorem gen_get_PGFDPrime_eq (degs : List Nat) (hne : degs ≠ []) (d : List (Nat × Rat)) (h : GenHelp.get_Pk degs = .ok d) :
    GenHelp.get_PGFDPrime d = .ok (Helpers.psiDP degs) := by
  rw [get_Pk_eq] at h
  injection h with h
  subst h
  exact get_PGFDPrime_PkAL degs hne

/-- the empty dict: `max()` of an empty sequence -/
theorem gen_get_PGF_valueError : GenHelp.get_PGF [] = .error "ValueError" := rfl
theorem gen_get_PGFPrime_valueError : GenHelp.get_PGFPrime [] = .error "ValueError" := rfl
theorem gen_get_PGFDPrime_valueError : GenHelp.get_PGFDPrime [] = .error "ValueError" := rfl

/-- … in particular the three helpers fail on the result of `get_Pk` for an empty graph -/
theorem gen_get_PGF_empty_graph (d : List (Nat × Rat)) (h : GenHelp.get_Pk [] = .ok d) :
    GenHelp.get_PGF d = .error "ValueError" := by
  injection h with h
  subst h
  rfl

/-- an arbitrary non-empty dict `Pk` (keys possibly repeated — `alGet` reads the first binding —, values arbitrary):
`get_PGF(Pk)(x) = Σ_{k ≤ max key} Pk.get(k,0)·x^k`, and the two derivatives term by term -/
theorem gen_get_PGF_general (Pk : List (Nat × Rat)) (h : Pk ≠ []) :
    GenHelp.get_PGF Pk = .ok (fun x =>
      sumRat ((List.range (maxKeyVal Pk + 1)).map fun k => alGet Pk 0 k * x ^ k)) :=
  get_PGF_ok Pk h
theorem gen_get_PGFPrime_general (Pk : List (Nat × Rat)) (h : Pk ≠ []) :
    GenHelp.get_PGFPrime Pk = .ok (fun x =>
      sumRat ((List.range (maxKeyVal Pk + 1)).map fun k => alGet Pk 0 k * (((k : Nat) : Rat) * x ^ (k - 1)))) :=
  get_PGFPrime_ok Pk h
theorem gen_get_PGFDPrime_general (Pk : List (Nat × Rat)) (h : Pk ≠ []) :
    GenHelp.get_PGFDPrime Pk = .ok (fun x =>
      sumRat ((List.range (maxKeyVal Pk + 1)).map fun k =>
        alGet Pk 0 k * ((((k : Nat) : Rat) * (((k : Nat) : Rat) - 1)) * x ^ (k - 2)))) :=
  get_PGFDPrime_ok Pk h

/-- `maxKeyVal` is the largest key: an upper bound that is attained -/
theorem maxKeyVal_spec (Pk : List (Nat × Rat)) (h : Pk ≠ []) :
    (∀ k ∈ Pk.map (·.1), k ≤ maxKeyVal Pk) ∧ maxKeyVal Pk ∈ Pk.map (·.1) := by
  refine ⟨Helpers.le_maxDeg _, ?_⟩
  unfold maxKeyVal Helpers.maxDeg
  generalize hl : Pk.map (·.1) = l
  have hne : l ≠ [] := by
    rw [← hl]
    simpa using h
  clear hl h
  have key : ∀ (t : List Nat) (init : Nat), t.foldl max init = init ∨ t.foldl max init ∈ t := by
    intro t
    induction t with
    | nil => intro init; left; rfl
    | cons a t ih =>
      intro init
      rcases ih (max init a) with h | h
      · rcases Nat.le_total init a with hia | hia
        · right; rw [List.foldl_cons, h, Nat.max_eq_right hia]; simp
        · left; rw [List.foldl_cons, h, Nat.max_eq_left hia]
      · right; rw [List.foldl_cons]; exact List.mem_cons_of_mem _ h
  cases l with
  | nil => exact absurd rfl hne
  | cons a t =>
    rw [List.foldl_cons, Nat.zero_max]
    rcases key t a with h | h
    · rw [h]; simp
    · exact List.mem_cons_of_mem _ h


/-! ### 3. get_Pnk -/

/-- **generated get_Pnk, any list of neighbour-degree lists** (no graph needed): never an error — in particular no
ZeroDivisionError: `1/(k1·N_{k1})` is only evaluated inside the loop over the neighbours of a node of degree `k1 ≥ 1`, and
that node is counted in `N_{k1}` — and `Pnk[k1][k2] = Σ_{nodes of degree k1} #{neighbours of degree k2} / (k1·N_{k1})` -/
theorem gen_get_Pnk_general (nbrdegs : List (List Nat)) :
    ∃ P, GenHelp.get_Pnk nbrdegs = .ok P ∧ ∀ k1 k2, alGet (alGet P [] k1) 0 k2 = sumRat (nbrdegs.map fun row =>
      if row.length = k1 then (Helpers.countEq row k2 : Rat) *
        (1 / (((k1 : Nat) : Rat) * ((Helpers.countEq (nbrdegs.map (·.length)) k1 : Nat) : Rat))) else 0) :=
  get_Pnk_eq nbrdegs

/-- **generated get_Pnk = model `Helpers.Pnk`** for the neighbour-degree lists `nbrDegs adj` of ANY adjacency lists `adj`
(`nbrDegs adj = adj.map (fun nb => nb.map (fun v => (adj.getD v []).length))`).  No hypothesis is needed: neither
symmetry, nor absence of repeated neighbours / loops, nor indices `< adj.length` (an out-of-range index has degree 0 on
both sides). -/
theorem gen_get_Pnk_eq (adj : List (List Nat)) :
    ∃ P, GenHelp.get_Pnk (nbrDegs adj) = .ok P ∧ ∀ k1 k2, alGet (alGet P [] k1) 0 k2 = Helpers.Pnk adj k1 k2 :=
  get_Pnk_adj adj

/-- the rows of the generated `Pnk` sum to 1 for every degree `k1 ≥ 1` that occurs (C20 `Pnk_row_sum`, transported; its
well-formedness hypothesis on the neighbour indices is not used) -/
theorem gen_Pnk_row_sum (adj : List (List Nat))
    (k1 : Nat) (hk : 0 < k1) (hex : 0 < Helpers.countEq (adj.map (·.length)) k1) :
    ∃ P, GenHelp.get_Pnk (nbrDegs adj) = .ok P ∧
      sumRat ((List.range (Helpers.maxDeg (adj.map (·.length)) + 1)).map fun k2 => alGet (alGet P [] k1) 0 k2) = 1 := by
  obtain ⟨P, h1, h2⟩ := get_Pnk_adj adj
  refine ⟨P, h1, ?_⟩
  have := Helpers.Pnk_row_sum_aux adj k1 hk hex
  rw [← this]
  apply sumRat_map_congr
  intro k2 _
  exact h2 k1 k2

/-! ### 4. estimate_R0 -/

/-- **generated estimate_R0, all inputs**: the transmissibility is resolved first (`resolveT`: the given one, else
`tau/(tau+gamma)`; EoNError when `tau` or `gamma` is missing, ZeroDivisionError when `tau + gamma = 0`); then an empty
graph raises ValueError, a graph with `ψ'(1) = 0` raises ZeroDivisionError, and otherwise the result is the model
`Helpers.R0 degs T = T ψ''(1)/ψ'(1)` -/
theorem gen_estimate_R0_eq (degs : List Nat) (tau gamma tr : Option Rat) :
    GenHelp.estimate_R0 degs tau gamma tr = resolveT tau gamma tr >>= fun T =>
      if degs = [] then .error "ValueError"
      else if Helpers.psiP degs 1 = 0 then .error "ZeroDivisionError"
      else .ok (Helpers.R0 degs T) :=
  estimate_R0_eq degs tau gamma tr

/-- `ψ'(1) = 0` means: every node is isolated -/
theorem gen_psiP_one_eq_zero_iff (degs : List Nat) (hne : degs ≠ []) :
    Helpers.psiP degs 1 = 0 ↔ ∀ d ∈ degs, d = 0 := psiP_one_eq_zero_iff degs hne

/-- success, transmissibility given (`tau`, `gamma` are then ignored, even if their sum is 0) -/
theorem gen_estimate_R0_ok_T (degs : List Nat) (tau gamma : Option Rat) (T : Rat) (hne : degs ≠ [])
    (hpos : ∃ d ∈ degs, d ≠ 0) : GenHelp.estimate_R0 degs tau gamma (some T) = .ok (Helpers.R0 degs T) := by
  have h0 : ¬ Helpers.psiP degs 1 = 0 := by
    rw [psiP_one_eq_zero_iff degs hne]
    intro hall
    obtain ⟨d, hd, hd0⟩ := hpos
    exact hd0 (hall d hd)
  simp [estimate_R0_eq, resolveT, hne, h0]

/-- success, transmissibility computed from the rates -/
theorem gen_estimate_R0_ok_rates (degs : List Nat) (tau gamma : Rat) (hne : degs ≠ []) (hpos : ∃ d ∈ degs, d ≠ 0)
    (hr : tau + gamma ≠ 0) :
    GenHelp.estimate_R0 degs (some tau) (some gamma) none = .ok (Helpers.R0 degs (tau / (tau + gamma))) := by
  have h0 : ¬ Helpers.psiP degs 1 = 0 := by
    rw [psiP_one_eq_zero_iff degs hne]
    intro hall
    obtain ⟨d, hd, hd0⟩ := hpos
    exact hd0 (hall d hd)
  simp [estimate_R0_eq, resolveT, hne, h0, hr]

/-- EoNError exactly when no transmissibility is given and a rate is missing — whatever the graph (also the empty one) -/
theorem gen_estimate_R0_EoNError (degs : List Nat) (tau gamma tr : Option Rat) :
    GenHelp.estimate_R0 degs tau gamma tr = .error "EoNError" ↔ tr = none ∧ (tau = none ∨ gamma = none) := by
  rw [estimate_R0_eq]
  cases tr with
  | some t =>
    simp only [resolveT, ok_bind]
    split
    · simp
    · split <;> simp
  | none =>
    cases tau with
    | none => simp [resolveT]
    | some a =>
      cases gamma with
      | none => simp [resolveT]
      | some b =>
        simp only [resolveT]
        split
        · simp
        · simp only [ok_bind]
          split
          · simp
          · split <;> simp

/-- ValueError exactly for an empty graph whose transmissibility could be resolved -/
theorem gen_estimate_R0_valueError (degs : List Nat) (tau gamma tr : Option Rat) :
    GenHelp.estimate_R0 degs tau gamma tr = .error "ValueError" ↔ degs = [] ∧ ∃ T, resolveT tau gamma tr = .ok T := by
  rw [estimate_R0_eq]
  cases hT : resolveT tau gamma tr with
  | error e =>
    have he : e = "ZeroDivisionError" ∨ e = "EoNError" := by
      unfold resolveT at hT
      split at hT
      · cases hT
      · split at hT
        · split at hT
          · injection hT with hT; left; exact hT.symm
          · cases hT
        · injection hT with hT; right; exact hT.symm
    rcases he with rfl | rfl <;> simp
  | ok T =>
    simp only [ok_bind]
    split
    · simp [*]
    · split <;> simp [*]

/-- ZeroDivisionError exactly when (no transmissibility and `tau + gamma = 0`) or (the transmissibility is resolved,
the graph is non-empty and all degrees are 0) -/
theorem gen_estimate_R0_zeroDivision (degs : List Nat) (tau gamma tr : Option Rat) :
    GenHelp.estimate_R0 degs tau gamma tr = .error "ZeroDivisionError" ↔
      resolveT tau gamma tr = .error "ZeroDivisionError" ∨
      ((∃ T, resolveT tau gamma tr = .ok T) ∧ degs ≠ [] ∧ ∀ d ∈ degs, d = 0) := by
  rw [estimate_R0_eq]
  cases hT : resolveT tau gamma tr with
  | error e => simp
  | ok T =>
    simp only [ok_bind]
    by_cases hne : degs = []
    · simp [hne]
    · rw [← psiP_one_eq_zero_iff degs hne]
      by_cases h0 : Helpers.psiP degs 1 = 0 <;> simp [hne, h0]

theorem gen_resolveT_zeroDivision (tau gamma tr : Option Rat) :
    resolveT tau gamma tr = .error "ZeroDivisionError" ↔
      tr = none ∧ ∃ a b, tau = some a ∧ gamma = some b ∧ a + b = 0 := by
  cases tr with
  | some t => simp [resolveT]
  | none =>
    cases tau with
    | none => simp [resolveT]
    | some a =>
      cases gamma with
      | none => simp [resolveT]
      | some b =>
        by_cases h : a + b = 0 <;> simp [resolveT, h]

/-! ### 5. the C20 facts, on the generated code -/

/-- Σ_k of the generated `Pk` is 1 (sum over `0..max key` through `dict.get(k, 0)`) -/
theorem gen_Pk_sum_one (degs : List Nat) (hne : degs ≠ []) (d : List (Nat × Rat)) (h : GenHelp.get_Pk degs = .ok d) :
    sumRat ((List.range (maxKeyVal d + 1)).map fun k => alGet d 0 k) = 1 := by
  rw [get_Pk_eq] at h
  injection h with h
  subst h
  rw [PkAL_maxKey]
  simp only [PkAL_get]
  exact Helpers.Pk_sum_one degs hne

/-- the largest key of the generated dict is the largest degree -/
theorem gen_Pk_maxKey (degs : List Nat) (d : List (Nat × Rat)) (h : GenHelp.get_Pk degs = .ok d) :
    maxKeyVal d = Helpers.maxDeg degs := by
  rw [get_Pk_eq] at h
  injection h with h
  subst h
  exact PkAL_maxKey degs

/-- ψ(1) = 1, ψ'(1) = ⟨k⟩, ψ''(1) = ⟨k(k−1)⟩ for the functions returned by the generated code -/
theorem gen_PGF_at_one (degs : List Nat) (hne : degs ≠ []) (d : List (Nat × Rat)) (h : GenHelp.get_Pk degs = .ok d) :
    ∃ f f1 f2 : Rat → Rat, GenHelp.get_PGF d = .ok f ∧ GenHelp.get_PGFPrime d = .ok f1 ∧
      GenHelp.get_PGFDPrime d = .ok f2 ∧ f 1 = 1 ∧ f1 1 = Helpers.meanDeg degs (fun k => (k : Rat)) ∧
      f2 1 = Helpers.meanDeg degs (fun k => (k : Rat) * ((k : Rat) - 1)) :=
  ⟨_, _, _, gen_get_PGF_eq degs hne d h, gen_get_PGFPrime_eq degs hne d h, gen_get_PGFDPrime_eq degs hne d h,
    Helpers.psi_one degs hne, Helpers.psiP_one degs hne, Helpers.psiDP_one degs hne⟩

/-- the returned functions are a polynomial, its derivative and its second derivative (C20, transported) -/
theorem gen_PGF_derivatives (degs : List Nat) (hne : degs ≠ []) (d : List (Nat × Rat)) (h : GenHelp.get_Pk degs = .ok d) :
    ∃ f f1 f2 : Rat → Rat, GenHelp.get_PGF d = .ok f ∧ GenHelp.get_PGFPrime d = .ok f1 ∧
      GenHelp.get_PGFDPrime d = .ok f2 ∧ ∀ x, f x = (Helpers.psiPoly degs).eval x ∧
        f1 x = (Polynomial.derivative (Helpers.psiPoly degs)).eval x ∧
        f2 x = (Polynomial.derivative (Polynomial.derivative (Helpers.psiPoly degs))).eval x :=
  ⟨_, _, _, gen_get_PGF_eq degs hne d h, gen_get_PGFPrime_eq degs hne d h, gen_get_PGFDPrime_eq degs hne d h,
    fun x => ⟨Helpers.psi_eval degs x, Helpers.psiP_is_derivative degs x, Helpers.psiDP_is_second_derivative degs x⟩⟩

/-- **generated estimate_R0 = T⟨k²−k⟩/⟨k⟩** whenever it returns -/
theorem gen_R0_formula (degs : List Nat) (tau gamma tr : Option Rat) (r : Rat)
    (h : GenHelp.estimate_R0 degs tau gamma tr = .ok r) :
    ∃ T, resolveT tau gamma tr = .ok T ∧ degs ≠ [] ∧
      r = T * Helpers.meanDeg degs (fun k => (k : Rat) * ((k : Rat) - 1)) / Helpers.meanDeg degs (fun k => (k : Rat)) := by
  rw [estimate_R0_eq] at h
  cases hT : resolveT tau gamma tr with
  | error e => rw [hT] at h; cases h
  | ok T =>
    rw [hT] at h
    simp only [ok_bind] at h
    by_cases hne : degs = []
    · simp [hne] at h
    · by_cases h0 : Helpers.psiP degs 1 = 0
      · simp [hne, h0] at h
      · simp only [hne, h0, if_false] at h
        injection h with h
        exact ⟨T, rfl, hne, by rw [← h, Helpers.R0_formula degs hne]⟩

end GenHelpDeg

/-! ### non-vacuity (kernel-checked runs of the generated code) -/

-- first-occurrence key order, exact fractions
example : GenHelp.get_Pk [3, 1, 3, 2] = .ok [(3, 1/2), (1, 1/4), (2, 1/4)] := by decide +kernel
example : GenHelp.get_Pk [] = .ok [] := by decide +kernel
-- ψ(2), ψ'(2), ψ''(2) for Pk = {1: 1/2, 3: 1/2}: (2 + 8)/2, (1 + 12)/2, 6·2/2
example : (GenHelp.get_PGF [(1, 1/2), (3, 1/2)]).map (· 2) = .ok 5 ∧
    (GenHelp.get_PGFPrime [(1, 1/2), (3, 1/2)]).map (· 2) = .ok (13/2) ∧
    (GenHelp.get_PGFDPrime [(1, 1/2), (3, 1/2)]).map (· 2) = .ok 6 := by decide +kernel
example : (GenHelp.get_PGF ([] : List (Nat × Rat))).map (· 2) = .error "ValueError" := by decide +kernel
-- estimate_R0 on the star with 3 leaves: ⟨k²−k⟩/⟨k⟩ = (6/4)/(6/4) = 1
example : GenHelp.estimate_R0 [3, 1, 1, 1] (some 1) (some 1) none = .ok (1/2) := by decide +kernel
example : GenHelp.estimate_R0 [3, 1, 1, 1] none none (some (1/3)) = .ok (1/3) := by decide +kernel
-- the error branches and their precedence
example : GenHelp.estimate_R0 [3, 1, 1, 1] (some 1) none none = .error "EoNError" ∧
    GenHelp.estimate_R0 [] none (some 1) none = .error "EoNError" ∧
    GenHelp.estimate_R0 [] (some 1) (some (-1)) none = .error "ZeroDivisionError" ∧
    GenHelp.estimate_R0 [] (some 1) (some 1) none = .error "ValueError" ∧
    GenHelp.estimate_R0 [0, 0] (some 1) (some 1) none = .error "ZeroDivisionError" ∧
    GenHelp.estimate_R0 [0, 0] (some 1) (some (-1)) (some 2) = .error "ZeroDivisionError" ∧
    GenHelp.estimate_R0 [1, 1] (some 1) (some (-1)) (some 2) = .ok 0 := by decide +kernel
-- get_Pnk on the path 0 – 1 – 2 (degrees 1, 2, 1): a degree-1 node always sees degree 2, a degree-2 node degree 1
example : GenHelp.get_Pnk (GenHelpProofs.nbrDegs [[1], [0, 2], [1]]) = .ok [(1, [(2, 1)]), (2, [(1, 1)])] := by
  decide +kernel
-- an isolated node: its (empty) row exists, no division is attempted
example : GenHelp.get_Pnk [[], [1], [1]] = .ok [(0, []), (1, [(1, 1)])] := by decide +kernel
example : GenHelp.get_Pnk [] = .ok [] := by decide +kernel
