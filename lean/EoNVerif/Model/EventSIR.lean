import EoNVerif.Basic
/-!
Model of the event-driven SIR simulator `fast_nonMarkov_SIR` (simulation.py 2293–2380) with `myQueue` (24–64),
`_process_trans_SIR_` (1850–1879) and `_process_rec_SIR_` (1909–1913).

User rules are total tables: `joint u sus` is what `trans_and_rec_time_fxn(u, sus)` returns — the list of
(neighbour, delay) pairs in dictionary order and the duration; delays/durations live in `ERat` (`none` = inf).
The priority queue is a list in insertion order (insertion index = the tie-breaking `counter`); `pop` takes an
event of minimal time, the `sel`-th among the simultaneous ones (`sel = 0` is `heapq`'s choice: smallest counter).
The theorems quantify over every `sel`, i.e. over all orders in which simultaneous events can be met.
-/

inductive QEv
  | trans (src : Option Node) (tgt : Node)
  | recov (u : Node)
deriving DecidableEq, Repr

structure QItem where
  time : Rat
  ev : QEv
deriving DecidableEq, Repr

structure ESParams where
  nodes : List Node
  nbrs : Node → List Node
  joint : Node → List Node → List (Node × ERat) × ERat
  tmin : Rat
  tmax : ERat

structure ESState where
  status : Node → St
  recTime : Node → ERat
  predInf : Node → ERat
  queue : List QItem
  times : List Rat
  S : List Int
  I : List Int
  R : List Int
  trans : List (Rat × Option Node × Node)

namespace EventSIR

/-- joint rule built from separate delay / duration tables (`_find_trans_and_rec_delays_SIR_`) -/
def jointOfTables (delay : Node → Node → ERat) (dur : Node → ERat) : Node → List Node → List (Node × ERat) × ERat :=
  fun u sus => (sus.map fun v => (v, delay u v), dur u)

/-- `Q.add(time, …)`: only events strictly before `tmax` are stored -/
def qadd (tmax : ERat) (q : List QItem) (t : Rat) (e : QEv) : List QItem :=
  if ERat.lt (some t) tmax then q ++ [⟨t, e⟩] else q

def minTime : List QItem → Option Rat
  | [] => none
  | x :: xs => match minTime xs with
    | none => some x.time
    | some m => some (if x.time ≤ m then x.time else m)

/-- indices of the events with minimal time, in insertion order -/
def minIdxs (q : List QItem) : List Nat :=
  match minTime q with
  | none => []
  | some m => (List.range q.length).filter fun i => (q[i]?.map (·.time)) == some m

/-- pop an event of minimal time (the `sel`-th simultaneous one) -/
def pop (sel : Nat) (q : List QItem) : Option (QItem × List QItem) :=
  let c := minIdxs q
  match c[sel % c.length]? with
  | none => none
  | some i => match q[i]? with
    | none => none
    | some x => some (x, q.eraseIdx i)

def hd (l : List Int) : Int := l.headD 0

/-- the loop `for v in trans_delay:` of `_process_trans_SIR_` -/
def schedule (tmax : ERat) (time : Rat) (src : Node) (recT : ERat) :
    List (Node × ERat) → (Node → ERat) → List QItem → (Node → ERat) × List QItem
  | [], pred, q => (pred, q)
  | (v, d) :: rest, pred, q =>
    let infT := ERat.add (some time) d
    if ERat.le infT recT ∧ ERat.lt infT (pred v) ∧ ERat.le infT tmax then
      match infT with
      | some t => schedule tmax time src recT rest (fset pred v infT) (qadd tmax q t (QEv.trans (some src) v))
      | none => schedule tmax time src recT rest (fset pred v infT) q     -- Q.add(inf) never stores
    else schedule tmax time src recT rest pred q

def processTrans (P : ESParams) (s : ESState) (time : Rat) (src : Option Node) (tgt : Node) : ESState :=
  if s.status tgt = St.S then
    let status := fset s.status tgt St.I
    let sus := (P.nbrs tgt).filter fun v => status v = St.S
    let (delays, recDelay) := P.joint tgt sus
    let recT := ERat.add (some time) recDelay
    let q1 := if ERat.le recT P.tmax then
        (match recT with | some t => qadd P.tmax s.queue t (QEv.recov tgt) | none => s.queue)
      else s.queue
    let (pred, q2) := schedule P.tmax time tgt recT delays s.predInf q1
    { s with status := status, recTime := fset s.recTime tgt recT, predInf := pred, queue := q2,
             times := time :: s.times, S := (hd s.S - 1) :: s.S, I := (hd s.I + 1) :: s.I, R := hd s.R :: s.R,
             trans := (time, src, tgt) :: s.trans }
  else s

def processRec (s : ESState) (time : Rat) (u : Node) : ESState :=
  { s with status := fset s.status u St.R, times := time :: s.times,
           S := hd s.S :: s.S, I := (hd s.I - 1) :: s.I, R := (hd s.R + 1) :: s.R }

def step (P : ESParams) (sel : Nat) (s : ESState) : Option ESState :=
  match pop sel s.queue with
  | none => none
  | some (x, q) =>
    let s' := { s with queue := q }
    match x.ev with
    | .trans src tgt => some (processTrans P s' x.time src tgt)
    | .recov u => some (processRec s' x.time u)

/-- `while Q: Q.pop_and_run()` ; `sel k` is the tie-breaking choice at step `k` -/
def loop (P : ESParams) (sel : Nat → Nat) : Nat → Nat → ESState → ESState
  | 0, _, s => s
  | fuel + 1, k, s =>
    match step P (sel k) s with
    | none => s
    | some s' => loop P sel fuel (k + 1) s'

def initQueue (P : ESParams) : List Node → List QItem → List QItem
  | [], q => q
  | u :: rest, q => initQueue P rest (qadd P.tmax q P.tmin (QEv.trans none u))

def init (P : ESParams) (infs recs : List Node) : ESState :=
  let nrec : Int := recs.length
  { status := fun v => if v ∈ recs then St.R else St.S,
    recTime := fun v => if v ∈ recs then some P.tmin else some (P.tmin - 1),
    predInf := fun v => if v ∈ infs then some P.tmin else none,
    queue := initQueue P infs [],
    times := [P.tmin], S := [(P.nodes.length : Int) - nrec], I := [0], R := [nrec], trans := [] }

/-- the whole function up to the construction of the return value; rows still include the synthetic initial ones -/
def run (P : ESParams) (sel : Nat → Nat) (infs recs : List Node) (fuel : Nat) : ESState :=
  loop P sel fuel 0 (init P infs recs)

/-- `times[len(initial_infecteds):]` etc. -/
def rows (s : ESState) (k : Nat) : List Rat × List Int × List Int × List Int :=
  (s.times.reverse.drop k, s.S.reverse.drop k, s.I.reverse.drop k, s.R.reverse.drop k)

/-! ### Specification: first-passage percolation -/

/-- `u → v` is kept iff `v` is a neighbour and `delay(u,v) ≤ duration(u)` -/
def keeps (nbrs : Node → List Node) (delay : Node → Node → ERat) (dur : Node → ERat) (u v : Node) : Bool :=
  (nbrs u).contains v && ERat.le (delay u v) (dur u)

def emin (a b : ERat) : ERat := if ERat.le a b then a else b

/-- one Bellman–Ford round over the kept edges, recovered nodes removed; distances are kept as a table
(association list over `nodes`) so that evaluation is polynomial -/
def relax (nodes : List Node) (nbrs : Node → List Node) (delay : Node → Node → ERat) (dur : Node → ERat)
    (recs : List Node) (d : List (Node × ERat)) : List (Node × ERat) :=
  nodes.map fun v => (v,
    if v ∈ recs then none else
      nodes.foldl (fun acc u =>
        if u ∉ recs ∧ keeps nbrs delay dur u v then emin acc (ERat.add (alGet d none u) (delay u v)) else acc)
        (alGet d none v))

def iter {α : Type} (f : α → α) : Nat → α → α
  | 0, x => x
  | n + 1, x => iter f n (f x)

/-- earliest possible infection times: `tmin` + shortest-path distance from the initial set -/
def fppTime (nodes : List Node) (nbrs : Node → List Node) (delay : Node → Node → ERat) (dur : Node → ERat)
    (tmin : Rat) (infs recs : List Node) : Node → ERat :=
  alGet (iter (relax nodes nbrs delay dur recs) nodes.length
    (nodes.map fun v => (v, if v ∈ infs ∧ v ∉ recs then some tmin else none))) none

end EventSIR

namespace EventSIR

/-- C11 predicate on an output (list of transmissions `(t, infector, node)` and recoveries `(t, node)`):
every node is reported infected exactly at its first-passage time when that is before `tmax` and not at all
otherwise; its recorded infector is a predecessor on a shortest path; it recovers `dur` later iff that is before
`tmax`. -/
def isFPP (nodes : List Node) (nbrs : Node → List Node) (delay : Node → Node → ERat) (dur : Node → ERat)
    (tmin : Rat) (tmax : ERat) (infs recs : List Node)
    (trans : List (Rat × Option Node × Node)) (recov : List (Rat × Node)) : Bool :=
  let T := fppTime nodes nbrs delay dur tmin infs recs
  let infT := fun (v : Node) => (trans.find? fun e => e.2.2 == v).map (·.1)
  nodes.all (fun v =>
    -- reported iff first-passage time < tmax, and at that time; at most one report
    (match T v with
     | some t => if ERat.lt (some t) tmax then infT v == some t else infT v == none
     | none => infT v == none)
    && (trans.filter fun e => e.2.2 == v).length ≤ 1
    && (recov.filter fun e => e.2 == v).length ≤ 1
    -- recovery
    && (match infT v with
        | some t =>
          let r := ERat.add (some t) (dur v)
          (match r with
           | some rt => if ERat.lt r tmax then recov.contains (rt, v) else !(recov.any fun e => e.2 == v)
           | none => !(recov.any fun e => e.2 == v))
        | none => !(recov.any fun e => e.2 == v) || recs.contains v))
  && trans.all (fun e =>
      match e.2.1 with
      | none => infs.contains e.2.2 && e.1 == tmin
      | some u => keeps nbrs delay dur u e.2.2 && !recs.contains u
                  && (match infT u with
                      | some tu => ERat.add (some tu) (delay u e.2.2) == some e.1
                      | none => false))

end EventSIR

namespace EventSIR
/-- out-component of the initial set in the kept-edge digraph with the recovered nodes removed
(`get_infected_nodes`): `N` rounds of one-step expansion -/
def outComp (nodes : List Node) (nbrs : Node → List Node) (delay : Node → Node → ERat) (dur : Node → ERat)
    (infs recs : List Node) : List Node :=
  let expand := fun (cur : List Node) =>
    nodes.filter fun v => v ∉ recs ∧ (cur.contains v || cur.any fun u => keeps nbrs delay dur u v)
  iter expand nodes.length (nodes.filter fun v => v ∈ infs ∧ v ∉ recs)
end EventSIR
