#!/usr/bin/env python3
"""pydisc2lean — translator for the discrete-time simulators of EoN/simulation.py -> lean/EoNVerif/Gen/DiscreteGen.lean.

Translated, statement by statement from the ast of /repo's working tree:
* `discrete_SIR`: everything from `if return_full_data:` (full-data set-up) to the end of the generation loop —
  initial rows, the `susceptible` flags, the generation loop with both branches of the contact test, the transmission
  records with `random.choice(infector[v])`, the node histories, the default and the user recovery rule, the rows.
* `basic_discrete_SIS`: the same slice (set-up, generation loop, histories, rows).
* `_simple_test_transmission_`, `percolate_network` (edge loop), and the call shapes of the two forwarding wrappers
  `basic_discrete_SIR` / `percolation_based_discrete_SIR` (which callback and which `args` they hand to discrete_SIR).
NOT translated: argument normalisation (rho / single node / None — `InitArgs`, C05), the conversion to arrays and the
construction of `Simulation_Investigation`.

Representation: the mutable locals form a record `Loc`; a statement is a step in `PyDM.DM` (random tape +
scripted callback answers, `Gen/PyDM.lean`); `for` is `List.foldlM`, `while` a recursion on fuel.  A Python `set` is
a duplicate-free list in insertion order; `for x in <set>` iterates over `P.iter <set>` (a parameter: CPython's order is
a function of the insertion history; the driver supplies a model of CPython's table, the theorems quantify over it).
Anything outside the supported subset raises Unsupported — a failed translation is an undischarged obligation.
"""
import ast, os, sys, hashlib

REPO = os.environ.get("EON_REPO", "/repo")


class Unsupported(Exception):
    pass


LEAN_TY = {"int": "Int", "rat": "Rat", "list:rat": "List Rat", "list:int": "List Int", "set": "List Node",
           "infector": "List (Node × List Node)", "sus": "Node → Bool", "hist": "PyDM.Hist",
           "trans": "List (Rat × Option Node × Node)"}
DEFAULT = {"int": "0", "rat": "0", "list:rat": "[]", "list:int": "[]", "set": "[]", "infector": "[]", "sus": "fun _ => true",
           "hist": "[]", "trans": "[]"}
FIELDS_SIR = [("node_history", "hist"), ("transmissions", "trans"), ("N", "int"), ("t", "list:rat"),
              ("number_initially_recovered", "int"), ("S", "list:int"), ("I", "list:int"), ("R", "list:int"),
              ("susceptible", "sus"), ("infecteds", "set"), ("totR", "int"), ("nI", "int"), ("nR", "int"), ("nS", "int"),
              ("new_infecteds", "set"), ("infector", "infector"), ("next_time", "rat")]
FIELDS_SIS = [("transmissions", "trans"), ("node_history", "hist"), ("N", "int"), ("t", "list:rat"), ("S", "list:int"),
              ("I", "list:int"), ("infecteds", "set"), ("new_infecteds", "set"), ("infector", "infector"), ("next_time", "rat")]
PARAMS = {"tmin": ("P.tmin", "rat"), "tmax": ("P.tmax", "erat"), "return_full_data": ("P.full", "bool"), "p": ("P.p", "rat"),
          "initial_infecteds": ("P.initial_infecteds", "nodes"), "initial_recovereds": ("P.initial_recovereds", "onodes"),
          "test_recovery": ("P.testRec", "ocb")}
STATUS = {"S": "St.S", "I": "St.I", "R": "St.R"}


class DFn:
    def __init__(self, node, fields):
        self.node, self.fields = node, dict(fields)
        self.temps = {}
        self.n = 0

    def tmp(self, base="v"):
        self.n += 1
        return f"{base}_{self.n}"

    # ------------------------------------------------------------------ expressions: (pre-lines, term, kind)
    def expr(self, e, ind):
        src = ast.unparse(e)
        if isinstance(e, ast.Constant):
            v = e.value
            if v is None:
                return [], "none", "none"
            if isinstance(v, bool):
                return [], ("true" if v else "false"), "bool"
            if isinstance(v, int):
                return [], str(v), "num"
            if isinstance(v, str) and v in STATUS:
                return [], STATUS[v], "st"
            raise Unsupported(f"constant {v!r}")
        if isinstance(e, ast.Name):
            if e.id in self.temps:
                return [], e.id, self.temps[e.id]
            if e.id in self.fields:
                return [], f"σ.{e.id}", self.fields[e.id]
            if e.id in PARAMS:
                return [], PARAMS[e.id][0], PARAMS[e.id][1]
            raise Unsupported(f"unknown name {e.id}")
        if src == "G.order()":
            return [], "P.order", "int"
        if src == "set()":
            return [], "[]", "set"
        if src == "{}":
            return [], "[]", "infector"
        if src == "defaultdict(lambda: True)":
            return [], "(fun _ => true)", "sus"
        if src == "defaultdict(lambda: ([tmin], ['S']))":
            return [], "[]", "hist"
        if src == "random.random()":
            r = self.tmp("r")
            return [f"{ind}let {r} ← PyDM.liftT TM.popUnif"], r, "rat"
        if isinstance(e, ast.Call):
            f = e.func
            if isinstance(f, ast.Name) and f.id == "len" and len(e.args) == 1:
                p, a, k = self.expr(e.args[0], ind)
                if k in ("nodes", "set"):
                    return p, f"({a}.length : Int)", "int"
                raise Unsupported("len of " + k)
            if isinstance(f, ast.Name) and f.id == "set" and len(e.args) == 1:
                p, a, k = self.expr(e.args[0], ind)
                if k != "nodes":
                    raise Unsupported("set(" + k + ")")
                return p, f"(PyDM.setOf {a})", "set"
            if src.startswith("G.neighbors(") and len(e.args) == 1:
                p, a, k = self.expr(e.args[0], ind)
                return p, f"(P.nbrs {a})", "nodes"
            if src == "infector.keys()":
                return [], "(σ.infector.map (·.1))", "nodes"
            if isinstance(f, ast.Name) and f.id == "test_transmission":
                if not (len(e.args) == 3 and isinstance(e.args[2], ast.Starred) and ast.unparse(e.args[2].value) == "args"):
                    raise Unsupported("call shape of test_transmission: " + src)
                pa, a, ka = self.expr(e.args[0], ind)
                pb, b, kb = self.expr(e.args[1], ind)
                if (ka, kb) != ("node", "node"):
                    raise Unsupported("test_transmission arguments")
                c = self.tmp("tt")
                return pa + pb + [f"{ind}let {c} ← P.testTrans {a} {b}"], c, "bool"
            if isinstance(f, ast.Name) and f.id == "test_recovery" and self.temps.get("test_recovery") == "cb" and len(e.args) == 1:
                pa, a, ka = self.expr(e.args[0], ind)
                if ka != "node":
                    raise Unsupported("test_recovery argument")
                c = self.tmp("tr")
                return pa + [f"{ind}let {c} ← test_recovery {a}"], c, "bool"
            if src.startswith("random.choice(") and len(e.args) == 1:
                pa, a, ka = self.expr(e.args[0], ind)
                if ka != "nodes":
                    raise Unsupported("random.choice of " + ka)
                c = self.tmp("ch")
                return pa + [f"{ind}let {c} ← PyDM.choiceNode {a}"], c, "node"
            raise Unsupported("call " + src[:60])
        if isinstance(e, ast.Subscript):
            if src == "t[-1]":
                x = self.tmp("last")
                return [f"{ind}let {x} ← PyDM.liftE (PyTM.listLast σ.t)"], x, "rat"
            pv, v, kv = self.expr(e.value, ind)
            pk, key, kk = self.expr(e.slice, ind)
            if kv == "sus" and kk == "node":
                return pv + pk, f"({v} {key})", "bool"
            if kv == "infector" and kk == "node":
                x = self.tmp("inf")
                return pv + pk + [f"{ind}let {x} ← PyDM.liftE (PyRT.dictGet {v} {key})"], x, "nodes"
            raise Unsupported("subscript " + src)
        if isinstance(e, ast.BinOp) and isinstance(e.op, (ast.Add, ast.Sub)):
            pa, a, ka = self.expr(e.left, ind)
            pb, b, kb = self.expr(e.right, ind)
            sym = "+" if isinstance(e.op, ast.Add) else "-"
            ks = {ka, kb}
            if ks <= {"int", "num"}:
                return pa + pb, f"({a} {sym} {b})", "int"
            if ks <= {"rat", "num"}:
                return pa + pb, f"({a} {sym} {b})", "rat"
            raise Unsupported(f"arithmetic on {ka}, {kb}")
        if isinstance(e, ast.Tuple):
            parts = [self.expr(x, ind) for x in e.elts]
            pre = sum((p for p, _, _ in parts), [])
            ks = [k for _, _, k in parts]
            if ks == ["list:rat", "list:st"]:
                return pre, f"({parts[0][1]}, {parts[1][1]})", "histentry"
            if len(ks) == 3 and ks[0] == "rat" and ks[2] == "node" and ks[1] in ("none", "node"):
                mid = "none" if ks[1] == "none" else f"some {parts[1][1]}"
                return pre, f"({parts[0][1]}, {mid}, {parts[2][1]})", "transrow"
            raise Unsupported("tuple " + src)
        if isinstance(e, ast.List):
            if not e.elts:
                return [], "[]", "list:empty"
            if len(e.elts) == 1:
                p, a, k = self.expr(e.elts[0], ind)
                kind = {"rat": "list:rat", "int": "list:int", "num": "list:int", "st": "list:st", "node": "nodes"}.get(k)
                if kind is None:
                    raise Unsupported("list literal of " + k)
                return p, f"[{a}]", kind
            raise Unsupported("list literal " + src)
        raise Unsupported("expression " + src[:60])

    # ------------------------------------------------------------------ conditions: (pre-lines, Bool term)
    def truth(self, e, ind):
        if isinstance(e, ast.BoolOp) and isinstance(e.op, ast.And):
            p1, c1 = self.truth(e.values[0], ind)
            rest = e.values[1] if len(e.values) == 2 else ast.BoolOp(op=ast.And(), values=e.values[1:])
            p2, c2 = self.truth(rest, ind + "  ")
            if not p2:
                return p1, f"({c1} && {c2})"
            c = self.tmp("c")       # short circuit: the right operand (and its effects) only when the left one holds
            return p1 + [f"{ind}let {c} ← (if {c1} then do"] + p2 + [f"{ind}  pure {c2}", f"{ind}else pure false)"], c
        if isinstance(e, ast.UnaryOp) and isinstance(e.op, ast.Not):
            p, c = self.truth(e.operand, ind)
            return p, f"(!{c})"
        if isinstance(e, ast.Compare) and len(e.ops) == 1:
            op, l, r = e.ops[0], e.left, e.comparators[0]
            if isinstance(op, (ast.In, ast.NotIn)):
                pa, a, ka = self.expr(l, ind)
                pb, b, kb = self.expr(r, ind)
                if ka != "node" or kb != "set":
                    raise Unsupported("membership " + ast.unparse(e))
                t = f"({b}.contains {a})"
                return pa + pb, (t if isinstance(op, ast.In) else f"(!{t})")
            if isinstance(op, (ast.Lt, ast.LtE)):
                pa, a, ka = self.expr(l, ind)
                pb, b, kb = self.expr(r, ind)
                if ka == "rat" and kb == "erat":
                    fn = "ERat.lt" if isinstance(op, ast.Lt) else "ERat.le"
                    return pa + pb, f"({fn} (some {a}) {b})"
                if ka == "rat" and kb == "rat":
                    sym = "<" if isinstance(op, ast.Lt) else "≤"
                    return pa + pb, f"(decide ({a} {sym} {b}))"
                raise Unsupported("comparison " + ast.unparse(e))
            raise Unsupported("comparison " + ast.unparse(e))
        p, t, k = self.expr(e, ind)
        if k == "bool":
            return p, t
        if k == "set":
            return p, f"(!{t}.isEmpty)"
        raise Unsupported("truth value of " + k)

    # ------------------------------------------------------------------ statements
    def setf(self, ind, name, term):
        return [f"{ind}let σ := {{ σ with {name} := {term} }}"]

    def none_test(self, test):
        """`X is None` / `X is not None` for an optional parameter -> (lean term, kind, name, positive)"""
        if isinstance(test, ast.Compare) and len(test.ops) == 1 and isinstance(test.ops[0], (ast.Is, ast.IsNot)) \
                and isinstance(test.comparators[0], ast.Constant) and test.comparators[0].value is None \
                and isinstance(test.left, ast.Name) and test.left.id in PARAMS and PARAMS[test.left.id][1] in ("onodes", "ocb"):
            nm = test.left.id
            return PARAMS[nm][0], PARAMS[nm][1], nm, isinstance(test.ops[0], ast.Is)
        return None

    def stmt(self, st, ind):
        src = ast.unparse(st)
        if isinstance(st, ast.If):
            nt = self.none_test(st.test)
            if nt is not None:
                term, kind, nm, is_none = nt
                none_body, some_body = (st.body, st.orelse) if is_none else (st.orelse, st.body)
                saved = dict(self.temps)
                b_none = self.block(none_body, ind + "    ")
                self.temps[nm] = "nodes" if kind == "onodes" else "cb"
                b_some = self.block(some_body, ind + "    ")
                self.temps = saved
                return ([f"{ind}let σ ← (match {term} with", f"{ind}  | none => do"] + b_none + [f"{ind}    pure σ",
                        f"{ind}  | some {nm} => do"] + b_some + [f"{ind}    pure σ)"])
            pc, c = self.truth(st.test, ind)
            body = self.block(st.body, ind + "  ")
            orelse = self.block(st.orelse, ind + "  ") if st.orelse else []
            return pc + [f"{ind}let σ ← (if {c} then do"] + body + [f"{ind}  pure σ", f"{ind}else do"] + orelse + [f"{ind}  pure σ)"]
        if isinstance(st, ast.For) and isinstance(st.target, ast.Name) and not st.orelse:
            p, seq, k = self.expr(st.iter, ind)
            var = st.target.id
            if k == "set":
                seq = f"(P.iter {seq})"
            elif k != "nodes":
                raise Unsupported("for over " + k)
            saved = dict(self.temps)
            self.temps[var] = "node"
            body = self.block(st.body, ind + "  ")
            self.temps = saved
            return p + [f"{ind}let σ ← {seq}.foldlM (fun (σ : Loc) ({var} : Node) => do"] + body + [f"{ind}  pure σ) σ"]
        if isinstance(st, ast.Assign) and len(st.targets) == 1:
            tgt = st.targets[0]
            if isinstance(tgt, ast.Name) and tgt.id in self.fields:
                p, t, k = self.expr(st.value, ind)
                want = self.fields[tgt.id]
                ok = k == want or (want == "int" and k == "num") or (k == "list:empty" and want in ("trans", "list:rat", "list:int"))
                if not ok:
                    raise Unsupported(f"assignment of {k} to {tgt.id} : {want}")
                return p + self.setf(ind, tgt.id, t)
            if isinstance(tgt, ast.Subscript) and isinstance(tgt.value, ast.Name):
                d = tgt.value.id
                pk, key, kk = self.expr(tgt.slice, ind)
                pv, val, kv = self.expr(st.value, ind)
                if kk != "node":
                    raise Unsupported("key of " + src)
                if d == "susceptible" and kv == "bool":
                    return pk + pv + self.setf(ind, d, f"PyDM.fset σ.{d} {key} {val}")
                if d == "infector" and kv == "nodes":
                    return pv + pk + self.setf(ind, d, f"alSet σ.{d} {key} {val}")
                if d == "node_history" and kv == "histentry":
                    return pv + pk + self.setf(ind, d, f"alSet σ.{d} {key} {val}")
            raise Unsupported("assignment " + src[:70])
        if isinstance(st, ast.AugAssign) and isinstance(st.target, ast.Name) and st.target.id in self.fields \
                and isinstance(st.op, (ast.Add, ast.Sub)) and self.fields[st.target.id] == "int":
            p, t, k = self.expr(st.value, ind)
            if k not in ("int", "num"):
                raise Unsupported("augmented assignment with " + k)
            sym = "+" if isinstance(st.op, ast.Add) else "-"
            return p + self.setf(ind, st.target.id, f"σ.{st.target.id} {sym} {t}")
        if isinstance(st, ast.Expr) and isinstance(st.value, ast.Call) and isinstance(st.value.func, ast.Attribute) and len(st.value.args) == 1:
            f, arg = st.value.func, st.value.args[0]
            recv = ast.unparse(f.value)
            if f.attr == "append" and isinstance(f.value, ast.Name) and recv in self.fields:
                p, t, k = self.expr(arg, ind)
                want = self.fields[recv]
                if (want, k) in (("list:int", "int"), ("list:int", "num"), ("list:rat", "rat"), ("trans", "transrow")):
                    return p + self.setf(ind, recv, f"σ.{recv} ++ [{t}]")
                raise Unsupported(f"append of {k} to {recv}")
            if f.attr == "add" and isinstance(f.value, ast.Name) and self.fields.get(recv) == "set":
                p, t, k = self.expr(arg, ind)
                if k != "node":
                    raise Unsupported("set.add of " + k)
                return p + self.setf(ind, recv, f"PyDM.setAdd σ.{recv} {t}")
            if f.attr == "append" and isinstance(f.value, ast.Subscript) and ast.unparse(f.value.value) == "infector":
                pk, key, kk = self.expr(f.value.slice, ind)
                p, t, k = self.expr(arg, ind)
                if (kk, k) != ("node", "node"):
                    raise Unsupported(src)
                x = self.tmp("d")
                return pk + p + [f"{ind}let {x} ← PyDM.liftE (PyDM.dictAppend σ.infector {key} {t})"] + self.setf(ind, "infector", x)
            if f.attr == "append" and isinstance(f.value, ast.Subscript) and isinstance(f.value.value, ast.Subscript) \
                    and ast.unparse(f.value.value.value) == "node_history" and isinstance(f.value.slice, ast.Constant) \
                    and f.value.slice.value in (0, 1):
                pk, key, kk = self.expr(f.value.value.slice, ind)
                p, t, k = self.expr(arg, ind)
                i = f.value.slice.value
                if kk != "node" or k != ("rat", "st")[i]:
                    raise Unsupported(src)
                return pk + p + self.setf(ind, "node_history", f"PyDM.nhApp{i} P.tmin σ.node_history {key} {t}")
        raise Unsupported("statement " + src[:70])

    def block(self, stmts, ind):
        out = []
        for st in stmts:
            out += self.stmt(st, ind)
        return out

    # ------------------------------------------------------------------ whole slice
    def emit(self, ns):
        body = self.node.body
        s0 = next((i for i, s in enumerate(body) if isinstance(s, ast.If) and ast.unparse(s.test) == "return_full_data"), None)
        wi = next((i for i, s in enumerate(body) if isinstance(s, ast.While)), None)
        if s0 is None or wi is None or not s0 < wi:
            raise Unsupported("slice markers not found")
        wh = body[wi]
        if wh.orelse:
            raise Unsupported("while-else")
        pre = self.block(body[s0:wi], "  ")
        pc, cond = self.truth(wh.test, "    ")
        wbody = self.block(wh.body, "      ")
        name = self.node.name
        loc = "structure Loc where\n" + "\n".join(f"  {f} : {LEAN_TY[k]}" for f, k in self.fields.items()) + "\n"
        init = "def Loc.init : Loc :=\n  { " + ", ".join(f"{f} := {DEFAULT[k]}" for f, k in self.fields.items()) + " }\n"
        loop = (f"/-- generated from the `while` loop of `{name}` (EoN/simulation.py:{wh.lineno}); `fuel` bounds the number of generations -/\n"
                f"def loop (P : DArgs) : Nat → Loc → DM Loc\n  | 0, _ => PyDM.fail \"fuel\"\n  | fuel + 1, σ => do\n"
                + "\n".join(pc) + ("\n" if pc else "") + f"    if {cond} then do\n" + "\n".join(wbody) + "\n      loop P fuel σ\n    else pure σ\n")
        run = (f"/-- generated from `{name}` (EoN/simulation.py:{body[s0].lineno}-{wh.end_lineno}) -/\n"
               f"def run (P : DArgs) (fuel : Nat) : DM Loc := do\n  let σ : Loc := Loc.init\n" + "\n".join(pre) + "\n  loop P fuel σ\n")
        src = ast.unparse(ast.Module(body=body[s0:wi + 1], type_ignores=[]))
        return f"namespace {ns}\n/-- the mutable locals of `{name}` -/\n{loc}\n{init}\n{loop}\n{run}end {ns}\n", src


def small(fns):
    """`_simple_test_transmission_`, `percolate_network`, and the call shapes of the two forwarding wrappers"""
    out, srcs = [], []
    f = fns["_simple_test_transmission_"]
    body = [s for s in f.body if not (isinstance(s, ast.Expr) and isinstance(s.value, ast.Constant))]
    if [a.arg for a in f.args.args] != ["u", "v", "p"] or len(body) != 1 or ast.unparse(body[0]) != "return random.random() < p":
        raise Unsupported("_simple_test_transmission_: " + ast.unparse(body[-1])[:60])
    out.append("/-- generated from `_simple_test_transmission_(u, v, p)` -/\n"
               "def simple_test_transmission (_u _v : Node) (p : Rat) : DM Bool := do\n"
               "  let r ← PyDM.liftT TM.popUnif\n  pure (decide (r < p))\n")
    srcs.append(ast.unparse(f))
    # percolate_network
    f = fns["percolate_network"]
    body = [s for s in f.body if not (isinstance(s, ast.Expr) and isinstance(s.value, ast.Constant))]
    want = ["H = nx.Graph()", "H.add_nodes_from(G.nodes())",
            "for edge in G.edges():\n    if random.random() < p:\n        H.add_edge(*edge)", "return H"]
    got = [ast.unparse(s) for s in body]
    if got != want:
        bad = next((g for g, w in zip(got, want) if g != w), got[-1] if got else "")
        raise Unsupported("percolate_network: " + bad[:70])
    out.append("/-- generated from `percolate_network(G, p)`: the edge list of `H` (the nodes of `H` are those of `G`) -/\n"
               "def percolate_network (edges : List (Node × Node)) (p : Rat) : DM (List (Node × Node)) :=\n"
               "  edges.foldlM (fun (H : List (Node × Node)) (edge : Node × Node) => do\n"
               "    let r ← PyDM.liftT TM.popUnif\n"
               "    if decide (r < p) then pure (H ++ [edge]) else pure H) []\n")
    srcs.append(ast.unparse(f))
    # wrappers: which callback and which graph they hand to discrete_SIR
    for name, pre, cb, graph in (("basic_discrete_SIR", [], "_simple_test_transmission_", "G"),
                                 ("percolation_based_discrete_SIR", ["H = percolate_network(G, p)"], "H.has_edge", "H")):
        f = fns[name]
        body = [s for s in f.body if not (isinstance(s, ast.Expr) and isinstance(s.value, ast.Constant))]
        got = [ast.unparse(s) for s in body]
        if got[:-1] != pre or not isinstance(body[-1], ast.Return) or not isinstance(body[-1].value, ast.Call) \
                or ast.unparse(body[-1].value.func) != "discrete_SIR":
            raise Unsupported(f"{name}: not a forwarding call")
        call = body[-1].value
        kws = {k.arg: ast.unparse(k.value) for k in call.keywords}
        if [ast.unparse(a) for a in call.args] != [graph] or kws.get("test_transmission") != cb:
            raise Unsupported(f"{name}: graph / callback handed to discrete_SIR changed")
        args = kws.pop("args", "()")
        if name == "basic_discrete_SIR" and args != "(p,)":
            raise Unsupported(f"{name}: args={args}")
        if name == "percolation_based_discrete_SIR" and args != "()":
            raise Unsupported(f"{name}: args={args}")
        kws.pop("test_transmission")
        if "test_recovery" in kws:
            raise Unsupported(f"{name}: passes a recovery rule")
        for k, v in kws.items():
            if k != v:
                raise Unsupported(f"{name}: forwards {k}={v}")
        missing = {"initial_infecteds", "initial_recovereds", "rho", "tmin", "tmax", "return_full_data"} - set(kws)
        if missing:
            raise Unsupported(f"{name}: does not forward {sorted(missing)}")
        srcs.append(ast.unparse(f))
    out.append("/-- generated from `basic_discrete_SIR`: discrete_SIR with `test_transmission=_simple_test_transmission_`, `args=(p,)`,\n"
               "the default recovery rule, every other argument forwarded unchanged -/\n"
               "def basic_discrete_SIR (P : DArgs) (fuel : Nat) : DM GenDSIR.Loc :=\n"
               "  GenDSIR.run { P with testTrans := fun u v => simple_test_transmission u v P.p, testRec := none } fuel\n")
    out.append("/-- generated from `percolation_based_discrete_SIR`: percolate, then discrete_SIR on `H` with `test_transmission=H.has_edge`\n"
               "(`nbrsOf H` are the adjacency lists of the percolated graph: an untranslated networkx structure) -/\n"
               "def percolation_based_discrete_SIR (P : DArgs) (edges : List (Node × Node))\n"
               "    (nbrsOf : List (Node × Node) → Node → List Node) (hasEdge : List (Node × Node) → Node → Node → Bool) (fuel : Nat) :\n"
               "    DM (List (Node × Node) × GenDSIR.Loc) := do\n"
               "  let H ← percolate_network edges P.p\n"
               "  let σ ← GenDSIR.run { P with nbrs := nbrsOf H, testTrans := fun u v => pure (hasEdge H u v), testRec := none } fuel\n"
               "  pure (H, σ)\n")
    return "\n".join(out), "\n".join(srcs)


HEADER = '''import EoNVerif.Gen.PyDM
/-!
GENERATED by harness/pydisc2lean.py from `discrete_SIR`, `basic_discrete_SIS`, `_simple_test_transmission_`,
`percolate_network`, `basic_discrete_SIR`, `percolation_based_discrete_SIR` of EoN/simulation.py — do not edit;
regenerated on every check run.   source sha1: {sha}
-/
open PyDM

'''


def translate(repo=REPO):
    src = open(os.path.join(repo, "EoN", "simulation.py")).read()
    tree = ast.parse(src)
    fns = {n.name: n for n in tree.body if isinstance(n, ast.FunctionDef)}
    errors, parts, srcs = {}, [], []
    for name, fields, ns in (("discrete_SIR", FIELDS_SIR, "GenDSIR"), ("basic_discrete_SIS", FIELDS_SIS, "GenDSIS")):
        try:
            text, s = DFn(fns[name], fields).emit(ns)
            parts.append(text)
            srcs.append(s)
        except (Unsupported, KeyError) as ex:
            errors[name] = f"unsupported: {ex}"
    try:
        text, s = small(fns)
        parts.append("namespace GenDisc\n" + text + "end GenDisc\n")
        srcs.append(s)
    except (Unsupported, KeyError) as ex:
        errors["discrete wrappers"] = f"unsupported: {ex}"
    sha = hashlib.sha1("\n".join(srcs).encode()).hexdigest()
    return HEADER.format(sha=sha) + "\n".join(parts), errors


def regenerate():
    import warnings
    target = os.path.join(os.path.dirname(os.path.abspath(__file__)), "..", "lean", "EoNVerif", "Gen", "DiscreteGen.lean")
    with warnings.catch_warnings():
        warnings.simplefilter("ignore")
        text, errors = translate()
    old = open(target).read() if os.path.exists(target) else None
    if text and not errors and old != text:
        tmp = target + ".tmp%d" % os.getpid()
        with open(tmp, "w") as f:
            f.write(text)
        os.replace(tmp, target)
    return old != text, errors


def main():
    changed, errors = regenerate()
    print("pydisc2lean: Gen/DiscreteGen.lean %s" % ("rewritten" if changed else "up to date"))
    for n, e in errors.items():
        print(f"pydisc2lean: {n}: {e}")
    return 1 if errors else 0


if __name__ == "__main__":
    sys.exit(main())
