import EoNVerif.Model.Discrete
import EoNVerif.Model.DiscreteLaw
import EoNVerif.Proofs.ListDict
import Mathlib.Tactic.Ring
import Mathlib.Tactic.Linarith
import Mathlib.Algebra.Order.Field.Rat
/-!
Helper lemmas for C12 (discrete-time simulators): field equations of `step`, loop invariants
(row shape, conservation, BFS), mass lemmas for `anyContact` / `percolateDist`.
-/
namespace Discrete

structure WF (P : DParams) (infs recs : List Node) : Prop where
  nodup : P.nodes.Nodup
  nbr_mem : ∀ u ∈ P.nodes, ∀ v ∈ P.nbrs u, v ∈ P.nodes
  infs_nodup : infs.Nodup
  infs_mem : ∀ u ∈ infs, u ∈ P.nodes
  recs_nodup : recs.Nodup
  recs_mem : ∀ u ∈ recs, u ∈ P.nodes
  disjoint : ∀ u ∈ infs, u ∉ recs
  rec_pos : ∀ k, P.recSteps = some k → ∀ u, 1 ≤ k u

/-! ### field equations of `step` -/

/-- the new generation -/
def newInf (P : DParams) (s : DState) : List Node :=
  P.nodes.filter fun v => s.sus v && s.inf.any fun u => (P.nbrs u).contains v && P.rule (s.age u) u v

/-- infectious nodes that stay infectious -/
def stay (P : DParams) (s : DState) : List Node :=
  match P.recSteps with
  | none => []
  | some k => s.inf.filter fun u => s.age u + 1 < k u

theorem step_inf (P : DParams) (s : DState) :
    (step P s).inf = P.nodes.filter fun v => (newInf P s).contains v || (stay P s).contains v := by
  unfold step newInf stay
  cases h : P.recSteps <;> simp

theorem step_sus (P : DParams) (s : DState) :
    (step P s).sus = fun v => s.sus v && !(newInf P s).contains v := by
  unfold step newInf
  cases h : P.recSteps <;> simp

theorem step_t (P : DParams) (s : DState) :
    (step P s).t = (s.t.headD P.tmin + 1) :: s.t := by
  unfold step
  cases h : P.recSteps <;> simp

theorem step_nS (P : DParams) (s : DState) :
    (step P s).nS = s.nS - ((newInf P s).length : Int) := by
  unfold step newInf
  cases h : P.recSteps <;> simp

theorem step_totR (P : DParams) (s : DState) :
    (step P s).totR = s.totR + (((s.inf.length - (stay P s).length : Nat)) : Int) := by
  unfold step stay
  cases h : P.recSteps <;> simp

theorem step_S (P : DParams) (s : DState) : (step P s).S = (step P s).nS :: s.S := by
  unfold step
  cases h : P.recSteps <;> simp

theorem step_I (P : DParams) (s : DState) : (step P s).I = ((step P s).inf.length : Int) :: s.I := by
  unfold step
  cases h : P.recSteps <;> simp

theorem step_R (P : DParams) (s : DState) : (step P s).R = (step P s).totR :: s.R := by
  unfold step
  cases h : P.recSteps <;> simp

theorem step_infTime (P : DParams) (s : DState) :
    (step P s).infTime = s.infTime ++ (newInf P s).map (fun v => (v, s.t.headD P.tmin + 1)) := by
  unfold step newInf
  cases h : P.recSteps <;> simp

theorem step_age_none (P : DParams) (s : DState) (h : P.recSteps = none) : (step P s).age = s.age := by
  unfold step
  simp [h]

theorem mem_newInf (P : DParams) (s : DState) (v : Node) :
    v ∈ newInf P s ↔ v ∈ P.nodes ∧ s.sus v = true ∧ ∃ u ∈ s.inf, v ∈ P.nbrs u ∧ P.rule (s.age u) u v = true := by
  simp [newInf]

theorem stay_sublist (P : DParams) (s : DState) : (stay P s).Sublist s.inf := by
  unfold stay
  cases P.recSteps with
  | none => simp
  | some k => exact List.filter_sublist

theorem mem_step_inf (P : DParams) (s : DState) (v : Node) :
    v ∈ (step P s).inf ↔ v ∈ P.nodes ∧ (v ∈ newInf P s ∨ v ∈ stay P s) := by
  rw [step_inf]; simp

/-! ### pathwise one-step statements -/

theorem step_newInf' (P : DParams) (s : DState) (v : Node) (hv : v ∈ P.nodes) (hnot : v ∉ s.inf) :
    v ∈ (step P s).inf ↔ (s.sus v = true ∧ ∃ u ∈ s.inf, v ∈ P.nbrs u ∧ P.rule (s.age u) u v = true) := by
  rw [mem_step_inf, mem_newInf]
  have : v ∉ stay P s := fun h => hnot ((stay_sublist P s).subset h)
  constructor
  · rintro ⟨_, h | h⟩
    · exact h.2
    · exact absurd h this
  · intro h; exact ⟨hv, Or.inl ⟨hv, h⟩⟩

theorem one_step_infectious' (P : DParams) (h : P.recSteps = none) (s : DState)
    (hs : ∀ u ∈ s.inf, s.sus u = false) (u : Node) (hu : u ∈ s.inf) : u ∉ (step P s).inf := by
  rw [mem_step_inf, mem_newInf]
  have : stay P s = [] := by simp [stay, h]
  rw [this]
  rintro ⟨_, h | h⟩
  · have := hs u hu; simp_all
  · simp at h

theorem newInf_perm (P : DParams) (s s' : DState) (hp : s.inf.Perm s'.inf) (hsus : s.sus = s'.sus)
    (hage : s.age = s'.age) : newInf P s = newInf P s' := by
  unfold newInf
  apply List.filter_congr
  intro v _
  rw [hsus, hage]
  congr 1
  rw [Bool.eq_iff_iff]
  simp only [List.any_eq_true]
  constructor
  · rintro ⟨u, hu, h⟩; exact ⟨u, hp.subset hu, h⟩
  · rintro ⟨u, hu, h⟩; exact ⟨u, hp.symm.subset hu, h⟩

theorem stay_perm (P : DParams) (s s' : DState) (hp : s.inf.Perm s'.inf) (hage : s.age = s'.age) :
    (stay P s).Perm (stay P s') := by
  unfold stay
  cases P.recSteps with
  | none => simp
  | some k => rw [hage]; exact hp.filter _

theorem step_perm' (P : DParams) (s s' : DState) (hp : s.inf.Perm s'.inf)
    (hsus : s.sus = s'.sus) (hage : s.age = s'.age) (ht : s.t = s'.t) (hn : s.nS = s'.nS) (hr : s.totR = s'.totR) :
    (step P s).inf = (step P s').inf ∧ (step P s).nS = (step P s').nS ∧ (step P s).totR = (step P s').totR ∧
    (step P s).infTime.drop s.infTime.length = (step P s').infTime.drop s'.infTime.length := by
  have h1 := newInf_perm P s s' hp hsus hage
  have h2 := stay_perm P s s' hp hage
  refine ⟨?_, ?_, ?_, ?_⟩
  · rw [step_inf, step_inf, h1]
    apply List.filter_congr
    intro v _
    congr 1
    rw [Bool.eq_iff_iff]
    simp only [List.contains_iff_mem]
    exact h2.mem_iff
  · rw [step_nS, step_nS, h1, hn]
  · rw [step_totR, step_totR, hr, hp.length_eq, h2.length_eq]
  · rw [step_infTime, step_infTime, h1, ht]; simp

/-! ### the loop -/

/-- the `while` condition is false -/
def stopped (P : DParams) (s : DState) : Prop :=
  s.inf.isEmpty = true ∨ ERat.lt (some (s.t.headD P.tmin)) P.tmax = false

theorem loop_zero (P : DParams) (s : DState) : loop P 0 s = s := rfl

theorem loop_succ_stopped (P : DParams) (fuel : Nat) (s : DState) (h : stopped P s) :
    loop P (fuel + 1) s = s := by
  unfold stopped at h
  simp only [loop]
  rw [if_pos]
  rcases h with h | h
  · exact Or.inl h
  · right; rw [h]; rfl

theorem loop_succ_running (P : DParams) (fuel : Nat) (s : DState) (h : ¬ stopped P s) :
    loop P (fuel + 1) s = loop P fuel (step P s) := by
  unfold stopped at h
  simp only [loop]
  rw [if_neg]
  rintro (h' | h')
  · exact h (Or.inl h')
  · apply h; right; simpa using h'

/-- invariant rule for the loop, with a generation counter -/
theorem loop_inv (P : DParams) (Inv : Nat → DState → Prop)
    (hstep : ∀ i s, Inv i s → ¬ stopped P s → Inv (i + 1) (step P s)) :
    ∀ fuel i s, Inv i s → ∃ j, Inv j (loop P fuel s) := by
  intro fuel
  induction fuel with
  | zero => intro i s h; exact ⟨i, h⟩
  | succ n ih =>
    intro i s h
    by_cases hs : stopped P s
    · rw [loop_succ_stopped P n s hs]; exact ⟨i, h⟩
    · rw [loop_succ_running P n s hs]; exact ih (i + 1) _ (hstep i s h hs)

/-! ### default recovery rule: all ages stay 0 -/

theorem age_default' (P : DParams) (infs recs : List Node) (fuel : Nat) (h : P.recSteps = none) :
    (run P infs recs fuel).age = fun _ => 0 := by
  obtain ⟨_, hj⟩ := loop_inv P (fun _ s => s.age = fun _ => 0)
    (fun _ s hs _ => by rw [step_age_none P s h]; exact hs) fuel 0 _ (rfl : (init P infs recs).age = fun _ => 0)
  exact hj

/-! ### shape of the rows -/

def ShapeInv (P : DParams) (n : Nat) (s : DState) : Prop :=
  s.S.length = n + 1 ∧ s.I.length = n + 1 ∧ s.R.length = n + 1 ∧
  s.t = ((List.range (n + 1)).map fun (i : Nat) => P.tmin + (i : Rat)).reverse

theorem shapeInv_init (P : DParams) (infs recs : List Node) : ShapeInv P 0 (init P infs recs) := by
  simp [ShapeInv, init]

theorem shapeInv_step (P : DParams) (n : Nat) (s : DState) (h : ShapeInv P n s) :
    ShapeInv P (n + 1) (step P s) := by
  obtain ⟨h1, h2, h3, h4⟩ := h
  refine ⟨?_, ?_, ?_, ?_⟩
  · rw [step_S]; simp [h1]
  · rw [step_I]; simp [h2]
  · rw [step_R]; simp [h3]
  · rw [step_t, h4, List.range_succ (n := n + 1)]
    simp [List.range_succ]
    ring

theorem shapeInv_run (P : DParams) (infs recs : List Node) (fuel : Nat) :
    ∃ n, ShapeInv P n (run P infs recs fuel) :=
  loop_inv P (ShapeInv P) (fun i s h _ => shapeInv_step P i s h) fuel 0 _ (shapeInv_init P infs recs)

theorem rows_shape' (P : DParams) (infs recs : List Node) (fuel : Nat) :
    let s := run P infs recs fuel
    s.S.length = s.t.length ∧ s.I.length = s.t.length ∧ s.R.length = s.t.length ∧
    ∀ i, i < s.t.length → s.t.reverse.getD i 0 = P.tmin + (i : Rat) := by
  intro s
  obtain ⟨n, h1, h2, h3, h4⟩ := shapeInv_run P infs recs fuel
  have hl : s.t.length = n + 1 := by show (run P infs recs fuel).t.length = _; rw [h4]; simp
  refine ⟨by rw [hl]; exact h1, by rw [hl]; exact h2, by rw [hl]; exact h3, ?_⟩
  intro i hi
  show (run P infs recs fuel).t.reverse.getD i 0 = _
  rw [h4, List.reverse_reverse]
  rw [hl] at hi
  simp [List.getD_eq_getElem?_getD, hi]

/-! ### conservation -/

theorem length_filter_contains (l m : List Node) (hl : l.Nodup) (hm : m.Nodup) (hsub : ∀ u ∈ m, u ∈ l) :
    (l.filter fun v => m.contains v).length = m.length := by
  apply List.Perm.length_eq
  rw [List.perm_ext_iff_of_nodup (List.filter_sublist.nodup hl) hm]
  intro a
  simp only [List.mem_filter, List.contains_iff_mem]
  constructor
  · exact fun h => h.2
  · exact fun h => ⟨hsub a h, h⟩

theorem length_filter_or {α : Type} (l : List α) (p q : α → Bool) (h : ∀ v ∈ l, ¬ (p v = true ∧ q v = true)) :
    (l.filter fun v => p v || q v).length = (l.filter p).length + (l.filter q).length := by
  induction l with
  | nil => simp
  | cons a t ih =>
    have iht := ih (fun v hv => h v (List.mem_cons_of_mem _ hv))
    have ha := h a (List.mem_cons_self)
    simp only [List.filter_cons]
    cases hp : p a <;> cases hq : q a <;> simp_all <;> omega

structure ConsInv (P : DParams) (s : DState) : Prop where
  sub : s.inf.Sublist P.nodes
  notsus : ∀ u ∈ s.inf, s.sus u = false
  count : s.nS + (s.inf.length : Int) + s.totR = (P.nodes.length : Int)
  lenS : s.S.length = s.t.length
  lenI : s.I.length = s.t.length
  lenR : s.R.length = s.t.length
  rows : ∀ i, i < s.t.length → s.S.getD i 0 + s.I.getD i 0 + s.R.getD i 0 = (P.nodes.length : Int)

theorem consInv_init (P : DParams) (infs recs : List Node) (h : WF P infs recs) :
    ConsInv P (init P infs recs) := by
  have hlen := length_filter_contains P.nodes infs h.nodup h.infs_nodup h.infs_mem
  refine ⟨?_, ?_, ?_, rfl, rfl, rfl, ?_⟩
  · exact List.filter_sublist
  · intro u hu
    simp only [init, List.mem_filter, List.contains_iff_mem] at hu
    simp [init, hu.2]
  · simp only [init]; rw [hlen]; ring
  · intro i hi
    simp only [init, List.length_singleton, Nat.lt_one_iff] at hi
    subst hi
    simp only [init, List.getD_cons_zero]
    ring

theorem length_step_inf (P : DParams) (s : DState) (hnd : P.nodes.Nodup) (hc : ConsInv P s) :
    (step P s).inf.length = (newInf P s).length + (stay P s).length := by
  have hstay_sub : (stay P s).Sublist s.inf := stay_sublist P s
  have hinf_nd : s.inf.Nodup := hc.sub.nodup hnd
  rw [step_inf, length_filter_or]
  · congr 1
    · have : (P.nodes.filter fun v => (newInf P s).contains v) = newInf P s := by
        conv_rhs => unfold newInf
        apply List.filter_congr
        intro v hv
        rw [Bool.eq_iff_iff, List.contains_iff_mem, mem_newInf]
        simp [hv]
      rw [this]
    · exact length_filter_contains P.nodes (stay P s) hnd (hstay_sub.nodup hinf_nd)
        (fun u hu => hc.sub.subset (hstay_sub.subset hu))
  · intro v _ ⟨h1, h2⟩
    rw [List.contains_iff_mem] at h1 h2
    have := hc.notsus v (hstay_sub.subset h2)
    rw [mem_newInf] at h1
    rw [h1.2.1] at this
    exact absurd this (by simp)

theorem consInv_step (P : DParams) (s : DState) (hnd : P.nodes.Nodup) (hc : ConsInv P s) :
    ConsInv P (step P s) := by
  have hlen := length_step_inf P s hnd hc
  have hstay_sub : (stay P s).Sublist s.inf := stay_sublist P s
  have hle : (stay P s).length ≤ s.inf.length := hstay_sub.length_le
  have hcount : (step P s).nS + ((step P s).inf.length : Int) + (step P s).totR = (P.nodes.length : Int) := by
    rw [hlen, step_nS, step_totR]
    have := hc.count
    push_cast [hle]
    linarith
  refine ⟨?_, ?_, hcount, ?_, ?_, ?_, ?_⟩
  · rw [step_inf]; exact List.filter_sublist
  · intro u hu
    rw [mem_step_inf] at hu
    rw [step_sus]
    rcases hu.2 with h | h
    · simp [h]
    · simp [hc.notsus u (hstay_sub.subset h)]
  · rw [step_S, step_t]; simp [hc.lenS]
  · rw [step_I, step_t]; simp [hc.lenI]
  · rw [step_R, step_t]; simp [hc.lenR]
  · intro i hi
    rw [step_S, step_I, step_R]
    rw [step_t] at hi
    cases i with
    | zero => simpa using hcount
    | succ j =>
      simp only [List.getD_cons_succ]
      apply hc.rows
      simpa using hi

theorem consInv_run (P : DParams) (infs recs : List Node) (h : WF P infs recs) (fuel : Nat) :
    ConsInv P (run P infs recs fuel) := by
  obtain ⟨_, hj⟩ := loop_inv P (fun _ s => ConsInv P s) (fun _ s hs _ => consInv_step P s h.nodup hs)
    fuel 0 _ (consInv_init P infs recs h)
  exact hj

/-! ### Reed–Frost law, percolation -/

theorem mass_push {α β : Type} (f : α → β) (d : Dist α) (Q : β → Bool) :
    Dist.mass (Dist.push f d) Q = Dist.mass d (fun a => Q (f a)) := by
  induction d with
  | nil => rfl
  | cons x xs ih =>
    obtain ⟨a, q⟩ := x
    have : Dist.push f ((a, q) :: xs) = (f a, q) :: Dist.push f xs := rfl
    rw [this, Dist.mass_cons, Dist.mass_cons, ih]

theorem mass_eq_zero {α : Type} (d : Dist α) (Q : α → Bool) (h : ∀ x ∈ d, Q x.1 = false) :
    Dist.mass d Q = 0 := by
  induction d with
  | nil => rfl
  | cons x xs ih =>
    obtain ⟨a, q⟩ := x
    rw [Dist.mass_cons, ih (fun y hy => h y (List.mem_cons_of_mem _ hy))]
    have := h (a, q) List.mem_cons_self
    simp only at this
    simp [this]

theorem mass_congr {α : Type} (d : Dist α) (Q R : α → Bool) (h : ∀ x ∈ d, Q x.1 = R x.1) :
    Dist.mass d Q = Dist.mass d R := by
  induction d with
  | nil => rfl
  | cons x xs ih =>
    obtain ⟨a, q⟩ := x
    rw [Dist.mass_cons, Dist.mass_cons, ih (fun y hy => h y (List.mem_cons_of_mem _ hy))]
    have := h (a, q) List.mem_cons_self
    simp only at this
    rw [this]

theorem basic_marginal' (p : Rat) (k : Nat) :
    Dist.mass (anyContact p k) (fun b => b) = infProb p k := by
  induction k with
  | zero => simp [anyContact, Dist.mass_pure, infProb]
  | succ n ih =>
    simp only [anyContact]
    rw [Dist.mass_bern_bind]
    simp only [if_true, Bool.false_eq_true, if_false]
    rw [ih, Dist.mass_pure]
    simp only [infProb, if_true]
    ring

theorem percolate_support' {ε : Type} (p : Rat) (edges : List ε) (kept : List ε)
    (hk : ∃ q, (kept, q) ∈ percolateDist p edges) : kept.Sublist edges := by
  induction edges generalizing kept with
  | nil =>
    obtain ⟨q, hq⟩ := hk
    simp [percolateDist, Dist.pure] at hq
    rw [hq.1]
  | cons e es ih =>
    obtain ⟨q, hq⟩ := hk
    simp only [percolateDist, Dist.bind, Dist.bern, Dist.push, List.flatMap_cons, List.flatMap_nil,
      List.append_nil, List.mem_append, List.mem_map, Prod.mk.injEq, Prod.exists] at hq
    rcases hq with ⟨a, b, ⟨a', b', hm, rfl, rfl⟩, rfl, rfl⟩ | ⟨a, b, ⟨a', b', hm, rfl, rfl⟩, rfl, rfl⟩
    · simpa using ih a' ⟨b', hm⟩
    · simpa using (ih a' ⟨b', hm⟩).cons e

theorem percolate_edge_law' {ε : Type} [DecidableEq ε] (p : Rat) (edges : List ε) (hn : edges.Nodup)
    (keep : ε → Bool) :
    Dist.mass (percolateDist p edges) (fun kept => kept == edges.filter keep) =
      p ^ (edges.filter keep).length * (1 - p) ^ (edges.length - (edges.filter keep).length) := by
  induction edges with
  | nil => simp [percolateDist, Dist.mass_pure]
  | cons e es ih =>
    have hnd := List.nodup_cons.mp hn
    have ih' := ih hnd.2
    simp only [percolateDist]
    rw [Dist.mass_bern_bind, mass_push, mass_push]
    have hle : (es.filter keep).length ≤ es.length := List.length_filter_le _ _
    cases hk : keep e with
    | true =>
      have h2 : Dist.mass (percolateDist p es) (fun a => (if false = true then e :: a else a) == (e :: es).filter keep) = 0 := by
        apply mass_eq_zero
        intro x hx
        have hsub := percolate_support' p es x.1 ⟨x.2, hx⟩
        simp only [List.filter_cons, hk, if_true, Bool.false_eq_true, if_false, beq_eq_false_iff_ne, ne_eq]
        intro heq
        apply hnd.1
        apply hsub.subset
        rw [heq]; exact List.mem_cons_self
      have h1 : Dist.mass (percolateDist p es) (fun a => (if true = true then e :: a else a) == (e :: es).filter keep)
          = Dist.mass (percolateDist p es) (fun kept => kept == es.filter keep) := by
        apply mass_congr
        intro x _
        simp [hk]
      rw [h1, h2, ih']
      simp only [List.filter_cons, hk, if_true, List.length_cons, Nat.add_sub_add_right]
      ring
    | false =>
      have h1 : Dist.mass (percolateDist p es) (fun a => (if true = true then e :: a else a) == (e :: es).filter keep) = 0 := by
        apply mass_eq_zero
        intro x _
        simp only [List.filter_cons, hk, if_true, Bool.false_eq_true, if_false, beq_eq_false_iff_ne, ne_eq]
        intro heq
        apply hnd.1
        have : e ∈ es.filter keep := by rw [← heq]; exact List.mem_cons_self
        exact (List.mem_filter.mp this).1
      have h2 : Dist.mass (percolateDist p es) (fun a => (if false = true then e :: a else a) == (e :: es).filter keep)
          = Dist.mass (percolateDist p es) (fun kept => kept == es.filter keep) := by
        apply mass_congr
        intro x _
        simp [hk]
      rw [h1, h2, ih']
      simp only [List.filter_cons, hk, Bool.false_eq_true, if_false, List.length_cons]
      rw [Nat.succ_sub hle, pow_succ]
      ring

/-! ### balls -/
section Ball
variable (P : DParams) (infs recs : List Node)

theorem mem_ball_zero (v : Node) :
    v ∈ ball P infs recs 0 ↔ v ∈ P.nodes ∧ v ∈ infs ∧ v ∉ recs := by
  simp [ball]

theorem mem_ball_succ (k : Nat) (v : Node) :
    v ∈ ball P infs recs (k + 1) ↔ v ∈ P.nodes ∧ v ∉ recs ∧
      (v ∈ ball P infs recs k ∨ ∃ u ∈ ball P infs recs k, v ∈ P.nbrs u ∧ P.rule 0 u v = true) := by
  simp [ball]

theorem ball_eq_filter (k : Nat) : ∃ p : Node → Bool, ball P infs recs k = P.nodes.filter p := by
  cases k with
  | zero => exact ⟨_, rfl⟩
  | succ k => exact ⟨_, rfl⟩

theorem ball_eq_filter_mem (k : Nat) :
    ball P infs recs k = P.nodes.filter fun v => decide (v ∈ ball P infs recs k) := by
  obtain ⟨p, hp⟩ := ball_eq_filter P infs recs k
  rw [hp]
  apply List.filter_congr
  intro v hv
  simp [hv]

theorem ball_nodes (k : Nat) (v : Node) (h : v ∈ ball P infs recs k) : v ∈ P.nodes ∧ v ∉ recs := by
  cases k with
  | zero => rw [mem_ball_zero] at h; exact ⟨h.1, h.2.2⟩
  | succ k => rw [mem_ball_succ] at h; exact ⟨h.1, h.2.1⟩

theorem ball_mono_succ (k : Nat) (v : Node) (h : v ∈ ball P infs recs k) : v ∈ ball P infs recs (k + 1) := by
  rw [mem_ball_succ]
  exact ⟨(ball_nodes P infs recs k v h).1, (ball_nodes P infs recs k v h).2, Or.inl h⟩

theorem ball_mono {k m : Nat} (hkm : k ≤ m) (v : Node) (h : v ∈ ball P infs recs k) : v ∈ ball P infs recs m := by
  induction m with
  | zero => have : k = 0 := by omega
            subst this; exact h
  | succ n ih =>
    by_cases hk : k = n + 1
    · subst hk; exact h
    · exact ball_mono_succ P infs recs n v (ih (by omega))

theorem ball_stationary (k : Nat) (h : ∀ v, v ∈ ball P infs recs (k + 1) → v ∈ ball P infs recs k) :
    ∀ m v, v ∈ ball P infs recs (k + m) → v ∈ ball P infs recs k := by
  intro m
  induction m with
  | zero => intro v hv; exact hv
  | succ n ih =>
    intro v hv
    rw [← Nat.add_assoc, mem_ball_succ] at hv
    obtain ⟨h1, h2, h3 | ⟨u, hu, hc⟩⟩ := hv
    · exact ih v h3
    · apply h
      rw [mem_ball_succ]
      exact ⟨h1, h2, Or.inr ⟨u, ih u hu, hc⟩⟩

theorem ball_stationary' (k : Nat) (h : ∀ v, v ∈ ball P infs recs (k + 1) → v ∈ ball P infs recs k)
    (m : Nat) (v : Node) (hv : v ∈ ball P infs recs m) : v ∈ ball P infs recs k := by
  by_cases hm : m ≤ k
  · exact ball_mono P infs recs hm v hv
  · have : m = k + (m - k) := by omega
    rw [this] at hv
    exact ball_stationary P infs recs k h _ v hv

theorem ball_empty (h : ∀ v, v ∉ ball P infs recs 0) : ∀ k v, v ∉ ball P infs recs k := by
  intro k
  induction k with
  | zero => exact h
  | succ n ih =>
    intro v hv
    rw [mem_ball_succ] at hv
    obtain ⟨_, _, h3 | ⟨u, hu, _⟩⟩ := hv
    · exact ih v h3
    · exact ih u hu

set_option linter.unnecessarySeqFocus false in
theorem length_filter_lt {α : Type} (l : List α) (p q : α → Bool) (hpq : ∀ v ∈ l, p v = true → q v = true)
    (hex : ∃ v ∈ l, q v = true ∧ p v = false) : (l.filter p).length < (l.filter q).length := by
  induction l with
  | nil => obtain ⟨v, hv, _⟩ := hex; simp at hv
  | cons a t ih =>
    have hmono : (t.filter p).length ≤ (t.filter q).length := by
      have : t.filter p = (t.filter q).filter p := by
        rw [List.filter_filter]
        apply List.filter_congr
        intro v hv
        have := hpq v (List.mem_cons_of_mem _ hv)
        cases hp : p v <;> simp_all
      rw [this]; exact List.length_filter_le _ _
    obtain ⟨v, hv, hq, hp⟩ := hex
    have ha := hpq a List.mem_cons_self
    rcases List.mem_cons.mp hv with rfl | hvt
    · simp only [List.filter_cons, hq, hp, if_true, Bool.false_eq_true, if_false, List.length_cons]
      omega
    · have iht := ih (fun w hw => hpq w (List.mem_cons_of_mem _ hw)) ⟨v, hvt, hq, hp⟩
      simp only [List.filter_cons]
      cases hpa : p a <;> cases hqa : q a <;> simp_all <;> omega

theorem ball_length_le (k : Nat) : (ball P infs recs k).length ≤ P.nodes.length := by
  obtain ⟨p, hp⟩ := ball_eq_filter P infs recs k
  rw [hp]; exact List.length_filter_le _ _

theorem ball_length_growth (m : Nat)
    (h : ∀ k < m, ∃ v, v ∈ ball P infs recs (k + 1) ∧ v ∉ ball P infs recs k) :
    m ≤ (ball P infs recs m).length := by
  induction m with
  | zero => exact Nat.zero_le _
  | succ n ih =>
    have ihn := ih (fun k hk => h k (by omega))
    obtain ⟨v, hv1, hv2⟩ := h n (by omega)
    have : (ball P infs recs n).length < (ball P infs recs (n + 1)).length := by
      rw [ball_eq_filter_mem P infs recs n, ball_eq_filter_mem P infs recs (n + 1)]
      apply length_filter_lt
      · intro w _ hw
        simp only [decide_eq_true_eq] at hw ⊢
        exact ball_mono_succ P infs recs n w hw
      · exact ⟨v, (ball_nodes P infs recs _ v hv1).1, by simpa using hv1, by simpa using hv2⟩
    omega

theorem exists_stationary :
    ∃ k ≤ P.nodes.length, ∀ v, v ∈ ball P infs recs (k + 1) → v ∈ ball P infs recs k := by
  by_contra hcon
  have h : ∀ k < P.nodes.length + 1, ∃ v, v ∈ ball P infs recs (k + 1) ∧ v ∉ ball P infs recs k := by
    intro k hk
    by_contra hk'
    apply hcon
    refine ⟨k, by omega, ?_⟩
    intro v hv
    by_contra hv'
    exact hk' ⟨v, hv, hv'⟩
  have h1 := ball_length_growth P infs recs _ h
  have h2 := ball_length_le P infs recs (P.nodes.length + 1)
  omega

theorem ball_le_N (k : Nat) (v : Node) (hv : v ∈ ball P infs recs k) : v ∈ ball P infs recs P.nodes.length := by
  obtain ⟨k0, hk0, hst⟩ := exists_stationary P infs recs
  exact ball_mono P infs recs hk0 v (ball_stationary' P infs recs k0 hst k v hv)

/-! ### `bfs` is the least index of a ball containing the node -/

theorem find?_range_none (p : Nat → Bool) (n : Nat) (h : (List.range n).find? p = none) :
    ∀ j < n, p j = false := by
  intro j hj
  rw [List.find?_eq_none] at h
  have := h j (List.mem_range.mpr hj)
  simpa using this

theorem find?_range_some (p : Nat → Bool) (n d : Nat) (h : (List.range n).find? p = some d) :
    d < n ∧ p d = true ∧ ∀ j < d, p j = false := by
  induction n with
  | zero => simp at h
  | succ n ih =>
    rw [List.range_succ, List.find?_append] at h
    cases hf : (List.range n).find? p with
    | some d' =>
      rw [hf] at h
      simp only [Option.some_or, Option.some.injEq] at h
      have := ih (by rw [hf, h])
      exact ⟨by omega, this.2⟩
    | none =>
      rw [hf] at h
      simp only [Option.none_or, List.find?_cons, List.find?_nil] at h
      cases hp : p n with
      | true =>
        rw [hp] at h
        simp only [Option.some.injEq] at h
        subst h
        exact ⟨by omega, hp, find?_range_none p n hf⟩
      | false => rw [hp] at h; simp at h

theorem bfs_none (v : Node) (h : bfs P infs recs v = none) : ∀ k, v ∉ ball P infs recs k := by
  intro k hk
  have := find?_range_none _ _ h P.nodes.length (by omega)
  have h2 := ball_le_N P infs recs k v hk
  simp [h2] at this

theorem bfs_some (v : Node) (d : Nat) (h : bfs P infs recs v = some d) :
    v ∈ ball P infs recs d ∧ ∀ j < d, v ∉ ball P infs recs j := by
  obtain ⟨_, h2, h3⟩ := find?_range_some _ _ _ h
  refine ⟨by simpa using h2, ?_⟩
  intro j hj
  simpa using h3 j hj

/-! ### expected report of a node after `i` generations -/

def isNew (k : Nat) (v : Node) : Prop := v ∈ ball P infs recs (k + 1) ∧ v ∉ ball P infs recs k

instance (k : Nat) (v : Node) : Decidable (isNew P infs recs k v) := by unfold isNew; infer_instance

def repSpec : Nat → Node → List Rat
  | 0, _ => []
  | i + 1, v => repSpec i v ++ (if isNew P infs recs i v then [P.tmin + (i : Rat) + 1] else [])

theorem isNew_unique (d d' : Nat) (v : Node) (h : isNew P infs recs d v) (h' : isNew P infs recs d' v) :
    d = d' := by
  by_contra hne
  rcases Nat.lt_or_gt_of_ne hne with hlt | hlt
  · exact h'.2 (ball_mono P infs recs (by omega) v h.1)
  · exact h.2 (ball_mono P infs recs (by omega) v h'.1)

theorem repSpec_nil (i : Nat) (v : Node) (h : ∀ d < i, ¬ isNew P infs recs d v) :
    repSpec P infs recs i v = [] := by
  induction i with
  | zero => rfl
  | succ n ih =>
    simp only [repSpec]
    rw [ih (fun d hd => h d (by omega)), if_neg (h n (by omega))]
    rfl

theorem repSpec_single (i d : Nat) (v : Node) (hd : d < i) (h : isNew P infs recs d v) :
    repSpec P infs recs i v = [P.tmin + (d : Rat) + 1] := by
  induction i with
  | zero => omega
  | succ n ih =>
    simp only [repSpec]
    by_cases hdn : d = n
    · subst hdn
      rw [if_pos h, repSpec_nil]
      · rfl
      · intro d' hd' h'
        have := isNew_unique P infs recs d d' v h h'
        omega
    · rw [ih (by omega), if_neg]
      · rfl
      · intro h'
        exact hdn (isNew_unique P infs recs d n v h h')

/-! ### the BFS invariant of the loop -/

/-- report of node `v` in an output list -/
def rep (l : List (Node × Rat)) (v : Node) : List Rat := (l.filter fun e => e.1 == v).map (·.2)

theorem rep_append (l m : List (Node × Rat)) (v : Node) : rep (l ++ m) v = rep l v ++ rep m v := by
  simp [rep]

theorem rep_map_const (l : List Node) (hl : l.Nodup) (c : Rat) (v : Node) :
    rep (l.map fun w => (w, c)) v = if v ∈ l then [c] else [] := by
  induction l with
  | nil => rfl
  | cons a t ih =>
    have hnd := List.nodup_cons.mp hl
    have iht := ih hnd.2
    by_cases hav : a = v
    · subst hav
      have : a ∉ t := hnd.1
      simp only [this, if_false] at iht
      simp only [rep, List.map_cons, List.filter_cons, beq_self_eq_true, if_true, List.mem_cons, true_or]
      simp only [rep] at iht
      rw [iht]
    · have hva : ¬ v = a := fun h => hav h.symm
      simp only [rep, List.map_cons, List.filter_cons, List.mem_cons, hva, false_or]
      simp only [rep] at iht
      rw [← iht]
      simp [hav]

theorem ERat_lt_mono (a b : Rat) (t : ERat) (hab : b ≤ a) (h : ERat.lt (some a) t = true) :
    ERat.lt (some b) t = true := by
  cases t with
  | none => rfl
  | some y =>
    simp only [ERat.lt, decide_eq_true_eq] at h ⊢
    exact lt_of_le_of_lt hab h

structure BfsInv (i : Nat) (s : DState) : Prop where
  sus : ∀ v ∈ P.nodes, (s.sus v = true ↔ v ∉ ball P infs recs i ∧ v ∉ recs)
  inf_sub : ∀ v ∈ s.inf, v ∈ ball P infs recs i
  inf_sup : ∀ v ∈ ball P infs recs i, (∀ j, i = j + 1 → v ∉ ball P infs recs j) → v ∈ s.inf
  time : s.t.headD P.tmin = P.tmin + (i : Rat)
  horizon : ∀ j < i, ERat.lt (some (P.tmin + (j : Rat))) P.tmax = true
  rep : ∀ v, rep s.infTime v = repSpec P infs recs i v
  rule0 : ∀ u v, P.rule (s.age u) u v = P.rule 0 u v

theorem bfsInv_init (h : WF P infs recs) : BfsInv P infs recs 0 (init P infs recs) := by
  refine ⟨?_, ?_, ?_, ?_, ?_, ?_, ?_⟩
  · intro v hv
    rw [mem_ball_zero]
    simp only [init, Bool.not_eq_true', Bool.or_eq_false_iff, List.contains_eq_mem, decide_eq_false_iff_not]
    tauto
  · intro v hv
    simp only [init, List.mem_filter, List.contains_iff_mem] at hv
    rw [mem_ball_zero]
    exact ⟨hv.1, hv.2, h.disjoint v hv.2⟩
  · intro v hv _
    rw [mem_ball_zero] at hv
    simp only [init, List.mem_filter, List.contains_iff_mem]
    exact ⟨hv.1, hv.2.1⟩
  · simp [init]
  · intro j hj; omega
  · intro v; rfl
  · intro u v; rfl

theorem mem_newInf_bfs (i : Nat) (s : DState) (h : BfsInv P infs recs i s) (v : Node) :
    v ∈ newInf P s ↔ isNew P infs recs i v := by
  unfold isNew
  rw [mem_newInf, mem_ball_succ]
  constructor
  · rintro ⟨hv, hs, u, hu, hc⟩
    rw [h.rule0] at hc
    have := (h.sus v hv).mp hs
    exact ⟨⟨hv, this.2, Or.inr ⟨u, h.inf_sub u hu, hc⟩⟩, this.1⟩
  · rintro ⟨⟨hv, hr, hb⟩, hnb⟩
    refine ⟨hv, (h.sus v hv).mpr ⟨hnb, hr⟩, ?_⟩
    rcases hb with hb | ⟨u, hu, hc⟩
    · exact absurd hb hnb
    · by_cases hui : u ∈ s.inf
      · exact ⟨u, hui, by rw [h.rule0]; exact hc⟩
      · exfalso
        have : ¬ ∀ j, i = j + 1 → u ∉ ball P infs recs j := fun hall => hui (h.inf_sup u hu hall)
        apply this
        intro j hj huj
        subst hj
        apply hnb
        rw [mem_ball_succ]
        exact ⟨hv, hr, Or.inr ⟨u, huj, hc⟩⟩

theorem bfsInv_step (hrule : P.recSteps = none ∨ Ageless P) (hnd : P.nodes.Nodup) (i : Nat) (s : DState) (h : BfsInv P infs recs i s)
    (hrun : ¬ stopped P s) : BfsInv P infs recs (i + 1) (step P s) := by
  have hnew := mem_newInf_bfs P infs recs i s h
  have hstay_sub : (stay P s).Sublist s.inf := stay_sublist P s
  refine ⟨?_, ?_, ?_, ?_, ?_, ?_, ?_⟩
  · intro v hv
    rw [step_sus]
    simp only [Bool.and_eq_true, Bool.not_eq_true', List.contains_eq_mem, decide_eq_false_iff_not]
    rw [hnew, h.sus v hv]
    unfold isNew
    constructor
    · rintro ⟨⟨h1, h2⟩, h3⟩
      exact ⟨fun hb => h3 ⟨hb, h1⟩, h2⟩
    · rintro ⟨h1, h2⟩
      exact ⟨⟨fun hb => h1 (ball_mono_succ P infs recs i v hb), h2⟩, fun hb => h1 hb.1⟩
  · intro v hv
    rw [mem_step_inf] at hv
    rcases hv.2 with hv' | hv'
    · exact ((hnew v).mp hv').1
    · exact ball_mono_succ P infs recs i v (h.inf_sub v (hstay_sub.subset hv'))
  · intro v hv hall
    rw [mem_step_inf]
    have hvn := (ball_nodes P infs recs _ v hv).1
    exact ⟨hvn, Or.inl ((hnew v).mpr ⟨hv, hall i rfl⟩)⟩
  · rw [step_t]
    simp only [List.headD_cons]
    rw [h.time]; push_cast; ring
  · intro j hj
    by_cases hji : j = i
    · subst hji
      unfold stopped at hrun
      rw [h.time] at hrun
      cases hlt : ERat.lt (some (P.tmin + (j : Rat))) P.tmax with
      | true => rfl
      | false => exact absurd (Or.inr hlt) hrun
    · exact h.horizon j (by omega)
  · intro v
    have hnn : (newInf P s).Nodup := (List.filter_sublist (l := P.nodes)).nodup hnd
    rw [step_infTime, rep_append, h.rep v, rep_map_const (newInf P s) hnn, h.time]
    simp only [repSpec]
    congr 1
    by_cases hn : isNew P infs recs i v
    · rw [if_pos ((hnew v).mpr hn), if_pos hn]
    · rw [if_neg (fun hh => hn ((hnew v).mp hh)), if_neg hn]
  · intro u v
    rcases hrule with hnone | hag
    · rw [step_age_none P s hnone]; exact h.rule0 u v
    · exact hag _ u v

theorem bfsInv_run (hrule : P.recSteps = none ∨ Ageless P) (h : WF P infs recs) (fuel : Nat) :
    ∃ i, BfsInv P infs recs i (run P infs recs fuel) :=
  loop_inv P (BfsInv P infs recs) (fun i s hs hr => bfsInv_step P infs recs hrule h.nodup i s hs hr)
    fuel 0 _ (bfsInv_init P infs recs h)

/-- final step: the invariant at a stopped state gives the BFS predicate -/
theorem isBFS_of_inv (i : Nat) (s : DState) (h : BfsInv P infs recs i s) (hstop : stopped P s) :
    isBFS P infs recs s.infTime = true := by
  unfold isBFS
  rw [List.all_eq_true]
  intro v hv
  have hrep : (s.infTime.filter fun e => e.1 == v).map (·.2) = repSpec P infs recs i v := h.rep v
  simp only
  rw [hrep]
  cases hb : bfs P infs recs v with
  | none =>
    have hnone := bfs_none P infs recs v hb
    simp only [beq_iff_eq]
    exact repSpec_nil P infs recs i v (fun d _ hn => hnone _ hn.1)
  | some d =>
    obtain ⟨hd1, hd2⟩ := bfs_some P infs recs v d hb
    cases d with
    | zero =>
      simp only [beq_iff_eq]
      exact repSpec_nil P infs recs i v (fun d _ hn => hn.2 (ball_mono P infs recs (Nat.zero_le _) v hd1))
    | succ d =>
      have hnew : isNew P infs recs d v := ⟨hd1, hd2 d (by omega)⟩
      simp only
      by_cases hlt : ERat.lt (some (P.tmin + (d : Rat))) P.tmax = true
      · rw [if_pos hlt, beq_iff_eq]
        apply repSpec_single P infs recs i d v _ hnew
        by_contra hid
        have hid : i ≤ d := by omega
        rcases hstop with hemp | hhor
        · -- no infectious node left: the balls are stationary from `i` on
          have hemp' : s.inf = [] := by simpa using hemp
          cases i with
          | zero =>
            have h0 : ∀ w, w ∉ ball P infs recs 0 := by
              intro w hw
              have := h.inf_sup w hw (fun j hj => by omega)
              rw [hemp'] at this; simp at this
            exact ball_empty P infs recs h0 _ v hd1
          | succ j =>
            have hst : ∀ w, w ∈ ball P infs recs (j + 1) → w ∈ ball P infs recs j := by
              intro w hw
              by_contra hwj
              have := h.inf_sup w hw (fun j' hj' => by
                have : j' = j := by omega
                subst this; exact hwj)
              rw [hemp'] at this; simp at this
            have := ball_stationary' P infs recs j hst _ v hd1
            exact hd2 j (by omega) this
        · rw [h.time] at hhor
          have := ERat_lt_mono (P.tmin + (d : Rat)) (P.tmin + (i : Rat)) P.tmax
            (by have : (i : Rat) ≤ (d : Rat) := by exact_mod_cast hid
                linarith) hlt
          rw [this] at hhor
          exact absurd hhor (by simp)
      · rw [if_neg hlt, beq_iff_eq]
        apply repSpec_nil
        intro d' hd' hn'
        have := isNew_unique P infs recs d d' v hnew hn'
        subst this
        exact hlt (h.horizon d hd')

theorem bfs_correct' (hrule : P.recSteps = none ∨ Ageless P) (h : WF P infs recs) (fuel : Nat)
    (hstop : let s := run P infs recs fuel
             s.inf.isEmpty = true ∨ ERat.lt (some (s.t.headD P.tmin)) P.tmax = false) :
    isBFS P infs recs (run P infs recs fuel).infTime = true := by
  obtain ⟨i, hi⟩ := bfsInv_run P infs recs hrule h fuel
  exact isBFS_of_inv P infs recs i _ hi hstop

end Ball

end Discrete
