import EoNVerif.Proofs.GenWrap4
import EoNVerif.Proofs.GenGlue3
/-!
Lemmas for C06k (`Props/C06k.lean`): what C06e / C06g / C06h / C06j leave open for the `*_from_graph` wrappers of
`Gen/WrapGen.lean`:

1. the KEY structure of the dict of dicts returned by the generated `get_Pnk` (`get_Pnk_eq` of `Proofs/GenHelp.lean` only
   gives the values): outer keys = the degrees present, keys of row `k1` = the neighbour degrees seen from nodes of
   degree `k1`;
2. the `(s, i)` tables of `SIS_effective_degree_from_graph` / `SIR_effective_degree_from_graph`.
-/
set_option linter.unusedSimpArgs false
namespace GenWrapProofs5
open GenInit InitCond GenInitProofs GenWrap GenWrapProofs GenWrapProofs2 GenWrapProofs3 GenWrapProofs4
open GenHelpProofs (ok_bind err_bind pure_eq_ok throw_eq_err PkAL)

/-! ## 1. keys of `get_Pnk` -/

/-- `a` is a key of the outer dict -/
def oKey (P : List (Nat × List (Nat × Rat))) (a : Nat) : Prop := a ∈ P.map (·.1)
/-- `b` is a key of `P[a]` (no row: no key) -/
def rKey (P : List (Nat × List (Nat × Rat))) (a b : Nat) : Prop := b ∈ (alGet P [] a).map (·.1)

theorem mem_keys_alSet {ν : Type} (l : List (Nat × ν)) (x : Nat) (v : ν) (a : Nat) :
    a ∈ (alSet l x v).map (·.1) ↔ a ∈ l.map (·.1) ∨ a = x := by
  rw [GenHelpProofs.keys_alSet]
  by_cases h : x ∈ l.map (·.1)
  · rw [if_pos h]
    constructor
    · exact Or.inl
    · rintro (h' | rfl)
      · exact h'
      · exact h
  · rw [if_neg h]; simp

theorem oKey_step (P : List (Nat × List (Nat × Rat))) (k1 : Nat) (r : List (Nat × Rat)) (a : Nat) :
    oKey (alSet P k1 r) a ↔ oKey P a ∨ a = k1 := mem_keys_alSet P k1 r a

theorem rKey_step (P : List (Nat × List (Nat × Rat))) (k1 k2 : Nat) (v : Rat) (a b : Nat) :
    rKey (alSet P k1 (alSet (alGet P [] k1) k2 v)) a b ↔ rKey P a b ∨ (a = k1 ∧ b = k2) := by
  unfold rKey
  by_cases ha : a = k1
  · subst ha
    rw [alGet_alSet_self, mem_keys_alSet]
    simp
  · rw [alGet_alSet_ne _ _ _ _ _ ha]
    simp [ha]

/-- the body of the inner loop of `get_Pnk` -/
def pnkBody (Nk : List (Nat × Nat)) (k1 : Nat) :
    List (Nat × List (Nat × Rat)) → Nat → Except String (List (Nat × List (Nat × Rat))) :=
  fun Pnk k2 => do
    let q ← PyTM.fdiv (1 : Rat) (((k1 : Nat) : Rat) * ((alGet Nk 0 k1 : Nat) : Rat))
    let row := alGet Pnk [] k1
    (pure (alSet Pnk k1 (alSet row k2 (alGet row 0 k2 + q))) : Except String _)

theorem pnkBody_ok (Nk : List (Nat × Nat)) (k1 : Nat) (P P1 : List (Nat × List (Nat × Rat))) (k2 : Nat)
    (h : pnkBody Nk k1 P k2 = .ok P1) :
    ∃ q, P1 = alSet P k1 (alSet (alGet P [] k1) k2 (alGet (alGet P [] k1) 0 k2 + q)) := by
  unfold pnkBody at h
  cases hq : PyTM.fdiv (1 : Rat) (((k1 : Nat) : Rat) * ((alGet Nk 0 k1 : Nat) : Rat)) with
  | error e => rw [hq] at h; cases h
  | ok q =>
    rw [hq] at h
    simp only [ok_bind, pure_eq_ok] at h
    injection h with h
    exact ⟨q, h.symm⟩

/-- the inner loop of `get_Pnk`: whatever it returns has the keys it started with plus `k1` (if entered) and, in row
`k1`, the degrees met -/
theorem inner_keys (Nk : List (Nat × Nat)) (k1 : Nat) (l : List Nat) :
    ∀ (P P' : List (Nat × List (Nat × Rat))), l.foldlM (pnkBody Nk k1) P = .ok P' →
    (∀ a, oKey P' a ↔ oKey P a ∨ (a = k1 ∧ l ≠ [])) ∧
    (∀ a b, rKey P' a b ↔ rKey P a b ∨ (a = k1 ∧ b ∈ l)) := by
  induction l with
  | nil =>
    intro P P' h
    rw [List.foldlM_nil] at h
    injection h with h; subst h
    exact ⟨fun a => by simp, fun a b => by simp⟩
  | cons k2 t ih =>
    intro P P' h
    rw [List.foldlM_cons] at h
    cases hb : pnkBody Nk k1 P k2 with
    | error e => rw [hb] at h; cases h
    | ok P1 =>
      rw [hb, ok_bind] at h
      obtain ⟨q, rfl⟩ := pnkBody_ok Nk k1 P P1 k2 hb
      obtain ⟨h1, h2⟩ := ih _ P' h
      refine ⟨fun a => ?_, fun a b => ?_⟩
      · rw [h1 a, oKey_step]
        constructor
        · rintro ((h | h) | ⟨h, -⟩)
          · exact Or.inl h
          · exact Or.inr ⟨h, by simp⟩
          · exact Or.inr ⟨h, by simp⟩
        · rintro (h | ⟨h, -⟩)
          · exact Or.inl (Or.inl h)
          · exact Or.inl (Or.inr h)
      · rw [h2 a b, rKey_step]
        simp only [List.mem_cons]
        tauto

/-- the outer loop of `get_Pnk` -/
theorem outer_keys (Nk : List (Nat × Nat)) (rows : List (List Nat)) :
    ∀ (P P' : List (Nat × List (Nat × Rat))),
    rows.foldlM (fun Pnk (nbr_degrees : List Nat) => nbr_degrees.foldlM (pnkBody Nk nbr_degrees.length) Pnk) P = .ok P' →
    (∀ a, oKey P' a ↔ oKey P a ∨ ∃ row ∈ rows, row.length = a ∧ row ≠ []) ∧
    (∀ a b, rKey P' a b ↔ rKey P a b ∨ ∃ row ∈ rows, row.length = a ∧ b ∈ row) := by
  induction rows with
  | nil =>
    intro P P' h
    rw [List.foldlM_nil] at h
    injection h with h; subst h
    exact ⟨fun a => by simp, fun a b => by simp⟩
  | cons row t ih =>
    intro P P' h
    rw [List.foldlM_cons] at h
    cases h1 : row.foldlM (pnkBody Nk row.length) P with
    | error e => rw [h1] at h; cases h
    | ok P1 =>
      rw [h1, ok_bind] at h
      obtain ⟨i1, i2⟩ := inner_keys Nk row.length row P P1 h1
      obtain ⟨o1, o2⟩ := ih P1 P' h
      refine ⟨fun a => ?_, fun a b => ?_⟩
      · rw [o1 a, i1 a]
        simp only [List.mem_cons, exists_eq_or_imp]
        constructor
        · rintro ((h | ⟨h, h'⟩) | h)
          · exact Or.inl h
          · exact Or.inr (Or.inl ⟨h.symm, h'⟩)
          · exact Or.inr (Or.inr h)
        · rintro (h | ⟨h, h'⟩ | h)
          · exact Or.inl (Or.inl h)
          · exact Or.inl (Or.inr ⟨h.symm, h'⟩)
          · exact Or.inr h
      · rw [o2 a b, i2 a b]
        simp only [List.mem_cons, exists_eq_or_imp]
        constructor
        · rintro ((h | ⟨h, h'⟩) | h)
          · exact Or.inl h
          · exact Or.inr (Or.inl ⟨h.symm, h'⟩)
          · exact Or.inr (Or.inr h)
        · rintro (h | ⟨h, h'⟩ | h)
          · exact Or.inl (Or.inl h)
          · exact Or.inl (Or.inr ⟨h.symm, h'⟩)
          · exact Or.inr h

/-- the dict `{k1: {} for k1 in degrees}` built before the loops: keys = the degrees, all rows empty -/
theorem init_keys (degs : List Nat) : ∀ (acc : List (Nat × List (Nat × Rat))),
    (∀ a, oKey (degs.foldl (fun acc k1 => if alHas acc k1 then acc else acc ++ [(k1, [])]) acc) a ↔
      oKey acc a ∨ a ∈ degs) := by
  induction degs with
  | nil => intro acc a; simp
  | cons d t ih =>
    intro acc a
    rw [List.foldl_cons, ih]
    by_cases hd : alHas acc d = true
    · rw [if_pos hd]
      have : oKey acc d := (mem_alKeys_iff acc d).2 hd
      simp only [List.mem_cons]
      constructor
      · rintro (h | h)
        · exact Or.inl h
        · exact Or.inr (Or.inr h)
      · rintro (h | rfl | h)
        · exact Or.inl h
        · exact Or.inl this
        · exact Or.inr h
    · rw [if_neg hd]
      unfold oKey
      simp only [List.map_append, List.map_cons, List.map_nil, List.mem_append, List.mem_singleton, List.mem_cons]
      tauto

theorem init_rows (degs : List Nat) (a b : Nat) :
    ¬ rKey (degs.foldl (fun acc k1 => if alHas acc k1 then acc else acc ++ [(k1, [])]) []) a b := by
  unfold rKey
  rw [GenHelpProofs.alGet_const _ [] a (GenHelpProofs.pnk_init_rows degs [] (by simp))]
  simp

/-- **the keys of `get_Pnk`** on an arbitrary list of neighbour-degree lists: the outer keys are the node degrees
(`len` of the rows), the keys of `Pnk[k1]` are the entries of the rows of length `k1` -/
theorem get_Pnk_keys (nbrdegs : List (List Nat)) (P : List (Nat × List (Nat × Rat)))
    (h : GenHelp.get_Pnk nbrdegs = .ok P) :
    (∀ a, a ∈ P.map (·.1) ↔ a ∈ nbrdegs.map (·.length)) ∧
    (∀ a b, b ∈ (alGet P [] a).map (·.1) ↔ ∃ row ∈ nbrdegs, row.length = a ∧ b ∈ row) := by
  obtain ⟨o1, o2⟩ := outer_keys (PyHelp.counter (nbrdegs.map (·.length))) nbrdegs
    ((nbrdegs.map (·.length)).foldl (fun acc k1 => if alHas acc k1 then acc else acc ++ [(k1, [])]) []) P h
  refine ⟨fun a => ?_, fun a b => ?_⟩
  · have := o1 a
    unfold oKey at this
    rw [this]
    have hi := init_keys (nbrdegs.map (·.length)) [] a
    unfold oKey at hi
    rw [hi]
    simp only [List.map_nil, List.not_mem_nil, false_or, List.mem_map]
    constructor
    · rintro (h | ⟨row, hr, hl, -⟩)
      · exact h
      · exact ⟨row, hr, hl⟩
    · exact Or.inl
  · have := o2 a b
    unfold rKey at this
    rw [this]
    have hi := init_rows (nbrdegs.map (·.length)) a b
    unfold rKey at hi
    simp [hi]

/-! ## 2. `(s, i)` tables -/

/-- the `(M+1) × (M+1)` table `[[F s i for i in 0..M] for s in 0..M]` -/
def mat (M : Nat) (F : Nat → Nat → Rat) : List (List Rat) := (List.range (M + 1)).map fun s => vec M (F s)

@[simp] theorem mat_length (M : Nat) (F : Nat → Nat → Rat) : (mat M F).length = M + 1 := by simp [mat]

theorem mat_getElem? (M : Nat) (F : Nat → Nat → Rat) (s : Nat) :
    (mat M F)[s]? = if s ≤ M then some (vec M (F s)) else none := by
  unfold mat
  rw [List.getElem?_map]
  by_cases h : s ≤ M
  · rw [if_pos h, List.getElem?_range (by omega)]; rfl
  · rw [if_neg h, List.getElem?_eq_none (by simp; omega)]; rfl

theorem mat_getD (M : Nat) (F : Nat → Nat → Rat) (s : Nat) (h : s ≤ M) : (mat M F).getD s [] = vec M (F s) := by
  rw [List.getD_eq_getElem?_getD, mat_getElem?, if_pos h]; rfl

theorem mat_congr (M : Nat) (F G : Nat → Nat → Rat) (h : ∀ a b, F a b = G a b) : mat M F = mat M G := by
  have : F = G := funext fun a => funext fun b => h a b
  rw [this]

theorem zeros2_eq (M : Nat) :
    PyWrap.zeros2 (((M : Nat) : Int) + 1) (((M : Nat) : Int) + 1) = .ok (mat M fun _ _ => 0) := by
  unfold PyWrap.zeros2
  have h1 : ¬ ((((M : Nat) : Int) + 1 < 0) ∨ (((M : Nat) : Int) + 1 < 0)) := by omega
  have h2 : (((M : Nat) : Int) + 1).toNat = M + 1 := by omega
  rw [if_neg h1, h2]
  show Except.ok _ = Except.ok _
  congr 1
  unfold mat vec
  apply List.ext_getElem
  · simp
  · intro k h3 h4
    simp

theorem mat_set_row (M : Nat) (F : Nat → Nat → Rat) (s : Nat) (g : Nat → Rat) :
    (mat M F).set s (vec M g) = mat M (fun a b => if a = s then g b else F a b) := by
  apply List.ext_getElem?
  intro k
  rw [List.getElem?_set, mat_getElem?, mat_getElem?]
  by_cases hk : s = k
  · subst hk
    by_cases hs : s ≤ M
    · simp [hs]
    · simp [hs]
  · have hk' : ¬ k = s := fun e => hk e.symm
    simp only [hk, hk', if_false]

theorem matAdd_nat (M : Nat) (F : Nat → Nat → Rat) (s i : Nat) (c : Rat) (hs : s ≤ M) (hi : i ≤ M) :
    PyWrap.matAdd (mat M F) ((s : Nat) : Int) ((i : Nat) : Int) c =
      .ok (mat M fun a b => F a b + if a = s ∧ b = i then c else 0) := by
  unfold PyWrap.matAdd
  rw [mat_length, idx_nat _ _ (by omega), ok_bind, mat_getD M F s hs, vecAdd_nat _ _ _ (by simp; omega), ok_bind,
    vec_set M (F s) i c hi, mat_set_row]
  show Except.ok _ = Except.ok _
  congr 1
  apply mat_congr
  intro a b
  by_cases ha : a = s
  · subst ha
    by_cases hb : i = b
    · subst hb; simp
    · have : ¬ b = i := fun e => hb e.symm
      simp [hb, this]
  · simp [ha]

theorem matSet_nat (M : Nat) (F : Nat → Nat → Rat) (s i : Nat) (c : Rat) (hs : s ≤ M) (hi : i ≤ M) :
    PyWrap.matSet (mat M F) ((s : Nat) : Int) ((i : Nat) : Int) c =
      .ok (mat M fun a b => if a = s ∧ b = i then c else F a b) := by
  unfold PyWrap.matSet PyWrap.vecSet
  rw [mat_length, idx_nat _ _ (by omega), ok_bind, mat_getD M F s hs, vec_length, idx_nat _ _ (by omega), ok_bind]
  have : (vec M (F s)).set i c = vec M (fun b => if b = i then c else F s b) := by
    apply List.ext_getElem?
    intro k
    rw [List.getElem?_set, vec_getElem?, vec_getElem?]
    by_cases hk : i = k
    · subst hk; simp [hi]
    · have hk' : ¬ k = i := fun e => hk e.symm
      simp [hk, hk']
  rw [this, pure_eq_ok, ok_bind, pure_eq_ok, mat_set_row]
  show Except.ok _ = Except.ok _
  congr 1
  apply mat_congr
  intro a b
  by_cases ha : a = s
  · subst ha; simp
  · simp [ha]

/-- number of nodes of the list with `sC u = a`, `iC u = b` and the property `p` -/
def siCnt (sC iC : Node → Nat) (p : Node → Prop) [DecidablePred p] (l : List Node) (a b : Nat) : Nat :=
  (l.filter fun u => sC u = a ∧ iC u = b ∧ p u).length

theorem siCnt_cons (sC iC : Node → Nat) (p : Node → Prop) [DecidablePred p] (u : Node) (t : List Node) (a b : Nat) :
    (siCnt sC iC p (u :: t) a b : Rat) = (if sC u = a ∧ iC u = b ∧ p u then 1 else 0) + (siCnt sC iC p t a b : Rat) := by
  unfold siCnt
  rw [List.filter_cons]
  by_cases h : sC u = a ∧ iC u = b ∧ p u
  · simp [h]; ring
  · simp [h]

/-- the node loop of `SIS_effective_degree_from_graph` on `(S_si0, I_si0)` -/
theorem sisLoop (st : Node → St) (sC iC : Node → Nat) (M : Nat) (l : List Node)
    (hl : ∀ u ∈ l, sC u ≤ M ∧ iC u ≤ M)
    (step : List (List Rat) × List (List Rat) → Node → Except String (List (List Rat) × List (List Rat)))
    (hstep : ∀ F G u, u ∈ l → step (mat M F, mat M G) u =
      if st u = St.S then
        (PyWrap.matAdd (mat M F) ((sC u : Nat) : Int) ((iC u : Nat) : Int) 1 >>= fun T => .ok (T, mat M G))
      else (PyWrap.matAdd (mat M G) ((sC u : Nat) : Int) ((iC u : Nat) : Int) 1 >>= fun T => .ok (mat M F, T))) :
    ∀ F G, l.foldlM step (mat M F, mat M G) =
      .ok (mat M (fun a b => F a b + (siCnt sC iC (fun u => st u = St.S) l a b : Rat)),
           mat M (fun a b => G a b + (siCnt sC iC (fun u => st u ≠ St.S) l a b : Rat))) := by
  induction l with
  | nil => intro F G; simp [siCnt]
  | cons u t ih =>
    intro F G
    obtain ⟨h1, h2⟩ := hl u (by simp)
    have ih' := ih (fun v hv => hl v (by simp [hv])) (fun F G v hv => hstep F G v (by simp [hv]))
    rw [List.foldlM_cons, hstep F G u (by simp)]
    by_cases hS : st u = St.S
    · rw [if_pos hS, matAdd_nat M F _ _ 1 h1 h2, ok_bind, ok_bind, ih']
      congr 2
      · apply mat_congr; intro a b
        rw [siCnt_cons]
        by_cases hc : sC u = a ∧ iC u = b
        · obtain ⟨rfl, rfl⟩ := hc
          simp [hS]; ring
        · have hc' : ¬ (a = sC u ∧ b = iC u) := fun e => hc ⟨e.1.symm, e.2.symm⟩
          have hc'' : ¬ (sC u = a ∧ iC u = b ∧ st u = St.S) := fun e => hc ⟨e.1, e.2.1⟩
          simp [hc', hc'']
      · apply mat_congr; intro a b
        rw [siCnt_cons]
        simp [hS]
    · rw [if_neg hS, matAdd_nat M G _ _ 1 h1 h2, ok_bind, ok_bind, ih']
      congr 2
      · apply mat_congr; intro a b
        rw [siCnt_cons]
        simp [hS]
      · apply mat_congr; intro a b
        rw [siCnt_cons]
        by_cases hc : sC u = a ∧ iC u = b
        · obtain ⟨rfl, rfl⟩ := hc
          simp [hS]; ring
        · have hc' : ¬ (a = sC u ∧ b = iC u) := fun e => hc ⟨e.1.symm, e.2.symm⟩
          have hc'' : ¬ (sC u = a ∧ iC u = b ∧ st u ≠ St.S) := fun e => hc ⟨e.1, e.2.1⟩
          simp [hc', hc'']

/-- the node loop of `SIR_effective_degree_from_graph` on `(S_si0, I0, R0)` -/
theorem sirLoop (st : Node → St) (sC iC : Node → Nat) (M : Nat) (l : List Node)
    (hl : ∀ u ∈ l, st u = St.S → sC u ≤ M ∧ iC u ≤ M)
    (step : List (List Rat) × Int × Int → Node → Except String (List (List Rat) × Int × Int))
    (hstep : ∀ F I0 R0 u, u ∈ l → step (mat M F, I0, R0) u =
      if st u = St.S then
        (PyWrap.matAdd (mat M F) ((sC u : Nat) : Int) ((iC u : Nat) : Int) 1 >>= fun T => .ok (T, I0, R0))
      else if st u = St.I then .ok (mat M F, I0 + 1, R0) else .ok (mat M F, I0, R0 + 1)) :
    ∀ F (I0 R0 : Int), l.foldlM step (mat M F, I0, R0) =
      .ok (mat M (fun a b => F a b + (siCnt sC iC (fun u => st u = St.S) l a b : Rat)),
           I0 + ((l.filter fun u => st u = St.I).length : Nat), R0 + ((l.filter fun u => st u = St.R).length : Nat)) := by
  induction l with
  | nil => intro F I0 R0; simp [siCnt]
  | cons u t ih =>
    intro F I0 R0
    have ih' := ih (fun v hv => hl v (by simp [hv])) (fun F I0 R0 v hv => hstep F I0 R0 v (by simp [hv]))
    rw [List.foldlM_cons, hstep F I0 R0 u (by simp)]
    cases hS : st u
    · obtain ⟨h1, h2⟩ := hl u (by simp) hS
      rw [if_pos rfl, matAdd_nat M F _ _ 1 h1 h2, ok_bind, ok_bind, ih']
      congr 2
      · apply mat_congr; intro a b
        rw [siCnt_cons]
        by_cases hc : sC u = a ∧ iC u = b
        · obtain ⟨rfl, rfl⟩ := hc
          simp [hS]; ring
        · have hc' : ¬ (a = sC u ∧ b = iC u) := fun e => hc ⟨e.1.symm, e.2.symm⟩
          have hc'' : ¬ (sC u = a ∧ iC u = b ∧ st u = St.S) := fun e => hc ⟨e.1, e.2.1⟩
          simp [hc', hc'']
      · simp [hS]
    · rw [if_neg (by simp), if_pos rfl, ok_bind, ih']
      congr 2
      · apply mat_congr; intro a b
        rw [siCnt_cons]; simp [hS]
      · simp [hS]; ring
    · rw [if_neg (by simp), if_neg (by simp), ok_bind, ih']
      congr 2
      · apply mat_congr; intro a b
        rw [siCnt_cons]; simp [hS]
      · simp [hS]; ring

/-- `SIS_effective_degree_from_graph` with an explicit set, status map built, graph with nodes, every node has at most
`len(G.neighbors(u)) ≥` its susceptible neighbours `≤ G.degree(u) ≤ maxdeg` -/
theorem SISed_sets (A : WArgs) (tau gamma : Rat) (infs : List Node) (tmin tmax : Rat) (tcount : Int) (full : Bool)
    (st : Node → St) (hst : initialize_node_status A.toIArgs infs [] = .ok st) (hne : A.nodes ≠ [])
    (hk : ∀ u ∈ A.nodes, nbCount st A.neighbors u St.S ≤ A.degree u ∧
      A.degree u ≤ Helpers.maxDeg (A.nodes.map A.degree)) :
    SIS_effective_degree_from_graph_args A tau gamma (some infs) none tmin tmax tcount full =
      .ok { Ssi0 := mat (Helpers.maxDeg (A.nodes.map A.degree)) (fun a b =>
              (siCnt (fun u => nbCount st A.neighbors u St.S) (fun u => A.degree u - nbCount st A.neighbors u St.S)
                (fun u => st u = St.S) A.nodes a b : Rat)),
            Isi0 := mat (Helpers.maxDeg (A.nodes.map A.degree)) (fun a b =>
              (siCnt (fun u => nbCount st A.neighbors u St.S) (fun u => A.degree u - nbCount st A.neighbors u St.S)
                (fun u => st u ≠ St.S) A.nodes a b : Rat)),
            tau := tau, gamma := gamma, tmin := tmin, tmax := tmax, tcount := tcount, return_full_data := full } := by
  unfold SIS_effective_degree_from_graph_args
  have hne' : A.nodes.map A.degree ≠ [] := fun e => hne (List.map_eq_nil_iff.mp e)
  simp only [Option.isSome_none, Bool.false_and, Bool.false_eq_true, if_false, ok_bind, hst, maxKey_counter, hne',
    zeros2_eq, Option.getD_none]
  rw [sisLoop st (fun u => nbCount st A.neighbors u St.S) (fun u => A.degree u - nbCount st A.neighbors u St.S)
    (Helpers.maxDeg (A.nodes.map A.degree)) A.nodes (fun u hu => ⟨by have := hk u hu; omega, by have := hk u hu; omega⟩)]
  swap
  · intro F G u hu
    have h1 := (hk u hu).1
    have e : ((A.degree u : Nat) : Int) - (0 + ((((A.neighbors u).filter fun v => st v = St.S).length : Nat) : Int))
        = ((A.degree u - nbCount st A.neighbors u St.S : Nat) : Int) := by
      unfold nbCount at h1 ⊢; omega
    simp only [nbFold, ok_bind, e]
    by_cases hS : st u = St.S
    · simp [hS, nbCount]
    · simp [hS, nbCount]
  simp [ok_bind]

/-- `SIR_effective_degree_from_graph` with explicit sets, status map built, graph with nodes, every susceptible node has
at most `maxdeg` susceptible and at most `maxdeg` infected neighbours -/
theorem SIRed_sets (A : WArgs) (tau gamma : Rat) (infs : List Node) (recs : Option (List Node)) (tmin tmax : Rat)
    (tcount : Int) (full : Bool) (st : Node → St)
    (hst : initialize_node_status A.toIArgs infs (recs.getD []) = .ok st) (hne : A.nodes ≠ [])
    (hk : ∀ u ∈ A.nodes, st u = St.S → nbCount st A.neighbors u St.S ≤ Helpers.maxDeg (A.nodes.map A.degree) ∧
      nbCount st A.neighbors u St.I ≤ Helpers.maxDeg (A.nodes.map A.degree)) :
    SIR_effective_degree_from_graph_args A tau gamma (some infs) recs none tmin tmax tcount full =
      .ok { S_si0 := mat (Helpers.maxDeg (A.nodes.map A.degree)) (fun a b =>
              (siCnt (fun u => nbCount st A.neighbors u St.S) (fun u => nbCount st A.neighbors u St.I)
                (fun u => st u = St.S) A.nodes a b : Rat)),
            I0 := (((A.nodes.filter fun u => st u = St.I).length : Nat) : Rat),
            R0 := (((A.nodes.filter fun u => st u = St.R).length : Nat) : Rat),
            tau := tau, gamma := gamma, tmin := tmin, tmax := tmax, tcount := tcount, return_full_data := full } := by
  unfold SIR_effective_degree_from_graph_args
  have hne' : A.nodes.map A.degree ≠ [] := fun e => hne (List.map_eq_nil_iff.mp e)
  simp only [Option.isSome_none, Bool.false_and, Bool.false_eq_true, if_false, ok_bind, hst, maxKey_counter, hne',
    zeros2_eq]
  rw [sirLoop st (fun u => nbCount st A.neighbors u St.S) (fun u => nbCount st A.neighbors u St.I)
    (Helpers.maxDeg (A.nodes.map A.degree)) A.nodes hk]
  swap
  · intro F I0 R0 u hu
    simp only [nbFold, ok_bind]
    cases hS : st u <;> simp [hS, nbCount]
  simp [ok_bind]

/-- the exceptions of the explicit-set requests of both wrappers, in the order of the generated code: `max` of no degrees
FIRST (ValueError, whatever the sets), then the status builder -/
theorem ed_sets_error (A : WArgs) (tau gamma : Rat) (infs : List Node) (recs : Option (List Node)) (tmin tmax : Rat)
    (tcount : Int) (full : Bool) :
    (A.nodes = [] →
      SIS_effective_degree_from_graph_args A tau gamma (some infs) none tmin tmax tcount full = .error "ValueError" ∧
      SIR_effective_degree_from_graph_args A tau gamma (some infs) recs none tmin tmax tcount full
        = .error "ValueError") ∧
    (∀ e, A.nodes ≠ [] → initialize_node_status A.toIArgs infs [] = .error e →
      SIS_effective_degree_from_graph_args A tau gamma (some infs) none tmin tmax tcount full = .error e) ∧
    (∀ e, A.nodes ≠ [] → initialize_node_status A.toIArgs infs (recs.getD []) = .error e →
      SIR_effective_degree_from_graph_args A tau gamma (some infs) recs none tmin tmax tcount full = .error e) := by
  refine ⟨fun hN => ⟨?_, ?_⟩, fun e hne he => ?_, fun e hne he => ?_⟩
  · unfold SIS_effective_degree_from_graph_args
    simp only [Option.isSome_none, Bool.false_and, Bool.false_eq_true, if_false, maxKey_counter, hN, List.map_nil,
      if_true, err_bind]
  · unfold SIR_effective_degree_from_graph_args
    simp only [Option.isSome_none, Bool.false_and, Bool.false_eq_true, if_false, maxKey_counter, hN, List.map_nil,
      if_true, err_bind]
  · have hne' : A.nodes.map A.degree ≠ [] := fun e => hne (List.map_eq_nil_iff.mp e)
    unfold SIS_effective_degree_from_graph_args
    simp only [Option.isSome_none, Bool.false_and, Bool.false_eq_true, if_false, ok_bind, maxKey_counter, hne',
      zeros2_eq, Option.getD_none, he, err_bind]
  · have hne' : A.nodes.map A.degree ≠ [] := fun e => hne (List.map_eq_nil_iff.mp e)
    unfold SIR_effective_degree_from_graph_args
    simp only [Option.isSome_none, Bool.false_and, Bool.false_eq_true, if_false, ok_bind, maxKey_counter, hne',
      zeros2_eq, he, err_bind]

/-- `rho` together with a set: `EoNError`, before anything else -/
theorem ed_both (A : WArgs) (tau gamma : Rat) (infs recs : Option (List Node)) (r : Rat) (tmin tmax : Rat) (tcount : Int)
    (full : Bool) :
    (infs.isSome → SIS_effective_degree_from_graph_args A tau gamma infs (some r) tmin tmax tcount full
      = .error "EoNError") ∧
    (infs.isSome ∨ recs.isSome → SIR_effective_degree_from_graph_args A tau gamma infs recs (some r) tmin tmax tcount full
      = .error "EoNError") := by
  constructor
  · intro h
    unfold SIS_effective_degree_from_graph_args
    cases infs <;> simp at h ⊢
  · intro h
    unfold SIR_effective_degree_from_graph_args
    cases infs <;> cases recs <;> simp at h ⊢


/-- a loop over `range(n)` entered one index at a time -/
theorem foldlM_range_succ {σ : Type} (f : σ → Int → Except String σ) (n : Nat) (a : σ) :
    ((List.range (n + 1)).map (fun (i : Nat) => (i : Int))).foldlM f a =
      (((List.range n).map (fun (i : Nat) => (i : Int))).foldlM f a >>= fun b => f b (n : Int)) := by
  rw [List.range_succ, List.map_append, List.foldlM_append]
  congr 1
  funext b
  simp only [List.map_cons, List.map_nil, List.foldlM_cons, List.foldlM_nil]
  cases f b (n : Int) <;> rfl

/-- the double loop `for s in range(maxk+1): for i in range(maxk+1-s): T[s][i] = val s i` on any representation `R` of
tables -/
theorem tableLoop {σ α : Type} (R : (Nat → Nat → α) → σ) (M : Nat) (val : Nat → Nat → α)
    (inner : σ → Int → Int → Except String σ)
    (hin : ∀ F s i, s + i ≤ M → inner (R F) ((s : Nat) : Int) ((i : Nat) : Int) =
      .ok (R fun a b => if a = s ∧ b = i then val s i else F a b)) (F : Nat → Nat → α) :
    (PyWrap.range (((M : Nat) : Int) + 1)).foldlM (fun acc s =>
      (PyWrap.range ((((M : Nat) : Int) + 1) - s)).foldlM (fun acc i => inner acc s i) acc) (R F) =
      .ok (R fun a b => if a + b ≤ M then val a b else F a b) := by
  have hinner : ∀ s, s ≤ M → ∀ n, n ≤ M + 1 - s → ∀ F,
      ((List.range n).map (fun (i : Nat) => (i : Int))).foldlM (fun acc i => inner acc ((s : Nat) : Int) i) (R F) =
        .ok (R fun a b => if a = s ∧ b < n then val a b else F a b) := by
    intro s hs n
    induction n with
    | zero => intro _ F; simp
    | succ n ih =>
      intro hn F
      rw [foldlM_range_succ, ih (by omega) F, ok_bind, hin _ s n (by omega)]
      congr 2
      funext a b
      by_cases h1 : a = s ∧ b = n
      · have : a = s ∧ b < n + 1 := ⟨h1.1, by omega⟩
        rw [if_pos h1, if_pos this, h1.1, h1.2]
      · by_cases h2 : a = s ∧ b < n
        · have : a = s ∧ b < n + 1 := ⟨h2.1, by omega⟩
          rw [if_neg h1, if_pos h2, if_pos this]
        · have : ¬ (a = s ∧ b < n + 1) := by
            rintro ⟨e1, e2⟩
            rcases Nat.lt_succ_iff_lt_or_eq.mp e2 with e3 | e3
            · exact h2 ⟨e1, e3⟩
            · exact h1 ⟨e1, e3⟩
          rw [if_neg h1, if_neg h2, if_neg this]
  have houter : ∀ m, m ≤ M + 1 → ∀ F,
      ((List.range m).map (fun (i : Nat) => (i : Int))).foldlM (fun acc s =>
        (PyWrap.range ((((M : Nat) : Int) + 1) - s)).foldlM (fun acc i => inner acc s i) acc) (R F) =
        .ok (R fun a b => if a < m ∧ a + b ≤ M then val a b else F a b) := by
    intro m
    induction m with
    | zero => intro _ F; simp
    | succ m ih =>
      intro hm F
      rw [foldlM_range_succ, ih (by omega) F, ok_bind]
      have hr : PyWrap.range ((((M : Nat) : Int) + 1) - ((m : Nat) : Int)) =
          (List.range (M + 1 - m)).map (fun (i : Nat) => (i : Int)) := by
        unfold PyWrap.range
        have : ((((M : Nat) : Int) + 1) - ((m : Nat) : Int)).toNat = M + 1 - m := by omega
        rw [this]
      rw [hr, hinner m (by omega) (M + 1 - m) (le_refl _)]
      congr 2
      funext a b
      by_cases h1 : a = m
      · subst h1
        by_cases h2 : b < M + 1 - a
        · have h3 : a + b ≤ M := by omega
          rw [if_pos ⟨rfl, h2⟩, if_pos ⟨by omega, h3⟩]
        · have h3 : ¬ a + b ≤ M := by omega
          rw [if_neg (fun e => h2 e.2), if_neg (fun e => h3 e.2), if_neg (fun e => h3 e.2)]
      · rw [if_neg (fun e => h1 e.1)]
        by_cases h2 : a < m ∧ a + b ≤ M
        · rw [if_pos h2, if_pos ⟨by omega, h2.2⟩]
        · rw [if_neg h2, if_neg (fun e => h2 ⟨by omega, e.2⟩)]
  rw [range_succ_nat, houter (M + 1) (le_refl _) F]
  congr 2
  funext a b
  by_cases h : a + b ≤ M
  · rw [if_pos h, if_pos ⟨by omega, h⟩]
  · rw [if_neg h, if_neg (fun e => h e.2)]

theorem binomI_nat (n k : Nat) : PyWrap.binomI ((n : Nat) : Int) ((k : Nat) : Int) = .ok ((PyWrap.binom n k : Nat) : Rat) := by
  unfold PyWrap.binomI
  rw [if_neg (by omega), Int.toNat_natCast, Int.toNat_natCast]; rfl

/-- the binomial entry the `rho` branches write at `(s, i)`: `w·N_{s+i}·C(s+i, i)·rho^i·(1-rho)^s` -/
def edVal (degs : List Nat) (r w : Rat) (s i : Nat) : Rat :=
  w * ((Helpers.countEq degs (s + i) : Nat) : Rat) * ((PyWrap.binom (s + i) i : Nat) : Rat) * r ^ i * (1 - r) ^ s

/-- `SIR_effective_degree_from_graph` without `initial_infecteds`, graph with nodes -/
theorem SIRed_rho (A : WArgs) (tau gamma : Rat) (recs : Option (List Node)) (rho : Option Rat)
    (hrr : ¬ (rho.isSome ∧ recs.isSome)) (tmin tmax : Rat) (tcount : Int) (full : Bool) (hne : A.nodes ≠ []) :
    SIR_effective_degree_from_graph_args A tau gamma none recs rho tmin tmax tcount full =
      .ok { S_si0 := mat (Helpers.maxDeg (A.nodes.map A.degree)) (fun s i =>
              if s + i ≤ Helpers.maxDeg (A.nodes.map A.degree) then
                edVal (A.nodes.map A.degree) (rho.getD (1 / (A.nodes.length : Rat)))
                  (1 - rho.getD (1 / (A.nodes.length : Rat))) s i else 0),
            I0 := rho.getD (1 / (A.nodes.length : Rat)) * sumRat (NkL (A.nodes.map A.degree)), R0 := 0,
            tau := tau, gamma := gamma, tmin := tmin, tmax := tmax, tcount := tcount, return_full_data := full } := by
  unfold SIR_effective_degree_from_graph_args
  have hne' : A.nodes.map A.degree ≠ [] := fun e => hne (List.map_eq_nil_iff.mp e)
  have hl : A.nodes.length ≠ 0 := fun e => hne (List.length_eq_zero_iff.mp e)
  have h2 : (rho.isSome && recs.isSome) = false := by
    cases rho <;> cases recs <;> simp at hrr ⊢
  have hq : PyTM.fdiv (1 : Rat) (((A.nodes.length : Nat) : Int) : Rat) = .ok (1 / (A.nodes.length : Rat)) := by
    rw [Int.cast_natCast, fdiv_N, if_neg hl]
  have hmc : (PyWrap.range (((Helpers.maxDeg (A.nodes.map A.degree) : Nat) : Int) + 1)).mapM (fun (k : Int) =>
      (Except.ok (((PyWrap.counterGet (PyHelp.counter (A.nodes.map A.degree)) k) : Int) : Rat) : Except String Rat))
      = .ok (NkL (A.nodes.map A.degree)) := mapM_counter _
  have hrec : rho.isSome = true → recs = none := by
    intro h
    cases recs with
    | none => rfl
    | some l => exact absurd ⟨h, rfl⟩ hrr
  cases rho with
  | some r =>
    have := hrec rfl; subst this
    simp only [Option.isSome_none, Option.isSome_some, Bool.and_false, Bool.false_eq_true, if_false, maxKey_counter,
      hne', Option.getD_some]
    rw [ok_bind, zeros2_eq, ok_bind]
    simp only [ok_bind, pure_eq_ok]
    rw [hmc, ok_bind, tableLoop (fun F => mat (Helpers.maxDeg (A.nodes.map A.degree)) F)
      (Helpers.maxDeg (A.nodes.map A.degree)) (edVal (A.nodes.map A.degree) (r) (1 - (r)))]
    · simp [ok_bind]
    · intro F s i hsi
      have e1 : ((s : Nat) : Int) + ((i : Nat) : Int) = ((s + i : Nat) : Int) := by push_cast; rfl
      simp only [e1, binomI_nat, ok_bind, if_true, powI_nat,
        vecGet_nat (NkL (A.nodes.map A.degree)) (s + i) (by unfold NkL; simp; omega),
        show (NkL (A.nodes.map A.degree)).getD (s + i) 0 = ((Helpers.countEq (A.nodes.map A.degree) (s + i) : Nat) : Rat)
          from vec_getD _ _ _ hsi]
      rw [matSet_nat (Helpers.maxDeg (A.nodes.map A.degree)) F s i _ (by omega) (by omega)]
      simp [edVal]
  | none =>
    simp only [Option.isSome_none, Bool.and_false, Bool.false_and, Bool.false_eq_true, if_false, maxKey_counter, hne',
      Option.getD_none]
    rw [ok_bind, zeros2_eq, ok_bind]
    simp only [hq, ok_bind, pure_eq_ok]
    rw [hmc, ok_bind, tableLoop (fun F => mat (Helpers.maxDeg (A.nodes.map A.degree)) F)
      (Helpers.maxDeg (A.nodes.map A.degree)) (edVal (A.nodes.map A.degree) (1 / (A.nodes.length : Rat)) (1 - (1 / (A.nodes.length : Rat))))]
    · simp [ok_bind]
    · intro F s i hsi
      have e1 : ((s : Nat) : Int) + ((i : Nat) : Int) = ((s + i : Nat) : Int) := by push_cast; rfl
      simp only [e1, binomI_nat, ok_bind, if_true, powI_nat,
        vecGet_nat (NkL (A.nodes.map A.degree)) (s + i) (by unfold NkL; simp; omega),
        show (NkL (A.nodes.map A.degree)).getD (s + i) 0 = ((Helpers.countEq (A.nodes.map A.degree) (s + i) : Nat) : Rat)
          from vec_getD _ _ _ hsi]
      rw [matSet_nat (Helpers.maxDeg (A.nodes.map A.degree)) F s i _ (by omega) (by omega)]
      simp [edVal]

theorem bind_ok_id {α : Type} (x : Except String α) : (x >>= fun y => Except.ok y) = x := by
  cases x <;> rfl

/-- a pair of tables -/
def pairMat (M : Nat) (F : Nat → Nat → Rat × Rat) : List (List Rat) × List (List Rat) :=
  (mat M fun a b => (F a b).1, mat M fun a b => (F a b).2)

theorem bind_eta2 {α β : Type} (x : Except String (α × β)) : (x >>= fun y => Except.ok (y.1, y.2)) = x := by
  cases x <;> rfl

/-- `SIS_effective_degree_from_graph` without `initial_infecteds`, graph with nodes -/
theorem SISed_rho (A : WArgs) (tau gamma : Rat) (rho : Option Rat) (tmin tmax : Rat) (tcount : Int) (full : Bool)
    (hne : A.nodes ≠ []) :
    SIS_effective_degree_from_graph_args A tau gamma none rho tmin tmax tcount full =
      .ok { Ssi0 := mat (Helpers.maxDeg (A.nodes.map A.degree)) (fun s i =>
              if s + i ≤ Helpers.maxDeg (A.nodes.map A.degree) then
                edVal (A.nodes.map A.degree) (rho.getD (1 / (A.nodes.length : Rat)))
                  (1 - rho.getD (1 / (A.nodes.length : Rat))) s i else 0),
            Isi0 := mat (Helpers.maxDeg (A.nodes.map A.degree)) (fun s i =>
              if s + i ≤ Helpers.maxDeg (A.nodes.map A.degree) then
                edVal (A.nodes.map A.degree) (rho.getD (1 / (A.nodes.length : Rat)))
                  (rho.getD (1 / (A.nodes.length : Rat))) s i else 0),
            tau := tau, gamma := gamma, tmin := tmin, tmax := tmax, tcount := tcount, return_full_data := full } := by
  unfold SIS_effective_degree_from_graph_args
  have hne' : A.nodes.map A.degree ≠ [] := fun e => hne (List.map_eq_nil_iff.mp e)
  have hl : A.nodes.length ≠ 0 := fun e => hne (List.length_eq_zero_iff.mp e)
  have hq : PyTM.fdiv (1 : Rat) (((A.nodes.length : Nat) : Int) : Rat) = .ok (1 / (A.nodes.length : Rat)) := by
    rw [Int.cast_natCast, fdiv_N, if_neg hl]
  have hmc : (PyWrap.range (((Helpers.maxDeg (A.nodes.map A.degree) : Nat) : Int) + 1)).mapM (fun (k : Int) =>
      (Except.ok (((PyWrap.counterGet (PyHelp.counter (A.nodes.map A.degree)) k) : Int) : Rat) : Except String Rat))
      = .ok (NkL (A.nodes.map A.degree)) := mapM_counter _
  cases rho with
  | some r =>
    simp only [Option.isSome_none, Option.isSome_some, Bool.and_false, Bool.false_eq_true, if_false, maxKey_counter,
      hne', Option.getD_some]
    rw [ok_bind, zeros2_eq, ok_bind, ok_bind]
    simp only [ok_bind, pure_eq_ok]
    rw [hmc, ok_bind]
    simp only [Prod.mk.eta, bind_eta2, bind_ok_id]
    rw [show (mat (Helpers.maxDeg (A.nodes.map A.degree)) (fun _ _ => (0 : Rat)),
        mat (Helpers.maxDeg (A.nodes.map A.degree)) (fun _ _ => (0 : Rat))) =
        pairMat (Helpers.maxDeg (A.nodes.map A.degree)) (fun _ _ => (0, 0)) from rfl,
      tableLoop (pairMat (Helpers.maxDeg (A.nodes.map A.degree))) (Helpers.maxDeg (A.nodes.map A.degree))
      (fun s i => (edVal (A.nodes.map A.degree) (r) (1 - (r)) s i, edVal (A.nodes.map A.degree) (r) (r) s i))
      _ _ (fun _ _ => (0, 0))]
    · simp only [ok_bind, pairMat]
      congr 2 <;> (apply mat_congr; intro a b; split <;> rfl)
    · intro F s i hsi
      unfold pairMat
      have e1 : ((s : Nat) : Int) + ((i : Nat) : Int) = ((s + i : Nat) : Int) := by push_cast; rfl
      simp only [e1, binomI_nat, ok_bind, if_true, powI_nat,
        vecGet_nat (NkL (A.nodes.map A.degree)) (s + i) (by unfold NkL; simp; omega),
        show (NkL (A.nodes.map A.degree)).getD (s + i) 0 = ((Helpers.countEq (A.nodes.map A.degree) (s + i) : Nat) : Rat)
          from vec_getD _ _ _ hsi]
      rw [matSet_nat (Helpers.maxDeg (A.nodes.map A.degree)) _ s i _ (by omega) (by omega), ok_bind,
        matSet_nat (Helpers.maxDeg (A.nodes.map A.degree)) _ s i _ (by omega) (by omega), ok_bind]
      congr 2
      · apply mat_congr; intro a b
        by_cases h : a = s ∧ b = i
        · simp [h, edVal]
        · simp [h]
      · apply mat_congr; intro a b
        by_cases h : a = s ∧ b = i
        · simp [h, edVal]
        · simp [h]

  | none =>
    simp only [Option.isSome_none, Bool.and_false, Bool.false_and, Bool.false_eq_true, if_false, maxKey_counter, hne',
      Option.getD_none]
    rw [ok_bind, zeros2_eq, ok_bind, ok_bind]
    simp only [hq, ok_bind, pure_eq_ok]
    rw [hmc, ok_bind]
    simp only [Prod.mk.eta, bind_eta2, bind_ok_id]
    rw [show (mat (Helpers.maxDeg (A.nodes.map A.degree)) (fun _ _ => (0 : Rat)),
        mat (Helpers.maxDeg (A.nodes.map A.degree)) (fun _ _ => (0 : Rat))) =
        pairMat (Helpers.maxDeg (A.nodes.map A.degree)) (fun _ _ => (0, 0)) from rfl,
      tableLoop (pairMat (Helpers.maxDeg (A.nodes.map A.degree))) (Helpers.maxDeg (A.nodes.map A.degree))
      (fun s i => (edVal (A.nodes.map A.degree) (1 / (A.nodes.length : Rat)) (1 - (1 / (A.nodes.length : Rat))) s i, edVal (A.nodes.map A.degree) (1 / (A.nodes.length : Rat)) (1 / (A.nodes.length : Rat)) s i))
      _ _ (fun _ _ => (0, 0))]
    · simp only [ok_bind, pairMat]
      congr 2 <;> (apply mat_congr; intro a b; split <;> rfl)
    · intro F s i hsi
      unfold pairMat
      have e1 : ((s : Nat) : Int) + ((i : Nat) : Int) = ((s + i : Nat) : Int) := by push_cast; rfl
      simp only [e1, binomI_nat, ok_bind, if_true, powI_nat,
        vecGet_nat (NkL (A.nodes.map A.degree)) (s + i) (by unfold NkL; simp; omega),
        show (NkL (A.nodes.map A.degree)).getD (s + i) 0 = ((Helpers.countEq (A.nodes.map A.degree) (s + i) : Nat) : Rat)
          from vec_getD _ _ _ hsi]
      rw [matSet_nat (Helpers.maxDeg (A.nodes.map A.degree)) _ s i _ (by omega) (by omega), ok_bind,
        matSet_nat (Helpers.maxDeg (A.nodes.map A.degree)) _ s i _ (by omega) (by omega), ok_bind]
      congr 2
      · apply mat_congr; intro a b
        by_cases h : a = s ∧ b = i
        · simp [h, edVal]
        · simp [h]
      · apply mat_congr; intro a b
        by_cases h : a = s ∧ b = i
        · simp [h, edVal]
        · simp [h]



end GenWrapProofs5
