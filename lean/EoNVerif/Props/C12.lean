import EoNVerif.Model.Discrete
