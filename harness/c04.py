"""C04 — trajectories are well-formed.  `Pred.wellFormed` (Lean) is evaluated on the output of every simulator in
both return modes; the generator stresses tiny graphs, isolated nodes, zero rates, short horizons."""
import common, allsims, predchecks
from predchecks import strip


def edge_case(ctx, sim):
    """tiny graphs / zero rates / tmax close to tmin"""
    c = allsims.gen_case(ctx.rng, sim, nmax=ctx.rng.choice([1, 2, 3]))
    r = ctx.rng.random()
    if "tau" in c and r < 0.4:
        c["tau"] = "0"
    if "gamma" in c and 0.2 < r < 0.6:
        c["gamma"] = "0"
    return c


def run(ctx):
    drv = common.LeanDriver()
    per = ctx.scale(120, 600)
    reqs, metas = [], []
    for sim in allsims.SIMS:
        # the generic simulators get three times as many cases: their specification space (equal-status source pairs,
        # status-preserving edges, composite names, …) is much larger than the SIR / SIS argument space
        for k in range(per * 3 if sim in ("Gillespie_simple_contagion", "Gillespie_complex_contagion") else per):
            c = edge_case(ctx, sim) if k % 4 == 0 else allsims.gen_case(ctx.rng, sim)
            out, G, idx = allsims.run_impl(c, rng=ctx.rng)
            ctx.count("%s:%s" % (sim, "ok" if out["ok"] else "err=" + out["err"]))
            rep = dict(entry=sim, case=strip(c), tape=out["tape"])
            if not out["ok"]:
                ctx.case(rep, nontrivial=False)
                ctx.violation("%s raised %s instead of returning a trajectory" % (sim, out["err"]),
                              dict(rep, error=out["err"], tb=out.get("tb")))
                continue
            rq = predchecks.wf_request(c, out, G.order())
            if "inf" in rq["times"] or any(isinstance(x, str) for col in rq["cols"] for x in col):
                ctx.case(rep, nontrivial=False)
                ctx.violation("%s returned non-finite times or non-integer counts" % sim, dict(rep, times=rq["times"][:10], cols=[c_[:10] for c_ in rq["cols"]]))
                continue
            reqs.append(rq)
            metas.append((rep, out))
    resps = drv.batch(reqs)
    for (rep, out), req, r in zip(metas, reqs, resps):
        nontriv = len(req["times"]) > 1
        ctx.case(rep, nontrivial=nontriv, sample=dict(rep, times=req["times"][:6], cols=[c[:6] for c in req["cols"]]))
        if not r.get("ok"):
            ctx.disagreement("wf-driver", dict(rep, resp=r))
        elif not r["holds"]:
            ctx.violation("%s returned a trajectory that is not well-formed" % rep["entry"],
                          dict(rep, full=out["full"], times=req["times"][:40], cols=[c[:40] for c in req["cols"]],
                               kind=req["kind"], extinct=req["extinct"]))
    wide_range_weights(ctx)
    self_loops(ctx, drv)


def wide_range_weights(ctx):
    """unbounded horizon, positive recovery rates spanning ~14 orders of magnitude (a few "chronic carriers"): the run
    must still end with no infected node; counts conserved, times ordered.  Real (seeded) generators; weights are
    exact powers of two so the running totals of the event sets are exact in double precision."""
    import random
    import networkx as nx, numpy as np, EoN
    for k in range(ctx.scale(24, 120)):
        seed = ctx.rng.randrange(10 ** 9)
        n = ctx.rng.randint(4, 14)
        G = nx.gnp_random_graph(n, 0.5, seed=seed)
        slow = ctx.rng.sample(list(G), ctx.rng.randint(1, 3))
        tiny = 2.0 ** -ctx.rng.choice([44, 47, 50])
        for u in G:
            G.nodes[u]["r"] = tiny if u in slow else 1.0
        for e in G.edges():
            G.edges[e]["w"] = ctx.rng.choice([1.0, 2.0, tiny])
        sim = ["Gillespie_SIR", "fast_SIR"][k % 2]
        kw = dict(recovery_weight="r")
        if k % 4 >= 2:
            kw["transmission_weight"] = "w"
        infs = ctx.rng.sample(list(G), ctx.rng.randint(1, 3))
        rep = dict(entry=sim, stream="wide-range-weights", n=n, edges=list(map(list, G.edges())), slow=slow, tiny=tiny,
                   weights=sorted(kw), infs=infs, seed=seed, tmax="inf")
        ctx.case(rep, nontrivial=True)
        ctx.count("wide-range:" + sim)
        random.seed(seed); np.random.seed(seed % 2 ** 32)
        try:
            t, S, I, R = getattr(EoN, sim)(G, 1.0, 1.0, initial_infecteds=infs, tmax=float("inf"), **kw)
        except Exception as e:
            ctx.violation("%s raised %s on an unbounded run with wide-range weights" % (sim, type(e).__name__), dict(rep, error=type(e).__name__))
            continue
        bad = []
        if I[-1] != 0:
            bad.append("run with unbounded horizon and positive recovery rates ends with %d infected node(s)" % I[-1])
        if any(s + i + r != n for s, i, r in zip(S, I, R)):
            bad.append("counts do not sum to N")
        if any(b < a for a, b in zip(t, t[1:])) or not all(np.isfinite(t)):
            bad.append("times decrease / are not finite")
        if bad:
            ctx.violation("%s: %s" % (sim, "; ".join(bad)), dict(rep, final=[int(S[-1]), int(I[-1]), int(R[-1])], rows=len(t)))


def self_loops(ctx, drv):
    real_graph_stream(ctx, drv, "self-loops", None, ctx.scale(120, 900))
    # LARGE networks (thousands of nodes): size-triggered code paths (bulk sampling, vectorised updates) must keep the
    # trajectories well-formed too
    import networkx as nx

    def big(r, seed):
        n = r.choice([1500, 2500])
        G = nx.gnp_random_graph(n, 4.0 / n, seed=seed) if r.random() < 0.5 else nx.barabasi_albert_graph(n, 2, seed=seed)
        return G, []
    real_graph_stream(ctx, drv, "large-networks", big, ctx.scale(6, 24))


def real_graph_stream(ctx, drv, stream, make_graph, count):
    """contact networks WITH SELF-LOOPS (what `nx.configuration_model` produces; `Gillespie_SIS` carries an explicit
    special case for them): every simulator that takes a plain graph must still return a well-formed trajectory.  Real
    seeded generators; the Lean predicate `Pred.wellFormed` is evaluated on the returned arrays, and the arrays of the
    same seeded run with `return_full_data=True` must describe the same trajectory."""
    import random
    import networkx as nx, numpy as np, EoN
    from common import rs
    from allsims import KIND
    sims = ["Gillespie_SIS", "Gillespie_SIR", "fast_SIS", "fast_SIR", "basic_discrete_SIR", "basic_discrete_SIS"]
    reqs, metas = [], []
    for k in range(count):
        r = ctx.rng
        seed = r.randrange(10 ** 9)
        sim = sims[k % len(sims)]
        if make_graph is None:
            n = r.randint(2, 8)
            G = nx.gnp_random_graph(n, r.choice([0.3, 0.5, 0.9]), seed=seed)
            loops = r.sample(list(G), r.randint(1, n))
            G.add_edges_from((u, u) for u in loops)
        else:
            G, loops = make_graph(r, seed)
            n = G.order()
        weighted = sim in ("Gillespie_SIS", "Gillespie_SIR", "fast_SIS", "fast_SIR") and r.random() < 0.5
        kw = {}
        if weighted:
            for e in G.edges():
                G.edges[e]["w"] = r.choice([0.5, 1.0, 2.0])
            for u in G:
                G.nodes[u]["r"] = r.choice([0.5, 1.0, 2.0])
            kw = dict(transmission_weight="w", recovery_weight="r")
        infs = r.sample(list(G), r.randint(1, max(1, n // 2)))
        tmin = r.choice([0, 0, 2])
        disc = KIND[sim].endswith("Disc")
        tmax = tmin + (r.choice([2, 4, 6]) if disc else r.choice([1, 3, 8]))
        rep = dict(entry=sim, stream=stream, n=n, edges=[list(e) for e in G.edges()] if n <= 50 else G.number_of_edges(), loops=loops, weighted=weighted, infs=infs,
                   seed=seed, tmin=tmin, tmax=tmax)
        ctx.count(stream + ":" + sim)

        def call(full):
            random.seed(seed); np.random.seed(seed % 2 ** 32)
            if sim.startswith("basic_discrete"):
                return getattr(EoN, sim)(G, 0.5, initial_infecteds=infs, tmin=tmin, tmax=tmax, return_full_data=full)
            return getattr(EoN, sim)(G, 1.0, 1.0, initial_infecteds=infs, tmin=tmin, tmax=tmax, return_full_data=full, **kw)
        try:
            out = call(False)
            full = call(True)
            ft, fD = full.summary()
            fs = [ft] + [fD[x] for x in ("SIR" if KIND[sim].startswith("sir") else "SI")]
        except Exception as e:
            ctx.case(rep, nontrivial=False)
            ctx.violation("%s raised %s on a graph of the %s stream" % (sim, type(e).__name__, stream), dict(rep, error=repr(e)[:200]))
            continue
        times, cols = out[0], out[1:]
        if not all(np.isfinite(times)) or any(float(x) != int(x) for c in cols for x in c):
            ctx.case(rep, nontrivial=False)
            ctx.violation("%s returned non-finite times or non-integer counts (%s stream)" % (sim, stream), rep)
            continue
        # the node histories of the same seeded run: every entry after the first is one node making one move; the count of
        # infected nodes they imply at the end must be the array's
        hist_I = 0
        for u in G:
            hs = full.node_history(u)[1]
            hist_I += 1 if hs and hs[-1] == "I" else 0
        if not disc and int(fs[2][-1]) != hist_I:
            ctx.violation("%s (%s stream): the last row counts %d infected nodes, the node histories of the same run end with %d"
                          % (sim, stream, int(fs[2][-1]), hist_I), dict(rep, last_I=int(fs[2][-1]), hist_I=hist_I))
        if not disc and (list(map(float, fs[0])) != list(map(float, times)) or any(list(map(int, a)) != list(map(int, b)) for a, b in zip(fs[1:], cols))):
            ctx.violation("%s (%s stream): arrays and full-data summary of the same seeded run differ" % (sim, stream), rep)
        reqs.append(dict(op="wf", kind=KIND[sim], N=n, tmin=str(tmin), tmax=str(tmax), extinct=False, collapsed=False,
                         times=[rs(float(x)) for x in times], cols=[[int(x) for x in c] for c in cols]))
        metas.append((rep, times, cols))
    for (rep, times, cols), rq, resp in zip(metas, reqs, drv.batch(reqs)):
        ctx.case(rep, nontrivial=len(times) > 1)
        if not resp.get("ok"):
            ctx.disagreement("wf-driver", dict(rep, resp=resp))
        elif not resp["holds"]:
            ctx.violation("%s returned a trajectory that is not well-formed (%s stream)" % (rep["entry"], rep["stream"]),
                          dict(rep, times=rq["times"][:40], cols=[c[:40] for c in rq["cols"]], kind=rq["kind"]))
