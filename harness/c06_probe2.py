"""known-finding probe of C06 run in its own process (45 s of stiff integration), started at the beginning of the check and
collected at the end: prints BAD when the recorded input of corpus/C06/sir_effective_degree_depleting.json still fails."""
import json, os, sys
sys.path.insert(0, os.path.dirname(os.path.abspath(__file__)))
import common                      # puts the repository under test on sys.path (EON_REPO)
import numpy as np, networkx as nx, warnings
warnings.simplefilter("ignore")
import EoN
c = json.load(open(os.path.join(common.VERIF, "corpus", "C06", "sir_effective_degree_depleting.json")))
H = nx.Graph(); H.add_nodes_from(range(c["n"])); H.add_edges_from(c["edges"])
try:
    with np.errstate(all="ignore"):
        t, S, I, R = EoN.SIR_effective_degree_from_graph(H, c["tau"], c["gamma"], rho=c["rho"], tmax=c["tmax"], tcount=c["tcount"])
    bad = (not np.all(np.isfinite(S + I + R))) or np.max(np.diff(S)) > 1e-6 * c["n"] or np.min(np.diff(R)) < -1e-6 * c["n"]
except Exception:
    bad = True
print("BAD" if bad else "OK")
