import EoNVerif.Proofs.GenGlue3
import EoNVerif.Props.C06f
import EoNVerif.Props.GenMat
import EoNVerif.Props.C07c
/-!
C06i — further theorems about the ODE entry points GENERATED from `EoN/analytic.py` into `Gen/OdeGlue2.lean`
(namespace `GenGlue2`), continuing C06f.  Every theorem is for ALL inputs and EVERY pair of solvers.

Parts of this file (each in its own `namespace GenGlue3Props … end` block):
* part A — `SIS_effective_degree`, `SIR_effective_degree`, `EBCM_pref_mix` (priorities 3 and 4);
* part B — `SIS_heterogeneous_pairwise`, `SIR_heterogeneous_pairwise` (priority 2);
* part C — §1 `EBCM_pref_mix_discrete`, the general loop (priority 1); §5 the pair-based functions for all inputs
  (priority 5).

## 1. `EBCM_pref_mix_discrete` — the general loop (no solver call)

Vocabulary (`Proofs/GenGlue3.lean`): `keys d` = `d.keys()`; `pkF Pk k` = `Pk[k]`, `nksF Pnk k1` = `Pnk[k1].keys()`,
`pnkF Pnk k1 k2` = `Pnk[k1][k2]` (0 / empty for a missing key); `pmRun N Pk Pnk p ρ n` = the hand model
`ODE.prefMixDiscRun` (Model/PrefMixDiscrete.lean) on these dicts = the loop-carried state after `n` passes;
`KeysOK Pk Pnk` = every key of `Pk` is a key of `Pnk` and every key of every `Pnk[k1]` (`k1` a key of `Pk`) is a key of
`Pk`; `ZeroOK Pk Pnk θ` = degree 0 is not a key of a `Pnk[k1]` used, or `θ 0 ≠ 0` (the exponent of
`theta[0][-1] ** (0 - 1)` is negative); `Good … st` = `KeysOK ∧ ZeroOK (θ after the next pass)`;
`pmResult … m full` = the returned arrays: the columns `0..m` of `pmRun`.

Hypothesis `(keys Pk).Nodup`: a Python dict has distinct keys; the association-list type of the generated code does
not enforce it (with a repeated key the first `theta[k]` list gets two appends per pass: closed example at the end).
-/
set_option linter.unusedSimpArgs false
set_option linter.unusedVariables false
set_option maxHeartbeats 1000000

/-! # Part A — effective-degree models and `EBCM_pref_mix` -/

/-!
C06i (effective-degree and preferential-mixing entry points of the GENERATED `Gen/OdeGlue2.lean`, namespace `GenGlue2`):
`SIS_effective_degree`, `SIR_effective_degree`, `EBCM_pref_mix`, for ALL inputs and EVERY solver
`odeint myodeint : (V → V) → V → Nat → V`.

A. `SIS_effective_degree` / `SIR_effective_degree`: the call (X0, right-hand side, shape arguments, returned arrays as a
   closed form of the solution), the exact exception domain, the initial row under `RowZero odeint`, conservation
   (SIR: by subtraction, at every index, for every solver; SIS: none — shown with `driftOdeint`), shapes.
B. `EBCM_pref_mix`: the two `for` loops are eliminated by induction (`forIn_ok_of_mem`); the call, `rho` default and its
   `ZeroDivisionError`, no `IndexError`/`KeyError` ever, `S + I + R = N` at every index, the initial row, `phiR = theta`.
C. closed kernel-checked examples.
-/
namespace GenGlue3Props
open Gen PyGlue PyGlue2 GenGlue2Proofs
open ODE (sumTo)
open GenGlueProofs (Solver RowZero linspace_zero)

/-! ## A.0 row-major flattening -/

/-- the first `n` entries of the row-major flattening of a table (`a.reshape(1, n)[0]`, `a.shape = n`): entry `k` is
`a[k / c, k % c]` with `c` the number of columns of `a` -/
def flatN (a : Mx) (n : Nat) : V := ⟨n, fun k => a.f (k / a.c) (k % a.c)⟩

@[simp] theorem flatN_n (a : Mx) (n : Nat) : (flatN a n).n = n := rfl
@[simp] theorem flatN_f (a : Mx) (n k : Nat) : (flatN a n).f k = a.f (k / a.c) (k % a.c) := rfl

/-- summing a row-major flattened `r × c` table = summing rows then columns -/
theorem sumTo_rowMajor (r c : Nat) (f : Nat → Nat → Rat) :
    sumTo (r * c) (fun k => f (k / c) (k % c)) = sumTo r (fun i => sumTo c (fun j => f i j)) := by
  induction r with
  | zero => simp [ODE.sumTo_zero_left]
  | succ r ih =>
    rw [Nat.succ_mul, GenGlueProofs.sumTo_split, ih, ODE.sumTo_succ]
    congr 1
    apply ODE.sumTo_congr
    intro k hk
    have hc : 0 < c := by omega
    have h1 : (r * c + k) / c = r := by
      rw [Nat.mul_comm, Nat.mul_add_div hc, Nat.div_eq_of_lt hk]; rfl
    have h2 : (r * c + k) % c = k := by
      rw [Nat.mul_comm, Nat.mul_add_mod, Nat.mod_eq_of_lt hk]
    simp only [h1, h2]

/-- the sum of the flattened table is `a.sum()` (`Mx.total`) -/
theorem sumTo_flatN (a : Mx) : sumTo (a.r * a.c) (flatN a (a.r * a.c)).f = a.total := sumTo_rowMajor a.r a.c a.f

/-! ## A.1 `SIS_effective_degree` -/

/-- `SIS_effective_degree` (`a × b` = shape of `Ssi0`): `Ssi = X.T[:ab]`, `Isi = X.T[ab:]`, `S`, `I` their sums; with full
data the two tables (row-major, declared shape `a × b`) -/
def outSISEff (T : Nat → Rat) (a b : Nat) (full : Bool) (X : Nat → V) : List Out :=
  if full then
    [Out.s T, Out.s (fun i => sumTo (a * b) (X i).f), Out.s (fun i => sumTo (a * b) (fun k => (X i).f (a * b + k))),
     Out.c a b (fun i => ⟨a * b, (X i).f⟩), Out.c a b (fun i => ⟨a * b, fun k => (X i).f (a * b + k)⟩)]
  else
    [Out.s T, Out.s (fun i => sumTo (a * b) (X i).f), Out.s (fun i => sumTo (a * b) (fun k => (X i).f (a * b + k)))]

/-- the `X0` handed to the solver: `Ssi0` flattened row-major, then `Isi0` flattened row-major (along ITS OWN number of
columns) -/
def sisEffX0 (Ssi0 Isi0 : Mx) : V := V.append (flatN Ssi0 (Ssi0.r * Ssi0.c)) (flatN Isi0 (Ssi0.r * Ssi0.c))

/-- **call**.  Hypothesis `h` (`Isi0` has as many entries as `Ssi0`) is necessary: otherwise `ValueError`
(`SIS_effective_degree_error`).  Then `odeint` (not `myodeint`) solves the generated `Gen.dSIS_effective_degree` with
the shape `(Ssi0.r, Ssi0.c)` of **`Ssi0`** from `X0 = sisEffX0`, and the returned arrays are `outSISEff` of that solution.
Only the NUMBER of entries of `Isi0` is compared, not its shape. -/
theorem SIS_effective_degree_call (odeint myodeint : Solver) (Ssi0 Isi0 : Mx) (tau gamma tmin tmax : Rat)
    (tcount : Nat) (full : Bool) (h : Isi0.r * Isi0.c = Ssi0.r * Ssi0.c) :
    GenGlue2.SIS_effective_degree odeint myodeint Ssi0 Isi0 tau gamma tmin tmax tcount full =
      .ok (sisEffX0 Ssi0 Isi0, outSISEff (linspace tmin tmax tcount) Ssi0.r Ssi0.c full
          (odeint (fun st => Gen.dSIS_effective_degree st Ssi0.r Ssi0.c tau gamma) (sisEffX0 Ssi0 Isi0))) := by
  unfold GenGlue2.SIS_effective_degree
  cases full <;>
    simp [Mx.reshape, Mx.getRow, h, vslice, vsum, outSISEff, flatN, sliceLen, sliceLo, sisEffX0]

/-- **error**: an `Isi0` whose number of entries differs from that of `Ssi0` is a `ValueError` (`Isi0.shape = (1, ksq)`) -/
theorem SIS_effective_degree_error (odeint myodeint : Solver) (Ssi0 Isi0 : Mx) (tau gamma tmin tmax : Rat)
    (tcount : Nat) (full : Bool) (h : Isi0.r * Isi0.c ≠ Ssi0.r * Ssi0.c) :
    GenGlue2.SIS_effective_degree odeint myodeint Ssi0 Isi0 tau gamma tmin tmax tcount full = .error "ValueError" := by
  unfold GenGlue2.SIS_effective_degree
  simp [Mx.reshape, h]

/-- **exact domain**: normal return iff the two tables have the same number of entries; nothing else can raise (no
`IndexError`, no second `ValueError` from the final reshapes) -/
theorem SIS_effective_degree_ok_iff (odeint myodeint : Solver) (Ssi0 Isi0 : Mx) (tau gamma tmin tmax : Rat)
    (tcount : Nat) (full : Bool) :
    (∃ x0 l, GenGlue2.SIS_effective_degree odeint myodeint Ssi0 Isi0 tau gamma tmin tmax tcount full = .ok (x0, l)) ↔
      Isi0.r * Isi0.c = Ssi0.r * Ssi0.c := by
  constructor
  · rintro ⟨x0, l, h⟩
    by_contra hne
    rw [SIS_effective_degree_error odeint myodeint Ssi0 Isi0 tau gamma tmin tmax tcount full hne] at h
    cases h
  · intro h
    exact ⟨_, _, SIS_effective_degree_call odeint myodeint Ssi0 Isi0 tau gamma tmin tmax tcount full h⟩

/-- the only exception is `ValueError` -/
theorem SIS_effective_degree_only_valueError (odeint myodeint : Solver) (Ssi0 Isi0 : Mx) (tau gamma tmin tmax : Rat)
    (tcount : Nat) (full : Bool) (e : String)
    (h : GenGlue2.SIS_effective_degree odeint myodeint Ssi0 Isi0 tau gamma tmin tmax tcount full = .error e) :
    e = "ValueError" ∧ Isi0.r * Isi0.c ≠ Ssi0.r * Ssi0.c := by
  by_cases hne : Isi0.r * Isi0.c = Ssi0.r * Ssi0.c
  · rw [SIS_effective_degree_call odeint myodeint Ssi0 Isi0 tau gamma tmin tmax tcount full hne] at h; cases h
  · rw [SIS_effective_degree_error odeint myodeint Ssi0 Isi0 tau gamma tmin tmax tcount full hne] at h
    injection h with h
    exact ⟨h.symm, hne⟩

/-- **shapes and sums** (full data, any solution `X`, every time index): both tables are declared `a × b`, have `a·b`
entries; `S` and `I` are the sums of the returned tables; the time array is the grid -/
theorem outSISEff_full (T : Nat → Rat) (a b : Nat) (X : Nat → V) (i : Nat) :
    let l := outSISEff T a b true X
    l.length = 5 ∧ getN l 3 = a * b ∧ getN l 4 = a * b ∧ (getV l 3 i).n = a * b ∧ (getV l 4 i).n = a * b ∧
    get l 0 i = T i ∧ get l 1 i = sumTo (a * b) (getM l 3 i) ∧ get l 2 i = sumTo (a * b) (getM l 4 i) ∧
    (∀ k, getM l 3 i k = (X i).f k) ∧ (∀ k, getM l 4 i k = (X i).f (a * b + k)) :=
  ⟨rfl, rfl, rfl, rfl, rfl, rfl, rfl, rfl, fun _ => rfl, fun _ => rfl⟩

/-- without full data: three time series, the same `S` and `I` -/
theorem outSISEff_short (T : Nat → Rat) (a b : Nat) (X : Nat → V) (i : Nat) :
    (outSISEff T a b false X).length = 3 ∧
    get (outSISEff T a b false X) 1 i = get (outSISEff T a b true X) 1 i ∧
    get (outSISEff T a b false X) 2 i = get (outSISEff T a b true X) 2 i := ⟨rfl, rfl, rfl⟩

/-- **initial row** under `RowZero odeint` (the solver returns `X0` in row 0; necessary — see `shiftOdeint` below):
`S(0) = Σ Ssi0`, `I(0) = Σ Isi0`, `t(0) = tmin` -/
theorem SIS_effective_degree_init {odeint myodeint : Solver} (h0 : RowZero odeint) (Ssi0 Isi0 : Mx)
    (tau gamma tmin tmax : Rat) (tcount : Nat) (full : Bool) (h : Isi0.r * Isi0.c = Ssi0.r * Ssi0.c) :
    ∃ x0 l, GenGlue2.SIS_effective_degree odeint myodeint Ssi0 Isi0 tau gamma tmin tmax tcount full = .ok (x0, l) ∧
      get l 0 0 = tmin ∧ get l 1 0 = Ssi0.total ∧ get l 2 0 = Isi0.total := by
  refine ⟨_, _, SIS_effective_degree_call odeint myodeint Ssi0 Isi0 tau gamma tmin tmax tcount full h, ?_, ?_, ?_⟩
  · cases full <;> simp [outSISEff, linspace_zero]
  · have e := GenGlueProofs.sumTo_append_left (flatN Ssi0 (Ssi0.r * Ssi0.c)) (flatN Isi0 (Ssi0.r * Ssi0.c))
    rw [← sumTo_flatN Ssi0]
    cases full <;> simp only [outSISEff, Bool.false_eq_true, if_false, if_true, get_succ, get_zero_s, h0 _ _] <;>
      exact e
  · have e := GenGlueProofs.sumTo_append_right (flatN Ssi0 (Ssi0.r * Ssi0.c)) (flatN Isi0 (Ssi0.r * Ssi0.c))
    have e2 := sumTo_flatN Isi0
    rw [h] at e2
    rw [← e2]
    cases full <;> simp only [outSISEff, Bool.false_eq_true, if_false, if_true, get_succ, get_zero_s, h0 _ _] <;>
      exact e

/-- **initial row, full data**: entry `k < a·b` of the returned `Ssi` table at time index 0 is `Ssi0[k / c, k % c]`; that
of `Isi` is `Isi0[k / c', k % c']` with `c'` the number of columns of **`Isi0`** (re-read along `Ssi0`'s shape) -/
theorem SIS_effective_degree_init_full {odeint myodeint : Solver} (h0 : RowZero odeint) (Ssi0 Isi0 : Mx)
    (tau gamma tmin tmax : Rat) (tcount : Nat) (h : Isi0.r * Isi0.c = Ssi0.r * Ssi0.c) :
    ∃ x0 l, GenGlue2.SIS_effective_degree odeint myodeint Ssi0 Isi0 tau gamma tmin tmax tcount true = .ok (x0, l) ∧
      getN l 3 = Ssi0.r * Ssi0.c ∧ getN l 4 = Ssi0.r * Ssi0.c ∧
      ∀ k, k < Ssi0.r * Ssi0.c → getM l 3 0 k = Ssi0.f (k / Ssi0.c) (k % Ssi0.c) ∧
        getM l 4 0 k = Isi0.f (k / Isi0.c) (k % Isi0.c) := by
  refine ⟨_, _, SIS_effective_degree_call odeint myodeint Ssi0 Isi0 tau gamma tmin tmax tcount true h, rfl, rfl, ?_⟩
  intro k hk
  simp only [outSISEff, if_true, getM, getV_succ, getV_zero_c, h0 _ _, sisEffX0]
  constructor
  · rw [V.append_f_lt _ _ k (by simpa using hk)]; rfl
  · have := V.append_f_ge (flatN Ssi0 (Ssi0.r * Ssi0.c)) (flatN Isi0 (Ssi0.r * Ssi0.c)) k
    simp only [flatN_n] at this
    rw [this]; rfl

/-! ## A.2 `SIR_effective_degree` -/

/-- `SIR_effective_degree` (`a × b` = shape of `S_si0`): `R = X[:, -1]`, `S_si = X.T[:-1]`, `S = Σ S_si`,
`I = N − R − S` -/
def outSIREff (T : Nat → Rat) (N : Rat) (a b : Nat) (full : Bool) (X : Nat → V) : List Out :=
  if full then
    [Out.s T, Out.s (fun i => sumTo (a * b) (X i).f), Out.s (fun i => N - (X i).f (a * b) - sumTo (a * b) (X i).f),
     Out.s (fun i => (X i).f (a * b)), Out.c a b (fun i => ⟨a * b, (X i).f⟩)]
  else
    [Out.s T, Out.s (fun i => sumTo (a * b) (X i).f), Out.s (fun i => N - (X i).f (a * b) - sumTo (a * b) (X i).f),
     Out.s (fun i => (X i).f (a * b))]

/-- the `X0` handed to the solver: `S_si0` flattened row-major, then `[R0]` -/
def sirEffX0 (S_si0 : Mx) (R0 : Rat) : V := V.append (flatN S_si0 (S_si0.r * S_si0.c)) (V.ofList [R0])

/-- **call — and it never raises**: for ALL inputs (also an empty table) `odeint` solves the generated
`Gen.dSIR_effective_degree` with `N = Σ S_si0 + I0 + R0` and the shape of `S_si0`, from `X0 = sirEffX0`; the returned
arrays are `outSIREff` of the solution.  (`X[:, -1]` cannot fail as `X0` always has the entry `R0`.) -/
theorem SIR_effective_degree_call (odeint myodeint : Solver) (S_si0 : Mx) (I0 R0 tau gamma tmin tmax : Rat)
    (tcount : Nat) (full : Bool) :
    GenGlue2.SIR_effective_degree odeint myodeint S_si0 I0 R0 tau gamma tmin tmax tcount full =
      .ok (sirEffX0 S_si0 R0,
        outSIREff (linspace tmin tmax tcount) (S_si0.total + I0 + R0) S_si0.r S_si0.c full
          (odeint (fun st => Gen.dSIR_effective_degree st (S_si0.total + I0 + R0) S_si0.r S_si0.c tau gamma)
            (sirEffX0 S_si0 R0))) := by
  unfold GenGlue2.SIR_effective_degree
  cases full <;>
    simp [Mx.flat, vreshape, vslice, vsum, outSIREff, flatN, sliceLen, sliceLo, sirEffX0]

/-- **no exception at all** -/
theorem SIR_effective_degree_no_error (odeint myodeint : Solver) (S_si0 : Mx) (I0 R0 tau gamma tmin tmax : Rat)
    (tcount : Nat) (full : Bool) (e : String) :
    GenGlue2.SIR_effective_degree odeint myodeint S_si0 I0 R0 tau gamma tmin tmax tcount full ≠ .error e := by
  rw [SIR_effective_degree_call]; intro h; cases h

/-- **conservation** `S + I + R = N = Σ S_si0 + I0 + R0` at EVERY time index for EVERY solver (`I` is obtained by
subtraction), the length of `X0`, and the number of returned arrays -/
theorem SIR_effective_degree_conserve (odeint myodeint : Solver) (S_si0 : Mx) (I0 R0 tau gamma tmin tmax : Rat)
    (tcount : Nat) (full : Bool) :
    ∃ x0 l, GenGlue2.SIR_effective_degree odeint myodeint S_si0 I0 R0 tau gamma tmin tmax tcount full = .ok (x0, l) ∧
      x0.n = S_si0.r * S_si0.c + 1 ∧ l.length = (if full then 5 else 4) ∧
      ∀ i, get l 1 i + get l 2 i + get l 3 i = S_si0.total + I0 + R0 := by
  refine ⟨_, _, SIR_effective_degree_call odeint myodeint S_si0 I0 R0 tau gamma tmin tmax tcount full, rfl, ?_, ?_⟩
  · cases full <;> rfl
  · intro i
    cases full <;> simp [outSIREff]

/-- **initial row** under `RowZero odeint`: `S(0) = Σ S_si0`, `R(0) = R0`, `I(0) = I0`, `t(0) = tmin` -/
theorem SIR_effective_degree_init {odeint myodeint : Solver} (h0 : RowZero odeint) (S_si0 : Mx)
    (I0 R0 tau gamma tmin tmax : Rat) (tcount : Nat) (full : Bool) :
    ∃ x0 l, GenGlue2.SIR_effective_degree odeint myodeint S_si0 I0 R0 tau gamma tmin tmax tcount full = .ok (x0, l) ∧
      get l 0 0 = tmin ∧ get l 1 0 = S_si0.total ∧ get l 2 0 = I0 ∧ get l 3 0 = R0 := by
  refine ⟨_, _, SIR_effective_degree_call odeint myodeint S_si0 I0 R0 tau gamma tmin tmax tcount full, ?_⟩
  have e1 : sumTo (S_si0.r * S_si0.c) (sirEffX0 S_si0 R0).f = S_si0.total := by
    rw [← sumTo_flatN S_si0]
    exact GenGlueProofs.sumTo_append_left (flatN S_si0 (S_si0.r * S_si0.c)) (V.ofList [R0])
  have e2 : (sirEffX0 S_si0 R0).f (S_si0.r * S_si0.c) = R0 :=
    GenGlueProofs.append_f_n (flatN S_si0 (S_si0.r * S_si0.c)) (V.ofList [R0])
  cases full <;> simp [outSIREff, h0 _ _, e1, e2, linspace_zero]

/-- **full data**: the returned table is declared `a × b` with `a·b` entries, `S` is its sum at every index, and under
`RowZero odeint` its row 0 is `S_si0` read row-major -/
theorem SIR_effective_degree_full (odeint myodeint : Solver) (S_si0 : Mx) (I0 R0 tau gamma tmin tmax : Rat)
    (tcount : Nat) :
    ∃ x0 l, GenGlue2.SIR_effective_degree odeint myodeint S_si0 I0 R0 tau gamma tmin tmax tcount true = .ok (x0, l) ∧
      getN l 4 = S_si0.r * S_si0.c ∧ (∀ i, (getV l 4 i).n = S_si0.r * S_si0.c) ∧
      (∀ i, get l 1 i = sumTo (S_si0.r * S_si0.c) (getM l 4 i)) ∧
      (RowZero odeint → ∀ k, k < S_si0.r * S_si0.c → getM l 4 0 k = S_si0.f (k / S_si0.c) (k % S_si0.c)) := by
  refine ⟨_, _, SIR_effective_degree_call odeint myodeint S_si0 I0 R0 tau gamma tmin tmax tcount true, rfl,
    fun _ => rfl, fun _ => rfl, ?_⟩
  intro h0 k hk
  simp only [outSIREff, if_true, getM, getV_succ, getV_zero_c, h0 _ _, sirEffX0]
  rw [V.append_f_lt _ _ k (by simpa using hk)]; rfl

/-! ## B. `EBCM_pref_mix` -/

/-! ### B.0 `for` loops and `mapM` in `Except` -/
/-- a `for` loop over a list whose body, on every member and every state, yields `g a s` without raising, is the
left fold of `g` (induction over the list) -/
theorem forIn_ok_of_mem {α σ : Type} (l : List α) (f : α → σ → Except String (ForInStep σ)) (g : α → σ → σ)
    (h : ∀ a ∈ l, ∀ s, f a s = .ok (.yield (g a s))) (s : σ) :
    forIn l s f = .ok (l.foldl (fun s a => g a s) s) := by
  induction l generalizing s with
  | nil => rfl
  | cons a t ih =>
    rw [List.forIn_cons, h a (List.mem_cons_self ..) s]
    exact ih (fun b hb s => h b (List.mem_cons_of_mem _ hb) s) (g a s)

/-- the same when the body never raises at all -/
theorem forIn_ok_yield {α σ : Type} (l : List α) (g : α → σ → σ) (s : σ) :
    forIn l s (fun a r => (Except.ok (ForInStep.yield (g a r)) : Except String (ForInStep σ)))
      = .ok (l.foldl (fun s a => g a s) s) :=
  forIn_ok_of_mem l _ g (fun _ _ _ => rfl) s

/-- a list comprehension whose body returns `g a` on every member returns `l.map g` -/
theorem mapM_ok_of_mem {α β : Type} (l : List α) (f : α → Except String β) (g : α → β)
    (h : ∀ a ∈ l, f a = .ok (g a)) : l.mapM f = .ok (l.map g) := by
  induction l with
  | nil => rfl
  | cons a t ih =>
    rw [List.mapM_cons, h a (List.mem_cons_self ..), ih (fun b hb => h b (List.mem_cons_of_mem _ hb))]; rfl

/-! ### B.1 `sorted(keys)` (`sortNat`, an insertion sort) is a rearrangement of the keys -/
/-- one insertion step of `sortNat` -/
def ins (acc : List Nat) (x : Nat) : List Nat := (acc.filter (· ≤ x)) ++ [x] ++ (acc.filter (fun y => ¬ (y ≤ x)))

/-- members after one insertion -/
theorem mem_ins (acc : List Nat) (x y : Nat) : y ∈ ins acc x ↔ y = x ∨ y ∈ acc := by
  simp only [ins, List.mem_append, List.mem_filter, List.mem_singleton, decide_eq_true_eq]
  by_cases h : y ≤ x <;> simp [h]
  · exact Or.comm

/-- a filter and its complement split the length -/
theorem length_filter_split {α : Type} (p : α → Bool) (l : List α) :
    (l.filter p).length + (l.filter (fun y => !p y)).length = l.length := by
  induction l with
  | nil => rfl
  | cons a t ih =>
    cases h : p a
    · rw [List.filter_cons_of_neg (by simp [h]), List.filter_cons_of_pos (by simp [h])]
      simp only [List.length_cons]; omega
    · rw [List.filter_cons_of_pos h, List.filter_cons_of_neg (by simp [h])]
      simp only [List.length_cons]; omega

/-- an insertion adds one entry -/
theorem length_ins (acc : List Nat) (x : Nat) : (ins acc x).length = acc.length + 1 := by
  have h := length_filter_split (fun y => decide (y ≤ x)) acc
  have e : (fun y => !decide (y ≤ x)) = (fun y => decide (¬ (y ≤ x))) := by
    funext y; by_cases hy : y ≤ x <;> simp [hy]
  rw [e] at h
  simp only [ins, List.length_append, List.length_singleton]
  omega

/-- `sortNat` is the fold of `ins` -/
theorem sortNat_eq (l : List Nat) : sortNat l = l.foldl ins [] := rfl

/-- members of a fold of insertions -/
theorem mem_foldl_ins (l acc : List Nat) (y : Nat) : y ∈ l.foldl ins acc ↔ y ∈ acc ∨ y ∈ l := by
  induction l generalizing acc with
  | nil => simp
  | cons a t ih => rw [List.foldl_cons, ih, mem_ins, List.mem_cons]; tauto

/-- length of a fold of insertions -/
theorem length_foldl_ins (l acc : List Nat) : (l.foldl ins acc).length = acc.length + l.length := by
  induction l generalizing acc with
  | nil => simp
  | cons a t ih => rw [List.foldl_cons, ih, length_ins, List.length_cons]; omega

/-- `sorted(keys)` has the same members -/
theorem mem_sortNat (l : List Nat) (y : Nat) : y ∈ sortNat l ↔ y ∈ l := by
  rw [sortNat_eq, mem_foldl_ins]; simp
/-- `sorted(keys)` has the same length -/
theorem length_sortNat (l : List Nat) : (sortNat l).length = l.length := by
  rw [sortNat_eq, length_foldl_ins]; simp

/-! ### B.2 `enumerate` -/
/-- `(i, x) ∈ enumerate(l)` iff `l[i] = x` -/
theorem mem_enum {α : Type} (l : List α) (x : Nat × α) : x ∈ enum l ↔ l[x.1]? = some x.2 := by
  unfold enum
  rw [List.mem_iff_getElem?]
  constructor
  · rintro ⟨i, hi⟩
    rw [List.getElem?_zip_eq_some] at hi
    obtain ⟨h1, h2⟩ := hi
    rw [List.getElem?_range] at h1
    · injection h1 with h1; rw [← h1]; exact h2
    · by_contra hc
      rw [List.getElem?_eq_none (by simpa using hc)] at h1; cases h1
  · intro h
    have hlt : x.1 < l.length := by
      by_contra hc
      rw [List.getElem?_eq_none (by omega)] at h; cases h
    refine ⟨x.1, ?_⟩
    rw [List.getElem?_zip_eq_some]
    exact ⟨by rw [List.getElem?_range hlt], h⟩

/-- every index of `enumerate(l)` is `< len(l)` -/
theorem enum_lt {α : Type} (l : List α) (x : Nat × α) (h : x ∈ enum l) : x.1 < l.length := by
  rw [mem_enum] at h
  by_contra hc
  rw [List.getElem?_eq_none (by omega)] at h; cases h

/-- every member of `l` occurs in `enumerate(l)` -/
theorem enum_of_mem {α : Type} (l : List α) (k : α) (h : k ∈ l) : ∃ x ∈ enum l, x.2 = k := by
  obtain ⟨i, hi⟩ := List.mem_iff_getElem?.1 h
  exact ⟨(i, k), (mem_enum l (i, k)).2 hi, rfl⟩

/-! ### B.3 dicts -/
/-- `d[k]` as a total function (`dflt` when the key is absent) -/
def dGetD {α : Type} (d : List (Nat × α)) (k : Nat) (dflt : α) : α :=
  match d.find? (fun kv => kv.1 == k) with
  | some kv => kv.2
  | none => dflt

/-- `d[k]` does not raise `KeyError` for a key of `d` -/
theorem dGet_of_mem {α : Type} (d : List (Nat × α)) (k : Nat) (dflt : α) (h : k ∈ d.map (·.1)) :
    dGet d k = .ok (dGetD d k dflt) := by
  unfold dGet dGetD
  cases hf : d.find? (fun kv => kv.1 == k) with
  | some kv => rfl
  | none =>
    exfalso
    rw [List.find?_eq_none] at hf
    obtain ⟨kv, hkv, rfl⟩ := List.mem_map.1 h
    exact hf kv hkv (by simp)

/-- `d[k] = v; d[k]` is `v` -/
theorem dGet_dSet_same {α : Type} (d : List (Nat × α)) (k : Nat) (v : α) : dGet (dSet d k v) k = .ok v := by
  induction d with
  | nil => simp [dSet, dGet]
  | cons a t ih =>
    obtain ⟨k', w⟩ := a
    by_cases h : k' = k
    · simp [dSet, h, dGet]
    · simp only [dSet, h, if_false]
      unfold dGet at ih ⊢
      rw [List.find?_cons_of_neg (by simpa using h)]
      exact ih

/-- `d[k] = v` does not change `d[k2]` for `k2 ≠ k` (value or `KeyError`) -/
theorem dGet_dSet_other {α : Type} (d : List (Nat × α)) (k k2 : Nat) (v : α) (hk : k2 ≠ k) :
    dGet (dSet d k v) k2 = dGet d k2 := by
  induction d with
  | nil =>
    have : ¬ (k = k2) := fun h => hk h.symm
    simp [dSet, dGet, this]
  | cons a t ih =>
    obtain ⟨k', w⟩ := a
    by_cases h : k' = k
    · subst h
      have h2 : ¬ (k' = k2) := fun h => hk h.symm
      simp [dSet, dGet, h2]
    · simp only [dSet, h, if_false]
      unfold dGet at ih ⊢
      by_cases h3 : k' = k2
      · simp [h3]
      · rw [List.find?_cons_of_neg (by simpa using h3), List.find?_cons_of_neg (by simpa using h3)]
        exact ih


/-! ### B.4 the initial condition, `theta`, the closed form of the returned arrays -/
/-- `[1, 0, 1, 0, …]` of length `2m` -/
def icTail : Nat → List Rat
  | 0 => []
  | m + 1 => 1 :: 0 :: icTail m
/-- `[0, 1, 0, 1, 0, …]` of length `1 + 2m` -/
def icList (m : Nat) : List Rat := 0 :: icTail m

/-- length of `icTail` -/
theorem icTail_length (m : Nat) : (icTail m).length = 2 * m := by
  induction m with
  | zero => rfl
  | succ m ih => simp only [icTail, List.length_cons, ih]; omega

/-- the first loop (`IC = IC + [1, 0]` once per key) appends `icTail` -/
theorem foldl_ic {α : Type} (l : List α) (init : List Rat) :
    l.foldl (fun r _ => r ++ [(1 : Rat), 0]) init = init ++ icTail l.length := by
  induction l generalizing init with
  | nil => simp [icTail]
  | cons a t ih => rw [List.foldl_cons, ih]; simp [icTail]

/-- the dict `theta` after the second loop, for the solution `X` and the sorted keys `sks`: `theta[k] = X.T[1 + 2*index]`
for `(index, k)` in `enumerate(sks)` -/
def thetaOf (X : Nat → V) (sks : List Nat) : List (Nat × (Nat → Rat)) :=
  (enum sks).foldl (fun th x => dSet th x.2 (fun i => (X i).f (1 + 2 * x.1))) []

/-- a fold that updates both components of a pair by the same function from equal starts keeps them equal -/
theorem foldl_pair {α σ : Type} (F : σ → α → σ) (l : List α) (a : σ) :
    l.foldl (fun (s : σ × σ) x => (F s.1 x, F s.2 x)) (a, a) = (l.foldl F a, l.foldl F a) := by
  induction l generalizing a with
  | nil => rfl
  | cons x t ih => rw [List.foldl_cons, List.foldl_cons, ih]

/-- reading key `k` after a sequence of assignments `th[x.2] = v x.1`: the value of some assignment to `k` when there is
one, the old `d[k]` otherwise -/
theorem dGet_foldl_dSet {α : Type} (v : Nat → α) (L : List (Nat × Nat)) (d : List (Nat × α)) (k : Nat) :
    (∃ x ∈ L, x.2 = k ∧ dGet (L.foldl (fun th x => dSet th x.2 (v x.1)) d) k = .ok (v x.1)) ∨
    ((∀ x ∈ L, x.2 ≠ k) ∧ dGet (L.foldl (fun th x => dSet th x.2 (v x.1)) d) k = dGet d k) := by
  induction L generalizing d with
  | nil => right; exact ⟨fun x hx => (by cases hx), rfl⟩
  | cons x t ih =>
    rw [List.foldl_cons]
    rcases ih (dSet d x.2 (v x.1)) with ⟨y, hy, hyk, hg⟩ | ⟨hall, hg⟩
    · left; exact ⟨y, List.mem_cons_of_mem _ hy, hyk, hg⟩
    · by_cases hx : x.2 = k
      · left
        refine ⟨x, List.mem_cons_self .., hx, ?_⟩
        rw [hg, hx, dGet_dSet_same]
      · right
        refine ⟨fun y hy => ?_, ?_⟩
        · rcases List.mem_cons.1 hy with rfl | hy
          · exact hx
          · exact hall y hy
        · rw [hg, dGet_dSet_other _ _ _ _ (fun h => hx h.symm)]

/-- every sorted key is a key of `theta`, bound to an odd column `1 + 2j` (`j` a position of the key in the sorted
list) -/
theorem thetaOf_get (X : Nat → V) (sks : List Nat) (k : Nat) (hk : k ∈ sks) :
    ∃ j, sks[j]? = some k ∧ dGet (thetaOf X sks) k = .ok (fun i => (X i).f (1 + 2 * j)) := by
  unfold thetaOf
  rcases dGet_foldl_dSet (fun j => fun i => (X i).f (1 + 2 * j)) (enum sks) [] k with ⟨x, hx, hxk, hg⟩ | ⟨hall, -⟩
  · refine ⟨x.1, ?_, hg⟩
    rw [← hxk]; exact (mem_enum sks x).1 hx
  · exfalso
    obtain ⟨x, hx, hxk⟩ := enum_of_mem sks k hk
    exact hall x hx hxk

/-- `dGetD` agrees with a successful `d[k]` -/
theorem dGetD_of_ok {α : Type} (d : List (Nat × α)) (k : Nat) (dflt v : α) (h : dGet d k = .ok v) :
    dGetD d k dflt = v := by
  unfold dGet at h; unfold dGetD
  cases hf : d.find? (fun kv => kv.1 == k) with
  | some kv => rw [hf] at h; injection h
  | none => rw [hf] at h; cases h

/-- `EBCM_pref_mix`: `R' = X[:,0]`, `theta` = `thetaOf`, `S' = (1 − ρ) Σ_{k ∈ Pk.keys()} Pk[k]·theta[k]^k`,
`I' = 1 − S' − R'`; returned `N·S'`, `N·I'`, `N·R'` (and the dict `theta` with full data).  The `phiR` columns `2 + 2j`
of the solution do not occur. -/
def outPrefMix (T : Nat → Rat) (N ρ : Rat) (Pk : List (Nat × Rat)) (full : Bool) (X : Nat → V) : List Out :=
  let th := thetaOf X (sortNat (Pk.map (·.1)))
  let S : Nat → Rat := fun i =>
    (1 - ρ) * sumRat ((Pk.map (·.1)).map (fun k => dGetD Pk k 0 * (dGetD th k (fun _ => 0) i) ^ k))
  if full then
    [Out.s T, Out.s (fun i => N * S i), Out.s (fun i => N * (1 - S i - (X i).f 0)), Out.s (fun i => N * (X i).f 0),
     Out.d th]
  else
    [Out.s T, Out.s (fun i => N * S i), Out.s (fun i => N * (1 - S i - (X i).f 0)), Out.s (fun i => N * (X i).f 0)]

/-- **call with `rho` given**: no exception for any `Pk`, `Pnk`, solver; both loops eliminated -/
theorem EBCM_pref_mix_call_rho (odeint myodeint : Solver)
    (rhs : Rat → Rat → Rat → List (Nat × Rat) → List (Nat × List (Nat × Rat)) → V → V)
    (N : Rat) (Pk : List (Nat × Rat)) (Pnk : List (Nat × List (Nat × Rat))) (tau gamma r tmin tmax : Rat)
    (tcount : Nat) (full : Bool) :
    GenGlue2.EBCM_pref_mix odeint myodeint rhs N Pk Pnk tau gamma (some r) tmin tmax tcount full =
      .ok (V.ofList (icList Pk.length), outPrefMix (linspace tmin tmax tcount) N r Pk full
        (odeint (fun st => rhs r tau gamma Pk Pnk st) (V.ofList (icList Pk.length)))) := by
  have hm : (sortNat (Pk.map (·.1))).length = Pk.length := by rw [length_sortNat, List.length_map]
  unfold GenGlue2.EBCM_pref_mix
  simp only [Option.isNone_some, Bool.false_eq_true, if_false, ok_bind, pure_bind, bind_pure_comp,
    forIn_ok_yield, foldl_ic, hm, need_some, pure_eq_ok, throw_eq_err]
  have hic : [(0 : Rat)] ++ icTail Pk.length = icList Pk.length := rfl
  rw [hic]
  have hn : (V.ofList (icList Pk.length)).n = 1 + 2 * Pk.length := by
    simp [icList, icTail_length]; omega
  simp only [hn]
  rw [if_neg (by omega)]
  generalize hX : odeint (fun st => rhs r tau gamma Pk Pnk st) (V.ofList (icList Pk.length)) = X
  rw [forIn_ok_of_mem (enum (sortNat (Pk.map (·.1)))) _
    (fun x s => (dSet s.1 x.2 (fun i => (X i).f (1 + 2 * x.1)), dSet s.2 x.2 (fun i => (X i).f (1 + 2 * x.1))))
    (by
      intro x hx s
      have h1 := enum_lt _ x hx
      rw [hm] at h1
      have h2 : 1 + 2 * x.1 < 1 + 2 * Pk.length := by omega
      simp [h2])]
  rw [ok_bind, foldl_pair (fun th (x : Nat × Nat) => dSet th x.2 (fun i => (X i).f (1 + 2 * x.1)))]
  have hth : (List.foldl (fun th (x : Nat × Nat) => dSet th x.2 fun i => (X i).f (1 + 2 * x.1)) []
      (enum (sortNat (List.map (fun x => x.1) Pk)))) = thetaOf X (sortNat (Pk.map (·.1))) := rfl
  simp only [hth]
  rw [mapM_ok_of_mem (Pk.map (·.1)) _
    (fun k => fun i => dGetD Pk k 0 * (dGetD (thetaOf X (sortNat (Pk.map (·.1)))) k (fun _ => 0) i) ^ k)
    (by
      intro k hk
      obtain ⟨j, -, hg⟩ := thetaOf_get X _ k ((mem_sortNat _ _).2 hk)
      rw [dGet_of_mem Pk k 0 hk, ok_bind, hg, ok_bind, dGetD_of_ok _ _ _ _ hg])]
  cases full <;> simp [outPrefMix, List.map_map, Function.comp_def]

/-- `rho = None`, `N ≠ 0`: the same call with `rho = 1/N` -/
theorem EBCM_pref_mix_default (odeint myodeint : Solver)
    (rhs : Rat → Rat → Rat → List (Nat × Rat) → List (Nat × List (Nat × Rat)) → V → V)
    (N : Rat) (Pk : List (Nat × Rat)) (Pnk : List (Nat × List (Nat × Rat))) (tau gamma tmin tmax : Rat)
    (tcount : Nat) (full : Bool) (hN : N ≠ 0) :
    GenGlue2.EBCM_pref_mix odeint myodeint rhs N Pk Pnk tau gamma none tmin tmax tcount full =
      GenGlue2.EBCM_pref_mix odeint myodeint rhs N Pk Pnk tau gamma (some (1 / N)) tmin tmax tcount full := by
  unfold GenGlue2.EBCM_pref_mix
  simp [hN]

/-- `rho = None` on `N = 0`: `rho = 1./N` is a `ZeroDivisionError` (first statement, whatever the other arguments) -/
theorem EBCM_pref_mix_error_zeroDiv (odeint myodeint : Solver)
    (rhs : Rat → Rat → Rat → List (Nat × Rat) → List (Nat × List (Nat × Rat)) → V → V)
    (Pk : List (Nat × Rat)) (Pnk : List (Nat × List (Nat × Rat))) (tau gamma tmin tmax : Rat)
    (tcount : Nat) (full : Bool) :
    GenGlue2.EBCM_pref_mix odeint myodeint rhs 0 Pk Pnk tau gamma none tmin tmax tcount full
      = .error "ZeroDivisionError" := by
  unfold GenGlue2.EBCM_pref_mix
  simp

/-- the value of `rho` used: the argument, or `1/N` -/
def rhoOf (N : Rat) (rho : Option Rat) : Rat := rho.getD (1 / N)

/-- **call, all inputs**: unless (`rho = None` and `N = 0`) the function returns normally — in particular **no
`IndexError` (`X.T[1+2*index]`) and no `KeyError` (`Pk[k]`, `theta[k]`) for any `Pk`** (also empty, also with repeated
keys), any `Pnk` (it is only passed on), any solver.  `odeint` solves `rhs_dEBCM_pref_mix(rho, tau, gamma, Pk, Pnk)` from
`IC = [0, 1, 0, 1, 0, …]` (`1 + 2·|Pk|` entries); the returned arrays are `outPrefMix` of the solution. -/
theorem EBCM_pref_mix_call (odeint myodeint : Solver)
    (rhs : Rat → Rat → Rat → List (Nat × Rat) → List (Nat × List (Nat × Rat)) → V → V)
    (N : Rat) (Pk : List (Nat × Rat)) (Pnk : List (Nat × List (Nat × Rat))) (tau gamma : Rat) (rho : Option Rat)
    (tmin tmax : Rat) (tcount : Nat) (full : Bool) (h : rho.isSome ∨ N ≠ 0) :
    GenGlue2.EBCM_pref_mix odeint myodeint rhs N Pk Pnk tau gamma rho tmin tmax tcount full =
      .ok (V.ofList (icList Pk.length), outPrefMix (linspace tmin tmax tcount) N (rhoOf N rho) Pk full
        (odeint (fun st => rhs (rhoOf N rho) tau gamma Pk Pnk st) (V.ofList (icList Pk.length)))) := by
  cases rho with
  | some r => exact EBCM_pref_mix_call_rho ..
  | none =>
    have hN : N ≠ 0 := by simpa using h
    rw [EBCM_pref_mix_default _ _ _ _ _ _ _ _ _ _ _ _ hN]
    exact EBCM_pref_mix_call_rho ..

/-- **exact domain**: normal return iff `rho` is given or `N ≠ 0`; the only exception is that `ZeroDivisionError` -/
theorem EBCM_pref_mix_ok_iff (odeint myodeint : Solver)
    (rhs : Rat → Rat → Rat → List (Nat × Rat) → List (Nat × List (Nat × Rat)) → V → V)
    (N : Rat) (Pk : List (Nat × Rat)) (Pnk : List (Nat × List (Nat × Rat))) (tau gamma : Rat) (rho : Option Rat)
    (tmin tmax : Rat) (tcount : Nat) (full : Bool) :
    ((∃ x0 l, GenGlue2.EBCM_pref_mix odeint myodeint rhs N Pk Pnk tau gamma rho tmin tmax tcount full = .ok (x0, l)) ↔
      (rho.isSome ∨ N ≠ 0)) ∧
    (∀ e, GenGlue2.EBCM_pref_mix odeint myodeint rhs N Pk Pnk tau gamma rho tmin tmax tcount full = .error e →
      e = "ZeroDivisionError" ∧ rho = none ∧ N = 0) := by
  by_cases h : rho.isSome ∨ N ≠ 0
  · have hc := EBCM_pref_mix_call odeint myodeint rhs N Pk Pnk tau gamma rho tmin tmax tcount full h
    refine ⟨⟨fun _ => h, fun _ => ⟨_, _, hc⟩⟩, fun e he => ?_⟩
    rw [hc] at he; cases he
  · have h1 : rho = none := by
      cases rho with
      | none => rfl
      | some r => exact absurd (Or.inl rfl) h
    have h2 : N = 0 := by
      by_contra hN; exact h (Or.inr hN)
    subst h1; subst h2
    have he := EBCM_pref_mix_error_zeroDiv odeint myodeint rhs Pk Pnk tau gamma tmin tmax tcount full
    refine ⟨⟨fun ⟨x0, l, hl⟩ => ?_, fun hh => absurd hh h⟩, fun e hee => ?_⟩
    · rw [he] at hl; cases hl
    · rw [he] at hee; injection hee with hee; exact ⟨hee.symm, rfl, rfl⟩

/-! ### the initial-condition vector -/

theorem icList_length (m : Nat) : (icList m).length = 1 + 2 * m := by
  simp [icList, icTail_length]; omega

theorem icTail_getD_even (m j : Nat) (h : j < m) : (icTail m).getD (2 * j) 0 = 1 := by
  induction m generalizing j with
  | zero => omega
  | succ m ih =>
    cases j with
    | zero => rfl
    | succ j =>
      have e : 2 * (j + 1) = 2 * j + 1 + 1 := by omega
      rw [e]
      simp only [icTail, List.getD_cons_succ]
      exact ih j (by omega)

theorem icTail_getD_odd (m j : Nat) : (icTail m).getD (2 * j + 1) 0 = 0 := by
  induction m generalizing j with
  | zero => simp [icTail]
  | succ m ih =>
    cases j with
    | zero => rfl
    | succ j =>
      have e : 2 * (j + 1) + 1 = 2 * j + 1 + 1 + 1 := by omega
      rw [e]
      simp only [icTail, List.getD_cons_succ]
      exact ih j

/-- `IC`: `1 + 2m` entries; entry 0 (`R`) is `0`; the odd entries `1 + 2j` (`theta_k`) are `1`; the even entries
`2 + 2j` (`phiR_k`) are `0` -/
theorem icList_spec (m : Nat) :
    (V.ofList (icList m)).n = 1 + 2 * m ∧ (V.ofList (icList m)).f 0 = 0 ∧
    (∀ j, j < m → (V.ofList (icList m)).f (1 + 2 * j) = 1) ∧ (∀ j, (V.ofList (icList m)).f (2 + 2 * j) = 0) := by
  refine ⟨icList_length m, rfl, fun j hj => ?_, fun j => ?_⟩
  · have e : 1 + 2 * j = 2 * j + 1 := by omega
    rw [e]
    simp only [V.ofList, icList, List.getD_cons_succ]
    exact icTail_getD_even m j hj
  · have e : 2 + 2 * j = 2 * j + 1 + 1 := by omega
    rw [e]
    simp only [V.ofList, icList, List.getD_cons_succ]
    exact icTail_getD_odd m j

/-! ### conservation, initial row, `theta`, `phiR` -/

/-- **conservation** `S + I + R = N` at EVERY time index for ANY solution (returned `S = N·S'`, `I = N·(1 − S' − R')`,
`R = N·R'`), and `R` is `N ×` column 0 -/
theorem outPrefMix_conserve (T : Nat → Rat) (N ρ : Rat) (Pk : List (Nat × Rat)) (full : Bool) (X : Nat → V) (i : Nat) :
    get (outPrefMix T N ρ Pk full X) 1 i + get (outPrefMix T N ρ Pk full X) 2 i + get (outPrefMix T N ρ Pk full X) 3 i
      = N ∧ get (outPrefMix T N ρ Pk full X) 3 i = N * (X i).f 0 ∧ get (outPrefMix T N ρ Pk full X) 0 i = T i ∧
    (outPrefMix T N ρ Pk full X).length = (if full then 5 else 4) := by
  cases full <;> simp [outPrefMix] <;> ring

/-- for a key `k` of `Pk`, `theta[k]` is an odd column `1 + 2j` of the solution, `j < |Pk|` a position of `k` in
`sorted(Pk.keys())` -/
theorem theta_column (X : Nat → V) (Pk : List (Nat × Rat)) (k : Nat) (hk : k ∈ Pk.map (·.1)) (dflt : Nat → Rat) :
    ∃ j, j < Pk.length ∧ (sortNat (Pk.map (·.1)))[j]? = some k ∧
      dGetD (thetaOf X (sortNat (Pk.map (·.1)))) k dflt = fun i => (X i).f (1 + 2 * j) := by
  obtain ⟨j, hj, hg⟩ := thetaOf_get X _ k ((mem_sortNat _ _).2 hk)
  refine ⟨j, ?_, hj, dGetD_of_ok _ _ _ _ hg⟩
  have hm : (sortNat (Pk.map (·.1))).length = Pk.length := by rw [length_sortNat, List.length_map]
  by_contra hc
  rw [List.getElem?_eq_none (by omega)] at hj; cases hj

/-- **initial row** for a solution with `X 0 = IC`: `R(0) = 0`, `S(0) = N (1 − ρ) Σ_{k ∈ keys} Pk[k]` (every
`theta_k(0) = 1`), `I(0) = N − S(0)`, `t(0)` -/
theorem outPrefMix_init (T : Nat → Rat) (N ρ : Rat) (Pk : List (Nat × Rat)) (full : Bool) (X : Nat → V)
    (hX : X 0 = V.ofList (icList Pk.length)) :
    get (outPrefMix T N ρ Pk full X) 3 0 = 0 ∧
    get (outPrefMix T N ρ Pk full X) 1 0 = N * ((1 - ρ) * sumRat ((Pk.map (·.1)).map (fun k => dGetD Pk k 0))) ∧
    get (outPrefMix T N ρ Pk full X) 2 0
      = N - N * ((1 - ρ) * sumRat ((Pk.map (·.1)).map (fun k => dGetD Pk k 0))) := by
  obtain ⟨-, hz, hodd, -⟩ := icList_spec Pk.length
  have hmap : (Pk.map (·.1)).map (fun k => dGetD Pk k 0 *
        (dGetD (thetaOf X (sortNat (Pk.map (·.1)))) k (fun _ => 0) 0) ^ k)
      = (Pk.map (·.1)).map (fun k => dGetD Pk k 0) := by
    apply List.map_congr_left
    intro k hk
    obtain ⟨j, hj, -, hg⟩ := theta_column X Pk k hk (fun _ => 0)
    rw [hg]
    simp only [hX, hodd j hj, one_pow, mul_one]
  cases full <;>
    simp only [outPrefMix, Bool.false_eq_true, if_false, if_true, get_succ, get_zero_s, hmap, hX, hz] <;>
    refine ⟨by ring, trivial, by ring⟩

/-- **theta per key at time 0**: `theta_k(0) = 1` for every key (full data: the returned dict is `thetaOf`) -/
theorem theta_init (X : Nat → V) (Pk : List (Nat × Rat)) (hX : X 0 = V.ofList (icList Pk.length))
    (k : Nat) (hk : k ∈ Pk.map (·.1)) (dflt : Nat → Rat) :
    dGetD (thetaOf X (sortNat (Pk.map (·.1)))) k dflt 0 = 1 := by
  obtain ⟨j, hj, -, hg⟩ := theta_column X Pk k hk dflt
  rw [hg]
  show (X 0).f (1 + 2 * j) = 1
  rw [hX]
  exact (icList_spec Pk.length).2.2.1 j hj

/-- **spec, all inputs with `rho` given or `N ≠ 0`, every solver**: normal return; `S + I + R = N` at every index; with
`RowZero odeint` (necessary: the solver fixes row 0) `R(0) = 0`, `S(0) = N (1 − rho) Σ_k Pk[k]`, `I(0) = N − S(0)`;
with full data the fifth array is the dict `theta` -/
theorem EBCM_pref_mix_spec (odeint myodeint : Solver)
    (rhs : Rat → Rat → Rat → List (Nat × Rat) → List (Nat × List (Nat × Rat)) → V → V)
    (N : Rat) (Pk : List (Nat × Rat)) (Pnk : List (Nat × List (Nat × Rat))) (tau gamma : Rat) (rho : Option Rat)
    (tmin tmax : Rat) (tcount : Nat) (full : Bool) (h : rho.isSome ∨ N ≠ 0) :
    ∃ x0 l, GenGlue2.EBCM_pref_mix odeint myodeint rhs N Pk Pnk tau gamma rho tmin tmax tcount full = .ok (x0, l) ∧
      x0.n = 1 + 2 * Pk.length ∧ l.length = (if full then 5 else 4) ∧
      (∀ i, get l 1 i + get l 2 i + get l 3 i = N) ∧
      (RowZero odeint → get l 3 0 = 0 ∧
        get l 1 0 = N * ((1 - rhoOf N rho) * sumRat ((Pk.map (·.1)).map (fun k => dGetD Pk k 0))) ∧
        get l 2 0 = N - N * ((1 - rhoOf N rho) * sumRat ((Pk.map (·.1)).map (fun k => dGetD Pk k 0)))) := by
  refine ⟨_, _, EBCM_pref_mix_call odeint myodeint rhs N Pk Pnk tau gamma rho tmin tmax tcount full h,
    icList_length _, (outPrefMix_conserve _ _ _ _ _ _ 0).2.2.2, fun i => (outPrefMix_conserve ..).1, fun h0 => ?_⟩
  exact outPrefMix_init _ _ _ _ _ _ (h0 _ _)

/-- **the documented quirk**: the second loop, as generated (state `(theta, phiR)`), ends with `phiR = theta` — both
dicts read the SAME columns `X.T[1 + 2*index]` (the `phiR` columns `2 + 2*index` of the solution are never read), and
`phiR` does not occur in the returned arrays (`outPrefMix` mentions `thetaOf` only) -/
theorem EBCM_pref_mix_phiR_eq_theta (X : Nat → V) (sks : List Nat) :
    forIn (m := Except String) (enum sks) (([], []) : List (Nat × (Nat → Rat)) × List (Nat × (Nat → Rat)))
      (fun x s => do
        if ¬ ((1 + (2 * x.1)) < 1 + 2 * sks.length) then throw "IndexError"
        let theta := dSet s.1 x.2 (fun i => (X i).f (1 + (2 * x.1)))
        if ¬ ((1 + (2 * x.1)) < 1 + 2 * sks.length) then throw "IndexError"
        let phiR := dSet s.2 x.2 (fun i => (X i).f (1 + (2 * x.1)))
        pure (ForInStep.yield (theta, phiR)))
      = .ok (thetaOf X sks, thetaOf X sks) := by
  rw [forIn_ok_of_mem (enum sks) _
    (fun x s => (dSet s.1 x.2 (fun i => (X i).f (1 + 2 * x.1)), dSet s.2 x.2 (fun i => (X i).f (1 + 2 * x.1))))
    (by
      intro x hx s
      have h1 := enum_lt _ x hx
      have h2 : 1 + 2 * x.1 < 1 + 2 * sks.length := by omega
      simp [h2])]
  rw [foldl_pair (fun th (x : Nat × Nat) => dSet th x.2 (fun i => (X i).f (1 + 2 * x.1)))]
  rfl

/-- `Pk[k]` read through `dGetD` is the listed value when the keys are distinct (a Python dict): the sum in `S(0)` is
then the sum of all values of `Pk` -/
theorem sum_dGetD_nodup (Pk : List (Nat × Rat)) (h : (Pk.map (·.1)).Nodup) :
    (Pk.map (·.1)).map (fun k => dGetD Pk k 0) = Pk.map (·.2) := by
  rw [List.map_map]
  apply List.map_congr_left
  intro kv hkv
  simp only [Function.comp]
  unfold dGetD
  cases hf : Pk.find? (fun p => p.1 == kv.1) with
  | none =>
    rw [List.find?_eq_none] at hf
    exact absurd (by simp) (hf kv hkv)
  | some p =>
    have hp := List.mem_of_find?_eq_some hf
    have hpk : p.1 = kv.1 := by simpa using List.find?_some hf
    have : p = kv := by
      have hinj := List.inj_on_of_nodup_map h
      exact hinj hp hkv hpk
    rw [this]


/-! ## C. closed examples (kernel-checked).  `rowAt r i` = the exception, or (`X0`, the returned arrays read at time
index `i`); `constOdeint` returns `X0` in every row, `driftOdeint` adds `i` to every component in row `i` (both
`RowZero`), `shiftOdeint` adds 1 in every row (not `RowZero`) -/

/-- a solver that is NOT `RowZero`: every row is `X0 + 1` -/
def shiftOdeint : Solver := fun _ X0 _ => ⟨X0.n, fun k => X0.f k + 1⟩

theorem driftOdeint_zero : RowZero driftOdeint := fun _ X0 => by
  cases X0; simp [driftOdeint]

theorem shiftOdeint_not_zero : ¬ RowZero shiftOdeint := fun h => by
  have := congrArg (fun v : V => v.f 0) (h id (V.ofList [0]))
  revert this; decide +kernel

def exS : Mx := Mx.ofLists [[1, 2], [3, 4]]
def exI : Mx := Mx.ofLists [[0, 1], [1, 0]]
/-- the trivial right-hand side for `EBCM_pref_mix` -/
def exRhs : Rat → Rat → Rat → List (Nat × Rat) → List (Nat × List (Nat × Rat)) → V → V := fun _ _ _ _ _ st => st

/-- `SIS_effective_degree`, full data: `X0` = both tables row-major; `[t, S, I, Ssi, Isi]` at index 0 -/
example : rowAt (GenGlue2.SIS_effective_degree constOdeint constOdeint exS exI 1 1 0 10 11 true) 0
    = .inr ([1, 2, 3, 4, 0, 1, 1, 0], [[0], [10], [2], [1, 2, 3, 4], [0, 1, 1, 0]]) := by decide +kernel
/-- **`S + I` is not conserved by construction** (nothing is obtained by subtraction): with the `RowZero` solver
`driftOdeint`, `S + I = 12` at index 0 and `14 + 6 = 20` at index 1 -/
example : rowAt (GenGlue2.SIS_effective_degree driftOdeint constOdeint exS exI 1 1 0 10 11 false) 1
    = .inr ([1, 2, 3, 4, 0, 1, 1, 0], [[1], [14], [6]]) := by decide +kernel
/-- the same as a statement: there is a `RowZero` solver for which `S + I` changes between two time indices -/
theorem SIS_effective_degree_not_conserved :
    ∃ odeint : Solver, RowZero odeint ∧ ∃ x0 l,
      GenGlue2.SIS_effective_degree odeint odeint exS exI 1 1 0 10 11 false = .ok (x0, l) ∧
      get l 1 0 + get l 2 0 ≠ get l 1 1 + get l 2 1 :=
  ⟨driftOdeint, driftOdeint_zero, _, _, SIS_effective_degree_call driftOdeint driftOdeint exS exI 1 1 0 10 11 false rfl,
    by decide +kernel⟩
/-- error case: `Isi0` with 3 entries against `Ssi0` with 4 -/
example : rowAt (GenGlue2.SIS_effective_degree constOdeint constOdeint exS (Mx.ofLists [[0, 1, 1]]) 1 1 0 10 11 true) 0
    = .inl "ValueError" := by decide +kernel
/-- **surprise**: an `Isi0` of shape `1 × 4` is accepted next to an `Ssi0` of shape `2 × 2` (only the number of entries
is compared) and is returned as a `2 × 2` table -/
example : rowAt (GenGlue2.SIS_effective_degree constOdeint constOdeint exS (Mx.ofLists [[0, 1, 1, 0]]) 1 1 0 10 11 true) 0
    = .inr ([1, 2, 3, 4, 0, 1, 1, 0], [[0], [10], [2], [1, 2, 3, 4], [0, 1, 1, 0]]) := by decide +kernel
/-- `SIR_effective_degree`, `N = 10 + 2 + 1 = 13`; drifting solver at index 2: `S = 18`, `R = 3`, `I = 13 − 3 − 18 = −8`:
`S + I + R = 13` whatever the solver does -/
example : rowAt (GenGlue2.SIR_effective_degree driftOdeint constOdeint exS 2 1 1 1 0 10 11 true) 2
    = .inr ([1, 2, 3, 4, 1], [[2], [18], [-8], [3], [3, 4, 5, 6]]) := by decide +kernel
/-- the empty table is accepted: `X0 = [R0]`, `S = 0`, `I = I0` -/
example : rowAt (GenGlue2.SIR_effective_degree constOdeint constOdeint Mx0 2 1 1 1 0 10 11 true) 0
    = .inr ([1], [[0], [0], [2], [1], []]) := by decide +kernel
/-- **`RowZero` is necessary for the initial-row theorems**: with `shiftOdeint` row 0 is `X0 + 1`, so `S(0) = 14 ≠ 10`,
`R(0) = 2 ≠ 1`, `I(0) = −3 ≠ 2` (and still `S + I + R = 13`) -/
example : rowAt (GenGlue2.SIR_effective_degree shiftOdeint constOdeint exS 2 1 1 1 0 10 11 false) 0
    = .inr ([1, 2, 3, 4, 1], [[0], [14], [-3], [2]]) := by decide +kernel
/-- `EBCM_pref_mix`, keys given unsorted: `IC = [0,1,0,1,0]`; `S, I, R = 90, 10, 0`; `theta = {1: 1, 2: 1}` -/
example : rowAt (GenGlue2.EBCM_pref_mix constOdeint constOdeint exRhs 100 [(2, 1/2), (1, 1/2)] [] 1 1 (some (1/10))
    0 10 11 true) 0 = .inr ([0, 1, 0, 1, 0], [[0], [90], [10], [0], [1, 1]]) := by decide +kernel
/-- drifting solver, index 1: `theta_k = 2`, `S' = 0.9·(2/2 + 4/2) = 2.7`, `R' = 1`: `S + I + R = 270 − 270 + 100 = 100` -/
example : rowAt (GenGlue2.EBCM_pref_mix driftOdeint constOdeint exRhs 100 [(2, 1/2), (1, 1/2)] [] 1 1 (some (1/10))
    0 10 11 false) 1 = .inr ([0, 1, 0, 1, 0], [[1], [270], [-270], [100]]) := by decide +kernel
/-- `rho = None`: `rho = 1/N = 1/100`, `S(0) = 99` -/
example : rowAt (GenGlue2.EBCM_pref_mix constOdeint constOdeint exRhs 100 [(2, 1/2), (1, 1/2)] [] 1 1 none
    0 10 11 false) 0 = .inr ([0, 1, 0, 1, 0], [[0], [99], [1], [0]]) := by decide +kernel
/-- error case: `rho = None`, `N = 0` -/
example : rowAt (GenGlue2.EBCM_pref_mix constOdeint constOdeint exRhs 0 [(2, 1/2), (1, 1/2)] [] 1 1 none
    0 10 11 false) 0 = .inl "ZeroDivisionError" := by decide +kernel
/-- a repeated key (impossible for a Python dict, possible for the association list): no `KeyError`/`IndexError`; `IC`
has `1 + 2·2` entries, `Pk[1]` is the first listed value both times, the dict `theta` has one key -/
example : rowAt (GenGlue2.EBCM_pref_mix constOdeint constOdeint exRhs 100 [(1, 1/2), (1, 1/4)] [] 1 1 (some (1/10))
    0 10 11 true) 0 = .inr ([0, 1, 0, 1, 0], [[0], [90], [10], [0], [1]]) := by decide +kernel
/-- empty `Pk`: `IC = [0]`, `S = 0`, `I = N` -/
example : rowAt (GenGlue2.EBCM_pref_mix constOdeint constOdeint exRhs 100 [] [] 1 1 (some (1/10))
    0 10 11 true) 0 = .inr ([0], [[0], [0], [100], [0], []]) := by decide +kernel
/-- the hypotheses of the spec theorems are satisfiable -/
example : ∃ x0 l, GenGlue2.EBCM_pref_mix constOdeint constOdeint exRhs 100 [(2, 1/2), (1, 1/2)] [] 1 1 none 0 10 11 true
    = .ok (x0, l) ∧ x0.n = 1 + 2 * 2 ∧ l.length = 5 ∧ (∀ i, get l 1 i + get l 2 i + get l 3 i = 100) :=
  let ⟨x0, l, h, a, b, c, _⟩ := EBCM_pref_mix_spec constOdeint constOdeint exRhs 100 [(2, 1/2), (1, 1/2)] [] 1 1 none
    0 10 11 true (Or.inr (by decide +kernel))
  ⟨x0, l, h, a, b, c⟩

end GenGlue3Props

/-! # Part B — heterogeneous pairwise models -/

/-!
C06i (heterogeneous pairwise) — `GenGlue2.SIS_heterogeneous_pairwise` and `GenGlue2.SIR_heterogeneous_pairwise`
(GENERATED from `EoN/analytic.py` into `Gen/OdeGlue2.lean`), for ALL inputs and EVERY pair of solvers.  The right-hand
side is an opaque parameter `rhs`; SIS is solved by `myodeint`, SIR by `odeint`.

SIS: `SIS_het_eq` (the result for ALL inputs, any shapes), `SIS_het_call` (canonical shapes, `X0 = packSIS`),
`SIS_het_error_is_ValueError`, `SIS_het_ok_iff`, `SIS_het_error_lengths`, `SIS_het_error_reshape`,
`SIS_het_conserve` (every normal return), `SIS_het_spec` (conservation, initial state, full data), `SIS_het_composed`.
SIR: `SIR_het_call`, `SIR_het_error_is_ValueError`, `SIR_het_error_lengths`, `SIR_het_error_reshape`, `SIR_het_spec`,
`SIR_het_composed`.  Closed examples (kernel-checked) at the end.
-/
namespace GenGlue3Props
open Gen PyGlue PyGlue2 GenGlue2Proofs
open ODE (sumTo)
open GenGlueProofs (Solver RowZero linspace_zero)

/-! ## 1. `SIS_heterogeneous_pairwise` -/

/-- `Nk = Sk0 + Ik0` (NumPy broadcasting; `K` is the broadcast length) -/
def hetNk (Sk0 Ik0 : V) (K : Nat) : V := ⟨K, fun k => Sk0.f (bidx Sk0.n k) + Ik0.f (bidx Ik0.n k)⟩

/-- `NkNl = SkSl0 + SkIl0 + IkIl0 + SkIl0.T` with NumPy broadcasting (three additions, left to right) -/
def hetNkNl (SS SI II : Mx) : Except String Mx := do
  let t2 ← Mx.op (fun a b => a + b) SS SI
  let t3 ← Mx.op (fun a b => a + b) t2 II
  Mx.op (fun a b => a + b) t3 (Mx.T SI)

/-- row-major flattening `M.reshape(q, 1)[:, 0]` -/
def mflat (q : Nat) (M : Mx) : V := ⟨q, fun j => M.f (j / M.c) (j % M.c)⟩

/-- the `X0` the generated SIS code builds: `concatenate((Sk0[:,None], SkSl0.reshape(K²,1), SkIl0.reshape(K²,1))).T[0]`
(any shapes; `= packSIS` for canonical shapes, `hetX0SIS_pack`) -/
def hetX0SIS (Sk0 : V) (K : Nat) (SS SI : Mx) : V :=
  ⟨Sk0.n + K ^ 2 + K ^ 2, fun j =>
    if j < Sk0.n + K ^ 2 then (if j < Sk0.n then Sk0.f j else SS.f ((j - Sk0.n) / SS.c) ((j - Sk0.n) % SS.c))
    else SI.f ((j - (Sk0.n + K ^ 2)) / SI.c) ((j - (Sk0.n + K ^ 2)) % SI.c)⟩

/-- closed form of the arrays returned by `SIS_heterogeneous_pairwise` as a function of the solution `X`:
`[times, S, I]` and with full data `Sk, Ik, SkIl, SkSl, IkIl`; `Sk = X[:K]`, `Ik = Nk − Sk`, `SkSl = X[K:K+K²]`,
`SkIl = X[K+K²:]`, `IkIl = NkNl − SkSl − SkIl − SkIlᵀ` -/
def outSISHet (T : Nat → Rat) (K : Nat) (Nk : V) (NkNl : Mx) (full : Bool) (X : Nat → V) : List Out :=
  let Sk : Nat → V := fun i => ⟨K, fun k => (X i).f k⟩
  let Ik : Nat → V := fun i => ⟨K, fun k => Nk.f (bidx K k) - (X i).f (bidx K k)⟩
  let SkSl : Nat → V := fun i => ⟨K ^ 2, fun k => (X i).f (K + k)⟩
  let SkIl : Nat → V := fun i => ⟨K ^ 2, fun k => (X i).f (K + K ^ 2 + k)⟩
  let IkIl : Nat → V := fun i => ⟨K * K, fun k =>
    NkNl.f (k / NkNl.c) (k % NkNl.c) - (X i).f (K + k) - (X i).f (K + K ^ 2 + k) - (X i).f (K + K ^ 2 + (k % K * K + k / K))⟩
  if full then
    [Out.s T, Out.s (fun i => sumTo K (X i).f), Out.s (fun i => sumTo K (Ik i).f),
     Out.m K Sk, Out.m K Ik, Out.c K K SkIl, Out.c K K SkSl, Out.c K K IkIl]
  else
    [Out.s T, Out.s (fun i => sumTo K (X i).f), Out.s (fun i => sumTo K (Ik i).f)]

/-- `K ≤ K²` (used to show that the Python slices of `X` are never clamped) -/
theorem le_sq (K : Nat) : K ≤ K ^ 2 := by
  rw [Nat.pow_two]; exact Nat.le_mul_self K

/-- `len(X[0:K]) = K` for `X` of length `n + K² + K²` (any `n`) -/
theorem hsl0 (n K : Nat) : sliceLen (n + K ^ 2 + K ^ 2) 0 K = K := by
  have := le_sq K; simp [sliceLen]; omega
/-- `len(X[K:K+K²]) = K²` for `X` of length `n + K² + K²` -/
theorem hsl1 (n K : Nat) : sliceLen (n + K ^ 2 + K ^ 2) K (K + K ^ 2) = K ^ 2 := by
  have := le_sq K; simp [sliceLen]; omega
/-- `K² = K·K` as a rewrite of the proposition -/
theorem hK2 (K : Nat) : (K ^ 2 = K * K) = True := by
  simp [Nat.pow_two]
/-- `len(X[K+K²:]) = n + K² − K` for `X` of length `n + K² + K²` -/
theorem hsl2 (n K : Nat) : sliceLen (n + K ^ 2 + K ^ 2) (K + K ^ 2) (n + K ^ 2 + K ^ 2) = n + K ^ 2 - K := by
  have := le_sq K; simp [sliceLen]; omega
/-- start of the slice `X[K:…]` (not clamped) -/
theorem hso1 (n K : Nat) : sliceLo (n + K ^ 2 + K ^ 2) K = K := by
  have := le_sq K; simp [sliceLo]; omega
/-- start of the slice `X[K+K²:]` (not clamped) -/
theorem hso2 (n K : Nat) : sliceLo (n + K ^ 2 + K ^ 2) (K + K ^ 2) = K + K ^ 2 := by
  have := le_sq K; simp [sliceLo]; omega
/-- the last slice has `K·K` entries exactly when `Sk0` has `K` entries -/
theorem hcond (n K : Nat) : n + K ^ 2 - K = K * K ↔ n = K := by
  have := le_sq K; rw [← Nat.pow_two]; omega

/-- broadcasting of two lengths either fails with `ValueError` or yields a length -/
theorem bdim_cases (a b : Nat) : bdim a b = .error "ValueError" ∨ ∃ n, bdim a b = .ok n := by
  unfold bdim
  by_cases h1 : a = b
  · exact Or.inr ⟨a, by simp [h1]⟩
  · by_cases h2 : a = 1
    · exact Or.inr ⟨b, by simp [h1, h2]⟩
    · by_cases h3 : b = 1
      · exact Or.inr ⟨a, by simp [h1, h2, h3]⟩
      · exact Or.inl (by simp [h1, h2, h3])

/-- `Ks = None` is `Ks = np.arange(len(Sk0))` (definitional) -/
theorem SIS_het_Ks_none (odeint myodeint : Solver) (rhs : V → Mx → Rat → Rat → V → V → V)
    (Sk0 Ik0 : V) (SS SI II : Mx) (tau gamma tmin tmax : Rat) (tcount : Nat) (full : Bool) :
    GenGlue2.SIS_heterogeneous_pairwise odeint myodeint rhs Sk0 Ik0 SS SI II tau gamma tmin tmax tcount full none
      = GenGlue2.SIS_heterogeneous_pairwise odeint myodeint rhs Sk0 Ik0 SS SI II tau gamma tmin tmax tcount full
          (some (V.arange Sk0.n)) := rfl

/-- SIS, all six broadcasts of `NkNl` and `Sk0 + Ik0` succeed (`hb`, `h1`–`h6`): the two `reshape`s and, with full data, the shape assignments decide between `ValueError` and the closed form `outSISHet` -/
theorem SIS_het_main (odeint myodeint : Solver) (rhs : V → Mx → Rat → Rat → V → V → V)
    (Sk0 Ik0 : V) (SS SI II : Mx) (tau gamma tmin tmax : Rat) (tcount : Nat) (full : Bool) (Ks : V)
    (K r1 c1 r2 c2 r3 c3 : Nat) (hb : bdim Sk0.n Ik0.n = .ok K)
    (h1 : bdim SS.r SI.r = .ok r1) (h2 : bdim SS.c SI.c = .ok c1) (h3 : bdim r1 II.r = .ok r2)
    (h4 : bdim c1 II.c = .ok c2) (h5 : bdim r2 SI.c = .ok r3) (h6 : bdim c2 SI.r = .ok c3) (NkNl : Mx)
    (hN : NkNl = ⟨r3, c3, fun i j =>
      SS.f (bidx SS.r (bidx r1 (bidx r2 i))) (bidx SS.c (bidx c1 (bidx c2 j))) +
      SI.f (bidx SI.r (bidx r1 (bidx r2 i))) (bidx SI.c (bidx c1 (bidx c2 j))) +
      II.f (bidx II.r (bidx r2 i)) (bidx II.c (bidx c2 j)) + SI.f (bidx SI.r j) (bidx SI.c i)⟩) :
    GenGlue2.SIS_heterogeneous_pairwise odeint myodeint rhs Sk0 Ik0 SS SI II tau gamma tmin tmax tcount full (some Ks)
      = if SS.r * SS.c = K ^ 2 ∧ SI.r * SI.c = K ^ 2 ∧ (full = true → Sk0.n = K ∧ r3 = K ∧ c3 = K) then
            .ok (hetX0SIS Sk0 K SS SI, outSISHet (linspace tmin tmax tcount) K (hetNk Sk0 Ik0 K) NkNl full
              (myodeint (fun st => rhs (hetNk Sk0 Ik0 K) NkNl tau gamma Ks st)
                (hetX0SIS Sk0 K SS SI)))
          else .error "ValueError" := by
  subst hN
  unfold GenGlue2.SIS_heterogeneous_pairwise
  by_cases e1 : SS.r * SS.c = K ^ 2
  · by_cases e2 : SI.r * SI.c = K ^ 2
    · cases full
      · simp [vop, Mx.op, Mx.T, hb, h1, h2, h3, h4, h5, h6, e1, e2, Mx.reshape, Mx.col, Mx.vcat, Mx.getRow,
          vslice, vsum, hsl0, hsl1, hsl2, hso1, hso2, hcond, hetX0SIS, outSISHet, hetNk]
      · by_cases e3 : Sk0.n = K
        · cases Sk0 with
          | mk n0 f0 =>
            simp only at e3
            subst e3
            by_cases e4 : r3 = n0
            · by_cases e5 : c3 = n0
              · subst e4 e5
                simp [vop, Mx.op, Mx.T, hb, h1, h2, h3, h4, h5, h6, e1, e2, Mx.reshape, Mx.col, Mx.vcat, Mx.getRow,
                  vslice, vsum, hsl0, hsl1, hsl2, hso1, hso2, hcond, hetX0SIS, outSISHet, hetNk, hK2]
              · simp [vop, Mx.op, Mx.T, hb, h1, h2, h3, h4, h5, h6, e1, e2, e4, e5, Mx.reshape, Mx.col, Mx.vcat, Mx.getRow,
                  vslice, vsum, hsl0, hsl1, hsl2, hso1, hso2, hcond, hK2]
            · simp [vop, Mx.op, Mx.T, hb, h1, h2, h3, h4, h5, h6, e1, e2, e4, Mx.reshape, Mx.col, Mx.vcat, Mx.getRow,
                  vslice, vsum, hsl0, hsl1, hsl2, hso1, hso2, hcond, hK2]
        · simp [vop, Mx.op, Mx.T, hb, h1, h2, h3, h4, h5, h6, e1, e2, e3, Mx.reshape, Mx.col, Mx.vcat, Mx.getRow,
                vslice, vsum, hsl0, hsl1, hsl2, hso1, hso2, hcond]
    · simp [vop, Mx.op, Mx.T, hb, h1, h2, h3, h4, h5, h6, e1, e2, Mx.reshape]
  · simp [vop, Mx.op, Mx.T, hb, h1, h2, h3, h4, h5, h6, e1, Mx.reshape]

/-- **SIS, the result for ALL inputs** (any shapes, every solver, every `rhs`): with `K` the broadcast length of `Sk0 + Ik0` and `NkNl = hetNkNl …`, the call returns `.ok (X0, outSISHet … (myodeint (rhs Nk NkNl tau gamma Ks) X0))` iff both tables have `K²` entries and (full data only) `len(Sk0) = K` and `NkNl` is `K × K`; in every other case `ValueError`.  `rhs` receives `Nk = Sk0 + Ik0`, `NkNl = SkSl0 + SkIl0 + IkIl0 + SkIl0ᵀ`, `tau`, `gamma`, `Ks` (default `arange(len(Sk0))`); `len(Ks)` is never checked by this function -/
theorem SIS_het_eq (odeint myodeint : Solver) (rhs : V → Mx → Rat → Rat → V → V → V)
    (Sk0 Ik0 : V) (SS SI II : Mx) (tau gamma tmin tmax : Rat) (tcount : Nat) (full : Bool) (Ks : Option V) :
    GenGlue2.SIS_heterogeneous_pairwise odeint myodeint rhs Sk0 Ik0 SS SI II tau gamma tmin tmax tcount full Ks
      = match bdim Sk0.n Ik0.n, hetNkNl SS SI II with
        | .ok K, .ok NkNl =>
          if SS.r * SS.c = K ^ 2 ∧ SI.r * SI.c = K ^ 2 ∧ (full = true → Sk0.n = K ∧ NkNl.r = K ∧ NkNl.c = K) then
            .ok (hetX0SIS Sk0 K SS SI, outSISHet (linspace tmin tmax tcount) K (hetNk Sk0 Ik0 K) NkNl full
              (myodeint (fun st => rhs (hetNk Sk0 Ik0 K) NkNl tau gamma (Ks.getD (V.arange Sk0.n)) st)
                (hetX0SIS Sk0 K SS SI)))
          else .error "ValueError"
        | _, _ => .error "ValueError" := by
  have key : ∀ Ks : V,
      GenGlue2.SIS_heterogeneous_pairwise odeint myodeint rhs Sk0 Ik0 SS SI II tau gamma tmin tmax tcount full (some Ks)
      = match bdim Sk0.n Ik0.n, hetNkNl SS SI II with
        | .ok K, .ok NkNl =>
          if SS.r * SS.c = K ^ 2 ∧ SI.r * SI.c = K ^ 2 ∧ (full = true → Sk0.n = K ∧ NkNl.r = K ∧ NkNl.c = K) then
            .ok (hetX0SIS Sk0 K SS SI, outSISHet (linspace tmin tmax tcount) K (hetNk Sk0 Ik0 K) NkNl full
              (myodeint (fun st => rhs (hetNk Sk0 Ik0 K) NkNl tau gamma Ks st)
                (hetX0SIS Sk0 K SS SI)))
          else .error "ValueError"
        | _, _ => .error "ValueError" := by
    intro Ks
    obtain hb | ⟨K, hb⟩ := bdim_cases Sk0.n Ik0.n
    · simp [GenGlue2.SIS_heterogeneous_pairwise, vop, hb]
    obtain h1 | ⟨r1, h1⟩ := bdim_cases SS.r SI.r
    · simp [GenGlue2.SIS_heterogeneous_pairwise, hetNkNl, vop, Mx.op, hb, h1]
    obtain h2 | ⟨c1, h2⟩ := bdim_cases SS.c SI.c
    · simp [GenGlue2.SIS_heterogeneous_pairwise, hetNkNl, vop, Mx.op, hb, h1, h2]
    obtain h3 | ⟨r2, h3⟩ := bdim_cases r1 II.r
    · simp [GenGlue2.SIS_heterogeneous_pairwise, hetNkNl, vop, Mx.op, hb, h1, h2, h3]
    obtain h4 | ⟨c2, h4⟩ := bdim_cases c1 II.c
    · simp [GenGlue2.SIS_heterogeneous_pairwise, hetNkNl, vop, Mx.op, hb, h1, h2, h3, h4]
    obtain h5 | ⟨r3, h5⟩ := bdim_cases r2 SI.c
    · simp [GenGlue2.SIS_heterogeneous_pairwise, hetNkNl, vop, Mx.op, Mx.T, hb, h1, h2, h3, h4, h5]
    obtain h6 | ⟨c3, h6⟩ := bdim_cases c2 SI.r
    · simp [GenGlue2.SIS_heterogeneous_pairwise, hetNkNl, vop, Mx.op, Mx.T, hb, h1, h2, h3, h4, h5, h6]
    rw [SIS_het_main odeint myodeint rhs Sk0 Ik0 SS SI II tau gamma tmin tmax tcount full Ks K r1 c1 r2 c2 r3 c3
      hb h1 h2 h3 h4 h5 h6 _ rfl]
    simp [hetNkNl, Mx.op, Mx.T, hb, h1, h2, h3, h4, h5, h6]
  cases Ks with
  | none => rw [SIS_het_Ks_none, key]; rfl
  | some Ks => exact key Ks
/-- for `K × K` tables no broadcast fails: `NkNl` is `K × K` with entries `SkSl0 + SkIl0 + IkIl0 + SkIl0ᵀ` -/
theorem hetNkNl_square (SS SI II : Mx) (K : Nat) (h1 : SS.r = K) (h2 : SS.c = K) (h3 : SI.r = K) (h4 : SI.c = K)
    (h5 : II.r = K) (h6 : II.c = K) :
    ∃ M, hetNkNl SS SI II = .ok M ∧ M.r = K ∧ M.c = K ∧
      ∀ i j, i < K → j < K → M.f i j = SS.f i j + SI.f i j + II.f i j + SI.f j i := by
  refine ⟨_, by simp [hetNkNl, Mx.op, Mx.T, h1, h2, h3, h4, h5, h6]; rfl, rfl, rfl, ?_⟩
  intro i j hi hj
  simp [bidx_lt K i hi, bidx_lt K j hj]

/-- for canonical shapes the `X0` built by the generated code IS `GenEqMat.packSIS` (equality of vectors) -/
theorem hetX0SIS_pack (Sk0 : V) (K : Nat) (SS SI : Mx) (h0 : Sk0.n = K) (h2 : SS.c = K) (h4 : SI.c = K) :
    hetX0SIS Sk0 K SS SI = GenEqMat.packSIS K Sk0.f SS.f SI.f := by
  unfold hetX0SIS GenEqMat.packSIS V.append
  rw [h0, h2, h4]
  simp only [Nat.add_assoc]
  congr 1
  funext j
  by_cases a : j < K
  · have b : j < K + K ^ 2 := by omega
    simp [a, b]
  · by_cases b : j < K + K ^ 2
    · have c : j - K < K ^ 2 := by omega
      simp [a, b, c]
    · have c : ¬ j - K < K ^ 2 := by omega
      have d : j - K - K ^ 2 = j - (K + K ^ 2) := by omega
      simp [a, b, c, d]

/-- **SIS call, canonical shapes** (`Sk0`, `Ik0` of length `K`, the three tables `K × K`; NO hypothesis on `Ks`, whose length the function never inspects): no exception; `X0 = GenEqMat.packSIS K Sk0 SkSl0 SkIl0`; `myodeint` solves `rhs Nk NkNl tau gamma Ks` with `Nk_k = Sk0_k + Ik0_k`, `NkNl_kl = SkSl0_kl + SkIl0_kl + IkIl0_kl + SkIl0_lk`, `Ks` defaulting to `arange K`; the returned arrays are `outSISHet` of the solution -/
theorem SIS_het_call (odeint myodeint : Solver) (rhs : V → Mx → Rat → Rat → V → V → V)
    (Sk0 Ik0 : V) (SS SI II : Mx) (tau gamma tmin tmax : Rat) (tcount : Nat) (full : Bool) (Ks : Option V) (K : Nat)
    (hS : Sk0.n = K) (hI : Ik0.n = K) (h1 : SS.r = K) (h2 : SS.c = K) (h3 : SI.r = K) (h4 : SI.c = K)
    (h5 : II.r = K) (h6 : II.c = K) :
    ∃ NkNl, hetNkNl SS SI II = .ok NkNl ∧ NkNl.r = K ∧ NkNl.c = K ∧
      (∀ k l, k < K → l < K → NkNl.f k l = SS.f k l + SI.f k l + II.f k l + SI.f l k) ∧
      (hetNk Sk0 Ik0 K).n = K ∧ (∀ k, k < K → (hetNk Sk0 Ik0 K).f k = Sk0.f k + Ik0.f k) ∧
      GenGlue2.SIS_heterogeneous_pairwise odeint myodeint rhs Sk0 Ik0 SS SI II tau gamma tmin tmax tcount full Ks
        = .ok (GenEqMat.packSIS K Sk0.f SS.f SI.f,
            outSISHet (linspace tmin tmax tcount) K (hetNk Sk0 Ik0 K) NkNl full
              (myodeint (fun st => rhs (hetNk Sk0 Ik0 K) NkNl tau gamma (Ks.getD (V.arange K)) st)
                (GenEqMat.packSIS K Sk0.f SS.f SI.f))) := by
  obtain ⟨M, hM, hr, hc, hf⟩ := hetNkNl_square SS SI II K h1 h2 h3 h4 h5 h6
  refine ⟨M, hM, hr, hc, hf, rfl, ?_, ?_⟩
  · intro k hk
    simp [hetNk, hS, hI, bidx_lt K k hk]
  · have hb : bdim Sk0.n Ik0.n = .ok K := by rw [hS, hI, bdim_self]
    have hsq : K * K = K ^ 2 := (Nat.pow_two K).symm
    rw [SIS_het_eq, hb, hM]
    simp only [h1, h2, h3, h4, hsq, hS, hr, hc, and_self, implies_true, if_true, hetX0SIS_pack Sk0 K SS SI hS h2 h4]

/-- **SIS**: whatever the inputs, the only exception is `ValueError` (broadcasting `bdim`, `reshape`, shape assignment); the `TypeError`/`IndexError` branches of the generated code are unreachable -/
theorem SIS_het_error_is_ValueError (odeint myodeint : Solver) (rhs : V → Mx → Rat → Rat → V → V → V)
    (Sk0 Ik0 : V) (SS SI II : Mx) (tau gamma tmin tmax : Rat) (tcount : Nat) (full : Bool) (Ks : Option V) (e : String)
    (h : GenGlue2.SIS_heterogeneous_pairwise odeint myodeint rhs Sk0 Ik0 SS SI II tau gamma tmin tmax tcount full Ks
      = .error e) : e = "ValueError" := by
  rw [SIS_het_eq] at h
  split at h
  · split at h
    · cases h
    · injection h with h; exact h.symm
  · injection h with h; exact h.symm

/-- **SIS, exact domain of normal return**: `Sk0 + Ik0` broadcasts to length `K`, `NkNl` broadcasts, both tables have `K²` entries, and with full data `len(Sk0) = K` and `NkNl` is `K × K`.  Length-1 `Sk0`/`Ik0` and `1 × 1`, `1 × K`, `K × 1` tables `IkIl0` are therefore accepted (examples at the end) -/
theorem SIS_het_ok_iff (odeint myodeint : Solver) (rhs : V → Mx → Rat → Rat → V → V → V)
    (Sk0 Ik0 : V) (SS SI II : Mx) (tau gamma tmin tmax : Rat) (tcount : Nat) (full : Bool) (Ks : Option V) :
    (∃ r, GenGlue2.SIS_heterogeneous_pairwise odeint myodeint rhs Sk0 Ik0 SS SI II tau gamma tmin tmax tcount full Ks
      = .ok r) ↔
    ∃ K NkNl, bdim Sk0.n Ik0.n = .ok K ∧ hetNkNl SS SI II = .ok NkNl ∧ SS.r * SS.c = K ^ 2 ∧ SI.r * SI.c = K ^ 2 ∧
      (full = true → Sk0.n = K ∧ NkNl.r = K ∧ NkNl.c = K) := by
  rw [SIS_het_eq]
  constructor
  · rintro ⟨r, h⟩
    split at h
    · rename_i K M hb hM
      split at h
      · rename_i hc
        exact ⟨K, M, hb, hM, hc⟩
      · cases h
    · cases h
  · rintro ⟨K, M, hb, hM, hc⟩
    rw [hb, hM]
    exact ⟨_, if_pos hc⟩

/-- a broadcast index is the identity below the length -/
theorem sumTo_bidx (K : Nat) (f : Nat → Rat) : sumTo K (fun k => f (bidx K k)) = sumTo K f :=
  ODE.sumTo_congr _ _ _ (fun k hk => by rw [bidx_lt K k hk])

/-- `S + I = Σ Nk` at every time index, for ANY solution `X` (because `Ik = Nk − Sk`) -/
theorem outSISHet_conserve (T : Nat → Rat) (K : Nat) (Nk : V) (NkNl : Mx) (full : Bool) (X : Nat → V) (i : Nat) :
    get (outSISHet T K Nk NkNl full X) 1 i + get (outSISHet T K Nk NkNl full X) 2 i = sumTo K Nk.f := by
  have e : sumTo K (fun k => Nk.f (bidx K k) - (X i).f (bidx K k)) = sumTo K Nk.f - sumTo K (X i).f := by
    rw [← GenGlueProofs.sumTo_sub]
    exact ODE.sumTo_congr _ _ _ (fun k hk => by rw [bidx_lt K k hk])
  cases full <;> simp only [outSISHet, Bool.false_eq_true, if_false, if_true, get_succ, get_zero_s] <;> rw [e] <;> ring

/-- full data: declared shapes, `S_k + I_k = Nk_k`, `S`/`I` are the class sums, and entrywise `IkIl = NkNl − SkSl − SkIl − SkIlᵀ` (row-major position `k·K + m`; needs `NkNl.c = K` for the row-major reading of `NkNl`) -/
theorem outSISHet_full (T : Nat → Rat) (K : Nat) (Nk : V) (NkNl : Mx) (X : Nat → V) (i : Nat) (hc : NkNl.c = K) :
    let l := outSISHet T K Nk NkNl true X
    l.length = 8 ∧ getN l 3 = K ∧ getN l 4 = K ∧ getN l 5 = K * K ∧ getN l 6 = K * K ∧ getN l 7 = K * K ∧
    (∀ k, k < K → getM l 3 i k + getM l 4 i k = Nk.f k) ∧
    get l 1 i = sumTo K (getM l 3 i) ∧ get l 2 i = sumTo K (getM l 4 i) ∧
    (∀ k m, k < K → m < K → getM l 7 i (k * K + m)
      = NkNl.f k m - getM l 6 i (k * K + m) - getM l 5 i (k * K + m) - getM l 5 i (m * K + k)) := by
  refine ⟨rfl, rfl, rfl, rfl, rfl, rfl, fun k hk => ?_, rfl, rfl, fun k m hk hm => ?_⟩
  · simp only [outSISHet, if_true, getM, getV_succ, getV_zero_m, bidx_lt K k hk]; ring
  · simp only [outSISHet, if_true, getM, getV_succ, getV_zero_c, hc, GenEqMat.rm_div K k m hm, GenEqMat.rm_mod K k m hm]

/-- a solution starting at `packSIS K S SS SI`: `S(0) = ΣS`, `I(0) = ΣNk − ΣS` -/
theorem outSISHet_init (T : Nat → Rat) (K : Nat) (Nk : V) (NkNl : Mx) (full : Bool) (X : Nat → V)
    (S : Nat → Rat) (SS SI : Nat → Nat → Rat) (hX : X 0 = GenEqMat.packSIS K S SS SI) :
    get (outSISHet T K Nk NkNl full X) 1 0 = sumTo K S ∧
    get (outSISHet T K Nk NkNl full X) 2 0 = sumTo K Nk.f - sumTo K S := by
  have hc := outSISHet_conserve T K Nk NkNl full X 0
  have h1 : get (outSISHet T K Nk NkNl full X) 1 0 = sumTo K S := by
    cases full <;> simp only [outSISHet, Bool.false_eq_true, if_false, if_true, get_succ, get_zero_s, hX] <;>
      exact ODE.sumTo_congr _ _ _ (fun k hk => V.append_f_lt _ _ k hk)
  refine ⟨h1, ?_⟩
  rw [h1] at hc; linarith

/-- full data at time index 0 for a solution starting at `packSIS K S SS SI` -/
theorem outSISHet_init_full (T : Nat → Rat) (K : Nat) (Nk : V) (NkNl : Mx) (X : Nat → V)
    (S : Nat → Rat) (SS SI : Nat → Nat → Rat) (hX : X 0 = GenEqMat.packSIS K S SS SI) (hc : NkNl.c = K) :
    let l := outSISHet T K Nk NkNl true X
    (∀ k, k < K → getM l 3 0 k = S k ∧ getM l 4 0 k = Nk.f k - S k) ∧
    (∀ k m, k < K → m < K → getM l 6 0 (k * K + m) = SS k m ∧ getM l 5 0 (k * K + m) = SI k m ∧
      getM l 7 0 (k * K + m) = NkNl.f k m - SS k m - SI k m - SI m k) := by
  refine ⟨fun k hk => ?_, fun k m hk hm => ?_⟩
  · simp only [outSISHet, if_true, getM, getV_succ, getV_zero_m, bidx_lt K k hk, hX]
    rw [show (GenEqMat.packSIS K S SS SI).f k = S k from V.append_f_lt _ _ k hk]
    exact ⟨rfl, rfl⟩
  · have a := GenEqMat.packSIS_SS K S SS SI k m hk hm
    have b := GenEqMat.packSIS_SI K S SS SI k m hk hm
    have c := GenEqMat.packSIS_SI K S SS SI m k hm hk
    simp only [outSISHet, if_true, getM, getV_succ, getV_zero_c, hX, hc, GenEqMat.rm_div K k m hm,
      GenEqMat.rm_mod K k m hm, a, b, c]
    exact ⟨trivial, trivial, trivial⟩

/-- SIS: lengths of `Sk0`, `Ik0` that differ and are both `≠ 1`: `ValueError` (from `Sk0 + Ik0`) -/
theorem SIS_het_error_lengths (odeint myodeint : Solver) (rhs : V → Mx → Rat → Rat → V → V → V)
    (Sk0 Ik0 : V) (SS SI II : Mx) (tau gamma tmin tmax : Rat) (tcount : Nat) (full : Bool) (Ks : Option V)
    (h1 : Sk0.n ≠ Ik0.n) (h2 : Sk0.n ≠ 1) (h3 : Ik0.n ≠ 1) :
    GenGlue2.SIS_heterogeneous_pairwise odeint myodeint rhs Sk0 Ik0 SS SI II tau gamma tmin tmax tcount full Ks
      = .error "ValueError" := by
  rw [SIS_het_eq, bdim_error _ _ h1 h2 h3]

/-- SIS: a table `SkSl0` or `SkIl0` whose number of entries is not `K²` (`K` = broadcast length of `Sk0 + Ik0`):
`ValueError` (from `reshape`, or earlier from a broadcasting failure) -/
theorem SIS_het_error_reshape (odeint myodeint : Solver) (rhs : V → Mx → Rat → Rat → V → V → V)
    (Sk0 Ik0 : V) (SS SI II : Mx) (tau gamma tmin tmax : Rat) (tcount : Nat) (full : Bool) (Ks : Option V) (K : Nat)
    (hb : bdim Sk0.n Ik0.n = .ok K) (h : SS.r * SS.c ≠ K ^ 2 ∨ SI.r * SI.c ≠ K ^ 2) :
    GenGlue2.SIS_heterogeneous_pairwise odeint myodeint rhs Sk0 Ik0 SS SI II tau gamma tmin tmax tcount full Ks
      = .error "ValueError" := by
  rw [SIS_het_eq, hb]
  split
  · rename_i K' M hb' hM
    injection hb' with hb'
    subst hb'
    rw [if_neg]
    rintro ⟨a, b, -⟩
    rcases h with h | h
    · exact h a
    · exact h b
  · rfl

/-- `Σ Nk = Σ Sk0 + Σ Ik0` when both have length `K` (false under broadcasting) -/
theorem hetNk_sum (Sk0 Ik0 : V) (K : Nat) (hS : Sk0.n = K) (hI : Ik0.n = K) :
    sumTo K (hetNk Sk0 Ik0 K).f = sumTo K Sk0.f + sumTo K Ik0.f := by
  rw [← ODE.sumTo_add]
  exact ODE.sumTo_congr _ _ _ (fun k hk => by simp [hetNk, hS, hI, bidx_lt K k hk])

/-- **SIS conservation for EVERY normal return** (any accepted shapes, every solver): `S + I = Σ Nk` at every time
index with `Nk` the broadcast sum; `= Σ Sk0 + Σ Ik0` when `len(Sk0) = len(Ik0)` (needed: see the broadcasting example) -/
theorem SIS_het_conserve (odeint myodeint : Solver) (rhs : V → Mx → Rat → Rat → V → V → V)
    (Sk0 Ik0 : V) (SS SI II : Mx) (tau gamma tmin tmax : Rat) (tcount : Nat) (full : Bool) (Ks : Option V)
    (x0 : V) (l : List Out)
    (h : GenGlue2.SIS_heterogeneous_pairwise odeint myodeint rhs Sk0 Ik0 SS SI II tau gamma tmin tmax tcount full Ks
      = .ok (x0, l)) :
    ∃ K, bdim Sk0.n Ik0.n = .ok K ∧ (∀ i, get l 1 i + get l 2 i = sumTo K (hetNk Sk0 Ik0 K).f) ∧
      (Sk0.n = Ik0.n → ∀ i, get l 1 i + get l 2 i = sumTo Sk0.n Sk0.f + sumTo Ik0.n Ik0.f) := by
  rw [SIS_het_eq] at h
  split at h
  · rename_i K M hb hM
    split at h
    · have h' := ok_inj h
      have hl : l = _ := (congrArg Prod.snd h').symm
      refine ⟨K, hb, fun i => ?_, fun hn i => ?_⟩
      · rw [hl]; exact outSISHet_conserve _ _ _ _ _ _ i
      · have hK : Sk0.n = K := by
          rw [← hn, bdim_self] at hb
          injection hb
        rw [hl, outSISHet_conserve, ← hn, hK, hetNk_sum Sk0 Ik0 K hK (hn ▸ hK)]
    · cases h
  · cases h
/-- **SIS, canonical shapes: conservation, initial state, full data.**  `S + I = ΣSk0 + ΣIk0` at EVERY time index for
EVERY solver; with `RowZero myodeint` (the solver actually called) `S(0) = ΣSk0`, `I(0) = ΣIk0`; full data: shapes,
`S_k + I_k = Sk0_k + Ik0_k`, `IkIl + SkSl + SkIl + SkIlᵀ = SkSl0 + SkIl0 + IkIl0 + SkIl0ᵀ` entrywise at every time index,
and at index 0 the series are the given `Sk0, Ik0, SkSl0, SkIl0, IkIl0` -/
theorem SIS_het_spec (odeint myodeint : Solver) (rhs : V → Mx → Rat → Rat → V → V → V)
    (Sk0 Ik0 : V) (SS SI II : Mx) (tau gamma tmin tmax : Rat) (tcount : Nat) (full : Bool) (Ks : Option V) (K : Nat)
    (hS : Sk0.n = K) (hI : Ik0.n = K) (h1 : SS.r = K) (h2 : SS.c = K) (h3 : SI.r = K) (h4 : SI.c = K)
    (h5 : II.r = K) (h6 : II.c = K) :
    ∃ l, GenGlue2.SIS_heterogeneous_pairwise odeint myodeint rhs Sk0 Ik0 SS SI II tau gamma tmin tmax tcount full Ks
        = .ok (GenEqMat.packSIS K Sk0.f SS.f SI.f, l) ∧
      l.length = (if full then 8 else 3) ∧
      (∀ i, get l 0 i = linspace tmin tmax tcount i) ∧
      (∀ i, get l 1 i + get l 2 i = sumTo K Sk0.f + sumTo K Ik0.f) ∧
      (RowZero myodeint → get l 1 0 = sumTo K Sk0.f ∧ get l 2 0 = sumTo K Ik0.f) ∧
      (full = true →
        getN l 3 = K ∧ getN l 4 = K ∧ getN l 5 = K * K ∧ getN l 6 = K * K ∧ getN l 7 = K * K ∧
        (∀ i, get l 1 i = sumTo K (getM l 3 i) ∧ get l 2 i = sumTo K (getM l 4 i)) ∧
        (∀ i k, k < K → getM l 3 i k + getM l 4 i k = Sk0.f k + Ik0.f k) ∧
        (∀ i k m, k < K → m < K → getM l 7 i (k * K + m) + getM l 6 i (k * K + m) + getM l 5 i (k * K + m)
          + getM l 5 i (m * K + k) = SS.f k m + SI.f k m + II.f k m + SI.f m k) ∧
        (RowZero myodeint →
          (∀ k, k < K → getM l 3 0 k = Sk0.f k ∧ getM l 4 0 k = Ik0.f k) ∧
          (∀ k m, k < K → m < K → getM l 6 0 (k * K + m) = SS.f k m ∧ getM l 5 0 (k * K + m) = SI.f k m ∧
            getM l 7 0 (k * K + m) = II.f k m))) := by
  obtain ⟨M, hM, hr, hc, hf, -, hNk, hcall⟩ := SIS_het_call odeint myodeint rhs Sk0 Ik0 SS SI II tau gamma tmin tmax
    tcount full Ks K hS hI h1 h2 h3 h4 h5 h6
  refine ⟨_, hcall, by cases full <;> rfl, fun i => by cases full <;> rfl, fun i => ?_, fun h0 => ?_, fun hfull => ?_⟩
  · rw [outSISHet_conserve, hetNk_sum Sk0 Ik0 K hS hI]
  · obtain ⟨a, b⟩ := outSISHet_init (linspace tmin tmax tcount) K (hetNk Sk0 Ik0 K) M full _ Sk0.f SS.f SI.f (h0 _ _)
    refine ⟨a, ?_⟩
    rw [b, hetNk_sum Sk0 Ik0 K hS hI]; ring
  · subst hfull
    obtain ⟨-, n3, n4, n5, n6, n7, hk, s1, s2, hII⟩ := outSISHet_full (linspace tmin tmax tcount) K (hetNk Sk0 Ik0 K) M
      (myodeint (fun st => rhs (hetNk Sk0 Ik0 K) M tau gamma (Ks.getD (V.arange K)) st)
        (GenEqMat.packSIS K Sk0.f SS.f SI.f)) 0 hc
    refine ⟨n3, n4, n5, n6, n7, fun i => ?_, fun i k hk => ?_, fun i k m hk hm => ?_, fun h0 => ?_⟩
    · obtain ⟨-, -, -, -, -, -, -, s1, s2, -⟩ := outSISHet_full (linspace tmin tmax tcount) K (hetNk Sk0 Ik0 K) M
        (myodeint (fun st => rhs (hetNk Sk0 Ik0 K) M tau gamma (Ks.getD (V.arange K)) st)
          (GenEqMat.packSIS K Sk0.f SS.f SI.f)) i hc
      exact ⟨s1, s2⟩
    · obtain ⟨-, -, -, -, -, -, hk', -, -, -⟩ := outSISHet_full (linspace tmin tmax tcount) K (hetNk Sk0 Ik0 K) M
        (myodeint (fun st => rhs (hetNk Sk0 Ik0 K) M tau gamma (Ks.getD (V.arange K)) st)
          (GenEqMat.packSIS K Sk0.f SS.f SI.f)) i hc
      rw [hk' k hk, hNk k hk]
    · obtain ⟨-, -, -, -, -, -, -, -, -, hII'⟩ := outSISHet_full (linspace tmin tmax tcount) K (hetNk Sk0 Ik0 K) M
        (myodeint (fun st => rhs (hetNk Sk0 Ik0 K) M tau gamma (Ks.getD (V.arange K)) st)
          (GenEqMat.packSIS K Sk0.f SS.f SI.f)) i hc
      rw [hII' k m hk hm, hf k m hk hm]; ring
    · obtain ⟨a, b⟩ := outSISHet_init_full (linspace tmin tmax tcount) K (hetNk Sk0 Ik0 K) M _ Sk0.f SS.f SI.f
        (h0 (fun st => rhs (hetNk Sk0 Ik0 K) M tau gamma (Ks.getD (V.arange K)) st)
          (GenEqMat.packSIS K Sk0.f SS.f SI.f)) hc
      refine ⟨fun k hk => ?_, fun k m hk hm => ?_⟩
      · obtain ⟨x, y⟩ := a k hk
        refine ⟨x, ?_⟩
        rw [y, hNk k hk]; ring
      · obtain ⟨x, y, z⟩ := b k m hk hm
        refine ⟨x, y, ?_⟩
        rw [z, hf k m hk hm]; ring

/-- adapter: the generated SIS right-hand side (`X` first) in the parameter order of the driver (`X` last, `NkNl` an `Mx`) -/
def rhsSIS : V → Mx → Rat → Rat → V → V → V :=
  fun Nk NkNl tau gamma Ks st => GenMat.dSIS_heterogeneous_pairwise st Nk NkNl.f tau gamma Ks

/-- **SIS composed with the generated right-hand side** (`rhsSIS` = `GenMat.dSIS_heterogeneous_pairwise` in the driver's argument order; now `Ks = None` or `len(Ks) = K` is needed, because the generated right-hand side takes `kcount = len(Ks)`): the function solved by `myodeint` is, on every packed state, the model `ODE.sisHetPW K tau gamma Ks Nk NkNl` (`GenMatProps.gen_sisHetPW`) -/
theorem SIS_het_composed (odeint myodeint : Solver)
    (Sk0 Ik0 : V) (SS SI II : Mx) (tau gamma tmin tmax : Rat) (tcount : Nat) (full : Bool) (Ks : Option V) (K : Nat)
    (hS : Sk0.n = K) (hI : Ik0.n = K) (h1 : SS.r = K) (h2 : SS.c = K) (h3 : SI.r = K) (h4 : SI.c = K)
    (h5 : II.r = K) (h6 : II.c = K) (hK : ∀ ks, Ks = some ks → ks.n = K) :
    ∃ (Nk KsF : Nat → Rat) (NkNl : Nat → Nat → Rat),
      GenGlue2.SIS_heterogeneous_pairwise odeint myodeint rhsSIS Sk0 Ik0 SS SI II tau gamma tmin tmax tcount full Ks
        = .ok (GenEqMat.packSIS K Sk0.f SS.f SI.f,
            outSISHet (linspace tmin tmax tcount) K ⟨K, Nk⟩ ⟨K, K, NkNl⟩ full
              (myodeint (fun st => GenMat.dSIS_heterogeneous_pairwise st ⟨K, Nk⟩ NkNl tau gamma ⟨K, KsF⟩)
                (GenEqMat.packSIS K Sk0.f SS.f SI.f))) ∧
      (∀ k, k < K → Nk k = Sk0.f k + Ik0.f k) ∧
      (∀ k m, k < K → m < K → NkNl k m = SS.f k m + SI.f k m + II.f k m + SI.f m k) ∧
      (∀ k, KsF k = (Ks.getD (V.arange K)).f k) ∧
      ∀ (S : Nat → Rat) (SS' SI' : Nat → Nat → Rat),
        let r := GenMat.dSIS_heterogeneous_pairwise (GenEqMat.packSIS K S SS' SI') ⟨K, Nk⟩ NkNl tau gamma ⟨K, KsF⟩
        let m := ODE.sisHetPW K tau gamma KsF Nk NkNl S SS' SI'
        r.n = K + K ^ 2 + K ^ 2 ∧ (∀ k, k < K → r.f k = m.1 k) ∧
        ∀ k l, k < K → l < K →
          r.f (K + (k * K + l)) = m.2.1 k l ∧ r.f (K + K ^ 2 + (k * K + l)) = m.2.2 k l := by
  obtain ⟨M, hM, hr, hc, hf, -, hNk, hcall⟩ := SIS_het_call odeint myodeint rhsSIS Sk0 Ik0 SS SI II tau gamma tmin tmax
    tcount full Ks K hS hI h1 h2 h3 h4 h5 h6
  obtain ⟨Mr, Mc, Mf⟩ := M
  simp only at hr hc hf
  subst hr hc
  have hKs : (Ks.getD (V.arange Mc)) = ⟨Mc, (Ks.getD (V.arange Mc)).f⟩ := by
    cases Ks with
    | none => rfl
    | some ks => have := hK ks rfl; cases ks; simp only at this; subst this; rfl
  rw [hKs] at hcall
  exact ⟨(hetNk Sk0 Ik0 Mc).f, (Ks.getD (V.arange Mc)).f, Mf, hcall, hNk, hf, fun _ => rfl,
    fun S SS' SI' => GenMatProps.gen_sisHetPW Mc tau gamma _ _ Mf S SS' SI'⟩

/-! ## 2. `SIR_heterogeneous_pairwise` -/

/-- `len(X[0:K]) = K`, `X` of length `K + K + q + q` -/
theorem q_sl0 (K q : Nat) : sliceLen (K + K + q + q) 0 K = K := by simp [sliceLen]; omega
/-- `len(X[K:2K]) = K` -/
theorem q_sl1 (K q : Nat) : sliceLen (K + K + q + q) K (2 * K) = K := by simp [sliceLen]; omega
/-- `len(X[2K:2K+q]) = q` -/
theorem q_sl2 (K q : Nat) : sliceLen (K + K + q + q) (2 * K) (2 * K + q) = q := by simp [sliceLen]; omega
/-- `len(X[2K+q:2K+2q]) = q` -/
theorem q_sl3 (K q : Nat) : sliceLen (K + K + q + q) (2 * K + q) (2 * K + 2 * q) = q := by simp [sliceLen]; omega
/-- start of `X[K:…]` -/
theorem q_so1 (K q : Nat) : sliceLo (K + K + q + q) K = K := by simp [sliceLo]; omega
/-- start of `X[2K:…]` -/
theorem q_so2 (K q : Nat) : sliceLo (K + K + q + q) (2 * K) = 2 * K := by simp [sliceLo]; omega
/-- start of `X[2K+q:…]` -/
theorem q_so3 (K q : Nat) : sliceLo (K + K + q + q) (2 * K + q) = 2 * K + q := by simp [sliceLo]; omega


/-- `Nk = Sk0 + Ik0 + Rk0` for three arrays of length `K` -/
def hetNk3 (Sk0 Ik0 Rk0 : V) (K : Nat) : V :=
  ⟨K, fun k => Sk0.f (bidx K (bidx K k)) + Ik0.f (bidx K (bidx K k)) + Rk0.f (bidx K k)⟩

/-- the `X0` the generated SIR code builds (canonical shapes) -/
def hetX0SIR (Sk0 Ik0 : V) (K : Nat) (SS SI : Mx) : V :=
  ⟨K + K + K ^ 2 + K ^ 2, fun j =>
    if j < K + K + K ^ 2 then
      (if j < K + K then (if j < K then Sk0.f j else Ik0.f (j - K))
       else SS.f ((j - (K + K)) / K) ((j - (K + K)) % K))
    else SI.f ((j - (K + K + K ^ 2)) / K) ((j - (K + K + K ^ 2)) % K)⟩

/-- closed form of the arrays returned by `SIR_heterogeneous_pairwise`: `[times, S, I, R]` and with full data
`Sk, Ik, Rk, SkIl, SkSl`; `Sk = X[:K]`, `Ik = X[K:2K]`, `Rk = Nk − Sk − Ik`, `SkSl = X[2K:2K+K²]`, `SkIl = X[2K+K²:2K+2K²]` -/
def outSIRHet (T : Nat → Rat) (K : Nat) (Nk : V) (full : Bool) (X : Nat → V) : List Out :=
  let Sk : Nat → V := fun i => ⟨K, fun k => (X i).f k⟩
  let Ik : Nat → V := fun i => ⟨K, fun k => (X i).f (K + k)⟩
  let Rk : Nat → V := fun i => ⟨K, fun k =>
    Nk.f (bidx K (bidx K k)) - (X i).f (bidx K (bidx K k)) - (X i).f (K + bidx K k)⟩
  let SkSl : Nat → V := fun i => ⟨K ^ 2, fun k => (X i).f (2 * K + k)⟩
  let SkIl : Nat → V := fun i => ⟨K ^ 2, fun k => (X i).f (2 * K + K ^ 2 + k)⟩
  if full then
    [Out.s T, Out.s (fun i => sumTo K (X i).f), Out.s (fun i => sumTo K (Ik i).f), Out.s (fun i => sumTo K (Rk i).f),
     Out.m K Sk, Out.m K Ik, Out.m K Rk, Out.c K K SkIl, Out.c K K SkSl]
  else
    [Out.s T, Out.s (fun i => sumTo K (X i).f), Out.s (fun i => sumTo K (Ik i).f), Out.s (fun i => sumTo K (Rk i).f)]

/-- `Ks = None` is `Ks = np.arange(len(Sk0))` (definitional) -/
theorem SIR_het_Ks_none (odeint myodeint : Solver) (rhs : Rat → Rat → V → V → V → V)
    (Sk0 Ik0 Rk0 : V) (SS SI : Mx) (tau gamma tmin tmax : Rat) (tcount : Nat) (full : Bool) :
    GenGlue2.SIR_heterogeneous_pairwise odeint myodeint rhs Sk0 Ik0 Rk0 SS SI tau gamma tmin tmax tcount full none
      = GenGlue2.SIR_heterogeneous_pairwise odeint myodeint rhs Sk0 Ik0 Rk0 SS SI tau gamma tmin tmax tcount full
          (some (V.arange Sk0.n)) := rfl

/-- SIR call with an explicit `Ks`, canonical shapes, `X0` in the nested form the generated code builds -/
theorem SIR_het_call_some (odeint myodeint : Solver) (rhs : Rat → Rat → V → V → V → V)
    (Sk0 Ik0 Rk0 : V) (SS SI : Mx) (tau gamma tmin tmax : Rat) (tcount : Nat) (full : Bool) (Ks : V) (K : Nat)
    (hS : Sk0.n = K) (hI : Ik0.n = K) (hR : Rk0.n = K) (hK : Ks.n = K) (h1 : SS.r = K) (h2 : SS.c = K)
    (h3 : SI.r = K) (h4 : SI.c = K) :
    GenGlue2.SIR_heterogeneous_pairwise odeint myodeint rhs Sk0 Ik0 Rk0 SS SI tau gamma tmin tmax tcount full (some Ks)
      = .ok (hetX0SIR Sk0 Ik0 K SS SI, outSIRHet (linspace tmin tmax tcount) K (hetNk3 Sk0 Ik0 Rk0 K) full
          (odeint (fun st => rhs tau gamma (hetNk3 Sk0 Ik0 Rk0 K) Ks st) (hetX0SIR Sk0 Ik0 K SS SI))) := by
  have hsq : K * K = K ^ 2 := by ring
  unfold GenGlue2.SIR_heterogeneous_pairwise
  cases full <;>
  simp [vop, Mx.op, Mx.col, Mx.row, Mx.reshape, Mx.vcat, Mx.getRow, Mx.T, hS, hI, hR, hK, h1, h2, h3, h4, hsq, vslice, vsum,
    q_sl0, q_sl1, q_sl2, q_sl3, q_so1, q_so2, q_so3, hK2, hetX0SIR, outSIRHet, hetNk3]

/-- the `X0` built by the generated SIR code IS `GenEqMat.packSIR` (equality of vectors) -/
theorem hetX0SIR_pack (Sk0 Ik0 : V) (K : Nat) (SS SI : Mx) :
    hetX0SIR Sk0 Ik0 K SS SI = GenEqMat.packSIR K Sk0.f Ik0.f SS.f SI.f := by
  unfold hetX0SIR GenEqMat.packSIR V.append
  simp only [Nat.add_assoc]
  congr 1
  funext j
  by_cases a : j < K
  · have b : j < K + K := by omega
    have c : j < K + (K + K ^ 2) := by omega
    simp [a, b, c]
  · by_cases b : j < K + K
    · have b' : j - K < K := by omega
      have c : j < K + (K + K ^ 2) := by omega
      simp [a, b, b', c]
    · have b' : ¬ j - K < K := by omega
      by_cases c : j < K + (K + K ^ 2)
      · have c' : j - (K + K) < K ^ 2 := by omega
        have d : j - K - K = j - (K + K) := by omega
        simp [a, b, b', c, c', d]
      · have c' : ¬ j - (K + K) < K ^ 2 := by omega
        have d : j - K - K = j - (K + K) := by omega
        have d' : j - (K + K) - K ^ 2 = j - (K + (K + K ^ 2)) := by omega
        simp [a, b, b', c, c', d, d']
/-- SIR with an explicit `Ks`, ALL inputs: the only exception is `ValueError` -/
theorem SIR_het_error_some (odeint myodeint : Solver) (rhs : Rat → Rat → V → V → V → V)
    (Sk0 Ik0 Rk0 : V) (SS SI : Mx) (tau gamma tmin tmax : Rat) (tcount : Nat) (full : Bool) (Ks : V) (e : String)
    (h : GenGlue2.SIR_heterogeneous_pairwise odeint myodeint rhs Sk0 Ik0 Rk0 SS SI tau gamma tmin tmax tcount full (some Ks)
      = .error e) : e = "ValueError" := by
  unfold GenGlue2.SIR_heterogeneous_pairwise at h
  obtain hb | ⟨m1, hb⟩ := bdim_cases Sk0.n Ik0.n
  · simp [vop, hb] at h; exact h.symm
  obtain hb2 | ⟨N, hb2⟩ := bdim_cases m1 Rk0.n
  · simp [vop, hb, hb2] at h; exact h.symm
  by_cases e1 : SS.r * SS.c = Ks.n ^ 2
  · by_cases e2 : SI.r * SI.c = Ks.n ^ 2
    · simp [vop, hb, hb2, e1, e2, Mx.reshape, Mx.col, Mx.vcat, Mx.getRow, Mx.T] at h
      obtain h5 | ⟨n5, h5⟩ := bdim_cases N (sliceLen (Sk0.n + Ik0.n + Ks.n ^ 2 + Ks.n ^ 2) 0 Ks.n)
      · simp [h5] at h; exact h.symm
      obtain h6 | ⟨n6, h6⟩ := bdim_cases n5 (sliceLen (Sk0.n + Ik0.n + Ks.n ^ 2 + Ks.n ^ 2) Ks.n (2 * Ks.n))
      · simp [h5, h6] at h; exact h.symm
      cases full
      · simp [h5, h6] at h
      · simp only [h5, h6, ok_bind, if_true] at h
        split at h
        · split at h
          · cases h
          · injection h with h; exact h.symm
        · injection h with h; exact h.symm
    · simp [vop, hb, hb2, e1, e2, Mx.reshape] at h; exact h.symm
  · simp [vop, hb, hb2, e1, Mx.reshape] at h; exact h.symm

/-- **SIR call, canonical shapes** (`Sk0, Ik0, Rk0` of length `K`, `Ks = None` or of length `K` — needed, since here
`kcount = len(Ks)`; tables `K × K`): no exception; `X0 = GenEqMat.packSIR K Sk0 Ik0 SkSl0 SkIl0`; `odeint` solves
`rhs tau gamma Nk Ks` with `Nk_k = Sk0_k + Ik0_k + Rk0_k`; the returned arrays are `outSIRHet` of the solution -/
theorem SIR_het_call (odeint myodeint : Solver) (rhs : Rat → Rat → V → V → V → V)
    (Sk0 Ik0 Rk0 : V) (SS SI : Mx) (tau gamma tmin tmax : Rat) (tcount : Nat) (full : Bool) (Ks : Option V) (K : Nat)
    (hS : Sk0.n = K) (hI : Ik0.n = K) (hR : Rk0.n = K) (hK : ∀ ks, Ks = some ks → ks.n = K) (h1 : SS.r = K)
    (h2 : SS.c = K) (h3 : SI.r = K) (h4 : SI.c = K) :
    GenGlue2.SIR_heterogeneous_pairwise odeint myodeint rhs Sk0 Ik0 Rk0 SS SI tau gamma tmin tmax tcount full Ks
      = .ok (GenEqMat.packSIR K Sk0.f Ik0.f SS.f SI.f,
          outSIRHet (linspace tmin tmax tcount) K (hetNk3 Sk0 Ik0 Rk0 K) full
            (odeint (fun st => rhs tau gamma (hetNk3 Sk0 Ik0 Rk0 K) (Ks.getD (V.arange K)) st)
              (GenEqMat.packSIR K Sk0.f Ik0.f SS.f SI.f))) ∧
    (hetNk3 Sk0 Ik0 Rk0 K).n = K ∧ ∀ k, k < K → (hetNk3 Sk0 Ik0 Rk0 K).f k = Sk0.f k + Ik0.f k + Rk0.f k := by
  refine ⟨?_, rfl, fun k hk => by simp [hetNk3, bidx_lt K k hk]⟩
  cases Ks with
  | none =>
    rw [SIR_het_Ks_none, SIR_het_call_some odeint myodeint rhs Sk0 Ik0 Rk0 SS SI tau gamma tmin tmax tcount full
      (V.arange Sk0.n) K hS hI hR (by rw [hS]; rfl) h1 h2 h3 h4, hetX0SIR_pack, hS]
    rfl
  | some ks =>
    rw [SIR_het_call_some odeint myodeint rhs Sk0 Ik0 Rk0 SS SI tau gamma tmin tmax tcount full ks K hS hI hR
      (hK ks rfl) h1 h2 h3 h4, hetX0SIR_pack]
    rfl

/-- **SIR**: whatever the inputs, the only exception is `ValueError` -/
theorem SIR_het_error_is_ValueError (odeint myodeint : Solver) (rhs : Rat → Rat → V → V → V → V)
    (Sk0 Ik0 Rk0 : V) (SS SI : Mx) (tau gamma tmin tmax : Rat) (tcount : Nat) (full : Bool) (Ks : Option V) (e : String)
    (h : GenGlue2.SIR_heterogeneous_pairwise odeint myodeint rhs Sk0 Ik0 Rk0 SS SI tau gamma tmin tmax tcount full Ks
      = .error e) : e = "ValueError" := by
  cases Ks with
  | none => rw [SIR_het_Ks_none] at h; exact SIR_het_error_some _ _ _ _ _ _ _ _ _ _ _ _ _ _ _ _ h
  | some ks => exact SIR_het_error_some _ _ _ _ _ _ _ _ _ _ _ _ _ _ _ _ h

/-- SIR: `Sk0`, `Ik0` of different lengths, neither 1: `ValueError` (first statement that can fail) -/
theorem SIR_het_error_lengths (odeint myodeint : Solver) (rhs : Rat → Rat → V → V → V → V)
    (Sk0 Ik0 Rk0 : V) (SS SI : Mx) (tau gamma tmin tmax : Rat) (tcount : Nat) (full : Bool) (Ks : Option V)
    (h1 : Sk0.n ≠ Ik0.n) (h2 : Sk0.n ≠ 1) (h3 : Ik0.n ≠ 1) :
    GenGlue2.SIR_heterogeneous_pairwise odeint myodeint rhs Sk0 Ik0 Rk0 SS SI tau gamma tmin tmax tcount full Ks
      = .error "ValueError" := by
  cases Ks <;> simp [GenGlue2.SIR_heterogeneous_pairwise, vop, bdim_error _ _ h1 h2 h3]

/-- SIR: `SkSl0` does not have `len(Ks)²` entries: `ValueError` (`kcount = len(Ks)` here, NOT `len(Nk)` as in the SIS function) -/
theorem SIR_het_error_reshape (odeint myodeint : Solver) (rhs : Rat → Rat → V → V → V → V)
    (Sk0 Ik0 Rk0 : V) (SS SI : Mx) (tau gamma tmin tmax : Rat) (tcount : Nat) (full : Bool) (Ks : V)
    (h : SS.r * SS.c ≠ Ks.n ^ 2) :
    GenGlue2.SIR_heterogeneous_pairwise odeint myodeint rhs Sk0 Ik0 Rk0 SS SI tau gamma tmin tmax tcount full (some Ks)
      = .error "ValueError" := by
  obtain hb | ⟨m1, hb⟩ := bdim_cases Sk0.n Ik0.n
  · simp [GenGlue2.SIR_heterogeneous_pairwise, vop, hb]
  obtain hb2 | ⟨N, hb2⟩ := bdim_cases m1 Rk0.n
  · simp [GenGlue2.SIR_heterogeneous_pairwise, vop, hb, hb2]
  simp [GenGlue2.SIR_heterogeneous_pairwise, vop, hb, hb2, h, Mx.reshape]

/-- `S + I + R = Σ Nk` at every time index for ANY solution (`Rk = Nk − Sk − Ik`) -/
theorem outSIRHet_conserve (T : Nat → Rat) (K : Nat) (Nk : V) (full : Bool) (X : Nat → V) (i : Nat) :
    get (outSIRHet T K Nk full X) 1 i + get (outSIRHet T K Nk full X) 2 i + get (outSIRHet T K Nk full X) 3 i
      = sumTo K Nk.f := by
  have e : sumTo K (fun k => Nk.f (bidx K (bidx K k)) - (X i).f (bidx K (bidx K k)) - (X i).f (K + bidx K k))
      = sumTo K Nk.f - sumTo K (X i).f - sumTo K (fun k => (X i).f (K + k)) := by
    rw [← GenGlueProofs.sumTo_sub3]
    exact ODE.sumTo_congr _ _ _ (fun k hk => by rw [bidx_lt K k hk, bidx_lt K k hk])
  cases full <;> simp only [outSIRHet, Bool.false_eq_true, if_false, if_true, get_succ, get_zero_s] <;> rw [e] <;> ring

/-- full data: declared shapes, `S_k + I_k + R_k = Nk_k`, `S`/`I`/`R` are the class sums -/
theorem outSIRHet_full (T : Nat → Rat) (K : Nat) (Nk : V) (X : Nat → V) (i : Nat) :
    let l := outSIRHet T K Nk true X
    l.length = 9 ∧ getN l 4 = K ∧ getN l 5 = K ∧ getN l 6 = K ∧ getN l 7 = K * K ∧ getN l 8 = K * K ∧
    (∀ k, k < K → getM l 4 i k + getM l 5 i k + getM l 6 i k = Nk.f k) ∧
    get l 1 i = sumTo K (getM l 4 i) ∧ get l 2 i = sumTo K (getM l 5 i) ∧ get l 3 i = sumTo K (getM l 6 i) := by
  refine ⟨rfl, rfl, rfl, rfl, rfl, rfl, fun k hk => ?_, rfl, rfl, rfl⟩
  simp only [outSIRHet, if_true, getM, getV_succ, getV_zero_m, bidx_lt K k hk]; ring

/-- a solution starting at `packSIR K S I SS SI`: `S(0) = ΣS`, `I(0) = ΣI`, `R(0) = ΣNk − ΣS − ΣI` -/
theorem outSIRHet_init (T : Nat → Rat) (K : Nat) (Nk : V) (full : Bool) (X : Nat → V)
    (S I : Nat → Rat) (SS SI : Nat → Nat → Rat) (hX : X 0 = GenEqMat.packSIR K S I SS SI) :
    get (outSIRHet T K Nk full X) 1 0 = sumTo K S ∧ get (outSIRHet T K Nk full X) 2 0 = sumTo K I ∧
    get (outSIRHet T K Nk full X) 3 0 = sumTo K Nk.f - sumTo K S - sumTo K I := by
  have hc := outSIRHet_conserve T K Nk full X 0
  have h1 : get (outSIRHet T K Nk full X) 1 0 = sumTo K S := by
    cases full <;> simp only [outSIRHet, Bool.false_eq_true, if_false, if_true, get_succ, get_zero_s, hX] <;>
      exact ODE.sumTo_congr _ _ _ (fun k hk => V.append_f_lt _ _ k hk)
  have h2 : get (outSIRHet T K Nk full X) 2 0 = sumTo K I := by
    cases full <;> simp only [outSIRHet, Bool.false_eq_true, if_false, if_true, get_succ, get_zero_s, hX] <;>
      exact ODE.sumTo_congr _ _ _ (fun k hk => GenEqMat.packSIR_I K S I SS SI k hk)
  refine ⟨h1, h2, ?_⟩
  rw [h1, h2] at hc; linarith

/-- full data at time index 0 for a solution starting at `packSIR K S I SS SI` -/
theorem outSIRHet_init_full (T : Nat → Rat) (K : Nat) (Nk : V) (X : Nat → V)
    (S I : Nat → Rat) (SS SI : Nat → Nat → Rat) (hX : X 0 = GenEqMat.packSIR K S I SS SI) :
    let l := outSIRHet T K Nk true X
    (∀ k, k < K → getM l 4 0 k = S k ∧ getM l 5 0 k = I k ∧ getM l 6 0 k = Nk.f k - S k - I k) ∧
    (∀ k m, k < K → m < K → getM l 8 0 (k * K + m) = SS k m ∧ getM l 7 0 (k * K + m) = SI k m) := by
  refine ⟨fun k hk => ?_, fun k m hk hm => ?_⟩
  · have a : (GenEqMat.packSIR K S I SS SI).f k = S k := V.append_f_lt _ _ k hk
    have b := GenEqMat.packSIR_I K S I SS SI k hk
    simp only [outSIRHet, if_true, getM, getV_succ, getV_zero_m, bidx_lt K k hk, hX, a, b]
    simp
  · have a := GenEqMat.packSIR_SS K S I SS SI k m hk hm
    have b := GenEqMat.packSIR_SI K S I SS SI k m hk hm
    simp only [outSIRHet, if_true, getM, getV_succ, getV_zero_c, hX, a, b]
    simp

/-- `Σ Nk = Σ Sk0 + Σ Ik0 + Σ Rk0` for the canonical `Nk` -/
theorem hetNk3_sum (Sk0 Ik0 Rk0 : V) (K : Nat) :
    sumTo K (hetNk3 Sk0 Ik0 Rk0 K).f = sumTo K Sk0.f + sumTo K Ik0.f + sumTo K Rk0.f := by
  rw [← GenGlueProofs.sumTo_add3]
  exact ODE.sumTo_congr _ _ _ (fun k hk => by simp [hetNk3, bidx_lt K k hk])

/-- **SIR, canonical shapes: conservation, initial state, full data.**  `S + I + R = ΣSk0 + ΣIk0 + ΣRk0` at EVERY time
index for EVERY solver; with `RowZero odeint` (the solver actually called) `S(0), I(0), R(0) = ΣSk0, ΣIk0, ΣRk0`; full
data: shapes, class sums, `S_k + I_k + R_k = Nk_k`, and at index 0 the series are the given arrays -/
theorem SIR_het_spec (odeint myodeint : Solver) (rhs : Rat → Rat → V → V → V → V)
    (Sk0 Ik0 Rk0 : V) (SS SI : Mx) (tau gamma tmin tmax : Rat) (tcount : Nat) (full : Bool) (Ks : Option V) (K : Nat)
    (hS : Sk0.n = K) (hI : Ik0.n = K) (hR : Rk0.n = K) (hK : ∀ ks, Ks = some ks → ks.n = K) (h1 : SS.r = K)
    (h2 : SS.c = K) (h3 : SI.r = K) (h4 : SI.c = K) :
    ∃ l, GenGlue2.SIR_heterogeneous_pairwise odeint myodeint rhs Sk0 Ik0 Rk0 SS SI tau gamma tmin tmax tcount full Ks
        = .ok (GenEqMat.packSIR K Sk0.f Ik0.f SS.f SI.f, l) ∧
      l.length = (if full then 9 else 4) ∧
      (∀ i, get l 0 i = linspace tmin tmax tcount i) ∧
      (∀ i, get l 1 i + get l 2 i + get l 3 i = sumTo K Sk0.f + sumTo K Ik0.f + sumTo K Rk0.f) ∧
      (RowZero odeint → get l 1 0 = sumTo K Sk0.f ∧ get l 2 0 = sumTo K Ik0.f ∧ get l 3 0 = sumTo K Rk0.f) ∧
      (full = true →
        getN l 4 = K ∧ getN l 5 = K ∧ getN l 6 = K ∧ getN l 7 = K * K ∧ getN l 8 = K * K ∧
        (∀ i, get l 1 i = sumTo K (getM l 4 i) ∧ get l 2 i = sumTo K (getM l 5 i) ∧ get l 3 i = sumTo K (getM l 6 i)) ∧
        (∀ i k, k < K → getM l 4 i k + getM l 5 i k + getM l 6 i k = Sk0.f k + Ik0.f k + Rk0.f k) ∧
        (RowZero odeint →
          (∀ k, k < K → getM l 4 0 k = Sk0.f k ∧ getM l 5 0 k = Ik0.f k ∧ getM l 6 0 k = Rk0.f k) ∧
          (∀ k m, k < K → m < K → getM l 8 0 (k * K + m) = SS.f k m ∧ getM l 7 0 (k * K + m) = SI.f k m))) := by
  obtain ⟨hcall, -, hNk⟩ := SIR_het_call odeint myodeint rhs Sk0 Ik0 Rk0 SS SI tau gamma tmin tmax tcount full Ks K
    hS hI hR hK h1 h2 h3 h4
  refine ⟨_, hcall, by cases full <;> rfl, fun i => by cases full <;> rfl, fun i => ?_, fun h0 => ?_, fun hfull => ?_⟩
  · rw [outSIRHet_conserve, hetNk3_sum]
  · obtain ⟨a, b, c⟩ := outSIRHet_init (linspace tmin tmax tcount) K (hetNk3 Sk0 Ik0 Rk0 K) full _ Sk0.f Ik0.f SS.f SI.f
      (h0 _ _)
    refine ⟨a, b, ?_⟩
    rw [c, hetNk3_sum]; ring
  · subst hfull
    refine ⟨rfl, rfl, rfl, rfl, rfl, fun i => ⟨rfl, rfl, rfl⟩, fun i k hk => ?_, fun h0 => ?_⟩
    · obtain ⟨-, -, -, -, -, -, hk', -⟩ := outSIRHet_full (linspace tmin tmax tcount) K (hetNk3 Sk0 Ik0 Rk0 K)
        (odeint (fun st => rhs tau gamma (hetNk3 Sk0 Ik0 Rk0 K) (Ks.getD (V.arange K)) st)
          (GenEqMat.packSIR K Sk0.f Ik0.f SS.f SI.f)) i
      rw [hk' k hk, hNk k hk]
    · obtain ⟨a, b⟩ := outSIRHet_init_full (linspace tmin tmax tcount) K (hetNk3 Sk0 Ik0 Rk0 K) _ Sk0.f Ik0.f SS.f SI.f
        (h0 (fun st => rhs tau gamma (hetNk3 Sk0 Ik0 Rk0 K) (Ks.getD (V.arange K)) st)
          (GenEqMat.packSIR K Sk0.f Ik0.f SS.f SI.f))
      refine ⟨fun k hk => ?_, b⟩
      obtain ⟨x, y, z⟩ := a k hk
      refine ⟨x, y, ?_⟩
      rw [z, hNk k hk]; ring

/-- adapter: the generated SIR right-hand side in the parameter order of the driver -/
def rhsSIR : Rat → Rat → V → V → V → V :=
  fun tau gamma Nk Ks st => GenMat.dSIR_heterogeneous_pairwise st tau gamma Nk Ks

/-- **SIR composed with the generated right-hand side** (`rhsSIR`): the function solved by `odeint` is, on every packed state, the model `ODE.sirHetPW K tau gamma Ks` (`GenMatProps.gen_sirHetPW`); `Nk` is passed and ignored -/
theorem SIR_het_composed (odeint myodeint : Solver)
    (Sk0 Ik0 Rk0 : V) (SS SI : Mx) (tau gamma tmin tmax : Rat) (tcount : Nat) (full : Bool) (Ks : Option V) (K : Nat)
    (hS : Sk0.n = K) (hI : Ik0.n = K) (hR : Rk0.n = K) (hK : ∀ ks, Ks = some ks → ks.n = K) (h1 : SS.r = K)
    (h2 : SS.c = K) (h3 : SI.r = K) (h4 : SI.c = K) :
    ∃ (Nk KsF : Nat → Rat),
      GenGlue2.SIR_heterogeneous_pairwise odeint myodeint rhsSIR Sk0 Ik0 Rk0 SS SI tau gamma tmin tmax tcount full Ks
        = .ok (GenEqMat.packSIR K Sk0.f Ik0.f SS.f SI.f,
            outSIRHet (linspace tmin tmax tcount) K ⟨K, Nk⟩ full
              (odeint (fun st => GenMat.dSIR_heterogeneous_pairwise st tau gamma ⟨K, Nk⟩ ⟨K, KsF⟩)
                (GenEqMat.packSIR K Sk0.f Ik0.f SS.f SI.f))) ∧
      (∀ k, k < K → Nk k = Sk0.f k + Ik0.f k + Rk0.f k) ∧
      (∀ k, KsF k = (Ks.getD (V.arange K)).f k) ∧
      ∀ (S I : Nat → Rat) (SS' SI' : Nat → Nat → Rat),
        let r := GenMat.dSIR_heterogeneous_pairwise (GenEqMat.packSIR K S I SS' SI') tau gamma ⟨K, Nk⟩ ⟨K, KsF⟩
        let m := ODE.sirHetPW K tau gamma KsF S I SS' SI'
        r.n = K + K + K ^ 2 + K ^ 2 ∧
        (∀ k, k < K → r.f k = m.1 k ∧ r.f (K + k) = m.2.1 k) ∧
        ∀ k l, k < K → l < K →
          r.f (K + K + (k * K + l)) = m.2.2.1 k l ∧ r.f (K + K + K ^ 2 + (k * K + l)) = m.2.2.2 k l := by
  obtain ⟨hcall, -, hNk⟩ := SIR_het_call odeint myodeint rhsSIR Sk0 Ik0 Rk0 SS SI tau gamma tmin tmax tcount full Ks K
    hS hI hR hK h1 h2 h3 h4
  have hKs : (Ks.getD (V.arange K)) = ⟨K, (Ks.getD (V.arange K)).f⟩ := by
    cases Ks with
    | none => rfl
    | some ks => have := hK ks rfl; cases ks; simp only at this; subst this; rfl
  rw [hKs] at hcall
  exact ⟨(hetNk3 Sk0 Ik0 Rk0 K).f, (Ks.getD (V.arange K)).f, hcall, hNk, fun _ => rfl,
    fun S I SS' SI' => GenMatProps.gen_sirHetPW K tau gamma _ _ S I SS' SI'⟩

/-! ## 3. closed examples (kernel-checked): `K = 2` degree classes, the constant solver `constOdeint` (`RowZero`) and the
drifting solver `driftOdeint` (row `i` = `X0 + i`); `rowAt r i` = the exception, or (`X0`, the returned arrays read at
time index `i`); the right-hand side is irrelevant for these solvers -/

def exSk : V := V.ofList [3, 4]
def exIk : V := V.ofList [1, 2]
def exR : V := V.ofList [2, 1]
def exSS : Mx := Mx.ofLists [[1, 2], [2, 5]]
def exSI : Mx := Mx.ofLists [[1/2, 1], [3, 2]]
def exII : Mx := Mx.ofLists [[0, 1], [1, 0]]
def rhs0S : V → Mx → Rat → Rat → V → V → V := fun _ _ _ _ _ st => st
def rhs0R : Rat → Rat → V → V → V → V := fun _ _ _ _ st => st

/-- SIS, full data, time index 3: `X0 = Sk0 ++ SkSl0 ++ SkIl0`; `[t, S, I, Sk, Ik, SkIl, SkSl, IkIl]`; `IkIl = IkIl0` -/
example : rowAt (GenGlue2.SIS_heterogeneous_pairwise constOdeint constOdeint rhs0S exSk exIk exSS exSI exII 1 1 0 10 11
    true none) 3 = .inr ([3, 4, 1, 2, 2, 5, 1/2, 1, 3, 2],
      [[3], [7], [3], [3, 4], [1, 2], [1/2, 1, 3, 2], [1, 2, 2, 5], [0, 1, 1, 0]]) := by decide +kernel
/-- SIS is solved by `myodeint` (the drift shows); a solver that conserves nothing: still `S + I = 10`, `S_k + I_k = Nk_k` -/
example : rowAt (GenGlue2.SIS_heterogeneous_pairwise constOdeint driftOdeint rhs0S exSk exIk exSS exSI exII 1 1 0 10 11
    true none) 3 = .inr ([3, 4, 1, 2, 2, 5, 1/2, 1, 3, 2],
      [[3], [13], [-3], [6, 7], [-2, -1], [7/2, 4, 6, 5], [4, 5, 5, 8], [-9, -8, -8, -9]]) := by decide +kernel
/-- SIS error: `Sk0` of length 2, `Ik0` of length 3 -/
example : rowAt (GenGlue2.SIS_heterogeneous_pairwise constOdeint constOdeint rhs0S exSk (V.ofList [1, 2, 3]) exSS exSI exII
    1 1 0 10 11 false none) 3 = .inl "ValueError" := by decide +kernel
/-- **surprise / counter-example to `S(0) = ΣSk0` and `S + I = ΣSk0 + ΣIk0` without `Sk0.n = Ik0.n`**: `Sk0 = [5]` (length
1) with `Ik0` of length 2 is accepted without full data (broadcasting: `Nk = [6, 7]`); `X0` has 9 entries, `Sk = X[:2]`
contains `SkSl0[0,0]`: `S(0) = 5 + 1 = 6 ≠ 5`, `S + I = 13 ≠ 5 + 3` -/
example : rowAt (GenGlue2.SIS_heterogeneous_pairwise constOdeint constOdeint rhs0S (V.ofList [5]) exIk exSS exSI exII
    1 1 0 10 11 false none) 0 = .inr ([5, 1, 2, 2, 5, 1/2, 1, 3, 2], [[0], [6], [7]]) := by decide +kernel
/-- the same call with full data: `ValueError` (`SkIl = X[K+K²:]` has `len(Sk0) + K² − K = 3` entries, not `K² = 4`) -/
example : rowAt (GenGlue2.SIS_heterogeneous_pairwise constOdeint constOdeint rhs0S (V.ofList [5]) exIk exSS exSI exII
    1 1 0 10 11 true none) 0 = .inl "ValueError" := by decide +kernel
/-- **surprise**: a `1 × 1` table `IkIl0 = [[7]]` is accepted even with full data (it is broadcast in `NkNl`) -/
example : rowAt (GenGlue2.SIS_heterogeneous_pairwise constOdeint constOdeint rhs0S exSk exIk exSS exSI (Mx.ofLists [[7]])
    1 1 0 10 11 true none) 0 = .inr ([3, 4, 1, 2, 2, 5, 1/2, 1, 3, 2],
      [[0], [7], [3], [3, 4], [1, 2], [1/2, 1, 3, 2], [1, 2, 2, 5], [7, 7, 7, 7]]) := by decide +kernel
/-- a `1 × 4` table `SkSl0` (right number of entries, wrong shape): `ValueError` from `SkSl0 + SkIl0` -/
example : rowAt (GenGlue2.SIS_heterogeneous_pairwise constOdeint constOdeint rhs0S exSk exIk (Mx.ofLists [[1, 2, 2, 5]])
    exSI exII 1 1 0 10 11 false none) 0 = .inl "ValueError" := by decide +kernel
/-- SIR, full data, time index 3: `X0 = Sk0 ++ Ik0 ++ SkSl0 ++ SkIl0`; `[t, S, I, R, Sk, Ik, Rk, SkIl, SkSl]` -/
example : rowAt (GenGlue2.SIR_heterogeneous_pairwise constOdeint constOdeint rhs0R exSk exIk exR exSS exSI 1 1 0 10 11
    true none) 3 = .inr ([3, 4, 1, 2, 1, 2, 2, 5, 1/2, 1, 3, 2],
      [[3], [7], [3], [3], [3, 4], [1, 2], [2, 1], [1/2, 1, 3, 2], [1, 2, 2, 5]]) := by decide +kernel
/-- SIR is solved by `odeint` (the drift shows); still `S + I + R = 13` and `S_k + I_k + R_k = Nk_k` -/
example : rowAt (GenGlue2.SIR_heterogeneous_pairwise driftOdeint constOdeint rhs0R exSk exIk exR exSS exSI 1 1 0 10 11
    true none) 3 = .inr ([3, 4, 1, 2, 1, 2, 2, 5, 1/2, 1, 3, 2],
      [[3], [13], [9], [-9], [6, 7], [4, 5], [-4, -5], [7/2, 4, 6, 5], [4, 5, 5, 8]]) := by decide +kernel
/-- SIR error: `Rk0` of length 3 -/
example : rowAt (GenGlue2.SIR_heterogeneous_pairwise constOdeint constOdeint rhs0R exSk exIk (V.ofList [1, 2, 3]) exSS exSI
    1 1 0 10 11 false none) 3 = .inl "ValueError" := by decide +kernel
/-- **surprise / the hypothesis `Ks.n = K` is needed**: `Ks` of length 1 with 2 degree classes and `1 × 1` tables is
accepted, full data included (`kcount = len(Ks) = 1`): `X0 = [3, 4, 1, 2, 9, 8]`, `Sk = X[:1]`, `Ik = X[1:2] = Sk0[1]`,
`I(0) = 4 ≠ 3`, `R(0) = −1 ≠ 3`, `SkSl = [Ik0[0]]`, `SkIl = [Ik0[1]]` -/
example : rowAt (GenGlue2.SIR_heterogeneous_pairwise constOdeint constOdeint rhs0R exSk exIk exR (Mx.ofLists [[9]])
    (Mx.ofLists [[8]]) 1 1 0 10 11 true (some (V.ofList [5]))) 0
    = .inr ([3, 4, 1, 2, 9, 8], [[0], [3], [4], [-1], [3], [4], [-1, 0], [2], [1]]) := by decide +kernel
/-- `Ks` of length 1 with the `2 × 2` tables: `ValueError` (`reshape`) -/
example : rowAt (GenGlue2.SIR_heterogeneous_pairwise constOdeint constOdeint rhs0R exSk exIk exR exSS exSI 1 1 0 10 11
    true (some (V.ofList [5]))) 0 = .inl "ValueError" := by decide +kernel
/-- **the hypothesis `Rk0.n = K` is needed**: `Rk0 = [7]` is broadcast, `R(0) = 14 ≠ 7` -/
example : rowAt (GenGlue2.SIR_heterogeneous_pairwise constOdeint constOdeint rhs0R exSk exIk (V.ofList [7]) exSS exSI
    1 1 0 10 11 false none) 0 = .inr ([3, 4, 1, 2, 1, 2, 2, 5, 1/2, 1, 3, 2], [[0], [7], [3], [14]]) := by decide +kernel
/-- the hypotheses of `SIS_het_spec` / `SIR_het_spec` are satisfiable -/
example := SIS_het_spec constOdeint constOdeint rhs0S exSk exIk exSS exSI exII 1 1 0 10 11 true none 2
  rfl rfl rfl rfl rfl rfl rfl rfl
example := SIR_het_spec constOdeint constOdeint rhs0R exSk exIk exR exSS exSI 1 1 0 10 11 true none 2
  rfl rfl rfl (fun _ h => nomatch h) rfl rfl rfl rfl

end GenGlue3Props

/-! # Part C — `EBCM_pref_mix_discrete` (general loop) and the pair-based functions for all inputs -/

namespace GenGlue3Props
open Gen PyGlue PyGlue2 GenGlue2Proofs GenGlue3Proofs
open ODE (sumTo PrefMixDiscState prefMixDiscStep prefMixDiscRun prefMixDiscInit powPred psiH psiHP ebcmDiscRun)
open GenGlueProofs (Solver RowZero linspace_zero)
open GenGlue2Props (nodesOf countIn memB exNbrs exTr exRr SIR_pair_based_Y0 SIS_pair_based_error_both
  SIS_pair_based_error_nodelist SIR_pair_based_error_both SIR_pair_based_error_nodelist)

/-! ### 1a. exceptions and the closed form -/

/-- `rho = None`, `N ≠ 0`: the same as `rho = 1/N` -/
theorem EBCM_pref_mix_discrete_rho_none (odeint myodeint : Solver) (N : Rat) (Pk : List (Nat × Rat))
    (Pnk : List (Nat × List (Nat × Rat))) (p : Rat) (tmin tmax : Int) (full : Bool) (hN : N ≠ 0) :
    GenGlue2.EBCM_pref_mix_discrete odeint myodeint N Pk Pnk p none tmin tmax full =
      GenGlue2.EBCM_pref_mix_discrete odeint myodeint N Pk Pnk p (some (1 / N)) tmin tmax full := by
  unfold GenGlue2.EBCM_pref_mix_discrete
  simp [hN]

/-- `rho = None`, `N = 0`: `ZeroDivisionError` (first statement), whatever the other arguments -/
theorem EBCM_pref_mix_discrete_error_rho (odeint myodeint : Solver) (Pk : List (Nat × Rat))
    (Pnk : List (Nat × List (Nat × Rat))) (p : Rat) (tmin tmax : Int) (full : Bool) :
    GenGlue2.EBCM_pref_mix_discrete odeint myodeint 0 Pk Pnk p none tmin tmax full = .error "ZeroDivisionError" :=
  GenGlue2Props.EBCM_pref_mix_discrete_error_zeroDiv odeint myodeint Pk Pnk p tmin tmax full

/-- **the general loop, normal return**: if `rho` is given or `N ≠ 0`, and no pass `j + 1 ≤ m = (tmax − tmin).toNat`
meets a missing key or `0.0 ** -1`, the function returns `pmResult`: `times = tmin..tmax`, and `S, I, R` (and the dict
`theta`) are the columns `0..m` of the hand model `ODE.prefMixDiscRun` -/
theorem EBCM_pref_mix_discrete_eq (odeint myodeint : Solver) (N : Rat) (Pk : List (Nat × Rat))
    (Pnk : List (Nat × List (Nat × Rat))) (p : Rat) (rho : Option Rat) (tmin tmax : Int) (full : Bool)
    (hK : (keys Pk).Nodup) (hrho : rho.isSome ∨ N ≠ 0)
    (hg : ∀ j, j < (tmax - tmin).toNat → Good N Pk Pnk p (rhoOf N rho) (pmRun N Pk Pnk p (rhoOf N rho) j)) :
    GenGlue2.EBCM_pref_mix_discrete odeint myodeint N Pk Pnk p rho tmin tmax full =
      .ok (pmResult N Pk Pnk p (rhoOf N rho) tmin (tmax - tmin).toNat full) := by
  cases rho with
  | some r => exact pmd_ok odeint myodeint N Pk Pnk p r tmin tmax full hK hg
  | none =>
    have hN : N ≠ 0 := by simpa using hrho
    rw [EBCM_pref_mix_discrete_rho_none _ _ _ _ _ _ _ _ _ hN]
    exact pmd_ok odeint myodeint N Pk Pnk p (1 / N) tmin tmax full hK hg

/-- **the general loop, exception**: if pass `j0 + 1 ≤ m` is the first whose condition fails, the function raises in
that pass (in the comprehension for the new `phiS`): `KeyError` only if the key condition fails, `ZeroDivisionError`
only if `theta[0]` has just become 0 and degree 0 is a key of a `Pnk[k1]` used -/
theorem EBCM_pref_mix_discrete_error (odeint myodeint : Solver) (N : Rat) (Pk : List (Nat × Rat))
    (Pnk : List (Nat × List (Nat × Rat))) (p : Rat) (rho : Option Rat) (tmin tmax : Int) (full : Bool)
    (hK : (keys Pk).Nodup) (hrho : rho.isSome ∨ N ≠ 0) (j0 : Nat) (hj0 : j0 < (tmax - tmin).toNat)
    (hg : ∀ j, j < j0 → Good N Pk Pnk p (rhoOf N rho) (pmRun N Pk Pnk p (rhoOf N rho) j))
    (hb : ¬ Good N Pk Pnk p (rhoOf N rho) (pmRun N Pk Pnk p (rhoOf N rho) j0)) :
    ∃ e, GenGlue2.EBCM_pref_mix_discrete odeint myodeint N Pk Pnk p rho tmin tmax full = .error e ∧
      ((e = "KeyError" ∧ ¬ KeysOK Pk Pnk) ∨
        (e = "ZeroDivisionError" ∧ ¬ ZeroOK Pk Pnk (pmRun N Pk Pnk p (rhoOf N rho) (j0 + 1)).theta)) := by
  cases rho with
  | some r => exact pmd_err odeint myodeint N Pk Pnk p r tmin tmax full hK j0 hj0 hg hb
  | none =>
    have hN : N ≠ 0 := by simpa using hrho
    rw [EBCM_pref_mix_discrete_rho_none _ _ _ _ _ _ _ _ _ hN]
    exact pmd_err odeint myodeint N Pk Pnk p (1 / N) tmin tmax full hK j0 hj0 hg hb

theorem exists_least {P : Nat → Prop} (n : Nat) (h : P n) : ∃ k, k ≤ n ∧ P k ∧ ∀ i, i < k → ¬ P i := by
  induction n using Nat.strongRecOn with
  | _ n ih =>
    by_cases hex : ∃ i, i < n ∧ P i
    · obtain ⟨i, hi, hpi⟩ := hex
      obtain ⟨k, hk, hpk, hl⟩ := ih i hi hpi
      exact ⟨k, by omega, hpk, hl⟩
    · exact ⟨n, Nat.le_refl n, h, fun i hi hpi => hex ⟨i, hi, hpi⟩⟩

/-- **exact success condition**: no exception iff (`rho` is given or `N ≠ 0`) and every pass `j + 1 ≤ m` has all its
keys and does not evaluate `0.0 ** -1`.  In particular with `tmax ≤ tmin` (`m = 0`) nothing about `Pnk` is checked -/
theorem EBCM_pref_mix_discrete_ok_iff (odeint myodeint : Solver) (N : Rat) (Pk : List (Nat × Rat))
    (Pnk : List (Nat × List (Nat × Rat))) (p : Rat) (rho : Option Rat) (tmin tmax : Int) (full : Bool)
    (hK : (keys Pk).Nodup) :
    (∃ res, GenGlue2.EBCM_pref_mix_discrete odeint myodeint N Pk Pnk p rho tmin tmax full = .ok res) ↔
      (rho.isSome ∨ N ≠ 0) ∧
      ∀ j, j < (tmax - tmin).toNat → Good N Pk Pnk p (rhoOf N rho) (pmRun N Pk Pnk p (rhoOf N rho) j) := by
  constructor
  · rintro ⟨res, h⟩
    have hrho : rho.isSome ∨ N ≠ 0 := by
      cases rho with
      | some r => exact Or.inl rfl
      | none =>
        refine Or.inr (fun hN => ?_)
        subst hN
        rw [EBCM_pref_mix_discrete_error_rho] at h
        cases h
    refine ⟨hrho, ?_⟩
    intro j hj
    apply Classical.byContradiction
    intro hb
    obtain ⟨k, hk, hpk, hl⟩ := exists_least (P := fun j => ¬ Good N Pk Pnk p (rhoOf N rho) (pmRun N Pk Pnk p (rhoOf N rho) j)) j hb
    obtain ⟨e, he, -⟩ := EBCM_pref_mix_discrete_error odeint myodeint N Pk Pnk p rho tmin tmax full hK hrho k
      (by omega) (fun i hi => Classical.not_not.mp (hl i hi)) hpk
    rw [he] at h
    cases h
  · rintro ⟨hrho, hg⟩
    exact ⟨_, EBCM_pref_mix_discrete_eq odeint myodeint N Pk Pnk p rho tmin tmax full hK hrho hg⟩

/-- **`KeyError`, exactly**: at least one pass (`tmin < tmax`), a key of `Pk` missing from `Pnk` or a key of a used
`Pnk[k1]` missing from `Pk`, and the first pass does not hit `0.0 ** -1` (which could come first in the iteration
order): `KeyError`, raised in the first pass -/
theorem EBCM_pref_mix_discrete_keyError (odeint myodeint : Solver) (N : Rat) (Pk : List (Nat × Rat))
    (Pnk : List (Nat × List (Nat × Rat))) (p : Rat) (rho : Option Rat) (tmin tmax : Int) (full : Bool)
    (hK : (keys Pk).Nodup) (hrho : rho.isSome ∨ N ≠ 0) (ht : tmin < tmax) (hk : ¬ KeysOK Pk Pnk)
    (hz : ZeroOK Pk Pnk (pmRun N Pk Pnk p (rhoOf N rho) 1).theta) :
    GenGlue2.EBCM_pref_mix_discrete odeint myodeint N Pk Pnk p rho tmin tmax full = .error "KeyError" := by
  obtain ⟨e, he, hd⟩ := EBCM_pref_mix_discrete_error odeint myodeint N Pk Pnk p rho tmin tmax full hK hrho 0
    (by omega) (fun j hj => absurd hj (Nat.not_lt_zero j)) (fun hg => hk hg.1)
  rcases hd with ⟨rfl, -⟩ | ⟨-, hz'⟩
  · exact he
  · exact absurd hz hz'

/-- **`ZeroDivisionError`, exactly**: all keys present, and pass `j0 + 1 ≤ m` is the first after which `theta[0] = 0`
while degree 0 is a key of some used `Pnk[k1]` -/
theorem EBCM_pref_mix_discrete_zeroDiv (odeint myodeint : Solver) (N : Rat) (Pk : List (Nat × Rat))
    (Pnk : List (Nat × List (Nat × Rat))) (p : Rat) (rho : Option Rat) (tmin tmax : Int) (full : Bool)
    (hK : (keys Pk).Nodup) (hrho : rho.isSome ∨ N ≠ 0) (hk : KeysOK Pk Pnk) (j0 : Nat) (hj0 : j0 < (tmax - tmin).toNat)
    (hg : ∀ j, j < j0 → ZeroOK Pk Pnk (pmRun N Pk Pnk p (rhoOf N rho) (j + 1)).theta)
    (hb : ¬ ZeroOK Pk Pnk (pmRun N Pk Pnk p (rhoOf N rho) (j0 + 1)).theta) :
    GenGlue2.EBCM_pref_mix_discrete odeint myodeint N Pk Pnk p rho tmin tmax full = .error "ZeroDivisionError" := by
  obtain ⟨e, he, hd⟩ := EBCM_pref_mix_discrete_error odeint myodeint N Pk Pnk p rho tmin tmax full hK hrho j0 hj0
    (fun j hj => ⟨hk, hg j hj⟩) (fun hg' => hb hg'.2)
  rcases hd with ⟨-, hk'⟩ | ⟨rfl, -⟩
  · exact absurd hk hk'
  · exact he

/-- when degree 0 is not a key of any `Pnk[k1]` (or not a key of `Pk`) the zero condition holds for every θ -/
theorem ZeroOK_of_no_zero (Pk : List (Nat × Rat)) (Pnk : List (Nat × List (Nat × Rat))) (θ : Nat → Rat)
    (h : (∀ k1 ∈ keys Pk, 0 ∉ nksF Pnk k1) ∨ 0 ∉ keys Pk) : ZeroOK Pk Pnk θ := by
  rintro ⟨k1, hk1, h0⟩ h0'
  rcases h with h | h
  · exact absurd h0 (h k1 hk1)
  · exact absurd h0' h

/-- **no degree 0: the exact condition is the key condition**: no exception iff (`rho` given or `N ≠ 0`) and
(`tmax ≤ tmin` or all keys are present); otherwise `KeyError` (or the `ZeroDivisionError` of `1.0/N`) -/
theorem EBCM_pref_mix_discrete_ok_iff_keys (odeint myodeint : Solver) (N : Rat) (Pk : List (Nat × Rat))
    (Pnk : List (Nat × List (Nat × Rat))) (p : Rat) (rho : Option Rat) (tmin tmax : Int) (full : Bool)
    (hK : (keys Pk).Nodup) (h0 : (∀ k1 ∈ keys Pk, 0 ∉ nksF Pnk k1) ∨ 0 ∉ keys Pk) :
    (∃ res, GenGlue2.EBCM_pref_mix_discrete odeint myodeint N Pk Pnk p rho tmin tmax full = .ok res) ↔
      (rho.isSome ∨ N ≠ 0) ∧ (tmax ≤ tmin ∨ KeysOK Pk Pnk) := by
  rw [EBCM_pref_mix_discrete_ok_iff _ _ _ _ _ _ _ _ _ _ hK]
  refine and_congr_right (fun _ => ⟨fun h => ?_, fun h j hj => ?_⟩)
  · by_cases ht : tmax ≤ tmin
    · exact Or.inl ht
    · exact Or.inr (h 0 (by omega)).1
  · rcases h with h | h
    · omega
    · exact ⟨h, ZeroOK_of_no_zero Pk Pnk _ h0⟩

/-! ### 1b. the model run: initial state, conservation, the recursions of the source -/

/-- the state before the loop: `theta[k] = [1]`, `S = [N(1−ρ)]`, `I = [Nρ]`, `R = [0]`, `phiS = 1−ρ`, `phiI = ρ`,
`phiR = 0` -/
theorem pmRun_zero (N : Rat) (Pk : List (Nat × Rat)) (Pnk : List (Nat × List (Nat × Rat))) (p r : Rat) :
    pmRun N Pk Pnk p r 0 = prefMixDiscInit N r ∧
    (∀ k, (pmRun N Pk Pnk p r 0).theta k = 1) ∧ (pmRun N Pk Pnk p r 0).S = N * (1 - r) ∧
    (pmRun N Pk Pnk p r 0).I = N * r ∧ (pmRun N Pk Pnk p r 0).R = 0 ∧
    (∀ k, (pmRun N Pk Pnk p r 0).phiS k = 1 - r) ∧ (∀ k, (pmRun N Pk Pnk p r 0).phiI k = r) ∧
    (∀ k, (pmRun N Pk Pnk p r 0).phiR k = 0) :=
  ⟨rfl, fun _ => rfl, rfl, rfl, rfl, fun _ => rfl, fun _ => rfl, fun _ => rfl⟩

/-- `pmRun` IS the hand model `ODE.prefMixDiscRun` with `ks = Pk.keys()`, `nks k1 = Pnk[k1].keys()` -/
theorem pmRun_eq_model (N : Rat) (Pk : List (Nat × Rat)) (Pnk : List (Nat × List (Nat × Rat))) (p r : Rat) (n : Nat) :
    pmRun N Pk Pnk p r n = prefMixDiscRun (keys Pk) (nksF Pnk) N r p (pkF Pk) (pnkF Pnk) n := rfl

/-- **the recursions of the source** (one pass): `newtheta[k] = theta[k][-1] − p·phiI[k]`; `newR = R[-1] + I[-1]`;
`newS = N(1−ρ) Σ_k Pk[k]·newtheta[k]^k`; `newI = N − newR − newS`;
`phiS[k1] = (1−ρ) Σ_{k2 ∈ Pnk[k1]} Pnk[k1][k2]·newtheta[k2]^(k2−1)`; `phiR[k] += (1−p)·phiI[k]`;
`phiI[k] = newtheta[k] − phiS[k] − phiR[k]` (new `phiS`, `phiR`) -/
theorem pmRun_succ (N : Rat) (Pk : List (Nat × Rat)) (Pnk : List (Nat × List (Nat × Rat))) (p r : Rat) (n : Nat) :
    let a := pmRun N Pk Pnk p r n
    let b := pmRun N Pk Pnk p r (n + 1)
    (∀ k, b.theta k = a.theta k - p * a.phiI k) ∧
    b.R = a.R + a.I ∧
    b.S = N * (1 - r) * sumRat ((keys Pk).map fun k => pkF Pk k * b.theta k ^ k) ∧
    b.I = N - b.R - b.S ∧
    (∀ k1, b.phiS k1 = (1 - r) * sumRat ((nksF Pnk k1).map fun k2 => pnkF Pnk k1 k2 * powPred (b.theta k2) k2)) ∧
    (∀ k, b.phiR k = a.phiR k + (1 - p) * a.phiI k) ∧
    (∀ k, b.phiI k = b.theta k - b.phiS k - b.phiR k) :=
  ⟨fun _ => rfl, rfl, rfl, rfl, fun _ => rfl, fun _ => rfl, fun _ => rfl⟩

/-- **conservation** `S + I + R = N` after every number of passes -/
theorem pmRun_conserve (N : Rat) (Pk : List (Nat × Rat)) (Pnk : List (Nat × List (Nat × Rat))) (p r : Rat) (n : Nat) :
    (pmRun N Pk Pnk p r n).S + (pmRun N Pk Pnk p r n).I + (pmRun N Pk Pnk p r n).R = N := by
  cases n with
  | zero => obtain ⟨-, -, hS, hI, hR, -⟩ := pmRun_zero N Pk Pnk p r; rw [hS, hI, hR]; ring
  | succ n => obtain ⟨-, -, -, hI, -⟩ := pmRun_succ N Pk Pnk p r n; rw [hI]; ring

/-! ### 1c. the specification in terms of the returned arrays -/

theorem ofList_range_f (F : Nat → Rat) (m n : Nat) (h : n ≤ m) : (V.ofList ((List.range (m + 1)).map F)).f n = F n := by
  simp [V.ofList, List.getD, show n < m + 1 by omega]

/-- **the specification of the general loop.**  Under the hypotheses of `EBCM_pref_mix_discrete_eq`, with
`m = (tmax − tmin).toNat`: the call returns 4 arrays (5 with `return_full_data`, the fifth being the dict `theta`); all
of them (and every `theta[k]`) have length `m + 1`; `times = tmin, …, tmin + m`; at every index `S + I + R = N`;
`S(0) = N(1−ρ)`, `I(0) = Nρ`, `R(0) = 0`, `theta[k](0) = 1`; `R(n+1) = R(n) + I(n)`;
`S(n+1) = N(1−ρ) Σ_k Pk[k]·theta[k](n+1)^k`; and `S`, `I`, `R`, `theta[k]` are the columns of the hand model -/
theorem EBCM_pref_mix_discrete_spec (odeint myodeint : Solver) (N : Rat) (Pk : List (Nat × Rat))
    (Pnk : List (Nat × List (Nat × Rat))) (p : Rat) (rho : Option Rat) (tmin tmax : Int)
    (hK : (keys Pk).Nodup) (hrho : rho.isSome ∨ N ≠ 0)
    (hg : ∀ j, j < (tmax - tmin).toNat → Good N Pk Pnk p (rhoOf N rho) (pmRun N Pk Pnk p (rhoOf N rho) j)) :
    let m := (tmax - tmin).toNat
    let run := pmRun N Pk Pnk p (rhoOf N rho)
    ∃ times S I R : V, ∃ theta : Nat → List Rat,
      GenGlue2.EBCM_pref_mix_discrete odeint myodeint N Pk Pnk p rho tmin tmax false
        = .ok (PyGlue2.V0, [Out.v times, Out.v S, Out.v I, Out.v R]) ∧
      GenGlue2.EBCM_pref_mix_discrete odeint myodeint N Pk Pnk p rho tmin tmax true
        = .ok (PyGlue2.V0, [Out.v times, Out.v S, Out.v I, Out.v R, Out.dl (mkD (keys Pk) theta)]) ∧
      times.n = m + 1 ∧ S.n = m + 1 ∧ I.n = m + 1 ∧ R.n = m + 1 ∧ (∀ k, (theta k).length = m + 1) ∧
      (∀ n, n ≤ m → times.f n = ((tmin + (n : Int) : Int) : Rat) ∧ S.f n + I.f n + R.f n = N ∧
        S.f n = (run n).S ∧ I.f n = (run n).I ∧ R.f n = (run n).R ∧ ∀ k, (theta k).getD n 0 = (run n).theta k) ∧
      S.f 0 = N * (1 - rhoOf N rho) ∧ I.f 0 = N * rhoOf N rho ∧ R.f 0 = 0 ∧ (∀ k, (theta k).getD 0 0 = 1) ∧
      (∀ n, n < m → R.f (n + 1) = R.f n + I.f n ∧
        S.f (n + 1) = N * (1 - rhoOf N rho) *
          sumRat ((keys Pk).map fun k => pkF Pk k * (theta k).getD (n + 1) 0 ^ k) ∧
        ∀ k, (theta k).getD (n + 1) 0 = (theta k).getD n 0 - p * (run n).phiI k) := by
  intro m run
  have hcol : ∀ (F : Nat → Rat) n, n ≤ m → ((List.range (m + 1)).map F).getD n 0 = F n := fun F n h =>
    ofList_range_f F m n h
  refine ⟨_, _, _, _, fun k => (List.range (m + 1)).map (fun j => (run j).theta k),
    EBCM_pref_mix_discrete_eq odeint myodeint N Pk Pnk p rho tmin tmax false hK hrho hg,
    EBCM_pref_mix_discrete_eq odeint myodeint N Pk Pnk p rho tmin tmax true hK hrho hg,
    by simp [m], by simp [m], by simp [m], by simp [m], fun k => by simp, ?_, ?_, ?_, ?_, ?_, ?_⟩
  · intro n hn
    rw [ofList_range_f _ _ _ hn, ofList_range_f _ _ _ hn, ofList_range_f _ _ _ hn, ofList_range_f _ _ _ hn]
    exact ⟨rfl, pmRun_conserve N Pk Pnk p (rhoOf N rho) n, rfl, rfl, rfl, fun k => hcol _ n hn⟩
  · rw [ofList_range_f _ _ _ (Nat.zero_le m)]; rfl
  · rw [ofList_range_f _ _ _ (Nat.zero_le m)]; rfl
  · rw [ofList_range_f _ _ _ (Nat.zero_le m)]; rfl
  · intro k; rw [hcol _ 0 (Nat.zero_le m)]; rfl
  · intro n hn
    rw [ofList_range_f _ _ _ (show n + 1 ≤ m by omega), ofList_range_f _ _ _ (show n ≤ m by omega),
      ofList_range_f _ _ _ (show n ≤ m by omega), ofList_range_f _ _ _ (show n + 1 ≤ m by omega)]
    refine ⟨rfl, ?_, fun k => ?_⟩
    · have : ∀ k, ((List.range (m + 1)).map (fun j => (run j).theta k)).getD (n + 1) 0 = (run (n + 1)).theta k :=
        fun k => hcol _ (n + 1) (by omega)
      simp only [this]
      rfl
    · rw [hcol _ (n + 1) (by omega), hcol _ n (by omega)]; rfl

/-! ### 1d. closed examples (kernel-checked) -/

/-- the instance of C06f (`Pk = {1: 1/2, 2: 1/2}`): the hypotheses of the theorems hold … -/
example : (keys [((1 : Nat), (1/2 : Rat)), (2, 1/2)]).Nodup ∧
    KeysOK [(1, 1/2), (2, 1/2)] [(1, [(1, 1/3), (2, 2/3)]), (2, [(1, 1/3), (2, 2/3)])] ∧
    ¬ KeysOK [(1, 1/2), (2, 1/2)] [(1, [(1, 1/3), (3, 2/3)]), (2, [(1, 1/3), (2, 2/3)])] := by
  unfold KeysOK
  decide +kernel
/-- … so `EBCM_pref_mix_discrete_ok_iff_keys` decides the outcome for every `p`, `rho`, `tmin`, `tmax` -/
example (p r : Rat) (tmin tmax : Int) (full : Bool) :
    ∃ res, GenGlue2.EBCM_pref_mix_discrete constOdeint constOdeint 100 [(1, 1/2), (2, 1/2)]
      [(1, [(1, 1/3), (2, 2/3)]), (2, [(1, 1/3), (2, 2/3)])] p (some r) tmin tmax full = .ok res :=
  (EBCM_pref_mix_discrete_ok_iff_keys constOdeint constOdeint 100 _ _ p (some r) tmin tmax full (by decide)
    (Or.inr (by decide))).mpr ⟨Or.inl rfl, Or.inr (by unfold KeysOK; decide +kernel)⟩
/-- full data: the dict `theta` (flattened: `theta[1]` then `theta[2]`), two passes -/
example : rowAt (GenGlue2.EBCM_pref_mix_discrete constOdeint constOdeint 100 [(1, 1/2), (2, 1/2)]
    [(1, [(1, 1/3), (2, 2/3)]), (2, [(1, 1/3), (2, 2/3)])] (1/2) (some (1/10)) 0 2 true) 0
    = .inr ([], [[0, 1, 2], [90, 6669/80, 651321/8000], [10, 531/80, 15579/8000], [0, 10, 1331/80],
        [1, 19/20, 187/200, 1, 19/20, 187/200]]) := by decide +kernel
/-- **`S(0)` is `N(1 − rho)`, not `N(1 − rho) Σ Pk[k]·1^k`**: the formula for `S` holds from the first pass on only (unless
`Σ Pk = 1`).  `Pk = {1: 1/2}`: `S = [90, 171/4]` while the formula at index 0 gives 45 -/
example : rowAt (GenGlue2.EBCM_pref_mix_discrete constOdeint constOdeint 100 [(1, 1/2)] [(1, [(1, 1)])] (1/2)
    (some (1/10)) 0 1 false) 0 = .inr ([], [[0, 1], [90, 171/4], [10, 189/4], [0, 10]]) := by decide +kernel
/-- `ZeroDivisionError`: degree 0 is a key and `theta[0]` becomes `1 − p·rho = 0` in the first pass (`0.0 ** -1`) -/
example : rowAt (GenGlue2.EBCM_pref_mix_discrete constOdeint constOdeint 100 [(0, 1/2), (1, 1/2)]
    [(0, [(0, 1)]), (1, [(0, 1)])] 1 (some 1) 0 2 false) 0 = .inl "ZeroDivisionError" := by decide +kernel
/-- both conditions fail: which exception is raised depends on the iteration order of `Pnk[0]` -/
example : rowAt (GenGlue2.EBCM_pref_mix_discrete constOdeint constOdeint 100 [(0, 1/2), (1, 1/2)]
    [(0, [(0, 1), (5, 1)]), (1, [(0, 1)])] 1 (some 1) 0 2 false) 0 = .inl "ZeroDivisionError" := by decide +kernel
example : rowAt (GenGlue2.EBCM_pref_mix_discrete constOdeint constOdeint 100 [(0, 1/2), (1, 1/2)]
    [(0, [(5, 1), (0, 1)]), (1, [(0, 1)])] 1 (some 1) 0 2 false) 0 = .inl "KeyError" := by decide +kernel
/-- degree 0 as a key with `theta[0] ≠ 0`: no exception (`theta[0] ** -1 = 1/theta[0]`) -/
example : rowAt (GenGlue2.EBCM_pref_mix_discrete constOdeint constOdeint 100 [(0, 1/2), (1, 1/2)]
    [(0, [(0, 1)]), (1, [(0, 1)])] (1/2) (some 1) 0 3 false) 0
    = .inr ([], [[0, 1, 2, 3], [0, 0, 0, 0], [100, 0, 0, 0], [0, 100, 100, 100]]) := by decide +kernel
/-- **why `(keys Pk).Nodup`**: with a repeated key (impossible for a Python dict) the first `theta[1]` list gets two
appends per pass (length 5 after two passes), the second none -/
example : rowAt (GenGlue2.EBCM_pref_mix_discrete constOdeint constOdeint 100 [(1, 1/2), (1, 1/2)]
    [(1, [(1, 1)])] (1/2) (some (1/10)) 0 2 true) 0
    = .inr ([], [[0, 1, 2], [90, 171/2, 171/2], [10, 9/2, 0], [0, 10, 29/2], [1, 19/20, 19/20, 19/20, 19/20, 1]]) := by
  decide +kernel

/-! ### 1e. uncorrelated mixing: the run is that of `EBCM_discrete` (composition with C07c) -/

/-- the model run depends on `Pnk[k1][k2]` only for the keys `k2` of `Pnk[k1]` -/
theorem prefMixDiscRun_congr (ks : List Nat) (nks : Nat → List Nat) (N rho p : Rat) (Pk : Nat → Rat)
    (Pnk Pnk' : Nat → Nat → Rat) (h : ∀ k1 k2, k2 ∈ nks k1 → Pnk k1 k2 = Pnk' k1 k2) (n : Nat) :
    prefMixDiscRun ks nks N rho p Pk Pnk n = prefMixDiscRun ks nks N rho p Pk Pnk' n := by
  induction n with
  | zero => rfl
  | succ n ih =>
    have step : ∀ st, prefMixDiscStep ks nks N rho p Pk Pnk st = prefMixDiscStep ks nks N rho p Pk Pnk' st := by
      intro st
      have e : ∀ (θ : Nat → Rat) k1, ((nks k1).map fun k2 => Pnk k1 k2 * powPred (θ k2) k2)
          = ((nks k1).map fun k2 => Pnk' k1 k2 * powPred (θ k2) k2) := fun θ k1 =>
        List.map_congr_left (fun k2 hk2 => by rw [h k1 k2 hk2])
      simp only [prefMixDiscStep, e]
    show prefMixDiscStep ks nks N rho p Pk Pnk (prefMixDiscRun ks nks N rho p Pk Pnk n) = 
      prefMixDiscStep ks nks N rho p Pk Pnk' (prefMixDiscRun ks nks N rho p Pk Pnk' n)
    rw [ih, step]

theorem lkD_of_not_mem {α : Type} (d : List (Nat × α)) (k : Nat) (dflt : α) (h : k ∉ keys d) : lkD d k dflt = dflt := by
  induction d with
  | nil => rfl
  | cons a t ih =>
    have h1 : a.1 ≠ k := fun e => h (by simp [keys, e])
    have h2 : k ∉ keys t := fun hm => h (by simp only [keys, List.map_cons, List.mem_cons] at hm ⊢; exact Or.inr hm)
    rw [lkD_cons_ne _ _ _ _ h1, ih h2]

/-- **uncorrelated mixing: the model run is the run of `EBCM_discrete`.**  Dict form of
`ODE.ebcmDiscrete_prefmix_uncorrelated_run` (C07c): keys of `Pk` distinct and below `K`; every used `Pnk[k1]` has
distinct keys, all of them keys of `Pk`, containing every degree `d'` with `d'·Pk[d'] ≠ 0`;
`Pnk[k1][k2] = k2·Pk[k2]/⟨k⟩` on its keys; `p ≠ 0`, `⟨k⟩ = Σ k Pk[k] ≠ 0`, `Σ Pk = 1`.  Then after every number of passes
`S`, `I`, `R` and every `theta[k]` are those of `EBCM_discrete(N, (1−ρ)ψ, (1−ρ)ψ', p, 1−ρ, 0, 0)` (model
`ODE.ebcmDiscRun`) -/
theorem pmRun_uncorrelated (N : Rat) (Pk : List (Nat × Rat)) (Pnk : List (Nat × List (Nat × Rat))) (p r : Rat)
    (hK : (keys Pk).Nodup) (K : Nat) (hKb : ∀ d ∈ keys Pk, d < K)
    (hnd : ∀ d ∈ keys Pk, (nksF Pnk d).Nodup) (hsub : ∀ d ∈ keys Pk, ∀ d' ∈ nksF Pnk d, d' ∈ keys Pk)
    (hunc : ∀ k1 k2, k2 ∈ nksF Pnk k1 → pnkF Pnk k1 k2 = (k2 : Rat) * pkF Pk k2 / psiHP K (pkF Pk) 1)
    (hfull : ∀ d ∈ keys Pk, ∀ d', d' ∉ nksF Pnk d → (d' : Rat) * pkF Pk d' = 0)
    (hp : p ≠ 0) (hmean : psiHP K (pkF Pk) 1 ≠ 0) (hsum : psiH K (pkF Pk) 1 = 1) (n : Nat) :
    let st := pmRun N Pk Pnk p r n
    let y := ebcmDiscRun K (fun k => (1 - r) * pkF Pk k) N p (1 - r) 0 0 n
    (∀ d ∈ keys Pk, st.theta d = y.1) ∧ st.S = y.2.1 ∧ st.I = y.2.2.1 ∧ st.R = y.2.2.2 := by
  have e : pmRun N Pk Pnk p r n = prefMixDiscRun (keys Pk) (nksF Pnk) N r p (pkF Pk)
      (fun _ d' => (d' : Rat) * pkF Pk d' / psiHP K (pkF Pk) 1) n :=
    prefMixDiscRun_congr _ _ _ _ _ _ _ _ hunc n
  intro st y
  have := ODE.ebcmDiscrete_prefmix_uncorrelated_run (keys Pk) hK K hKb (nksF Pnk) hnd hsub N r p (pkF Pk)
    (fun d hd => lkD_of_not_mem Pk d 0 hd) hfull hp hmean hsum n
  simp only [st, y, e]
  exact this


/-- **the generated `EBCM_pref_mix_discrete` with uncorrelated mixing returns the `S, I, R` of `EBCM_discrete`** (model
`ODE.ebcmDiscRun` with `psihat = (1−ρ)ψ`, `phiS0 = 1−ρ`, `phiR0 = 0`, `R0 = 0`) at every index -/
theorem EBCM_pref_mix_discrete_uncorrelated (odeint myodeint : Solver) (N : Rat) (Pk : List (Nat × Rat))
    (Pnk : List (Nat × List (Nat × Rat))) (p : Rat) (rho : Option Rat) (tmin tmax : Int)
    (hK : (keys Pk).Nodup) (hrho : rho.isSome ∨ N ≠ 0)
    (hg : ∀ j, j < (tmax - tmin).toNat → Good N Pk Pnk p (rhoOf N rho) (pmRun N Pk Pnk p (rhoOf N rho) j))
    (K : Nat) (hKb : ∀ d ∈ keys Pk, d < K)
    (hnd : ∀ d ∈ keys Pk, (nksF Pnk d).Nodup) (hsub : ∀ d ∈ keys Pk, ∀ d' ∈ nksF Pnk d, d' ∈ keys Pk)
    (hunc : ∀ k1 k2, k2 ∈ nksF Pnk k1 → pnkF Pnk k1 k2 = (k2 : Rat) * pkF Pk k2 / psiHP K (pkF Pk) 1)
    (hfull : ∀ d ∈ keys Pk, ∀ d', d' ∉ nksF Pnk d → (d' : Rat) * pkF Pk d' = 0)
    (hp : p ≠ 0) (hmean : psiHP K (pkF Pk) 1 ≠ 0) (hsum : psiH K (pkF Pk) 1 = 1) :
    ∃ times S I R : V,
      GenGlue2.EBCM_pref_mix_discrete odeint myodeint N Pk Pnk p rho tmin tmax false
        = .ok (PyGlue2.V0, [Out.v times, Out.v S, Out.v I, Out.v R]) ∧
      ∀ n, n ≤ (tmax - tmin).toNat →
        S.f n = (ebcmDiscRun K (fun k => (1 - rhoOf N rho) * pkF Pk k) N p (1 - rhoOf N rho) 0 0 n).2.1 ∧
        I.f n = (ebcmDiscRun K (fun k => (1 - rhoOf N rho) * pkF Pk k) N p (1 - rhoOf N rho) 0 0 n).2.2.1 ∧
        R.f n = (ebcmDiscRun K (fun k => (1 - rhoOf N rho) * pkF Pk k) N p (1 - rhoOf N rho) 0 0 n).2.2.2 := by
  obtain ⟨times, S, I, R, theta, h1, -, -, -, -, -, -, hcol, -⟩ :=
    EBCM_pref_mix_discrete_spec odeint myodeint N Pk Pnk p rho tmin tmax hK hrho hg
  refine ⟨times, S, I, R, h1, fun n hn => ?_⟩
  obtain ⟨-, -, hS, hI, hR, -⟩ := hcol n hn
  obtain ⟨-, eS, eI, eR⟩ := pmRun_uncorrelated N Pk Pnk p (rhoOf N rho) hK K hKb hnd hsub hunc hfull hp hmean hsum n
  exact ⟨hS.trans eS, hI.trans eI, hR.trans eR⟩

/-- the hypotheses are satisfiable: degrees 1 and 3 with probability 1/2 each, `⟨k⟩ = 2`,
`Pnk[·] = {1: 1/4, 3: 3/4}` -/
example (tmin tmax : Int) : ∃ times S I R : V,
    GenGlue2.EBCM_pref_mix_discrete constOdeint constOdeint 100 [(1, 1/2), (3, 1/2)]
      [(1, [(1, 1/4), (3, 3/4)]), (3, [(1, 1/4), (3, 3/4)])] (1/2) (some (1/10)) tmin tmax false
      = .ok (PyGlue2.V0, [Out.v times, Out.v S, Out.v I, Out.v R]) ∧
    ∀ n, n ≤ (tmax - tmin).toNat →
      S.f n = (ebcmDiscRun 4 (fun k => (1 - 1/10) * pkF [(1, 1/2), (3, 1/2)] k) 100 (1/2) (1 - 1/10) 0 0 n).2.1 ∧
      I.f n = (ebcmDiscRun 4 (fun k => (1 - 1/10) * pkF [(1, 1/2), (3, 1/2)] k) 100 (1/2) (1 - 1/10) 0 0 n).2.2.1 ∧
      R.f n = (ebcmDiscRun 4 (fun k => (1 - 1/10) * pkF [(1, 1/2), (3, 1/2)] k) 100 (1/2) (1 - 1/10) 0 0 n).2.2.2 := by
  have hk : KeysOK [(1, 1/2), (3, 1/2)] [(1, [(1, 1/4), (3, 3/4)]), (3, [(1, 1/4), (3, 3/4)])] := by
    unfold KeysOK; decide +kernel
  have hnk : ∀ k1, k1 ≠ 1 → k1 ≠ 3 → nksF [(1, [(1, (1/4 : Rat)), (3, 3/4)]), (3, [(1, 1/4), (3, 3/4)])] k1 = [] := by
    intro k1 h1 h3
    unfold nksF
    rw [lkD_of_not_mem _ _ _ (by simp [keys, h1, h3])]
    rfl
  have hpk : ∀ d, d ≠ 1 → d ≠ 3 → pkF [(1, (1/2 : Rat)), (3, 1/2)] d = 0 := fun d h1 h3 =>
    lkD_of_not_mem _ _ _ (by simp [keys, h1, h3])
  exact EBCM_pref_mix_discrete_uncorrelated constOdeint constOdeint 100 _ _ (1/2) (some (1/10)) tmin tmax (by decide)
    (Or.inl rfl) (fun j _ => ⟨hk, ZeroOK_of_no_zero _ _ _ (Or.inr (by decide))⟩) 4 (by decide) (by decide +kernel)
    (fun d hd => (hk d hd).2) (by
      intro k1 k2 h
      by_cases h1 : k1 = 1
      · subst h1
        have : k2 = 1 ∨ k2 = 3 := by simpa [nksF, keys, lkD] using h
        rcases this with rfl | rfl <;> decide +kernel
      · by_cases h3 : k1 = 3
        · subst h3
          have : k2 = 1 ∨ k2 = 3 := by simpa [nksF, keys, lkD] using h
          rcases this with rfl | rfl <;> decide +kernel
        · rw [hnk k1 h1 h3] at h; cases h)
    (by
      intro d hd d' hd'
      have hd1 : d = 1 ∨ d = 3 := by simpa [keys] using hd
      have : d' ≠ 1 ∧ d' ≠ 3 := by
        rcases hd1 with rfl | rfl <;>
        · constructor <;> (rintro rfl; exact hd' (by decide +kernel))
      rw [hpk d' this.1 this.2]; simp)
    (by decide +kernel) (by decide +kernel) (by decide +kernel)

/-! ## 5. the pair-based functions for ALL inputs: exact success conditions (including node lists whose length differs
from `G.order()`), the entries of `X0` (`XY0`, `XX0` masked by the adjacency matrix), conservation and initial state for
every normal return, `SIR_pair_based_error_XX0`, `SIR_pair_based_pure_IC` without `initial_recovereds`

Structure: `SIS_pair_based_eq` / `SIR_pair_based_eq` split the generated function into the argument guards
(`pairGuard`), the shape checks (`pairMidSIS/SIR`) and the core (`pairCoreSIS/SIR`, a verbatim copy of the generated
tail: the equations are proved by `rfl`). -/

/-- the part of `SIS_pair_based` after all arguments are resolved: masking by the adjacency matrix of the node list
`nl`, packing of `X0`, the solver call, the returned arrays -/
def pairCoreSIS (myodeint : Solver) (N : Nat) (nbrs : Nat → List Nat) (tr : Nat → Nat → Rat) (rr : Nat → Rat)
    (nl : List Nat) (Y0 : V) (XY0 XX0 : Mx) (times : Nat → Rat) (return_full_data : Bool) : Res := do
  let A : Mx := (PyGlue2.adj nl nbrs)
  let t_7 : Mx ← PyGlue2.Mx.op (fun a b => a * b) XY0 A
  let t_8 : Mx ← PyGlue2.Mx.op (fun a b => a * b) XX0 A
  let t_9 : Mx ← PyGlue2.Mx.reshape t_7 ((N ^ 2)) (1)
  let t_10 : Mx ← PyGlue2.Mx.reshape t_8 ((N ^ 2)) (1)
  let t_11 : Mx := PyGlue2.Mx.col Y0
  let t_12 : Mx ← PyGlue2.Mx.vcat t_11 t_9
  let t_13 : Mx ← PyGlue2.Mx.vcat t_12 t_10
  let t_14 : Mx := (PyGlue2.Mx.T t_13)
  let t_15 : Gen.V ← PyGlue2.Mx.getRow t_14 0
  let x0_ : Gen.V := t_15
  let V_ : Nat → Gen.V := myodeint (fun st => Gen.dSIS_pair_based st (nl.length) nbrs tr rr) x0_
  let V__n : Nat := x0_.n
  let n_1 : Nat := PyGlue2.sliceLen (V__n) (0) (N)
  let Ys_n : Nat := n_1
  let Ys : Nat → Gen.V := fun i => (PyGlue2.vslice (V__n) (V_ i) (0) (N))
  let I : Nat → Rat := fun i => (PyGlue2.vsum (Ys_n) (Ys i))
  let t_16 : Gen.V := (PyGlue2.vones N)
  let n_2 : Nat ← PyGlue2.bdim (t_16.n) (Ys_n)
  let Xs_n : Nat := n_2
  let Xs : Nat → Gen.V := fun i => (⟨n_2, fun k => (t_16.f (PyGlue2.bidx (t_16.n) k) - (Ys i).f (PyGlue2.bidx (Ys_n) k))⟩ : Gen.V)
  let S : Nat → Rat := fun i => (PyGlue2.vsum (Xs_n) (Xs i))
  if return_full_data then
    let n_3 : Nat := PyGlue2.sliceLen (V__n) (N) ((N + (N ^ 2)))
    let XY_n : Nat := n_3
    let XY : Nat → Gen.V := fun i => (PyGlue2.vslice (V__n) (V_ i) (N) ((N + (N ^ 2))))
    let n_4 : Nat := PyGlue2.sliceLen (V__n) ((N + (N ^ 2))) (V__n)
    let XX_n : Nat := n_4
    let XX : Nat → Gen.V := fun i => (PyGlue2.vslice (V__n) (V_ i) ((N + (N ^ 2))) (V__n))
    if (XY_n) ≠ (N) * (N) then throw "ValueError"
    let a_1 : Nat := N
    let b_1 : Nat := N
    if (XX_n) ≠ (N) * (N) then throw "ValueError"
    let a_2 : Nat := N
    let b_2 : Nat := N
    return (x0_, [Out.s (fun i => (times i)), Out.s (fun i => (S i)), Out.s (fun i => (I i)), Out.m (Xs_n) (fun i => (Xs i)), Out.m (Ys_n) (fun i => (Ys i)), Out.c (a_1) (b_1) (fun i => (XY i)), Out.c (a_2) (b_2) (fun i => (XX i))])
  else
    return (x0_, [Out.s (fun i => (times i)), Out.s (fun i => (S i)), Out.s (fun i => (I i))])

/-- the default `XY0 = X0[:,None] * Y0[None,:]` with `X0 = 1 − Y0` -/
def xyDefault (x y : V) : Mx := ⟨x.n, y.n, fun i j => x.f (bidx x.n i) * y.f (bidx y.n j)⟩

theorem op_col_row (x y : V) : Mx.op (fun a b => a * b) (Mx.col x) (Mx.row y) = .ok (xyDefault x y) := by
  unfold Mx.op
  simp only [Mx.col, Mx.row, bdim_one_right, bdim_one_left, ok_bind, pure_eq_ok]
  rfl

/-- the shape checks of `XY0`, `XX0` (defaults never fail), then the core -/
def pairMidSIS (myodeint : Solver) (N : Nat) (nbrs : Nat → List Nat) (tr : Nat → Nat → Rat) (rr : Nat → Rat)
    (nl : List Nat) (Y0 : V) (XY0 XX0 : Option Mx) (times : Nat → Rat) (full : Bool) : Res :=
  if Y0.n ≠ N then .error "EoNError" else
  match XY0 with
  | some xy =>
    if ¬ (xy.r = N ∧ xy.c = N) then .error "EoNError" else
    match XX0 with
    | some xx => if ¬ (xx.r = N ∧ xx.c = N) then .error "EoNError" else
        pairCoreSIS myodeint N nbrs tr rr nl Y0 xy xx times full
    | none => pairCoreSIS myodeint N nbrs tr rr nl Y0 xy (xyDefault (vcompl Y0) (vcompl Y0)) times full
  | none =>
    match XX0 with
    | some xx => if ¬ (xx.r = N ∧ xx.c = N) then .error "EoNError" else
        pairCoreSIS myodeint N nbrs tr rr nl Y0 (xyDefault (vcompl Y0) Y0) xx times full
    | none => pairCoreSIS myodeint N nbrs tr rr nl Y0 (xyDefault (vcompl Y0) Y0) (xyDefault (vcompl Y0) (vcompl Y0)) times full

theorem SIS_pair_based_mid (odeint myodeint : Solver) (GN : Nat) (nbrs : Nat → List Nat) (tr : Nat → Nat → Rat)
    (rr : Nat → Rat) (nl : List Nat) (y : V) (XY0 XX0 : Option Mx) (tmin tmax : Rat) (tcount : Nat) (full : Bool) :
    GenGlue2.SIS_pair_based odeint myodeint GN nbrs tr rr none (some nl) (some y) XY0 XX0 tmin tmax tcount full =
      pairMidSIS myodeint GN nbrs tr rr nl y XY0 XX0 (linspace tmin tmax tcount) full := by
  have hc : ∀ (y : V), (⟨y.n, fun k => 1 - y.f k⟩ : V) = vcompl y := fun _ => rfl
  unfold GenGlue2.SIS_pair_based pairMidSIS
  by_cases hy : y.n = GN
  · cases XY0 <;> cases XX0 <;>
      simp only [hy, hc, op_col_row, Option.isNone_none, Option.isNone_some, Option.isSome_none, Option.isSome_some,
        Bool.and_false, Bool.false_and, Bool.and_true, Bool.true_and, Bool.false_eq_true, if_false, if_true, need_some,
        ok_bind, pure_eq_ok, ne_eq, not_true_eq_false, decide_false, decide_true, not_false_eq_true, Prod.mk.injEq,
        decide_not, Bool.not_eq_true', decide_eq_false_iff_not, Bool.not_eq_eq_eq_not, Bool.not_true] <;>
      rfl
  · simp [hy]

/-- the adjacency indicator `A[i][j]` of the node list -/
def adjF (nl : List Nat) (nbrs : Nat → List Nat) (i j : Nat) : Rat :=
  if (nbrs (nl.getD i 0)).contains (nl.getD j 0) then 1 else 0

theorem divmod_lt (N i j : Nat) (hj : j < N) : (i * N + j) / N = i ∧ (i * N + j) % N = j := by
  have hN : 0 < N := by omega
  constructor
  · rw [Nat.add_comm, Nat.add_mul_div_right _ _ hN, Nat.div_eq_of_lt hj]; omega
  · rw [Nat.add_comm, Nat.add_mul_mod_self_right, Nat.mod_eq_of_lt hj]

theorem lin_lt (N i j : Nat) (hi : i < N) (hj : j < N) : i * N + j < N ^ 2 := by
  have h : (i + 1) * N ≤ N * N := Nat.mul_le_mul_right N (by omega)
  have e : (i + 1) * N = i * N + N := by ring
  have e2 : N ^ 2 = N * N := by ring
  omega

theorem pairCoreSIS_eq (myodeint : Solver) (N : Nat) (nbrs : Nat → List Nat) (tr : Nat → Nat → Rat) (rr : Nat → Rat)
    (nl : List Nat) (y : V) (XY XX : Mx) (T : Nat → Rat) (full : Bool)
    (hy : y.n = N) (hxy : XY.r = N ∧ XY.c = N) (hxx : XX.r = N ∧ XX.c = N) (hl : nl.length = N) :
    ∃ x0, pairCoreSIS myodeint N nbrs tr rr nl y XY XX T full
      = .ok (x0, outSISPair T N full (myodeint (fun st => Gen.dSIS_pair_based st N nbrs tr rr) x0)) ∧
      x0.n = N + N ^ 2 + N ^ 2 ∧ (∀ k, k < N → x0.f k = y.f k) ∧
      (∀ i j, i < N → j < N → x0.f (N + (i * N + j)) = XY.f i j * adjF nl nbrs i j) ∧
      (∀ i j, i < N → j < N → x0.f (N + N ^ 2 + (i * N + j)) = XX.f i j * adjF nl nbrs i j) := by
  have hsq : N * N = N ^ 2 := by ring
  unfold pairCoreSIS
  cases full <;>
    simp [Mx.op, Mx.col, Mx.row, adj, hl, hy, hxy.1, hxy.2, hxx.1, hxx.2, Mx.reshape, Mx.vcat, Mx.getRow, Mx.T, hsq,
      vslice, vsum, sl3_0, sl3_1, sl3_2, so3_1, so3_2, outSISPair]
  all_goals (
    refine ⟨fun k hk => ?_, fun i j hi hj => ?_, fun i j hi hj => ?_⟩
    · rw [if_pos (by omega), if_pos hk]
    · have h1 : i * N + j < N ^ 2 := lin_lt N i j hi hj
      obtain ⟨d1, d2⟩ := divmod_lt N i j hj
      rw [if_pos h1, d1, Nat.mod_eq_of_lt hj, bidx_lt _ _ hi, bidx_lt _ _ hj]
      unfold adjF
      simp only [List.getD_eq_getElem?_getD, List.contains_iff_mem]
      split <;> simp
    · obtain ⟨d1, d2⟩ := divmod_lt N i j hj
      rw [d1, Nat.mod_eq_of_lt hj, bidx_lt _ _ hi, bidx_lt _ _ hj]
      unfold adjF
      simp only [List.getD_eq_getElem?_getD, List.contains_iff_mem]
      split <;> simp)

theorem bidx_one (k : Nat) : bidx 1 k = 0 := by simp [bidx]

theorem sq_ne_one (L : Nat) (h : L ≠ 1) : ¬ (L * L = 1) := by
  intro e
  have : L = 1 := by
    rcases Nat.lt_or_ge L 2 with h2 | h2
    · have : L = 0 ∨ L = 1 := by omega
      rcases this with rfl | rfl
      · simp at e
      · rfl
    · have : 2 * 2 ≤ L * L := Nat.mul_le_mul h2 h2
      omega
  exact h this

/-- **surprise: a node list of length 1 is accepted on any graph** (the 1×1 adjacency matrix is broadcast: every pair
variable is multiplied by "node `nl[0]` is its own neighbour"); the right-hand side is then called with node count 1 on a
state vector for `N` nodes -/
theorem pairCoreSIS_one (myodeint : Solver) (N : Nat) (nbrs : Nat → List Nat) (tr : Nat → Nat → Rat) (rr : Nat → Rat)
    (nl : List Nat) (y : V) (XY XX : Mx) (T : Nat → Rat) (full : Bool)
    (hy : y.n = N) (hxy : XY.r = N ∧ XY.c = N) (hxx : XX.r = N ∧ XX.c = N) (hl : nl.length = 1) :
    ∃ x0, pairCoreSIS myodeint N nbrs tr rr nl y XY XX T full
      = .ok (x0, outSISPair T N full (myodeint (fun st => Gen.dSIS_pair_based st 1 nbrs tr rr) x0)) ∧
      x0.n = N + N ^ 2 + N ^ 2 ∧ (∀ k, k < N → x0.f k = y.f k) ∧
      (∀ i j, i < N → j < N → x0.f (N + (i * N + j)) = XY.f i j * adjF nl nbrs 0 0) ∧
      (∀ i j, i < N → j < N → x0.f (N + N ^ 2 + (i * N + j)) = XX.f i j * adjF nl nbrs 0 0) := by
  have hsq : N * N = N ^ 2 := by ring
  unfold pairCoreSIS
  cases full <;>
    simp [Mx.op, Mx.col, Mx.row, adj, hl, hy, hxy.1, hxy.2, hxx.1, hxx.2, Mx.reshape, Mx.vcat, Mx.getRow, Mx.T, hsq,
      vslice, vsum, sl3_0, sl3_1, sl3_2, so3_1, so3_2, outSISPair]
  all_goals (
    refine ⟨fun k hk => ?_, fun i j hi hj => ?_, fun i j hi hj => ?_⟩
    · rw [if_pos (by omega), if_pos hk]
    · have h1 : i * N + j < N ^ 2 := lin_lt N i j hi hj
      obtain ⟨d1, d2⟩ := divmod_lt N i j hj
      rw [if_pos h1, d1, Nat.mod_eq_of_lt hj, bidx_lt _ _ hi, bidx_lt _ _ hj]
      unfold adjF
      simp only [bidx_one, List.getD_eq_getElem?_getD, List.contains_iff_mem]
      split <;> simp
    · obtain ⟨d1, d2⟩ := divmod_lt N i j hj
      rw [d1, Nat.mod_eq_of_lt hj, bidx_lt _ _ hi, bidx_lt _ _ hj]
      unfold adjF
      simp only [bidx_one, List.getD_eq_getElem?_getD, List.contains_iff_mem]
      split <;> simp)

/-- a node list whose length is neither `N` nor 1: NumPy's `ValueError` (broadcasting `XY0 * A`, or — for `N = 1` — the
reshape of the broadcast product) -/
theorem pairCoreSIS_err (myodeint : Solver) (N : Nat) (nbrs : Nat → List Nat) (tr : Nat → Nat → Rat) (rr : Nat → Rat)
    (nl : List Nat) (y : V) (XY XX : Mx) (T : Nat → Rat) (full : Bool)
    (hxy : XY.r = N ∧ XY.c = N) (hxx : XX.r = N ∧ XX.c = N) (hl : nl.length ≠ N) (h1 : nl.length ≠ 1) :
    pairCoreSIS myodeint N nbrs tr rr nl y XY XX T full = .error "ValueError" := by
  have hl' : ¬ N = nl.length := fun e => hl e.symm
  unfold pairCoreSIS
  by_cases hG : N = 1
  · subst hG
    have := sq_ne_one _ h1
    simp [Mx.op, adj, bdim, hl', h1, Mx.reshape, this, hxy.1, hxy.2, hxx.1, hxx.2]
  · have hG' : ¬ 1 = N := fun e => hG e.symm
    simp [Mx.op, adj, bdim, hl', h1, hG, hG', hxy.1, hxy.2, hxx.1, hxx.2]

/-- an optional table is absent or has shape `(N, N)` -/
def shapeOk (N : Nat) (M : Option Mx) : Prop := ∀ m, M = some m → m.r = N ∧ m.c = N

/-- the `XY0`, `XX0` used: the arguments, by default `X0 ⊗ Y0`, `X0 ⊗ X0` with `X0 = 1 − Y0` -/
def xyOf (y : V) (XY0 : Option Mx) : Mx := XY0.getD (xyDefault (vcompl y) y)
def xxOf (y : V) (XX0 : Option Mx) : Mx := XX0.getD (xyDefault (vcompl y) (vcompl y))

theorem xyOf_shape (N : Nat) (y : V) (XY0 : Option Mx) (hy : y.n = N) (h : shapeOk N XY0) :
    (xyOf y XY0).r = N ∧ (xyOf y XY0).c = N := by
  cases XY0 with
  | none => exact ⟨hy, hy⟩
  | some m => exact h m rfl

theorem xxOf_shape (N : Nat) (y : V) (XX0 : Option Mx) (hy : y.n = N) (h : shapeOk N XX0) :
    (xxOf y XX0).r = N ∧ (xxOf y XX0).c = N := by
  cases XX0 with
  | none => exact ⟨hy, hy⟩
  | some m => exact h m rfl

theorem pairMidSIS_ok (myodeint : Solver) (N : Nat) (nbrs : Nat → List Nat) (tr : Nat → Nat → Rat) (rr : Nat → Rat)
    (nl : List Nat) (y : V) (XY0 XX0 : Option Mx) (T : Nat → Rat) (full : Bool)
    (hy : y.n = N) (hxy : shapeOk N XY0) (hxx : shapeOk N XX0) :
    pairMidSIS myodeint N nbrs tr rr nl y XY0 XX0 T full =
      pairCoreSIS myodeint N nbrs tr rr nl y (xyOf y XY0) (xxOf y XX0) T full := by
  unfold pairMidSIS
  cases XY0 with
  | none =>
    cases XX0 with
    | none => simp [hy, xyOf, xxOf]
    | some xx => have := hxx xx rfl; simp [hy, xyOf, xxOf, this]
  | some xy =>
    have h1 := hxy xy rfl
    cases XX0 with
    | none => simp [hy, xyOf, xxOf, h1]
    | some xx => have := hxx xx rfl; simp [hy, xyOf, xxOf, this, h1]

theorem pairMidSIS_err (myodeint : Solver) (N : Nat) (nbrs : Nat → List Nat) (tr : Nat → Nat → Rat) (rr : Nat → Rat)
    (nl : List Nat) (y : V) (XY0 XX0 : Option Mx) (T : Nat → Rat) (full : Bool)
    (h : ¬ (y.n = N ∧ shapeOk N XY0 ∧ shapeOk N XX0)) :
    pairMidSIS myodeint N nbrs tr rr nl y XY0 XX0 T full = .error "EoNError" := by
  unfold pairMidSIS
  by_cases hy : y.n = N
  · cases XY0 with
    | none =>
      cases XX0 with
      | none => exact absurd ⟨hy, (fun m hm => nomatch hm), (fun m hm => nomatch hm)⟩ h
      | some xx =>
        have : ¬ (xx.r = N ∧ xx.c = N) := fun hs => h ⟨hy, (fun m hm => nomatch hm), (fun m hm => by cases hm; exact hs)⟩
        simp [hy, this]
    | some xy =>
      by_cases h1 : xy.r = N ∧ xy.c = N
      · cases XX0 with
        | none => exact absurd ⟨hy, (fun m hm => by cases hm; exact h1), (fun m hm => nomatch hm)⟩ h
        | some xx =>
          have : ¬ (xx.r = N ∧ xx.c = N) := fun hs =>
            h ⟨hy, (fun m hm => by cases hm; exact h1), (fun m hm => by cases hm; exact hs)⟩
          simp [hy, h1, this]
      · simp [hy, h1]
  · simp [hy]

/-- **`Y0`, `nodelist` given: the form of every normal return** and the exact success condition -/
theorem pairMidSIS_form (myodeint : Solver) (N : Nat) (nbrs : Nat → List Nat) (tr : Nat → Nat → Rat) (rr : Nat → Rat)
    (nl : List Nat) (y : V) (XY0 XX0 : Option Mx) (T : Nat → Rat) (full : Bool) :
    (y.n = N ∧ shapeOk N XY0 ∧ shapeOk N XX0 ∧ (nl.length = N ∨ nl.length = 1) ∧
      ∃ x0, pairMidSIS myodeint N nbrs tr rr nl y XY0 XX0 T full
        = .ok (x0, outSISPair T N full (myodeint (fun st => Gen.dSIS_pair_based st nl.length nbrs tr rr) x0)) ∧
        x0.n = N + N ^ 2 + N ^ 2 ∧ (∀ k, k < N → x0.f k = y.f k) ∧
        (∀ i j, i < N → j < N → x0.f (N + (i * N + j))
          = (xyOf y XY0).f i j * adjF nl nbrs (bidx nl.length i) (bidx nl.length j)) ∧
        (∀ i j, i < N → j < N → x0.f (N + N ^ 2 + (i * N + j))
          = (xxOf y XX0).f i j * adjF nl nbrs (bidx nl.length i) (bidx nl.length j))) ∨
    (¬ (y.n = N ∧ shapeOk N XY0 ∧ shapeOk N XX0) ∧
      pairMidSIS myodeint N nbrs tr rr nl y XY0 XX0 T full = .error "EoNError") ∨
    (y.n = N ∧ shapeOk N XY0 ∧ shapeOk N XX0 ∧ nl.length ≠ N ∧ nl.length ≠ 1 ∧
      pairMidSIS myodeint N nbrs tr rr nl y XY0 XX0 T full = .error "ValueError") := by
  by_cases h : y.n = N ∧ shapeOk N XY0 ∧ shapeOk N XX0
  · obtain ⟨hy, hxy, hxx⟩ := h
    have s1 := xyOf_shape N y XY0 hy hxy
    have s2 := xxOf_shape N y XX0 hy hxx
    rw [pairMidSIS_ok _ _ _ _ _ _ _ _ _ _ _ hy hxy hxx]
    by_cases hl : nl.length = N
    · obtain ⟨x0, h1, h2, h3, h4, h5⟩ := pairCoreSIS_eq myodeint N nbrs tr rr nl y _ _ T full hy s1 s2 hl
      refine Or.inl ⟨hy, hxy, hxx, Or.inl hl, x0, ?_, h2, h3, fun i j hi hj => ?_, fun i j hi hj => ?_⟩
      · rw [hl]; exact h1
      · rw [hl, bidx_lt _ _ hi, bidx_lt _ _ hj]; exact h4 i j hi hj
      · rw [hl, bidx_lt _ _ hi, bidx_lt _ _ hj]; exact h5 i j hi hj
    · by_cases hl1 : nl.length = 1
      · obtain ⟨x0, h1, h2, h3, h4, h5⟩ := pairCoreSIS_one myodeint N nbrs tr rr nl y _ _ T full hy s1 s2 hl1
        refine Or.inl ⟨hy, hxy, hxx, Or.inr hl1, x0, ?_, h2, h3, fun i j hi hj => ?_, fun i j hi hj => ?_⟩
        · rw [hl1]; exact h1
        · rw [hl1, bidx_one, bidx_one]; exact h4 i j hi hj
        · rw [hl1, bidx_one, bidx_one]; exact h5 i j hi hj
      · exact Or.inr (Or.inr ⟨hy, hxy, hxx, hl, hl1, pairCoreSIS_err myodeint N nbrs tr rr nl y _ _ T full s1 s2 hl hl1⟩)
  · exact Or.inr (Or.inl ⟨h, pairMidSIS_err _ _ _ _ _ _ _ _ _ _ _ h⟩)


/-- `rho` without `Y0`: the same as `Y0 = rho·ones(N)` with the node list `nodelist` (default `G.nodes()`) -/
theorem SIS_pair_based_rho_eq (odeint myodeint : Solver) (GN : Nat) (nbrs : Nat → List Nat) (tr : Nat → Nat → Rat)
    (rr : Nat → Rat) (r : Rat) (nodelist : Option (List Nat)) (XY0 XX0 : Option Mx) (tmin tmax : Rat) (tcount : Nat)
    (full : Bool) :
    GenGlue2.SIS_pair_based odeint myodeint GN nbrs tr rr (some r) nodelist none XY0 XX0 tmin tmax tcount full =
      GenGlue2.SIS_pair_based odeint myodeint GN nbrs tr rr none (some (nodesOf GN nodelist)) (some (vrep r GN)) XY0 XX0
        tmin tmax tcount full := by
  unfold GenGlue2.SIS_pair_based
  cases nodelist <;>
    simp only [Option.isNone_none, Option.isNone_some, Option.isSome_none, Option.isSome_some,
      Bool.and_false, Bool.false_and, Bool.and_true, Bool.true_and, Bool.false_eq_true, if_false, if_true, need_some,
      ok_bind, pure_eq_ok] <;>
    rfl

/-- neither `rho` nor `Y0`: `ZeroDivisionError` on a graph without nodes, otherwise `rho = 1/N` -/
theorem SIS_pair_based_none_eq (odeint myodeint : Solver) (GN : Nat) (nbrs : Nat → List Nat) (tr : Nat → Nat → Rat)
    (rr : Nat → Rat) (nodelist : Option (List Nat)) (XY0 XX0 : Option Mx) (tmin tmax : Rat) (tcount : Nat)
    (full : Bool) :
    GenGlue2.SIS_pair_based odeint myodeint GN nbrs tr rr none nodelist none XY0 XX0 tmin tmax tcount full =
      if GN = 0 then .error "ZeroDivisionError" else
      GenGlue2.SIS_pair_based odeint myodeint GN nbrs tr rr (some (1 / (GN : Rat))) nodelist none XY0 XX0
        tmin tmax tcount full := by
  unfold GenGlue2.SIS_pair_based
  by_cases hN : GN = 0
  · simp [hN]
  · simp [hN]

/-- the `Y0` used -/
def pairY0 (GN : Nat) (rho : Option Rat) (Y0 : Option V) : V :=
  match Y0, rho with
  | some y, _ => y
  | none, some r => vrep r GN
  | none, none => vrep (1 / (GN : Rat)) GN

/-- the argument guards of the pair-based functions, in the generated order: `none` = accepted -/
def pairGuard (GN : Nat) (rho : Option Rat) (nodelist : Option (List Nat)) (Y0 : Option V) : Option String :=
  match Y0, rho, nodelist with
  | none, none, _ => if GN = 0 then some "ZeroDivisionError" else none
  | none, some _, _ => none
  | some _, some _, _ => some "EoNError"
  | some _, none, none => some "EoNError"
  | some _, none, some _ => none

/-- **`SIS_pair_based`, all inputs**: the guards on `(rho, nodelist, Y0)`, then the shape checks and the core on the
resolved `Y0` and node list -/
theorem SIS_pair_based_eq (odeint myodeint : Solver) (GN : Nat) (nbrs : Nat → List Nat) (tr : Nat → Nat → Rat)
    (rr : Nat → Rat) (rho : Option Rat) (nodelist : Option (List Nat)) (Y0 : Option V) (XY0 XX0 : Option Mx)
    (tmin tmax : Rat) (tcount : Nat) (full : Bool) :
    GenGlue2.SIS_pair_based odeint myodeint GN nbrs tr rr rho nodelist Y0 XY0 XX0 tmin tmax tcount full =
      match pairGuard GN rho nodelist Y0 with
      | some e => .error e
      | none => pairMidSIS myodeint GN nbrs tr rr (nodesOf GN nodelist) (pairY0 GN rho Y0) XY0 XX0
          (linspace tmin tmax tcount) full := by
  cases Y0 with
  | none =>
    cases rho with
    | none =>
      rw [SIS_pair_based_none_eq]
      by_cases hN : GN = 0
      · simp [pairGuard, hN]
      · simp only [pairGuard, hN, if_false]
        rw [SIS_pair_based_rho_eq, SIS_pair_based_mid]
        rfl
    | some r => rw [SIS_pair_based_rho_eq, SIS_pair_based_mid]; rfl
  | some y =>
    cases rho with
    | some r => exact SIS_pair_based_error_both ..
    | none =>
      cases nodelist with
      | none => exact SIS_pair_based_error_nodelist odeint myodeint GN nbrs tr rr none y XY0 XX0 tmin tmax tcount full
      | some nl => rw [SIS_pair_based_mid]; rfl

/-- **exact success condition of `SIS_pair_based`, all inputs** — including node lists whose length differs from
`G.order()`: accepted iff that length is 1 -/
theorem SIS_pair_based_ok_iff (odeint myodeint : Solver) (GN : Nat) (nbrs : Nat → List Nat) (tr : Nat → Nat → Rat)
    (rr : Nat → Rat) (rho : Option Rat) (nodelist : Option (List Nat)) (Y0 : Option V) (XY0 XX0 : Option Mx)
    (tmin tmax : Rat) (tcount : Nat) (full : Bool) :
    (∃ res, GenGlue2.SIS_pair_based odeint myodeint GN nbrs tr rr rho nodelist Y0 XY0 XX0 tmin tmax tcount full
      = .ok res) ↔
    pairGuard GN rho nodelist Y0 = none ∧ (pairY0 GN rho Y0).n = GN ∧ shapeOk GN XY0 ∧ shapeOk GN XX0 ∧
      ((nodesOf GN nodelist).length = GN ∨ (nodesOf GN nodelist).length = 1) := by
  rw [SIS_pair_based_eq]
  cases hg : pairGuard GN rho nodelist Y0 with
  | some e => simp
  | none =>
    simp only [true_and]
    rcases pairMidSIS_form myodeint GN nbrs tr rr (nodesOf GN nodelist) (pairY0 GN rho Y0) XY0 XX0
      (linspace tmin tmax tcount) full with ⟨h1, h2, h3, h4, x0, h5, -⟩ | ⟨h1, h2⟩ | ⟨h1, h2, h3, h4, h5, h6⟩
    · exact ⟨fun _ => ⟨h1, h2, h3, h4⟩, fun _ => ⟨_, h5⟩⟩
    · rw [h2]
      exact ⟨fun ⟨_, e⟩ => (nomatch e), fun h => absurd ⟨h.1, h.2.1, h.2.2.1⟩ h1⟩
    · rw [h6]
      exact ⟨fun ⟨_, e⟩ => (nomatch e), fun h => h.2.2.2.elim (fun h => absurd h h4) (fun h => absurd h h5)⟩

/-- **every normal return of `SIS_pair_based`** (all inputs): `myodeint` solved `Gen.dSIS_pair_based` (node count = length
of the node list) from `X0 = [Y0 | XY0∘A | XX0∘A]`; the returned arrays are `outSISPair` of the solution -/
theorem SIS_pair_based_form {odeint myodeint : Solver} {GN : Nat} {nbrs : Nat → List Nat} {tr : Nat → Nat → Rat}
    {rr : Nat → Rat} {rho : Option Rat} {nodelist : Option (List Nat)} {Y0 : Option V} {XY0 XX0 : Option Mx}
    {tmin tmax : Rat} {tcount : Nat} {full : Bool} {x0 : V} {l : List Out}
    (h : GenGlue2.SIS_pair_based odeint myodeint GN nbrs tr rr rho nodelist Y0 XY0 XX0 tmin tmax tcount full
      = .ok (x0, l)) :
    let nl := nodesOf GN nodelist
    let y := pairY0 GN rho Y0
    l = outSISPair (linspace tmin tmax tcount) GN full
      (myodeint (fun st => Gen.dSIS_pair_based st nl.length nbrs tr rr) x0) ∧
    x0.n = GN + GN ^ 2 + GN ^ 2 ∧ (∀ k, k < GN → x0.f k = y.f k) ∧
    (∀ i j, i < GN → j < GN → x0.f (GN + (i * GN + j))
      = (xyOf y XY0).f i j * adjF nl nbrs (bidx nl.length i) (bidx nl.length j)) ∧
    (∀ i j, i < GN → j < GN → x0.f (GN + GN ^ 2 + (i * GN + j))
      = (xxOf y XX0).f i j * adjF nl nbrs (bidx nl.length i) (bidx nl.length j)) := by
  intro nl y
  rw [SIS_pair_based_eq] at h
  cases hg : pairGuard GN rho nodelist Y0 with
  | some e => rw [hg] at h; cases h
  | none =>
    rw [hg] at h
    simp only [] at h
    rcases pairMidSIS_form myodeint GN nbrs tr rr nl y XY0 XX0
      (linspace tmin tmax tcount) full with ⟨-, -, -, -, x0', h5, h6⟩ | ⟨-, h2⟩ | ⟨-, -, -, -, -, h6⟩
    · rw [h5] at h
      have := ok_inj h
      obtain rfl := congrArg Prod.fst this
      exact ⟨(congrArg Prod.snd this).symm, h6⟩
    · rw [h2] at h; cases h
    · rw [h6] at h; cases h

/-- **conservation for ALL inputs**: whenever `SIS_pair_based` returns, `S + I = G.order()` at every time index, for every
solver (also for a node list of length 1 on a larger graph) -/
theorem SIS_pair_based_conserve_all {odeint myodeint : Solver} {GN : Nat} {nbrs : Nat → List Nat} {tr : Nat → Nat → Rat}
    {rr : Nat → Rat} {rho : Option Rat} {nodelist : Option (List Nat)} {Y0 : Option V} {XY0 XX0 : Option Mx}
    {tmin tmax : Rat} {tcount : Nat} {full : Bool} {x0 : V} {l : List Out}
    (h : GenGlue2.SIS_pair_based odeint myodeint GN nbrs tr rr rho nodelist Y0 XY0 XX0 tmin tmax tcount full
      = .ok (x0, l)) (i : Nat) : get l 1 i + get l 2 i = (GN : Rat) := by
  obtain ⟨rfl, -⟩ := SIS_pair_based_form h
  exact outSISPair_conserve _ _ _ _ i

/-- **initial state for ALL inputs** (`RowZero myodeint`): `I(0) = Σ Y0`, `S(0) = N − Σ Y0` with the `Y0` used -/
theorem SIS_pair_based_init_all {odeint myodeint : Solver} (h0 : RowZero myodeint) {GN : Nat} {nbrs : Nat → List Nat}
    {tr : Nat → Nat → Rat} {rr : Nat → Rat} {rho : Option Rat} {nodelist : Option (List Nat)} {Y0 : Option V}
    {XY0 XX0 : Option Mx} {tmin tmax : Rat} {tcount : Nat} {full : Bool} {x0 : V} {l : List Out}
    (h : GenGlue2.SIS_pair_based odeint myodeint GN nbrs tr rr rho nodelist Y0 XY0 XX0 tmin tmax tcount full
      = .ok (x0, l)) :
    get l 2 0 = sumTo GN (pairY0 GN rho Y0).f ∧ get l 1 0 = (GN : Rat) - sumTo GN (pairY0 GN rho Y0).f := by
  obtain ⟨rfl, -, hf, -⟩ := SIS_pair_based_form h
  exact outSISPair_init _ GN full _ x0 _ (h0 _ _) hf



/-! ### `SIR_pair_based`, all inputs -/

/-- the part of `SIR_pair_based` after all arguments are resolved -/
def pairCoreSIR (odeint : Solver) (N : Nat) (nbrs : Nat → List Nat) (tr : Nat → Nat → Rat) (rr : Nat → Rat)
    (nl : List Nat) (X0 Y0 : V) (XY0 XX0 : Mx) (times : Nat → Rat) (return_full_data : Bool) : Res := do
  let A : Mx := (PyGlue2.adj nl nbrs)
  let t_7 : Mx ← PyGlue2.Mx.op (fun a b => a * b) XY0 A
  let t_8 : Mx ← PyGlue2.Mx.op (fun a b => a * b) XX0 A
  let t_9 : Mx ← PyGlue2.Mx.reshape t_7 ((N ^ 2)) (1)
  let t_10 : Mx ← PyGlue2.Mx.reshape t_8 ((N ^ 2)) (1)
  let t_11 : Mx := PyGlue2.Mx.col X0
  let t_12 : Mx := PyGlue2.Mx.col Y0
  let t_13 : Mx ← PyGlue2.Mx.vcat t_11 t_12
  let t_14 : Mx ← PyGlue2.Mx.vcat t_13 t_9
  let t_15 : Mx ← PyGlue2.Mx.vcat t_14 t_10
  let t_16 : Mx := (PyGlue2.Mx.T t_15)
  let t_17 : Gen.V ← PyGlue2.Mx.getRow t_16 0
  let x0_ : Gen.V := t_17
  let V_ : Nat → Gen.V := odeint (fun st => Gen.dSIR_pair_based st (nl.length) nbrs tr rr) x0_
  let V__n : Nat := x0_.n
  let n_1 : Nat := PyGlue2.sliceLen (V__n) (0) (N)
  let Xs_n : Nat := n_1
  let Xs : Nat → Gen.V := fun i => (PyGlue2.vslice (V__n) (V_ i) (0) (N))
  let S : Nat → Rat := fun i => (PyGlue2.vsum (Xs_n) (Xs i))
  let n_2 : Nat := PyGlue2.sliceLen (V__n) (N) ((2 * N))
  let Ys_n : Nat := n_2
  let Ys : Nat → Gen.V := fun i => (PyGlue2.vslice (V__n) (V_ i) (N) ((2 * N)))
  let I : Nat → Rat := fun i => (PyGlue2.vsum (Ys_n) (Ys i))
  let t_18 : Gen.V := (PyGlue2.vones N)
  let n_3 : Nat ← PyGlue2.bdim (t_18.n) (Xs_n)
  let t_n : Nat := n_3
  let t : Nat → Gen.V := fun i => (⟨n_3, fun k => (t_18.f (PyGlue2.bidx (t_18.n) k) - (Xs i).f (PyGlue2.bidx (Xs_n) k))⟩ : Gen.V)
  let n_4 : Nat ← PyGlue2.bdim (t_n) (Ys_n)
  let Zs_n : Nat := n_4
  let Zs : Nat → Gen.V := fun i => (⟨n_4, fun k => ((t i).f (PyGlue2.bidx (t_n) k) - (Ys i).f (PyGlue2.bidx (Ys_n) k))⟩ : Gen.V)
  let R : Nat → Rat := fun i => (PyGlue2.vsum (Zs_n) (Zs i))
  if return_full_data then
    let n_5 : Nat := PyGlue2.sliceLen (V__n) ((2 * N)) (((2 * N) + (N ^ 2)))
    let XY_n : Nat := n_5
    let XY : Nat → Gen.V := fun i => (PyGlue2.vslice (V__n) (V_ i) ((2 * N)) (((2 * N) + (N ^ 2))))
    let n_6 : Nat := PyGlue2.sliceLen (V__n) (((2 * N) + (N ^ 2))) (V__n)
    let XX_n : Nat := n_6
    let XX : Nat → Gen.V := fun i => (PyGlue2.vslice (V__n) (V_ i) (((2 * N) + (N ^ 2))) (V__n))
    if (XY_n) ≠ (N) * (N) then throw "ValueError"
    let a_1 : Nat := N
    let b_1 : Nat := N
    if (XX_n) ≠ (N) * (N) then throw "ValueError"
    let a_2 : Nat := N
    let b_2 : Nat := N
    return (x0_, [Out.s (fun i => (times i)), Out.s (fun i => (S i)), Out.s (fun i => (I i)), Out.s (fun i => (R i)), Out.m (Xs_n) (fun i => (Xs i)), Out.m (Ys_n) (fun i => (Ys i)), Out.m (Zs_n) (fun i => (Zs i)), Out.c (a_1) (b_1) (fun i => (XY i)), Out.c (a_2) (b_2) (fun i => (XX i))])
  else
    return (x0_, [Out.s (fun i => (times i)), Out.s (fun i => (S i)), Out.s (fun i => (I i)), Out.s (fun i => (R i))])

/-- the shape checks of `XY0`, `XX0` (the defaults `X0 ⊗ Y0`, `X0 ⊗ X0` never fail), then the core -/
def pairMidSIR (odeint : Solver) (N : Nat) (nbrs : Nat → List Nat) (tr : Nat → Nat → Rat) (rr : Nat → Rat)
    (nl : List Nat) (X0 Y0 : V) (XY0 XX0 : Option Mx) (times : Nat → Rat) (full : Bool) : Res :=
  if Y0.n ≠ N then .error "EoNError" else
  match XY0 with
  | some xy =>
    if ¬ (xy.r = N ∧ xy.c = N) then .error "EoNError" else
    match XX0 with
    | some xx => if ¬ (xx.r = N ∧ xx.c = N) then .error "EoNError" else
        pairCoreSIR odeint N nbrs tr rr nl X0 Y0 xy xx times full
    | none => pairCoreSIR odeint N nbrs tr rr nl X0 Y0 xy (xyDefault X0 X0) times full
  | none =>
    match XX0 with
    | some xx => if ¬ (xx.r = N ∧ xx.c = N) then .error "EoNError" else
        pairCoreSIR odeint N nbrs tr rr nl X0 Y0 (xyDefault X0 Y0) xx times full
    | none => pairCoreSIR odeint N nbrs tr rr nl X0 Y0 (xyDefault X0 Y0) (xyDefault X0 X0) times full

theorem SIR_pair_based_mid_some (odeint myodeint : Solver) (GN : Nat) (nbrs : Nat → List Nat) (tr : Nat → Nat → Rat)
    (rr : Nat → Rat) (nl : List Nat) (y x : V) (XY0 XX0 : Option Mx) (tmin tmax : Rat) (tcount : Nat)
    (full : Bool) :
    GenGlue2.SIR_pair_based odeint myodeint GN nbrs tr rr none (some nl) (some y) (some x) XY0 XX0 tmin tmax tcount full =
      pairMidSIR odeint GN nbrs tr rr nl x y XY0 XX0 (linspace tmin tmax tcount) full := by
  unfold GenGlue2.SIR_pair_based pairMidSIR
  by_cases hy : y.n = GN
  · cases XY0 <;> cases XX0 <;>
      simp only [hy, op_col_row, Option.isNone_none, Option.isNone_some, Option.isSome_none, Option.isSome_some,
        Bool.and_false, Bool.false_and, Bool.and_true, Bool.true_and, Bool.false_eq_true, if_false, if_true, need_some,
        ok_bind, pure_eq_ok, ne_eq, not_true_eq_false, decide_false, decide_true, not_false_eq_true, Prod.mk.injEq,
        decide_not, Bool.not_eq_true', decide_eq_false_iff_not, Bool.not_eq_eq_eq_not, Bool.not_true] <;>
      rfl
  · simp [hy]

theorem SIR_pair_based_mid_none (odeint myodeint : Solver) (GN : Nat) (nbrs : Nat → List Nat) (tr : Nat → Nat → Rat)
    (rr : Nat → Rat) (nl : List Nat) (y : V) (XY0 XX0 : Option Mx) (tmin tmax : Rat) (tcount : Nat)
    (full : Bool) :
    GenGlue2.SIR_pair_based odeint myodeint GN nbrs tr rr none (some nl) (some y) none XY0 XX0 tmin tmax tcount full =
      pairMidSIR odeint GN nbrs tr rr nl (vcompl y) y XY0 XX0 (linspace tmin tmax tcount) full := by
  have hc : ∀ (y : V), (⟨y.n, fun k => 1 - y.f k⟩ : V) = vcompl y := fun _ => rfl
  unfold GenGlue2.SIR_pair_based pairMidSIR
  by_cases hy : y.n = GN
  · cases XY0 <;> cases XX0 <;>
      simp only [hy, hc, op_col_row, Option.isNone_none, Option.isNone_some, Option.isSome_none, Option.isSome_some,
        Bool.and_false, Bool.false_and, Bool.and_true, Bool.true_and, Bool.false_eq_true, if_false, if_true, need_some,
        ok_bind, pure_eq_ok, ne_eq, not_true_eq_false, decide_false, decide_true, not_false_eq_true, Prod.mk.injEq,
        decide_not, Bool.not_eq_true', decide_eq_false_iff_not, Bool.not_eq_eq_eq_not, Bool.not_true] <;>
      rfl
  · simp [hy]

/-- **`Y0`, `nodelist` given**: `X0` defaults to `1 − Y0` (no length check of an explicit `X0`), then the shape checks
and the core -/
theorem SIR_pair_based_mid (odeint myodeint : Solver) (GN : Nat) (nbrs : Nat → List Nat) (tr : Nat → Nat → Rat)
    (rr : Nat → Rat) (nl : List Nat) (y : V) (X0 : Option V) (XY0 XX0 : Option Mx) (tmin tmax : Rat) (tcount : Nat)
    (full : Bool) :
    GenGlue2.SIR_pair_based odeint myodeint GN nbrs tr rr none (some nl) (some y) X0 XY0 XX0 tmin tmax tcount full =
      pairMidSIR odeint GN nbrs tr rr nl (X0.getD (vcompl y)) y XY0 XX0 (linspace tmin tmax tcount) full := by
  cases X0 with
  | none => exact SIR_pair_based_mid_none ..
  | some x => exact SIR_pair_based_mid_some ..


theorem pairCoreSIR_eq (odeint : Solver) (N : Nat) (nbrs : Nat → List Nat) (tr : Nat → Nat → Rat) (rr : Nat → Rat)
    (nl : List Nat) (x y : V) (XY XX : Mx) (T : Nat → Rat) (full : Bool)
    (hx : x.n = N) (hy : y.n = N) (hxy : XY.r = N ∧ XY.c = N) (hxx : XX.r = N ∧ XX.c = N) (hl : nl.length = N) :
    ∃ x0, pairCoreSIR odeint N nbrs tr rr nl x y XY XX T full
      = .ok (x0, outSIRPair T N full (odeint (fun st => Gen.dSIR_pair_based st N nbrs tr rr) x0)) ∧
      x0.n = N + N + N ^ 2 + N ^ 2 ∧ (∀ k, k < N → x0.f k = x.f k) ∧ (∀ k, k < N → x0.f (N + k) = y.f k) ∧
      (∀ i j, i < N → j < N → x0.f (N + N + (i * N + j)) = XY.f i j * adjF nl nbrs i j) ∧
      (∀ i j, i < N → j < N → x0.f (N + N + N ^ 2 + (i * N + j)) = XX.f i j * adjF nl nbrs i j) := by
  have hsq : N * N = N ^ 2 := by ring
  unfold pairCoreSIR
  cases full <;>
    simp [Mx.op, Mx.col, Mx.row, adj, hl, hx, hy, hxy.1, hxy.2, hxx.1, hxx.2, Mx.reshape, Mx.vcat, Mx.getRow, Mx.T, hsq,
      vslice, vsum, sl4_0, sl4_1, sl4_2, sl4_3, so4_1, so4_2, so4_3, outSIRPair]
  all_goals (
    refine ⟨fun k hk => ?_, fun k hk => ?_, fun i j hi hj => ?_, fun i j hi hj => ?_⟩
    · have h1 : k < N + N + N ^ 2 := by omega
      have h2 : k < N + N := by omega
      simp [h1, h2, hk]
    · have h1 : N + k < N + N + N ^ 2 := by omega
      simp [h1, hk]
    · have h1 : i * N + j < N ^ 2 := lin_lt N i j hi hj
      obtain ⟨d1, d2⟩ := divmod_lt N i j hj
      rw [if_pos h1, d1, Nat.mod_eq_of_lt hj, bidx_lt _ _ hi, bidx_lt _ _ hj]
      unfold adjF
      simp only [List.getD_eq_getElem?_getD, List.contains_iff_mem]
      split <;> simp
    · obtain ⟨d1, d2⟩ := divmod_lt N i j hj
      rw [d1, Nat.mod_eq_of_lt hj, bidx_lt _ _ hi, bidx_lt _ _ hj]
      unfold adjF
      simp only [List.getD_eq_getElem?_getD, List.contains_iff_mem]
      split <;> simp)

theorem pairCoreSIR_one (odeint : Solver) (N : Nat) (nbrs : Nat → List Nat) (tr : Nat → Nat → Rat) (rr : Nat → Rat)
    (nl : List Nat) (x y : V) (XY XX : Mx) (T : Nat → Rat) (full : Bool)
    (hx : x.n = N) (hy : y.n = N) (hxy : XY.r = N ∧ XY.c = N) (hxx : XX.r = N ∧ XX.c = N) (hl : nl.length = 1) :
    ∃ x0, pairCoreSIR odeint N nbrs tr rr nl x y XY XX T full
      = .ok (x0, outSIRPair T N full (odeint (fun st => Gen.dSIR_pair_based st 1 nbrs tr rr) x0)) ∧
      x0.n = N + N + N ^ 2 + N ^ 2 ∧ (∀ k, k < N → x0.f k = x.f k) ∧ (∀ k, k < N → x0.f (N + k) = y.f k) ∧
      (∀ i j, i < N → j < N → x0.f (N + N + (i * N + j)) = XY.f i j * adjF nl nbrs 0 0) ∧
      (∀ i j, i < N → j < N → x0.f (N + N + N ^ 2 + (i * N + j)) = XX.f i j * adjF nl nbrs 0 0) := by
  have hsq : N * N = N ^ 2 := by ring
  unfold pairCoreSIR
  cases full <;>
    simp [Mx.op, Mx.col, Mx.row, adj, hl, hx, hy, hxy.1, hxy.2, hxx.1, hxx.2, Mx.reshape, Mx.vcat, Mx.getRow, Mx.T, hsq,
      vslice, vsum, sl4_0, sl4_1, sl4_2, sl4_3, so4_1, so4_2, so4_3, outSIRPair]
  all_goals (
    refine ⟨fun k hk => ?_, fun k hk => ?_, fun i j hi hj => ?_, fun i j hi hj => ?_⟩
    · have h1 : k < N + N + N ^ 2 := by omega
      have h2 : k < N + N := by omega
      simp [h1, h2, hk]
    · have h1 : N + k < N + N + N ^ 2 := by omega
      simp [h1, hk]
    · have h1 : i * N + j < N ^ 2 := lin_lt N i j hi hj
      obtain ⟨d1, d2⟩ := divmod_lt N i j hj
      rw [if_pos h1, d1, Nat.mod_eq_of_lt hj, bidx_lt _ _ hi, bidx_lt _ _ hj]
      unfold adjF
      simp only [bidx_one, List.getD_eq_getElem?_getD, List.contains_iff_mem]
      split <;> simp
    · obtain ⟨d1, d2⟩ := divmod_lt N i j hj
      rw [d1, Nat.mod_eq_of_lt hj, bidx_lt _ _ hi, bidx_lt _ _ hj]
      unfold adjF
      simp only [bidx_one, List.getD_eq_getElem?_getD, List.contains_iff_mem]
      split <;> simp)

theorem pairCoreSIR_err (odeint : Solver) (N : Nat) (nbrs : Nat → List Nat) (tr : Nat → Nat → Rat) (rr : Nat → Rat)
    (nl : List Nat) (x y : V) (XY XX : Mx) (T : Nat → Rat) (full : Bool)
    (hxy : XY.r = N ∧ XY.c = N) (hxx : XX.r = N ∧ XX.c = N) (hl : nl.length ≠ N) (h1 : nl.length ≠ 1) :
    pairCoreSIR odeint N nbrs tr rr nl x y XY XX T full = .error "ValueError" := by
  have hl' : ¬ N = nl.length := fun e => hl e.symm
  unfold pairCoreSIR
  by_cases hG : N = 1
  · subst hG
    have := sq_ne_one _ h1
    simp [Mx.op, adj, bdim, hl', h1, Mx.reshape, this, hxy.1, hxy.2, hxx.1, hxx.2]
  · have hG' : ¬ 1 = N := fun e => hG e.symm
    simp [Mx.op, adj, bdim, hl', h1, hG, hG', hxy.1, hxy.2, hxx.1, hxx.2]


/-- the `XY0`, `XX0` used by `SIR_pair_based`: the arguments, by default `X0 ⊗ Y0`, `X0 ⊗ X0` -/
def xyOfR (x y : V) (XY0 : Option Mx) : Mx := XY0.getD (xyDefault x y)
def xxOfR (x : V) (XX0 : Option Mx) : Mx := XX0.getD (xyDefault x x)

theorem xyOfR_shape (N : Nat) (x y : V) (XY0 : Option Mx) (hx : x.n = N) (hy : y.n = N) (h : shapeOk N XY0) :
    (xyOfR x y XY0).r = N ∧ (xyOfR x y XY0).c = N := by
  cases XY0 with
  | none => exact ⟨hx, hy⟩
  | some m => exact h m rfl

theorem xxOfR_shape (N : Nat) (x : V) (XX0 : Option Mx) (hx : x.n = N) (h : shapeOk N XX0) :
    (xxOfR x XX0).r = N ∧ (xxOfR x XX0).c = N := by
  cases XX0 with
  | none => exact ⟨hx, hx⟩
  | some m => exact h m rfl

theorem pairMidSIR_ok (odeint : Solver) (N : Nat) (nbrs : Nat → List Nat) (tr : Nat → Nat → Rat) (rr : Nat → Rat)
    (nl : List Nat) (x y : V) (XY0 XX0 : Option Mx) (T : Nat → Rat) (full : Bool)
    (hy : y.n = N) (hxy : shapeOk N XY0) (hxx : shapeOk N XX0) :
    pairMidSIR odeint N nbrs tr rr nl x y XY0 XX0 T full =
      pairCoreSIR odeint N nbrs tr rr nl x y (xyOfR x y XY0) (xxOfR x XX0) T full := by
  unfold pairMidSIR
  cases XY0 with
  | none =>
    cases XX0 with
    | none => simp [hy, xyOfR, xxOfR]
    | some xx => have := hxx xx rfl; simp [hy, xyOfR, xxOfR, this]
  | some xy =>
    have h1 := hxy xy rfl
    cases XX0 with
    | none => simp [hy, xyOfR, xxOfR, h1]
    | some xx => have := hxx xx rfl; simp [hy, xyOfR, xxOfR, this, h1]

theorem pairMidSIR_err (odeint : Solver) (N : Nat) (nbrs : Nat → List Nat) (tr : Nat → Nat → Rat) (rr : Nat → Rat)
    (nl : List Nat) (x y : V) (XY0 XX0 : Option Mx) (T : Nat → Rat) (full : Bool)
    (h : ¬ (y.n = N ∧ shapeOk N XY0 ∧ shapeOk N XX0)) :
    pairMidSIR odeint N nbrs tr rr nl x y XY0 XX0 T full = .error "EoNError" := by
  unfold pairMidSIR
  by_cases hy : y.n = N
  · cases XY0 with
    | none =>
      cases XX0 with
      | none => exact absurd ⟨hy, (fun m hm => nomatch hm), (fun m hm => nomatch hm)⟩ h
      | some xx =>
        have : ¬ (xx.r = N ∧ xx.c = N) := fun hs =>
          h ⟨hy, (fun m hm => nomatch hm), (fun m hm => by cases hm; exact hs)⟩
        simp [hy, this]
    | some xy =>
      by_cases h1 : xy.r = N ∧ xy.c = N
      · cases XX0 with
        | none => exact absurd ⟨hy, (fun m hm => by cases hm; exact h1), (fun m hm => nomatch hm)⟩ h
        | some xx =>
          have : ¬ (xx.r = N ∧ xx.c = N) := fun hs =>
            h ⟨hy, (fun m hm => by cases hm; exact h1), (fun m hm => by cases hm; exact hs)⟩
          simp [hy, h1, this]
      · simp [hy, h1]
  · simp [hy]

/-- **`X0` (of `N` entries), `Y0`, `nodelist` resolved: the form of every normal return** and the exact exceptions -/
theorem pairMidSIR_form (odeint : Solver) (N : Nat) (nbrs : Nat → List Nat) (tr : Nat → Nat → Rat) (rr : Nat → Rat)
    (nl : List Nat) (x y : V) (XY0 XX0 : Option Mx) (T : Nat → Rat) (full : Bool) (hx : x.n = N) :
    (y.n = N ∧ shapeOk N XY0 ∧ shapeOk N XX0 ∧ (nl.length = N ∨ nl.length = 1) ∧
      ∃ x0, pairMidSIR odeint N nbrs tr rr nl x y XY0 XX0 T full
        = .ok (x0, outSIRPair T N full (odeint (fun st => Gen.dSIR_pair_based st nl.length nbrs tr rr) x0)) ∧
        x0.n = N + N + N ^ 2 + N ^ 2 ∧ (∀ k, k < N → x0.f k = x.f k) ∧ (∀ k, k < N → x0.f (N + k) = y.f k) ∧
        (∀ i j, i < N → j < N → x0.f (N + N + (i * N + j))
          = (xyOfR x y XY0).f i j * adjF nl nbrs (bidx nl.length i) (bidx nl.length j)) ∧
        (∀ i j, i < N → j < N → x0.f (N + N + N ^ 2 + (i * N + j))
          = (xxOfR x XX0).f i j * adjF nl nbrs (bidx nl.length i) (bidx nl.length j))) ∨
    (¬ (y.n = N ∧ shapeOk N XY0 ∧ shapeOk N XX0) ∧
      pairMidSIR odeint N nbrs tr rr nl x y XY0 XX0 T full = .error "EoNError") ∨
    (y.n = N ∧ shapeOk N XY0 ∧ shapeOk N XX0 ∧ nl.length ≠ N ∧ nl.length ≠ 1 ∧
      pairMidSIR odeint N nbrs tr rr nl x y XY0 XX0 T full = .error "ValueError") := by
  by_cases h : y.n = N ∧ shapeOk N XY0 ∧ shapeOk N XX0
  · obtain ⟨hy, hxy, hxx⟩ := h
    have s1 := xyOfR_shape N x y XY0 hx hy hxy
    have s2 := xxOfR_shape N x XX0 hx hxx
    rw [pairMidSIR_ok _ _ _ _ _ _ _ _ _ _ _ _ hy hxy hxx]
    by_cases hl : nl.length = N
    · obtain ⟨x0, h1, h2, h3, h3', h4, h5⟩ := pairCoreSIR_eq odeint N nbrs tr rr nl x y _ _ T full hx hy s1 s2 hl
      refine Or.inl ⟨hy, hxy, hxx, Or.inl hl, x0, ?_, h2, h3, h3', fun i j hi hj => ?_, fun i j hi hj => ?_⟩
      · rw [hl]; exact h1
      · rw [hl, bidx_lt _ _ hi, bidx_lt _ _ hj]; exact h4 i j hi hj
      · rw [hl, bidx_lt _ _ hi, bidx_lt _ _ hj]; exact h5 i j hi hj
    · by_cases hl1 : nl.length = 1
      · obtain ⟨x0, h1, h2, h3, h3', h4, h5⟩ := pairCoreSIR_one odeint N nbrs tr rr nl x y _ _ T full hx hy s1 s2 hl1
        refine Or.inl ⟨hy, hxy, hxx, Or.inr hl1, x0, ?_, h2, h3, h3', fun i j hi hj => ?_, fun i j hi hj => ?_⟩
        · rw [hl1]; exact h1
        · rw [hl1, bidx_one, bidx_one]; exact h4 i j hi hj
        · rw [hl1, bidx_one, bidx_one]; exact h5 i j hi hj
      · exact Or.inr (Or.inr ⟨hy, hxy, hxx, hl, hl1,
          pairCoreSIR_err odeint N nbrs tr rr nl x y _ _ T full s1 s2 hl hl1⟩)
  · exact Or.inr (Or.inl ⟨h, pairMidSIR_err _ _ _ _ _ _ _ _ _ _ _ _ h⟩)

theorem SIR_pair_based_rho_eq (odeint myodeint : Solver) (GN : Nat) (nbrs : Nat → List Nat) (tr : Nat → Nat → Rat)
    (rr : Nat → Rat) (r : Rat) (nodelist : Option (List Nat)) (X0 : Option V) (XY0 XX0 : Option Mx) (tmin tmax : Rat)
    (tcount : Nat) (full : Bool) :
    GenGlue2.SIR_pair_based odeint myodeint GN nbrs tr rr (some r) nodelist none X0 XY0 XX0 tmin tmax tcount full =
      GenGlue2.SIR_pair_based odeint myodeint GN nbrs tr rr none (some (nodesOf GN nodelist)) (some (vrep r GN)) X0 XY0
        XX0 tmin tmax tcount full := by
  unfold GenGlue2.SIR_pair_based
  cases nodelist <;>
    simp only [Option.isNone_none, Option.isNone_some, Option.isSome_none, Option.isSome_some,
      Bool.and_false, Bool.false_and, Bool.and_true, Bool.true_and, Bool.false_eq_true, if_false, if_true, need_some,
      ok_bind, pure_eq_ok] <;>
    rfl

theorem SIR_pair_based_none_eq (odeint myodeint : Solver) (GN : Nat) (nbrs : Nat → List Nat) (tr : Nat → Nat → Rat)
    (rr : Nat → Rat) (nodelist : Option (List Nat)) (X0 : Option V) (XY0 XX0 : Option Mx) (tmin tmax : Rat)
    (tcount : Nat) (full : Bool) :
    GenGlue2.SIR_pair_based odeint myodeint GN nbrs tr rr none nodelist none X0 XY0 XX0 tmin tmax tcount full =
      if GN = 0 then .error "ZeroDivisionError" else
      GenGlue2.SIR_pair_based odeint myodeint GN nbrs tr rr (some (1 / (GN : Rat))) nodelist none X0 XY0 XX0
        tmin tmax tcount full := by
  unfold GenGlue2.SIR_pair_based
  by_cases hN : GN = 0
  · simp [hN]
  · simp [hN]

/-- the `X0` used: the argument, by default `1 − Y0` -/
def pairX0 (GN : Nat) (rho : Option Rat) (Y0 X0 : Option V) : V := X0.getD (vcompl (pairY0 GN rho Y0))

/-- **`SIR_pair_based`, all inputs**: the same guards as `SIS_pair_based`, then the shape checks and the core -/
theorem SIR_pair_based_eq (odeint myodeint : Solver) (GN : Nat) (nbrs : Nat → List Nat) (tr : Nat → Nat → Rat)
    (rr : Nat → Rat) (rho : Option Rat) (nodelist : Option (List Nat)) (Y0 X0 : Option V) (XY0 XX0 : Option Mx)
    (tmin tmax : Rat) (tcount : Nat) (full : Bool) :
    GenGlue2.SIR_pair_based odeint myodeint GN nbrs tr rr rho nodelist Y0 X0 XY0 XX0 tmin tmax tcount full =
      match pairGuard GN rho nodelist Y0 with
      | some e => .error e
      | none => pairMidSIR odeint GN nbrs tr rr (nodesOf GN nodelist) (pairX0 GN rho Y0 X0) (pairY0 GN rho Y0) XY0 XX0
          (linspace tmin tmax tcount) full := by
  cases Y0 with
  | none =>
    cases rho with
    | none =>
      rw [SIR_pair_based_none_eq]
      by_cases hN : GN = 0
      · simp [pairGuard, hN]
      · simp only [pairGuard, hN, if_false]
        rw [SIR_pair_based_rho_eq, SIR_pair_based_mid]
        rfl
    | some r => rw [SIR_pair_based_rho_eq, SIR_pair_based_mid]; rfl
  | some y =>
    cases rho with
    | some r => exact SIR_pair_based_error_both ..
    | none =>
      cases nodelist with
      | none => exact SIR_pair_based_error_nodelist odeint myodeint GN nbrs tr rr none y X0 XY0 XX0 tmin tmax tcount full
      | some nl => rw [SIR_pair_based_mid]; rfl

/-- **exact success condition of `SIR_pair_based`** for an `X0` that is absent or has `G.order()` entries (there is no
length check of `X0` in the source: see the closed example with an `X0` of length 1) -/
theorem SIR_pair_based_ok_iff (odeint myodeint : Solver) (GN : Nat) (nbrs : Nat → List Nat) (tr : Nat → Nat → Rat)
    (rr : Nat → Rat) (rho : Option Rat) (nodelist : Option (List Nat)) (Y0 X0 : Option V) (XY0 XX0 : Option Mx)
    (tmin tmax : Rat) (tcount : Nat) (full : Bool) (hx : ∀ x, X0 = some x → x.n = GN) :
    (∃ res, GenGlue2.SIR_pair_based odeint myodeint GN nbrs tr rr rho nodelist Y0 X0 XY0 XX0 tmin tmax tcount full
      = .ok res) ↔
    pairGuard GN rho nodelist Y0 = none ∧ (pairY0 GN rho Y0).n = GN ∧ shapeOk GN XY0 ∧ shapeOk GN XX0 ∧
      ((nodesOf GN nodelist).length = GN ∨ (nodesOf GN nodelist).length = 1) := by
  rw [SIR_pair_based_eq]
  cases hg : pairGuard GN rho nodelist Y0 with
  | some e => simp
  | none =>
    simp only [true_and]
    by_cases hy : (pairY0 GN rho Y0).n = GN
    · have hx' : (pairX0 GN rho Y0 X0).n = GN := by
        cases X0 with
        | none => exact hy
        | some x => exact hx x rfl
      rcases pairMidSIR_form odeint GN nbrs tr rr (nodesOf GN nodelist) (pairX0 GN rho Y0 X0) (pairY0 GN rho Y0) XY0 XX0
        (linspace tmin tmax tcount) full hx' with ⟨h1, h2, h3, h4, x0, h5, -⟩ | ⟨h1, h2⟩ | ⟨h1, h2, h3, h4, h5, h6⟩
      · exact ⟨fun _ => ⟨h1, h2, h3, h4⟩, fun _ => ⟨_, h5⟩⟩
      · rw [h2]
        exact ⟨fun ⟨_, e⟩ => (nomatch e), fun h => absurd ⟨h.1, h.2.1, h.2.2.1⟩ h1⟩
      · rw [h6]
        exact ⟨fun ⟨_, e⟩ => (nomatch e), fun h => h.2.2.2.elim (fun h => absurd h h4) (fun h => absurd h h5)⟩
    · rw [pairMidSIR_err _ _ _ _ _ _ _ _ _ _ _ _ (fun h => hy h.1)]
      exact ⟨fun ⟨_, e⟩ => (nomatch e), fun h => absurd h.1 hy⟩

/-- **every normal return of `SIR_pair_based`** (`X0` absent or of `G.order()` entries): `odeint` solved
`Gen.dSIR_pair_based` (node count = length of the node list) from `X0 = [X0 | Y0 | XY0∘A | XX0∘A]` -/
theorem SIR_pair_based_form {odeint myodeint : Solver} {GN : Nat} {nbrs : Nat → List Nat} {tr : Nat → Nat → Rat}
    {rr : Nat → Rat} {rho : Option Rat} {nodelist : Option (List Nat)} {Y0 X0 : Option V} {XY0 XX0 : Option Mx}
    {tmin tmax : Rat} {tcount : Nat} {full : Bool} {x0 : V} {l : List Out}
    (hx : ∀ x, X0 = some x → x.n = GN)
    (h : GenGlue2.SIR_pair_based odeint myodeint GN nbrs tr rr rho nodelist Y0 X0 XY0 XX0 tmin tmax tcount full
      = .ok (x0, l)) :
    let nl := nodesOf GN nodelist
    let y := pairY0 GN rho Y0
    let x := pairX0 GN rho Y0 X0
    l = outSIRPair (linspace tmin tmax tcount) GN full
      (odeint (fun st => Gen.dSIR_pair_based st nl.length nbrs tr rr) x0) ∧
    x0.n = GN + GN + GN ^ 2 + GN ^ 2 ∧ (∀ k, k < GN → x0.f k = x.f k) ∧ (∀ k, k < GN → x0.f (GN + k) = y.f k) ∧
    (∀ i j, i < GN → j < GN → x0.f (GN + GN + (i * GN + j))
      = (xyOfR x y XY0).f i j * adjF nl nbrs (bidx nl.length i) (bidx nl.length j)) ∧
    (∀ i j, i < GN → j < GN → x0.f (GN + GN + GN ^ 2 + (i * GN + j))
      = (xxOfR x XX0).f i j * adjF nl nbrs (bidx nl.length i) (bidx nl.length j)) := by
  intro nl y x
  have hok := (SIR_pair_based_ok_iff odeint myodeint GN nbrs tr rr rho nodelist Y0 X0 XY0 XX0 tmin tmax tcount full
    hx).mp ⟨_, h⟩
  have hx' : x.n = GN := by
    cases X0 with
    | none => exact hok.2.1
    | some x' => exact hx x' rfl
  rw [SIR_pair_based_eq, hok.1] at h
  simp only [] at h
  rcases pairMidSIR_form odeint GN nbrs tr rr nl x y XY0 XX0
    (linspace tmin tmax tcount) full hx' with ⟨-, -, -, -, x0', h5, h6⟩ | ⟨-, h2⟩ | ⟨-, -, -, -, -, h6⟩
  · rw [h5] at h
    have := ok_inj h
    obtain rfl := congrArg Prod.fst this
    exact ⟨(congrArg Prod.snd this).symm, h6⟩
  · rw [h2] at h; cases h
  · rw [h6] at h; cases h

/-- **conservation for all inputs with `X0` absent or of `G.order()` entries**: whenever `SIR_pair_based` returns,
`S + I + R = G.order()` at every time index, for every solver -/
theorem SIR_pair_based_conserve_all {odeint myodeint : Solver} {GN : Nat} {nbrs : Nat → List Nat} {tr : Nat → Nat → Rat}
    {rr : Nat → Rat} {rho : Option Rat} {nodelist : Option (List Nat)} {Y0 X0 : Option V} {XY0 XX0 : Option Mx}
    {tmin tmax : Rat} {tcount : Nat} {full : Bool} {x0 : V} {l : List Out}
    (hx : ∀ x, X0 = some x → x.n = GN)
    (h : GenGlue2.SIR_pair_based odeint myodeint GN nbrs tr rr rho nodelist Y0 X0 XY0 XX0 tmin tmax tcount full
      = .ok (x0, l)) (i : Nat) : get l 1 i + get l 2 i + get l 3 i = (GN : Rat) := by
  obtain ⟨rfl, -⟩ := SIR_pair_based_form hx h
  exact outSIRPair_conserve _ _ _ _ i

/-- **initial state** (`RowZero odeint`): `S(0) = Σ X0`, `I(0) = Σ Y0`, `R(0) = N − Σ X0 − Σ Y0` with the `X0`, `Y0` used -/
theorem SIR_pair_based_init_all {odeint myodeint : Solver} (h0 : RowZero odeint) {GN : Nat} {nbrs : Nat → List Nat}
    {tr : Nat → Nat → Rat} {rr : Nat → Rat} {rho : Option Rat} {nodelist : Option (List Nat)} {Y0 X0 : Option V}
    {XY0 XX0 : Option Mx} {tmin tmax : Rat} {tcount : Nat} {full : Bool} {x0 : V} {l : List Out}
    (hx : ∀ x, X0 = some x → x.n = GN)
    (h : GenGlue2.SIR_pair_based odeint myodeint GN nbrs tr rr rho nodelist Y0 X0 XY0 XX0 tmin tmax tcount full
      = .ok (x0, l)) :
    get l 1 0 = sumTo GN (pairX0 GN rho Y0 X0).f ∧ get l 2 0 = sumTo GN (pairY0 GN rho Y0).f ∧
    get l 3 0 = (GN : Rat) - sumTo GN (pairX0 GN rho Y0 X0).f - sumTo GN (pairY0 GN rho Y0).f := by
  obtain ⟨rfl, -, hf, hf', -⟩ := SIR_pair_based_form hx h
  exact outSIRPair_init _ GN full _ x0 _ _ (h0 _ _) hf hf'

/-! ### further exception theorems and `SIR_pair_based_pure_IC` -/

/-- `XX0` of the wrong shape (after the guards on `Y0` and `XY0`), with or without `X0` -/
theorem SIR_pair_based_error_XX0 (odeint myodeint : Solver) (GN : Nat) (nbrs : Nat → List Nat)
    (tr : Nat → Nat → Rat) (rr : Nat → Rat) (nl : List Nat) (y : V) (X0 : Option V) (xy xx : Mx) (tmin tmax : Rat)
    (tcount : Nat) (full : Bool) (hy : y.n = GN) (hs : xy.r = GN ∧ xy.c = GN) (hx : ¬ (xx.r = GN ∧ xx.c = GN)) :
    GenGlue2.SIR_pair_based odeint myodeint GN nbrs tr rr none (some nl) (some y) X0 (some xy) (some xx) tmin tmax tcount
      full = .error "EoNError" := by
  cases X0 <;> simp [GenGlue2.SIR_pair_based, hy, hs, hx]

/-- `XX0` of the wrong shape with the default `XY0` (built from `X0`, `Y0` of `GN` entries: no earlier failure) -/
theorem SIR_pair_based_error_XX0' (odeint myodeint : Solver) (GN : Nat) (nbrs : Nat → List Nat)
    (tr : Nat → Nat → Rat) (rr : Nat → Rat) (nl : List Nat) (y : V) (xx : Mx) (tmin tmax : Rat)
    (tcount : Nat) (full : Bool) (hy : y.n = GN) (hx : ¬ (xx.r = GN ∧ xx.c = GN)) :
    GenGlue2.SIR_pair_based odeint myodeint GN nbrs tr rr none (some nl) (some y) none none (some xx) tmin tmax tcount
      full = .error "EoNError" := by
  simp [GenGlue2.SIR_pair_based, hy, hx, Mx.op, Mx.col, Mx.row]

/-- `SIR_pair_based_pure_IC` with a node list whose length differs from `G.order()`: `EoNError` (`len(Y0) != N`) -/
theorem SIR_pair_based_pure_IC_error (odeint myodeint : Solver) (GN : Nat) (nbrs : Nat → List Nat)
    (tr : Nat → Nat → Rat) (rr : Nat → Rat) (inf : List Nat) (rc : Option (List Nat)) (nl : List Nat) (tmin tmax : Rat)
    (tcount : Nat) (full : Bool) (hl : nl.length ≠ GN) :
    GenGlue2.SIR_pair_based_pure_IC odeint myodeint GN nbrs tr rr inf rc (some nl) tmin tmax tcount full
      = .error "EoNError" := by
  unfold GenGlue2.SIR_pair_based_pure_IC
  cases rc <;>
    simp only [Option.isNone_some, Option.isNone_none, if_false, if_true, Bool.false_eq_true, need_some, ok_bind] <;>
    rw [GenGlue2Props.SIR_pair_based_error_length _ _ _ _ _ _ _ _ _ _ _ _ _ _ _ (by simpa using hl)]

/-- **`SIR_pair_based_pure_IC` without `initial_recovereds`** (node list of `GN` nodes): no exception; `S + I + R = N` at
every time index; `I(0)` = number of listed nodes in `initial_infecteds`, `S(0) = N − I(0)`, `R(0) = 0` -/
theorem SIR_pair_based_pure_IC_none_spec {odeint myodeint : Solver} {GN : Nat} {nbrs : Nat → List Nat}
    {tr : Nat → Nat → Rat} {rr : Nat → Rat} {inf : List Nat} {nodelist : Option (List Nat)} {tmin tmax : Rat}
    {tcount : Nat} {full : Bool} (hl : (nodesOf GN nodelist).length = GN) :
    ∃ x0 l, GenGlue2.SIR_pair_based_pure_IC odeint myodeint GN nbrs tr rr inf none nodelist tmin tmax tcount full
      = .ok (x0, l) ∧ (∀ i, get l 1 i + get l 2 i + get l 3 i = (GN : Rat)) ∧
      (RowZero odeint →
        get l 1 0 = (GN : Rat) - (countIn (nodesOf GN nodelist) (memB inf) : Rat) ∧
        get l 2 0 = (countIn (nodesOf GN nodelist) (memB inf) : Rat) ∧ get l 3 0 = 0) := by
  obtain ⟨x0, l, h, hc, hi⟩ := SIR_pair_based_Y0 (odeint := odeint) (myodeint := myodeint) (nbrs := nbrs) (tr := tr)
    (rr := rr) (tmin := tmin) (tmax := tmax) (tcount := tcount) (full := full)
    (y := indV (nodesOf GN nodelist) (memB inf) 1 0) (X0 := some (vcompl (indV (nodesOf GN nodelist) (memB inf) 1 0)))
    (nl := nodesOf GN nodelist) (by rw [indV_n, hl]) (by intro x hx; cases hx; rw [vcompl_n, indV_n, hl]) hl
  refine ⟨x0, l, ?_, hc, fun h0 => ?_⟩
  · unfold GenGlue2.SIR_pair_based_pure_IC
    cases nodelist <;>
      simp only [Option.isNone_none, Option.isNone_some, if_true, if_false, Bool.false_eq_true, need_some, ok_bind,
        nodesOf, Option.getD, bind_pure, pure_bind] at h ⊢ <;>
      exact h
  · have e2 := sumTo_indV (nodesOf GN nodelist) (memB inf)
    rw [hl] at e2
    have e1 : sumTo GN (vcompl (indV (nodesOf GN nodelist) (memB inf) 1 0)).f
        = (GN : Rat) - (countIn (nodesOf GN nodelist) (memB inf) : Rat) := by
      have : sumTo GN (vcompl (indV (nodesOf GN nodelist) (memB inf) 1 0)).f
          = sumTo GN (fun k => 1 - (indV (nodesOf GN nodelist) (memB inf) 1 0).f k) := rfl
      rw [this, GenGlueProofs.sumTo_sub, sumTo_const, e2]
      simp [countIn]
    obtain ⟨a, b, c⟩ := hi h0
    simp only [Option.getD_some] at a c
    rw [e1] at a c
    rw [e2] at b c
    refine ⟨a, b, ?_⟩
    rw [c]; simp [countIn]

/-! ### closed examples for section 5 -/

/-- node list of length 3 on a graph with 2 nodes: `ValueError`; of length 1: accepted (`SIR_pair_based`) -/
example : rowAt (GenGlue2.SIR_pair_based constOdeint constOdeint 2 exNbrs exTr exRr (some (1/4)) (some [0, 1, 2]) none none
    none none 0 10 11 false) 0 = .inl "ValueError" := by decide +kernel
example : rowAt (GenGlue2.SIR_pair_based constOdeint constOdeint 2 exNbrs exTr exRr (some (1/4)) (some [0]) none none
    none none 0 10 11 false) 0
    = .inr ([3/4, 3/4, 1/4, 1/4, 0, 0, 0, 0, 0, 0, 0, 0], [[0], [3/2], [1/2], [0]]) := by decide +kernel
/-- the entries of `X0` (`SIS_pair_based`, `Y0 = [1/4, 1/2]` on the edge `0 — 1`): `XY = [0, 3/8, 1/8, 0]`,
`XX = [0, 3/8, 3/8, 0]` -/
example : rowAt (GenGlue2.SIS_pair_based constOdeint constOdeint 2 exNbrs exTr exRr none (some [0, 1])
    (some (V.ofList [1/4, 1/2])) none none 0 10 11 true) 0
    = .inr ([1/4, 1/2, 0, 3/8, 1/8, 0, 0, 3/8, 3/8, 0],
        [[0], [5/4], [3/4], [3/4, 1/2], [1/4, 1/2], [0, 3/8, 1/8, 0], [0, 3/8, 3/8, 0]]) := by decide +kernel
/-- **why `hx` in the `SIR_pair_based` theorems**: the source never checks the length of `X0`; an `X0` of length 1 on a
2-node graph is accepted (broadcast in `XY0`, `XX0`), the state vector has 11 entries instead of 12 and the slices are
misaligned: `S(0) = 3/4` (`= X0[0] + Y0[0]`), `I(0) = 1/4`, `R(0) = 1`.  An `X0` of length 3: `ValueError` -/
example : rowAt (GenGlue2.SIR_pair_based constOdeint constOdeint 2 exNbrs exTr exRr none (some [0, 1])
    (some (V.ofList [1/4, 1/4])) (some (V.ofList [1/2])) none none 0 10 11 false) 0
    = .inr ([1/2, 1/4, 1/4, 0, 1/8, 1/8, 0, 0, 1/4, 1/4, 0], [[0], [3/4], [1/4], [1]]) := by decide +kernel
example : rowAt (GenGlue2.SIR_pair_based constOdeint constOdeint 2 exNbrs exTr exRr none (some [0, 1])
    (some (V.ofList [1/4, 1/4])) (some (V.ofList [1/2, 1/2, 1/2])) none none 0 10 11 false) 0 = .inl "ValueError" := by
  decide +kernel
/-- `SIR_pair_based_pure_IC` without `initial_recovereds`, path `0 — 1 — 2`, node 1 infected:
`X0 = [X | Y | XY | XX]` with `XY[0][1] = XY[2][1] = 1`, `XX = 0` (0 and 2 are not adjacent) -/
example : rowAt (GenGlue2.SIR_pair_based_pure_IC constOdeint constOdeint 3 exNbrs exTr exRr [1] none none
    0 10 11 false) 0
    = .inr ([1, 0, 1, 0, 1, 0, 0, 1, 0, 0, 0, 0, 0, 1, 0, 0, 0, 0, 0, 0, 0, 0, 0, 0], [[0], [2], [1], [0]]) := by
  decide +kernel
example : rowAt (GenGlue2.SIR_pair_based_pure_IC constOdeint constOdeint 3 exNbrs exTr exRr [1] none (some [0, 1])
    0 10 11 false) 0 = .inl "EoNError" := by decide +kernel
/-- `XX0` of the wrong shape -/
example : rowAt (GenGlue2.SIR_pair_based constOdeint constOdeint 2 exNbrs exTr exRr none (some [0, 1])
    (some (V.ofList [1, 0])) none none (some ⟨1, 2, fun _ _ => 0⟩) 0 10 11 false) 0 = .inl "EoNError" := by
  decide +kernel
/-- the general theorems apply (hypotheses satisfiable): success condition and conservation on an instance -/
example : ∃ res, GenGlue2.SIR_pair_based constOdeint driftOdeint 2 exNbrs exTr exRr (some (1/4)) (some [1]) none none
    none none 0 10 11 true = .ok res :=
  (SIR_pair_based_ok_iff constOdeint driftOdeint 2 exNbrs exTr exRr (some (1/4)) (some [1]) none none none none 0 10 11
    true (fun _ h => nomatch h)).mpr
    ⟨rfl, rfl, (fun _ h => nomatch h), (fun _ h => nomatch h), Or.inr rfl⟩

end GenGlue3Props
