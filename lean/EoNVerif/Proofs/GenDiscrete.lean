import EoNVerif.Gen.DiscreteGen
import EoNVerif.Proofs.Discrete
import EoNVerif.Proofs.ReedFrost
/-!
The code generated from `discrete_SIR` / `basic_discrete_SIS` / `percolate_network` (`Gen/DiscreteGen.lean`) refines the
hand models `Discrete` (Model/Discrete.lean) and `ReedFrost` (Model/ReedFrost.lean).
-/
set_option linter.unusedSimpArgs false
set_option linter.unusedVariables false
open PyDM

namespace GenDiscrete
open GenDSIR

/-! ### the pieces of one generation of `GenDSIR.loop` -/

/-- `while infecteds and t[-1] < tmax` -/
def cond (P : DArgs) (σ : Loc) : DM Bool :=
  (if (!σ.infecteds.isEmpty) then do
      let last_1 ← PyDM.liftE (PyTM.listLast σ.t)
      pure (ERat.lt (some last_1) P.tmax)
    else pure false)

/-- one contact `u → v` -/
def contactStep (P : DArgs) (u : Node) (σ : Loc) (v : Node) : DM Loc := do
  let c_4 ← (if (σ.susceptible v) then do
    let tt_3 ← P.testTrans u v
    pure tt_3
  else pure false)
  let σ ← (if c_4 then do
    let σ := { σ with new_infecteds := PyDM.setAdd σ.new_infecteds v }
    let σ := { σ with susceptible := PyDM.fset σ.susceptible v false }
    let σ := { σ with infector := alSet σ.infector v [u] }
    let σ := { σ with nS := σ.nS - 1 }
    pure σ
  else do
    let c_7 ← (if P.full then do
      let c_6 ← (if (σ.new_infecteds.contains v) then do
        let tt_5 ← P.testTrans u v
        pure tt_5
      else pure false)
      pure c_6
    else pure false)
    let σ ← (if c_7 then do
      let d_8 ← PyDM.liftE (PyDM.dictAppend σ.infector v u)
      let σ := { σ with infector := d_8 }
      pure σ
    else do
      pure σ)
    pure σ)
  pure σ

/-- `for u in infecteds: for v in G.neighbors(u): …` -/
def contactLoop (P : DArgs) (l : List Node) (σ : Loc) : DM Loc :=
  l.foldlM (fun (σ : Loc) (u : Node) => do
    let σ ← (P.nbrs u).foldlM (contactStep P u) σ
    pure σ) σ

/-- the `return_full_data` bookkeeping between the contact loop and the recovery loop -/
def fullPart (P : DArgs) (σ : Loc) : DM Loc :=
  (if P.full then do
    let σ ← (σ.infector.map (·.1)).foldlM (fun (σ : Loc) (v : Node) => do
      let last_10 ← PyDM.liftE (PyTM.listLast σ.t)
      let inf_11 ← PyDM.liftE (PyRT.dictGet σ.infector v)
      let ch_12 ← PyDM.choiceNode inf_11
      let σ := { σ with transmissions := σ.transmissions ++ [(last_10, some ch_12, v)] }
      pure σ) σ
    let σ ← (if (ERat.le (some σ.next_time) P.tmax) then do
      let σ ← (match P.testRec with
        | none => do
          let σ ← (P.iter σ.infecteds).foldlM (fun (σ : Loc) (u : Node) => do
            let σ := { σ with node_history := PyDM.nhApp0 P.tmin σ.node_history u σ.next_time }
            let σ := { σ with node_history := PyDM.nhApp1 P.tmin σ.node_history u St.R }
            pure σ) σ
          pure σ
        | some _test_recovery => do
          pure σ)
      let σ ← (P.iter σ.new_infecteds).foldlM (fun (σ : Loc) (v : Node) => do
        let σ := { σ with node_history := PyDM.nhApp0 P.tmin σ.node_history v σ.next_time }
        let σ := { σ with node_history := PyDM.nhApp1 P.tmin σ.node_history v St.I }
        pure σ) σ
      pure σ
    else do
      pure σ)
    pure σ
  else do
    pure σ)

/-- the recovery loop -/
def recPart (P : DArgs) (σ : Loc) : DM Loc :=
  (match P.testRec with
    | none => do
      let σ := { σ with totR := σ.totR + (σ.infecteds.length : Int) }
      pure σ
    | some test_recovery => do
      let σ ← (P.iter σ.infecteds).foldlM (fun (σ : Loc) (u : Node) => do
        let tr_13 ← test_recovery u
        let σ ← (if tr_13 then do
          let σ ← (if P.full then do
            let σ := { σ with node_history := PyDM.nhApp0 P.tmin σ.node_history u σ.next_time }
            let σ := { σ with node_history := PyDM.nhApp1 P.tmin σ.node_history u St.R }
            pure σ
          else do
            pure σ)
          let σ := { σ with totR := σ.totR + 1 }
          pure σ
        else do
          let σ := { σ with new_infecteds := PyDM.setAdd σ.new_infecteds u }
          pure σ)
        pure σ) σ
      pure σ)

/-- the new rows -/
def rowsPart (σ : Loc) : DM Loc := do
  let σ := { σ with infecteds := σ.new_infecteds }
  let σ := { σ with R := σ.R ++ [σ.totR] }
  let σ := { σ with I := σ.I ++ [(σ.infecteds.length : Int)] }
  let σ := { σ with S := σ.S ++ [σ.nS] }
  let last_14 ← PyDM.liftE (PyTM.listLast σ.t)
  let σ := { σ with t := σ.t ++ [(last_14 + 1)] }
  pure σ

/-- one generation (the body of the `while` loop) -/
def gen (P : DArgs) (σ : Loc) : DM Loc := do
  let σ := { σ with new_infecteds := [] }
  let σ := { σ with infector := [] }
  let σ ← contactLoop P (P.iter σ.infecteds) σ
  let last_9 ← PyDM.liftE (PyTM.listLast σ.t)
  let σ := { σ with next_time := (last_9 + 1) }
  let σ ← fullPart P σ
  let σ ← recPart P σ
  rowsPart σ

theorem loop_zero (P : DArgs) (σ : Loc) : loop P 0 σ = PyDM.fail "fuel" := rfl

theorem loop_succ (P : DArgs) (fuel : Nat) (σ : Loc) :
    loop P (fuel + 1) σ = (do
      let c ← cond P σ
      if c then gen P σ >>= loop P fuel else pure σ) := by
  rw [loop]
  simp only [gen, cond, contactLoop, fullPart, recPart, rowsPart, bind_assoc, pure_bind]
  rfl


/-! ### the monad `DM = StateT DSt TM` -/

theorem dm_pure {α : Type} (a : α) (d : DSt) : (pure a : DM α) d = (pure (a, d) : TM (α × DSt)) := rfl

theorem dm_bind {α β : Type} (x : DM α) (f : α → DM β) (d : DSt) :
    (x >>= f) d = (x d >>= fun p => f p.1 p.2) := rfl

theorem dm_bind_pure {α β : Type} {x : DM α} {f : α → DM β} {d d' : DSt} {a : α}
    (h : x d = (pure (a, d') : TM (α × DSt))) : (x >>= f) d = f a d' := by
  rw [dm_bind, h, pure_bind]

theorem tm_bind_ok {α β : Type} {x : TM α} {f : α → TM β} {ts ts' : TapeSt} {a : α}
    (h : x ts = .ok (a, ts')) : (x >>= f) ts = f a ts' := by
  simp only [bind, StateT.bind, Except.bind, h]

theorem tm_bind_err {α β : Type} {x : TM α} {f : α → TM β} {ts : TapeSt} {e : String}
    (h : x ts = .error e) : (x >>= f) ts = .error e := by
  simp only [bind, StateT.bind, Except.bind, h]

theorem tm_pure {α : Type} (a : α) (ts : TapeSt) : (pure a : TM α) ts = .ok (a, ts) := rfl

theorem liftE_ok {α : Type} (a : α) : (PyDM.liftE (.ok a : Except String α)) = (pure a : DM α) := rfl

theorem liftE_pure {α : Type} (a : α) : (PyDM.liftE (pure a : Except String α)) = (pure a : DM α) := rfl

theorem listLast_eq {α : Type} {l : List α} {a : α} (h : l.getLast? = some a) :
    PyDM.liftE (PyTM.listLast l) = (pure a : DM α) := by
  simp only [PyTM.listLast, h]; rfl

theorem listLast_append {α : Type} (l : List α) (a : α) :
    PyDM.liftE (PyTM.listLast (l ++ [a])) = (pure a : DM α) :=
  listLast_eq (by simp)

/-- a fold whose body is pure at the callback state `d` as long as the invariant `I` holds -/
theorem foldlM_pure_inv {Λ α : Type} (body : Λ → α → DM Λ) (g : Λ → α → Λ) (I : Λ → Prop) (d : DSt)
    (h : ∀ σ a, I σ → body σ a d = (pure (g σ a, d) : TM (Λ × DSt)) ∧ I (g σ a)) :
    ∀ (l : List α) (σ : Λ), I σ → l.foldlM body σ d = (pure (l.foldl g σ, d) : TM (Λ × DSt)) ∧ I (l.foldl g σ) := by
  intro l
  induction l with
  | nil => intro σ hσ; exact ⟨rfl, hσ⟩
  | cons a l ih =>
    intro σ hσ
    obtain ⟨h1, h2⟩ := h σ a hσ
    rw [List.foldlM_cons, dm_bind_pure h1, List.foldl_cons]
    exact ih _ h2

/-! ### association lists -/

theorem alFind?_alSet {κ ν : Type} [DecidableEq κ] (d : List (κ × ν)) (k : κ) (v : ν) (x : κ) :
    PyRT.alFind? (alSet d k v) x = if x = k then some v else PyRT.alFind? d x := by
  induction d with
  | nil =>
    simp only [alSet, PyRT.alFind?]
    by_cases h : x = k
    · subst h; simp
    · have : ¬ k = x := fun h' => h h'.symm
      simp [h, this]
  | cons p t ih =>
    obtain ⟨k', w⟩ := p
    simp only [alSet]
    by_cases h1 : k' = k
    · subst h1
      simp only [if_true, PyRT.alFind?]
      by_cases h2 : k' = x
      · subst h2; simp
      · have : ¬ x = k' := fun h' => h2 h'.symm
        simp [h2, this]
    · simp only [h1, if_false, PyRT.alFind?, ih]
      by_cases h2 : k' = x
      · subst h2; simp [h1]
      · simp [h2]

theorem keys_alSet {κ ν : Type} [DecidableEq κ] (d : List (κ × ν)) (k : κ) (v : ν) :
    (alSet d k v).map (·.1) = if k ∈ d.map (·.1) then d.map (·.1) else d.map (·.1) ++ [k] := by
  induction d with
  | nil => simp [alSet]
  | cons p t ih =>
    obtain ⟨k', w⟩ := p
    simp only [alSet]
    by_cases h1 : k' = k
    · subst h1; simp
    · have : ¬ k = k' := fun h' => h1 h'.symm
      simp only [h1, if_false, List.map_cons, ih, List.mem_cons, this, false_or]
      split <;> simp

theorem alFind?_isSome {κ ν : Type} [DecidableEq κ] (d : List (κ × ν)) (x : κ) :
    (PyRT.alFind? d x).isSome = true ↔ x ∈ d.map (·.1) := by
  induction d with
  | nil => simp [PyRT.alFind?]
  | cons p t ih =>
    obtain ⟨k', w⟩ := p
    simp only [PyRT.alFind?, List.map_cons, List.mem_cons]
    by_cases h : k' = x
    · subst h; simp
    · have : ¬ x = k' := fun h' => h h'.symm
      simp [h, this, ih]

/-! ### the contact loop under a transmission rule that only reads the callback state -/

/-- one contact, as a function -/
def cstepF (full : Bool) (rule : Node → Node → Bool) (u : Node) (σ : Loc) (v : Node) : Loc :=
  if σ.susceptible v && rule u v then
    { σ with new_infecteds := PyDM.setAdd σ.new_infecteds v, susceptible := PyDM.fset σ.susceptible v false,
             infector := alSet σ.infector v [u], nS := σ.nS - 1 }
  else if full && (σ.new_infecteds.contains v && rule u v) then
    { σ with infector := alSet σ.infector v ((PyRT.alFind? σ.infector v).getD [] ++ [u]) }
  else σ

/-- the inner loop, as a function -/
def cinnerF (full : Bool) (rule : Node → Node → Bool) (nbrs : Node → List Node) (σ : Loc) (u : Node) : Loc :=
  (nbrs u).foldl (cstepF full rule u) σ

/-- every node of `new_infecteds` is a key of `infector` -/
def KeyInv (σ : Loc) : Prop := ∀ x ∈ σ.new_infecteds, x ∈ σ.infector.map (·.1)

theorem keyInv_cstepF (full : Bool) (rule : Node → Node → Bool) (u : Node) (σ : Loc) (v : Node) (h : KeyInv σ) :
    KeyInv (cstepF full rule u σ v) := by
  unfold cstepF
  split
  · intro x hx
    simp only [PyDM.setAdd] at hx
    simp only [keys_alSet]
    split at hx
    · have := h x hx; split <;> simp [this]
    · rcases List.mem_append.1 hx with hx | hx
      · have := h x hx; split <;> simp [this]
      · simp at hx; subst hx; split
        · assumption
        · simp
  · split
    · intro x hx
      have := h x hx
      simp only [keys_alSet]
      split <;> simp [this]
    · exact h

/-- the transmission callback only reads the callback state: `rl d u v` is its answer in state `d` -/
def ReadsOnly (P : DArgs) (rl : DSt → Node → Node → Bool) : Prop :=
  ∀ u v d, P.testTrans u v d = (pure (rl d u v, d) : TM (Bool × DSt))

theorem contactStep_eq (P : DArgs) (rl : DSt → Node → Node → Bool) (hT : ReadsOnly P rl) (u : Node) (σ : Loc)
    (v : Node) (d : DSt) (hk : KeyInv σ) :
    contactStep P u σ v d = (pure (cstepF P.full (rl d) u σ v, d) : TM (Loc × DSt)) := by
  unfold contactStep cstepF
  by_cases hs : σ.susceptible v = true
  · simp only [hs, if_true, bind_pure, Bool.true_and]
    rw [dm_bind_pure (hT u v d)]
    by_cases hr : rl d u v = true
    · simp only [hr, if_true]; rfl
    · have hr' : rl d u v = false := by simpa using hr
      simp only [hr', Bool.false_eq_true, if_false, Bool.and_false]
      cases hf : P.full
      · rfl
      · simp only [if_true, Bool.true_and]
        by_cases hc : σ.new_infecteds.contains v = true
        · simp only [hc, if_true, bind_pure]
          rw [dm_bind_pure (hT u v d)]
          simp only [hr', Bool.false_eq_true, if_false]; rfl
        · have hc' : σ.new_infecteds.contains v = false := by simpa using hc
          simp only [hc', Bool.false_eq_true, if_false, bind_pure]; rfl
  · have hs' : σ.susceptible v = false := by simpa using hs
    simp only [hs', Bool.false_eq_true, if_false, Bool.false_and]
    rw [dm_bind_pure (dm_pure false d)]
    simp only [Bool.false_eq_true, if_false, bind_pure]
    cases hf : P.full
    · rfl
    · simp only [if_true, Bool.true_and]
      by_cases hc : σ.new_infecteds.contains v = true
      · simp only [hc, if_true, bind_pure]
        rw [dm_bind_pure (hT u v d)]
        by_cases hr : rl d u v = true
        · simp only [hr, if_true, Bool.true_and]
          have hmem : v ∈ σ.infector.map (·.1) := hk v (by simpa using hc)
          rw [← alFind?_isSome] at hmem
          obtain ⟨l, hl⟩ := Option.isSome_iff_exists.1 hmem
          simp only [PyDM.dictAppend, PyRT.dictGet, hl, Option.getD_some]
          rfl
        · have hr' : rl d u v = false := by simpa using hr
          simp only [hr', Bool.false_eq_true, if_false, Bool.and_false]; rfl
      · have hc' : σ.new_infecteds.contains v = false := by simpa using hc
        simp only [hc', Bool.false_eq_true, if_false, bind_pure, Bool.false_and]; rfl


theorem contactLoop_eq (P : DArgs) (rl : DSt → Node → Node → Bool) (hT : ReadsOnly P rl) (d : DSt) :
    ∀ (l : List Node) (σ : Loc), KeyInv σ →
      contactLoop P l σ d = (pure (l.foldl (cinnerF P.full (rl d) P.nbrs) σ, d) : TM (Loc × DSt)) ∧
      KeyInv (l.foldl (cinnerF P.full (rl d) P.nbrs) σ) := by
  intro l σ hσ
  unfold contactLoop
  refine foldlM_pure_inv _ _ KeyInv d ?_ l σ hσ
  intro σ u hk
  exact foldlM_pure_inv _ _ KeyInv d
    (fun σ v hk => ⟨contactStep_eq P rl hT u σ v d hk, keyInv_cstepF _ _ _ _ _ hk⟩) (P.nbrs u) σ hk

/-- fields not touched by the contact loop -/
def CFrame (σ σ' : Loc) : Prop :=
  σ' = { σ with new_infecteds := σ'.new_infecteds, susceptible := σ'.susceptible, infector := σ'.infector, nS := σ'.nS }

theorem CFrame.refl (σ : Loc) : CFrame σ σ := rfl

theorem CFrame.trans {a b c : Loc} (h1 : CFrame a b) (h2 : CFrame b c) : CFrame a c := by
  unfold CFrame at *
  rw [h2, h1]

/-- the semantic invariant of the contact loop: `sus0`, `nS0` are `susceptible`, `nS` at the start of the generation -/
structure CInv (sus0 : Node → Bool) (nS0 : Int) (σ : Loc) : Prop where
  nodup : σ.new_infecteds.Nodup
  sus : ∀ x, σ.susceptible x = (sus0 x && !σ.new_infecteds.contains x)
  nS : σ.nS = nS0 - (σ.new_infecteds.length : Int)

theorem cstepF_frame (full : Bool) (rule : Node → Node → Bool) (u : Node) (σ : Loc) (v : Node) :
    CFrame σ (cstepF full rule u σ v) := by
  unfold cstepF CFrame
  split
  · rfl
  · split <;> rfl

theorem cstepF_inv (full : Bool) (rule : Node → Node → Bool) (sus0 : Node → Bool) (nS0 : Int) (u : Node) (σ : Loc)
    (v : Node) (h : CInv sus0 nS0 σ) :
    CInv sus0 nS0 (cstepF full rule u σ v) ∧
    ∀ x, x ∈ (cstepF full rule u σ v).new_infecteds ↔
      x ∈ σ.new_infecteds ∨ (x = v ∧ sus0 x = true ∧ rule u v = true) := by
  unfold cstepF
  by_cases hc : (σ.susceptible v && rule u v) = true
  · rw [if_pos hc]
    simp only [Bool.and_eq_true] at hc
    obtain ⟨hs, hr⟩ := hc
    have hsv := h.sus v
    rw [hs] at hsv
    have hs0 : sus0 v = true := by
      cases h0 : sus0 v
      · rw [h0] at hsv; simp at hsv
      · rfl
    have hnot : σ.new_infecteds.contains v = false := by
      rw [hs0] at hsv; simpa using hsv.symm
    have hnm : v ∉ σ.new_infecteds := by simpa using hnot
    have hadd : PyDM.setAdd σ.new_infecteds v = σ.new_infecteds ++ [v] := by
      simp [PyDM.setAdd, hnm]
    refine ⟨⟨?_, ?_, ?_⟩, ?_⟩
    · show (PyDM.setAdd σ.new_infecteds v).Nodup
      rw [hadd]
      exact List.nodup_append.2 ⟨h.nodup, by simp, by
        intro a ha b hb; simp at hb; subst hb; intro hab; subst hab; exact hnm ha⟩
    · intro x
      show PyDM.fset σ.susceptible v false x = (sus0 x && !(PyDM.setAdd σ.new_infecteds v).contains x)
      rw [hadd]
      unfold PyDM.fset
      by_cases hx : x = v
      · subst hx; simp
      · have hx' : ¬ v = x := fun h' => hx h'.symm
        simp [hx, hx', h.sus x]
    · show σ.nS - 1 = nS0 - ((PyDM.setAdd σ.new_infecteds v).length : Int)
      rw [hadd, h.nS]; simp; omega
    · intro x
      show x ∈ PyDM.setAdd σ.new_infecteds v ↔ _
      rw [hadd]
      constructor
      · intro hx
        rcases List.mem_append.1 hx with hx | hx
        · exact Or.inl hx
        · simp at hx; subst hx; exact Or.inr ⟨rfl, hs0, hr⟩
      · rintro (hx | ⟨rfl, _, _⟩)
        · exact List.mem_append_left _ hx
        · simp
  · rw [if_neg hc]
    have hmem : ∀ x, (x = v ∧ sus0 x = true ∧ rule u v = true) → x ∈ σ.new_infecteds := by
      rintro x ⟨rfl, h0, hr⟩
      have hsv := h.sus x
      rw [h0, Bool.true_and] at hsv
      rw [hr, Bool.and_true] at hc
      have : σ.susceptible x = false := by simpa using hc
      rw [this] at hsv
      simpa using hsv.symm
    split
    · exact ⟨⟨h.nodup, h.sus, h.nS⟩, fun x => ⟨Or.inl, fun hx => hx.elim id (hmem x)⟩⟩
    · exact ⟨h, fun x => ⟨Or.inl, fun hx => hx.elim id (hmem x)⟩⟩

/-- membership bookkeeping for a fold that only ever adds to `new_infecteds` -/
theorem foldl_mem {α : Type} (f : Loc → α → Loc) (I : Loc → Prop) (hit : α → Node → Prop)
    (h : ∀ σ a, I σ → I (f σ a) ∧ ∀ x, x ∈ (f σ a).new_infecteds ↔ x ∈ σ.new_infecteds ∨ hit a x) :
    ∀ (l : List α) (σ : Loc), I σ →
      I (l.foldl f σ) ∧ ∀ x, x ∈ (l.foldl f σ).new_infecteds ↔ x ∈ σ.new_infecteds ∨ ∃ a ∈ l, hit a x := by
  intro l
  induction l with
  | nil => intro σ hσ; exact ⟨hσ, by simp⟩
  | cons a l ih =>
    intro σ hσ
    obtain ⟨h1, h2⟩ := h σ a hσ
    obtain ⟨h3, h4⟩ := ih _ h1
    refine ⟨h3, ?_⟩
    intro x
    rw [List.foldl_cons, h4, h2]
    simp only [List.mem_cons, exists_eq_or_imp]
    tauto

theorem cinnerF_inv (full : Bool) (rule : Node → Node → Bool) (nbrs : Node → List Node) (sus0 : Node → Bool)
    (nS0 : Int) (σ0 σ : Loc) (u : Node) (h : CInv sus0 nS0 σ ∧ CFrame σ0 σ) :
    (CInv sus0 nS0 (cinnerF full rule nbrs σ u) ∧ CFrame σ0 (cinnerF full rule nbrs σ u)) ∧
    ∀ x, x ∈ (cinnerF full rule nbrs σ u).new_infecteds ↔
      x ∈ σ.new_infecteds ∨ (sus0 x = true ∧ x ∈ nbrs u ∧ rule u x = true) := by
  obtain ⟨h1, h2⟩ := foldl_mem (cstepF full rule u) (fun σ => CInv sus0 nS0 σ ∧ CFrame σ0 σ)
    (fun v x => x = v ∧ sus0 x = true ∧ rule u v = true)
    (fun σ v hσ => ⟨⟨(cstepF_inv full rule sus0 nS0 u σ v hσ.1).1, hσ.2.trans (cstepF_frame _ _ _ _ _)⟩,
      (cstepF_inv full rule sus0 nS0 u σ v hσ.1).2⟩) (nbrs u) σ h
  refine ⟨h1, ?_⟩
  intro x
  unfold cinnerF
  rw [h2]
  constructor
  · rintro (hx | ⟨v, hv, rfl, h0, hr⟩)
    · exact Or.inl hx
    · exact Or.inr ⟨h0, hv, hr⟩
  · rintro (hx | ⟨h0, hv, hr⟩)
    · exact Or.inl hx
    · exact Or.inr ⟨x, hv, rfl, h0, hr⟩

/-- **the contact loop computes the next generation**: started with `new_infecteds = []`, it ends with a duplicate-free
list whose members are exactly the susceptible nodes with a successful contact from a node of `l` -/
theorem cfold_spec (full : Bool) (rule : Node → Node → Bool) (nbrs : Node → List Node) (l : List Node) (σ : Loc)
    (hnew : σ.new_infecteds = []) :
    let σ1 := l.foldl (cinnerF full rule nbrs) σ
    CFrame σ σ1 ∧ σ1.new_infecteds.Nodup ∧
    (∀ x, σ1.susceptible x = (σ.susceptible x && !σ1.new_infecteds.contains x)) ∧
    σ1.nS = σ.nS - (σ1.new_infecteds.length : Int) ∧
    ∀ x, x ∈ σ1.new_infecteds ↔ (σ.susceptible x = true ∧ ∃ u ∈ l, x ∈ nbrs u ∧ rule u x = true) := by
  have h0 : CInv σ.susceptible σ.nS σ ∧ CFrame σ σ :=
    ⟨⟨by rw [hnew]; exact List.nodup_nil, by intro x; simp [hnew], by simp [hnew]⟩, CFrame.refl σ⟩
  obtain ⟨⟨h1, h2⟩, h3⟩ := foldl_mem (cinnerF full rule nbrs) (fun τ => CInv σ.susceptible σ.nS τ ∧ CFrame σ τ)
    (fun u x => σ.susceptible x = true ∧ x ∈ nbrs u ∧ rule u x = true)
    (fun τ u hτ => cinnerF_inv full rule nbrs σ.susceptible σ.nS σ τ u hτ) l σ h0
  refine ⟨h2, h1.nodup, h1.sus, h1.nS, ?_⟩
  intro x
  rw [h3, hnew]
  simp only [List.not_mem_nil, false_or]
  constructor
  · rintro ⟨u, hu, hs, hx, hr⟩; exact ⟨hs, u, hu, hx, hr⟩
  · rintro ⟨hs, u, hu, hx, hr⟩; exact ⟨u, hu, hs, hx, hr⟩


/-! ### the simulation relation with the hand model -/

open Discrete in
/-- the generated locals `σ` represent the model state `s` (rows in the opposite order, `infecteds` in any order) -/
structure Rel (P : DParams) (σ : Loc) (s : DState) : Prop where
  t : σ.t = s.t.reverse
  S : σ.S = s.S.reverse
  I : σ.I = s.I.reverse
  R : σ.R = s.R.reverse
  inf : σ.infecteds.Perm s.inf
  sus : σ.susceptible = s.sus
  nS : σ.nS = s.nS
  totR : σ.totR = s.totR
  tne : s.t ≠ []
  sub : s.inf.Sublist P.nodes
  notsus : ∀ u ∈ s.inf, s.sus u = false

theorem Rel.last {P : DParams} {σ : Loc} {s : DState} (h : Rel P σ s) :
    σ.t.getLast? = some (s.t.headD P.tmin) := by
  rw [h.t, List.getLast?_reverse]
  cases ht : s.t with
  | nil => exact absurd ht h.tne
  | cons a l => rfl

theorem Rel.inf_nodup {P : DParams} {σ : Loc} {s : DState} (h : Rel P σ s) (hnd : P.nodes.Nodup) :
    σ.infecteds.Nodup := h.inf.nodup_iff.2 (h.sub.nodup hnd)

open Discrete in
theorem cond_eq (A : DArgs) (P : DParams) (σ : Loc) (s : DState) (h : Rel P σ s) (htm : A.tmax = P.tmax) :
    cond A σ = (pure (!s.inf.isEmpty && ERat.lt (some (s.t.headD P.tmin)) P.tmax) : DM Bool) := by
  unfold cond
  have he : σ.infecteds.isEmpty = s.inf.isEmpty := by
    have := h.inf.length_eq
    cases h1 : σ.infecteds <;> cases h2 : s.inf <;> simp_all
  rw [he, listLast_eq h.last, htm]
  cases s.inf.isEmpty <;> simp

open Discrete in
/-- the update of the observable fields made by one generation leads to a state related to `Discrete.step P s` -/
theorem rel_step (P : DParams) (hnd : P.nodes.Nodup) (σ σ' : Loc) (s : DState) (h : Rel P σ s) (new : List Node)
    (hnew_nd : new.Nodup) (hnew : ∀ x, x ∈ new ↔ x ∈ newInf P s)
    (hinf_nd : σ'.infecteds.Nodup) (hinf : ∀ x, x ∈ σ'.infecteds ↔ x ∈ newInf P s ∨ x ∈ stay P s)
    (hsus : ∀ x, σ'.susceptible x = (σ.susceptible x && !new.contains x))
    (hnS : σ'.nS = σ.nS - (new.length : Int))
    (htotR : σ'.totR = σ.totR + ((σ.infecteds.length - (stay P s).length : Nat) : Int))
    (ht : σ'.t = σ.t ++ [s.t.headD P.tmin + 1]) (hS : σ'.S = σ.S ++ [σ'.nS])
    (hI : σ'.I = σ.I ++ [(σ'.infecteds.length : Int)]) (hR : σ'.R = σ.R ++ [σ'.totR]) :
    Rel P σ' (step P s) := by
  have hnewsub : ∀ x, x ∈ newInf P s → x ∈ P.nodes := fun x hx => ((mem_newInf P s x).1 hx).1
  have hstaysub : ∀ x, x ∈ stay P s → x ∈ P.nodes := fun x hx => h.sub.subset ((stay_sublist P s).subset hx)
  have hperm : σ'.infecteds.Perm (step P s).inf := by
    rw [List.perm_ext_iff_of_nodup hinf_nd (by rw [step_inf]; exact hnd.filter _)]
    intro x
    rw [hinf, mem_step_inf]
    constructor
    · intro hx; exact ⟨hx.elim (hnewsub x) (hstaysub x), hx⟩
    · exact fun hx => hx.2
  have hnewperm : new.Perm (newInf P s) := by
    rw [List.perm_ext_iff_of_nodup hnew_nd (by unfold newInf; exact hnd.filter _)]
    exact hnew
  have hnS' : σ'.nS = (step P s).nS := by rw [hnS, step_nS, h.nS, hnewperm.length_eq]
  have htotR' : σ'.totR = (step P s).totR := by rw [htotR, step_totR, h.totR, h.inf.length_eq]
  refine ⟨?_, ?_, ?_, ?_, hperm, ?_, hnS', htotR', ?_, ?_, ?_⟩
  · rw [ht, step_t, h.t]; simp
  · rw [hS, step_S, h.S, hnS']; simp
  · rw [hI, step_I, h.I, hperm.length_eq]; simp
  · rw [hR, step_R, h.R, htotR']; simp
  · funext x
    rw [hsus, step_sus, h.sus]
    congr 2
    rw [Bool.eq_iff_iff, List.contains_iff_mem, List.contains_iff_mem]
    exact hnew x
  · rw [step_t]; simp
  · rw [step_inf]; exact List.filter_sublist
  · intro u hu
    rw [mem_step_inf] at hu
    rw [step_sus]
    rcases hu.2 with h' | h'
    · simp [h']
    · simp [h.notsus u ((stay_sublist P s).subset h')]

/-- the new rows, as a function (`a` = the last time) -/
def rowsF (σ : Loc) (a : Rat) : Loc :=
  { σ with
    infecteds := σ.new_infecteds, R := σ.R ++ [σ.totR], I := σ.I ++ [(σ.new_infecteds.length : Int)],
    S := σ.S ++ [σ.nS], t := σ.t ++ [a + 1] }

theorem rowsPart_eq (σ : Loc) (a : Rat) (h : σ.t.getLast? = some a) :
    rowsPart σ = (pure (rowsF σ a) : DM Loc) := by
  unfold rowsPart rowsF
  simp only [listLast_eq h, pure_bind]

theorem rowsPart_eq_of (σ σ1 : Loc) (a : Rat) (ht : σ.t = σ1.t) (h : σ1.t.getLast? = some a) :
    rowsPart σ = (pure (rowsF σ a) : DM Loc) := rowsPart_eq σ a (by rw [ht]; exact h)

theorem fullPart_false (A : DArgs) (σ : Loc) (h : A.full = false) : fullPart A σ = pure σ := by
  unfold fullPart; simp [h]

theorem recPart_none (A : DArgs) (σ : Loc) (h : A.testRec = none) :
    recPart A σ = pure { σ with totR := σ.totR + (σ.infecteds.length : Int) } := by
  unfold recPart; simp [h]


theorem CFrame.t {σ σ' : Loc} (h : CFrame σ σ') : σ'.t = σ.t := by rw [h]
theorem CFrame.S {σ σ' : Loc} (h : CFrame σ σ') : σ'.S = σ.S := by rw [h]
theorem CFrame.I {σ σ' : Loc} (h : CFrame σ σ') : σ'.I = σ.I := by rw [h]
theorem CFrame.R {σ σ' : Loc} (h : CFrame σ σ') : σ'.R = σ.R := by rw [h]
theorem CFrame.infecteds {σ σ' : Loc} (h : CFrame σ σ') : σ'.infecteds = σ.infecteds := by rw [h]
theorem CFrame.totR {σ σ' : Loc} (h : CFrame σ σ') : σ'.totR = σ.totR := by rw [h]
theorem CFrame.node_history {σ σ' : Loc} (h : CFrame σ σ') : σ'.node_history = σ.node_history := by rw [h]
theorem CFrame.transmissions {σ σ' : Loc} (h : CFrame σ σ') : σ'.transmissions = σ.transmissions := by rw [h]

/-- what the refinement needs from the generated arguments -/
structure ArgsOK (A : DArgs) (P : DParams) : Prop where
  nbrs : A.nbrs = P.nbrs
  tmin : A.tmin = P.tmin
  tmax : A.tmax = P.tmax
  iter : ∀ l, (A.iter l).Perm l

open Discrete in
/-- the contact loop of one generation, from a state related to `s`: the result of the fold and its description -/
theorem contact_spec (A : DArgs) (P : DParams) (hA : ArgsOK A P) (hnb : ∀ u ∈ P.nodes, ∀ v ∈ P.nbrs u, v ∈ P.nodes)
    (rule : Node → Node → Bool) (σ : Loc) (s : DState) (h : Rel P σ s)
    (hrule : ∀ u ∈ s.inf, ∀ v, rule u v = P.rule (s.age u) u v) :
    let σ0 : Loc := { σ with new_infecteds := [], infector := [] }
    let σ1 := (A.iter σ.infecteds).foldl (cinnerF A.full rule A.nbrs) σ0
    CFrame σ σ1 ∧ σ1.new_infecteds.Nodup ∧
    (∀ x, σ1.susceptible x = (σ.susceptible x && !σ1.new_infecteds.contains x)) ∧
    σ1.nS = σ.nS - (σ1.new_infecteds.length : Int) ∧
    ∀ x, x ∈ σ1.new_infecteds ↔ x ∈ newInf P s := by
  intro σ0 σ1
  obtain ⟨h1, h2, h3, h4, h5⟩ := cfold_spec A.full rule A.nbrs (A.iter σ.infecteds) σ0 rfl
  have hf0 : CFrame σ σ0 := rfl
  refine ⟨hf0.trans h1, h2, h3, h4, ?_⟩
  intro x
  rw [h5, mem_newInf]
  show (σ.susceptible x = true ∧ _) ↔ _
  rw [h.sus, hA.nbrs]
  constructor
  · rintro ⟨hs, u, hu, hx, hr⟩
    have hu' : u ∈ s.inf := h.inf.subset ((hA.iter _).subset hu)
    exact ⟨hnb u (h.sub.subset hu') x hx, hs, u, hu', hx, by rw [← hrule u hu' x]; exact hr⟩
  · rintro ⟨_, hs, u, hu, hx, hr⟩
    exact ⟨hs, u, (hA.iter _).symm.subset (h.inf.symm.subset hu), hx, by rw [hrule u hu x]; exact hr⟩

open Discrete in
/-- what the tail of a generation needs to know about the locals after the contact loop -/
structure AfterContact (P : DParams) (σ : Loc) (s : DState) (σ2 : Loc) : Prop where
  t : σ2.t = σ.t
  S : σ2.S = σ.S
  I : σ2.I = σ.I
  R : σ2.R = σ.R
  infecteds : σ2.infecteds = σ.infecteds
  totR : σ2.totR = σ.totR
  nodup : σ2.new_infecteds.Nodup
  sus : ∀ x, σ2.susceptible x = (σ.susceptible x && !σ2.new_infecteds.contains x)
  nS : σ2.nS = σ.nS - (σ2.new_infecteds.length : Int)
  mem : ∀ x, x ∈ σ2.new_infecteds ↔ x ∈ newInf P s

/-- only `node_history`, `transmissions`, `next_time` differ -/
def HFrame (σ σ' : Loc) : Prop :=
  σ' = { σ with node_history := σ'.node_history, transmissions := σ'.transmissions, next_time := σ'.next_time }

theorem HFrame.refl (σ : Loc) : HFrame σ σ := rfl

theorem HFrame.trans {a b c : Loc} (h1 : HFrame a b) (h2 : HFrame b c) : HFrame a c := by
  unfold HFrame at *
  rw [h2, h1]

theorem AfterContact.hframe {P : DParams} {σ σ2 σ3 : Loc} {s : DState} (h : AfterContact P σ s σ2)
    (hf : HFrame σ2 σ3) : AfterContact P σ s σ3 := by
  constructor <;> rw [hf]
  · exact h.t
  · exact h.S
  · exact h.I
  · exact h.R
  · exact h.infecteds
  · exact h.totR
  · exact h.nodup
  · exact h.sus
  · exact h.nS
  · exact h.mem

theorem Rel.last' {P : DParams} {σ σ2 : Loc} {s : DState} (h : Rel P σ s) (ht : σ2.t = σ.t) :
    σ2.t.getLast? = some (s.t.headD P.tmin) := by rw [ht]; exact h.last

open Discrete in
/-- **tail of one generation, default recovery rule**: pure, and leads to a state related to `Discrete.step P s` -/
theorem tail_none (A : DArgs) (P : DParams) (hnd : P.nodes.Nodup) (hrec : A.testRec = none)
    (hrec' : P.recSteps = none) (σ σ2 : Loc) (s : DState) (h : Rel P σ s) (hac : AfterContact P σ s σ2) :
    ∃ σ', (recPart A σ2 >>= rowsPart) = (pure σ' : DM Loc) ∧ Rel P σ' (step P s) ∧
      σ'.node_history = σ2.node_history ∧ σ'.transmissions = σ2.transmissions := by
  have hlast : σ2.t.getLast? = some (s.t.headD P.tmin) := h.last' hac.t
  have hstay : stay P s = [] := by simp [stay, hrec']
  refine ⟨rowsF { σ2 with totR := σ2.totR + (σ2.infecteds.length : Int) } (s.t.headD P.tmin), ?_, ?_, rfl, rfl⟩
  · rw [recPart_none A _ hrec, pure_bind, rowsPart_eq_of (σ1 := σ2) (h := hlast)]
    rfl
  · refine rel_step P hnd σ _ s h σ2.new_infecteds hac.nodup hac.mem hac.nodup ?_ hac.sus hac.nS ?_ ?_ ?_ ?_ ?_
    · intro x; rw [hstay]; simp [rowsF, hac.mem x]
    · simp [rowsF, hstay, hac.totR, hac.infecteds]
    · simp [rowsF, hac.t]
    · simp [rowsF, hac.S]
    · simp [rowsF, hac.I]
    · simp [rowsF, hac.R]

/-! ### the recovery rule "recover at the k-th test", through the call log -/

/-- number of recovery tests of `u` logged so far -/
def cnt (d : DSt) (u : Node) : Nat := (d.calls.toList.filter (· == [1, u])).length

/-- the callback state after a logged recovery test of `u` -/
def logRec (d : DSt) (u : Node) : DSt := { d with calls := d.calls.push [1, u] }

/-- `test_recovery(u)`: logs the call, answers True at the `k u`-th call for `u` -/
def recCb (k : Node → Nat) (u : Node) : DM Bool := fun st =>
  pure (decide (cnt st u + 1 ≥ k u), logRec st u)

/-- `test_transmission(u, v)` for a rule that may depend on the number of steps `u` has been infectious: reads the
number of recovery tests `u` has failed from the log, logs nothing -/
def ageRule (rule : Nat → Node → Node → Bool) (u v : Node) : DM Bool := fun st => pure (rule (cnt st u) u v, st)

theorem cnt_logRec (d : DSt) (a u : Node) : cnt (logRec d a) u = cnt d u + if u = a then 1 else 0 := by
  unfold cnt logRec
  simp only [Array.toList_push, List.filter_append, List.length_append]
  congr 1
  by_cases h : u = a
  · subst h; simp
  · have : ¬ a = u := fun h' => h h'.symm
    simp [h, this]

/-- one round of the recovery loop on (locals, callback state) -/
def recStepF (k : Node → Nat) (full : Bool) (tmin : Rat) (p : Loc × DSt) (u : Node) : Loc × DSt :=
  (if decide (cnt p.2 u + 1 ≥ k u) then
      (let σa : Loc := if full then
          { p.1 with node_history := PyDM.nhApp1 tmin (PyDM.nhApp0 tmin p.1.node_history u p.1.next_time) u St.R }
        else p.1
       { σa with totR := σa.totR + 1 })
    else { p.1 with new_infecteds := PyDM.setAdd p.1.new_infecteds u },
   logRec p.2 u)

theorem foldlM_pure_st {Λ α : Type} (body : Λ → α → DM Λ) (g : Λ × DSt → α → Λ × DSt)
    (h : ∀ σ a d, body σ a d = (pure (g (σ, d) a) : TM (Λ × DSt))) :
    ∀ (l : List α) (σ : Λ) (d : DSt), l.foldlM body σ d = (pure (l.foldl g (σ, d)) : TM (Λ × DSt)) := by
  intro l
  induction l with
  | nil => intro σ d; rfl
  | cons a l ih =>
    intro σ d
    rw [List.foldlM_cons, dm_bind_pure (h σ a d), List.foldl_cons]
    exact ih _ _

theorem recPart_some (A : DArgs) (k : Node → Nat) (hrec : A.testRec = some (recCb k)) (σ : Loc) (d : DSt) :
    recPart A σ d =
      (pure ((A.iter σ.infecteds).foldl (recStepF k A.full A.tmin) (σ, d)) : TM (Loc × DSt)) := by
  unfold recPart
  rw [hrec]
  refine foldlM_pure_st _ _ ?_ _ σ d
  intro σ u d
  have hcb : recCb k u d = (pure (decide (cnt d u + 1 ≥ k u), logRec d u) : TM (Bool × DSt)) := rfl
  rw [dm_bind_pure hcb]
  unfold recStepF
  cases hb : decide (cnt d u + 1 ≥ k u) <;> cases hf : A.full <;> rfl

/-- the recovery loop changes only `totR`, `new_infecteds`, `node_history` -/
def RFrame (σ σ' : Loc) : Prop :=
  σ' = { σ with totR := σ'.totR, new_infecteds := σ'.new_infecteds, node_history := σ'.node_history }

theorem RFrame.trans {a b c : Loc} (h1 : RFrame a b) (h2 : RFrame b c) : RFrame a c := by
  unfold RFrame at *
  rw [h2, h1]

theorem setAdd_nodup (l : List Node) (x : Node) (h : l.Nodup) : (PyDM.setAdd l x).Nodup := by
  unfold PyDM.setAdd
  split
  · exact h
  · rename_i hx
    have hx' : x ∉ l := by simpa using hx
    exact List.nodup_append.2 ⟨h, by simp, by
      intro a ha b hb; simp at hb; subst hb; intro hab; subst hab; exact hx' ha⟩

theorem mem_setAdd (l : List Node) (x y : Node) : y ∈ PyDM.setAdd l x ↔ y ∈ l ∨ y = x := by
  unfold PyDM.setAdd
  split
  · rename_i hx
    have hx' : x ∈ l := by simpa using hx
    constructor
    · exact Or.inl
    · rintro (h | rfl)
      · exact h
      · exact hx'
  · simp

theorem recFold_spec (k : Node → Nat) (full : Bool) (tmin : Rat) (rc : Node → Bool) :
    ∀ (l : List Node) (σ : Loc) (d : DSt), l.Nodup → (∀ u ∈ l, rc u = decide (cnt d u + 1 ≥ k u)) →
      RFrame σ (l.foldl (recStepF k full tmin) (σ, d)).1 ∧
      (l.foldl (recStepF k full tmin) (σ, d)).1.totR = σ.totR + ((l.filter rc).length : Int) ∧
      (σ.new_infecteds.Nodup → (l.foldl (recStepF k full tmin) (σ, d)).1.new_infecteds.Nodup) ∧
      (∀ x, x ∈ (l.foldl (recStepF k full tmin) (σ, d)).1.new_infecteds ↔
        x ∈ σ.new_infecteds ∨ (x ∈ l ∧ rc x = false)) ∧
      (l.foldl (recStepF k full tmin) (σ, d)).2.answers = d.answers ∧
      (∀ u, cnt (l.foldl (recStepF k full tmin) (σ, d)).2 u = cnt d u + if u ∈ l then 1 else 0) ∧
      (full = false → (l.foldl (recStepF k full tmin) (σ, d)).1.node_history = σ.node_history) := by
  intro l
  induction l with
  | nil =>
    intro σ d _ _
    exact ⟨rfl, by simp, id, by simp, rfl, by simp, fun _ => rfl⟩
  | cons a l ih =>
    intro σ d hnd hrc
    have hnd' := (List.nodup_cons.1 hnd)
    have hd1 : ∀ u ∈ l, rc u = decide (cnt (logRec d a) u + 1 ≥ k u) := by
      intro u hu
      have hne : u ≠ a := fun h => hnd'.1 (h ▸ hu)
      rw [cnt_logRec, if_neg hne, Nat.add_zero]
      exact hrc u (List.mem_cons_of_mem _ hu)
    have hra := hrc a List.mem_cons_self
    rw [List.foldl_cons]
    cases hb : rc a
    · -- no recovery
      have hstep : recStepF k full tmin (σ, d) a =
          ({ σ with new_infecteds := PyDM.setAdd σ.new_infecteds a }, logRec d a) := by
        unfold recStepF; rw [← hra, hb]; rfl
      rw [hstep]
      obtain ⟨i1, i2, i3, i4, i5, i6, i7⟩ := ih { σ with new_infecteds := PyDM.setAdd σ.new_infecteds a } (logRec d a)
        hnd'.2 hd1
      refine ⟨RFrame.trans (show RFrame σ { σ with new_infecteds := PyDM.setAdd σ.new_infecteds a } from rfl) i1, ?_, ?_, ?_, ?_, ?_, ?_⟩
      · rw [i2]; simp [List.filter_cons, hb]
      · intro h; exact i3 (setAdd_nodup _ _ h)
      · intro x
        rw [i4]
        show x ∈ PyDM.setAdd σ.new_infecteds a ∨ _ ↔ _
        rw [mem_setAdd]
        constructor
        · rintro ((h | rfl) | ⟨h1, h2⟩)
          · exact Or.inl h
          · exact Or.inr ⟨List.mem_cons_self, hb⟩
          · exact Or.inr ⟨List.mem_cons_of_mem _ h1, h2⟩
        · rintro (h | ⟨h1, h2⟩)
          · exact Or.inl (Or.inl h)
          · rcases List.mem_cons.1 h1 with rfl | h1
            · exact Or.inl (Or.inr rfl)
            · exact Or.inr ⟨h1, h2⟩
      · rw [i5]; rfl
      · intro u
        rw [i6, cnt_logRec]
        by_cases hu : u = a
        · subst hu; simp [hnd'.1]
        · simp [hu]
      · intro hf; rw [i7 hf]
    · -- recovery
      obtain ⟨σa, hσa, hfr, htot, hnew, hnh⟩ : ∃ σa, recStepF k full tmin (σ, d) a = (σa, logRec d a) ∧ RFrame σ σa ∧
          σa.totR = σ.totR + 1 ∧ σa.new_infecteds = σ.new_infecteds ∧
          (full = false → σa.node_history = σ.node_history) := by
        unfold recStepF
        rw [← hra, hb]
        cases full
        · exact ⟨_, rfl, rfl, rfl, rfl, fun _ => rfl⟩
        · exact ⟨_, rfl, rfl, rfl, rfl, fun h => by simp at h⟩
      rw [hσa]
      obtain ⟨i1, i2, i3, i4, i5, i6, i7⟩ := ih σa (logRec d a) hnd'.2 hd1
      refine ⟨RFrame.trans hfr i1, ?_, ?_, ?_, ?_, ?_, ?_⟩
      · rw [i2, htot]; simp [List.filter_cons, hb]; omega
      · intro h; exact i3 (hnew ▸ h)
      · intro x
        rw [i4, hnew]
        constructor
        · rintro (h | ⟨h1, h2⟩)
          · exact Or.inl h
          · exact Or.inr ⟨List.mem_cons_of_mem _ h1, h2⟩
        · rintro (h | ⟨h1, h2⟩)
          · exact Or.inl h
          · rcases List.mem_cons.1 h1 with rfl | h1
            · rw [hb] at h2; exact absurd h2 (by simp)
            · exact Or.inr ⟨h1, h2⟩
      · rw [i5]; rfl
      · intro u
        rw [i6, cnt_logRec]
        by_cases hu : u = a
        · subst hu; simp [hnd'.1]
        · simp [hu]
      · intro hf; rw [i7 hf, hnh hf]

theorem RFrame.t {σ σ' : Loc} (h : RFrame σ σ') : σ'.t = σ.t := by rw [h]
theorem RFrame.S {σ σ' : Loc} (h : RFrame σ σ') : σ'.S = σ.S := by rw [h]
theorem RFrame.I {σ σ' : Loc} (h : RFrame σ σ') : σ'.I = σ.I := by rw [h]
theorem RFrame.R {σ σ' : Loc} (h : RFrame σ σ') : σ'.R = σ.R := by rw [h]
theorem RFrame.susceptible {σ σ' : Loc} (h : RFrame σ σ') : σ'.susceptible = σ.susceptible := by rw [h]
theorem RFrame.nS {σ σ' : Loc} (h : RFrame σ σ') : σ'.nS = σ.nS := by rw [h]
theorem RFrame.transmissions {σ σ' : Loc} (h : RFrame σ σ') : σ'.transmissions = σ.transmissions := by rw [h]

theorem length_filter_not {α : Type} (p : α → Bool) (l : List α) :
    (l.filter p).length + (l.filter fun x => !p x).length = l.length := by
  induction l with
  | nil => rfl
  | cons a l ih => cases h : p a <;> simp [List.filter_cons, h] <;> omega

theorem step_age_some (P : DParams) (s : DState) (k : Node → Nat) (h : P.recSteps = some k) :
    (Discrete.step P s).age = fun u => if s.inf.contains u then s.age u + 1 else s.age u := by
  unfold Discrete.step
  simp [h]

open Discrete in
/-- **tail of one generation, recovery at the k-th test**: pure on the tape, logs one recovery test per infectious
node, and leads to a state related to `Discrete.step P s`; the log keeps counting the ages -/
theorem tail_some (A : DArgs) (P : DParams) (hA : ArgsOK A P) (hnd : P.nodes.Nodup) (k : Node → Nat)
    (hrec : A.testRec = some (recCb k)) (hrec' : P.recSteps = some k) (σ σ2 : Loc) (s : DState) (d : DSt)
    (h : Rel P σ s) (hac : AfterContact P σ s σ2) (hJ : ∀ u, cnt d u = s.age u) :
    ∃ σ' d', (recPart A σ2 >>= rowsPart) d = (pure (σ', d') : TM (Loc × DSt)) ∧ Rel P σ' (step P s) ∧
      (∀ u, cnt d' u = (step P s).age u) ∧ d'.answers = d.answers ∧ σ'.transmissions = σ2.transmissions ∧
      (A.full = false → σ'.node_history = σ2.node_history) := by
  have hlnd : (A.iter σ2.infecteds).Nodup := by
    rw [hac.infecteds]; exact (hA.iter _).nodup_iff.2 (h.inf_nodup hnd)
  have hlperm : (A.iter σ2.infecteds).Perm s.inf := by
    rw [hac.infecteds]; exact (hA.iter _).trans h.inf
  obtain ⟨i1, i2, i3, i4, i5, i6, i7⟩ := recFold_spec k A.full A.tmin (fun u => decide (s.age u + 1 ≥ k u))
    (A.iter σ2.infecteds) σ2 d hlnd (by intro u _; rw [hJ u])
  have hrp := recPart_some A k hrec σ2 d
  generalize (A.iter σ2.infecteds).foldl (recStepF k A.full A.tmin) (σ2, d) = r at i1 i2 i3 i4 i5 i6 i7 hrp
  have hlast : r.1.t.getLast? = some (s.t.headD P.tmin) := h.last' (i1.t.trans hac.t)
  have hstay : ∀ x, x ∈ stay P s ↔ (x ∈ s.inf ∧ decide (s.age x + 1 ≥ k x) = false) := by
    intro x
    simp only [stay, hrec', List.mem_filter, decide_eq_true_eq, decide_eq_false_iff_not, not_le, ge_iff_le]
  have hstaylen : (stay P s).length + ((A.iter σ2.infecteds).filter fun u => decide (s.age u + 1 ≥ k u)).length
      = σ.infecteds.length := by
    have h1 := length_filter_not (fun u => decide (s.age u + 1 ≥ k u)) (A.iter σ2.infecteds)
    have h2 : (stay P s).length = ((A.iter σ2.infecteds).filter fun u => !decide (s.age u + 1 ≥ k u)).length := by
      simp only [stay, hrec']
      rw [(hlperm.filter _).length_eq]
      congr 1
      apply List.filter_congr
      intro x _
      by_cases hx : s.age x + 1 < k x
      · have : ¬ (k x ≤ s.age x + 1) := by omega
        simp [hx, this]
      · have : k x ≤ s.age x + 1 := by omega
        simp [hx, this]
    rw [h2, Nat.add_comm, h1, hlperm.length_eq, h.inf.length_eq]
  refine ⟨rowsF r.1 (s.t.headD P.tmin), r.2, ?_, ?_, ?_, i5, ?_, ?_⟩
  · rw [dm_bind_pure hrp, rowsPart_eq r.1 _ hlast]; rfl
  · refine rel_step P hnd σ _ s h σ2.new_infecteds hac.nodup hac.mem (i3 hac.nodup) ?_ ?_ ?_ ?_ ?_ ?_ ?_ ?_
    · intro x
      show x ∈ r.1.new_infecteds ↔ _
      rw [i4, hac.mem, hstay, hlperm.mem_iff]
    · intro x
      show r.1.susceptible x = _
      rw [i1.susceptible]; exact hac.sus x
    · show r.1.nS = _
      rw [i1.nS]; exact hac.nS
    · show r.1.totR = _
      rw [i2, hac.totR]
      congr 1
      omega
    · simp [rowsF, i1.t, hac.t]
    · simp [rowsF, i1.S, hac.S]
    · simp [rowsF, i1.I, hac.I]
    · simp [rowsF, i1.R, hac.R]
  · intro u
    rw [i6, step_age_some P s k hrec', hJ u]
    have : (u ∈ A.iter σ2.infecteds) ↔ u ∈ s.inf := hlperm.mem_iff
    by_cases hu : u ∈ s.inf
    · simp [hu, this]
    · simp [hu, this]
  · show r.1.transmissions = _
    exact i1.transmissions
  · intro hf; exact i7 hf

open Discrete in
/-- **one generation, arrays only** (`return_full_data=False`), in either recovery setting, as
`contact loop ; tail` -/
theorem gen_false (A : DArgs) (P : DParams) (hA : ArgsOK A P)
    (hnb : ∀ u ∈ P.nodes, ∀ v ∈ P.nbrs u, v ∈ P.nodes) (hfull : A.full = false)
    (rl : DSt → Node → Node → Bool) (hT : ReadsOnly A rl) (σ : Loc) (s : DState) (d : DSt) (h : Rel P σ s)
    (hrule : ∀ u ∈ s.inf, ∀ v, rl d u v = P.rule (s.age u) u v) :
    ∃ σ2, AfterContact P σ s σ2 ∧ gen A σ d = (recPart A σ2 >>= rowsPart) d := by
  obtain ⟨hc1, hc2⟩ := contactLoop_eq A rl hT d (A.iter σ.infecteds) { σ with new_infecteds := [], infector := [] }
    (by intro x hx; simp at hx)
  obtain ⟨hfr, hnd1, hsus1, hnS1, hmem1⟩ := contact_spec A P hA hnb (rl d) σ s h hrule
  generalize (A.iter σ.infecteds).foldl (cinnerF A.full (rl d) A.nbrs) { σ with new_infecteds := [], infector := [] }
    = σ1 at hc1 hc2 hfr hnd1 hsus1 hnS1 hmem1
  have hlast : σ1.t.getLast? = some (s.t.headD P.tmin) := by rw [hfr.t]; exact h.last
  refine ⟨{ σ1 with next_time := s.t.headD P.tmin + 1 },
    ⟨hfr.t, hfr.S, hfr.I, hfr.R, hfr.infecteds, hfr.totR, hnd1, hsus1, hnS1, hmem1⟩, ?_⟩
  unfold gen
  rw [dm_bind_pure hc1]
  simp only [listLast_eq hlast, pure_bind, fullPart_false A _ hfull, bind_assoc]

/-! ### the loop -/

theorem stopped_iff (P : DParams) (s : DState) :
    Discrete.stopped P s ↔ (!s.inf.isEmpty && ERat.lt (some (s.t.headD P.tmin)) P.tmax) = false := by
  unfold Discrete.stopped
  cases s.inf.isEmpty <;> simp

/-- **lock-step simulation of the loops** for any invariant `J` linking the callback state with the model state that one
generation preserves: when the model loop has stopped within `fuel` generations, the generated loop succeeds with
every larger fuel and ends in a related state -/
theorem loop_refines (A : DArgs) (P : DParams) (htm : A.tmax = P.tmax) (J : DSt → DState → Prop)
    (hgen : ∀ σ s d, Rel P σ s → J d s → ¬ Discrete.stopped P s →
      ∃ σ' d', gen A σ d = (pure (σ', d') : TM (Loc × DSt)) ∧ Rel P σ' (Discrete.step P s) ∧ J d' (Discrete.step P s)) :
    ∀ (fuel : Nat) (σ : Loc) (s : DState) (d : DSt), Rel P σ s → J d s →
      Discrete.stopped P (Discrete.loop P fuel s) → ∀ n, fuel < n →
      ∃ σ' d', GenDSIR.loop A n σ d = (pure (σ', d') : TM (Loc × DSt)) ∧
        Rel P σ' (Discrete.loop P fuel s) ∧ J d' (Discrete.loop P fuel s) := by
  intro fuel
  induction fuel with
  | zero =>
    intro σ s d h hJ hst n hn
    obtain ⟨m, rfl⟩ : ∃ m, n = m + 1 := ⟨n - 1, by omega⟩
    rw [Discrete.loop_zero] at hst ⊢
    refine ⟨σ, d, ?_, h, hJ⟩
    rw [loop_succ, cond_eq A P σ s h htm, (stopped_iff P s).1 hst]
    rfl
  | succ k ih =>
    intro σ s d h hJ hst n hn
    obtain ⟨m, rfl⟩ : ∃ m, n = m + 1 := ⟨n - 1, by omega⟩
    by_cases hs : Discrete.stopped P s
    · rw [Discrete.loop_succ_stopped P k s hs]
      refine ⟨σ, d, ?_, h, hJ⟩
      rw [loop_succ, cond_eq A P σ s h htm, (stopped_iff P s).1 hs]
      rfl
    · rw [Discrete.loop_succ_running P k s hs] at hst ⊢
      obtain ⟨σ1, d1, hg, hr1, hJ1⟩ := hgen σ s d h hJ hs
      obtain ⟨σ', d', hl, hr', hJ'⟩ := ih σ1 (Discrete.step P s) d1 hr1 hJ1 hst m (by omega)
      refine ⟨σ', d', ?_, hr', hJ'⟩
      have hb : (!s.inf.isEmpty && ERat.lt (some (s.t.headD P.tmin)) P.tmax) = true := by
        have := (stopped_iff P s).not.1 hs
        simpa using this
      rw [loop_succ, cond_eq A P σ s h htm, hb]
      simp only [pure_bind, if_true]
      rw [dm_bind_pure hg]
      exact hl

/-- … and when the model loop has not stopped after `fuel` generations the generated loop raises `"fuel"` -/
theorem loop_fuel_fail (A : DArgs) (P : DParams) (htm : A.tmax = P.tmax) (J : DSt → DState → Prop)
    (hgen : ∀ σ s d, Rel P σ s → J d s → ¬ Discrete.stopped P s →
      ∃ σ' d', gen A σ d = (pure (σ', d') : TM (Loc × DSt)) ∧ Rel P σ' (Discrete.step P s) ∧ J d' (Discrete.step P s)) :
    ∀ (fuel : Nat) (σ : Loc) (s : DState) (d : DSt), Rel P σ s → J d s →
      ¬ Discrete.stopped P (Discrete.loop P fuel s) → ∀ n, n ≤ fuel + 1 → ∀ ts,
      GenDSIR.loop A n σ d ts = .error "fuel" := by
  intro fuel
  induction fuel with
  | zero =>
    intro σ s d h hJ hst n hn ts
    rw [Discrete.loop_zero] at hst
    have hb : (!s.inf.isEmpty && ERat.lt (some (s.t.headD P.tmin)) P.tmax) = true := by
      have := (stopped_iff P s).not.1 hst
      simpa using this
    obtain ⟨σ1, d1, hg, -, -⟩ := hgen σ s d h hJ hst
    rcases n with _ | n
    · rfl
    · obtain rfl : n = 0 := by omega
      rw [loop_succ, cond_eq A P σ s h htm, hb]
      simp only [pure_bind, if_true]
      rw [dm_bind_pure hg]
      rfl
  | succ k ih =>
    intro σ s d h hJ hst n hn ts
    have hs : ¬ Discrete.stopped P s := by
      intro hs; rw [Discrete.loop_succ_stopped P k s hs] at hst; exact hst hs
    rw [Discrete.loop_succ_running P k s hs] at hst
    have hb : (!s.inf.isEmpty && ERat.lt (some (s.t.headD P.tmin)) P.tmax) = true := by
      have := (stopped_iff P s).not.1 hs
      simpa using this
    obtain ⟨σ1, d1, hg, hr1, hJ1⟩ := hgen σ s d h hJ hs
    rcases n with _ | n
    · rfl
    · rw [loop_succ, cond_eq A P σ s h htm, hb]
      simp only [pure_bind, if_true]
      rw [dm_bind_pure hg]
      exact ih σ1 _ d1 hr1 hJ1 hst n (by omega) ts

/-! ### initialisation -/

/-- the locals at the first test of the `while` condition (`return_full_data=False`) -/
def initLoc (A : DArgs) : Loc :=
  let nr : Int := match A.initial_recovereds with | none => 0 | some r => (r.length : Int)
  let recs : List Node := A.initial_recovereds.getD []
  let ni : Int := (A.initial_infecteds.length : Int)
  { Loc.init with
    N := A.order, t := [A.tmin], number_initially_recovered := nr, S := [A.order - ni - nr], I := [ni], R := [nr],
    susceptible := fun v => !(A.initial_infecteds.contains v) && !(recs.contains v),
    infecteds := PyDM.setOf A.initial_infecteds, totR := nr, nI := ni, nR := nr, nS := A.order - ni - nr }

theorem foldl_fset (l : List Node) (σ : Loc) :
    l.foldl (fun (σ : Loc) (u : Node) => { σ with susceptible := PyDM.fset σ.susceptible u false }) σ =
      { σ with susceptible := fun v => σ.susceptible v && !l.contains v } := by
  induction l generalizing σ with
  | nil => simp
  | cons a l ih =>
    rw [List.foldl_cons, ih]
    congr 1
    funext v
    simp only [PyDM.fset, List.contains_cons]
    by_cases hv : v = a
    · subst hv; simp
    · have : (v == a) = false := by simpa using hv
      simp [hv, this]

theorem run_false (A : DArgs) (h : A.full = false) (fuel : Nat) :
    GenDSIR.run A fuel = GenDSIR.loop A fuel (initLoc A) := by
  unfold GenDSIR.run initLoc
  cases hr : A.initial_recovereds with
  | none => simp [h, List.foldlM_pure, foldl_fset, Loc.init]
  | some r => simp [h, List.foldlM_pure, foldl_fset, Loc.init]


theorem setOf_spec_aux (l : List Node) : ∀ acc : List Node, acc.Nodup →
    (l.foldl (fun acc x => if acc.contains x then acc else acc ++ [x]) acc).Nodup ∧
    ∀ x, x ∈ l.foldl (fun acc x => if acc.contains x then acc else acc ++ [x]) acc ↔ x ∈ acc ∨ x ∈ l := by
  induction l with
  | nil => intro acc h; exact ⟨h, by simp⟩
  | cons a l ih =>
    intro acc h
    rw [List.foldl_cons]
    obtain ⟨h1, h2⟩ := ih (PyDM.setAdd acc a) (setAdd_nodup acc a h)
    refine ⟨h1, ?_⟩
    intro x
    have := h2 x
    unfold PyDM.setAdd at this
    rw [this]
    have hm := mem_setAdd acc a x
    unfold PyDM.setAdd at hm
    rw [hm]
    simp only [List.mem_cons]
    tauto

theorem setOf_nodup (l : List Node) : (PyDM.setOf l).Nodup := (setOf_spec_aux l [] List.nodup_nil).1

theorem mem_setOf (l : List Node) (x : Node) : x ∈ PyDM.setOf l ↔ x ∈ l := by
  have := (setOf_spec_aux l [] List.nodup_nil).2 x
  simp only [List.not_mem_nil, false_or] at this
  exact this

/-- the initial data of the generated arguments agree with the model's -/
structure InitOK (A : DArgs) (P : DParams) (infs : List Node) (orecs : Option (List Node)) : Prop where
  order : A.order = (P.nodes.length : Int)
  infs : A.initial_infecteds = infs
  recs : A.initial_recovereds = orecs

open Discrete in
theorem rel_init (A : DArgs) (P : DParams) (infs : List Node) (orecs : Option (List Node)) (hA : ArgsOK A P)
    (hI : InitOK A P infs orecs) (hwf : WF P infs (orecs.getD [])) :
    Rel P (initLoc A) (init P infs (orecs.getD [])) := by
  unfold initLoc
  rw [hI.order, hI.infs, hI.recs, hA.tmin]
  have key : ∀ recs, WF P infs recs →
      (PyDM.setOf infs).Perm (init P infs recs).inf ∧
      (fun v => !infs.contains v && !recs.contains v) = (init P infs recs).sus ∧
      ∀ u ∈ (init P infs recs).inf, (init P infs recs).sus u = false := by
    intro recs hwf
    refine ⟨?_, ?_, ?_⟩
    · show (PyDM.setOf infs).Perm (P.nodes.filter fun v => infs.contains v)
      rw [List.perm_ext_iff_of_nodup (setOf_nodup infs) (hwf.nodup.filter _)]
      intro x
      rw [mem_setOf]
      simp only [List.mem_filter, List.contains_iff_mem]
      exact ⟨fun hx => ⟨hwf.infs_mem x hx, hx⟩, fun hx => hx.2⟩
    · funext v
      simp [init, Bool.not_or]
    · intro u hu
      simp only [init, List.mem_filter] at hu
      simp only [init, hu.2]
      rfl
  have hsub : ∀ recs, ((init P infs recs).inf).Sublist P.nodes := fun _ => List.filter_sublist
  cases orecs with
  | none =>
    obtain ⟨k1, k2, k3⟩ := key [] hwf
    exact ⟨rfl, by simp [init], rfl, by simp [init], k1, k2, by simp [init], by simp [init], by simp [init],
      hsub _, k3⟩
  | some r =>
    obtain ⟨k1, k2, k3⟩ := key r hwf
    exact ⟨rfl, by simp [init], rfl, by simp [init], k1, k2, by simp [init], by simp [init], by simp [init],
      hsub _, k3⟩

/-! ### the generated arguments for a model instance -/

/-- the arguments of `discrete_SIR` for the model instance `P`: the transmission callback reads the number of failed
recovery tests of the source from the call log (a stateless rule ignores it), the recovery callback answers True at
its `k u`-th call for `u` -/
def toArgs (P : DParams) (iter : List Node → List Node) (full : Bool) (infs : List Node)
    (orecs : Option (List Node)) : DArgs :=
  { order := (P.nodes.length : Int), nbrs := P.nbrs, iter := iter, tmin := P.tmin, tmax := P.tmax, full := full,
    p := 0, testTrans := ageRule P.rule, testRec := P.recSteps.map recCb, initial_infecteds := infs,
    initial_recovereds := orecs }

/-- the arguments of `discrete_SIR` for a stateless rule and the default recovery rule (`test_recovery` omitted) -/
def toArgs0 (P : DParams) (iter : List Node → List Node) (full : Bool) (infs : List Node)
    (orecs : Option (List Node)) : DArgs :=
  { order := (P.nodes.length : Int), nbrs := P.nbrs, iter := iter, tmin := P.tmin, tmax := P.tmax, full := full,
    p := 0, testTrans := fun u v => pure (P.rule 0 u v), testRec := none, initial_infecteds := infs,
    initial_recovereds := orecs }

theorem toArgs_ok (P : DParams) (iter : List Node → List Node) (hiter : ∀ l, (iter l).Perm l) (full : Bool)
    (infs : List Node) (orecs : Option (List Node)) :
    ArgsOK (toArgs P iter full infs orecs) P ∧ InitOK (toArgs P iter full infs orecs) P infs orecs :=
  ⟨⟨rfl, rfl, rfl, hiter⟩, ⟨rfl, rfl, rfl⟩⟩

theorem toArgs0_ok (P : DParams) (iter : List Node → List Node) (hiter : ∀ l, (iter l).Perm l) (full : Bool)
    (infs : List Node) (orecs : Option (List Node)) :
    ArgsOK (toArgs0 P iter full infs orecs) P ∧ InitOK (toArgs0 P iter full infs orecs) P infs orecs :=
  ⟨⟨rfl, rfl, rfl, hiter⟩, ⟨rfl, rfl, rfl⟩⟩

open Discrete in
/-- one generation for `toArgs0` (default recovery rule): the invariant is "all ages are 0" -/
theorem hgen0 (P : DParams) (iter : List Node → List Node) (hiter : ∀ l, (iter l).Perm l) (infs : List Node)
    (orecs : Option (List Node)) (hnd : P.nodes.Nodup) (hnb : ∀ u ∈ P.nodes, ∀ v ∈ P.nbrs u, v ∈ P.nodes)
    (hrec : P.recSteps = none) (d0 : DSt) :
    ∀ σ s d, Rel P σ s → ((∀ u, s.age u = 0) ∧ d = d0) → ¬ stopped P s →
      ∃ σ' d', gen (toArgs0 P iter false infs orecs) σ d = (pure (σ', d') : TM (Loc × DSt)) ∧
        Rel P σ' (step P s) ∧ ((∀ u, (step P s).age u = 0) ∧ d' = d0) := by
  intro σ s d h hJ _
  obtain ⟨hA, _⟩ := toArgs0_ok P iter hiter false infs orecs
  obtain ⟨σ2, hac, hg⟩ := gen_false _ P hA hnb rfl (fun _ => P.rule 0) (fun _ _ _ => rfl) σ s d h
    (by intro u _ v; rw [hJ.1 u])
  obtain ⟨σ', ht, hr, _, _⟩ := tail_none (toArgs0 P iter false infs orecs) P hnd rfl hrec σ σ2 s h hac
  refine ⟨σ', d, ?_, hr, ?_, hJ.2⟩
  · rw [hg, ht]; rfl
  · rw [step_age_none P s hrec]; exact hJ.1

open Discrete in
/-- one generation for `toArgs` (either recovery setting, age-dependent rule): the invariant is "the log counts the
ages, the answer script is untouched" -/
theorem hgenA (P : DParams) (iter : List Node → List Node) (hiter : ∀ l, (iter l).Perm l) (infs : List Node)
    (orecs : Option (List Node)) (hnd : P.nodes.Nodup) (hnb : ∀ u ∈ P.nodes, ∀ v ∈ P.nbrs u, v ∈ P.nodes)
    (ans : List Bool) :
    ∀ σ s d, Rel P σ s → ((∀ u, cnt d u = s.age u) ∧ d.answers = ans) → ¬ stopped P s →
      ∃ σ' d', gen (toArgs P iter false infs orecs) σ d = (pure (σ', d') : TM (Loc × DSt)) ∧
        Rel P σ' (step P s) ∧ ((∀ u, cnt d' u = (step P s).age u) ∧ d'.answers = ans) := by
  intro σ s d h hJ _
  obtain ⟨hA, _⟩ := toArgs_ok P iter hiter false infs orecs
  obtain ⟨σ2, hac, hg⟩ := gen_false _ P hA hnb rfl (fun d u v => P.rule (cnt d u) u v) (fun _ _ _ => rfl) σ s d h
    (by intro u _ v; rw [hJ.1 u])
  cases hrec : P.recSteps with
  | none =>
    obtain ⟨σ', ht, hr, _, _⟩ := tail_none (toArgs P iter false infs orecs) P hnd (by simp [toArgs, hrec]) hrec
      σ σ2 s h hac
    refine ⟨σ', d, ?_, hr, ?_, hJ.2⟩
    · rw [hg, ht]; rfl
    · rw [step_age_none P s hrec]; exact hJ.1
  | some k =>
    obtain ⟨σ', d', ht, hr, hage, hans, _, _⟩ := tail_some (toArgs P iter false infs orecs) P hA hnd k
      (by simp [toArgs, hrec]) hrec σ σ2 s d h hac hJ.1
    exact ⟨σ', d', by rw [hg, ht], hr, hage, hans.trans hJ.2⟩


open Discrete in
/-- A1: `discrete_SIR` with a stateless rule (read at age 0), default recovery rule, arrays only -/
theorem dsir_default' (P : DParams) (iter : List Node → List Node) (hiter : ∀ l, (iter l).Perm l) (infs : List Node)
    (orecs : Option (List Node)) (hwf : WF P infs (orecs.getD [])) (hrec : P.recSteps = none) (fuel : Nat)
    (d : DSt) (ts : TapeSt) :
    (stopped P (Discrete.run P infs (orecs.getD []) fuel) → ∀ n, fuel < n →
      ∃ σ, GenDSIR.run (toArgs0 P iter false infs orecs) n d ts = .ok ((σ, d), ts) ∧
        Rel P σ (Discrete.run P infs (orecs.getD []) fuel)) ∧
    (¬ stopped P (Discrete.run P infs (orecs.getD []) fuel) → ∀ n, n ≤ fuel + 1 →
      GenDSIR.run (toArgs0 P iter false infs orecs) n d ts = .error "fuel") := by
  obtain ⟨hA, hI⟩ := toArgs0_ok P iter hiter false infs orecs
  have hr0 := rel_init _ P infs orecs hA hI hwf
  have hg := hgen0 P iter hiter infs orecs hwf.nodup hwf.nbr_mem hrec d
  have hJ0 : (∀ u, (init P infs (orecs.getD [])).age u = 0) ∧ d = d := ⟨fun _ => rfl, rfl⟩
  constructor
  · intro hst n hn
    obtain ⟨σ, d', hl, hr, hJ⟩ := loop_refines _ P rfl _ hg fuel _ _ d hr0 hJ0 hst n hn
    refine ⟨σ, ?_, hr⟩
    rw [run_false _ rfl, hl, hJ.2]; rfl
  · intro hst n hn
    rw [run_false _ rfl]
    exact loop_fuel_fail _ P rfl _ hg fuel _ _ d hr0 hJ0 hst n hn ts

open Discrete in
/-- A2: `discrete_SIR` with an age-dependent rule and either recovery setting (`recover at the k-th test` through the
call log), arrays only -/
theorem dsir_recovery' (P : DParams) (iter : List Node → List Node) (hiter : ∀ l, (iter l).Perm l) (infs : List Node)
    (orecs : Option (List Node)) (hwf : WF P infs (orecs.getD [])) (fuel : Nat)
    (d : DSt) (hd : ∀ u, cnt d u = 0) (ts : TapeSt) :
    (stopped P (Discrete.run P infs (orecs.getD []) fuel) → ∀ n, fuel < n →
      ∃ σ d', GenDSIR.run (toArgs P iter false infs orecs) n d ts = .ok ((σ, d'), ts) ∧
        Rel P σ (Discrete.run P infs (orecs.getD []) fuel) ∧
        (∀ u, cnt d' u = (Discrete.run P infs (orecs.getD []) fuel).age u) ∧ d'.answers = d.answers) ∧
    (¬ stopped P (Discrete.run P infs (orecs.getD []) fuel) → ∀ n, n ≤ fuel + 1 →
      GenDSIR.run (toArgs P iter false infs orecs) n d ts = .error "fuel") := by
  obtain ⟨hA, hI⟩ := toArgs_ok P iter hiter false infs orecs
  have hr0 := rel_init _ P infs orecs hA hI hwf
  have hg := hgenA P iter hiter infs orecs hwf.nodup hwf.nbr_mem d.answers
  have hJ0 : (∀ u, cnt d u = (init P infs (orecs.getD [])).age u) ∧ d.answers = d.answers := ⟨hd, rfl⟩
  constructor
  · intro hst n hn
    obtain ⟨σ, d', hl, hr, hJ⟩ := loop_refines _ P rfl _ hg fuel _ _ d hr0 hJ0 hst n hn
    refine ⟨σ, d', ?_, hr, hJ.1, hJ.2⟩
    rw [run_false _ rfl, hl]; rfl
  · intro hst n hn
    rw [run_false _ rfl]
    exact loop_fuel_fail _ P rfl _ hg fuel _ _ d hr0 hJ0 hst n hn ts


/-! ### `return_full_data=True`: partial correctness on an arbitrary tape -/

theorem tm_bind_inv {α β : Type} {x : TM α} {f : α → TM β} {ts : TapeSt} {r : β × TapeSt}
    (h : (x >>= f) ts = .ok r) : ∃ a ts1, x ts = .ok (a, ts1) ∧ f a ts1 = .ok r := by
  cases hx : x ts with
  | error e => rw [tm_bind_err hx] at h; cases h
  | ok p => obtain ⟨a, ts1⟩ := p; rw [tm_bind_ok hx] at h; exact ⟨a, ts1, rfl, h⟩

theorem dm_bind_inv {α β : Type} {x : DM α} {f : α → DM β} {d : DSt} {ts : TapeSt} {r : (β × DSt) × TapeSt}
    (h : (x >>= f) d ts = .ok r) : ∃ a d1 ts1, x d ts = .ok ((a, d1), ts1) ∧ f a d1 ts1 = .ok r := by
  rw [dm_bind] at h
  obtain ⟨⟨a, d1⟩, ts1, h1, h2⟩ := tm_bind_inv h
  exact ⟨a, d1, ts1, h1, h2⟩

theorem choiceNode_inv (l : List Node) (d : DSt) (ts : TapeSt) (ch : Node) (d' : DSt) (ts' : TapeSt)
    (h : PyDM.choiceNode l d ts = .ok ((ch, d'), ts')) : d' = d ∧ ch ∈ l := by
  unfold PyDM.choiceNode at h
  obtain ⟨i, d1, ts1, h1, h2⟩ := dm_bind_inv h
  have hd1 : d1 = d := by
    unfold PyDM.liftT at h1
    obtain ⟨a, ts2, _, h4⟩ := tm_bind_inv h1
    cases h4; rfl
  subst hd1
  unfold PyDM.liftE PyDM.liftT PyRT.listChoice at h2
  cases hl : l[i]? with
  | none =>
    rw [hl] at h2
    obtain ⟨a, ts2, h3, _⟩ := tm_bind_inv h2
    cases h3
  | some x =>
    rw [hl] at h2
    obtain ⟨a, ts2, h3, h4⟩ := tm_bind_inv h2
    cases h3; cases h4
    exact ⟨rfl, List.mem_of_getElem? hl⟩

/-- a transmission row `(time, infector, node)` is justified by the `infector` dict `inf` at time `a` -/
def RowOK (inf : List (Node × List Node)) (a : Rat) (r : Rat × Option Node × Node) : Prop :=
  r.1 = a ∧ ∃ u l, r.2.1 = some u ∧ PyRT.alFind? inf r.2.2 = some l ∧ u ∈ l

/-- body of the `transmissions` loop -/
def transBody (σ : Loc) (v : Node) : DM Loc := do
  let last_10 ← PyDM.liftE (PyTM.listLast σ.t)
  let inf_11 ← PyDM.liftE (PyRT.dictGet σ.infector v)
  let ch_12 ← PyDM.choiceNode inf_11
  let σ := { σ with transmissions := σ.transmissions ++ [(last_10, some ch_12, v)] }
  pure σ

/-- the `transmissions` loop of `return_full_data=True`: if it succeeds, one justified row per key, in order -/
theorem transLoop_inv (a : Rat) :
    ∀ (keys : List Node) (σ : Loc) (d : DSt) (ts : TapeSt) (σ' : Loc) (d' : DSt) (ts' : TapeSt),
      (∀ v ∈ keys, v ∈ σ.infector.map (·.1)) → σ.t.getLast? = some a →
      keys.foldlM transBody σ d ts = .ok ((σ', d'), ts') →
      d' = d ∧ ∃ rows, σ' = { σ with transmissions := σ.transmissions ++ rows } ∧ rows.map (·.2.2) = keys ∧
        ∀ r ∈ rows, RowOK σ.infector a r := by
  intro keys
  induction keys with
  | nil =>
    intro σ d ts σ' d' ts' _ _ h
    cases h
    exact ⟨rfl, [], by simp, rfl, by simp⟩
  | cons v keys ih =>
    intro σ d ts σ' d' ts' hk hlast h
    rw [List.foldlM_cons] at h
    obtain ⟨σ1, d1, ts1, h1, h2⟩ := dm_bind_inv h
    have hv : v ∈ σ.infector.map (·.1) := hk v List.mem_cons_self
    rw [← alFind?_isSome] at hv
    obtain ⟨l, hl⟩ := Option.isSome_iff_exists.1 hv
    have hdg : PyDM.liftE (PyRT.dictGet σ.infector v) = (pure l : DM (List Node)) := by
      simp only [PyRT.dictGet, hl]; rfl
    unfold transBody at h1
    rw [listLast_eq hlast, pure_bind, hdg, pure_bind] at h1
    obtain ⟨ch, d2, ts2, h3, h4⟩ := dm_bind_inv h1
    obtain ⟨hd2, hch⟩ := choiceNode_inv l d ts ch d2 ts2 h3
    cases h4
    obtain ⟨hd', rows, hσ', hrows, hok⟩ := ih { σ with transmissions := σ.transmissions ++ [(a, some ch, v)] } d1 ts1 σ' d' ts'
      (fun x hx => hk x (List.mem_cons_of_mem _ hx)) hlast h2
    refine ⟨hd'.trans hd2, (a, some ch, v) :: rows, ?_, by simp [hrows], ?_⟩
    · rw [hσ']; simp
    · intro r hr
      rcases List.mem_cons.1 hr with rfl | hr
      · exact ⟨rfl, ch, l, rfl, hl, hch⟩
      · exact hok r hr

/-- `node_history[u]` gets the entry `(time, st)` -/
def nhMark (tmin : Rat) (time : Rat) (st : St) (nh : PyDM.Hist) (u : Node) : PyDM.Hist :=
  PyDM.nhApp1 tmin (PyDM.nhApp0 tmin nh u time) u st

theorem foldl_nhMark (tmin : Rat) (st : St) (l : List Node) (σ : Loc) :
    l.foldl (fun (σ : Loc) (u : Node) =>
      { σ with node_history := PyDM.nhApp1 tmin (PyDM.nhApp0 tmin σ.node_history u σ.next_time) u st }) σ =
      { σ with node_history := l.foldl (nhMark tmin σ.next_time st) σ.node_history } := by
  induction l generalizing σ with
  | nil => rfl
  | cons a l ih => rw [List.foldl_cons, ih]; rfl

/-- the `node_history` update of `fullPart` (default recovery rule: the current infecteds recover; the new ones are
marked `I`), when `next_time ≤ tmax` -/
def fullHist (P : DArgs) (σ : Loc) : PyDM.Hist :=
  if ERat.le (some σ.next_time) P.tmax then
    (P.iter σ.new_infecteds).foldl (nhMark P.tmin σ.next_time St.I)
      (match P.testRec with
        | none => (P.iter σ.infecteds).foldl (nhMark P.tmin σ.next_time St.R) σ.node_history
        | some _ => σ.node_history)
  else σ.node_history

theorem fullPart_true_inv (P : DArgs) (hfull : P.full = true) (a : Rat) (σ : Loc) (d : DSt) (ts : TapeSt) (σ' : Loc)
    (d' : DSt) (ts' : TapeSt) (hk : σ.infector.map (·.1) = σ.new_infecteds) (hlast : σ.t.getLast? = some a)
    (h : fullPart P σ d ts = .ok ((σ', d'), ts')) :
    d' = d ∧ ∃ rows, σ' = { σ with transmissions := σ.transmissions ++ rows, node_history := fullHist P σ } ∧
      rows.map (·.2.2) = σ.new_infecteds ∧ ∀ r ∈ rows, RowOK σ.infector a r := by
  unfold fullPart at h
  rw [hfull] at h
  simp only [if_true] at h
  obtain ⟨σ1, d1, ts1, h1, h2⟩ := dm_bind_inv h
  obtain ⟨hd1, rows, hσ1, hrows, hok⟩ := transLoop_inv a _ σ d ts σ1 d1 ts1 (fun v hv => hv) hlast h1
  subst hd1
  refine ⟨?_, rows, ?_, by rw [hrows, hk], hok⟩
  · simp only [List.foldlM_pure, pure_bind, bind_pure] at h2
    split at h2
    · cases hr : P.testRec <;> (rw [hr] at h2; simp only [List.foldlM_pure, pure_bind, bind_pure] at h2; cases h2; rfl)
    · cases h2; rfl
  · simp only [List.foldlM_pure, pure_bind, bind_pure] at h2
    have hnt : σ1.next_time = σ.next_time := by rw [hσ1]
    have hni : σ1.new_infecteds = σ.new_infecteds := by rw [hσ1]
    have hinf : σ1.infecteds = σ.infecteds := by rw [hσ1]
    have hnh : σ1.node_history = σ.node_history := by rw [hσ1]
    unfold fullHist
    rw [← hnt, ← hni, ← hinf, ← hnh]
    split at h2
    · rename_i hle
      rw [if_pos hle]
      cases hr : P.testRec with
      | none =>
        rw [hr] at h2
        simp only [List.foldlM_pure, pure_bind, bind_pure, foldl_nhMark] at h2
        cases h2
        rw [hσ1]
      | some rc =>
        rw [hr] at h2
        simp only [List.foldlM_pure, pure_bind, bind_pure, foldl_nhMark] at h2
        cases h2
        rw [hσ1]
    · rename_i hle
      rw [if_neg hle]
      cases h2
      rw [hσ1]


/-! ### the `infector` dict after the contact loop -/

/-- the keys of `infector` are `new_infecteds` (same order) and every recorded infector satisfies `Q` -/
def InfI (Q : Node → Node → Prop) (σ : Loc) : Prop :=
  σ.infector.map (·.1) = σ.new_infecteds ∧ ∀ v l, PyRT.alFind? σ.infector v = some l → ∀ u ∈ l, Q u v

theorem infI_cstepF (full : Bool) (rule : Node → Node → Bool) (Q : Node → Node → Prop) (u : Node) (σ : Loc) (v : Node)
    (hQ : rule u v = true → Q u v) (h : InfI Q σ) : InfI Q (cstepF full rule u σ v) := by
  unfold cstepF
  split
  · rename_i hc
    simp only [Bool.and_eq_true] at hc
    refine ⟨?_, ?_⟩
    · show (alSet σ.infector v [u]).map (·.1) = PyDM.setAdd σ.new_infecteds v
      rw [keys_alSet, h.1]
      unfold PyDM.setAdd
      simp only [List.contains_iff_mem]
    · intro x l hl w hw
      change PyRT.alFind? (alSet σ.infector v [u]) x = some l at hl
      rw [alFind?_alSet] at hl
      split at hl
      · rename_i hx
        cases hl
        simp at hw
        subst hw; subst hx
        exact hQ hc.2
      · exact h.2 x l hl w hw
  · split
    · rename_i hc
      simp only [Bool.and_eq_true] at hc
      have hvk : v ∈ σ.infector.map (·.1) := by rw [h.1]; simpa using hc.2.1
      refine ⟨?_, ?_⟩
      · show (alSet σ.infector v _).map (·.1) = σ.new_infecteds
        rw [keys_alSet, if_pos hvk, h.1]
      · intro x l hl w hw
        change PyRT.alFind? (alSet σ.infector v _) x = some l at hl
        rw [alFind?_alSet] at hl
        split at hl
        · rename_i hx
          cases hl
          subst hx
          rcases List.mem_append.1 hw with hw | hw
          · cases hf : PyRT.alFind? σ.infector x with
            | none => rw [hf] at hw; simp at hw
            | some l' => rw [hf] at hw; exact h.2 x l' hf w hw
          · simp at hw; subst hw; exact hQ hc.2.2
        · exact h.2 x l hl w hw
    · exact h

theorem foldl_inv_mem {α β : Type} (f : β → α → β) (I : β → Prop) :
    ∀ (l : List α), (∀ b, ∀ a ∈ l, I b → I (f b a)) → ∀ b, I b → I (l.foldl f b) := by
  intro l
  induction l with
  | nil => intro _ b hb; exact hb
  | cons a l ih =>
    intro h b hb
    rw [List.foldl_cons]
    exact ih (fun b' a' ha' => h b' a' (List.mem_cons_of_mem _ ha')) _ (h b a List.mem_cons_self hb)

theorem infI_cfold (full : Bool) (rule : Node → Node → Bool) (nbrs : Node → List Node) (L : List Node) (σ : Loc)
    (h : InfI (fun u v => u ∈ L ∧ v ∈ nbrs u ∧ rule u v = true) σ) :
    InfI (fun u v => u ∈ L ∧ v ∈ nbrs u ∧ rule u v = true) (L.foldl (cinnerF full rule nbrs) σ) := by
  refine foldl_inv_mem _ _ L ?_ σ h
  intro σ u hu hσ
  unfold cinnerF
  refine foldl_inv_mem _ _ (nbrs u) ?_ σ hσ
  intro σ v hv hσ
  exact infI_cstepF full rule _ u σ v (fun hr => ⟨hu, hv, hr⟩) hσ

/-! ### one generation, `return_full_data=True` -/

open Discrete in
/-- **one generation with `return_full_data=True`, if it succeeds**: the contact loop is as before, the full-data part
appends one transmission row per newly infected node — time = current time, infector = an infectious node whose contact
succeeded — and consumes tape; the tail is as before -/
theorem gen_true (A : DArgs) (P : DParams) (hA : ArgsOK A P)
    (hnb : ∀ u ∈ P.nodes, ∀ v ∈ P.nbrs u, v ∈ P.nodes) (hfull : A.full = true)
    (rl : DSt → Node → Node → Bool) (hT : ReadsOnly A rl) (σ : Loc) (s : DState) (d : DSt) (ts : TapeSt) (h : Rel P σ s)
    (hrule : ∀ u ∈ s.inf, ∀ v, rl d u v = P.rule (s.age u) u v) (r : (Loc × DSt) × TapeSt)
    (hg : gen A σ d ts = .ok r) :
    ∃ σ2 rows ts2, AfterContact P σ s σ2 ∧ (recPart A σ2 >>= rowsPart) d ts2 = .ok r ∧
      σ2.transmissions = σ.transmissions ++ rows ∧ rows.map (·.2.2) = σ2.new_infecteds ∧
      (∀ r ∈ rows, r.1 = s.t.headD P.tmin ∧ ∃ u ∈ s.inf, r.2.1 = some u ∧ r.2.2 ∈ P.nbrs u ∧
        P.rule (s.age u) u r.2.2 = true) ∧
      σ2.next_time = s.t.headD P.tmin + 1 ∧
      σ2.node_history = fullHist A { σ2 with node_history := σ.node_history } := by
  obtain ⟨hc1, hc2⟩ := contactLoop_eq A rl hT d (A.iter σ.infecteds) { σ with new_infecteds := [], infector := [] }
    (by intro x hx; simp at hx)
  obtain ⟨hfr, hnd1, hsus1, hnS1, hmem1⟩ := contact_spec A P hA hnb (rl d) σ s h hrule
  have hI := infI_cfold A.full (rl d) A.nbrs (A.iter σ.infecteds) { σ with new_infecteds := [], infector := [] }
    ⟨rfl, by intro v l hl; simp [PyRT.alFind?] at hl⟩
  generalize (A.iter σ.infecteds).foldl (cinnerF A.full (rl d) A.nbrs) { σ with new_infecteds := [], infector := [] }
    = σ1 at hc1 hc2 hfr hnd1 hsus1 hnS1 hmem1 hI
  have hlast : σ1.t.getLast? = some (s.t.headD P.tmin) := by rw [hfr.t]; exact h.last
  have hac1 : AfterContact P σ s σ1 := ⟨hfr.t, hfr.S, hfr.I, hfr.R, hfr.infecteds, hfr.totR, hnd1, hsus1, hnS1, hmem1⟩
  unfold gen at hg
  rw [dm_bind_pure hc1] at hg
  simp only [listLast_eq hlast, pure_bind, bind_assoc] at hg
  obtain ⟨σ2, d2, ts2, hf, ht⟩ := dm_bind_inv hg
  obtain ⟨hd2, rows, hσ2, hrows, hok⟩ := fullPart_true_inv A hfull (s.t.headD P.tmin)
    { σ1 with next_time := s.t.headD P.tmin + 1 } d ts σ2 d2 ts2 hI.1 hlast hf
  subst hd2
  have hfr2 : HFrame σ1 σ2 := by rw [hσ2]; rfl
  refine ⟨σ2, rows, ts2, hac1.hframe hfr2, ht, ?_, ?_, ?_, ?_, ?_⟩
  · rw [hσ2]; show σ1.transmissions ++ rows = _; rw [hfr.transmissions]
  · rw [hrows, hσ2]
  · intro r hr
    obtain ⟨h1, u, l, h2, h3, h4⟩ := hok r hr
    obtain ⟨hu, hv, hrl⟩ := hI.2 r.2.2 l h3 u h4
    have hu' : u ∈ s.inf := h.inf.subset ((hA.iter _).subset hu)
    refine ⟨h1, u, hu', h2, by rw [← hA.nbrs]; exact hv, by rw [← hrule u hu']; exact hrl⟩
  · rw [hσ2]
  · rw [hσ2]
    show fullHist A _ = fullHist A _
    unfold fullHist
    simp only [hfr.node_history]

theorem HFrame.rel {P : DParams} {σ σ' : Loc} {s : DState} (h : Rel P σ s) (hf : HFrame σ σ') : Rel P σ' s := by
  refine ⟨?_, ?_, ?_, ?_, ?_, ?_, ?_, ?_, h.tne, h.sub, h.notsus⟩ <;> rw [hf]
  · exact h.t
  · exact h.S
  · exact h.I
  · exact h.R
  · exact h.inf
  · exact h.sus
  · exact h.nS
  · exact h.totR

/-- **partial correctness of the loop** for any invariant `J` (on locals, callback state, model state) preserved by one
successful generation: if the generated loop succeeds with fuel `m + 1`, the model loop has stopped within `m`
generations and the final states are related -/
theorem loop_pc (A : DArgs) (P : DParams) (htm : A.tmax = P.tmax) (J : Loc → DSt → DState → Prop)
    (hgen : ∀ σ s d ts σ' d' ts', Rel P σ s → J σ d s → ¬ Discrete.stopped P s →
      gen A σ d ts = .ok ((σ', d'), ts') → Rel P σ' (Discrete.step P s) ∧ J σ' d' (Discrete.step P s)) :
    ∀ (n : Nat) (σ : Loc) (s : DState) (d : DSt) (ts : TapeSt) (σ' : Loc) (d' : DSt) (ts' : TapeSt),
      Rel P σ s → J σ d s → GenDSIR.loop A n σ d ts = .ok ((σ', d'), ts') →
      ∃ m, n = m + 1 ∧ Discrete.stopped P (Discrete.loop P m s) ∧ Rel P σ' (Discrete.loop P m s) ∧
        J σ' d' (Discrete.loop P m s) := by
  intro n
  induction n with
  | zero => intro σ s d ts σ' d' ts' _ _ h; cases h
  | succ m ih =>
    intro σ s d ts σ' d' ts' h hJ hl
    refine ⟨m, rfl, ?_⟩
    rw [loop_succ, cond_eq A P σ s h htm] at hl
    by_cases hs : Discrete.stopped P s
    · have hloop : Discrete.loop P m s = s := by
        cases m with
        | zero => rfl
        | succ k => exact Discrete.loop_succ_stopped P k s hs
      rw [(stopped_iff P s).1 hs] at hl
      cases hl
      rw [hloop]
      exact ⟨hs, h, hJ⟩
    · have hb : (!s.inf.isEmpty && ERat.lt (some (s.t.headD P.tmin)) P.tmax) = true := by
        have := (stopped_iff P s).not.1 hs
        simpa using this
      rw [hb] at hl
      simp only [pure_bind, if_true] at hl
      obtain ⟨σ1, d1, ts1, hg, hl'⟩ := dm_bind_inv hl
      obtain ⟨hr1, hJ1⟩ := hgen σ s d ts σ1 d1 ts1 h hJ hs hg
      obtain ⟨k, rfl, hst, hr', hJ'⟩ := ih σ1 _ d1 ts1 σ' d' ts' hr1 hJ1 hl'
      rw [Discrete.loop_succ_running P k s hs]
      exact ⟨hst, hr', hJ'⟩


/-! ### `return_full_data=True`: initialisation, the transmissions invariant -/

theorem foldl_initI (tmin : Rat) (l : List Node) (σ : Loc) :
    l.foldl (fun (σ : Loc) (node : Node) =>
      { σ with node_history := alSet σ.node_history node ([tmin], [St.I]),
               transmissions := σ.transmissions ++ [((tmin - 1), none, node)] }) σ =
      { σ with node_history := l.foldl (fun nh node => alSet nh node ([tmin], [St.I])) σ.node_history,
               transmissions := σ.transmissions ++ l.map (fun node => (tmin - 1, none, node)) } := by
  induction l generalizing σ with
  | nil => simp
  | cons a l ih => rw [List.foldl_cons, ih]; simp

theorem foldl_initR (tmin : Rat) (l : List Node) (σ : Loc) :
    l.foldl (fun (σ : Loc) (node : Node) =>
      { σ with node_history := alSet σ.node_history node ([tmin], [St.R]) }) σ =
      { σ with node_history := l.foldl (fun nh node => alSet nh node ([tmin], [St.R])) σ.node_history } := by
  induction l generalizing σ with
  | nil => rfl
  | cons a l ih => rw [List.foldl_cons, ih]; rfl

/-- the initial `node_history` of `return_full_data=True` -/
def histInit (A : DArgs) : PyDM.Hist :=
  (A.initial_recovereds.getD []).foldl (fun nh node => alSet nh node ([A.tmin], [St.R]))
    (A.initial_infecteds.foldl (fun nh node => alSet nh node ([A.tmin], [St.I])) [])

/-- the locals at the first test of the `while` condition (`return_full_data=True`) -/
def initLocFull (A : DArgs) : Loc :=
  { initLoc A with
    node_history := histInit A,
    transmissions := A.initial_infecteds.map (fun node => (A.tmin - 1, none, node)) }

theorem run_true (A : DArgs) (h : A.full = true) (fuel : Nat) :
    GenDSIR.run A fuel = GenDSIR.loop A fuel (initLocFull A) := by
  unfold GenDSIR.run initLocFull initLoc histInit
  cases hr : A.initial_recovereds with
  | none => simp [h, List.foldlM_pure, foldl_fset, foldl_initI, Loc.init]
  | some r => simp [h, List.foldlM_pure, foldl_fset, foldl_initI, foldl_initR, Loc.init]

theorem step_infectors (P : DParams) (s : DState) :
    (Discrete.step P s).infectors = s.infectors ++ (Discrete.newInf P s).map fun v =>
      (v, s.t.headD P.tmin, s.inf.filter fun u => (P.nbrs u).contains v && P.rule (s.age u) u v) := by
  unfold Discrete.step Discrete.newInf
  cases h : P.recSteps <;> simp

/-- the `transmissions` list is the initial rows followed by rows in bijection with the model's infector records, each
naming one of the recorded possible infectors -/
def TInv (P : DParams) (infs : List Node) (σ : Loc) (s : DState) : Prop :=
  ∃ rows, σ.transmissions = infs.map (fun v => (P.tmin - 1, none, v)) ++ rows ∧
    (rows.map fun r => (r.2.2, r.1)).Perm (s.infectors.map fun e => (e.1, e.2.1)) ∧
    (rows.map fun r => (r.2.2, r.1 + 1)).Perm s.infTime ∧
    ∀ r ∈ rows, ∃ u l, r.2.1 = some u ∧ (r.2.2, r.1, l) ∈ s.infectors ∧ u ∈ l ∧ r.2.2 ∈ P.nbrs u

open Discrete in
theorem tinv_step (P : DParams) (infs : List Node) (hnd : P.nodes.Nodup) (σ σ2 σ' : Loc) (s : DState)
    (rows : List (Rat × Option Node × Node)) (hT : TInv P infs σ s) (hac : AfterContact P σ s σ2)
    (htr : σ2.transmissions = σ.transmissions ++ rows) (hrows : rows.map (·.2.2) = σ2.new_infecteds)
    (hok : ∀ r ∈ rows, r.1 = s.t.headD P.tmin ∧ ∃ u ∈ s.inf, r.2.1 = some u ∧ r.2.2 ∈ P.nbrs u ∧
      P.rule (s.age u) u r.2.2 = true)
    (hσ' : σ'.transmissions = σ2.transmissions) : TInv P infs σ' (step P s) := by
  obtain ⟨rows0, h0, hp0, hq0, hm0⟩ := hT
  have hnewperm : σ2.new_infecteds.Perm (newInf P s) := by
    rw [List.perm_ext_iff_of_nodup hac.nodup (by unfold newInf; exact hnd.filter _)]
    exact hac.mem
  refine ⟨rows0 ++ rows, ?_, ?_, ?_, ?_⟩
  · rw [hσ', htr, h0, List.append_assoc]
  rotate_left
  · rw [step_infTime, List.map_append]
    refine hq0.append ?_
    have h1 : (rows.map fun r => (r.2.2, r.1 + 1)) = σ2.new_infecteds.map fun v => (v, s.t.headD P.tmin + 1) := by
      rw [← hrows, List.map_map]
      apply List.map_congr_left
      intro r hr
      simp [(hok r hr).1]
    rw [h1]
    exact hnewperm.map _
  rotate_left
  · rw [step_infectors, List.map_append, List.map_append, List.map_map]
    refine hp0.append ?_
    have h1 : (rows.map fun r => (r.2.2, r.1)) = σ2.new_infecteds.map fun v => (v, s.t.headD P.tmin) := by
      rw [← hrows, List.map_map]
      apply List.map_congr_left
      intro r hr
      simp [(hok r hr).1]
    rw [h1]
    exact hnewperm.map _
  · intro r hr
    rcases List.mem_append.1 hr with hr | hr
    · obtain ⟨u, l, h1, h2, h3, h4⟩ := hm0 r hr
      exact ⟨u, l, h1, by rw [step_infectors]; exact List.mem_append_left _ h2, h3, h4⟩
    · obtain ⟨h1, u, hu, h2, h3, h4⟩ := hok r hr
      have hv : r.2.2 ∈ newInf P s := by
        rw [← hac.mem, ← hrows]; exact List.mem_map_of_mem hr
      refine ⟨u, s.inf.filter fun u => (P.nbrs u).contains r.2.2 && P.rule (s.age u) u r.2.2, h2, ?_, ?_, ?_⟩
      · rw [step_infectors, h1]
        exact List.mem_append_right _ (List.mem_map.2 ⟨r.2.2, hv, rfl⟩)
      · simp [hu, h3, h4]
      · exact h3

theorem tm_pure_inv {α : Type} {a : α} {ts : TapeSt} {r : α × TapeSt} (h : (pure a : TM α) ts = .ok r) :
    r = (a, ts) := by cases h; rfl

open Discrete in
/-- one successful generation for `toArgs … true …` -/
theorem hgenT (P : DParams) (iter : List Node → List Node) (hiter : ∀ l, (iter l).Perm l) (infs : List Node)
    (orecs : Option (List Node)) (hnd : P.nodes.Nodup) (hnb : ∀ u ∈ P.nodes, ∀ v ∈ P.nbrs u, v ∈ P.nodes)
    (ans : List Bool) :
    ∀ σ s d ts σ' d' ts', Rel P σ s → ((∀ u, cnt d u = s.age u) ∧ d.answers = ans ∧ TInv P infs σ s) →
      ¬ stopped P s → gen (toArgs P iter true infs orecs) σ d ts = .ok ((σ', d'), ts') →
      Rel P σ' (step P s) ∧ ((∀ u, cnt d' u = (step P s).age u) ∧ d'.answers = ans ∧ TInv P infs σ' (step P s)) := by
  intro σ s d ts σ' d' ts' h hJ _ hg
  obtain ⟨hA, _⟩ := toArgs_ok P iter hiter true infs orecs
  obtain ⟨σ2, rows, ts2, hac, htail, htr, hrows, hok, _, _⟩ := gen_true _ P hA hnb rfl
    (fun d u v => P.rule (cnt d u) u v) (fun _ _ _ => rfl) σ s d ts h (by intro u _ v; rw [hJ.1 u]) _ hg
  cases hrec : P.recSteps with
  | none =>
    obtain ⟨σ'', ht, hr, _, htr''⟩ := tail_none (toArgs P iter true infs orecs) P hnd (by simp [toArgs, hrec]) hrec
      σ σ2 s h hac
    rw [ht] at htail
    have := tm_pure_inv htail
    simp only [Prod.mk.injEq] at this
    obtain ⟨⟨rfl, rfl⟩, rfl⟩ := this
    refine ⟨hr, ?_, hJ.2.1, tinv_step P infs hnd σ σ2 _ s rows hJ.2.2 hac htr hrows hok htr''⟩
    rw [step_age_none P s hrec]; exact hJ.1
  | some k =>
    obtain ⟨σ'', d'', ht, hr, hage, hans, htr'', _⟩ := tail_some (toArgs P iter true infs orecs) P hA hnd k
      (by simp [toArgs, hrec]) hrec σ σ2 s d h hac hJ.1
    rw [ht] at htail
    have := tm_pure_inv htail
    simp only [Prod.mk.injEq] at this
    obtain ⟨⟨rfl, rfl⟩, rfl⟩ := this
    exact ⟨hr, hage, hans.trans hJ.2.1, tinv_step P infs hnd σ σ2 _ s rows hJ.2.2 hac htr hrows hok htr''⟩

open Discrete in
/-- A3: `discrete_SIR` with `return_full_data=True`, if it succeeds -/
theorem dsir_full' (P : DParams) (iter : List Node → List Node) (hiter : ∀ l, (iter l).Perm l) (infs : List Node)
    (orecs : Option (List Node)) (hwf : WF P infs (orecs.getD [])) (n : Nat)
    (d : DSt) (hd : ∀ u, cnt d u = 0) (ts : TapeSt) (σ : Loc) (d' : DSt) (ts' : TapeSt)
    (hrun : GenDSIR.run (toArgs P iter true infs orecs) n d ts = .ok ((σ, d'), ts')) :
    ∃ m, n = m + 1 ∧ stopped P (Discrete.run P infs (orecs.getD []) m) ∧
      Rel P σ (Discrete.run P infs (orecs.getD []) m) ∧
      (∀ u, cnt d' u = (Discrete.run P infs (orecs.getD []) m).age u) ∧ d'.answers = d.answers ∧
      TInv P infs σ (Discrete.run P infs (orecs.getD []) m) := by
  obtain ⟨hA, hI⟩ := toArgs_ok P iter hiter true infs orecs
  have hr0 := rel_init _ P infs orecs hA hI hwf
  have hfr : HFrame (initLoc (toArgs P iter true infs orecs)) (initLocFull (toArgs P iter true infs orecs)) := rfl
  have hr1 := hfr.rel hr0
  have hg := hgenT P iter hiter infs orecs hwf.nodup hwf.nbr_mem d.answers
  rw [run_true _ rfl] at hrun
  have hJ0 : (∀ u, cnt d u = (init P infs (orecs.getD [])).age u) ∧ d.answers = d.answers ∧
      TInv P infs (initLocFull (toArgs P iter true infs orecs)) (init P infs (orecs.getD [])) :=
    ⟨hd, rfl, [], by simp [initLocFull, toArgs], by simp [init], by simp [init], by simp⟩
  obtain ⟨m, hm, hst, hr, hJ⟩ := loop_pc _ P rfl
    (fun σ e s => (∀ u, cnt e u = s.age u) ∧ e.answers = d.answers ∧ TInv P infs σ s) hg n _ _ d ts σ d' ts'
    hr1 hJ0 hrun
  exact ⟨m, hm, hst, hr, hJ.1, hJ.2.1, hJ.2.2⟩


/-! ### B — the Bernoulli rule on a tape of uniforms: the path of `ReedFrost.outer` -/

/-- one contact of `ReedFrost.contact`, consuming outcomes from a list (`dec` decodes a draw into a Boolean) -/
def contactP {α : Type} (dec : α → Bool) (redraw : Bool) (sus : Node → Bool) (v : Node) (new : List Node)
    (xs : List α) : Option (List Node × List α) :=
  if sus v && !new.contains v then
    match xs with
    | x :: r => some (if dec x then new ++ [v] else new, r)
    | [] => none
  else if redraw && sus v then
    match xs with
    | _ :: r => some (new, r)
    | [] => none
  else some (new, xs)

/-- the path of `ReedFrost.inner` -/
def innerP {α : Type} (dec : α → Bool) (redraw : Bool) (sus : Node → Bool) :
    List Node → List Node → List α → Option (List Node × List α)
  | [], new, xs => some (new, xs)
  | v :: vs, new, xs =>
    match contactP dec redraw sus v new xs with
    | some (new', xs') => innerP dec redraw sus vs new' xs'
    | none => none

/-- the path of `ReedFrost.outer`: `none` when the outcomes run out, otherwise the final `new_infecteds` and the unused
outcomes -/
def outerP {α : Type} (dec : α → Bool) (redraw : Bool) (nbrs : Node → List Node) (sus : Node → Bool) :
    List Node → List Node → List α → Option (List Node × List α)
  | [], new, xs => some (new, xs)
  | u :: us, new, xs =>
    match innerP dec redraw sus (nbrs u) new xs with
    | some (new', xs') => outerP dec redraw nbrs sus us new' xs'
    | none => none

theorem dm_bind_ok {α β : Type} {x : DM α} {f : α → DM β} {d d1 : DSt} {ts ts1 : TapeSt} {a : α}
    (h : x d ts = .ok ((a, d1), ts1)) : (x >>= f) d ts = f a d1 ts1 := by
  rw [dm_bind]; exact tm_bind_ok h

theorem stt_eval (p r : Rat) (u v : Node) (d : DSt) (t : List Draw) (tr : Array Call) :
    GenDisc.simple_test_transmission u v p d ⟨Draw.unif r :: t, tr⟩ =
      .ok ((decide (r < p), d), ⟨t, tr.push Call.unif⟩) := rfl

/-- the invariant of the contact loop under the Bernoulli rule -/
structure BInv (sus0 : Node → Bool) (nS0 : Int) (σ0 σ : Loc) : Prop where
  c : CInv sus0 nS0 σ
  newsus : ∀ x ∈ σ.new_infecteds, sus0 x = true
  key : KeyInv σ
  frame : CFrame σ0 σ

theorem binv_cstepF (sus0 : Node → Bool) (nS0 : Int) (σ0 σ : Loc) (full b : Bool) (u v : Node)
    (h : BInv sus0 nS0 σ0 σ) : BInv sus0 nS0 σ0 (cstepF full (fun _ _ => b) u σ v) := by
  obtain ⟨h1, h2⟩ := cstepF_inv full (fun _ _ => b) sus0 nS0 u σ v h.c
  refine ⟨h1, ?_, keyInv_cstepF _ _ _ _ _ h.key, h.frame.trans (cstepF_frame _ _ _ _ _)⟩
  intro x hx
  rcases (h2 x).1 hx with hx | ⟨_, hs, _⟩
  · exact h.newsus x hx
  · exact hs

/-- one contact of `basic_discrete_SIR` on a tape of uniforms follows `contactP` -/
theorem contactStep_tape (A : DArgs) (hT : A.testTrans = fun u v => GenDisc.simple_test_transmission u v A.p)
    (sus0 : Node → Bool) (nS0 : Int) (σ0 : Loc) (u : Node) (σ : Loc) (v : Node) (d : DSt) (rs : List Rat)
    (rest : List Draw) (tr : Array Call) (new1 : List Node) (rs1 : List Rat) (hinv : BInv sus0 nS0 σ0 σ)
    (hP : contactP (fun r => decide (r < A.p)) A.full sus0 v σ.new_infecteds rs = some (new1, rs1)) :
    ∃ σ1 tr', contactStep A u σ v d ⟨rs.map Draw.unif ++ rest, tr⟩ =
        .ok ((σ1, d), ⟨rs1.map Draw.unif ++ rest, tr'⟩) ∧
      σ1.new_infecteds = new1 ∧ BInv sus0 nS0 σ0 σ1 := by
  have hsusσ : σ.susceptible v = (sus0 v && !σ.new_infecteds.contains v) := hinv.c.sus v
  unfold contactP at hP
  by_cases h1 : (sus0 v && !σ.new_infecteds.contains v) = true
  · rw [if_pos h1] at hP
    have hs : σ.susceptible v = true := by rw [hsusσ, h1]
    have hnc : σ.new_infecteds.contains v = false := by
      simp only [Bool.and_eq_true, Bool.not_eq_true'] at h1; exact h1.2
    cases rs with
    | nil => simp at hP
    | cons r rs' =>
      simp only [Option.some.injEq, Prod.mk.injEq] at hP
      obtain ⟨rfl, rfl⟩ := hP
      have hev : (do let tt_3 ← A.testTrans u v; pure tt_3 : DM Bool) d
          ⟨(r :: rs').map Draw.unif ++ rest, tr⟩ =
          .ok ((decide (r < A.p), d), ⟨rs'.map Draw.unif ++ rest, tr.push Call.unif⟩) := by
        rw [hT]; rfl
      rcases Bool.eq_false_or_eq_true (decide (r < A.p)) with hb | hb
      · -- the contact succeeds
        refine ⟨cstepF A.full (fun _ _ => true) u σ v, tr.push Call.unif, ?_, ?_, binv_cstepF _ _ _ _ _ _ _ _ hinv⟩
        · unfold contactStep
          simp only [hs, if_true]
          rw [dm_bind_ok hev, hb]
          simp only [if_true, cstepF, hs, Bool.and_self]
          rfl
        · have hnm : v ∉ σ.new_infecteds := by simpa using hnc
          simp [cstepF, hs, PyDM.setAdd, hnm, hb]
      · -- the contact fails
        refine ⟨σ, tr.push Call.unif, ?_, by simp [hb], hinv⟩
        unfold contactStep
        simp only [hs, if_true]
        rw [dm_bind_ok hev, hb]
        simp only [Bool.false_eq_true, if_false, hnc]
        cases A.full <;> rfl
  · rw [if_neg h1] at hP
    have hs : σ.susceptible v = false := by rw [hsusσ]; simpa using h1
    by_cases h2 : (A.full && sus0 v) = true
    · rw [if_pos h2] at hP
      simp only [Bool.and_eq_true] at h2
      have hc : σ.new_infecteds.contains v = true := by
        rw [h2.2] at h1; simpa using h1
      cases rs with
      | nil => simp at hP
      | cons r rs' =>
        simp only [Option.some.injEq, Prod.mk.injEq] at hP
        obtain ⟨rfl, rfl⟩ := hP
        have hev : (do let tt_5 ← A.testTrans u v; pure tt_5 : DM Bool) d
            ⟨(r :: rs').map Draw.unif ++ rest, tr⟩ =
            .ok ((decide (r < A.p), d), ⟨rs'.map Draw.unif ++ rest, tr.push Call.unif⟩) := by
          rw [hT]; rfl
        have hstep : contactStep A u σ v d ⟨(r :: rs').map Draw.unif ++ rest, tr⟩ =
            .ok ((cstepF A.full (fun _ _ => decide (r < A.p)) u σ v, d),
              ⟨rs'.map Draw.unif ++ rest, tr.push Call.unif⟩) := by
          unfold contactStep cstepF
          simp only [hs, Bool.false_eq_true, if_false, h2.1, if_true, hc, Bool.false_and, Bool.true_and]
          rw [dm_bind_ok (show (pure false : DM Bool) d _ = .ok ((false, d), _) from rfl)]
          simp only [Bool.false_eq_true, if_false, bind_pure]
          rw [dm_bind_ok hev]
          rcases Bool.eq_false_or_eq_true (decide (r < A.p)) with hb | hb
          swap
          · rw [hb]; rfl
          · rw [hb]
            simp only [if_true]
            have hmem : v ∈ σ.infector.map (·.1) := hinv.key v (by simpa using hc)
            rw [← alFind?_isSome] at hmem
            obtain ⟨l, hl⟩ := Option.isSome_iff_exists.1 hmem
            simp only [PyDM.dictAppend, PyRT.dictGet, hl, Option.getD_some]
            rfl
        refine ⟨_, _, hstep, ?_, binv_cstepF _ _ _ _ _ _ _ _ hinv⟩
        simp [cstepF, hs, hc, h2.1]
        split <;> rfl
    · rw [if_neg h2] at hP
      simp only [Option.some.injEq, Prod.mk.injEq] at hP
      obtain ⟨rfl, rfl⟩ := hP
      refine ⟨σ, tr, ?_, rfl, hinv⟩
      unfold contactStep
      simp only [hs, Bool.false_eq_true, if_false]
      rw [dm_bind_ok (show (pure false : DM Bool) d _ = .ok ((false, d), _) from rfl)]
      simp only [Bool.false_eq_true, if_false, bind_pure]
      cases hf : A.full
      · rfl
      · have hs0 : sus0 v = false := by rw [hf] at h2; simpa using h2
        have hc : σ.new_infecteds.contains v = false := by
          cases hcc : σ.new_infecteds.contains v
          · rfl
          · have := hinv.newsus v (by simpa using hcc)
            rw [hs0] at this; cases this
        simp only [if_true, hc, Bool.false_eq_true, if_false]
        rfl


theorem innerLoop_tape (A : DArgs) (hT : A.testTrans = fun u v => GenDisc.simple_test_transmission u v A.p)
    (sus0 : Node → Bool) (nS0 : Int) (σ0 : Loc) (u : Node) :
    ∀ (vs : List Node) (σ : Loc) (d : DSt) (rs : List Rat) (rest : List Draw) (tr : Array Call) (new1 : List Node)
      (rs1 : List Rat), BInv sus0 nS0 σ0 σ →
      innerP (fun r => decide (r < A.p)) A.full sus0 vs σ.new_infecteds rs = some (new1, rs1) →
      ∃ σ1 tr', vs.foldlM (contactStep A u) σ d ⟨rs.map Draw.unif ++ rest, tr⟩ =
          .ok ((σ1, d), ⟨rs1.map Draw.unif ++ rest, tr'⟩) ∧
        σ1.new_infecteds = new1 ∧ BInv sus0 nS0 σ0 σ1 := by
  intro vs
  induction vs with
  | nil =>
    intro σ d rs rest tr new1 rs1 hinv hP
    simp only [innerP, Option.some.injEq, Prod.mk.injEq] at hP
    obtain ⟨rfl, rfl⟩ := hP
    exact ⟨σ, tr, rfl, rfl, hinv⟩
  | cons v vs ih =>
    intro σ d rs rest tr new1 rs1 hinv hP
    simp only [innerP] at hP
    cases hc : contactP (fun r => decide (r < A.p)) A.full sus0 v σ.new_infecteds rs with
    | none => rw [hc] at hP; cases hP
    | some q =>
      obtain ⟨new', rs'⟩ := q
      rw [hc] at hP
      obtain ⟨σ1, tr1, h1, h2, h3⟩ := contactStep_tape A hT sus0 nS0 σ0 u σ v d rs rest tr new' rs' hinv hc
      subst h2
      obtain ⟨σ2, tr2, h4, h5, h6⟩ := ih σ1 d rs' rest tr1 new1 rs1 h3 hP
      refine ⟨σ2, tr2, ?_, h5, h6⟩
      rw [List.foldlM_cons, dm_bind_ok h1]
      exact h4

theorem contactLoop_tape (A : DArgs) (hT : A.testTrans = fun u v => GenDisc.simple_test_transmission u v A.p)
    (sus0 : Node → Bool) (nS0 : Int) (σ0 : Loc) :
    ∀ (l : List Node) (σ : Loc) (d : DSt) (rs : List Rat) (rest : List Draw) (tr : Array Call) (new1 : List Node)
      (rs1 : List Rat), BInv sus0 nS0 σ0 σ →
      outerP (fun r => decide (r < A.p)) A.full A.nbrs sus0 l σ.new_infecteds rs = some (new1, rs1) →
      ∃ σ1 tr', contactLoop A l σ d ⟨rs.map Draw.unif ++ rest, tr⟩ =
          .ok ((σ1, d), ⟨rs1.map Draw.unif ++ rest, tr'⟩) ∧
        σ1.new_infecteds = new1 ∧ BInv sus0 nS0 σ0 σ1 := by
  intro l
  induction l with
  | nil =>
    intro σ d rs rest tr new1 rs1 hinv hP
    simp only [outerP, Option.some.injEq, Prod.mk.injEq] at hP
    obtain ⟨rfl, rfl⟩ := hP
    exact ⟨σ, tr, rfl, rfl, hinv⟩
  | cons u us ih =>
    intro σ d rs rest tr new1 rs1 hinv hP
    simp only [outerP] at hP
    cases hc : innerP (fun r => decide (r < A.p)) A.full sus0 (A.nbrs u) σ.new_infecteds rs with
    | none => rw [hc] at hP; cases hP
    | some q =>
      obtain ⟨new', rs'⟩ := q
      rw [hc] at hP
      obtain ⟨σ1, tr1, h1, h2, h3⟩ := innerLoop_tape A hT sus0 nS0 σ0 u (A.nbrs u) σ d rs rest tr new' rs' hinv hc
      subst h2
      obtain ⟨σ2, tr2, h4, h5, h6⟩ := ih σ1 d rs' rest tr1 new1 rs1 h3 hP
      refine ⟨σ2, tr2, ?_, h5, h6⟩
      unfold contactLoop at h4 ⊢
      rw [List.foldlM_cons, dm_bind_ok h1]
      exact h4

/-! #### the path is in the support of the law model, with the product weight -/

/-- weight of a sequence of outcomes -/
def pathWeight {α : Type} (dec : α → Bool) (p : Rat) (used : List α) : Rat :=
  prodRat (used.map fun x => if dec x then p else 1 - p)

theorem mem_bind_of {α β : Type} (d : Dist α) (f : α → Dist β) (a : α) (q : Rat) (b : β) (q' : Rat)
    (h1 : (a, q) ∈ d) (h2 : (b, q') ∈ f a) : (b, q * q') ∈ Dist.bind d f := by
  unfold Dist.bind
  rw [List.mem_flatMap]
  exact ⟨(a, q), h1, List.mem_map.2 ⟨(b, q'), h2, rfl⟩⟩

theorem contactP_support {α : Type} (dec : α → Bool) (p : Rat) (redraw : Bool) (sus : Node → Bool) (v : Node)
    (new : List Node) (xs : List α) (new' : List Node) (xs' : List α)
    (h : contactP dec redraw sus v new xs = some (new', xs')) :
    ∃ used, xs = used ++ xs' ∧ (new', pathWeight dec p used) ∈ ReedFrost.contact p redraw sus v new := by
  unfold contactP at h
  unfold ReedFrost.contact
  split at h
  · rename_i h1
    rw [if_pos h1]
    cases xs with
    | nil => cases h
    | cons x r =>
      simp only [Option.some.injEq, Prod.mk.injEq] at h
      obtain ⟨rfl, rfl⟩ := h
      refine ⟨[x], rfl, ?_⟩
      cases hd : dec x
      · simp [pathWeight, hd, Dist.bind, Dist.bern, Dist.pure]
      · simp [pathWeight, hd, Dist.bind, Dist.bern, Dist.pure]
  · rename_i h1
    rw [if_neg h1]
    split at h
    · rename_i h2
      rw [if_pos h2]
      cases xs with
      | nil => cases h
      | cons x r =>
        simp only [Option.some.injEq, Prod.mk.injEq] at h
        obtain ⟨rfl, rfl⟩ := h
        refine ⟨[x], rfl, ?_⟩
        cases hd : dec x
        · simp [pathWeight, hd, Dist.bind, Dist.bern, Dist.pure]
        · simp [pathWeight, hd, Dist.bind, Dist.bern, Dist.pure]
    · rename_i h2
      rw [if_neg h2]
      simp only [Option.some.injEq, Prod.mk.injEq] at h
      obtain ⟨rfl, rfl⟩ := h
      exact ⟨[], rfl, by simp [pathWeight, Dist.pure]⟩

theorem pathWeight_append {α : Type} (dec : α → Bool) (p : Rat) (a b : List α) :
    pathWeight dec p (a ++ b) = pathWeight dec p a * pathWeight dec p b := by
  unfold pathWeight
  rw [List.map_append, prodRat_append]

theorem innerP_support {α : Type} (dec : α → Bool) (p : Rat) (redraw : Bool) (sus : Node → Bool) :
    ∀ (vs : List Node) (new : List Node) (xs : List α) (new' : List Node) (xs' : List α),
      innerP dec redraw sus vs new xs = some (new', xs') →
      ∃ used, xs = used ++ xs' ∧ (new', pathWeight dec p used) ∈ ReedFrost.inner p redraw sus vs new := by
  intro vs
  induction vs with
  | nil =>
    intro new xs new' xs' h
    simp only [innerP, Option.some.injEq, Prod.mk.injEq] at h
    obtain ⟨rfl, rfl⟩ := h
    exact ⟨[], rfl, by simp [pathWeight, ReedFrost.inner, Dist.pure]⟩
  | cons v vs ih =>
    intro new xs new' xs' h
    simp only [innerP] at h
    cases hc : contactP dec redraw sus v new xs with
    | none => rw [hc] at h; cases h
    | some q =>
      obtain ⟨n1, x1⟩ := q
      rw [hc] at h
      obtain ⟨u1, e1, m1⟩ := contactP_support dec p redraw sus v new xs n1 x1 hc
      obtain ⟨u2, e2, m2⟩ := ih n1 x1 new' xs' h
      refine ⟨u1 ++ u2, by rw [e1, e2, List.append_assoc], ?_⟩
      rw [pathWeight_append]
      exact mem_bind_of _ _ _ _ _ _ m1 m2

theorem outerP_support {α : Type} (dec : α → Bool) (p : Rat) (redraw : Bool) (nbrs : Node → List Node)
    (sus : Node → Bool) :
    ∀ (l : List Node) (new : List Node) (xs : List α) (new' : List Node) (xs' : List α),
      outerP dec redraw nbrs sus l new xs = some (new', xs') →
      ∃ used, xs = used ++ xs' ∧ (new', pathWeight dec p used) ∈ ReedFrost.outer p redraw nbrs sus l new := by
  intro l
  induction l with
  | nil =>
    intro new xs new' xs' h
    simp only [outerP, Option.some.injEq, Prod.mk.injEq] at h
    obtain ⟨rfl, rfl⟩ := h
    exact ⟨[], rfl, by simp [pathWeight, ReedFrost.outer, Dist.pure]⟩
  | cons u us ih =>
    intro new xs new' xs' h
    simp only [outerP] at h
    cases hc : innerP dec redraw sus (nbrs u) new xs with
    | none => rw [hc] at h; cases h
    | some q =>
      obtain ⟨n1, x1⟩ := q
      rw [hc] at h
      obtain ⟨u1, e1, m1⟩ := innerP_support dec p redraw sus (nbrs u) new xs n1 x1 hc
      obtain ⟨u2, e2, m2⟩ := ih n1 x1 new' xs' h
      refine ⟨u1 ++ u2, by rw [e1, e2, List.append_assoc], ?_⟩
      rw [pathWeight_append]
      exact mem_bind_of _ _ _ _ _ _ m1 m2


/-! ### `basic_discrete_SIS`: the pieces of one generation -/

namespace SIS

abbrev SLoc := GenDSIS.Loc

def cond (P : DArgs) (σ : SLoc) : DM Bool :=
  (if (!σ.infecteds.isEmpty) then do
      let last_1 ← PyDM.liftE (PyTM.listLast σ.t)
      pure (ERat.lt (some last_1) P.tmax)
    else pure false)

def contactStep (P : DArgs) (u : Node) (σ : SLoc) (v : Node) : DM SLoc := do
  let c_4 ← (if (!(σ.infecteds.contains v)) then do
    let r_3 ← PyDM.liftT TM.popUnif
    pure (decide (r_3 < P.p))
  else pure false)
  let σ ← (if c_4 then do
    let σ ← (if (!(σ.new_infecteds.contains v)) then do
      let σ := { σ with new_infecteds := PyDM.setAdd σ.new_infecteds v }
      let σ := { σ with infector := alSet σ.infector v [u] }
      pure σ
    else do
      let d_5 ← PyDM.liftE (PyDM.dictAppend σ.infector v u)
      let σ := { σ with infector := d_5 }
      pure σ)
    pure σ
  else do
    pure σ)
  pure σ

def contactLoop (P : DArgs) (l : List Node) (σ : SLoc) : DM SLoc :=
  l.foldlM (fun (σ : SLoc) (u : Node) => do
    let σ ← (P.nbrs u).foldlM (contactStep P u) σ
    pure σ) σ

def transBody (σ : SLoc) (v : Node) : DM SLoc := do
  let last_6 ← PyDM.liftE (PyTM.listLast σ.t)
  let inf_7 ← PyDM.liftE (PyRT.dictGet σ.infector v)
  let ch_8 ← PyDM.choiceNode inf_7
  let σ := { σ with transmissions := σ.transmissions ++ [(last_6, some ch_8, v)] }
  pure σ

def fullPart (P : DArgs) (σ : SLoc) : DM SLoc :=
  (if P.full then do
    let σ ← (σ.infector.map (·.1)).foldlM transBody σ
    let last_9 ← PyDM.liftE (PyTM.listLast σ.t)
    let σ := { σ with next_time := (last_9 + 1) }
    let σ ← (if (ERat.le (some σ.next_time) P.tmax) then do
      let σ ← (P.iter σ.infecteds).foldlM (fun (σ : SLoc) (u : Node) => do
        let σ := { σ with node_history := PyDM.nhApp0 P.tmin σ.node_history u σ.next_time }
        let σ := { σ with node_history := PyDM.nhApp1 P.tmin σ.node_history u St.S }
        pure σ) σ
      let σ ← (P.iter σ.new_infecteds).foldlM (fun (σ : SLoc) (v : Node) => do
        let σ := { σ with node_history := PyDM.nhApp0 P.tmin σ.node_history v σ.next_time }
        let σ := { σ with node_history := PyDM.nhApp1 P.tmin σ.node_history v St.I }
        pure σ) σ
      pure σ
    else do
      pure σ)
    pure σ
  else do
    pure σ)

def rowsPart (σ : SLoc) : DM SLoc := do
  let σ := { σ with infecteds := σ.new_infecteds }
  let last_10 ← PyDM.liftE (PyTM.listLast σ.t)
  let σ := { σ with t := σ.t ++ [(last_10 + 1)] }
  let σ := { σ with S := σ.S ++ [(σ.N - (σ.infecteds.length : Int))] }
  let σ := { σ with I := σ.I ++ [(σ.infecteds.length : Int)] }
  pure σ

/-- one generation of `basic_discrete_SIS` -/
def gen (P : DArgs) (σ : SLoc) : DM SLoc := do
  let σ := { σ with new_infecteds := [] }
  let σ := { σ with infector := [] }
  let σ ← contactLoop P (P.iter σ.infecteds) σ
  let σ ← fullPart P σ
  rowsPart σ

theorem loop_succ (P : DArgs) (fuel : Nat) (σ : SLoc) :
    GenDSIS.loop P (fuel + 1) σ = (do
      let c ← cond P σ
      if c then gen P σ >>= GenDSIS.loop P fuel else pure σ) := by
  rw [GenDSIS.loop]
  simp only [gen, cond, contactLoop, fullPart, rowsPart, bind_assoc, pure_bind]
  rfl


/-! #### partial correctness on an arbitrary tape (C) -/

theorem foldlM_pc {Λ α : Type} (body : Λ → α → DM Λ) (I : Λ → DSt → Prop) :
    ∀ (l : List α), (∀ σ d ts a r, a ∈ l → I σ d → body σ a d ts = .ok r → I r.1.1 r.1.2) →
      ∀ σ d ts r, I σ d → l.foldlM body σ d ts = .ok r → I r.1.1 r.1.2 := by
  intro l
  induction l with
  | nil => intro _ σ d ts r hI h; cases h; exact hI
  | cons a l ih =>
    intro hb σ d ts r hI h
    rw [List.foldlM_cons] at h
    obtain ⟨σ1, d1, ts1, h1, h2⟩ := dm_bind_inv h
    exact ih (fun σ d ts a r ha => hb σ d ts a r (List.mem_cons_of_mem _ ha)) σ1 d1 ts1 r
      (hb σ d ts a _ List.mem_cons_self hI h1) h2

theorem popUnif_inv {ts ts' : TapeSt} {r : Rat} (h : TM.popUnif ts = .ok (r, ts')) :
    ∃ t, ts.tape = Draw.unif r :: t ∧ ts' = ⟨t, ts.trace.push Call.unif⟩ := by
  unfold TM.popUnif at h
  split at h
  · rename_i r' t ht
    cases h
    exact ⟨t, ht, rfl⟩
  · cases h
  · cases h

theorem liftT_inv {α : Type} {x : TM α} {d d' : DSt} {ts ts' : TapeSt} {a : α}
    (h : PyDM.liftT x d ts = .ok ((a, d'), ts')) : d' = d ∧ x ts = .ok (a, ts') := by
  unfold PyDM.liftT at h
  obtain ⟨b, ts1, h1, h2⟩ := tm_bind_inv h
  cases h2
  exact ⟨rfl, h1⟩

theorem liftE_inv {α : Type} {e : Except String α} {d d' : DSt} {ts ts' : TapeSt} {a : α}
    (h : PyDM.liftE e d ts = .ok ((a, d'), ts')) : e = .ok a ∧ d' = d ∧ ts' = ts := by
  obtain ⟨h1, h2⟩ := liftT_inv h
  unfold PyTM.liftE at h2
  cases e with
  | error m => cases h2
  | ok b => cases h2; exact ⟨rfl, h1, rfl⟩

/-- a successful contact adds `v` -/
def addF (u : Node) (σ : SLoc) (v : Node) : SLoc :=
  if !(σ.new_infecteds.contains v) then
    { σ with new_infecteds := PyDM.setAdd σ.new_infecteds v, infector := alSet σ.infector v [u] }
  else { σ with infector := alSet σ.infector v ((PyRT.alFind? σ.infector v).getD [] ++ [u]) }

def SKey (σ : SLoc) : Prop := ∀ x ∈ σ.new_infecteds, x ∈ σ.infector.map (·.1)

/-- the contact loop changes only `new_infecteds` and `infector` -/
def SFrameC (σ σ' : SLoc) : Prop := σ' = { σ with new_infecteds := σ'.new_infecteds, infector := σ'.infector }

theorem SFrameC.trans {a b c : SLoc} (h1 : SFrameC a b) (h2 : SFrameC b c) : SFrameC a c := by
  unfold SFrameC at *
  rw [h2, h1]

theorem addF_frame (u : Node) (σ : SLoc) (v : Node) : SFrameC σ (addF u σ v) := by
  unfold addF SFrameC; split <;> rfl

theorem addF_new (u : Node) (σ : SLoc) (v : Node) : (addF u σ v).new_infecteds = PyDM.setAdd σ.new_infecteds v := by
  unfold addF
  split
  · rfl
  · rename_i h
    have hm : v ∈ σ.new_infecteds := by simpa using h
    simp [PyDM.setAdd, hm]

theorem addF_key (u : Node) (σ : SLoc) (v : Node) (h : SKey σ) : SKey (addF u σ v) := by
  intro x hx
  rw [addF_new, mem_setAdd] at hx
  have hk : (addF u σ v).infector.map (·.1) =
      if v ∈ σ.infector.map (·.1) then σ.infector.map (·.1) else σ.infector.map (·.1) ++ [v] := by
    unfold addF; split <;> exact keys_alSet _ _ _
  rw [hk]
  rcases hx with hx | rfl
  · have := h x hx; split <;> simp [this]
  · split
    · assumption
    · simp

theorem step_infected (P : DArgs) (u : Node) (σ : SLoc) (v : Node) (d : DSt) (ts : TapeSt)
    (hc : σ.infecteds.contains v = true) : contactStep P u σ v d ts = .ok ((σ, d), ts) := by
  unfold contactStep
  simp only [hc, Bool.not_true, Bool.false_eq_true, if_false]
  rfl

theorem step_unif (P : DArgs) (u : Node) (σ : SLoc) (v : Node) (d : DSt) (r : Rat) (t : List Draw) (tr : Array Call)
    (hc : σ.infecteds.contains v = false) (hk : SKey σ) :
    contactStep P u σ v d ⟨Draw.unif r :: t, tr⟩ =
      .ok ((if decide (r < P.p) then addF u σ v else σ, d), ⟨t, tr.push Call.unif⟩) := by
  unfold contactStep
  simp only [hc, Bool.not_false, if_true]
  have hev : (do let r_3 ← PyDM.liftT TM.popUnif; pure (decide (r_3 < P.p)) : DM Bool) d ⟨Draw.unif r :: t, tr⟩ =
      .ok ((decide (r < P.p), d), ⟨t, tr.push Call.unif⟩) := rfl
  rw [dm_bind_ok hev]
  rcases Bool.eq_false_or_eq_true (decide (r < P.p)) with hb | hb
  · rw [hb]
    simp only [if_true, addF]
    by_cases hn : σ.new_infecteds.contains v = true
    · simp only [hn, Bool.not_true, Bool.false_eq_true, if_false]
      have hmem : v ∈ σ.infector.map (·.1) := hk v (by simpa using hn)
      rw [← alFind?_isSome] at hmem
      obtain ⟨l, hl⟩ := Option.isSome_iff_exists.1 hmem
      simp only [PyDM.dictAppend, PyRT.dictGet, hl, Option.getD_some]
      rfl
    · have hn' : σ.new_infecteds.contains v = false := by simpa using hn
      simp only [hn', Bool.not_false, if_true]
      rfl
  · rw [hb]; rfl

theorem step_pc (P : DArgs) (u : Node) (σ : SLoc) (v : Node) (d : DSt) (ts : TapeSt) (r : (SLoc × DSt) × TapeSt)
    (hk : SKey σ) (h : contactStep P u σ v d ts = .ok r) :
    r.1.2 = d ∧ (r.1.1 = σ ∨ (σ.infecteds.contains v = false ∧ r.1.1 = addF u σ v)) := by
  cases hc : σ.infecteds.contains v
  · have h' := h
    unfold contactStep at h'
    simp only [hc, Bool.not_false, if_true] at h'
    obtain ⟨b, d1, ts1, h1, _⟩ := dm_bind_inv h'
    obtain ⟨r0, d2, ts2, h2, _⟩ := dm_bind_inv h1
    obtain ⟨_, h3⟩ := liftT_inv h2
    obtain ⟨t, ht, _⟩ := popUnif_inv h3
    obtain ⟨tape, tr⟩ := ts
    simp only at ht
    subst ht
    rw [step_unif P u σ v d r0 t tr hc hk] at h
    cases h
    refine ⟨rfl, ?_⟩
    split
    · exact Or.inr ⟨rfl, rfl⟩
    · exact Or.inl rfl
  · rw [step_infected P u σ v d ts hc] at h
    cases h
    exact ⟨rfl, Or.inl rfl⟩

/-- invariant of the contact loop of `basic_discrete_SIS`: `L` = the infectious nodes iterated over -/
structure SCInv (P : DArgs) (L : List Node) (d0 : DSt) (σ0 σ : SLoc) (d : DSt) : Prop where
  d : d = d0
  frame : SFrameC σ0 σ
  nodup : σ.new_infecteds.Nodup
  key : SKey σ
  mem : ∀ x ∈ σ.new_infecteds, x ∉ σ0.infecteds ∧ ∃ u ∈ L, x ∈ P.nbrs u

theorem SFrameC.infecteds {σ σ' : SLoc} (h : SFrameC σ σ') : σ'.infecteds = σ.infecteds := by rw [h]

theorem contactLoop_pc (P : DArgs) (L : List Node) (d0 : DSt) (σ0 : SLoc) (σ : SLoc) (d : DSt) (ts : TapeSt)
    (r : (SLoc × DSt) × TapeSt) (hI : SCInv P L d0 σ0 σ d) (h : contactLoop P L σ d ts = .ok r) :
    SCInv P L d0 σ0 r.1.1 r.1.2 := by
  unfold contactLoop at h
  refine foldlM_pc _ (SCInv P L d0 σ0) L ?_ σ d ts r hI h
  intro σ d ts u r hu hI h
  refine foldlM_pc _ (SCInv P L d0 σ0) (P.nbrs u) ?_ σ d ts r hI h
  intro σ d ts v r hv hI h
  obtain ⟨h1, h2⟩ := step_pc P u σ v d ts r hI.key h
  rcases h2 with h2 | ⟨hc, h2⟩
  · rw [h1, h2]; exact hI
  · rw [h1, h2]
    refine ⟨hI.d, hI.frame.trans (addF_frame u σ v), ?_, addF_key u σ v hI.key, ?_⟩
    · rw [addF_new]; exact setAdd_nodup _ _ hI.nodup
    · intro x hx
      rw [addF_new, mem_setAdd] at hx
      rcases hx with hx | rfl
      · exact hI.mem x hx
      · refine ⟨?_, u, hu, hv⟩
        rw [← hI.frame.infecteds]
        simpa using hc

/-- `fullPart` changes only `transmissions`, `node_history`, `next_time` -/
def SFrameH (σ σ' : SLoc) : Prop :=
  σ' = { σ with transmissions := σ'.transmissions, node_history := σ'.node_history, next_time := σ'.next_time }

theorem SFrameH.trans {a b c : SLoc} (h1 : SFrameH a b) (h2 : SFrameH b c) : SFrameH a c := by
  unfold SFrameH at *
  rw [h2, h1]

theorem transBody_pc (σ : SLoc) (v : Node) (d : DSt) (ts : TapeSt) (r : (SLoc × DSt) × TapeSt)
    (h : transBody σ v d ts = .ok r) : r.1.2 = d ∧ SFrameH σ r.1.1 := by
  unfold transBody at h
  obtain ⟨a, d1, ts1, h1, h2⟩ := dm_bind_inv h
  obtain ⟨_, rfl, rfl⟩ := liftE_inv h1
  obtain ⟨l, d2, ts2, h3, h4⟩ := dm_bind_inv h2
  obtain ⟨_, rfl, rfl⟩ := liftE_inv h3
  obtain ⟨ch, d3, ts3, h5, h6⟩ := dm_bind_inv h4
  obtain ⟨rfl, _⟩ := choiceNode_inv l _ _ ch d3 ts3 h5
  cases h6
  exact ⟨rfl, rfl⟩

theorem foldl_nh_frame (tmin : Rat) (st : St) (l : List Node) (σ : SLoc) :
    SFrameH σ (l.foldl (fun (σ : SLoc) (u : Node) =>
      { σ with node_history := PyDM.nhApp1 tmin (PyDM.nhApp0 tmin σ.node_history u σ.next_time) u st }) σ) := by
  induction l generalizing σ with
  | nil => rfl
  | cons a l ih =>
    rw [List.foldl_cons]
    exact SFrameH.trans (show SFrameH σ { σ with node_history := _ } from rfl) (ih _)

theorem fullPart_pc (P : DArgs) (σ : SLoc) (d : DSt) (ts : TapeSt) (r : (SLoc × DSt) × TapeSt)
    (h : fullPart P σ d ts = .ok r) : r.1.2 = d ∧ SFrameH σ r.1.1 := by
  unfold fullPart at h
  cases hf : P.full
  · rw [hf] at h; cases h; exact ⟨rfl, rfl⟩
  · rw [hf] at h
    simp only [if_true] at h
    obtain ⟨σ1, d1, ts1, h1, h2⟩ := dm_bind_inv h
    have hI := foldlM_pc transBody (fun τ e => e = d ∧ SFrameH σ τ) _
      (fun τ e ts a r _ hI hb => by
        obtain ⟨i1, i2⟩ := transBody_pc τ a e ts r hb
        exact ⟨i1.trans hI.1, hI.2.trans i2⟩) σ d ts _ ⟨rfl, rfl⟩ h1
    obtain ⟨rfl, hfr1⟩ := hI
    obtain ⟨a, d2, ts2, h3, h4⟩ := dm_bind_inv h2
    obtain ⟨_, rfl, rfl⟩ := liftE_inv h3
    simp only [List.foldlM_pure, pure_bind, bind_pure] at h4
    split at h4
    · cases h4
      refine ⟨rfl, hfr1.trans ?_⟩
      exact SFrameH.trans (show SFrameH σ1 { σ1 with next_time := a + 1 } from rfl)
        (SFrameH.trans (foldl_nh_frame P.tmin St.S _ _) (foldl_nh_frame P.tmin St.I _ _))
    · cases h4
      exact ⟨rfl, hfr1.trans (show SFrameH σ1 { σ1 with next_time := a + 1 } from rfl)⟩

/-- the new rows of `basic_discrete_SIS`, as a function (`a` = the last time) -/
def rowsF (σ : SLoc) (a : Rat) : SLoc :=
  { σ with
    infecteds := σ.new_infecteds, t := σ.t ++ [a + 1], S := σ.S ++ [σ.N - (σ.new_infecteds.length : Int)],
    I := σ.I ++ [(σ.new_infecteds.length : Int)] }

/-- the locals at the start of the contact loop -/
def resetNew (σ : SLoc) : SLoc := { σ with new_infecteds := [], infector := [] }

theorem rowsPart_pc (σ : SLoc) (d : DSt) (ts : TapeSt) (r : (SLoc × DSt) × TapeSt)
    (h : rowsPart σ d ts = .ok r) :
    ∃ a, σ.t.getLast? = some a ∧ r = ((rowsF σ a, d), ts) := by
  unfold rowsPart at h
  obtain ⟨a, d1, ts1, h1, h2⟩ := dm_bind_inv h
  obtain ⟨he, rfl, rfl⟩ := liftE_inv h1
  cases h2
  refine ⟨a, ?_, rfl⟩
  unfold PyTM.listLast at he
  cases hl : σ.t.getLast? with
  | none => rw [hl] at he; cases he
  | some b => rw [hl] at he; cases he; rfl

/-- **one generation of `basic_discrete_SIS`, if it succeeds** -/
theorem gen_pc (P : DArgs) (σ : SLoc) (d : DSt) (ts : TapeSt) (r : (SLoc × DSt) × TapeSt)
    (h : gen P σ d ts = .ok r) :
    r.1.2 = d ∧ ∃ a, σ.t.getLast? = some a ∧ r.1.1.t = σ.t ++ [a + 1] ∧
      r.1.1.S = σ.S ++ [σ.N - (r.1.1.infecteds.length : Int)] ∧ r.1.1.I = σ.I ++ [(r.1.1.infecteds.length : Int)] ∧
      r.1.1.N = σ.N ∧ r.1.1.infecteds.Nodup ∧
      ∀ v ∈ r.1.1.infecteds, v ∉ σ.infecteds ∧ ∃ u ∈ P.iter σ.infecteds, v ∈ P.nbrs u := by
  unfold gen at h
  obtain ⟨σ1, d1, ts1, h1, h2⟩ := dm_bind_inv h
  change contactLoop P (P.iter σ.infecteds) (resetNew σ) d ts = .ok ((σ1, d1), ts1) at h1
  have hc := contactLoop_pc P (P.iter σ.infecteds) d (resetNew σ) (resetNew σ) d ts ((σ1, d1), ts1)
    ⟨rfl, (rfl : SFrameC (resetNew σ) (resetNew σ)), List.nodup_nil, by intro x hx; simp [resetNew] at hx,
      by intro x hx; simp [resetNew] at hx⟩ h1
  have hd1 : d1 = d := hc.d
  have hfr1 : SFrameC (resetNew σ) σ1 := hc.frame
  have hnd1 : σ1.new_infecteds.Nodup := hc.nodup
  have hmem1 : ∀ x ∈ σ1.new_infecteds, x ∉ σ.infecteds ∧ ∃ u ∈ P.iter σ.infecteds, x ∈ P.nbrs u := hc.mem
  subst hd1
  obtain ⟨σ2, d2, ts2, h3, h4⟩ := dm_bind_inv h2
  obtain ⟨hd2, hfr2⟩ := fullPart_pc P σ1 d1 ts1 _ h3
  simp only at hd2 hfr2
  subst hd2
  obtain ⟨a, ha, hr⟩ := rowsPart_pc σ2 d2 ts2 r h4
  have e1 : σ2.t = σ.t := by rw [hfr2, hfr1]; rfl
  have e2 : σ2.S = σ.S := by rw [hfr2, hfr1]; rfl
  have e3 : σ2.I = σ.I := by rw [hfr2, hfr1]; rfl
  have e4 : σ2.N = σ.N := by rw [hfr2, hfr1]; rfl
  have e5 : σ2.new_infecteds = σ1.new_infecteds := by rw [hfr2]
  rw [hr]
  refine ⟨rfl, a, by rw [← e1]; exact ha, ?_, ?_, ?_, e4, ?_, ?_⟩
  · simp [rowsF, e1]
  · simp [rowsF, e2, e4]
  · simp [rowsF, e3]
  · show σ2.new_infecteds.Nodup
    rw [e5]; exact hnd1
  · intro v hv
    change v ∈ σ2.new_infecteds at hv
    rw [e5] at hv
    exact hmem1 v hv

/-- rows after `k` generations -/
structure SInv (P : DArgs) (k : Nat) (σ : SLoc) : Prop where
  t : σ.t = (List.range (k + 1)).map fun (i : Nat) => P.tmin + (i : Rat)
  lenI : σ.I.length = k + 1
  S : σ.S = σ.I.map fun i => P.order - i
  N : σ.N = P.order
  nodup : σ.infecteds.Nodup
  last : σ.I.getLast? = some (σ.infecteds.length : Int)

theorem sinv_gen (P : DArgs) (k : Nat) (σ : SLoc) (d : DSt) (ts : TapeSt) (r : (SLoc × DSt) × TapeSt)
    (hI : SInv P k σ) (h : gen P σ d ts = .ok r) : r.1.2 = d ∧ SInv P (k + 1) r.1.1 := by
  obtain ⟨hd, a, ha, ht, hS, hIr, hN, hnd, _⟩ := gen_pc P σ d ts r h
  refine ⟨hd, ?_, ?_, ?_, hN.trans hI.N, hnd, ?_⟩
  · rw [ht, hI.t, List.range_succ (n := k + 1), List.map_append]
    congr 1
    rw [hI.t] at ha
    simp [List.range_succ] at ha
    simp only [List.map_cons, List.map_nil, List.cons.injEq, and_true]
    rw [← ha]; push_cast; ring
  · rw [hIr]; simp [hI.lenI]
  · rw [hS, hIr, hI.S, hI.N]; simp
  · rw [hIr]; simp

theorem sinv_loop (P : DArgs) :
    ∀ (n k : Nat) (σ : SLoc) (d : DSt) (ts : TapeSt) (r : (SLoc × DSt) × TapeSt), SInv P k σ →
      GenDSIS.loop P n σ d ts = .ok r →
      r.1.2 = d ∧ ∃ k', k ≤ k' ∧ k' < k + n ∧ SInv P k' r.1.1 ∧
        (r.1.1.infecteds = [] ∨ ERat.lt (some (P.tmin + (k' : Rat))) P.tmax = false) := by
  intro n
  induction n with
  | zero => intro k σ d ts r _ h; cases h
  | succ m ih =>
    intro k σ d ts r hI h
    rw [loop_succ] at h
    have hlast : σ.t.getLast? = some (P.tmin + (k : Rat)) := by
      rw [hI.t]; simp [List.range_succ]
    have hcond : cond P σ = (pure (!σ.infecteds.isEmpty && ERat.lt (some (P.tmin + (k : Rat))) P.tmax) : DM Bool) := by
      unfold cond
      rw [listLast_eq hlast]
      cases σ.infecteds.isEmpty <;> simp
    rw [hcond] at h
    by_cases hb : (!σ.infecteds.isEmpty && ERat.lt (some (P.tmin + (k : Rat))) P.tmax) = true
    · rw [hb] at h
      simp only [pure_bind, if_true] at h
      obtain ⟨σ1, d1, ts1, hg, hl⟩ := dm_bind_inv h
      obtain ⟨hd1, hI1⟩ := sinv_gen P k σ d ts _ hI hg
      simp only at hd1 hI1
      subst hd1
      obtain ⟨hd', k', hk1, hk2, hI', hstop⟩ := ih (k + 1) σ1 d1 ts1 r hI1 hl
      exact ⟨hd', k', by omega, by omega, hI', hstop⟩
    · have hb' : (!σ.infecteds.isEmpty && ERat.lt (some (P.tmin + (k : Rat))) P.tmax) = false := by simpa using hb
      rw [hb'] at h
      cases h
      refine ⟨rfl, k, le_refl k, by omega, hI, ?_⟩
      simp only [Bool.and_eq_false_iff, Bool.not_eq_false'] at hb'
      rcases hb' with h1 | h1
      · left; simpa using h1
      · right; exact h1

theorem run_eq (P : DArgs) (fuel : Nat) :
    ∃ σ0 : SLoc, GenDSIS.run P fuel = GenDSIS.loop P fuel σ0 ∧ σ0.t = [P.tmin] ∧ σ0.N = P.order ∧
      σ0.S = [P.order - (P.initial_infecteds.length : Int)] ∧ σ0.I = [(P.initial_infecteds.length : Int)] ∧
      σ0.infecteds = PyDM.setOf P.initial_infecteds := by
  unfold GenDSIS.run
  cases hf : P.full
  · exact ⟨_, by simp only [Bool.false_eq_true, if_false, pure_bind]; rfl, rfl, rfl, rfl, rfl, rfl⟩
  · refine ⟨{ (P.initial_infecteds.foldl (fun (σ : SLoc) (u : Node) =>
        { σ with node_history := alSet σ.node_history u ([P.tmin], [St.I]),
                 transmissions := σ.transmissions ++ [((P.tmin - 1), none, u)] }) GenDSIS.Loc.init) with
        N := P.order, t := [P.tmin], S := [P.order - (P.initial_infecteds.length : Int)],
        I := [(P.initial_infecteds.length : Int)], infecteds := PyDM.setOf P.initial_infecteds }, ?_, rfl, rfl, rfl, rfl, rfl⟩
    simp only [if_true, List.foldlM_pure, pure_bind, bind_pure]
    rfl


/-! #### the contact loop of `basic_discrete_SIS` on a tape of uniforms follows `outerP` with `redraw = true` (B) -/

theorem step_tape (P : DArgs) (inf0 : List Node) (u : Node) (σ : SLoc) (v : Node) (d : DSt) (rs : List Rat)
    (rest : List Draw) (tr : Array Call) (new1 : List Node) (rs1 : List Rat) (hk : SKey σ) (hi : σ.infecteds = inf0)
    (hP : contactP (fun r => decide (r < P.p)) true (fun x => !inf0.contains x) v σ.new_infecteds rs
      = some (new1, rs1)) :
    ∃ σ1 tr', contactStep P u σ v d ⟨rs.map Draw.unif ++ rest, tr⟩ =
        .ok ((σ1, d), ⟨rs1.map Draw.unif ++ rest, tr'⟩) ∧
      σ1.new_infecteds = new1 ∧ SKey σ1 ∧ σ1.infecteds = inf0 := by
  unfold contactP at hP
  cases hc : inf0.contains v
  · -- `v` is not infectious: a draw is made
    have hcσ : σ.infecteds.contains v = false := by rw [hi]; exact hc
    simp only [hc, Bool.not_false, Bool.true_and, Bool.and_self] at hP
    have key : ∀ r rs', rs = r :: rs' →
        contactStep P u σ v d ⟨rs.map Draw.unif ++ rest, tr⟩ =
          .ok ((if decide (r < P.p) then addF u σ v else σ, d), ⟨rs'.map Draw.unif ++ rest, tr.push Call.unif⟩) := by
      intro r rs' h; subst h
      exact step_unif P u σ v d r _ tr hcσ hk
    have hinv : ∀ b : Bool, SKey (if b then addF u σ v else σ) ∧ (if b then addF u σ v else σ).infecteds = inf0 := by
      intro b
      cases b
      · exact ⟨hk, hi⟩
      · exact ⟨addF_key u σ v hk, by simp only [if_true]; rw [(addF_frame u σ v).infecteds]; exact hi⟩
    by_cases hn : σ.new_infecteds.contains v = true
    · have hm : v ∈ σ.new_infecteds := by simpa using hn
      simp only [hn, Bool.not_true, Bool.false_eq_true, if_false, if_true] at hP
      cases rs with
      | nil => simp at hP
      | cons r rs' =>
        simp only [Option.some.injEq, Prod.mk.injEq] at hP
        obtain ⟨rfl, rfl⟩ := hP
        refine ⟨_, _, key r rs' rfl, ?_, hinv _⟩
        split
        · rw [addF_new]; simp [PyDM.setAdd, hm]
        · rfl
    · have hn' : σ.new_infecteds.contains v = false := by simpa using hn
      have hm : v ∉ σ.new_infecteds := by simpa using hn'
      simp only [hn', Bool.not_false, if_true] at hP
      cases rs with
      | nil => simp at hP
      | cons r rs' =>
        simp only [Option.some.injEq, Prod.mk.injEq] at hP
        obtain ⟨rfl, rfl⟩ := hP
        refine ⟨_, _, key r rs' rfl, ?_, hinv _⟩
        split
        · rw [addF_new]; simp [PyDM.setAdd, hm]
        · rfl
  · -- `v` is infectious: no draw
    have hcσ : σ.infecteds.contains v = true := by rw [hi]; exact hc
    simp only [hc, Bool.not_true, Bool.false_and, Bool.and_false, Bool.false_eq_true, if_false,
      Option.some.injEq, Prod.mk.injEq] at hP
    obtain ⟨rfl, rfl⟩ := hP
    exact ⟨σ, tr, step_infected P u σ v d _ hcσ, rfl, hk, hi⟩

theorem innerLoop_tape (P : DArgs) (inf0 : List Node) (u : Node) :
    ∀ (vs : List Node) (σ : SLoc) (d : DSt) (rs : List Rat) (rest : List Draw) (tr : Array Call) (new1 : List Node)
      (rs1 : List Rat), SKey σ → σ.infecteds = inf0 →
      innerP (fun r => decide (r < P.p)) true (fun x => !inf0.contains x) vs σ.new_infecteds rs = some (new1, rs1) →
      ∃ σ1 tr', vs.foldlM (contactStep P u) σ d ⟨rs.map Draw.unif ++ rest, tr⟩ =
          .ok ((σ1, d), ⟨rs1.map Draw.unif ++ rest, tr'⟩) ∧
        σ1.new_infecteds = new1 ∧ SKey σ1 ∧ σ1.infecteds = inf0 := by
  intro vs
  induction vs with
  | nil =>
    intro σ d rs rest tr new1 rs1 hk hi hP
    simp only [innerP, Option.some.injEq, Prod.mk.injEq] at hP
    obtain ⟨rfl, rfl⟩ := hP
    exact ⟨σ, tr, rfl, rfl, hk, hi⟩
  | cons v vs ih =>
    intro σ d rs rest tr new1 rs1 hk hi hP
    simp only [innerP] at hP
    cases hc : contactP (fun r => decide (r < P.p)) true (fun x => !inf0.contains x) v σ.new_infecteds rs with
    | none => rw [hc] at hP; cases hP
    | some q =>
      obtain ⟨new', rs'⟩ := q
      rw [hc] at hP
      obtain ⟨σ1, tr1, h1, h2, h3, h3'⟩ := step_tape P inf0 u σ v d rs rest tr new' rs' hk hi hc
      subst h2
      obtain ⟨σ2, tr2, h4, h5, h6⟩ := ih σ1 d rs' rest tr1 new1 rs1 h3 h3' hP
      refine ⟨σ2, tr2, ?_, h5, h6⟩
      rw [List.foldlM_cons, dm_bind_ok h1]
      exact h4

theorem contactLoop_tape (P : DArgs) (inf0 : List Node) :
    ∀ (l : List Node) (σ : SLoc) (d : DSt) (rs : List Rat) (rest : List Draw) (tr : Array Call) (new1 : List Node)
      (rs1 : List Rat), SKey σ → σ.infecteds = inf0 →
      outerP (fun r => decide (r < P.p)) true P.nbrs (fun x => !inf0.contains x) l σ.new_infecteds rs
        = some (new1, rs1) →
      ∃ σ1 tr', contactLoop P l σ d ⟨rs.map Draw.unif ++ rest, tr⟩ =
          .ok ((σ1, d), ⟨rs1.map Draw.unif ++ rest, tr'⟩) ∧
        σ1.new_infecteds = new1 ∧ SKey σ1 ∧ σ1.infecteds = inf0 := by
  intro l
  induction l with
  | nil =>
    intro σ d rs rest tr new1 rs1 hk hi hP
    simp only [outerP, Option.some.injEq, Prod.mk.injEq] at hP
    obtain ⟨rfl, rfl⟩ := hP
    exact ⟨σ, tr, rfl, rfl, hk, hi⟩
  | cons u us ih =>
    intro σ d rs rest tr new1 rs1 hk hi hP
    simp only [outerP] at hP
    cases hc : innerP (fun r => decide (r < P.p)) true (fun x => !inf0.contains x) (P.nbrs u) σ.new_infecteds rs with
    | none => rw [hc] at hP; cases hP
    | some q =>
      obtain ⟨new', rs'⟩ := q
      rw [hc] at hP
      obtain ⟨σ1, tr1, h1, h2, h3, h3'⟩ := innerLoop_tape P inf0 u (P.nbrs u) σ d rs rest tr new' rs' hk hi hc
      subst h2
      obtain ⟨σ2, tr2, h4, h5, h6⟩ := ih σ1 d rs' rest tr1 new1 rs1 h3 h3' hP
      refine ⟨σ2, tr2, ?_, h5, h6⟩
      unfold contactLoop at h4 ⊢
      rw [List.foldlM_cons, dm_bind_ok h1]
      exact h4

end SIS

/-! ### `percolate_network` on a tape of uniforms -/

/-- the edges kept by the outcomes `rs` (paired in order) -/
def keptBy (p : Rat) : List (Node × Node) → List Rat → List (Node × Node)
  | e :: es, r :: rs => if decide (r < p) then e :: keptBy p es rs else keptBy p es rs
  | _, _ => []

theorem keptBy_sublist (p : Rat) : ∀ (edges : List (Node × Node)) (rs : List Rat), (keptBy p edges rs).Sublist edges := by
  intro edges
  induction edges with
  | nil => intro rs; cases rs <;> exact List.Sublist.refl _
  | cons e es ih =>
    intro rs
    cases rs with
    | nil => exact List.nil_sublist _
    | cons r rs =>
      simp only [keptBy]
      split
      · exact (ih rs).cons_cons e
      · exact (ih rs).cons e

/-- the body of the loop of `percolate_network` -/
def percBody (p : Rat) (H : List (Node × Node)) (edge : Node × Node) : DM (List (Node × Node)) := do
  let r ← PyDM.liftT TM.popUnif
  if decide (r < p) then pure (H ++ [edge]) else pure H

theorem percolate_eq (edges : List (Node × Node)) (p : Rat) :
    GenDisc.percolate_network edges p = edges.foldlM (percBody p) [] := rfl

theorem percolate_fold (p : Rat) (d : DSt) (rest : List Draw) :
    ∀ (edges : List (Node × Node)) (rs : List Rat) (H : List (Node × Node)) (tr : Array Call),
      rs.length = edges.length →
      ∃ tr', edges.foldlM (percBody p) H d ⟨rs.map Draw.unif ++ rest, tr⟩ =
        .ok ((H ++ keptBy p edges rs, d), ⟨rest, tr'⟩) := by
  intro edges
  induction edges with
  | nil =>
    intro rs H tr hl
    cases rs with
    | nil => exact ⟨tr, by simp [keptBy]; rfl⟩
    | cons r rs => simp at hl
  | cons e es ih =>
    intro rs H tr hl
    cases rs with
    | nil => simp at hl
    | cons r rs =>
      have hl' : rs.length = es.length := by simpa using hl
      rw [List.foldlM_cons]
      have hev : (PyDM.liftT TM.popUnif : DM Rat) d ⟨(r :: rs).map Draw.unif ++ rest, tr⟩ =
          .ok ((r, d), ⟨rs.map Draw.unif ++ rest, tr.push Call.unif⟩) := rfl
      rw [show percBody p H e = (do
        let r ← PyDM.liftT TM.popUnif
        if decide (r < p) then pure (H ++ [e]) else pure H) from rfl]
      rw [bind_assoc, dm_bind_ok hev]
      rcases Bool.eq_false_or_eq_true (decide (r < p)) with hb | hb
      · obtain ⟨tr', h⟩ := ih rs (H ++ [e]) (tr.push Call.unif) hl'
        refine ⟨tr', ?_⟩
        simp only [hb, if_true, pure_bind, keptBy]
        rw [h]; simp
      · obtain ⟨tr', h⟩ := ih rs H (tr.push Call.unif) hl'
        refine ⟨tr', ?_⟩
        simp only [hb, Bool.false_eq_true, if_false, pure_bind, keptBy]
        rw [h]


theorem keptBy_eq_zip (p : Rat) : ∀ (edges : List (Node × Node)) (rs : List Rat),
    keptBy p edges rs = ((edges.zip rs).filter fun x => decide (x.2 < p)).map (·.1) := by
  intro edges
  induction edges with
  | nil => intro rs; cases rs <;> rfl
  | cons e es ih =>
    intro rs
    cases rs with
    | nil => rfl
    | cons r rs =>
      simp only [keptBy, List.zip_cons_cons, List.filter_cons]
      split <;> simp [ih rs]

theorem keptBy_support (p : Rat) : ∀ (edges : List (Node × Node)) (rs : List Rat), rs.length = edges.length →
    (keptBy p edges rs, pathWeight (fun r => decide (r < p)) p rs) ∈ Discrete.percolateDist p edges := by
  intro edges
  induction edges with
  | nil =>
    intro rs hl
    cases rs with
    | nil => simp [keptBy, pathWeight, Discrete.percolateDist, Dist.pure]
    | cons r rs => simp at hl
  | cons e es ih =>
    intro rs hl
    cases rs with
    | nil => simp at hl
    | cons r rs =>
      have hm := ih rs (by simpa using hl)
      unfold Discrete.percolateDist
      have hw : pathWeight (fun r => decide (r < p)) p (r :: rs) =
          (if decide (r < p) then p else 1 - p) * pathWeight (fun r => decide (r < p)) p rs := by
        simp [pathWeight]
      rw [hw]
      refine mem_bind_of _ _ (decide (r < p)) _ _ _ ?_ ?_
      · rcases Bool.eq_false_or_eq_true (decide (r < p)) with hb | hb <;> simp [hb, Dist.bern]
      · unfold Dist.push
        refine List.mem_map.2 ⟨(keptBy p es rs, pathWeight (fun r => decide (r < p)) p rs), hm, ?_⟩
        simp only [keptBy]

theorem setOf_length (l : List Node) (h : l.Nodup) : (PyDM.setOf l).length = l.length := by
  have : (PyDM.setOf l).Perm l := by
    rw [List.perm_ext_iff_of_nodup (setOf_nodup l) h]
    exact mem_setOf l
  exact this.length_eq

/-- C: the rows of `basic_discrete_SIS`, for every tape on which the run succeeds -/
theorem SIS.run_rows (P : DArgs) (hnd : P.initial_infecteds.Nodup) (n : Nat) (d : DSt) (ts : TapeSt)
    (r : (SIS.SLoc × DSt) × TapeSt) (h : GenDSIS.run P n d ts = .ok r) :
    r.1.2 = d ∧ ∃ k, k < n ∧ SIS.SInv P k r.1.1 ∧
      (r.1.1.infecteds = [] ∨ ERat.lt (some (P.tmin + (k : Rat))) P.tmax = false) := by
  obtain ⟨σ0, hrun, h1, h2, h3, h4, h5⟩ := SIS.run_eq P n
  rw [hrun] at h
  have hI0 : SIS.SInv P 0 σ0 := by
    refine ⟨by rw [h1]; simp, by rw [h4]; rfl, by rw [h3, h4]; rfl, h2, by rw [h5]; exact setOf_nodup _, ?_⟩
    rw [h4, h5, setOf_length _ hnd]; rfl
  obtain ⟨hd, k, _, hk, hI, hstop⟩ := SIS.sinv_loop P n 0 σ0 d ts r hI0 h
  exact ⟨hd, k, by omega, hI, hstop⟩


/-- the arguments `basic_discrete_SIR` passes to `discrete_SIR` -/
def basicArgs (A0 : DArgs) : DArgs :=
  { A0 with testTrans := fun u v => GenDisc.simple_test_transmission u v A0.p, testRec := none }

theorem basic_eq (A0 : DArgs) (fuel : Nat) : GenDisc.basic_discrete_SIR A0 fuel = GenDSIR.run (basicArgs A0) fuel := rfl

/-- B (discrete_SIR with the Bernoulli rule): the contact loop of one generation on a tape of uniforms -/
theorem basic_SIR_contact' (A0 : DArgs) (σ : Loc) (d : DSt) (rs : List Rat) (rest : List Draw) (tr : Array Call)
    (new : List Node) (rs1 : List Rat)
    (hpath : outerP (fun r => decide (r < A0.p)) A0.full A0.nbrs σ.susceptible (A0.iter σ.infecteds) [] rs
      = some (new, rs1)) :
    ∃ σ1 tr', contactLoop (basicArgs A0) ((basicArgs A0).iter σ.infecteds) { σ with new_infecteds := [], infector := [] } d
        ⟨rs.map Draw.unif ++ rest, tr⟩ = .ok ((σ1, d), ⟨rs1.map Draw.unif ++ rest, tr'⟩) ∧
      σ1.new_infecteds = new ∧ new.Nodup ∧ (∀ x, σ1.susceptible x = (σ.susceptible x && !new.contains x)) ∧
      σ1.nS = σ.nS - (new.length : Int) ∧ CFrame σ σ1 ∧
      ∃ used, rs = used ++ rs1 ∧
        (new, pathWeight (fun r => decide (r < A0.p)) A0.p used) ∈
          ReedFrost.stepDist A0.p A0.nbrs (A0.iter σ.infecteds) σ.susceptible A0.full := by
  have h0 : BInv σ.susceptible σ.nS σ { σ with new_infecteds := [], infector := [] } :=
    ⟨⟨List.nodup_nil, by intro x; simp, by simp⟩, by intro x hx; simp at hx, by intro x hx; simp at hx, rfl⟩
  obtain ⟨σ1, tr', h1, h2, h3⟩ := contactLoop_tape (basicArgs A0) rfl σ.susceptible σ.nS σ
    ((basicArgs A0).iter σ.infecteds) { σ with new_infecteds := [], infector := [] } d rs rest tr new rs1 h0 hpath
  refine ⟨σ1, tr', h1, h2, by rw [← h2]; exact h3.c.nodup, by rw [← h2]; exact h3.c.sus, by rw [← h2]; exact h3.c.nS,
    h3.frame, ?_⟩
  exact outerP_support _ A0.p A0.full A0.nbrs σ.susceptible _ [] rs new rs1 hpath

/-- B (basic_discrete_SIS): the contact loop of one generation on a tape of uniforms -/
theorem basic_SIS_contact' (P : DArgs) (σ : SIS.SLoc) (d : DSt) (rs : List Rat) (rest : List Draw) (tr : Array Call)
    (new : List Node) (rs1 : List Rat)
    (hpath : outerP (fun r => decide (r < P.p)) true P.nbrs (fun x => !σ.infecteds.contains x) (P.iter σ.infecteds) [] rs
      = some (new, rs1)) :
    ∃ σ1 tr', SIS.contactLoop P (P.iter σ.infecteds) (SIS.resetNew σ) d
        ⟨rs.map Draw.unif ++ rest, tr⟩ = .ok ((σ1, d), ⟨rs1.map Draw.unif ++ rest, tr'⟩) ∧
      σ1.new_infecteds = new ∧ σ1.infecteds = σ.infecteds ∧
      ∃ used, rs = used ++ rs1 ∧
        (new, pathWeight (fun r => decide (r < P.p)) P.p used) ∈
          ReedFrost.stepDist P.p P.nbrs (P.iter σ.infecteds) (fun x => !σ.infecteds.contains x) true := by
  obtain ⟨σ1, tr', h1, h2, _, h4⟩ := SIS.contactLoop_tape P σ.infecteds (P.iter σ.infecteds) (SIS.resetNew σ) d rs rest
    tr new rs1 (by intro x hx; simp [SIS.resetNew] at hx) rfl hpath
  exact ⟨σ1, tr', h1, h2, h4, outerP_support _ P.p true P.nbrs _ _ [] rs new rs1 hpath⟩


/-! ### `node_history` of one generation (`return_full_data=True`, default recovery rule) -/

theorem alGet_alSet' {κ ν : Type} [DecidableEq κ] (l : List (κ × ν)) (dflt : ν) (k : κ) (v : ν) (x : κ) :
    alGet (alSet l k v) dflt x = if x = k then v else alGet l dflt x := by
  induction l with
  | nil =>
    simp only [alSet, alGet]
    by_cases h : x = k
    · subst h; simp
    · have : ¬ k = x := fun h' => h h'.symm
      simp [h, this]
  | cons q t ih =>
    obtain ⟨k', w⟩ := q
    simp only [alSet]
    by_cases h1 : k' = k
    · subst h1
      simp only [if_true, alGet]
      by_cases h2 : k' = x
      · subst h2; simp
      · have : ¬ x = k' := fun h' => h2 h'.symm
        simp [h2, this]
    · simp only [h1, if_false, alGet, ih]
      by_cases h2 : k' = x
      · subst h2; simp [h1]
      · simp [h2]

theorem alGet_nhMark (tmin time : Rat) (st : St) (nh : PyDM.Hist) (u x : Node) :
    alGet (nhMark tmin time st nh u) ([tmin], [St.S]) x =
      if x = u then ((alGet nh ([tmin], [St.S]) u).1 ++ [time], (alGet nh ([tmin], [St.S]) u).2 ++ [st])
      else alGet nh ([tmin], [St.S]) x := by
  unfold nhMark PyDM.nhApp1 PyDM.nhApp0
  simp only [alGet_alSet']
  by_cases h : x = u
  · subst h; simp
  · simp [h]

theorem alGet_foldl_nhMark (tmin time : Rat) (st : St) :
    ∀ (l : List Node) (nh : PyDM.Hist) (x : Node), l.Nodup →
      alGet (l.foldl (nhMark tmin time st) nh) ([tmin], [St.S]) x =
        if x ∈ l then ((alGet nh ([tmin], [St.S]) x).1 ++ [time], (alGet nh ([tmin], [St.S]) x).2 ++ [st])
        else alGet nh ([tmin], [St.S]) x := by
  intro l
  induction l with
  | nil => intro nh x _; simp
  | cons a l ih =>
    intro nh x hnd
    obtain ⟨ha, hl⟩ := List.nodup_cons.1 hnd
    rw [List.foldl_cons, ih _ x hl, alGet_nhMark]
    by_cases hx : x = a
    · subst hx; simp [ha]
    · by_cases hxl : x ∈ l
      · simp [hx, hxl]
      · simp [hx, hxl]

open Discrete in
/-- **one generation with `return_full_data=True` under the default recovery rule, if it succeeds** -/
theorem gen_full_default (P : DParams) (iter : List Node → List Node) (hiter : ∀ l, (iter l).Perm l)
    (infs : List Node) (orecs : Option (List Node)) (hnd : P.nodes.Nodup)
    (hnb : ∀ u ∈ P.nodes, ∀ v ∈ P.nbrs u, v ∈ P.nodes) (hrec : P.recSteps = none)
    (σ : Loc) (s : DState) (d : DSt) (ts : TapeSt) (σ' : Loc) (d' : DSt) (ts' : TapeSt) (h : Rel P σ s)
    (hage : ∀ u, cnt d u = s.age u)
    (hg : gen (toArgs P iter true infs orecs) σ d ts = .ok ((σ', d'), ts')) :
    Rel P σ' (step P s) ∧ d' = d ∧
    (∃ rows, σ'.transmissions = σ.transmissions ++ rows ∧ (rows.map (·.2.2)).Perm (newInf P s) ∧
      ∀ r ∈ rows, r.1 = s.t.headD P.tmin ∧ ∃ u ∈ s.inf, r.2.1 = some u ∧ r.2.2 ∈ P.nbrs u ∧
        P.rule (s.age u) u r.2.2 = true) ∧
    ∀ x, alGet σ'.node_history ([P.tmin], [St.S]) x =
      if ERat.le (some (s.t.headD P.tmin + 1)) P.tmax then
        if x ∈ newInf P s then
          ((alGet σ.node_history ([P.tmin], [St.S]) x).1 ++ [s.t.headD P.tmin + 1],
           (alGet σ.node_history ([P.tmin], [St.S]) x).2 ++ [St.I])
        else if x ∈ s.inf then
          ((alGet σ.node_history ([P.tmin], [St.S]) x).1 ++ [s.t.headD P.tmin + 1],
           (alGet σ.node_history ([P.tmin], [St.S]) x).2 ++ [St.R])
        else alGet σ.node_history ([P.tmin], [St.S]) x
      else alGet σ.node_history ([P.tmin], [St.S]) x := by
  obtain ⟨hA, _⟩ := toArgs_ok P iter hiter true infs orecs
  obtain ⟨σ2, rows, ts2, hac, htail, htr, hrows, hok, hnt, hnh⟩ := gen_true _ P hA hnb rfl
    (fun d u v => P.rule (cnt d u) u v) (fun _ _ _ => rfl) σ s d ts h (by intro u _ v; rw [hage u]) _ hg
  have hrecA : (toArgs P iter true infs orecs).testRec = none := by simp [toArgs, hrec]
  obtain ⟨σ'', ht, hr, hnh'', htr''⟩ := tail_none (toArgs P iter true infs orecs) P hnd hrecA hrec σ σ2 s h hac
  rw [ht] at htail
  have := tm_pure_inv htail
  simp only [Prod.mk.injEq] at this
  obtain ⟨⟨rfl, rfl⟩, rfl⟩ := this
  have hnewperm : σ2.new_infecteds.Perm (newInf P s) := by
    rw [List.perm_ext_iff_of_nodup hac.nodup (by unfold newInf; exact hnd.filter _)]
    exact hac.mem
  refine ⟨hr, rfl, ⟨rows, by rw [htr'', htr], by rw [hrows]; exact hnewperm, hok⟩, ?_⟩
  intro x
  rw [hnh'', hnh]
  unfold fullHist
  rw [hrecA]
  show alGet (if ERat.le (some σ2.next_time) P.tmax then _ else _) _ x = _
  rw [hnt]
  split
  · show alGet ((iter σ2.new_infecteds).foldl (nhMark P.tmin (s.t.headD P.tmin + 1) St.I)
        ((iter σ2.infecteds).foldl (nhMark P.tmin (s.t.headD P.tmin + 1) St.R) σ.node_history)) ([P.tmin], [St.S]) x = _
    have hn1 : (iter σ2.new_infecteds).Nodup := (hiter _).nodup_iff.2 hac.nodup
    have hn2 : (iter σ2.infecteds).Nodup := by
      rw [hac.infecteds]; exact (hiter _).nodup_iff.2 (h.inf_nodup hnd)
    have hm1 : x ∈ iter σ2.new_infecteds ↔ x ∈ newInf P s := ((hiter _).mem_iff).trans (hac.mem x)
    have hm2 : x ∈ iter σ2.infecteds ↔ x ∈ s.inf := by
      rw [hac.infecteds]; exact ((hiter _).mem_iff).trans h.inf.mem_iff
    rw [alGet_foldl_nhMark _ _ _ _ _ _ hn1, alGet_foldl_nhMark _ _ _ _ _ _ hn2]
    by_cases h1 : x ∈ newInf P s
    · have h2 : x ∉ s.inf := by
        intro hx
        have := h.notsus x hx
        rw [((mem_newInf P s x).1 h1).2.1] at this
        cases this
      simp [hm1, hm2, h1, h2]
    · simp [hm1, hm2, h1]
  · rfl

end GenDiscrete
