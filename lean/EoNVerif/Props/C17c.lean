import EoNVerif.Proofs.GenPerc
import EoNVerif.Props.C17
/-!
C17c — the code GENERATED from EoN's percolation builders and estimators (`Gen/PercGen.lean`, namespace `GenPerc`)
against the hand model of C17 (`Model/Perc.lean`), for every input.

Conventions.
* A run of a generated function is `f … s ts : Except String ((result × PSt) × TapeSt)`: `s : PyPM.PSt` is the script of the
  user time functions (answers left, calls logged), `ts : TapeSt` the random tape (draws left, calls logged).
* The networkx routines are parameters (`X : PyPM.NX`).  Their assumed meaning on a digraph `H` is the predicate
  `NXSpecAt X H` (spelled out in `nxSpec_clauses`; reachability as computed by `Perc.reach`), `NXSpec X` is `NXSpecAt` on
  every well-formed digraph (`HWF`: no node listed twice, edges between listed nodes); `CCSpec` is the analogue for
  `nx.connected_components`.  `nxSpec_satisfiable` / `ccSpec_satisfiable`: the instance the test driver uses (`mkNX`)
  satisfies them, so no theorem below is vacuous.
* Definitions of `Proofs/GenPerc.lean` used in the statements: `CWF C` (contact graph: nodes distinct, neighbours are nodes);
  `RuleGraph C rule na ea H` (spelled out in `ruleGraph_clauses`); positional answers `answers : List (ERat × List ERat)`
  (`answers[i]` = duration of `C.nodes[i]`, delays to its neighbours in order) with `Shape C.nbrs C.nodes answers` (one
  duration per node, one delay per neighbour), `buildL w C answers` (the digraph built from them: `add_node(u)`, then
  `add_edge(u, v)` for the neighbours with `delay ≤ duration`, in order), `durOf` / `delayOf` (the answer at the position of
  a node / of a neighbour), `OkAns rate a` (finite iff `rate > 0`), `drawOf a` / `callOf rate a` (the draw a finite answer
  consumes / the call it logs, nothing for an infinite one); `normSrc` / `normOpt` (normalisation of `initial_infecteds` /
  `initial_recovereds`, see `normalisation`); `usucc edges` (neighbours in the undirected graph of an edge list).
-/
open PyDM PyPM GenPercProofs

namespace C17c

/-! ## 0. the assumed meaning of the networkx routines, and its satisfiability -/

/-- what `NXSpecAt X H` (Proofs/GenPerc.lean) assumes about the networkx parameters on the digraph `H`, spelled out:
iterating over a `set` visits every element once; `nx.descendants(H, u)` / `nx.ancestors(H, u)` list exactly the nodes other
than `u` reachable from / reaching `u` (as computed by the hand model's `Perc.reach`) and raise `NetworkXError` for a node that
is not in `H`; every component yielded by `nx.strongly_connected_components(H)` is a non-empty duplicate-free listing, inside
the node list, of the hand model's `Perc.scc` of each of its members, and every node is in a yielded component.  Nothing is
assumed about the ORDER in which components are yielded or elements are listed. -/
theorem nxSpec_clauses (X : NX) (H : DiG) (h : NXSpecAt X H) :
    (∀ s, (X.iter s).Perm s) ∧
    (∀ u, H.hasNode u = true → ∃ l, X.descendants H u = .ok l ∧
      ∀ v, v ∈ l ↔ (v ≠ u ∧ Perc.reach H.nodeList H.succ u v = true)) ∧
    (∀ u, H.hasNode u = false → X.descendants H u = .error "NetworkXError") ∧
    (∀ u, H.hasNode u = true → ∃ l, X.ancestors H u = .ok l ∧
      ∀ v, v ∈ l ↔ (v ≠ u ∧ Perc.reach H.nodeList H.succ v u = true)) ∧
    (∀ u, H.hasNode u = false → X.ancestors H u = .error "NetworkXError") ∧
    (∀ c ∈ X.sccs H, c ≠ [] ∧ c.Nodup ∧ ∀ u ∈ c, u ∈ H.nodeList ∧ ∀ v, v ∈ c ↔ v ∈ Perc.scc H.nodeList H.succ u) ∧
    (∀ u ∈ H.nodeList, ∃ c ∈ X.sccs H, u ∈ c) :=
  ⟨h.iter, h.desc, h.desc_err, h.anc, h.anc_err, h.scc_mem, h.scc_cover⟩

/-- **non-vacuity of the whole development**: the instance the test driver uses (`mkNX none`, a copy of
`DrvGenPerc.mkNX` of `DriverPerc.lean`: reachability by the fixed-point iteration of `Model/Perc.lean`, components in
first-seen order, sets iterated in insertion order) meets the specification on EVERY well-formed digraph (`HWF`: no node
listed twice, every edge joins listed nodes) — `NXSpec X` is `∀ H, HWF H → NXSpecAt X H` -/
theorem nxSpec_satisfiable : NXSpec (mkNX none) := mkNX_spec'

theorem nxSpecAt_satisfiable (H : DiG) (h : HWF H) : NXSpecAt (mkNX none) H := mkNX_spec H h

/-- every digraph the builders return is well formed, so `NXSpec` covers all the graphs the estimators are run on -/
theorem built_digraphs_wf (w : Bool) (C : Contact) (answers : List (ERat × List ERat)) : HWF (buildL w C answers) :=
  buildL_hwf w C answers

/-! ## 1. `_out_component_` / `_in_component_` -/

/-- **`_out_component_(H, u)`, `u` a node of `H`**: the run succeeds, touches neither the script nor the tape, and returns a
duplicate-free list of exactly the nodes reachable from `u` (so, `H.nodeList` being duplicate free, a permutation of the hand
model's `Perc.outC`). -/
theorem out_component_node (X : NX) (H : DiG) (hX : NXSpecAt X H) (u : Node) (hu : H.hasNode u = true)
    (s : PSt) (ts : TapeSt) :
    ∃ l, GenPerc.out_component X H (Sum.inl u) s ts = .ok ((l, s), ts) ∧ l.Nodup ∧
      (∀ v, v ∈ l ↔ Perc.reach H.nodeList H.succ u v = true) ∧
      (H.nodeList.Nodup → l.Perm (Perc.outC H.nodeList H.succ u)) := by
  obtain ⟨r, hr, hrn, hr'⟩ := outE_node X H hX u hu
  refine ⟨r, by rw [out_component_eq, hr]; rfl, hrn, hr', fun hnd => ?_⟩
  rw [List.perm_ext_iff_of_nodup hrn (by unfold Perc.outC; exact hnd.filter _)]
  intro v; rw [hr', Perc.mem_outC]
  exact ⟨fun h => ⟨reach_mem h, h⟩, fun h => h.2⟩

/-- **`_in_component_(H, u)`, `u` a node of `H`** -/
theorem in_component_node (X : NX) (H : DiG) (hX : NXSpecAt X H) (u : Node) (hu : H.hasNode u = true)
    (s : PSt) (ts : TapeSt) :
    ∃ l, GenPerc.in_component X H (Sum.inl u) s ts = .ok ((l, s), ts) ∧ l.Nodup ∧
      (∀ v, v ∈ l ↔ Perc.reach H.nodeList H.succ v u = true) ∧
      (H.nodeList.Nodup → l.Perm (Perc.inC H.nodeList H.succ u)) := by
  obtain ⟨r, hr, hrn, hr'⟩ := inE_node X H hX u hu
  refine ⟨r, by rw [in_component_eq, hr]; rfl, hrn, hr', fun hnd => ?_⟩
  rw [List.perm_ext_iff_of_nodup hrn (by unfold Perc.inC; exact hnd.filter _)]
  intro v; rw [hr', Perc.mem_inC]
  exact ⟨fun h => ⟨reach_src_mem h, h⟩, fun h => h.2⟩

/-- **`_out_component_(H, l)`, `l` an iterable of nodes of `H`** (duplicates allowed): the union of the out-components -/
theorem out_component_list (X : NX) (H : DiG) (hX : NXSpecAt X H) (l : List Node)
    (hl : ∀ u ∈ l, H.hasNode u = true) (s : PSt) (ts : TapeSt) :
    ∃ r, GenPerc.out_component X H (Sum.inr l) s ts = .ok ((r, s), ts) ∧ r.Nodup ∧
      ∀ v, v ∈ r ↔ ∃ u ∈ l, Perc.reach H.nodeList H.succ u v = true := by
  obtain ⟨r, hr, hrn, hr'⟩ := outE_list X H hX l hl
  exact ⟨r, by rw [out_component_eq, hr]; rfl, hrn, hr'⟩

/-- **`_in_component_(H, l)`, `l` an iterable of nodes of `H`** -/
theorem in_component_list (X : NX) (H : DiG) (hX : NXSpecAt X H) (l : List Node)
    (hl : ∀ u ∈ l, H.hasNode u = true) (s : PSt) (ts : TapeSt) :
    ∃ r, GenPerc.in_component X H (Sum.inr l) s ts = .ok ((r, s), ts) ∧ r.Nodup ∧
      ∀ v, v ∈ r ↔ ∃ u ∈ l, Perc.reach H.nodeList H.succ v u = true := by
  obtain ⟨r, hr, hrn, hr'⟩ := inE_list X H hX l hl
  exact ⟨r, by rw [in_component_eq, hr]; rfl, hrn, hr'⟩

/-- a single node that is not in the graph is taken for an iterable: `TypeError` (whatever the networkx routines do) -/
theorem out_component_absent (X : NX) (H : DiG) (u : Node) (hu : H.hasNode u = false) (s : PSt) (ts : TapeSt) :
    GenPerc.out_component X H (Sum.inl u) s ts = .error "TypeError" := by
  rw [out_component_eq, compE_absent _ _ H u hu]; rfl

theorem in_component_absent (X : NX) (H : DiG) (u : Node) (hu : H.hasNode u = false) (s : PSt) (ts : TapeSt) :
    GenPerc.in_component X H (Sum.inl u) s ts = .error "TypeError" := by
  rw [in_component_eq, compE_absent _ _ H u hu]; rfl

/-- an iterable with a node that is not in the graph: `nx.descendants` raises `NetworkXError` -/
theorem out_component_list_absent (X : NX) (H : DiG) (hX : NXSpecAt X H) (l : List Node)
    (hbad : ∃ u ∈ l, H.hasNode u = false) (s : PSt) (ts : TapeSt) :
    GenPerc.out_component X H (Sum.inr l) s ts = .error "NetworkXError" := by
  rw [out_component_eq, outE_list_err X H hX l hbad]; rfl

theorem in_component_list_absent (X : NX) (H : DiG) (hX : NXSpecAt X H) (l : List Node)
    (hbad : ∃ u ∈ l, H.hasNode u = false) (s : PSt) (ts : TapeSt) :
    GenPerc.in_component X H (Sum.inr l) s ts = .error "NetworkXError" := by
  rw [in_component_eq, inE_list_err X H hX l hbad]; rfl

/-! ## 2. `estimate_SIR_prob_size_from_dir_perc` -/

/-- **the estimator returns one of the hand model's admissible answers**: on a non-empty digraph without repeated nodes the
run succeeds, touches neither the script nor the tape, and returns `(|inC u|/N, |outC u|/N)` for a node `u` of a largest
strongly connected component — a member of `Perc.allowed`. -/
theorem estimate_from_dir_perc_allowed (X : NX) (H : DiG) (hX : NXSpecAt X H) (hnd : H.nodeList.Nodup)
    (hne : H.nodes ≠ []) (s : PSt) (ts : TapeSt) :
    ∃ p, GenPerc.estimate_from_dir_perc X H s ts = .ok ((p, s), ts) ∧ p ∈ Perc.allowed H.nodeList H.succ ∧
      ∃ u ∈ H.nodeList, (Perc.scc H.nodeList H.succ u).length = Perc.maxSccSize H.nodeList H.succ ∧
        p = (((Perc.inC H.nodeList H.succ u).length : Rat) / (H.nodeList.length : Rat),
             ((Perc.outC H.nodeList H.succ u).length : Rat) / (H.nodeList.length : Rat)) := by
  obtain ⟨u, hu, hmax, he⟩ := estE_ok X H hX hnd hne
  refine ⟨_, by rw [estimate_eq, he]; rfl, ?_, u, hu, hmax, rfl⟩
  unfold Perc.allowed
  exact List.mem_map.2 ⟨u, List.mem_filter.2 ⟨hu, by simpa using hmax⟩, rfl⟩

/-- the empty digraph: `max()` of an empty sequence raises `ValueError` -/
theorem estimate_from_dir_perc_empty (X : NX) (H : DiG) (hX : NXSpecAt X H) (h : H.nodes = []) (s : PSt) (ts : TapeSt) :
    GenPerc.estimate_from_dir_perc X H s ts = .error "ValueError" := by
  rw [estimate_eq, estE_empty X H hX h]; rfl

/-- C17 `PE_AR_bounds` transported to the generated code: both outputs are fractions in `(0, 1]` -/
theorem estimate_from_dir_perc_bounds (X : NX) (H : DiG) (hX : NXSpecAt X H) (hH : HWF H) (hne : H.nodes ≠ [])
    (s : PSt) (ts : TapeSt) :
    ∃ p, GenPerc.estimate_from_dir_perc X H s ts = .ok ((p, s), ts) ∧ 0 < p.1 ∧ p.1 ≤ 1 ∧ 0 < p.2 ∧ p.2 ≤ 1 := by
  obtain ⟨p, hp, hal, _⟩ := estimate_from_dir_perc_allowed X H hX hH.nodup hne s ts
  have hne' : H.nodeList ≠ [] := by
    unfold DiG.nodeList; intro h; exact hne (List.map_eq_nil_iff.1 h)
  exact ⟨p, hp, Perc.PE_AR_bounds H.nodeList H.succ hH.wf hne' p hal⟩

/-- C17 `inC_indep` / `outC_indep` transported: the answer is the pair of EVERY node of the strongly connected component the
code picked its representative from — it depends neither on `list(Hscc)[0]` (the set order `X.iter`) nor on the listing
order inside the component. -/
theorem estimate_from_dir_perc_indep (X : NX) (H : DiG) (hX : NXSpecAt X H) (hH : HWF H) (hne : H.nodes ≠ [])
    (s : PSt) (ts : TapeSt) :
    ∃ p u, GenPerc.estimate_from_dir_perc X H s ts = .ok ((p, s), ts) ∧ u ∈ H.nodeList ∧
      (Perc.scc H.nodeList H.succ u).length = Perc.maxSccSize H.nodeList H.succ ∧
      ∀ w ∈ Perc.scc H.nodeList H.succ u,
        p = (((Perc.inC H.nodeList H.succ w).length : Rat) / (H.nodeList.length : Rat),
             ((Perc.outC H.nodeList H.succ w).length : Rat) / (H.nodeList.length : Rat)) := by
  obtain ⟨p, hp, _, u, hu, hmax, hpu⟩ := estimate_from_dir_perc_allowed X H hX hH.nodup hne s ts
  refine ⟨p, u, hp, hu, hmax, fun w hw => ?_⟩
  have hwn : w ∈ H.nodeList := (Perc.mem_scc.1 hw).1
  rw [hpu, Perc.inC_indep _ _ hH.wf u w hu hwn hw, Perc.outC_indep _ _ hH.wf u w hu hwn hw]

/-- when the largest strongly connected component is unique the answer is determined: it is the pair of any node `w` of it,
whatever order networkx yields the components in -/
theorem estimate_from_dir_perc_unique (X : NX) (H : DiG) (hX : NXSpecAt X H) (hH : HWF H) (w : Node)
    (hw : w ∈ H.nodeList)
    (huniq : ∀ u ∈ H.nodeList, (Perc.scc H.nodeList H.succ u).length = Perc.maxSccSize H.nodeList H.succ →
      w ∈ Perc.scc H.nodeList H.succ u) (s : PSt) (ts : TapeSt) :
    GenPerc.estimate_from_dir_perc X H s ts =
      .ok (((((Perc.inC H.nodeList H.succ w).length : Rat) / (H.nodeList.length : Rat),
             ((Perc.outC H.nodeList H.succ w).length : Rat) / (H.nodeList.length : Rat)), s), ts) := by
  have hne : H.nodes ≠ [] := by
    intro h; unfold DiG.nodeList at hw; rw [h] at hw; cases hw
  obtain ⟨p, u, hp, hu, hmax, hall⟩ := estimate_from_dir_perc_indep X H hX hH hne s ts
  rw [hp, hall w (huniq u hu hmax)]

/-! ### non-vacuity: the 3-cycle 0→1→2→0 with the pendant edge 2→3 -/



example : NXSpecAt (mkNX none) exH := mkNX_spec exH exH_wf
example : val (GenPerc.out_component (mkNX none) exH (Sum.inl 1) s0 t0) = .ok [1, 0, 2, 3] := by decide +kernel
example : val (GenPerc.in_component (mkNX none) exH (Sum.inl 3) s0 t0) = .ok [3, 0, 1, 2] := by decide +kernel
example : val (GenPerc.out_component (mkNX none) exH (Sum.inr [3, 3]) s0 t0) = .ok [3] := by decide +kernel
example : val (GenPerc.in_component (mkNX none) exH (Sum.inr [0, 1]) s0 t0) = .ok [0, 1, 2] := by decide +kernel
example : val (GenPerc.out_component (mkNX none) exH (Sum.inl 7) s0 t0) = .error "TypeError" := by decide +kernel
example : val (GenPerc.out_component (mkNX none) exH (Sum.inr [0, 7]) s0 t0) = .error "NetworkXError" := by decide +kernel
example : val (GenPerc.estimate_from_dir_perc (mkNX none) exH s0 t0) = .ok (3 / 4, 1) := by decide +kernel
example : Perc.allowed exH.nodeList exH.succ = [(3 / 4, 1), (3 / 4, 1), (3 / 4, 1)] := by decide +kernel
example : val (GenPerc.estimate_from_dir_perc (mkNX none) DiG.empty s0 t0) = .error "ValueError" := by decide +kernel
example : val (GenPerc.estimate_from_dir_perc (mkNX (some [[0, 1], [2, 3]])) exT s0 t0) = .ok (1 / 2, 1) := by decide +kernel
example : val (GenPerc.estimate_from_dir_perc (mkNX (some [[3, 2], [1, 0]])) exT s0 t0) = .ok (1, 1 / 2) := by decide +kernel
/-! ## 3. the builders with user time functions: `nonMarkov_directed_percolate_network_with_timing`,
`nonMarkov_directed_percolate_network` -/

/-- what `RuleGraph C rule na ea H` (Proofs/GenPerc.lean) says: `H` is the percolated digraph of `rule` on the contact
graph `C` — well formed, no edge stored twice, the nodes of `C` (possibly in another order), an edge `u → v` exactly when
`v` is a neighbour of `u` and `rule u v`, i.e. `H.succ u` is `Perc.percolate C.nbrs rule u` as a set —, with node
attributes `na` and edge attributes `ea` -/
theorem ruleGraph_clauses (C : Contact) (rule : Node → Node → Bool) (na : Node → Option ERat)
    (ea : Node → Node → Option ERat) (H : DiG) (h : RuleGraph C rule na ea H) :
    H.nodeList.Nodup ∧ (∀ e ∈ H.edges, e.1.1 ∈ H.nodeList ∧ e.1.2 ∈ H.nodeList) ∧ (H.edges.map (·.1)).Nodup ∧
    (∀ u, H.hasNode u = true ↔ u ∈ C.nodes) ∧ H.nodeList.Perm C.nodes ∧
    (∀ u v, (u, v) ∈ H.edges.map (·.1) ↔ (u ∈ C.nodes ∧ v ∈ C.nbrs u ∧ rule u v = true)) ∧
    (∀ u v, v ∈ H.succ u ↔ (u ∈ C.nodes ∧ v ∈ Perc.percolate C.nbrs rule u)) ∧
    (∀ p ∈ H.nodes, p.2 = na p.1) ∧ (∀ e ∈ H.edges, e.2 = ea e.1.1 e.1.2) := by
  refine ⟨h.hwf.nodup, h.hwf.edge_mem, h.enodup, h.hasNode, h.perm, fun u v => ?_, h.succ, h.node_attr, h.edge_attr⟩
  rw [← mem_succ, h.succ, Perc.percolated_edge_iff_rule]

/-- **`with_timing` with deterministic time functions** `rec_time_fxn u = dur u`, `trans_time_fxn u v = delay u v` on a
well-formed contact graph: the run succeeds, touches neither script nor tape, and returns the percolated digraph of the rule
`delay u v ≤ dur u`; with `weights` the attributes are `duration = dur u`, `delay_to_infection = delay u v`, without none is
stored.  Reachability in the result is reachability in the hand model's `Perc.percolate`. -/
theorem with_timing_deterministic (X : NX) (C : Contact) (hC : CWF C) (dur : Node → ERat) (delay : Node → Node → ERat)
    (w : Bool) (s : PSt) (ts : TapeSt) :
    ∃ H, GenPerc.with_timing X C (fun u v => pure (delay u v)) (fun u => pure (dur u)) w s ts = .ok ((H, s), ts) ∧
      RuleGraph C (fun u v => ERat.le (delay u v) (dur u)) (fun u => if w then some (dur u) else none)
        (fun u v => if w then some (delay u v) else none) H ∧
      ∀ u v, Perc.reach H.nodeList H.succ u v = true ↔
        Perc.reach C.nodes (Perc.percolate C.nbrs fun u v => ERat.le (delay u v) (dur u)) u v = true := by
  have hg := ruleGraph C hC (fun u v => ERat.le (delay u v) (dur u)) (fun u => attr w (dur u))
    (fun u v => attr w (delay u v))
  exact ⟨_, by rw [with_timing_pure]; rfl, hg, hg.reach_iff hC⟩

/-- **`weights=True` and `weights=False` build the same nodes and edges, for ALL time functions** (scripted, random, …): from
the same script and tape, if one run succeeds so does the other, with the same final script and tape, the same node list and
the same edge list in the same order; the `weights=False` digraph stores no attribute. -/
theorem with_timing_weights (X : NX) (C : Contact) (tt : Node → Node → PM ERat) (rt : Node → PM ERat) (w : Bool)
    (s s' : PSt) (ts ts' : TapeSt) (H : DiG) (h : GenPerc.with_timing X C tt rt w s ts = .ok ((H, s'), ts')) :
    ∃ Ht Hf, GenPerc.with_timing X C tt rt true s ts = .ok ((Ht, s'), ts') ∧
      GenPerc.with_timing X C tt rt false s ts = .ok ((Hf, s'), ts') ∧
      Ht.nodeList = Hf.nodeList ∧ Ht.edges.map (·.1) = Hf.edges.map (·.1) ∧
      (∀ p ∈ Hf.nodes, p.2 = none) ∧ (∀ e ∈ Hf.edges, e.2 = none) := by
  rw [with_timing_eq] at h
  obtain ⟨a, s1, ts1, ha, hp⟩ := pm_bind_inv h
  rw [pure_run] at hp
  injection hp with hp
  have h1 : s1 = s' := congrArg (fun r => r.1.2) hp
  have h2 : ts1 = ts' := congrArg (fun r => r.2) hp
  subst h1; subst h2
  refine ⟨buildL true C a, buildL false C a, by rw [with_timing_eq, pm_bind_ok ha]; rfl,
    by rw [with_timing_eq, pm_bind_ok ha]; rfl, (buildL_keys C a).1, (buildL_keys C a).2,
    (buildL_false_attrs C a).1, (buildL_false_attrs C a).2⟩

/-- **`nonMarkov_directed_percolate_network(G, xi, zeta, transmission)`**: the percolated digraph of the rule
`transmission(xi[u], zeta[v])`, no attributes, script and tape untouched -/
theorem xi_zeta_network_spec (X : NX) (C : Contact) (hC : CWF C) (xi zeta : Node → Rat) (tr : Rat → Rat → Bool)
    (s : PSt) (ts : TapeSt) :
    ∃ H, GenPerc.xi_zeta_network X C xi zeta tr s ts = .ok ((H, s), ts) ∧
      RuleGraph C (fun u v => tr (xi u) (zeta v)) (fun _ => none) (fun _ _ => none) H ∧
      ∀ u v, Perc.reach H.nodeList H.succ u v = true ↔
        Perc.reach C.nodes (Perc.percolate C.nbrs fun u v => tr (xi u) (zeta v)) u v = true := by
  have hg := ruleGraph C hC (fun u v => tr (xi u) (zeta v)) (fun _ => none) (fun _ _ => none)
  exact ⟨_, by rw [xi_zeta_eq]; rfl, hg, hg.reach_iff hC⟩

/-- **`with_timing` with scripted time functions** (`askVal`: each call is logged with its arguments and answered from the
script).  If the script begins with one answer per call — `answers[i] = (duration of nodes[i], delays to its neighbours in
order)`, flattened in call order — the run succeeds, leaves the tape alone, consumes exactly these answers and appends to
the log exactly the calls `rec_time_fxn(u)` (`[1, u]`) followed by `trans_time_fxn(u, v)` (`[0, u, v]`) for the neighbours
`v` of `u` in order, for the nodes `u` in order; the result is a well-formed digraph containing every node of `G`. -/
theorem with_timing_scripted (X : NX) (C : Contact) (w : Bool) (answers : List (ERat × List ERat))
    (hsh : Shape C.nbrs C.nodes answers) (rest : List ERat) (cs : Array (List Nat)) (ts : TapeSt) :
    GenPerc.with_timing X C (fun u v => askVal [0, u, v]) (fun u => askVal [1, u]) w
        ⟨answers.flatMap (fun a => a.1 :: a.2) ++ rest, cs⟩ ts =
      .ok ((buildL w C answers,
        ⟨rest, cs ++ C.nodes.flatMap (fun u => [1, u] :: (C.nbrs u).map (fun v => [0, u, v]))⟩), ts) ∧
    HWF (buildL w C answers) ∧ ∀ u ∈ C.nodes, (buildL w C answers).hasNode u = true :=
  ⟨with_timing_script X C w answers hsh rest cs ts, buildL_hwf w C answers,
    fun u hu => (hasNode_iff _ u).2 (buildL_mem w C answers hsh u hu)⟩

/-- the digraph `buildL w C answers` of positional answers (scripted or drawn) on a simple contact graph (distinct nodes,
distinct neighbours): the answers are functions `durOf` / `delayOf` of the node / the ordered pair, and the digraph is the
percolated digraph of `delayOf u v ≤ durOf u` with these attributes — the description of `with_timing_deterministic` -/
theorem positional_digraph (C : Contact) (hC : CWF C) (hnb : ∀ u ∈ C.nodes, (C.nbrs u).Nodup) (w : Bool)
    (answers : List (ERat × List ERat)) (hsh : Shape C.nbrs C.nodes answers) :
    answers = C.nodes.map (fun u => (durOf C answers u, (C.nbrs u).map (delayOf C answers u))) ∧
    RuleGraph C (fun u v => ERat.le (delayOf C answers u v) (durOf C answers u))
      (fun u => if w then some (durOf C answers u) else none)
      (fun u v => if w then some (delayOf C answers u v) else none) (buildL w C answers) ∧
    ∀ u v, Perc.reach (buildL w C answers).nodeList (buildL w C answers).succ u v = true ↔
      Perc.reach C.nodes (Perc.percolate C.nbrs fun u v => ERat.le (delayOf C answers u v) (durOf C answers u)) u v = true :=
  ⟨answers_eq_fun C hC.nodup hnb answers hsh, buildL_ruleGraph C hC hnb w answers hsh,
    (buildL_ruleGraph C hC hnb w answers hsh).reach_iff hC⟩

/-- a script with at least as many answers as there are calls splits into `answers` and a rest, so `with_timing_scripted`
applies: the run succeeds and the final log is the initial one followed by all the calls in order -/
theorem with_timing_scripted_long (X : NX) (C : Contact) (w : Bool) (s : PSt) (ts : TapeSt)
    (hlen : (C.nodes.flatMap (fun u => [1, u] :: (C.nbrs u).map (fun v => [0, u, v]))).length ≤ s.vals.length) :
    ∃ H s', GenPerc.with_timing X C (fun u v => askVal [0, u, v]) (fun u => askVal [1, u]) w s ts = .ok ((H, s'), ts) ∧
      s'.calls = s.calls ++ C.nodes.flatMap (fun u => [1, u] :: (C.nbrs u).map (fun v => [0, u, v])) ∧
      s'.vals = s.vals.drop (C.nodes.flatMap (fun u => [1, u] :: (C.nbrs u).map (fun v => [0, u, v]))).length := by
  obtain ⟨answers, rest, hsh, hv⟩ := exists_answers C.nbrs C.nodes s.vals hlen
  have h := with_timing_script X C w answers hsh rest s.calls ts
  have hs : s = ⟨flatAns answers ++ rest, s.calls⟩ := by cases s; simp only at hv; rw [hv]
  refine ⟨_, _, by rw [hs]; exact h, rfl, ?_⟩
  have hl := flatAns_length C.nbrs C.nodes answers hsh
  show rest = _
  rw [hv]
  have : (C.nodes.flatMap (fun u => [1, u] :: (C.nbrs u).map (fun v => [0, u, v]))).length = (flatAns answers).length :=
    hl.symm
  rw [this, List.drop_left]

/-! ### non-vacuity: the contact graph 0–1, 1–2, 2–0, 2–3 -/





example : valN exRunT = .ok [(0, some (some 2)), (1, some (some 2)), (2, some (some 2)), (3, some (some 2))] ∧
    valE exRunT = .ok [((0, 1), some (some 1)), ((1, 2), some (some 1)), ((2, 0), some (some 1)), ((2, 3), some (some 1))] := by
  decide +kernel
example : valN exRunF = .ok [(0, none), (1, none), (2, none), (3, none)] ∧
    valE exRunF = .ok [((0, 1), none), ((1, 2), none), ((2, 0), none), ((2, 3), none)] := by
  decide +kernel
example : valN exRunX = .ok [(0, none), (1, none), (2, none), (3, none)] ∧
    valE exRunX = .ok [((1, 2), none), ((2, 1), none), ((2, 3), none), ((3, 2), none)] := by
  decide +kernel
/-- scripted: twelve calls, the thirteenth answer stays in the script -/
example : (GenPerc.with_timing (mkNX none) exC (fun u v => askVal [0, u, v]) (fun u => askVal [1, u]) false
      ⟨[some 2, some 1, some 3, some 2, some 3, some 1, some 2, some 3, some 1, some 1, some 2, some 3, none], #[]⟩ t0).map
      (fun x => (x.1.1.edges.map (·.1), x.1.2.calls.toList, x.1.2.vals)) =
    .ok ([(0, 1), (1, 2), (2, 0), (2, 3)],
      [[1, 0], [0, 0, 1], [0, 0, 2], [1, 1], [0, 1, 0], [0, 1, 2], [1, 2], [0, 2, 1], [0, 2, 0], [0, 2, 3], [1, 3], [0, 3, 2]],
      [none]) := by
  decide +kernel
example : valN (GenPerc.with_timing (mkNX none) exC (fun u v => askVal [0, u, v]) (fun u => askVal [1, u]) false
      ⟨[some 2, some 1], #[]⟩ t0) = .error "answers-exhausted" := by
  decide +kernel
/-! ## 4. `directed_percolate_network` -/

/-- **by unfolding**, `directed_percolate_network(G, tau, gamma, weights)` is `…_with_timing` with the two closures:
`random.expovariate(rate)` when `rate > 0`, `float('Inf')` otherwise -/
theorem directed_percolate_network_unfold (X : NX) (C : Contact) (tau gamma : Rat) (w : Bool) :
    GenPerc.directed_percolate_network X C tau gamma w =
      GenPerc.with_timing X C
        (fun _ _ => if decide (tau > (0 : Rat)) then expo tau else pure (none : ERat))
        (fun _ => if decide (gamma > (0 : Rat)) then expo gamma else pure (none : ERat)) w :=
  directed_eq X C tau gamma w

/-- **`directed_percolate_network` on a tape, all cases**.  `answers[i] = (duration of nodes[i], delays to its neighbours)`
are admissible (`OkAns`): finite exactly when the rate is positive.  On the tape of the finite answers in call order the
run succeeds, leaves the script alone, consumes exactly these draws, logs one `expovariate(gamma)` per finite duration and
one `expovariate(tau)` per finite delay, in order, and returns the digraph built from the answers (`buildL`: `u → v` kept iff
`delay ≤ duration`, see `positional_digraph`). -/
theorem directed_percolate_network_tape (X : NX) (C : Contact) (tau gamma : Rat) (w : Bool)
    (answers : List (ERat × List ERat)) (hsh : Shape C.nbrs C.nodes answers)
    (hok : ∀ a ∈ answers, OkAns gamma a.1 ∧ ∀ t ∈ a.2, OkAns tau t) (s : PSt) (rest : List Draw) (tr : Array Call) :
    GenPerc.directed_percolate_network X C tau gamma w s
        ⟨answers.flatMap (fun a => drawOf a.1 ++ a.2.flatMap drawOf) ++ rest, tr⟩ =
      .ok ((buildL w C answers, s),
        ⟨rest, tr ++ answers.flatMap (fun a => callOf gamma a.1 ++ a.2.flatMap (callOf tau))⟩) ∧
    HWF (buildL w C answers) ∧ ∀ u ∈ C.nodes, (buildL w C answers).hasNode u = true :=
  ⟨directed_tape X C tau gamma w answers hsh hok s rest tr, buildL_hwf w C answers,
    fun u hu => (hasNode_iff _ u).2 (buildL_mem w C answers hsh u hu)⟩

/-- **both rates positive**: per node `u` in order one `Draw.expo` (the duration, rate `gamma`) and one per neighbour (the
delays, rate `tau`) -/
theorem directed_percolate_network_tape_pos (X : NX) (C : Contact) (tau gamma : Rat) (ht : 0 < tau) (hg : 0 < gamma)
    (w : Bool) (drawn : List (Rat × List Rat))
    (hsh : List.Forall₂ (fun u a => a.2.length = (C.nbrs u).length) C.nodes drawn)
    (s : PSt) (rest : List Draw) (tr : Array Call) :
    GenPerc.directed_percolate_network X C tau gamma w s
        ⟨drawn.flatMap (fun a => Draw.expo a.1 :: a.2.map Draw.expo) ++ rest, tr⟩ =
      .ok ((buildL w C (drawn.map fun a => (some a.1, a.2.map some)), s),
        ⟨rest, tr ++ drawn.flatMap (fun a => Call.expo gamma :: a.2.map (fun _ => Call.expo tau))⟩) := by
  have h := directed_tape X C tau gamma w (drawnAns drawn) (drawn_shape C.nbrs C.nodes drawn hsh)
    (drawn_ok ht hg drawn) s rest tr
  rw [tapeOf_drawn, traceOf_drawn] at h
  exact h

/-- **`gamma ≤ 0`**: nothing is drawn for the durations, they are infinite, so every neighbour whose delay was drawn is kept;
**`tau ≤ 0`** as well: nothing is drawn at all and every contact edge is kept (infinite delay ≤ infinite duration) -/
theorem directed_percolate_network_no_rates (X : NX) (C : Contact) (tau gamma : Rat) (ht : ¬ 0 < tau) (hg : ¬ 0 < gamma)
    (hC : CWF C) (w : Bool) (s : PSt) (ts : TapeSt) :
    ∃ H, GenPerc.directed_percolate_network X C tau gamma w s ts = .ok ((H, s), ts) ∧
      RuleGraph C (fun _ _ => true) (fun _ => if w then some none else none) (fun _ _ => if w then some none else none) H := by
  have h : GenPerc.directed_percolate_network X C tau gamma w =
      GenPerc.with_timing X C (fun _ _ => pure none) (fun _ => pure none) w := by
    rw [directed_eq]
    unfold drawE
    rw [decide_eq_false ht, decide_eq_false hg]
    rfl
  have hg' := ruleGraph C hC (fun _ _ => ERat.le none none) (fun _ => attr w none) (fun _ _ => attr w none)
  exact ⟨_, by rw [h, with_timing_pure]; rfl, hg'⟩

/-! a tape for the contact graph `exC`, `tau = 1`, `gamma = 1/2`: durations 2, delays as in `exDelay` -/
example : valN exRunD = .ok [(0, some (some 2)), (1, some (some 2)), (2, some (some 2)), (3, some (some 2))] ∧
    valE exRunD = .ok [((0, 1), some (some 1)), ((1, 2), some (some 1)), ((2, 0), some (some 1)), ((2, 3), some (some 1))] ∧
    exRunD.map (fun x => (x.2.tape, x.2.trace.toList)) = .ok ([.unif 0],
      [.expo (1/2), .expo 1, .expo 1, .expo (1/2), .expo 1, .expo 1, .expo (1/2), .expo 1, .expo 1, .expo 1, .expo (1/2), .expo 1]) := by
  decide +kernel
/-- `gamma = 0`: no duration is drawn, every neighbour is kept -/
example : (GenPerc.directed_percolate_network (mkNX none) exC 1 0 false s0 ⟨exTape, #[]⟩).map
      (fun x => (x.1.1.edges.map (·.1), x.2.tape.length, x.2.trace.toList)) =
    .ok ([(0, 1), (0, 2), (1, 0), (1, 2), (2, 1), (2, 0), (2, 3), (3, 2)], 5,
      [.expo 1, .expo 1, .expo 1, .expo 1, .expo 1, .expo 1, .expo 1, .expo 1]) := by
  decide +kernel
example : valN (GenPerc.directed_percolate_network (mkNX none) exC 1 1 true s0 ⟨[.expo 2, .unif 0], #[]⟩) =
    .error "tape-kind-mismatch:expo" := by decide +kernel

/-! ## 5. the estimators = builder, then `estimate_SIR_prob_size_from_dir_perc` -/

/-- **by unfolding** -/
theorem estimate_with_timing_unfold (X : NX) (C : Contact) (tt : Node → Node → PM ERat) (rt : Node → PM ERat) :
    GenPerc.estimate_with_timing X C tt rt =
      GenPerc.with_timing X C tt rt true >>= fun H => GenPerc.estimate_from_dir_perc X H :=
  estimate_with_timing_eq X C tt rt

theorem estimate_xi_zeta_unfold (X : NX) (C : Contact) (xi zeta : Node → Rat) (tr : Rat → Rat → Bool) :
    GenPerc.estimate_xi_zeta X C xi zeta tr =
      GenPerc.xi_zeta_network X C xi zeta tr >>= fun H => GenPerc.estimate_from_dir_perc X H :=
  estimate_xi_zeta_eq X C xi zeta tr

theorem estimate_directed_SIR_prob_size_unfold (X : NX) (C : Contact) (tau gamma : Rat) :
    GenPerc.estimate_directed_SIR_prob_size X C tau gamma =
      GenPerc.directed_percolate_network X C tau gamma true >>= fun H => GenPerc.estimate_from_dir_perc X H :=
  estimate_directed_eq X C tau gamma

/-- **whatever the builder did**: if the builder part of a run returns `H` (well formed, non-empty) the estimator returns a
member of `Perc.allowed` of `H`, with the script and tape the builder left -/
theorem estimate_after_builder (X : NX) (b : PM DiG) (s s' : PSt) (ts ts' : TapeSt) (H : DiG)
    (hb : b s ts = .ok ((H, s'), ts')) (hX : NXSpecAt X H) (hH : HWF H) (hne : H.nodes ≠ []) :
    ∃ p, (b >>= fun H => GenPerc.estimate_from_dir_perc X H) s ts = .ok ((p, s'), ts') ∧
      p ∈ Perc.allowed H.nodeList H.succ ∧ 0 < p.1 ∧ p.1 ≤ 1 ∧ 0 < p.2 ∧ p.2 ≤ 1 := by
  obtain ⟨p, hp, hal⟩ := est_after hb hX hH.nodup hne
  have hne' : H.nodeList ≠ [] := by
    unfold DiG.nodeList; intro h; exact hne (List.map_eq_nil_iff.1 h)
  exact ⟨p, hp, hal, Perc.PE_AR_bounds H.nodeList H.succ hH.wf hne' p hal⟩

/-- **`estimate_nonMarkov_SIR_prob_size(G, xi, zeta, transmission)`** on a well-formed non-empty contact graph: succeeds,
script and tape untouched, and the answer is one of the hand model's admissible answers for the percolated graph
`Perc.percolate G.nbrs rule` ON THE CONTACT GRAPH'S OWN NODE LIST — C17's `allowed`, with its bounds -/
theorem estimate_xi_zeta_allowed (X : NX) (hX : NXSpec X) (C : Contact) (hC : CWF C) (hne : C.nodes ≠ [])
    (xi zeta : Node → Rat) (tr : Rat → Rat → Bool) (s : PSt) (ts : TapeSt) :
    ∃ p, GenPerc.estimate_xi_zeta X C xi zeta tr s ts = .ok ((p, s), ts) ∧
      p ∈ Perc.allowed C.nodes (Perc.percolate C.nbrs fun u v => tr (xi u) (zeta v)) ∧
      0 < p.1 ∧ p.1 ≤ 1 ∧ 0 < p.2 ∧ p.2 ≤ 1 := by
  obtain ⟨H, hH, hg, _⟩ := xi_zeta_network_spec X C hC xi zeta tr s ts
  obtain ⟨p, hp, hal⟩ := est_rule hX hC hne hH hg
  exact ⟨p, by rw [estimate_xi_zeta_eq]; exact hp, hal, Perc.PE_AR_bounds _ _ (hC.wf_percolate _) hne p hal⟩

theorem estimate_xi_zeta_empty (X : NX) (hX : NXSpec X) (C : Contact) (hne : C.nodes = [])
    (xi zeta : Node → Rat) (tr : Rat → Rat → Bool) (s : PSt) (ts : TapeSt) :
    GenPerc.estimate_xi_zeta X C xi zeta tr s ts = .error "ValueError" := by
  have hC : CWF C := ⟨by rw [hne]; exact List.nodup_nil, by rw [hne]; intro u hu; cases hu⟩
  obtain ⟨H, hH, hg, _⟩ := xi_zeta_network_spec X C hC xi zeta tr s ts
  rw [estimate_xi_zeta_eq]
  exact est_rule_empty hX hne hH hg

/-- **`estimate_nonMarkov_SIR_prob_size_with_timing`** with deterministic time functions -/
theorem estimate_with_timing_deterministic (X : NX) (hX : NXSpec X) (C : Contact) (hC : CWF C) (hne : C.nodes ≠ [])
    (dur : Node → ERat) (delay : Node → Node → ERat) (s : PSt) (ts : TapeSt) :
    ∃ p, GenPerc.estimate_with_timing X C (fun u v => pure (delay u v)) (fun u => pure (dur u)) s ts = .ok ((p, s), ts) ∧
      p ∈ Perc.allowed C.nodes (Perc.percolate C.nbrs fun u v => ERat.le (delay u v) (dur u)) ∧
      0 < p.1 ∧ p.1 ≤ 1 ∧ 0 < p.2 ∧ p.2 ≤ 1 := by
  obtain ⟨H, hH, hg, _⟩ := with_timing_deterministic X C hC dur delay true s ts
  obtain ⟨p, hp, hal⟩ := est_rule hX hC hne hH hg
  exact ⟨p, by rw [estimate_with_timing_eq]; exact hp, hal, Perc.PE_AR_bounds _ _ (hC.wf_percolate _) hne p hal⟩

/-- **`estimate_nonMarkov_SIR_prob_size_with_timing`** with scripted time functions on a simple contact graph: consumes the
answers, logs the calls, and returns an admissible answer for the percolated graph of `delayOf u v ≤ durOf u` -/
theorem estimate_with_timing_scripted (X : NX) (hX : NXSpec X) (C : Contact) (hC : CWF C) (hne : C.nodes ≠ [])
    (hnb : ∀ u ∈ C.nodes, (C.nbrs u).Nodup) (answers : List (ERat × List ERat)) (hsh : Shape C.nbrs C.nodes answers)
    (rest : List ERat) (cs : Array (List Nat)) (ts : TapeSt) :
    ∃ p, GenPerc.estimate_with_timing X C (fun u v => askVal [0, u, v]) (fun u => askVal [1, u])
        ⟨answers.flatMap (fun a => a.1 :: a.2) ++ rest, cs⟩ ts =
      .ok ((p, ⟨rest, cs ++ C.nodes.flatMap (fun u => [1, u] :: (C.nbrs u).map (fun v => [0, u, v]))⟩), ts) ∧
      p ∈ Perc.allowed C.nodes (Perc.percolate C.nbrs fun u v => ERat.le (delayOf C answers u v) (durOf C answers u)) ∧
      0 < p.1 ∧ p.1 ≤ 1 ∧ 0 < p.2 ∧ p.2 ≤ 1 := by
  have hH := with_timing_script X C true answers hsh rest cs ts
  obtain ⟨p, hp, hal⟩ := est_rule hX hC hne hH (buildL_ruleGraph C hC hnb true answers hsh)
  exact ⟨p, by rw [estimate_with_timing_eq]; exact hp, hal, Perc.PE_AR_bounds _ _ (hC.wf_percolate _) hne p hal⟩

/-- **`estimate_directed_SIR_prob_size(G, tau, gamma)`** on a tape, simple contact graph: consumes the draws of
`directed_percolate_network_tape` and returns an admissible answer for the percolated graph of the drawn times -/
theorem estimate_directed_SIR_prob_size_tape (X : NX) (hX : NXSpec X) (C : Contact) (hC : CWF C) (hne : C.nodes ≠ [])
    (hnb : ∀ u ∈ C.nodes, (C.nbrs u).Nodup) (tau gamma : Rat) (answers : List (ERat × List ERat))
    (hsh : Shape C.nbrs C.nodes answers) (hok : ∀ a ∈ answers, OkAns gamma a.1 ∧ ∀ t ∈ a.2, OkAns tau t)
    (s : PSt) (rest : List Draw) (tr : Array Call) :
    ∃ p, GenPerc.estimate_directed_SIR_prob_size X C tau gamma s
        ⟨answers.flatMap (fun a => drawOf a.1 ++ a.2.flatMap drawOf) ++ rest, tr⟩ =
      .ok ((p, s), ⟨rest, tr ++ answers.flatMap (fun a => callOf gamma a.1 ++ a.2.flatMap (callOf tau))⟩) ∧
      p ∈ Perc.allowed C.nodes (Perc.percolate C.nbrs fun u v => ERat.le (delayOf C answers u v) (durOf C answers u)) ∧
      0 < p.1 ∧ p.1 ≤ 1 ∧ 0 < p.2 ∧ p.2 ≤ 1 := by
  have hH := directed_tape X C tau gamma true answers hsh hok s rest tr
  obtain ⟨p, hp, hal⟩ := est_rule hX hC hne hH (buildL_ruleGraph C hC hnb true answers hsh)
  exact ⟨p, by rw [estimate_directed_eq]; exact hp, hal, Perc.PE_AR_bounds _ _ (hC.wf_percolate _) hne p hal⟩

/-- without the simplicity hypothesis: an admissible answer for the built digraph itself -/
theorem estimate_directed_SIR_prob_size_tape_general (X : NX) (hX : NXSpec X) (C : Contact) (hne : C.nodes ≠ [])
    (tau gamma : Rat) (answers : List (ERat × List ERat))
    (hsh : Shape C.nbrs C.nodes answers) (hok : ∀ a ∈ answers, OkAns gamma a.1 ∧ ∀ t ∈ a.2, OkAns tau t)
    (s : PSt) (rest : List Draw) (tr : Array Call) :
    ∃ p, GenPerc.estimate_directed_SIR_prob_size X C tau gamma s
        ⟨answers.flatMap (fun a => drawOf a.1 ++ a.2.flatMap drawOf) ++ rest, tr⟩ =
      .ok ((p, s), ⟨rest, tr ++ answers.flatMap (fun a => callOf gamma a.1 ++ a.2.flatMap (callOf tau))⟩) ∧
      p ∈ Perc.allowed (buildL true C answers).nodeList (buildL true C answers).succ ∧
      0 < p.1 ∧ p.1 ≤ 1 ∧ 0 < p.2 ∧ p.2 ≤ 1 := by
  have hH := directed_tape X C tau gamma true answers hsh hok s rest tr
  have hwf := buildL_hwf true C answers
  obtain ⟨p, hp, hrest⟩ := estimate_after_builder X _ _ _ _ _ _ hH (hX _ hwf) hwf (buildL_nodes_ne true C answers hsh hne)
  exact ⟨p, by rw [estimate_directed_eq]; exact hp, hrest⟩

example : val (GenPerc.estimate_xi_zeta (mkNX none) exC (fun u => u) (fun v => v) (fun x z => decide (x + z ≥ 3)) s0 t0) =
    .ok (3 / 4, 3 / 4) := by decide +kernel
example : val (GenPerc.estimate_directed_SIR_prob_size (mkNX none) exC 1 (1/2) s0 ⟨exTape, #[]⟩) = .ok (3 / 4, 1) := by
  decide +kernel
example : val (GenPerc.estimate_with_timing (mkNX none) exC (fun u v => askVal [0, u, v]) (fun u => askVal [1, u])
      ⟨[some 2, some 1, some 3, some 2, some 3, some 1, some 2, some 3, some 1, some 1, some 2, some 3], #[]⟩ t0) =
    .ok (3 / 4, 1) := by decide +kernel
example : val (GenPerc.estimate_xi_zeta (mkNX none) { nodes := [], nbrs := fun _ => [], edges := [] } (fun u => u) (fun v => v)
    (fun _ _ => true) s0 t0) = .error "ValueError" := by decide +kernel

/-! ### `estimate_SIR_prob_size` (bond percolation) -/

/-- **`estimate_SIR_prob_size(G, p)`** on a tape with one uniform per contact edge (`rs`): `percolate_network` keeps the
edges whose draw is `< p` (`GenDiscrete.keptBy`, see `C12c.percolate_network_tape`), and — `nx.connected_components`
meaning what `CCSpec` says on the kept-edge graph — both outputs are
`(size of the largest connected component of the kept-edge graph) / N`, where the size is `maxCC`: the largest
`|Perc.outC|` over the nodes, for the symmetric neighbour function `usucc` of the kept edges.  The script is untouched,
exactly the `|E|` uniforms are consumed and logged. -/
theorem estimate_SIR_prob_size_tape (X : NX) (C : Contact) (p : Rat) (rs : List Rat) (hl : rs.length = C.edges.length)
    (hX : CCSpec X C.nodes (GenDiscrete.keptBy p C.edges rs)) (hnd : C.nodes.Nodup) (hne : C.nodes ≠ [])
    (s : PSt) (rest : List Draw) (tr : Array Call) :
    ∃ x : Rat, x = ((C.nodes.map fun u => (Perc.outC C.nodes (usucc (GenDiscrete.keptBy p C.edges rs)) u).length).foldl max 0 : Nat)
        / (C.nodes.length : Rat) ∧
      GenDiscrete.keptBy p C.edges rs = ((C.edges.zip rs).filter fun e => decide (e.2 < p)).map (·.1) ∧
      GenPerc.estimate_SIR_prob_size X C p s ⟨rs.map Draw.unif ++ rest, tr⟩ =
        .ok (((x, x), s), ⟨rest, tr ++ List.replicate C.edges.length Call.unif⟩) :=
  ⟨_, rfl, GenDiscrete.keptBy_eq_zip p C.edges rs, estimate_SIR_run X C p rs hl hX hnd hne s rest tr⟩

/-- the empty graph: `max()` of an empty sequence raises `ValueError` -/
theorem estimate_SIR_prob_size_empty (X : NX) (C : Contact) (p : Rat) (rs : List Rat) (hl : rs.length = C.edges.length)
    (hX : CCSpec X C.nodes (GenDiscrete.keptBy p C.edges rs)) (hne : C.nodes = [])
    (s : PSt) (rest : List Draw) (tr : Array Call) :
    GenPerc.estimate_SIR_prob_size X C p s ⟨rs.map Draw.unif ++ rest, tr⟩ = .error "ValueError" :=
  estimate_SIR_empty X C p rs hl hX hne s rest tr

/-- `CCSpec` is satisfiable: the driver's instance meets it on every graph with distinct nodes and edges between nodes -/
theorem ccSpec_satisfiable (nodes : List Node) (edges : List (Node × Node)) (hnd : nodes.Nodup)
    (he : ∀ e ∈ edges, e.1 ∈ nodes ∧ e.2 ∈ nodes) : CCSpec (mkNX none) nodes edges :=
  mkNX_ccs_spec none nodes edges hnd he

/-- `p = 1/2`, draws 1/4, 3/4, 3/4, 1/4 on the edges 0–1, 0–2, 1–2, 2–3: the edges 0–1 and 2–3 are kept -/
example : val (GenPerc.estimate_SIR_prob_size (mkNX none) exC (1/2) s0 ⟨[.unif (1/4), .unif (3/4), .unif (3/4), .unif (1/4)], #[]⟩) =
    .ok (1 / 2, 1 / 2) := by decide +kernel
example : CCSpec (mkNX none) exC.nodes (GenDiscrete.keptBy (1/2) exC.edges [1/4, 3/4, 3/4, 1/4]) :=
  mkNX_ccs_spec none _ _ (by decide) (by decide +kernel)
example : val (GenPerc.estimate_SIR_prob_size (mkNX none) { nodes := [], nbrs := fun _ => [], edges := [] } (1/2) s0 t0) =
    .error "ValueError" := by decide +kernel

/-! ## 6. `get_infected_nodes` -/

/-- **normalisation of the two optional arguments** (`normSrc`: a node of `G` becomes `{node}`, an iterable `set(iterable)`,
a single value that is not a node of `G` is handed to `set()` and raises `TypeError`; `initial_recovereds=None` is the empty
set): what `normSrc` / `normOpt` compute -/
theorem normalisation (C : Contact) :
    (∀ u, C.nodes.contains u = true → normSrc C (Sum.inl u) = .ok [u]) ∧
    (∀ u, C.nodes.contains u = false → normSrc C (Sum.inl u) = .error "TypeError") ∧
    (∀ l, normSrc C (Sum.inr l) = .ok (PyDM.setOf l)) ∧
    normOpt C none = .ok [] ∧ (∀ x, normOpt C (some x) = normSrc C x) := by
  refine ⟨fun u h => ?_, fun u h => ?_, fun l => rfl, rfl, fun x => rfl⟩
  · show (if C.nodes.contains u then _ else _) = _
    rw [h]; rfl
  · show (if C.nodes.contains u then _ else _) = _
    rw [h]; rfl

/-- **by unfolding**: with `initial_infecteds` given, the run normalises `initial_recovereds`, then `initial_infecteds`,
raises `EoNError` if the two sets intersect, and otherwise builds the percolated digraph (`directed_percolate_network`
with `weights=True`), removes the recovered nodes and returns the out-component of the infected set -/
theorem get_infected_nodes_unfold (X : NX) (C : Contact) (tau gamma : Rat) (i : Src) (o : Option Src) :
    GenPerc.get_infected_nodes X C tau gamma (some i) o = (do
      let recs ← PyPM.liftE (normOpt C o)
      let infs ← PyPM.liftE (normSrc C i)
      if (!(inter infs recs).isEmpty) then PyPM.fail "EoNError" else do
        let H ← GenPerc.directed_percolate_network X C tau gamma true
        let H ← (X.iter recs).foldlM (fun acc node => PyPM.liftE (acc.removeNode node)) H
        GenPerc.out_component X H (Sum.inr infs)) :=
  get_infected_given X C tau gamma i o

/-- the default `initial_infecteds=None`: a node drawn by `random.choice(G.nodes())` until it is not initially recovered -/
theorem get_infected_nodes_unfold_default (X : NX) (C : Contact) (tau gamma : Rat) (o : Option Src) :
    GenPerc.get_infected_nodes X C tau gamma none o = (do
      let recs ← PyPM.liftE (normOpt C o)
      let node ← GenPerc.get_infected_nodes.draw_node C recs 10000
      if (!(inter [node] recs).isEmpty) then PyPM.fail "EoNError" else do
        let H ← GenPerc.directed_percolate_network X C tau gamma true
        let H ← (X.iter recs).foldlM (fun acc node => PyPM.liftE (acc.removeNode node)) H
        GenPerc.out_component X H (Sum.inr [node])) :=
  get_infected_default X C tau gamma o

/-- an error of the normalisation (by `normalisation`: `TypeError`, a single value that is not a node of `G`) is the error of
the run, whatever script and tape; `initial_recovereds` is normalised first -/
theorem get_infected_nodes_type_error (X : NX) (C : Contact) (tau gamma : Rat) (i : Src) (o : Option Src) (e : String)
    (h : normOpt C o = .error e ∨ ((∃ recs, normOpt C o = .ok recs) ∧ normSrc C i = .error e))
    (s : PSt) (ts : TapeSt) :
    GenPerc.get_infected_nodes X C tau gamma (some i) o s ts = .error e := by
  rw [get_infected_given]
  rcases h with he | ⟨⟨recs, hr⟩, he⟩
  · rw [he]; rfl
  · rw [hr, he]; rfl

/-- **`EoNError`**: the normalised sets intersect — whatever script and tape -/
theorem get_infected_nodes_overlap (X : NX) (C : Contact) (tau gamma : Rat) (i : Src) (o : Option Src)
    (infs recs : List Node) (hi : normSrc C i = .ok infs) (hr : normOpt C o = .ok recs) (h : ∃ u ∈ infs, u ∈ recs)
    (s : PSt) (ts : TapeSt) :
    GenPerc.get_infected_nodes X C tau gamma (some i) o s ts = .error "EoNError" := by
  rw [get_infected_given, hi, hr]
  simp only [liftE_ok, pure_bind]
  rw [infectedBody_overlap X C tau gamma infs recs h]; rfl

/-- **the infected set**.  `initial_infecteds` given; the normalised sets `infs`, `recs` are disjoint sets of nodes of `G`;
the tape carries the draws of `directed_percolate_network` (`answers`, as in `directed_percolate_network_tape`).  Then the
run succeeds, leaves the script alone, consumes and logs exactly those draws, and returns a duplicate-free list of exactly
the nodes reachable from `infs` in the percolated digraph along paths that avoid `recs` (`succAvoid`: the successors not in
`recs`). -/
theorem get_infected_nodes_run (X : NX) (hX : NXSpec X) (C : Contact) (tau gamma : Rat) (i : Src) (o : Option Src)
    (infs recs : List Node) (hi : normSrc C i = .ok infs) (hr : normOpt C o = .ok recs)
    (hdisj : ∀ u ∈ infs, u ∉ recs) (hrc : ∀ u ∈ recs, u ∈ C.nodes) (hic : ∀ u ∈ infs, u ∈ C.nodes)
    (answers : List (ERat × List ERat)) (hsh : Shape C.nbrs C.nodes answers)
    (hok : ∀ a ∈ answers, OkAns gamma a.1 ∧ ∀ t ∈ a.2, OkAns tau t) (s : PSt) (rest : List Draw) (tr : Array Call) :
    ∃ res, GenPerc.get_infected_nodes X C tau gamma (some i) o s
        ⟨answers.flatMap (fun a => drawOf a.1 ++ a.2.flatMap drawOf) ++ rest, tr⟩ =
      .ok ((res, s), ⟨rest, tr ++ answers.flatMap (fun a => callOf gamma a.1 ++ a.2.flatMap (callOf tau))⟩) ∧
      res.Nodup ∧
      ∀ v, v ∈ res ↔ ∃ u ∈ infs, Perc.Path (fun x => ((buildL true C answers).succ x).filter fun y => !recs.contains y) u v := by
  obtain ⟨res, h1, h2, h3⟩ := infectedBody_tape X hX C tau gamma infs recs hdisj (normOpt_nodup hr) hrc hic answers hsh hok
    s rest tr
  refine ⟨res, ?_, h2, h3⟩
  rw [get_infected_given, hi, hr]
  simp only [liftE_ok, pure_bind]
  exact h1

/-- on a simple contact graph the percolated digraph's successors are the hand model's `Perc.percolate` with the rule
`delayOf u v ≤ durOf u`: the infected set is the set of nodes reachable from `infs` in the kept-edge digraph
(`EventSIR`'s rule `delay u v ≤ dur u`) along paths avoiding `recs` -/
theorem get_infected_nodes_run_simple (X : NX) (hX : NXSpec X) (C : Contact) (hC : CWF C)
    (hnb : ∀ u ∈ C.nodes, (C.nbrs u).Nodup) (tau gamma : Rat) (i : Src) (o : Option Src)
    (infs recs : List Node) (hi : normSrc C i = .ok infs) (hr : normOpt C o = .ok recs)
    (hdisj : ∀ u ∈ infs, u ∉ recs) (hrc : ∀ u ∈ recs, u ∈ C.nodes) (hic : ∀ u ∈ infs, u ∈ C.nodes)
    (answers : List (ERat × List ERat)) (hsh : Shape C.nbrs C.nodes answers)
    (hok : ∀ a ∈ answers, OkAns gamma a.1 ∧ ∀ t ∈ a.2, OkAns tau t) (s : PSt) (rest : List Draw) (tr : Array Call) :
    ∃ res, GenPerc.get_infected_nodes X C tau gamma (some i) o s
        ⟨answers.flatMap (fun a => drawOf a.1 ++ a.2.flatMap drawOf) ++ rest, tr⟩ =
      .ok ((res, s), ⟨rest, tr ++ answers.flatMap (fun a => callOf gamma a.1 ++ a.2.flatMap (callOf tau))⟩) ∧
      res.Nodup ∧
      ∀ v, v ∈ res ↔ ∃ u ∈ infs, Perc.Path (fun x => (Perc.percolate C.nbrs
        (fun u v => ERat.le (delayOf C answers u v) (durOf C answers u)) x).filter fun y => !recs.contains y) u v := by
  obtain ⟨res, h1, h2, h3⟩ := get_infected_nodes_run X hX C tau gamma i o infs recs hi hr hdisj hrc hic answers hsh hok
    s rest tr
  refine ⟨res, h1, h2, fun v => ?_⟩
  rw [h3]
  have hg := buildL_ruleGraph C hC hnb true answers hsh
  have hstep : ∀ x ∈ C.nodes, ∀ y, y ∈ ((buildL true C answers).succ x).filter (fun y => !recs.contains y) ↔
      y ∈ (Perc.percolate C.nbrs (fun u v => ERat.le (delayOf C answers u v) (durOf C answers u)) x).filter
        (fun y => !recs.contains y) := by
    intro x hx y
    rw [List.mem_filter, List.mem_filter, hg.succ]
    exact ⟨fun h => ⟨h.1.2, h.2⟩, fun h => ⟨⟨hx, h.1⟩, h.2⟩⟩
  have hwf2 := hC.wf_percolate (fun u v => ERat.le (delayOf C answers u v) (durOf C answers u))
  constructor
  · rintro ⟨u, hu, p⟩
    refine ⟨u, hu, ?_⟩
    have key : v ∈ C.nodes ∧ Perc.Path (fun x => (Perc.percolate C.nbrs
        (fun u v => ERat.le (delayOf C answers u v) (durOf C answers u)) x).filter fun y => !recs.contains y) u v := by
      induction p with
      | refl => exact ⟨hic u hu, Perc.Path.refl _⟩
      | step x y _ hy ih =>
        have hy' := (hstep x ih.1 y).1 hy
        exact ⟨hwf2.succ_mem x ih.1 y (List.mem_filter.1 hy').1, Perc.Path.step _ x y ih.2 hy'⟩
    exact key.2
  · rintro ⟨u, hu, p⟩
    refine ⟨u, hu, ?_⟩
    have key : v ∈ C.nodes ∧ Perc.Path (fun x => ((buildL true C answers).succ x).filter fun y => !recs.contains y) u v := by
      induction p with
      | refl => exact ⟨hic u hu, Perc.Path.refl _⟩
      | step x y _ hy ih =>
        exact ⟨hwf2.succ_mem x ih.1 y (List.mem_filter.1 hy).1, Perc.Path.step _ x y ih.2 ((hstep x ih.1 y).2 hy)⟩
    exact key.2

/-- **the default draw**: the tape starts with `random.choice` indices pointing at initially recovered nodes (fewer than the
fuel 10000 of the translated `while` loop), then one pointing at a node `y` outside; `y` is the initial infection, exactly
these choices are consumed and logged (each with the full node list), and the run continues as `get_infected_nodes_run`
with `infs = [y]` -/
theorem get_infected_nodes_default_run (X : NX) (hX : NXSpec X) (C : Contact) (tau gamma : Rat) (o : Option Src)
    (recs : List Node) (hr : normOpt C o = .ok recs) (hrc : ∀ u ∈ recs, u ∈ C.nodes)
    (is : List Nat) (his : is.length < 10000) (hrec : ∀ k ∈ is, ∃ x ∈ recs, C.nodes[k]? = some x)
    (j : Nat) (y : Node) (hj : C.nodes[j]? = some y) (hy : y ∉ recs)
    (answers : List (ERat × List ERat)) (hsh : Shape C.nbrs C.nodes answers)
    (hok : ∀ a ∈ answers, OkAns gamma a.1 ∧ ∀ t ∈ a.2, OkAns tau t) (s : PSt) (rest : List Draw) (tr : Array Call) :
    ∃ res, GenPerc.get_infected_nodes X C tau gamma none o s
        ⟨is.map Draw.choice ++ Draw.choice j ::
          (answers.flatMap (fun a => drawOf a.1 ++ a.2.flatMap drawOf) ++ rest), tr⟩ =
      .ok ((res, s), ⟨rest, tr ++ List.replicate (is.length + 1) (Call.choice (C.nodes.map PyTM.encNode)) ++
        answers.flatMap (fun a => callOf gamma a.1 ++ a.2.flatMap (callOf tau))⟩) ∧
      res.Nodup ∧
      ∀ v, v ∈ res ↔ Perc.Path (fun x => ((buildL true C answers).succ x).filter fun z => !recs.contains z) y v := by
  have hyn : y ∈ C.nodes := List.mem_of_getElem? hj
  obtain ⟨res, h1, h2, h3⟩ := infectedBody_tape X hX C tau gamma [y] recs
    (fun u hu => by rw [List.mem_singleton.1 hu]; exact hy) (normOpt_nodup hr) hrc
    (fun u hu => by rw [List.mem_singleton.1 hu]; exact hyn) answers hsh hok s rest
    (tr ++ List.replicate (is.length + 1) (Call.choice (C.nodes.map PyTM.encNode)))
  refine ⟨res, ?_, h2, fun v => by rw [h3]; simp only [List.mem_singleton, exists_eq_left]; rfl⟩
  rw [get_infected_default, hr]
  simp only [liftE_ok, pure_bind]
  rw [pm_bind_ok (draw_node_run C recs j y hj hy s _ is 10000 tr his hrec)]
  exact h1

/-! the percolated digraph of `exTape` is 0→1→2→0, 2→3 -/
example : val (GenPerc.get_infected_nodes (mkNX none) exC 1 (1/2) (some (Sum.inl 0)) none s0 ⟨exTape, #[]⟩) =
    .ok [0, 1, 2, 3] := by decide +kernel
example : val (GenPerc.get_infected_nodes (mkNX none) exC 1 (1/2) (some (Sum.inr [0, 0])) (some (Sum.inl 2)) s0 ⟨exTape, #[]⟩) =
    .ok [0, 1] := by decide +kernel
example : val (GenPerc.get_infected_nodes (mkNX none) exC 1 (1/2) (some (Sum.inl 3)) (some (Sum.inr [1])) s0 ⟨exTape, #[]⟩) =
    .ok [3] := by decide +kernel
example : val (GenPerc.get_infected_nodes (mkNX none) exC 1 (1/2) (some (Sum.inr [0, 1])) (some (Sum.inl 1)) s0 ⟨exTape, #[]⟩) =
    .error "EoNError" := by decide +kernel
example : val (GenPerc.get_infected_nodes (mkNX none) exC 1 (1/2) (some (Sum.inl 7)) none s0 ⟨exTape, #[]⟩) =
    .error "TypeError" := by decide +kernel
example : val (GenPerc.get_infected_nodes (mkNX none) exC 1 (1/2) (some (Sum.inr [7])) none s0 ⟨exTape, #[]⟩) =
    .error "NetworkXError" := by decide +kernel
/-- default draw: index 2 hits the recovered node 2, index 1 is accepted; from 1 only 1 is reachable once 2 is removed -/
example : (GenPerc.get_infected_nodes (mkNX none) exC 1 (1/2) none (some (Sum.inl 2)) s0
      ⟨.choice 2 :: .choice 1 :: exTape, #[]⟩).map (fun x => (x.1.1, x.2.tape, x.2.trace.toList.take 2)) =
    .ok ([1], [.unif 0], [.choice [[0], [1], [2], [3]], .choice [[0], [1], [2], [3]]]) := by decide +kernel

/-! ## 7. the hypotheses are met: the main theorems instantiated on closed data -/

example : HWF exH := exH_wf
example : CWF exC ∧ ∀ u ∈ exC.nodes, (exC.nbrs u).Nodup := ⟨exC_wf, exC_nbrs_nodup⟩
example : Shape exC.nbrs exC.nodes exAnswers ∧ (∀ a ∈ exAnswers, OkAns (1/2) a.1 ∧ ∀ t ∈ a.2, OkAns 1 t) ∧
    exAnswers.flatMap (fun a => drawOf a.1 ++ a.2.flatMap drawOf) ++ [.unif 0] = exTape :=
  ⟨exAnswers_shape, exAnswers_ok, by decide +kernel⟩

/-- `estimate_from_dir_perc_allowed` on the 3-cycle with a pendant edge -/
example : ∃ p, GenPerc.estimate_from_dir_perc (mkNX none) exH s0 t0 = .ok ((p, s0), t0) ∧
    p ∈ Perc.allowed exH.nodeList exH.succ := by
  obtain ⟨p, h1, h2, _⟩ := estimate_from_dir_perc_allowed (mkNX none) exH (mkNX_spec exH exH_wf) exH_wf.nodup
    (by decide) s0 t0
  exact ⟨p, h1, h2⟩

/-- `estimate_xi_zeta_allowed` -/
example : ∃ p, GenPerc.estimate_xi_zeta (mkNX none) exC (fun u => u) (fun v => v) (fun x z => decide (x + z ≥ 3)) s0 t0 =
      .ok ((p, s0), t0) ∧
    p ∈ Perc.allowed exC.nodes (Perc.percolate exC.nbrs fun u v => decide ((u : Rat) + (v : Rat) ≥ 3)) := by
  obtain ⟨p, h1, h2, _⟩ := estimate_xi_zeta_allowed (mkNX none) nxSpec_satisfiable exC exC_wf (by decide)
    (fun u => u) (fun v => v) (fun x z => decide (x + z ≥ 3)) s0 t0
  exact ⟨p, h1, h2⟩

/-- `estimate_directed_SIR_prob_size_tape` -/
example : ∃ p, GenPerc.estimate_directed_SIR_prob_size (mkNX none) exC 1 (1/2) s0
      ⟨exAnswers.flatMap (fun a => drawOf a.1 ++ a.2.flatMap drawOf) ++ [.unif 0], #[]⟩ =
      .ok ((p, s0), ⟨[.unif 0], (#[] : Array Call) ++ exAnswers.flatMap (fun a => callOf (1/2) a.1 ++ a.2.flatMap (callOf 1))⟩) ∧
    p ∈ Perc.allowed exC.nodes
      (Perc.percolate exC.nbrs fun u v => ERat.le (delayOf exC exAnswers u v) (durOf exC exAnswers u)) := by
  obtain ⟨p, h1, h2, _⟩ := estimate_directed_SIR_prob_size_tape (mkNX none) nxSpec_satisfiable exC exC_wf (by decide)
    exC_nbrs_nodup 1 (1/2) exAnswers exAnswers_shape exAnswers_ok s0 [.unif 0] #[]
  exact ⟨p, h1, h2⟩

/-- `get_infected_nodes_run`: node 0 infected, node 2 recovered -/
example : ∃ res, GenPerc.get_infected_nodes (mkNX none) exC 1 (1/2) (some (Sum.inl 0)) (some (Sum.inl 2)) s0
      ⟨exAnswers.flatMap (fun a => drawOf a.1 ++ a.2.flatMap drawOf) ++ [.unif 0], #[]⟩ =
      .ok ((res, s0), ⟨[.unif 0], (#[] : Array Call) ++ exAnswers.flatMap (fun a => callOf (1/2) a.1 ++ a.2.flatMap (callOf 1))⟩) ∧
    res.Nodup := by
  obtain ⟨res, h1, h2, _⟩ := get_infected_nodes_run (mkNX none) nxSpec_satisfiable exC 1 (1/2) (Sum.inl 0)
    (some (Sum.inl 2)) [0] [2] (by decide) (by decide) (by decide) (by decide) (by decide)
    exAnswers exAnswers_shape exAnswers_ok s0 [.unif 0] #[]
  exact ⟨res, h1, h2⟩

end C17c

#print axioms C17c.nxSpec_clauses
#print axioms C17c.nxSpec_satisfiable
#print axioms C17c.nxSpecAt_satisfiable
#print axioms C17c.built_digraphs_wf
#print axioms C17c.out_component_node
#print axioms C17c.in_component_node
#print axioms C17c.out_component_list
#print axioms C17c.in_component_list
#print axioms C17c.out_component_absent
#print axioms C17c.in_component_absent
#print axioms C17c.out_component_list_absent
#print axioms C17c.in_component_list_absent
#print axioms C17c.estimate_from_dir_perc_allowed
#print axioms C17c.estimate_from_dir_perc_empty
#print axioms C17c.estimate_from_dir_perc_bounds
#print axioms C17c.estimate_from_dir_perc_indep
#print axioms C17c.estimate_from_dir_perc_unique
#print axioms C17c.ruleGraph_clauses
#print axioms C17c.with_timing_deterministic
#print axioms C17c.with_timing_weights
#print axioms C17c.xi_zeta_network_spec
#print axioms C17c.with_timing_scripted
#print axioms C17c.positional_digraph
#print axioms C17c.with_timing_scripted_long
#print axioms C17c.directed_percolate_network_unfold
#print axioms C17c.directed_percolate_network_tape
#print axioms C17c.directed_percolate_network_tape_pos
#print axioms C17c.directed_percolate_network_no_rates
#print axioms C17c.estimate_with_timing_unfold
#print axioms C17c.estimate_xi_zeta_unfold
#print axioms C17c.estimate_directed_SIR_prob_size_unfold
#print axioms C17c.estimate_after_builder
#print axioms C17c.estimate_xi_zeta_allowed
#print axioms C17c.estimate_xi_zeta_empty
#print axioms C17c.estimate_with_timing_deterministic
#print axioms C17c.estimate_with_timing_scripted
#print axioms C17c.estimate_directed_SIR_prob_size_tape
#print axioms C17c.estimate_directed_SIR_prob_size_tape_general
#print axioms C17c.estimate_SIR_prob_size_tape
#print axioms C17c.estimate_SIR_prob_size_empty
#print axioms C17c.ccSpec_satisfiable
#print axioms C17c.normalisation
#print axioms C17c.get_infected_nodes_unfold
#print axioms C17c.get_infected_nodes_unfold_default
#print axioms C17c.get_infected_nodes_type_error
#print axioms C17c.get_infected_nodes_overlap
#print axioms C17c.get_infected_nodes_run
#print axioms C17c.get_infected_nodes_run_simple
#print axioms C17c.get_infected_nodes_default_run
