import EoNVerif.Proofs.GenEqMat
import EoNVerif.Props.Gen
import EoNVerif.Props.C06b
import EoNVerif.Props.C07b
import Mathlib.Tactic.Ring
import Mathlib.Tactic.Linarith
/-!
Tie by translation for the matrix-valued right-hand sides (C06 / C07 / C08).  `Gen/AnalyticMat.lean` is regenerated from
`EoN/analytic.py` on every run by `harness/pymat2lean.py`; the theorems below (lemmas in `Proofs/GenEqMat.lean`) state
that the generated `_dSIS_heterogeneous_pairwise_` and `_dSIR_heterogeneous_pairwise_`, applied to the state vector
packed the way `SIS_heterogeneous_pairwise` / `SIR_heterogeneous_pairwise` pack it, return component by component the
hand-written models `ODE.sisHetPW` / `ODE.sirHetPW` that the C06–C08 theorems are about — for every number `K` of degree
classes, every rate, every class degree and every state (no sign, non-vanishing or consistency hypothesis).

The only hypotheses are the index bounds `k < K`, `l < K`: the flat vector has no entry `(k, l)` outside them, and for
`l ≥ K` the row-major position `k*K + l` is the position of another entry (`rowmajor_needs_bound`).

  `gen_sisHetPW`  `gen_sirHetPW`                                   (the equalities)
  `gen_sirHetPW_tau0`  `gen_sisHetPW_tau0`  `gen_sirHetPW_signs`    (transported from C06b)
  `gen_sisHetPW_SS_symm`  `gen_hetPW_gamma0`                        (transported from C06b)
  `gen_sirHetPW_regular`  `gen_sisHetPW_regular`                    (transported from C07b; generated het = generated hom)
  `sisEx_eval`  `sirEx_eval`  `ex_repairs_differ`                   (concrete evaluations, zero denominators included)
-/
set_option linter.unusedVariables false
namespace GenMatProps
open Gen ODE GenEqMat

/-- **Generated `_dSIS_heterogeneous_pairwise_` = `ODE.sisHetPW`.**  `X` is the packing
`np.concatenate((Sk0[:,None], SkSl0.reshape(K²,1), SkIl0.reshape(K²,1))).T[0]` of `SIS_heterogeneous_pairwise`
(`S`, then `[S_kS_l]` row-major, then `[S_kI_l]` row-major).  The returned vector has length `K + K² + K²`; entry `k`
is `dS_k`, entry `K + (k K + l)` is `d[S_kS_l]`, entry `K + K² + (k K + l)` is `d[S_kI_l]` of the model.  The code's
`kxSk[kxSk==0] = 1` (repair of the product `Ks*Sk`) is the model's `nz (Ks l * S l)`. -/
theorem gen_sisHetPW (K : Nat) (tau gamma : Rat) (Ks Nk : Nat → Rat) (NkNl : Nat → Nat → Rat)
    (S : Nat → Rat) (SS SI : Nat → Nat → Rat) :
    let X := V.append ⟨K, S⟩ (V.append ⟨K ^ 2, fun i => SS (i / K) (i % K)⟩ ⟨K ^ 2, fun i => SI (i / K) (i % K)⟩)
    let r := GenMat.dSIS_heterogeneous_pairwise X ⟨K, Nk⟩ NkNl tau gamma ⟨K, Ks⟩
    let m := sisHetPW K tau gamma Ks Nk NkNl S SS SI
    r.n = K + K ^ 2 + K ^ 2 ∧
    (∀ k, k < K → r.f k = m.1 k) ∧
    ∀ k l, k < K → l < K →
      r.f (K + (k * K + l)) = m.2.1 k l ∧ r.f (K + K ^ 2 + (k * K + l)) = m.2.2 k l :=
  GenEqMat.gen_sisHetPW K tau gamma Ks Nk NkNl S SS SI

/-- **Generated `_dSIR_heterogeneous_pairwise_` = `ODE.sirHetPW`.**  `X` is the packing
`np.concatenate((Sk0[:,None], Ik0[:,None], SkSl0.reshape(K²,1), SkIl0.reshape(K²,1))).T[0]` of
`SIR_heterogeneous_pairwise`.  The returned vector has length `K + K + K² + K²`: `dS_k`, `dI_k`, `d[S_kS_l]`,
`d[S_kI_l]`.  Here the code repairs `tmpSk` and `tmpKs` separately, which is the model's `nz (Ks l) * nz (S l)`
(not `nz (Ks l * S l)` as in the SIS function).  `Nk` is accepted and ignored by the code. -/
theorem gen_sirHetPW (K : Nat) (tau gamma : Rat) (Ks Nk : Nat → Rat) (S I : Nat → Rat) (SS SI : Nat → Nat → Rat) :
    let X := V.append ⟨K, S⟩ (V.append ⟨K, I⟩
      (V.append ⟨K ^ 2, fun i => SS (i / K) (i % K)⟩ ⟨K ^ 2, fun i => SI (i / K) (i % K)⟩))
    let r := GenMat.dSIR_heterogeneous_pairwise X tau gamma ⟨K, Nk⟩ ⟨K, Ks⟩
    let m := sirHetPW K tau gamma Ks S I SS SI
    r.n = K + K + K ^ 2 + K ^ 2 ∧
    (∀ k, k < K → r.f k = m.1 k ∧ r.f (K + k) = m.2.1 k) ∧
    ∀ k l, k < K → l < K →
      r.f (K + K + (k * K + l)) = m.2.2.1 k l ∧ r.f (K + K + K ^ 2 + (k * K + l)) = m.2.2.2 k l :=
  GenEqMat.gen_sirHetPW K tau gamma Ks Nk S I SS SI

/-! ### consequences transported to the generated code

`packSIS K S SS SI` and `packSIR K S I SS SI` (`Proofs/GenEqMat.lean`) are by definition the vectors `X` above. -/

/-- `tau0_sirHetPW` for the generated code: without transmission the generated SIR function returns `dS_k = 0` and
`dI_k = -γ I_k` -/
theorem gen_sirHetPW_tau0 (K : Nat) (gamma : Rat) (Ks Nk S I : Nat → Rat) (SS SI : Nat → Nat → Rat) (k : Nat) (hk : k < K) :
    (GenMat.dSIR_heterogeneous_pairwise (packSIR K S I SS SI) 0 gamma ⟨K, Nk⟩ ⟨K, Ks⟩).f k = 0 ∧
    (GenMat.dSIR_heterogeneous_pairwise (packSIR K S I SS SI) 0 gamma ⟨K, Nk⟩ ⟨K, Ks⟩).f (K + k) = -gamma * I k := by
  obtain ⟨_, h1, _⟩ := GenEqMat.gen_sirHetPW K 0 gamma Ks Nk S I SS SI
  obtain ⟨a, b⟩ := h1 k hk
  obtain ⟨c, d⟩ := tau0_sirHetPW K gamma Ks S I SS SI k
  exact ⟨a.trans c, b.trans d⟩

/-- `tau0_sisHetPW` for the generated code: without transmission the generated SIS function returns
`dS_k = γ (N_k - S_k)` -/
theorem gen_sisHetPW_tau0 (K : Nat) (gamma : Rat) (Ks Nk : Nat → Rat) (NkNl : Nat → Nat → Rat) (S : Nat → Rat)
    (SS SI : Nat → Nat → Rat) (k : Nat) (hk : k < K) :
    (GenMat.dSIS_heterogeneous_pairwise (packSIS K S SS SI) ⟨K, Nk⟩ NkNl 0 gamma ⟨K, Ks⟩).f k = gamma * (Nk k - S k) := by
  obtain ⟨_, h1, _⟩ := GenEqMat.gen_sisHetPW K 0 gamma Ks Nk NkNl S SS SI
  exact (h1 k hk).trans (tau0_sisHetPW K gamma Ks Nk NkNl S SS SI k)

/-- `sirHetPW_signs` for the generated code: with `τ ≥ 0` and non-negative `[S_kI_l]` the generated `dS_k` is `≤ 0`, and
`-(dS_k + dI_k) = γ I_k` (so `S_k + I_k + R_k` is conserved with `dR_k = γ I_k`) -/
theorem gen_sirHetPW_signs (K : Nat) (tau gamma : Rat) (Ks Nk S I : Nat → Rat) (SS SI : Nat → Nat → Rat)
    (h2 : 0 ≤ tau) (hSI : ∀ k l, 0 ≤ SI k l) (k : Nat) (hk : k < K) :
    let r := GenMat.dSIR_heterogeneous_pairwise (packSIR K S I SS SI) tau gamma ⟨K, Nk⟩ ⟨K, Ks⟩
    r.f k ≤ 0 ∧ -(r.f k + r.f (K + k)) = gamma * I k := by
  intro r
  obtain ⟨_, h1, _⟩ := GenEqMat.gen_sirHetPW K tau gamma Ks Nk S I SS SI
  obtain ⟨a, b⟩ := h1 k hk
  obtain ⟨c, d⟩ := sirHetPW_signs K tau gamma Ks S I SS SI h2 hSI k
  have a' : r.f k = (sirHetPW K tau gamma Ks S I SS SI).1 k := a
  have b' : r.f (K + k) = (sirHetPW K tau gamma Ks S I SS SI).2.1 k := b
  rw [a', b']
  exact ⟨c, d⟩

/-- `sisHetPW_SS_symm` for the generated code: the `[S_kS_l]` block of the generated SIS right-hand side is a symmetric
matrix (entry `(k,l)` = entry `(l,k)`), whatever the state -/
theorem gen_sisHetPW_SS_symm (K : Nat) (tau gamma : Rat) (Ks Nk : Nat → Rat) (NkNl : Nat → Nat → Rat) (S : Nat → Rat)
    (SS SI : Nat → Nat → Rat) (k l : Nat) (hk : k < K) (hl : l < K) :
    let r := GenMat.dSIS_heterogeneous_pairwise (packSIS K S SS SI) ⟨K, Nk⟩ NkNl tau gamma ⟨K, Ks⟩
    r.f (K + (k * K + l)) = r.f (K + (l * K + k)) := by
  intro r
  obtain ⟨_, _, h2⟩ := GenEqMat.gen_sisHetPW K tau gamma Ks Nk NkNl S SS SI
  exact ((h2 k l hk hl).1.trans (sisHetPW_SS_symm K tau gamma Ks Nk NkNl S SS SI k l)).trans (h2 l k hl hk).1.symm

/-- `gamma0_hetPW` for the generated code: without recovery, and where no repair is active (`Ks`, `S` non-zero on the
classes `< K`), the generated SIS and SIR functions return the same `dS_k`, `d[S_kS_l]`, `d[S_kI_l]` — although one
repairs `Ks*Sk` and the other `Ks` and `Sk` -/
theorem gen_hetPW_gamma0 (K : Nat) (tau : Rat) (Ks Nk Nk' : Nat → Rat) (NkNl : Nat → Nat → Rat)
    (S I : Nat → Rat) (SS SI : Nat → Nat → Rat) (hK : ∀ k, k < K → Ks k ≠ 0) (hS : ∀ k, k < K → S k ≠ 0)
    (k l : Nat) (hk : k < K) (hl : l < K) :
    let a := GenMat.dSIS_heterogeneous_pairwise (packSIS K S SS SI) ⟨K, Nk⟩ NkNl tau 0 ⟨K, Ks⟩
    let b := GenMat.dSIR_heterogeneous_pairwise (packSIR K S I SS SI) tau 0 ⟨K, Nk'⟩ ⟨K, Ks⟩
    a.f k = b.f k ∧ a.f (K + (k * K + l)) = b.f (K + K + (k * K + l)) ∧
    a.f (K + K ^ 2 + (k * K + l)) = b.f (K + K + K ^ 2 + (k * K + l)) := by
  intro a b
  obtain ⟨_, a1, a2⟩ := GenEqMat.gen_sisHetPW K tau 0 Ks Nk NkNl S SS SI
  obtain ⟨_, b1, b2⟩ := GenEqMat.gen_sirHetPW K tau 0 Ks Nk' S I SS SI
  have e1k : nz (Ks k) = Ks k := if_neg (hK k hk)
  have e1l : nz (Ks l) = Ks l := if_neg (hK l hl)
  have e2k : nz (S k) = S k := if_neg (hS k hk)
  have e2l : nz (S l) = S l := if_neg (hS l hl)
  have e3k : nz (Ks k * S k) = Ks k * S k := if_neg (mul_ne_zero (hK k hk) (hS k hk))
  have e3l : nz (Ks l * S l) = Ks l * S l := if_neg (mul_ne_zero (hK l hl) (hS l hl))
  refine ⟨(a1 k hk).trans (Eq.trans ?_ (b1 k hk).1.symm), (a2 k l hk hl).1.trans (Eq.trans ?_ (b2 k l hk hl).1.symm),
    (a2 k l hk hl).2.trans (Eq.trans ?_ (b2 k l hk hl).2.symm)⟩
  · dsimp only [sisHetPW, sirHetPW]; ring
  · dsimp only [sisHetPW, sirHetPW]; simp only [e1k, e1l, e2k, e2l, e3k, e3l]; ring
  · dsimp only [sisHetPW, sirHetPW]; simp only [e1k, e1l, e2k, e2l, e3k, e3l]; ring

/-- `hetPW_sir_regular` for the generated code, both sides generated: on a state whose only occupied degree class is
`m` (degree `Ks m = n ≠ 0`, `S ≠ 0`) the generated `_dSIR_heterogeneous_pairwise_` returns in class `m` what the
generated `_dSIR_homogeneous_pairwise_` (`Gen/Analytic.lean`) returns for `(S, I, SI, SS)`, and 0 in every other entry -/
theorem gen_sirHetPW_regular (K m : Nat) (hm : m < K) (Ks Nk : Nat → Rat) (tau gamma n S I SS SI : Rat)
    (hKs : Ks m = n) (hn : n ≠ 0) (hS : S ≠ 0) :
    let r := GenMat.dSIR_heterogeneous_pairwise (packSIR K (only m S) (only m I) (only2 m SS) (only2 m SI))
      tau gamma ⟨K, Nk⟩ ⟨K, Ks⟩
    let h := Gen.dSIR_homogeneous_pairwise (V.ofList [S, I, SI, SS]) n tau gamma
    (r.f m = h.f 0 ∧ r.f (K + m) = h.f 1 ∧ r.f (K + K + (m * K + m)) = h.f 3 ∧
      r.f (K + K + K ^ 2 + (m * K + m)) = h.f 2) ∧
    (∀ k, k < K → k ≠ m → r.f k = 0 ∧ r.f (K + k) = 0) ∧
    (∀ k l, k < K → l < K → ¬ (k = m ∧ l = m) →
      r.f (K + K + (k * K + l)) = 0 ∧ r.f (K + K + K ^ 2 + (k * K + l)) = 0) := by
  intro r h
  obtain ⟨_, g1, g2⟩ := GenEqMat.gen_sirHetPW K tau gamma Ks Nk (only m S) (only m I) (only2 m SS) (only2 m SI)
  obtain ⟨⟨p1, p2, p3, p4⟩, q, q2⟩ := hetPW_sir_regular K m hm Ks tau gamma n S I SS SI hKs hn hS
  obtain ⟨_, h0, h1, h2, h3⟩ := GenEq.gen_sirHomPW n tau gamma S I SI SS
  refine ⟨⟨(g1 m hm).1.trans (p1.trans h0.symm), (g1 m hm).2.trans (p2.trans h1.symm),
    (g2 m m hm hm).1.trans (p3.trans h3.symm), (g2 m m hm hm).2.trans (p4.trans h2.symm)⟩, ?_, ?_⟩
  · intro k hk hkm
    exact ⟨(g1 k hk).1.trans (q k hkm).1, (g1 k hk).2.trans (q k hkm).2⟩
  · intro k l hk hl hkl
    exact ⟨(g2 k l hk hl).1.trans (q2 k l hkl).1, (g2 k l hk hl).2.trans (q2 k l hkl).2⟩

/-- `hetPW_sis_regular` for the generated code, both sides generated: on a single-class state (`Nk[m] = Ntot`,
`NkNl[m,m] = Ntot n`, `n S ≠ 0`) the generated `_dSIS_heterogeneous_pairwise_` returns in class `m` what the generated
`_dSIS_homogeneous_pairwise_` returns for `(S, SI, SS)`, and 0 in every other entry -/
theorem gen_sisHetPW_regular (K m : Nat) (hm : m < K) (Ks : Nat → Rat) (tau gamma n Ntot S SS SI : Rat)
    (hKs : Ks m = n) (hnS : n * S ≠ 0) :
    let r := GenMat.dSIS_heterogeneous_pairwise (packSIS K (only m S) (only2 m SS) (only2 m SI))
      ⟨K, only m Ntot⟩ (only2 m (Ntot * n)) tau gamma ⟨K, Ks⟩
    let h := Gen.dSIS_homogeneous_pairwise (V.ofList [S, SI, SS]) Ntot n tau gamma
    (r.f m = h.f 0 ∧ r.f (K + (m * K + m)) = h.f 2 ∧ r.f (K + K ^ 2 + (m * K + m)) = h.f 1) ∧
    (∀ k, k < K → k ≠ m → r.f k = 0) ∧
    (∀ k l, k < K → l < K → ¬ (k = m ∧ l = m) →
      r.f (K + (k * K + l)) = 0 ∧ r.f (K + K ^ 2 + (k * K + l)) = 0) := by
  intro r h
  obtain ⟨_, g1, g2⟩ := GenEqMat.gen_sisHetPW K tau gamma Ks (only m Ntot) (only2 m (Ntot * n)) (only m S)
    (only2 m SS) (only2 m SI)
  obtain ⟨⟨p1, p2, p3⟩, q, q2⟩ := hetPW_sis_regular K m hm Ks tau gamma n Ntot S SS SI hKs hnS
  obtain ⟨_, h0, h1, h2⟩ := GenEq.gen_sisHomPW Ntot n tau gamma S SI SS
  refine ⟨⟨(g1 m hm).trans (p1.trans h0.symm), (g2 m m hm hm).1.trans (p2.trans h2.symm),
    (g2 m m hm hm).2.trans (p3.trans h1.symm)⟩, ?_, ?_⟩
  · intro k hk hkm
    exact (g1 k hk).trans (q k hkm)
  · intro k l hk hl hkl
    exact ⟨(g2 k l hk hl).1.trans (q2 k l hkl).1, (g2 k l hk hl).2.trans (q2 k l hkl).2⟩

/-! ### concrete evaluations (non-vacuity): `K = 2`, both repairs active

Degrees `Ks = [0, 3]`, `S = [2, 0]`: in class 0 `Ks*S = 0` with `Ks = 0`, in class 1 `Ks*S = 0` with `S = 0`.  The SIS
function divides by `1` in both classes; the SIR function divides by `1*2 = 2` in class 0 and by `3*1 = 3` in class 1. -/

def v2 (a b : Rat) : Nat → Rat := fun k => match k with | 0 => a | 1 => b | _ => 0
def m2 (a b c d : Rat) : Nat → Nat → Rat := fun k l => match k, l with | 0, 0 => a | 0, 1 => b | 1, 0 => c | 1, 1 => d | _, _ => 0
def KsE : Nat → Rat := v2 0 3
def SE : Nat → Rat := v2 2 0
def IE : Nat → Rat := v2 1 4
def NkE : Nat → Rat := v2 3 4
def NNE : Nat → Nat → Rat := m2 0 0 0 12
def SSE : Nat → Nat → Rat := m2 1 2 2 5
def SIE : Nat → Nat → Rat := m2 (1/2) 1 3 2

/-- the generated SIS function on the example (`τ = 1/2`, `γ = 1/3`): all 10 entries, equal to the model's -/
theorem sisEx_eval :
    let r := GenMat.dSIS_heterogeneous_pairwise (packSIS 2 SE SSE SIE) ⟨2, NkE⟩ NNE (1/2) (1/3) ⟨2, KsE⟩
    let m := sisHetPW 2 (1/2) (1/3) KsE NkE NNE SE SSE SIE
    r.toList = [-5/12, -7/6, 11/6, -43/6, -43/6, -146/3, -35/24, 95/12, -21, 43/3] ∧
    [m.1 0, m.1 1, m.2.1 0 0, m.2.1 0 1, m.2.1 1 0, m.2.1 1 1, m.2.2 0 0, m.2.2 0 1, m.2.2 1 0, m.2.2 1 1]
      = [-5/12, -7/6, 11/6, -43/6, -43/6, -146/3, -35/24, 95/12, -21, 43/3] := by
  decide +kernel

/-- the generated SIR function on the same example: all 12 entries, equal to the model's -/
theorem sirEx_eval :
    let r := GenMat.dSIR_heterogeneous_pairwise (packSIR 2 SE IE SSE SIE) (1/2) (1/3) ⟨2, NkE⟩ ⟨2, KsE⟩
    let m := sirHetPW 2 (1/2) (1/3) KsE SE IE SSE SIE
    r.toList = [-3/4, -5/2, 5/12, 7/6, 3/4, -31/12, -31/12, -50/3, -29/48, 23/8, -33/4, 10/3] ∧
    [m.1 0, m.1 1, m.2.1 0, m.2.1 1, m.2.2.1 0 0, m.2.2.1 0 1, m.2.2.1 1 0, m.2.2.1 1 1,
      m.2.2.2 0 0, m.2.2.2 0 1, m.2.2.2 1 0, m.2.2.2 1 1]
      = [-3/4, -5/2, 5/12, 7/6, 3/4, -31/12, -31/12, -50/3, -29/48, 23/8, -33/4, 10/3] := by
  decide +kernel

/-- the two repairs are different functions, and the non-vanishing hypotheses of `gen_hetPW_gamma0` are needed: at
`γ = 0` on the example state (where both repairs are active) the generated SIS and SIR functions return different
`d[S_0S_0]` (`-1/2 · 2 · (1·(0-1)·(3/2)/1)` against the same with denominator `2`) -/
theorem ex_repairs_differ :
    (GenMat.dSIS_heterogeneous_pairwise (packSIS 2 SE SSE SIE) ⟨2, NkE⟩ NNE (1/2) 0 ⟨2, KsE⟩).f (2 + (0 * 2 + 0)) = 3/2 ∧
    (GenMat.dSIR_heterogeneous_pairwise (packSIR 2 SE IE SSE SIE) (1/2) 0 ⟨2, NkE⟩ ⟨2, KsE⟩).f (2 + 2 + (0 * 2 + 0)) = 3/4 := by
  decide +kernel

/-- the bound `l < K` in `gen_sisHetPW` / `gen_sirHetPW` is needed: for `l = K` the row-major position `k*K + l` is the
position of entry `(k+1, 0)`, not of a model entry `(k, K)` -/
theorem rowmajor_needs_bound :
    let r := GenMat.dSIS_heterogeneous_pairwise (packSIS 2 SE SSE SIE) ⟨2, NkE⟩ NNE (1/2) (1/3) ⟨2, KsE⟩
    let m := sisHetPW 2 (1/2) (1/3) KsE NkE NNE SE SSE SIE
    r.f (2 + (0 * 2 + 2)) = m.2.1 1 0 ∧ r.f (2 + (0 * 2 + 2)) ≠ m.2.1 0 2 := by
  decide +kernel

end GenMatProps
