import EoNVerif.Model.Gillespie
import EoNVerif.Model.Complex
import EoNVerif.Model.Simple
import EoNVerif.Model.FastSIS
import EoNVerif.Proofs.Gillespie
/-!
Helper lemmas for C18: prefix determinism of the tape monad.  A program that succeeds on a tape succeeds with the
same result on every extension of the tape and leaves exactly the extra draws unconsumed.  The property is closed
under `pure`, `>>=`, `if`, `match`, holds for the five primitives and (vacuously) for `TM.fail`; the simulators are
built from these by recursion on fuel / on neighbour lists.
-/

/-- the tape state with extra draws appended -/
def TapeSt.extend (ts : TapeSt) (extra : List Draw) : TapeSt := { ts with tape := ts.tape ++ extra }

namespace TM
/-- a program is *prefix-determined* when success on a tape implies the same success on every extension -/
def PrefixDet {α : Type} (m : TM α) : Prop :=
  ∀ (ts ts' : TapeSt) (a : α) (extra : List Draw), m ts = .ok (a, ts') → m (ts.extend extra) = .ok (a, ts'.extend extra)

theorem prefixDet_pure' {α : Type} (a : α) : PrefixDet (pure a : TM α) := by
  intro ts ts' b extra h
  obtain ⟨rfl, rfl⟩ := pure_ok _ _ _ _ h
  rfl

theorem prefixDet_bind' {α β : Type} (m : TM α) (f : α → TM β) (hm : PrefixDet m) (hf : ∀ a, PrefixDet (f a)) :
    PrefixDet (m >>= f) := by
  intro ts ts' b extra h
  obtain ⟨a, ts1, h1, h2⟩ := bind_ok _ _ _ _ _ h
  have h1' := hm _ _ _ extra h1
  have h2' := hf a _ _ _ extra h2
  show (m (ts.extend extra) >>= fun p => f p.1 p.2) = _
  rw [h1']
  exact h2'

theorem prefixDet_fail {α : Type} (msg : String) : PrefixDet (TM.fail msg : TM α) := by
  intro ts ts' b extra h
  exact absurd h (fail_ne_ok _ _ _)

theorem prefixDet_popUnif' : PrefixDet TM.popUnif := by
  intro ts ts' a extra h
  obtain ⟨tape, trace⟩ := ts
  unfold popUnif at h ⊢
  cases tape with
  | nil => simp at h
  | cons d t =>
    cases d <;> simp only [TapeSt.extend, List.cons_append, reduceCtorEq] at h ⊢
    cases h; rfl

theorem prefixDet_popExpo' (r : Rat) : PrefixDet (TM.popExpo r) := by
  intro ts ts' a extra h
  obtain ⟨tape, trace⟩ := ts
  unfold popExpo at h ⊢
  split at h
  · cases h
  · rename_i hr
    rw [if_neg hr]
    cases tape with
    | nil => simp at h
    | cons d t =>
      cases d <;> simp only [TapeSt.extend, List.cons_append, reduceCtorEq] at h ⊢
      cases h; rfl

theorem prefixDet_popChoice' (seq : List (List Nat)) : PrefixDet (TM.popChoice seq) := by
  intro ts ts' a extra h
  obtain ⟨tape, trace⟩ := ts
  unfold popChoice at h ⊢
  split at h
  · cases h
  · rename_i hr
    rw [if_neg hr]
    cases tape with
    | nil => simp at h
    | cons d t =>
      cases d <;> simp only [TapeSt.extend, List.cons_append, reduceCtorEq] at h ⊢
      split at h
      · rename_i hi
        rw [if_pos hi]
        cases h; rfl
      · cases h

theorem prefixDet_popSample' (n k : Nat) : PrefixDet (TM.popSample n k) := by
  intro ts ts' a extra h
  obtain ⟨tape, trace⟩ := ts
  unfold popSample at h ⊢
  split at h
  · cases h
  · rename_i hr
    rw [if_neg hr]
    cases tape with
    | nil => simp at h
    | cons d t =>
      cases d <;> simp only [TapeSt.extend, List.cons_append, reduceCtorEq] at h ⊢
      split at h
      · rename_i hi
        rw [if_pos hi]
        cases h; rfl
      · cases h

theorem prefixDet_popBinom' (n : Nat) (p : Rat) : PrefixDet (TM.popBinom n p) := by
  intro ts ts' a extra h
  obtain ⟨tape, trace⟩ := ts
  unfold popBinom at h ⊢
  cases tape with
  | nil => simp at h
  | cons d t =>
    cases d <;> simp only [TapeSt.extend, List.cons_append, reduceCtorEq] at h ⊢
    split at h
    · rename_i hi
      rw [if_pos hi]
      cases h; rfl
    · cases h

theorem prefixDet_ite {α : Type} (c : Prop) [Decidable c] (m₁ m₂ : TM α) (h₁ : c → PrefixDet m₁)
    (h₂ : ¬c → PrefixDet m₂) : PrefixDet (if c then m₁ else m₂) := by
  split
  · exact h₁ ‹_›
  · exact h₂ ‹_›

end TM

/-- one structural step of a prefix-determinism proof -/
macro "pd_step" : tactic =>
  `(tactic| first
    | exact TM.prefixDet_pure' _
    | exact TM.prefixDet_fail _
    | exact TM.prefixDet_popUnif'
    | exact TM.prefixDet_popExpo' _
    | exact TM.prefixDet_popChoice' _
    | exact TM.prefixDet_popSample' _ _
    | exact TM.prefixDet_popBinom' _ _
    | refine TM.prefixDet_bind' _ _ ?_ (fun _ => ?_)
    | split
    | dsimp only)

namespace Gillespie

theorem chooseTM_prefixDet {α : Type} [DecidableEq α] (enc : α → List Nat) (ld : LD α) (fuel : Nat) :
    TM.PrefixDet (chooseTM enc ld fuel) := by
  induction fuel with
  | zero => exact TM.prefixDet_fail _
  | succ n ih =>
    rw [chooseTM]
    repeat (first | exact ih | pd_step)

theorem pick_prefixDet (P : GParams) (s : GState) (fuel : Nat) : TM.PrefixDet (pick P s fuel) := by
  unfold pick
  repeat (first | exact chooseTM_prefixDet _ _ _ | pd_step)

theorem loop_prefixDet (P : GParams) (tmax : ERat) (cfuel fuel : Nat) (s : GState) (t : ERat) :
    TM.PrefixDet (loop P tmax cfuel fuel s t) := by
  induction fuel generalizing s t with
  | zero => exact TM.prefixDet_fail _
  | succ n ih =>
    rw [loop.eq_def]; dsimp only
    repeat (first | exact ih _ _ | exact pick_prefixDet _ _ _ | pd_step)

theorem run_prefixDet (P : GParams) (infs recs : List Node) (tmin : Rat) (tmax : ERat) (fuel cfuel : Nat) :
    TM.PrefixDet (run P infs recs tmin tmax fuel cfuel) := by
  unfold run
  repeat (first | exact loop_prefixDet _ _ _ _ _ _ | pd_step)

end Gillespie

namespace Complex
variable {σ : Type} [DecidableEq σ]

theorem loop_prefixDet (P : CCParams σ) (tmax : ERat) (cfuel fuel : Nat) (s : CCState σ) (t : ERat) :
    TM.PrefixDet (loop P tmax cfuel fuel s t) := by
  induction fuel generalizing s t with
  | zero => exact TM.prefixDet_fail _
  | succ n ih =>
    rw [loop.eq_def]; dsimp only
    repeat (first | exact ih _ _ | exact Gillespie.chooseTM_prefixDet _ _ _ | pd_step)

theorem run_prefixDet (P : CCParams σ) (ic : Node → σ) (tmin : Rat) (tmax : ERat) (fuel cfuel : Nat) :
    TM.PrefixDet (run P ic tmin tmax fuel cfuel) := by
  unfold run
  repeat (first | exact loop_prefixDet _ _ _ _ _ _ | pd_step)

end Complex

namespace Simple
variable {σ : Type} [DecidableEq σ]

omit [DecidableEq σ] in
theorem pick_prefixDet (P : SCParams σ) (s : SCState σ) (cfuel : Nat) : TM.PrefixDet (pick P s cfuel) := by
  unfold pick
  repeat (first | exact Gillespie.chooseTM_prefixDet _ _ _ | pd_step)

theorem loop_prefixDet (P : SCParams σ) (tmax : ERat) (cfuel fuel : Nat) (s : SCState σ) (t : ERat) :
    TM.PrefixDet (loop P tmax cfuel fuel s t) := by
  induction fuel generalizing s t with
  | zero => exact TM.prefixDet_fail _
  | succ n ih =>
    rw [loop.eq_def]; dsimp only
    repeat (first | exact ih _ _ | exact pick_prefixDet _ _ _ | pd_step)

theorem run_prefixDet (P : SCParams σ) (ic : Node → σ) (tmin : Rat) (tmax : ERat) (fuel cfuel : Nat) :
    TM.PrefixDet (run P ic tmin tmax fuel cfuel) := by
  unfold run
  repeat (first | exact loop_prefixDet _ _ _ _ _ _ | pd_step)

end Simple

namespace FastSIS

theorem findNext_prefixDet (P : FSParams) (s : FSState) (time rate : Rat) (src tgt : Node) :
    TM.PrefixDet (findNext P s time rate src tgt) := by
  unfold findNext
  repeat pd_step

theorem nbrLoop_prefixDet (P : FSParams) (time : Rat) (tgt : Node) (l : List Node) (s : FSState) :
    TM.PrefixDet (nbrLoop P time tgt l s) := by
  induction l generalizing s with
  | nil => exact TM.prefixDet_pure' _
  | cons v rest ih =>
    rw [nbrLoop]
    repeat (first | exact ih _ | exact findNext_prefixDet _ _ _ _ _ _ | pd_step)

theorem processTrans_prefixDet (P : FSParams) (s : FSState) (time : Rat) (src : Option Node) (tgt : Node) :
    TM.PrefixDet (processTrans P s time src tgt) := by
  unfold processTrans
  repeat (first | exact nbrLoop_prefixDet _ _ _ _ _ | exact findNext_prefixDet _ _ _ _ _ _ | pd_step)

theorem loop_prefixDet (P : FSParams) (fuel : Nat) (s : FSState) : TM.PrefixDet (loop P fuel s) := by
  induction fuel generalizing s with
  | zero => exact TM.prefixDet_fail _
  | succ n ih =>
    rw [loop.eq_def]; dsimp only
    repeat (first | exact ih _ | exact processTrans_prefixDet _ _ _ _ _ | pd_step)

theorem run_prefixDet (P : FSParams) (infs : List Node) (fuel : Nat) : TM.PrefixDet (run P infs fuel) :=
  loop_prefixDet _ _ _

end FastSIS
