import EoNVerif.Proofs.Helpers
/-!
C20 — target statements for the helpers (`subsample`, `get_time_shift`, `get_Pk`, `get_Pnk`, PGF helpers,
`estimate_R0`).  Helper lemmas go to `EoNVerif/Proofs/Helpers.lean`.
-/
namespace Helpers
open Polynomial

/-- **subsample**: for ordered report times not before the first observation (observation times ordered, ties and
repeated values allowed) each output is the value of the last observation at or before the report time -/
theorem subsample_spec {α : Type} (report times : List Rat) (status : List α)
    (hr : Sorted report) (ht : Sorted times) (hlen : status.length = times.length)
    (r0 t0 : Rat) (hr0 : report.head? = some r0) (ht0 : times.head? = some t0) (h0 : t0 ≤ r0) :
    subsample report times status = .ok (report.map (lastLE (times.zip status))) := by
  cases report with
  | nil => simp at hr0
  | cons r rs =>
    cases times with
    | nil => simp at ht0
    | cons t ts =>
      simp only [List.head?_cons, Option.some.injEq] at hr0 ht0
      subst hr0 ht0
      simp only [subsample, not_lt.2 h0, if_false]
      have := scan_spec (r :: rs) hr [] ((t :: ts).zip status) (zip_sorted _ _ ht) (by simp)
      simpa using congrArg (Except.ok (ε := String)) this

/-- … and that value exists (never an unbound `candidate`) -/
theorem subsample_defined {α : Type} (report times : List Rat) (status : List α)
    (hr : Sorted report) (ht : Sorted times) (hlen : status.length = times.length)
    (r0 t0 : Rat) (hr0 : report.head? = some r0) (ht0 : times.head? = some t0) (h0 : t0 ≤ r0) :
    ∀ r ∈ report, (lastLE (times.zip status) r).isSome := by
  intro r hr'
  cases report with
  | nil => simp at hr0
  | cons r1 rs =>
    cases times with
    | nil => simp at ht0
    | cons t ts =>
      cases status with
      | nil => simp at hlen
      | cons s ss =>
        simp only [List.head?_cons, Option.some.injEq] at hr0 ht0
        subst hr0 ht0
        have hle : t ≤ r := by
          rcases List.mem_cons.1 hr' with rfl | h
          · exact h0
          · exact le_trans h0 ((List.pairwise_cons.1 hr).1 r h)
        unfold lastLE
        rw [Option.isSome_map, List.getLast?_isSome]
        simp [hle]

/-- ties take the last of the simultaneous observations; after the end the final value is held -/
theorem lastLE_after_end {α : Type} (times : List Rat) (status : List α) (hlen : status.length = times.length)
    (r : Rat) (h : ∀ t ∈ times, t ≤ r) : lastLE (times.zip status) r = status.getLast? := by
  unfold lastLE
  rw [List.filter_eq_self.2, ← List.getLast?_map]
  · show (List.map Prod.snd (times.zip status)).getLast? = _
    rw [List.map_snd_zip (le_of_eq hlen)]
  intro o ho
  simpa using h o.1 (List.of_mem_zip ho).1

theorem subsample_error {α : Type} (report times : List Rat) (status : List α)
    (r0 t0 : Rat) (hr0 : report.head? = some r0) (ht0 : times.head? = some t0) (h0 : r0 < t0) :
    subsample report times status = .error "EoNError" := by
  cases report with
  | nil => simp at hr0
  | cons r rs =>
    cases times with
    | nil => simp at ht0
    | cons t ts =>
      simp only [List.head?_cons, Option.some.injEq] at hr0 ht0
      subst hr0 ht0
      simp [subsample, h0]

/-- **get_time_shift** returns the first time at which the series reaches the threshold -/
theorem timeShift_spec (times L : List Rat) (thr : Rat) (hlen : L.length = times.length)
    (i : Nat) (hi : i < times.length) (hreach : thr ≤ L.getD i 0) (hfirst : ∀ j < i, L.getD j 0 < thr) :
    timeShift times L thr = .ok (times.getD i 0) := by
  have hf := find_zip_first times L thr hlen i hi hreach hfirst
  cases times with
  | nil => simp at hi
  | cons t ts =>
    simp only [timeShift, hf]
    simp

/-- if the threshold is never reached the last time is returned -/
theorem timeShift_never (times L : List Rat) (thr : Rat) (hlen : L.length = times.length) (hne : times ≠ [])
    (hnever : ∀ l ∈ L, l < thr) : timeShift times L thr = .ok (times.getLast hne) := by
  have hf := find_zip_none times L thr hnever
  cases times with
  | nil => exact absurd rfl hne
  | cons t ts =>
    simp only [timeShift, hf, hlen]
    simp [List.getLast!]

/-- **get_Pk** matches the degree histogram and sums to 1 -/
theorem Pk_hist (degs : List Nat) (h : degs ≠ []) (k : Nat) :
    Pk degs k * (degs.length : Rat) = (countEq degs k : Rat) := by
  unfold Pk
  exact div_mul_cancel₀ _ (length_ne_zero h)

theorem Pk_sum_one (degs : List Nat) (h : degs ≠ []) :
    sumRat ((List.range (maxDeg degs + 1)).map (Pk degs)) = 1 := by
  have := sumRat_Pk_mul degs (fun _ => 1)
  simp only [mul_one] at this
  rw [this, meanDeg, sumRat_map_const, mul_one]
  exact div_self (length_ne_zero h)

theorem Pk_zero_above (degs : List Nat) (k : Nat) (hk : maxDeg degs < k) : Pk degs k = 0 := by
  simp [Pk, countEq_zero_above degs k hk]

/-- generating function values at 1 -/
theorem psi_one (degs : List Nat) (h : degs ≠ []) : psi degs 1 = 1 := by
  have := Pk_sum_one degs h
  simpa [psi] using this
theorem psiP_one (degs : List Nat) (h : degs ≠ []) : psiP degs 1 = meanDeg degs (fun k => (k : Rat)) := by
  rw [← sumRat_Pk_mul]
  simp [psiP]
theorem psiDP_one (degs : List Nat) (h : degs ≠ []) :
    psiDP degs 1 = meanDeg degs (fun k => (k : Rat) * ((k : Rat) - 1)) := by
  rw [← sumRat_Pk_mul]
  simp [psiDP]

/-! the three helpers are a polynomial (`psiPoly`) and its first and second derivative -/
theorem psi_eval (degs : List Nat) (x : Rat) : psi degs x = (psiPoly degs).eval x := by
  unfold psi psiPoly
  rw [eval_list_sum_map]
  apply sumRat_map_congr
  intro k _
  simp
theorem psiP_is_derivative (degs : List Nat) (x : Rat) :
    psiP degs x = (derivative (psiPoly degs)).eval x := by
  unfold psiP psiPoly
  rw [derivative_list_sum_map, eval_list_sum_map]
  apply sumRat_map_congr
  intro k _
  simp only [derivative_C_mul_X_pow, eval_mul, eval_C, eval_pow, eval_X]
  ring
theorem psiDP_is_second_derivative (degs : List Nat) (x : Rat) :
    psiDP degs x = (derivative (derivative (psiPoly degs))).eval x := by
  unfold psiDP psiPoly
  rw [derivative_list_sum_map, derivative_list_sum_map, eval_list_sum_map]
  apply sumRat_map_congr
  intro k _
  simp only [derivative_C_mul_X_pow, eval_mul, eval_C, eval_pow, eval_X]
  cases k with
  | zero => simp
  | succ k =>
    rw [Nat.sub_sub]
    simp only [Nat.add_sub_cancel]
    push_cast
    ring

/-- **estimate_R0** = T⟨k²−k⟩/⟨k⟩ -/
theorem R0_formula (degs : List Nat) (h : degs ≠ []) (T : Rat) :
    R0 degs T = T * meanDeg degs (fun k => (k : Rat) * ((k : Rat) - 1)) / meanDeg degs (fun k => (k : Rat)) := by
  rw [R0, psiDP_one degs h, psiP_one degs h]

/-- **get_Pnk** rows sum to 1 for every degree class that exists and has positive degree -/
theorem Pnk_row_sum (adj : List (List Nat)) (hwf : ∀ l ∈ adj, ∀ v ∈ l, v < adj.length)
    (k1 : Nat) (hk : 0 < k1) (hex : 0 < countEq (adj.map (·.length)) k1) :
    sumRat ((List.range (maxDeg (adj.map (·.length)) + 1)).map fun k2 => Pnk adj k1 k2) = 1 :=
  Pnk_row_sum_aux adj k1 hk hex

end Helpers

/-! non-vacuity: ties in both grids, a report beyond the end -/
example : Helpers.subsample [1, 1, 2, 9] [0, 1, 1, 3] [10, 11, 12, 13] = .ok [some 12, some 12, some 12, some 13] := by
  decide +kernel
example : Helpers.timeShift [0, 1, 2] [1, 5, 7] 4 = .ok 1 := by decide +kernel
