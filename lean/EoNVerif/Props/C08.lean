import EoNVerif.Proofs.ODE
import EoNVerif.Props.C06b
/-!
C06 / C08 — target statements about the right-hand-side models of `EoN.analytic` (Model/ODE.lean):
conservation and sign structure (C06), limiting cases tau = 0 and gamma = 0, final-size fixed points and the discrete
EBCM recurrence (C08).  All statements are algebraic identities / inequalities over ℚ.
-/
namespace ODE

/-! ## C06: conservation -/
theorem sisHomMF_conserve (nN tau gamma S I : Rat) :
    (sisHomMF nN tau gamma S I).1 + (sisHomMF nN tau gamma S I).2 = 0 := by
  simp only [sisHomMF]; ring

theorem sisHetMF_conserve (K : Nat) (tau gamma : Rat) (S I : Nat → Rat) (k : Nat) :
    (sisHetMF K tau gamma S I).1 k + (sisHetMF K tau gamma S I).2 k = 0 := by
  simp only [sisHetMF]; ring

/-- SIS super-compact pairwise: the number of (ordered) pairs SS + 2 SI + II is conserved -/
theorem sisSuperCompactPW_pairs (tau gamma N k1 k2 k3 I SS SI II : Rat) :
    let r := sisSuperCompactPW tau gamma N k1 k2 k3 I SS SI II
    r.2.1 + 2 * r.2.2.1 + r.2.2.2 = 0 := by
  simp only [sisSuperCompactPW]; ring

/-- every explicit one-step / multistep / Runge–Kutta update is an affine combination (weights summing to 1) of
earlier states plus a linear combination of right-hand-side values; such an update preserves every linear quantity
`c·x` that the right-hand side annihilates -/
theorem linear_invariant_of_step (n : Nat) (c : Nat → Rat) (C : Rat)
    (xs : List (Nat → Rat)) (as : List Rat) (fs : List (Nat → Rat)) (bs : List Rat)
    (hlen : xs.length = as.length) (hlen' : fs.length = bs.length)
    (ha : sumRat as = 1)
    (hx : ∀ x ∈ xs, sumTo n (fun i => c i * x i) = C)
    (hf : ∀ f ∈ fs, sumTo n (fun i => c i * f i) = 0) :
    sumTo n (fun i => c i *
      (sumRat (List.zipWith (fun a (x : Nat → Rat) => a * x i) as xs) +
       sumRat (List.zipWith (fun b (f : Nat → Rat) => b * f i) bs fs))) = C := by
  have h1 := sumTo_zipWith n c as xs
  have h2 := sumTo_zipWith n c bs fs
  rw [sumRat_zipWith_const (fun x => sumTo n (fun i => c i * x i)) C as xs hlen hx, ha] at h1
  rw [sumRat_zipWith_zero (fun f => sumTo n (fun i => c i * f i)) bs fs hf] at h2
  have h3 : ∀ i, i < n → c i *
      (sumRat (List.zipWith (fun a (x : Nat → Rat) => a * x i) as xs) +
       sumRat (List.zipWith (fun b (f : Nat → Rat) => b * f i) bs fs))
      = c i * sumRat (List.zipWith (fun a (x : Nat → Rat) => a * x i) as xs) +
        c i * sumRat (List.zipWith (fun b (f : Nat → Rat) => b * f i) bs fs) := fun i _ => by ring
  rw [sumTo_congr n _ _ h3, sumTo_add, h1, h2]; ring

/-! ## C06: sign structure of the SIR models on the feasible set -/
theorem sirHomMF_signs (nN tau gamma S I : Rat) (h1 : 0 ≤ nN) (h2 : 0 ≤ tau) (h3 : 0 ≤ gamma) (hS : 0 ≤ S) (hI : 0 ≤ I) :
    let r := sirHomMF nN tau gamma S I
    r.1 ≤ 0 ∧ 0 ≤ -(r.1 + r.2) ∧ -(r.1 + r.2) = gamma * I := by
  simp only [sirHomMF]
  have e : -(-tau * nN * S * I + (tau * nN * S * I - gamma * I)) = gamma * I := by ring
  refine ⟨?_, ?_, e⟩
  · have : 0 ≤ tau * nN * S * I := by positivity
    linarith
  · rw [e]; positivity

theorem sirHomPW_signs (n tau gamma S I SI SS : Rat) (h2 : 0 ≤ tau) (h3 : 0 ≤ gamma) (hI : 0 ≤ I) (hSI : 0 ≤ SI) :
    let r := sirHomPW n tau gamma S I SI SS
    r.1 ≤ 0 ∧ -(r.1 + r.2.1) = gamma * I ∧ 0 ≤ gamma * I := by
  simp only [sirHomPW]
  refine ⟨?_, by ring, by positivity⟩
  have : 0 ≤ tau * SI := by positivity
  linarith

theorem sirCompactPW_signs (K : Nat) (tau gamma N : Rat) (S : Nat → Rat) (SS SI R : Rat)
    (h2 : 0 ≤ tau) (hS : ∀ k, 0 ≤ S k) (hSI : 0 ≤ SI) (hSX : 0 < sumTo K (fun k => kf k * S k)) :
    let r := sirCompactPW K tau gamma N S SS SI R
    (∀ k, r.1 k ≤ 0) ∧ r.2.2.2 = gamma * (N - sumTo K S - R) := by
  simp only [sirCompactPW]
  refine ⟨fun k => ?_, trivial⟩
  have hk := kf_nonneg k
  have hSk := hS k
  have : 0 ≤ tau * kf k * S k * SI / sumTo K (fun k => kf k * S k) := by positivity
  have e : -tau * kf k * S k * SI / sumTo K (fun k => kf k * S k)
      = -(tau * kf k * S k * SI / sumTo K (fun k => kf k * S k)) := by ring
  rw [e]; linarith

theorem sirHetMF_signs (K : Nat) (tau gamma : Rat) (S0 Nk : Nat → Rat) (theta : Rat) (R : Nat → Rat)
    (h2 : 0 ≤ tau) (h3 : 0 ≤ gamma) (hth : 0 ≤ theta)
    (hI : ∀ k, 0 ≤ Nk k - S0 k * theta ^ k - R k) (hN : 0 < sumTo K (fun k => kf k * Nk k)) :
    let r := sirHetMF K tau gamma S0 Nk theta R
    r.1 ≤ 0 ∧ ∀ k, 0 ≤ r.2 k := by
  simp only [sirHetMF]
  refine ⟨?_, fun k => mul_nonneg h3 (hI k)⟩
  have hnum : 0 ≤ sumTo K (fun k => kf k * (Nk k - S0 k * theta ^ k - R k)) :=
    sumTo_nonneg _ _ (fun k _ => mul_nonneg (kf_nonneg k) (hI k))
  have : 0 ≤ tau * (sumTo K (fun k => kf k * (Nk k - S0 k * theta ^ k - R k)) /
      sumTo K (fun k => kf k * Nk k)) * theta := by positivity
  linarith

theorem sirIndividual_signs (nbrs : Nat → List Nat) (tr : Nat → Nat → Rat) (rr : Nat → Rat) (X Y : Nat → Rat)
    (htr : ∀ i j, 0 ≤ tr i j) (hrr : ∀ i, 0 ≤ rr i) (hX : ∀ i, 0 ≤ X i) (hY : ∀ i, 0 ≤ Y i) (i : Nat) :
    let r := sirIndividual nbrs tr rr X Y
    r.1 i ≤ 0 ∧ -(r.1 i + r.2 i) = rr i * Y i ∧ 0 ≤ rr i * Y i := by
  simp only [sirIndividual]
  refine ⟨?_, by ring, mul_nonneg (hrr i) (hY i)⟩
  have hs : 0 ≤ sumRat ((nbrs i).map fun j => tr i j * Y j) :=
    sumRat_map_nonneg _ _ (fun j _ => mul_nonneg (htr i j) (hY j))
  have := mul_nonneg (hX i) hs
  linarith

/-! ## C08: tau = 0 — nothing is transmitted: S constant, I decays at rate gamma -/
theorem tau0_sirHomMF (nN gamma S I : Rat) : sirHomMF nN 0 gamma S I = (0, -gamma * I) := by
  simp [sirHomMF]
theorem tau0_sisHomMF (nN gamma S I : Rat) : sisHomMF nN 0 gamma S I = (gamma * I, -gamma * I) := by
  simp [sisHomMF]
theorem tau0_sirHomPW (n gamma S I SI SS : Rat) :
    (sirHomPW n 0 gamma S I SI SS).1 = 0 ∧ (sirHomPW n 0 gamma S I SI SS).2.1 = -gamma * I := by
  simp [sirHomPW]
theorem tau0_sisHomPW (N n gamma S SI SS : Rat) : (sisHomPW N n 0 gamma S SI SS).1 = gamma * (N - S) := by
  simp [sisHomPW]
theorem tau0_sisHetMF (K : Nat) (gamma : Rat) (S I : Nat → Rat) (k : Nat) :
    (sisHetMF K 0 gamma S I).1 k = gamma * I k ∧ (sisHetMF K 0 gamma S I).2 k = -gamma * I k := by
  simp [sisHetMF]
theorem tau0_sirHetMF (K : Nat) (gamma : Rat) (S0 Nk : Nat → Rat) (theta : Rat) (R : Nat → Rat) :
    (sirHetMF K 0 gamma S0 Nk theta R).1 = 0 := by
  simp [sirHetMF]
theorem tau0_sirCompactPW (K : Nat) (gamma N : Rat) (S : Nat → Rat) (SS SI R : Rat) (k : Nat) :
    (sirCompactPW K 0 gamma N S SS SI R).1 k = 0 ∧ (sirCompactPW K 0 gamma N S SS SI R).2.1 = 0 := by
  simp [sirCompactPW]
theorem tau0_sisCompactPW (K : Nat) (gamma twoM : Rat) (Nk S : Nat → Rat) (SI SS : Rat) (k : Nat) :
    (sisCompactPW K 0 gamma twoM Nk S SI SS).1 k = gamma * (Nk k - S k) := by
  simp [sisCompactPW]
theorem tau0_sirSuperCompactPW (K : Nat) (c : Nat → Rat) (gamma N theta SS SI R : Rat) :
    (sirSuperCompactPW K c 0 gamma N theta SS SI R).1 = 0 := by
  simp [sirSuperCompactPW]
theorem tau0_ebcm (K : Nat) (c : Nat → Rat) (N gamma phiS0 phiR0 R : Rat) :
    (ebcm K c N 0 gamma phiS0 phiR0 1 R).1 = 0 := by
  simp [ebcm]
theorem tau0_sirIndividual (nbrs : Nat → List Nat) (rr : Nat → Rat) (X Y : Nat → Rat) (i : Nat) :
    (sirIndividual nbrs (fun _ _ => 0) rr X Y).1 i = 0 ∧ (sirIndividual nbrs (fun _ _ => 0) rr X Y).2 i = -rr i * Y i := by
  have h : sumRat ((nbrs i).map fun j => (0 : Rat) * Y j) = 0 := sumRat_map_zero _ _ (fun j _ => by ring)
  simp only [sirIndividual, h]
  constructor <;> ring
theorem tau0_sisIndividual (nbrs : Nat → List Nat) (rr : Nat → Rat) (Y : Nat → Rat) (i : Nat) :
    sisIndividual nbrs (fun _ _ => 0) rr Y i = -rr i * Y i := by
  have h : sumRat ((nbrs i).map fun j => (0 : Rat) * (1 - Y i) * Y j) = 0 :=
    sumRat_map_zero _ _ (fun j _ => by ring)
  simp only [sisIndividual, h]
  ring
/-- compact effective degree: with tau = 0 susceptibles only lose infected *neighbours*; their total is constant -/
theorem tau0_sirCompactED_total (K : Nat) (gamma N : Rat) (Sk : Nat → Rat) (R SI : Rat) :
    sumTo K (sirCompactED K 0 gamma N Sk R SI).1 = 0 := by
  rcases Nat.eq_zero_or_pos K with rfl | hK
  · exact sumTo_zero_left _
  simp only [sirCompactED]
  have h := sumTo_shift_trunc K (fun k => kf k * Sk k) hK
  simp only [kf_zero, zero_mul, sub_zero] at h
  have e : ∀ k, k < K →
      SI / sumTo K (fun k => Sk k * kf k) *
        (-(0 + gamma) * kf k * Sk k + gamma * (if k + 1 < K then kf (k + 1) * Sk (k + 1) else 0))
      = (SI / sumTo K (fun k => Sk k * kf k) * gamma) * (if k + 1 < K then kf (k + 1) * Sk (k + 1) else 0)
        + (-(SI / sumTo K (fun k => Sk k * kf k) * gamma)) * (kf k * Sk k) := fun k _ => by ring
  rw [sumTo_congr K _ _ e, sumTo_add, sumTo_mul_left, sumTo_mul_left, h]; ring

/-! ## C08: gamma = 0 — the SIS and SIR versions have the same susceptible dynamics -/
theorem gamma0_homMF (nN tau S I : Rat) : (sisHomMF nN tau 0 S I).1 = (sirHomMF nN tau 0 S I).1 := by
  simp only [sisHomMF, sirHomMF]; ring
theorem gamma0_homPW (N n tau S I SI SS : Rat) :
    (sisHomPW N n tau 0 S SI SS).1 = (sirHomPW n tau 0 S I SI SS).1 ∧
    (sisHomPW N n tau 0 S SI SS).2.1 = (sirHomPW n tau 0 S I SI SS).2.2.1 ∧
    (sisHomPW N n tau 0 S SI SS).2.2 = (sirHomPW n tau 0 S I SI SS).2.2.2 := by
  simp only [sisHomPW, sirHomPW]
  refine ⟨?_, ?_, ?_⟩ <;> ring
theorem gamma0_compactPW (K : Nat) (tau twoM N : Rat) (Nk S : Nat → Rat) (SI SS R : Rat) (k : Nat) :
    (sisCompactPW K tau 0 twoM Nk S SI SS).1 k = (sirCompactPW K tau 0 N S SS SI R).1 k ∧
    (sisCompactPW K tau 0 twoM Nk S SI SS).2.1 = (sirCompactPW K tau 0 N S SS SI R).2.2.1 ∧
    (sisCompactPW K tau 0 twoM Nk S SI SS).2.2 = (sirCompactPW K tau 0 N S SS SI R).2.1 := by
  simp only [sisCompactPW, sirCompactPW]
  refine ⟨?_, ?_, ?_⟩ <;> ring
theorem gamma0_individual (nbrs : Nat → List Nat) (tr : Nat → Nat → Rat) (Y : Nat → Rat) (i : Nat) :
    -(sisIndividual nbrs tr (fun _ => 0) Y i) = (sirIndividual nbrs tr (fun _ => 0) (fun j => 1 - Y j) Y).1 i := by
  simp only [sisIndividual, sirIndividual]
  have e : sumRat ((nbrs i).map fun j => tr i j * (1 - Y i) * Y j)
      = (1 - Y i) * sumRat ((nbrs i).map fun j => tr i j * Y j) := by
    rw [← sumRat_map_mul_left]
    exact sumRat_map_congr _ _ _ (fun j _ => by ring)
  rw [e]; ring
/-- heterogeneous mean-field: with S_k = S0_k θ^k (and R ≡ 0) the SIR θ-dynamics induce on S_k exactly the SIS
right-hand side: d/dt (S0_k θ^k) = S0_k k θ^(k-1) θ' -/
theorem gamma0_hetMF (K : Nat) (tau : Rat) (S0 : Nat → Rat) (theta : Rat) (I : Nat → Rat) (k : Nat)
    (hN : sumTo K (fun k => kf k * (I k + S0 k * theta ^ k)) ≠ 0) :
    S0 k * (kf k * theta ^ (k - 1)) * (sirHetMF K tau 0 S0 (fun j => S0 j * theta ^ j + I j) theta (fun _ => 0)).1
      = (sisHetMF K tau 0 (fun j => S0 j * theta ^ j) I).1 k := by
  simp only [sirHetMF, sisHetMF, piI]
  have e1 : sumTo K (fun k => kf k * (S0 k * theta ^ k + I k - S0 k * theta ^ k - 0))
      = sumTo K (fun k => kf k * I k) := sumTo_congr _ _ _ (fun k _ => by ring)
  have e2 : sumTo K (fun k => kf k * (S0 k * theta ^ k + I k))
      = sumTo K (fun k => kf k * (I k + S0 k * theta ^ k)) := sumTo_congr _ _ _ (fun k _ => by ring)
  rw [e1, e2]
  have hp := kf_pow_pred k theta
  generalize sumTo K (fun k => kf k * I k) / sumTo K (fun k => kf k * (I k + S0 k * theta ^ k)) = p
  calc S0 k * (kf k * theta ^ (k - 1)) * (-tau * p * theta)
      = -tau * p * S0 k * (kf k * theta ^ (k - 1) * theta) := by ring
    _ = -tau * p * S0 k * (kf k * theta ^ k) := by rw [hp]
    _ = 0 * I k - tau * kf k * (S0 k * theta ^ k) * p := by ring

/-! ## C08: final sizes -/
/-- ω is a fixed point of the iteration of `Attack_rate_cts_time` iff the θ-component of the EBCM right-hand side
vanishes at θ = ω -/
theorem attack_cts_fixed_point (K : Nat) (c : Nat → Rat) (N tau gamma phiS0 phiR0 omega R : Rat)
    (h : gamma + tau ≠ 0) :
    attackCtsMap K c tau gamma phiS0 phiR0 omega = omega ↔ (ebcm K c N tau gamma phiS0 phiR0 omega R).1 = 0 := by
  simp only [attackCtsMap, ebcm]
  have e : gamma / (gamma + tau) + tau * phiS0 * psiHP K c omega / (psiHP K c 1 * (gamma + tau))
        + tau * phiR0 / (gamma + tau)
      = (gamma + tau * phiS0 * psiHP K c omega / psiHP K c 1 + tau * phiR0) / (gamma + tau) := by
    rw [← div_div]; ring
  rw [e, div_eq_iff h]
  constructor <;> intro H <;> linarith

/-- `EBCM_discrete`: R(t+1) = R(t) + I(t), θ follows the iteration of `Attack_rate_discrete`, and S+I+R = N -/
theorem ebcm_discrete_rec (K : Nat) (c : Nat → Rat) (N p phiS0 phiR0 theta I R : Rat) :
    let r := ebcmDiscreteStep K c N p phiS0 phiR0 theta I R
    r.2.2.2 = R + I ∧ r.1 = attackDiscMap K c p phiS0 phiR0 theta ∧ r.2.1 = N * psiH K c r.1 ∧
    r.2.1 + r.2.2.1 + r.2.2.2 = N := by
  simp only [ebcmDiscreteStep, attackDiscMap]
  refine ⟨trivial, trivial, trivial, by ring⟩

/-- at a fixed point of the discrete iteration no new infections occur: S stays put -/
theorem ebcm_discrete_fixed (K : Nat) (c : Nat → Rat) (N p phiS0 phiR0 theta I R : Rat)
    (hfix : attackDiscMap K c p phiS0 phiR0 theta = theta) :
    (ebcmDiscreteStep K c N p phiS0 phiR0 theta I R).2.1 = N * psiH K c theta := by
  simp only [attackDiscMap] at hfix
  simp only [ebcmDiscreteStep, hfix]

/-! ## non-vacuity: the right-hand sides evaluate to the expected numbers at concrete states -/
example : sirHomMF 2 1 (1/2) 10 1 = (-20, 39/2) := by norm_num [sirHomMF]
example : sisHomMF 2 1 (1/2) 10 1 = (-39/2, 39/2) := by norm_num [sisHomMF]
example : (sirHomPW 4 1 (1/2) 10 1 3 20).2.2.1 = -27/40 := by norm_num [sirHomPW]
example : (sirCompactPW 3 1 1 10 (fun k => (k : Rat) + 1) 4 2 1).1 2 = -3/2 := by
  norm_num [sirCompactPW, sumTo, kf, List.range_succ]

end ODE
