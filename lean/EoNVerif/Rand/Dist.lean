import EoNVerif.Basic
/-!
Finite rational distributions: the second interpretation of the random primitives.
`ltUnif x` ↦ Bernoulli(x), `choice n` ↦ uniform on `n`.  Law theorems are about programs written with these,
using the *same* threshold expressions the tape models compare their draws with.
-/

abbrev Dist (α : Type) := List (α × Rat)

namespace Dist
variable {α β : Type}

def pure (a : α) : Dist α := [(a, 1)]
def bind (d : Dist α) (f : α → Dist β) : Dist β :=
  d.flatMap fun (a, p) => (f a).map fun (b, q) => (b, p * q)

/-- total probability of the outcomes satisfying `P` -/
def mass (d : Dist α) (P : α → Bool) : Rat :=
  sumRat (d.map fun (a, p) => if P a then p else 0)

/-- uniform index in `0..n-1` : law of the index used by `random.choice(seq)` with `len(seq)=n` -/
def uniformIdx (n : Nat) : Dist Nat := (List.range n).map fun i => (i, 1 / (n : Rat))
/-- `random.random() < p` for `0 ≤ p ≤ 1` -/
def bern (p : Rat) : Dist Bool := [(true, p), (false, 1 - p)]

end Dist

namespace Dist
variable {α β : Type}
/-- push a distribution forward along `f` -/
def push (f : α → β) (d : Dist α) : Dist β := List.map (fun (a, p) => (f a, p)) d
end Dist
