import EoNVerif.Model.InitCond
import EoNVerif.Model.ODE
import EoNVerif.Model.Discrete
import EoNVerif.Model.Perc
import EoNVerif.Proofs.ListDict
/-!
Helper lemmas for C14: the models depend on the network only through its structure.
(1) permuting each adjacency list changes nothing; (2) relabelling the nodes by a bijection `σ` (inverse `σ'`)
transports every per-node quantity along `σ` and leaves every aggregate unchanged.
-/

/-! ### lists mapped through an injective relabelling -/
namespace Relabel
variable {σ σ' : Nat → Nat}

theorem inj (hl : ∀ i, σ' (σ i) = i) : Function.Injective σ := by
  intro a b h
  have := congrArg σ' h
  rwa [hl, hl] at this

theorem contains_map (hl : ∀ i, σ' (σ i) = i) (l : List Nat) (v : Nat) :
    (l.map σ).contains (σ v) = l.contains v := by
  induction l with
  | nil => rfl
  | cons a t ih =>
    rw [List.map_cons, List.contains_cons, List.contains_cons, ih]
    congr 1
    rw [Bool.eq_iff_iff]
    simp only [beq_iff_eq]
    exact ⟨fun h => inj hl h, fun h => congrArg σ h⟩

theorem filter_map (l : List Nat) (p : Nat → Bool) :
    (l.map σ).filter p = (l.filter fun x => p (σ x)).map σ := by
  rw [List.filter_map]; rfl

theorem any_map (l : List Nat) (p : Nat → Bool) : (l.map σ).any p = l.any fun x => p (σ x) := by
  rw [List.any_map]; rfl

end Relabel

/-! ### initial conditions: insertion order -/
namespace InitCond

theorem counts_adj_perm' (adj adj' : List (List Nat)) (hl : adj.length = adj'.length)
    (hp : ∀ u, u < adj.length → (adj.getD u []).Perm (adj'.getD u [])) (st : Nat → St) (x y : St) (k : Nat) :
    Nk adj k = Nk adj' k ∧ classCount adj st x k = classCount adj' st x k ∧
    pairCount adj st x y = pairCount adj' st x y ∧ twoM adj = twoM adj' := by
  have hd : ∀ u ∈ List.range adj.length, deg adj u = deg adj' u :=
    fun u hu => (hp u (List.mem_range.1 hu)).length_eq
  refine ⟨?_, ?_, ?_, ?_⟩
  · unfold Nk
    rw [← hl]
    congr 1
    apply List.filter_congr
    intro u hu
    rw [hd u hu]
  · unfold classCount
    rw [← hl]
    congr 1
    apply List.filter_congr
    intro u hu
    rw [hd u hu]
  · unfold pairCount
    rw [← hl]
    congr 1
    apply List.map_congr_left
    intro u hu
    rw [((hp u (List.mem_range.1 hu)).filter _).length_eq]
  · unfold twoM
    congr 1
    apply List.ext_getElem
    · simp [hl]
    · intro i h1 h2
      have hi : i < adj.length := by simpa using h1
      have hi' : i < adj'.length := hl ▸ hi
      have := (hp i hi).length_eq
      rw [List.getD_eq_getElem?_getD, List.getD_eq_getElem?_getD, List.getElem?_eq_getElem hi,
        List.getElem?_eq_getElem hi', Option.getD_some, Option.getD_some] at this
      rw [List.getElem_map, List.getElem_map]
      exact this

end InitCond

/-! ### individual-based ODE right-hand sides -/
namespace ODE

theorem sisIndividual_nbr_perm' (nbrs nbrs' : Nat → List Nat) (hp : ∀ i, (nbrs i).Perm (nbrs' i))
    (tr : Nat → Nat → Rat) (rr : Nat → Rat) (Y : Nat → Rat) (i : Nat) :
    sisIndividual nbrs tr rr Y i = sisIndividual nbrs' tr rr Y i := by
  unfold sisIndividual
  rw [sumRat_perm ((hp i).map _)]

theorem sirIndividual_nbr_perm' (nbrs nbrs' : Nat → List Nat) (hp : ∀ i, (nbrs i).Perm (nbrs' i))
    (tr : Nat → Nat → Rat) (rr : Nat → Rat) (X Y : Nat → Rat) (i : Nat) :
    (sirIndividual nbrs tr rr X Y).1 i = (sirIndividual nbrs' tr rr X Y).1 i ∧
    (sirIndividual nbrs tr rr X Y).2 i = (sirIndividual nbrs' tr rr X Y).2 i := by
  unfold sirIndividual
  dsimp only
  rw [sumRat_perm ((hp i).map _)]
  exact ⟨rfl, rfl⟩

theorem sisIndividual_relabel' (σ σ' : Nat → Nat) (hl : ∀ i, σ' (σ i) = i)
    (nbrs nbrs' : Nat → List Nat) (hn : ∀ i, nbrs' (σ i) = (nbrs i).map σ)
    (tr : Nat → Nat → Rat) (rr Y : Nat → Rat) (i : Nat) :
    sisIndividual nbrs' (fun a b => tr (σ' a) (σ' b)) (fun a => rr (σ' a)) (fun a => Y (σ' a)) (σ i)
      = sisIndividual nbrs tr rr Y i := by
  unfold sisIndividual
  rw [hn, List.map_map]
  simp only [Function.comp_def, hl]

theorem sirIndividual_relabel' (σ σ' : Nat → Nat) (hl : ∀ i, σ' (σ i) = i)
    (nbrs nbrs' : Nat → List Nat) (hn : ∀ i, nbrs' (σ i) = (nbrs i).map σ)
    (tr : Nat → Nat → Rat) (rr X Y : Nat → Rat) (i : Nat) :
    let a := sirIndividual nbrs' (fun a b => tr (σ' a) (σ' b)) (fun a => rr (σ' a)) (fun a => X (σ' a)) (fun a => Y (σ' a))
    let b := sirIndividual nbrs tr rr X Y
    a.1 (σ i) = b.1 i ∧ a.2 (σ i) = b.2 i := by
  unfold sirIndividual
  dsimp only
  rw [hn, List.map_map]
  simp only [Function.comp_def, hl]
  exact ⟨trivial, trivial⟩

end ODE

/-! ### the discrete-time simulator -/
namespace Discrete

/-- transport of parameters along a bijection σ (inverse σ') -/
def relabel (σ σ' : Node → Node) (P : DParams) : DParams :=
  { nodes := P.nodes.map σ, nbrs := fun a => (P.nbrs (σ' a)).map σ, rule := fun a x y => P.rule a (σ' x) (σ' y),
    recSteps := P.recSteps.map fun k a => k (σ' a), tmin := P.tmin, tmax := P.tmax }

/-- the contact test `u → v` commutes with relabelling -/
theorem contact_relabel (σ σ' : Node → Node) (hl : ∀ i, σ' (σ i) = i) (P : DParams) (a : Nat) (u v : Node) :
    (((relabel σ σ' P).nbrs (σ u)).contains (σ v) && (relabel σ σ' P).rule a (σ u) (σ v)) =
    ((P.nbrs u).contains v && P.rule a u v) := by
  show (((P.nbrs (σ' (σ u))).map σ).contains (σ v) && P.rule a (σ' (σ u)) (σ' (σ v))) = _
  rw [hl, hl, Relabel.contains_map hl]

theorem ball_relabel' (σ σ' : Node → Node) (hl : ∀ i, σ' (σ i) = i)
    (P : DParams) (infs recs : List Node) (k : Nat) :
    ball (relabel σ σ' P) (infs.map σ) (recs.map σ) k = (ball P infs recs k).map σ := by
  induction k with
  | zero =>
    show ((P.nodes.map σ).filter fun v => (infs.map σ).contains v && !(recs.map σ).contains v) = _
    rw [Relabel.filter_map]
    simp only [Relabel.contains_map hl]
    rfl
  | succ k ih =>
    rw [ball, ih]
    show ((P.nodes.map σ).filter _) = _
    rw [Relabel.filter_map]
    simp only [Relabel.contains_map hl, Relabel.any_map, contact_relabel σ σ' hl]
    rfl

theorem bfs_relabel' (σ σ' : Node → Node) (hl : ∀ i, σ' (σ i) = i)
    (P : DParams) (infs recs : List Node) (v : Node) :
    bfs (relabel σ σ' P) (infs.map σ) (recs.map σ) (σ v) = bfs P infs recs v := by
  unfold bfs
  simp only [ball_relabel' σ σ' hl, Relabel.contains_map hl]
  show (List.range ((P.nodes.map σ).length + 1)).find? _ = _
  rw [List.length_map]

/-! the components of one generation -/
def newInfRl (P : DParams) (s : DState) : List Node :=
  P.nodes.filter fun v => s.sus v && s.inf.any fun u => (P.nbrs u).contains v && P.rule (s.age u) u v
def stayRl (P : DParams) (s : DState) : List Node :=
  match P.recSteps with
  | none => []
  | some k => s.inf.filter fun u => s.age u + 1 < k u
def recovered (P : DParams) (s : DState) : Int :=
  match P.recSteps with
  | none => (s.inf.length : Int)
  | some _ => ((s.inf.length - (stayRl P s).length : Nat) : Int)

theorem step_inf_rl (P : DParams) (s : DState) :
    (step P s).inf = P.nodes.filter fun v => (newInfRl P s).contains v || (stayRl P s).contains v := by
  obtain ⟨nodes, nbrs, rule, recSteps, tmin, tmax⟩ := P
  cases recSteps <;> rfl
theorem step_S_rl (P : DParams) (s : DState) : (step P s).S = (s.nS - ((newInfRl P s).length : Int)) :: s.S := by
  obtain ⟨nodes, nbrs, rule, recSteps, tmin, tmax⟩ := P
  cases recSteps <;> rfl
theorem step_I_rl (P : DParams) (s : DState) : (step P s).I = (((step P s).inf.length : Nat) : Int) :: s.I := by
  obtain ⟨nodes, nbrs, rule, recSteps, tmin, tmax⟩ := P
  cases recSteps <;> rfl
theorem step_R_rl (P : DParams) (s : DState) : (step P s).R = (s.totR + recovered P s) :: s.R := by
  obtain ⟨nodes, nbrs, rule, recSteps, tmin, tmax⟩ := P
  cases recSteps <;> rfl
theorem step_infTime_rl (P : DParams) (s : DState) :
    (step P s).infTime = s.infTime ++ (newInfRl P s).map fun v => (v, s.t.headD P.tmin + 1) := by
  obtain ⟨nodes, nbrs, rule, recSteps, tmin, tmax⟩ := P
  cases recSteps <;> rfl

/-- the relabelled state (only the fields `step` reads through node names are transported) -/
def relabelSt (σ σ' : Node → Node) (s : DState) : DState :=
  { s with sus := fun a => s.sus (σ' a), inf := s.inf.map σ, age := fun a => s.age (σ' a),
           infTime := s.infTime.map fun e => (σ e.1, e.2),
           infectors := s.infectors.map fun e => (σ e.1, e.2.1, e.2.2.map σ) }

theorem newInf_relabel (σ σ' : Node → Node) (hl : ∀ i, σ' (σ i) = i) (P : DParams) (s : DState) :
    newInfRl (relabel σ σ' P) (relabelSt σ σ' s) = (newInfRl P s).map σ := by
  show ((P.nodes.map σ).filter fun v => s.sus (σ' v) && (s.inf.map σ).any fun u =>
    ((relabel σ σ' P).nbrs u).contains v && (relabel σ σ' P).rule (s.age (σ' u)) u v) = _
  rw [Relabel.filter_map]
  simp only [Relabel.any_map, contact_relabel σ σ' hl, hl]
  rfl

theorem stay_relabel (σ σ' : Node → Node) (hl : ∀ i, σ' (σ i) = i) (P : DParams) (s : DState) :
    stayRl (relabel σ σ' P) (relabelSt σ σ' s) = (stayRl P s).map σ := by
  obtain ⟨nodes, nbrs, rule, recSteps, tmin, tmax⟩ := P
  cases recSteps with
  | none => rfl
  | some k =>
    show ((s.inf.map σ).filter fun u => decide (s.age (σ' u) + 1 < k (σ' u))) = _
    rw [Relabel.filter_map]
    simp only [hl]
    rfl

theorem recovered_relabel (σ σ' : Node → Node) (hl : ∀ i, σ' (σ i) = i) (P : DParams) (s : DState) :
    recovered (relabel σ σ' P) (relabelSt σ σ' s) = recovered P s := by
  have hs := stay_relabel σ σ' hl P s
  obtain ⟨nodes, nbrs, rule, recSteps, tmin, tmax⟩ := P
  cases recSteps with
  | none => show (((s.inf.map σ).length : Nat) : Int) = _; rw [List.length_map]; rfl
  | some k =>
    show ((((s.inf.map σ).length - (stayRl _ _).length : Nat)) : Int) = _
    rw [hs, List.length_map, List.length_map]; rfl

theorem step_relabel' (σ σ' : Node → Node) (hl : ∀ i, σ' (σ i) = i) (P : DParams) (s : DState) :
    (step (relabel σ σ' P) (relabelSt σ σ' s)).inf = (step P s).inf.map σ ∧
    (step (relabel σ σ' P) (relabelSt σ σ' s)).S = (step P s).S ∧
    (step (relabel σ σ' P) (relabelSt σ σ' s)).I = (step P s).I ∧
    (step (relabel σ σ' P) (relabelSt σ σ' s)).R = (step P s).R ∧
    (step (relabel σ σ' P) (relabelSt σ σ' s)).infTime = (step P s).infTime.map fun e => (σ e.1, e.2) := by
  have hinf : (step (relabel σ σ' P) (relabelSt σ σ' s)).inf = (step P s).inf.map σ := by
    rw [step_inf_rl, step_inf_rl, newInf_relabel σ σ' hl, stay_relabel σ σ' hl]
    show ((P.nodes.map σ).filter _) = _
    rw [Relabel.filter_map]
    simp only [Relabel.contains_map hl]
  refine ⟨hinf, ?_, ?_, ?_, ?_⟩
  · rw [step_S_rl, step_S_rl, newInf_relabel σ σ' hl, List.length_map]; rfl
  · rw [step_I_rl, step_I_rl, hinf, List.length_map]; rfl
  · rw [step_R_rl, step_R_rl, recovered_relabel σ σ' hl]; rfl
  · rw [step_infTime_rl, step_infTime_rl, newInf_relabel σ σ' hl, List.map_append, List.map_map, List.map_map]
    rfl

end Discrete

/-! ### reachability and the percolation estimator -/
namespace Perc

theorem iter_map {α β : Type} (h : α → β) (f : α → α) (g : β → β) (hc : ∀ x, g (h x) = h (f x)) (n : Nat) (x : α) :
    iter g n (h x) = h (iter f n x) := by
  induction n generalizing x with
  | zero => rfl
  | succ n ih => rw [iter, iter, hc, ih]

theorem reachFrom_relabel' (σ σ' : Node → Node) (hl : ∀ i, σ' (σ i) = i)
    (nodes : List Node) (succ : Node → List Node) (src : List Node) :
    reachFrom (nodes.map σ) (fun a => (succ (σ' a)).map σ) (src.map σ) = (reachFrom nodes succ src).map σ := by
  unfold reachFrom
  rw [List.length_map, Relabel.filter_map]
  simp only [Relabel.contains_map hl]
  apply iter_map (List.map σ)
  intro cur
  rw [Relabel.filter_map]
  simp only [Relabel.contains_map hl, Relabel.any_map, hl]

theorem reach_relabel (σ σ' : Node → Node) (hl : ∀ i, σ' (σ i) = i)
    (nodes : List Node) (succ : Node → List Node) (u v : Node) :
    reach (nodes.map σ) (fun a => (succ (σ' a)).map σ) (σ u) (σ v) = reach nodes succ u v := by
  unfold reach
  have := reachFrom_relabel' σ σ' hl nodes succ [u]
  rw [List.map_cons, List.map_nil] at this
  rw [this, Relabel.contains_map hl]

theorem outC_relabel (σ σ' : Node → Node) (hl : ∀ i, σ' (σ i) = i)
    (nodes : List Node) (succ : Node → List Node) (u : Node) :
    outC (nodes.map σ) (fun a => (succ (σ' a)).map σ) (σ u) = (outC nodes succ u).map σ := by
  unfold outC
  rw [Relabel.filter_map]
  simp only [reach_relabel σ σ' hl]

theorem inC_relabel (σ σ' : Node → Node) (hl : ∀ i, σ' (σ i) = i)
    (nodes : List Node) (succ : Node → List Node) (u : Node) :
    inC (nodes.map σ) (fun a => (succ (σ' a)).map σ) (σ u) = (inC nodes succ u).map σ := by
  unfold inC
  rw [Relabel.filter_map]
  simp only [reach_relabel σ σ' hl]

theorem scc_relabel (σ σ' : Node → Node) (hl : ∀ i, σ' (σ i) = i)
    (nodes : List Node) (succ : Node → List Node) (u : Node) :
    scc (nodes.map σ) (fun a => (succ (σ' a)).map σ) (σ u) = (scc nodes succ u).map σ := by
  unfold scc
  rw [Relabel.filter_map]
  simp only [reach_relabel σ σ' hl]

theorem maxSccSize_relabel (σ σ' : Node → Node) (hl : ∀ i, σ' (σ i) = i)
    (nodes : List Node) (succ : Node → List Node) :
    maxSccSize (nodes.map σ) (fun a => (succ (σ' a)).map σ) = maxSccSize nodes succ := by
  unfold maxSccSize
  rw [List.map_map]
  simp only [Function.comp_def, scc_relabel σ σ' hl, List.length_map]

theorem allowed_relabel' (σ σ' : Node → Node) (hl : ∀ i, σ' (σ i) = i)
    (nodes : List Node) (succ : Node → List Node) :
    allowed (nodes.map σ) (fun a => (succ (σ' a)).map σ) = allowed nodes succ := by
  unfold allowed
  rw [Relabel.filter_map, List.map_map, maxSccSize_relabel σ σ' hl]
  simp only [Function.comp_def, scc_relabel σ σ' hl, inC_relabel σ σ' hl, outC_relabel σ σ' hl, List.length_map]

end Perc
