import EoNVerif.Proofs.GenFastSIR
import EoNVerif.Props.C11b
/-!
C01f — the Lean code GENERATED from `fast_SIR`'s own part (`EoNVerif/Gen/FastSIRGen.lean`, namespace `GenFSIR`:
`_truncated_exponential_`, `_get_rate_functions_`, `_trans_and_rec_time_Markovian_const_trans_`,
`_find_trans_and_rec_delays_SIR_`, the dispatch at the head of `fast_SIR`) against the scripted random tape.

1. `truncated_exponential` returns the scripted `expovariate` draw reduced modulo `T` (`truncMod t T`, the rational
   twin of the real-valued `FastSIRLaw.reduceMod` whose law C01c computes), in `[0,T)`; its four error cases.
2. `get_rate_functions`: the four combinations of weights.
3. `const_trans`: which draws are consumed, which calls are logged, what is returned; every returned delay is
   `< duration`, so every sampled recipient is a kept edge of the percolation picture.
4. the dispatch `fast_SIR_rule` and the per-edge rule (`_find_trans_and_rec_delays_SIR_` with the two nested time
   functions): which draws are consumed in which order.
5. tape determinisation: a successful run of `fast_nonMarkov_SIR` (hence of `fast_SIR`) with an effectful rule asks the
   rule at most once per node; run with a PURE rule returning the drawn values it gives the same objects on any tape.
   Consequences: `fast_SIR` refines the event-queue model `EventSIR` whose rule is the table of drawn values, and its
   output is first-passage percolation (C11 `isFPP`) of the delays and durations it drew — on BOTH branches
   (`fast_SIR_fpp`).  On the per-edge branch the run equals the run with the pure table rule `jointOfTables`
   (`fast_SIR_perEdge_fpp`); on the constant-`tau` branch this equality is false in general (the dict lists the
   recipients in sample order, which decides the order of simultaneous events — see the star example at the end), so
   the invariant of C11 is re-proved for rows in any order (`rows_fpp` in `Proofs/GenFastSIR.lean`).

Helper definitions (`truncMod`, `dictOf`, `timeOfRate`, `perEdgeRule`, `constRule`, `Fits`, `drawsOf`, `callsOf`,
`Chain`, `RuleCall`, `withRule`, `pureRule`, `tableOf`, `delayOf`, `durOf`, `drawnParams`, `TapeNonneg`,
`ConstRowOK`, `DrawnRowOK`, `rowParams`, `RowsOK`, `view`) are in
`EoNVerif/Proofs/GenFastSIR.lean`.
-/
open PyFS GenESIR EventSIR GenFSIRProofs

namespace GenFSIR

/-! ## 1. `_truncated_exponential_` -/

/-- on a tape starting with an `expovariate` draw `t` the function returns `t - int(t/T)*T`, consumes that draw and
logs the call `expovariate(rate)` -/
theorem truncated_exponential_spec {rate T : Rat} (hr : rate ≠ 0) (hT : T ≠ 0) (t : Rat) (rest : List Draw)
    (tr : Array Call) :
    truncated_exponential rate T ⟨Draw.expo t :: rest, tr⟩ =
      .ok (t - ((PyFS.intTrunc (t / T) : Int) : Rat) * T, ⟨rest, tr.push (.expo rate)⟩) :=
  truncated_exponential_ok hr hT t rest tr

/-- `truncMod` is that expression -/
theorem truncMod_def (t T : Rat) : truncMod t T = t - ((PyFS.intTrunc (t / T) : Int) : Rat) * T := rfl

/-- for a non-negative draw and a positive `T` the result is `t mod T`: `t - ⌊t/T⌋ T`, in `[0,T)`, and differs from
`t` by a natural multiple of `T` -/
theorem truncated_exponential_mod {t T : Rat} (ht : 0 ≤ t) (hT : 0 < T) :
    truncMod t T = t - (⌊t / T⌋ : Rat) * T ∧ 0 ≤ truncMod t T ∧ truncMod t T < T ∧
      ∃ k : Nat, t = truncMod t T + (k : Rat) * T :=
  ⟨truncMod_eq_floor ht hT, (truncMod_range ht hT).1, (truncMod_range ht hT).2, truncMod_decomp ht hT⟩

/-- the error cases: `expovariate(0)`, `t/0`, a draw of the wrong kind, an exhausted tape -/
theorem truncated_exponential_errors :
    (∀ T ts, truncated_exponential 0 T ts = .error "ZeroDivisionError") ∧
    (∀ rate, rate ≠ 0 → ∀ t rest tr,
      truncated_exponential rate 0 ⟨Draw.expo t :: rest, tr⟩ = .error "ZeroDivisionError") ∧
    (∀ rate, rate ≠ 0 → ∀ T x, (∀ d, x ≠ Draw.expo d) → ∀ rest tr,
      truncated_exponential rate T ⟨x :: rest, tr⟩ = .error "tape-kind-mismatch:expo") ∧
    (∀ rate, rate ≠ 0 → ∀ T tr, truncated_exponential rate T ⟨[], tr⟩ = .error "tape-exhausted") :=
  ⟨truncated_exponential_rate_zero, fun _ hr t rest tr => truncated_exponential_T_zero hr t rest tr,
    fun _ hr T x hx rest tr => truncated_exponential_kind hr T x hx rest tr,
    fun _ hr T tr => truncated_exponential_nil hr T tr⟩

/-- **link to C01c**: the rational value is the real folding function `FastSIRLaw.reduceMod` (the body of
`_truncated_exponential_` after the draw, `Proofs/FastSIRLaw2.lean`) at the same draw — for every `t`, `T` -/
theorem truncated_exponential_real (t T : Rat) :
    ((truncMod t T : Rat) : ℝ) = FastSIRLaw.reduceMod (T : ℝ) (t : ℝ) :=
  truncMod_cast t T

/-- hence, when the scripted draw is `expovariate(r)` of the uniform `u`, the returned value is `truncExp r T u`, whose
law C01c computes -/
theorem truncated_exponential_truncExp (t T : Rat) (r u : ℝ) (h : (t : ℝ) = FastSIRLaw.expovariate r u) :
    ((truncMod t T : Rat) : ℝ) = FastSIRLaw.truncExp r (T : ℝ) u := by
  rw [truncMod_cast, h]; rfl

example : view (truncated_exponential 2 (3/4) ⟨[Draw.expo (7/4)], #[]⟩) = .ok (1/4, [], [Call.expo 2]) := by
  decide +kernel
example : truncMod (7/4) (3/4) = 1/4 ∧ (0 : Rat) ≤ 1/4 ∧ (1/4 : Rat) < 3/4 ∧ (7/4 : Rat) = 1/4 + (2 : Nat) * (3/4) := by
  decide +kernel
example : view (truncated_exponential 0 1 ⟨[Draw.expo 1], #[]⟩) = .error "ZeroDivisionError" := by decide +kernel
example : view (truncated_exponential 2 0 ⟨[Draw.expo 1], #[]⟩) = .error "ZeroDivisionError" := by decide +kernel
example : view (truncated_exponential 2 1 ⟨[Draw.unif 1], #[]⟩) = .error "tape-kind-mismatch:expo" := by decide +kernel
example : view (truncated_exponential 2 1 ⟨[], #[]⟩) = .error "tape-exhausted" := by decide +kernel

/-! ## 2. `_get_rate_functions_` -/

theorem get_rate_functions_spec (tau gamma : Rat) :
    (∀ x y, (get_rate_functions tau gamma none none).1 x y = .ok tau) ∧
    (∀ x, (get_rate_functions tau gamma none none).2 x = .ok gamma) ∧
    (∀ (rw : Option Rate1) x y, (get_rate_functions tau gamma none rw).1 x y = .ok tau) ∧
    (∀ (tw : Option Rate2) x, (get_rate_functions tau gamma tw none).2 x = .ok gamma) ∧
    (∀ (tw : Rate2) (rw : Option Rate1) x y,
      (get_rate_functions tau gamma (some tw) rw).1 x y = (tw x y).map (tau * ·)) ∧
    (∀ (tw : Option Rate2) (rw : Rate1) x,
      (get_rate_functions tau gamma tw (some rw)).2 x = (rw x).map (gamma * ·)) :=
  ⟨fun _ _ => rfl, fun _ => rfl, fun _ _ _ => rfl, fun _ _ => rfl,
    fun tw rw x y => get_rate_functions_trans_some tau gamma tw rw x y,
    fun tw rw x => get_rate_functions_rec_some tau gamma tw rw x⟩

example : (get_rate_functions 2 3 (some fun x y => .ok ((x + y : Nat) : Rat)) none).1 1 4 = .ok 10 := by decide +kernel
example : (get_rate_functions 2 3 (some fun _ _ => .error "KeyError") none).1 1 4 = .error "KeyError" := by
  decide +kernel
example : (get_rate_functions 2 3 none (some fun x => .ok ((x : Nat) : Rat))).2 5 = .ok 15 := by decide +kernel

/-! ## 3. `_trans_and_rec_time_Markovian_const_trans_` -/

/-- on a tape `expo d :: binom k :: sample idx :: k expo draws ++ rest` (with `k ≤ len(sus)`, `idx` a valid sample)
the run succeeds, leaves `rest`, logs exactly `expovariate(r)`, `binomial(len(sus), 1 - exp(-tau d))`,
`sample(sus, k)` and `k` times `expovariate(tau)`; the duration is `d`, the dict maps the sampled recipients (in
sample order, through `dict` assignment) to the draws reduced modulo `d` -/
theorem const_trans_spec (exp : Rat → Rat) (node : Node) (sus : List Node) {tau : Rat} (rec_rate_fxn : Rate1) {r : Rat}
    (hr : rec_rate_fxn node = .ok r) (hr0 : r ≠ 0) (htau : tau ≠ 0) {d : Rat} (hd : d ≠ 0) {k : Nat}
    (hk : k ≤ sus.length) (idx : List Nat) (hl : idx.length = k) (hlt : ∀ i ∈ idx, i < sus.length) (hnd : idx.Nodup)
    (ts : List Rat) (hts : ts.length = k) (rest : List Draw) (tr : Array Call) :
    const_trans exp node sus tau rec_rate_fxn
        ⟨Draw.expo d :: Draw.binom k :: Draw.sample idx :: (ts.map Draw.expo ++ rest), tr⟩ =
      .ok ((dictOf [] (idx.map (sus.getD · 0)) (ts.map fun t => some (truncMod t d)), some d),
        ⟨rest, tr ++ ([Call.expo r, Call.binom sus.length (1 - exp (-tau * d)), Call.sample sus.length k]
                ++ List.replicate k (Call.expo tau)).toArray⟩) :=
  const_trans_ok exp node sus rec_rate_fxn hr hr0 htau hd hk idx hl hlt hnd ts hts rest tr

/-- when the susceptible neighbours are distinct, so are the recipients, and the dict is the list of pairs
(recipient, delay) in sample order: its keys are exactly the recipients, `dict[recipient i] = t_i mod d`, and no other
node has an entry -/
theorem const_trans_dict {sus : List Node} (hs : sus.Nodup) {idx : List Nat} (hlt : ∀ i ∈ idx, i < sus.length)
    (hnd : idx.Nodup) (ts : List Rat) (hts : ts.length = idx.length) (d : Rat) :
    let recips := idx.map (sus.getD · 0)
    let vals := ts.map fun t => some (truncMod t d)
    let dict := dictOf [] recips vals
    recips.Nodup ∧ dict = recips.zip vals ∧ dict.map (·.1) = recips ∧
      (∀ (i : Nat) (h1 : i < recips.length) (h2 : i < ts.length),
        alGet dict none recips[i] = some (truncMod ts[i] d)) ∧
      ∀ v, v ∉ recips → alGet dict none v = none := by
  intro recips vals dict
  have hrn : recips.Nodup := recipients_nodup hs hlt hnd
  have hlen : recips.length = vals.length := by simp [recips, vals, hts]
  have hd : dict = recips.zip vals := dictOf_nil_nodup recips vals hlen hrn
  refine ⟨hrn, hd, ?_, ?_, ?_⟩
  · rw [hd, List.map_fst_zip]; omega
  · intro i h1 h2
    rw [hd, alGet_zip hrn vals hlen i h1 (by omega)]
    simp [vals]
  · intro v hv
    rw [hd]; exact alGet_zip_not_mem hv vals

/-- **every returned delay is strictly below the duration** (for non-negative draws and a positive duration): each
entry of the dict is `some x` with `0 ≤ x < d`, in particular `delay ≤ duration` — every sampled recipient is a kept
edge.  (No `Nodup` assumption: holds for the raw `dictOf`.) -/
theorem const_trans_delay_lt_duration (recips : List Node) (ts : List Rat) {d : Rat} (hd : 0 < d)
    (hts : ∀ t ∈ ts, 0 ≤ t) :
    ∀ p ∈ dictOf [] recips (ts.map fun t => some (truncMod t d)),
      p.1 ∈ recips ∧ (∃ x, p.2 = some x ∧ 0 ≤ x ∧ x < d) ∧ ERat.lt p.2 (some d) = true ∧
        ERat.le p.2 (some d) = true := by
  intro p hp
  rcases mem_dictOf recips _ [] p hp with hp | ⟨h1, h2⟩
  · cases hp
  · obtain ⟨t, ht, e⟩ := List.mem_map.1 h2
    obtain ⟨g1, g2⟩ := truncMod_range (hts t ht) hd
    refine ⟨h1, ⟨_, e.symm, g1, g2⟩, ?_, ?_⟩
    · rw [← e]; simpa [ERat.lt] using g2
    · rw [← e]; simpa [ERat.le] using g2.le

/-- with `k = 0` no `expovariate(tau)` is drawn and the dict is empty (no assumption on `tau`) -/
theorem const_trans_none_infected (exp : Rat → Rat) (node : Node) (sus : List Node) (tau : Rat) (rec_rate_fxn : Rate1)
    {r : Rat} (hr : rec_rate_fxn node = .ok r) (hr0 : r ≠ 0) (d : Rat) (rest : List Draw) (tr : Array Call) :
    const_trans exp node sus tau rec_rate_fxn ⟨Draw.expo d :: Draw.binom 0 :: Draw.sample [] :: rest, tr⟩ =
      .ok (([], some d),
        ⟨rest, tr ++ [Call.expo r, Call.binom sus.length (1 - exp (-tau * d)), Call.sample sus.length 0].toArray⟩) :=
  const_trans_k_zero exp node sus tau rec_rate_fxn hr hr0 d rest tr

/-- a zero recovery rate raises `ZeroDivisionError` (`random.expovariate(0)`), a missing weight its `KeyError` -/
theorem const_trans_errors (exp : Rat → Rat) (node : Node) (sus : List Node) (tau : Rat) (rec_rate_fxn : Rate1)
    (ts : TapeSt) :
    (rec_rate_fxn node = .ok 0 → const_trans exp node sus tau rec_rate_fxn ts = .error "ZeroDivisionError") ∧
    (∀ e, rec_rate_fxn node = .error e → const_trans exp node sus tau rec_rate_fxn ts = .error e) :=
  ⟨fun h => const_trans_rate_zero exp node sus tau rec_rate_fxn h ts,
    fun _ h => const_trans_rate_error exp node sus tau rec_rate_fxn h ts⟩

/-- `exp ≡ 1/2`, three susceptible neighbours `5, 6, 7`, two of them (`7` then `5`) receive a transmission, the draws
`1` and `4` are reduced modulo the duration `3/2` (both to `1`); the unrelated draw at the end is left -/
example : view (const_trans (fun _ => 1/2) 0 [5, 6, 7] 2 (fun _ => .ok 1)
      ⟨[Draw.expo (3/2), Draw.binom 2, Draw.sample [2, 0], Draw.expo 1, Draw.expo 4, Draw.unif 0], #[]⟩) =
    .ok (([(7, some 1), (5, some 1)], some (3/2)), [Draw.unif 0],
      [Call.expo 1, Call.binom 3 (1/2), Call.sample 3 2, Call.expo 2, Call.expo 2]) := by
  decide +kernel
/-- the same through `const_trans_spec` -/
example : const_trans (fun _ => 1/2) 0 [5, 6, 7] 2 (fun _ => .ok 1)
      ⟨Draw.expo (3/2) :: Draw.binom 2 :: Draw.sample [2, 0] :: ([1, 4].map Draw.expo ++ [Draw.unif 0]), #[]⟩ =
    .ok ((dictOf [] ([2, 0].map ([5, 6, 7].getD · 0)) ([1, 4].map fun t => some (truncMod t (3/2))), some (3/2)),
      ⟨[Draw.unif 0], #[] ++ ([Call.expo 1, Call.binom 3 (1 - (fun _ => (1/2 : Rat)) (-2 * (3/2))), Call.sample 3 2]
        ++ List.replicate 2 (Call.expo 2)).toArray⟩) :=
  const_trans_spec _ 0 [5, 6, 7] _ rfl (by decide) (by decide) (by decide +kernel) (by decide) [2, 0] rfl (by decide)
    (by decide) [1, 4] rfl _ _
example : view (const_trans (fun _ => 1/2) 0 [5, 6, 7] 2 (fun _ => .ok 1)
      ⟨[Draw.expo (3/2), Draw.binom 0, Draw.sample [], Draw.unif 0], #[]⟩) =
    .ok (([], some (3/2)), [Draw.unif 0], [Call.expo 1, Call.binom 3 (1/2), Call.sample 3 0]) := by
  decide +kernel
example : view (const_trans (fun _ => 1/2) 0 [5, 6, 7] 2 (fun _ => .ok 0) ⟨[Draw.expo 1], #[]⟩) =
    .error "ZeroDivisionError" := by decide +kernel
/-- a sample of the wrong size is refused by the tape -/
example : view (const_trans (fun _ => 1/2) 0 [5, 6, 7] 2 (fun _ => .ok 1)
      ⟨[Draw.expo (3/2), Draw.binom 2, Draw.sample [2], Draw.expo 1], #[]⟩) = .error "tape-bad-sample" := by
  decide +kernel

/-! ## 4. the dispatch and `_find_trans_and_rec_delays_SIR_` -/

/-- `fast_SIR` uses the constant-`tau` rule exactly when there is no transmission weight and `tau * gamma ≠ 0`,
otherwise `_find_trans_and_rec_delays_SIR_` with the two nested time functions -/
theorem fast_SIR_rule_dispatch (exp : Rat → Rat) (tau gamma : Rat) (tw : Option Rate2) (rw : Option Rate1) :
    fast_SIR_rule exp tau gamma tw rw =
      if tw = none ∧ tau * gamma ≠ 0 then
        fun node sus => const_trans exp node sus tau (get_rate_functions tau gamma tw rw).2
      else
        fun node sus => find_trans_and_rec_delays_SIR node sus
          (fun u v => timeOfRate ((get_rate_functions tau gamma tw rw).1 u v))
          (fun u => timeOfRate ((get_rate_functions tau gamma tw rw).2 u)) :=
  fast_SIR_rule_eq exp tau gamma tw rw

/-- the nested time functions: `∞` without a draw at a non-positive rate, one `expovariate(rate)` otherwise, the
rate function's `KeyError` propagates -/
theorem timeOfRate_spec :
    (∀ r, ¬ 0 < r → ∀ ts, timeOfRate (.ok r) ts = .ok (none, ts)) ∧
    (∀ r, 0 < r → ∀ d rest tr,
      timeOfRate (.ok r) ⟨Draw.expo d :: rest, tr⟩ = .ok (some d, ⟨rest, tr.push (.expo r)⟩)) ∧
    (∀ e ts, timeOfRate (.error e) ts = .error e) :=
  ⟨fun _ h ts => timeOfRate_nonpos h ts, fun _ h d rest tr => timeOfRate_pos h d rest tr, timeOfRate_error⟩

/-- **the per-edge rule** for node `u` with recovery rate `ru` and transmission rates `rs` (one per susceptible
neighbour): given values `dur`, `xs` that fit the rates (`some` iff the rate is positive), on the tape made of the
finite ones among `dur :: xs` (in this order) followed by `rest` it returns the dict built from `sus` and `xs` and the
duration `dur`, leaves `rest`, and logs one `expovariate` per positive rate, in the same order -/
theorem find_trans_and_rec_delays_SIR_spec (trans_rate_fxn : Rate2) (rec_rate_fxn : Rate1) (u : Node) (sus : List Node)
    {ru : Rat} (hru : rec_rate_fxn u = .ok ru) (rs : List Rat)
    (hrs : List.Forall₂ (fun v r => trans_rate_fxn u v = .ok r) sus rs) {dur : ERat} (hdur : Fits ru dur)
    (xs : List ERat) (hxs : List.Forall₂ Fits rs xs) (rest : List Draw) (tr : Array Call) :
    find_trans_and_rec_delays_SIR u sus (fun a b => timeOfRate (trans_rate_fxn a b))
        (fun a => timeOfRate (rec_rate_fxn a)) ⟨drawsOf (dur :: xs) ++ rest, tr⟩ =
      .ok ((dictOf [] sus xs, dur), ⟨rest, tr ++ (callsOf (ru :: rs)).toArray⟩) :=
  find_delays_ok trans_rate_fxn rec_rate_fxn u sus hru rs hrs hdur xs hxs rest tr

/-- for distinct susceptible neighbours the dict is `sus` zipped with the values -/
theorem find_trans_and_rec_delays_SIR_dict (sus : List Node) (xs : List ERat) (hl : sus.length = xs.length)
    (hs : sus.Nodup) : dictOf [] sus xs = sus.zip xs ∧ (dictOf [] sus xs).map (·.1) = sus := by
  rw [dictOf_nil_nodup sus xs hl hs, List.map_fst_zip (by omega)]
  exact ⟨rfl, rfl⟩

/-- whatever the tape: a successful call returned `sus` paired (through `dict` assignment) with values that are `∞`
or `expovariate` draws of the tape, a duration of the same kind, and left a part of the tape -/
theorem find_trans_and_rec_delays_SIR_inv {trans_rate_fxn : Rate2} {rec_rate_fxn : Rate1} {u : Node} {sus : List Node}
    {ts : TapeSt} {r : List (Node × ERat) × ERat} {ts' : TapeSt}
    (h : find_trans_and_rec_delays_SIR u sus (fun a b => timeOfRate (trans_rate_fxn a b))
      (fun a => timeOfRate (rec_rate_fxn a)) ts = .ok (r, ts')) :
    ∃ xs : List ERat, xs.length = sus.length ∧ r.1 = dictOf [] sus xs ∧
      (∀ d, some d ∈ r.2 :: xs → Draw.expo d ∈ ts.tape) ∧ ∀ y ∈ ts'.tape, y ∈ ts.tape :=
  find_delays_inv h

/-- the recovery weight's `KeyError` is raised before anything is drawn -/
theorem find_trans_and_rec_delays_SIR_error (trans_rate_fxn : Rate2) (rec_rate_fxn : Rate1) (u : Node)
    (sus : List Node) {e : String} (hru : rec_rate_fxn u = .error e) (ts : TapeSt) :
    find_trans_and_rec_delays_SIR u sus (fun a b => timeOfRate (trans_rate_fxn a b))
      (fun a => timeOfRate (rec_rate_fxn a)) ts = .error e :=
  find_delays_rate_error trans_rate_fxn rec_rate_fxn u sus hru ts

/-- no weights, `tau * gamma ≠ 0`: the constant-`tau` rule (the first call is `expovariate(gamma)`, then `binomial`) -/
example : fast_SIR_rule (fun _ => 1/2) 2 1 none none =
    fun node sus => const_trans (fun _ => 1/2) node sus 2 (get_rate_functions 2 1 none none).2 := by
  rw [fast_SIR_rule_dispatch, if_pos (by decide +kernel)]
example : view (fast_SIR_rule (fun _ => 1/2) 2 1 none none 0 [5, 6, 7]
      ⟨[Draw.expo (3/2), Draw.binom 2, Draw.sample [2, 0], Draw.expo 1, Draw.expo 4, Draw.unif 0], #[]⟩) =
    .ok (([(7, some 1), (5, some 1)], some (3/2)), [Draw.unif 0],
      [Call.expo 1, Call.binom 3 (1/2), Call.sample 3 2, Call.expo 2, Call.expo 2]) := by
  decide +kernel
/-- a transmission weight (here `0` on the edge to `6`): per-edge rule; the zero-rate edge gets `∞` without a draw -/
example : view (fast_SIR_rule (fun _ => 1/2) 2 1 (some fun _ y => .ok (if y = 6 then 0 else 1)) none 0 [5, 6, 7]
      ⟨[Draw.expo 3, Draw.expo 1, Draw.expo 2, Draw.unif 0], #[]⟩) =
    .ok (([(5, some 1), (6, none), (7, some 2)], some 3), [Draw.unif 0], [Call.expo 1, Call.expo 2, Call.expo 2]) := by
  decide +kernel
/-- `tau * gamma = 0` (here `gamma = 0`): per-edge rule, infinite duration, nothing drawn for it -/
example : view (fast_SIR_rule (fun _ => 1/2) 2 0 none none 0 [5, 6]
      ⟨[Draw.expo 1, Draw.expo 2, Draw.unif 0], #[]⟩) =
    .ok (([(5, some 1), (6, some 2)], none), [Draw.unif 0], [Call.expo 2, Call.expo 2]) := by
  decide +kernel
example : fast_SIR_rule (fun _ => 1/2) 2 0 none none = perEdgeRule 2 0 none none := by
  rw [fast_SIR_rule_eq, if_neg (by decide +kernel)]
/-- a missing edge weight raises `KeyError` after the duration has been drawn -/
example : view (fast_SIR_rule (fun _ => 1/2) 2 1 (some fun _ _ => .error "KeyError") none 0 [5]
      ⟨[Draw.expo 3, Draw.expo 1], #[]⟩) = .error "KeyError" := by
  decide +kernel
/-- the shape theorem instantiated on the weighted example -/
example : find_trans_and_rec_delays_SIR 0 [5, 6, 7]
      (fun a b => timeOfRate ((fun _ y => .ok (if y = 6 then 0 else 2) : Rate2) a b))
      (fun a => timeOfRate ((fun _ => .ok 1 : Rate1) a))
      ⟨drawsOf (some 3 :: [some 1, none, some 2]) ++ [Draw.unif 0], #[]⟩ =
    .ok ((dictOf [] [5, 6, 7] [some 1, none, some 2], some 3),
      ⟨[Draw.unif 0], #[] ++ (callsOf (1 :: [2, 0, 2])).toArray⟩) :=
  find_trans_and_rec_delays_SIR_spec _ _ 0 [5, 6, 7] rfl [2, 0, 2]
    (.cons rfl (.cons rfl (.cons rfl .nil))) (by unfold Fits; decide +kernel) [some 1, none, some 2]
    (.cons (by unfold Fits; decide +kernel) (.cons (by unfold Fits; decide +kernel)
      (.cons (by unfold Fits; decide +kernel) .nil))) _ _

/-! ## 5. tape determinisation -/

/-- **one event**: a successful call of `_process_trans_SIR_` with an effectful rule called the rule at most once (for
`target`, which was susceptible and no longer is; `Chain` threads the tape through that call and says nothing else
touched it) and equals, on any tape, the call with any pure rule returning the drawn value at that argument -/
theorem process_trans_determinise (A : EArgs) (time : ERat) (source : Option Node) (target : Node) (σ : Loc)
    (ts : TapeSt) (σ' : Loc) (ts' : TapeSt) (h : process_trans A time source target σ ts = .ok (σ', ts')) :
    ∃ calls : List RuleCall, Chain A.transRec ts calls ts' ∧ calls.length ≤ 1 ∧
      (∀ c ∈ calls, c.1 = target ∧ σ.status c.1 = St.S ∧ σ'.status c.1 ≠ St.S ∧
        ∃ p, c.2.1 = (A.nbrs c.1).filter p) ∧
      ∀ J, (∀ c ∈ calls, J c.1 c.2.1 = c.2.2) → ∀ ts0,
        process_trans (withRule A (pureRule J)) time source target σ ts0 = .ok (σ', ts0) := by
  obtain ⟨calls, hS, hJ⟩ := process_trans_det' A time source target σ ts σ' ts' h
  exact ⟨calls, hS.1.chain, hS.1.len, fun c hc => ⟨hS.2 c hc, hS.1.called c hc⟩, hJ⟩

/-- **the whole of `fast_nonMarkov_SIR`, any effectful rule**: a successful run asked the rule at most once per node,
always with a sublist of the node's neighbours; the calls consumed the tape one after the other and nothing else
touched it; with any PURE rule returning the drawn values at these arguments the run returns the same objects, on
any tape -/
theorem run_determinise (A : EArgs) (infs recs : List Node) (fuel : Nat) (ts : TapeSt) (σ : Loc) (ts' : TapeSt)
    (h : run A infs recs fuel ts = .ok (σ, ts')) :
    ∃ calls : List RuleCall, Chain A.transRec ts calls ts' ∧ (calls.map (·.1)).Nodup ∧
      (∀ c ∈ calls, ∃ p, c.2.1 = (A.nbrs c.1).filter p) ∧
      (∀ J, (∀ c ∈ calls, J c.1 c.2.1 = c.2.2) → ∀ ts0,
        run (withRule A (pureRule J)) infs recs fuel ts0 = .ok (σ, ts0)) ∧
      ∀ ts0, run (withRule A (pureRule fun u _ => tableOf calls u)) infs recs fuel ts0 = .ok (σ, ts0) := by
  obtain ⟨calls, hC, hN, hP, hJ⟩ := run_det A infs recs fuel ts σ ts' h
  exact ⟨calls, hC, hN, hP, hJ, hJ _ (tableOf_agrees calls hN)⟩

/-- **`fast_SIR`, both branches** -/
theorem fast_SIR_determinise (exp : Rat → Rat) (nbrs : Node → List Node) (n : Nat) (tmin : Rat) (tmax : ERat)
    (tau gamma : Rat) (tw : Option Rate2) (rw : Option Rate1) (infs recs : List Node) (fuel : Nat) (ts : TapeSt)
    (σ : Loc) (ts' : TapeSt) (h : fast_SIR exp nbrs n tmin tmax tau gamma tw rw infs recs fuel ts = .ok (σ, ts')) :
    ∃ calls : List RuleCall, Chain (fast_SIR_rule exp tau gamma tw rw) ts calls ts' ∧ (calls.map (·.1)).Nodup ∧
      (∀ c ∈ calls, ∃ p, c.2.1 = (nbrs c.1).filter p) ∧
      ∀ J, (∀ c ∈ calls, J c.1 c.2.1 = c.2.2) → ∀ ts0,
        run { nbrs := nbrs, order := n, tmin := tmin, tmax := tmax, transRec := pureRule J } infs recs fuel ts0 =
          .ok (σ, ts0) :=
  fast_SIR_det' exp nbrs n tmin tmax tau gamma tw rw infs recs fuel ts σ ts' h

/-- **`fast_SIR` refines the event-queue model** (both branches): whenever it returns, its objects are those of the
hand-written model `EventSIR` (with `heapq`'s tie-breaking) whose rule is the table of the values drawn from the tape
(`drawnParams … calls`: node `u ↦` what the rule returned for `u`), and the model's queue is empty -/
theorem fast_SIR_refines_model (exp : Rat → Rat) (nodes : List Node) (nbrs : Node → List Node) (tmin : Rat)
    (tmax : ERat) (tau gamma : Rat) (tw : Option Rate2) (rw : Option Rate1) (infs recs : List Node) (fuel : Nat)
    (ts : TapeSt) (σ : Loc) (ts' : TapeSt)
    (h : fast_SIR exp nbrs nodes.length tmin tmax tau gamma tw rw infs recs fuel ts = .ok (σ, ts')) :
    ∃ calls : List RuleCall, Chain (fast_SIR_rule exp tau gamma tw rw) ts calls ts' ∧ (calls.map (·.1)).Nodup ∧
      (EventSIR.run (drawnParams nodes nbrs tmin tmax calls) (fun _ => 0) infs recs fuel).queue = [] ∧
      OutRel infs.length σ (EventSIR.run (drawnParams nodes nbrs tmin tmax calls) (fun _ => 0) infs recs fuel) := by
  obtain ⟨calls, hC, hN, _, hJ⟩ :=
    fast_SIR_det' exp nbrs nodes.length tmin tmax tau gamma tw rw infs recs fuel ts σ ts' h
  have hrun := hJ (fun u _ => tableOf calls u) (tableOf_agrees calls hN) ts
  have hA : Agree (EArgs.mk nbrs nodes.length tmin tmax (pureRule (fun u _ => tableOf calls u)))
      (drawnParams nodes nbrs tmin tmax calls) :=
    ⟨rfl, rfl, rfl, rfl, fun _ _ => rfl⟩
  have hW : WFJ (drawnParams nodes nbrs tmin tmax calls) := by
    apply drawnParams_WFJ
    intro c hc
    obtain ⟨t1, t2, e⟩ := hC.mem c hc
    exact fast_SIR_rule_keys exp tau gamma tw rw _ _ _ _ _ e
  obtain ⟨_, hq, hO⟩ := gen_run_refines hA hW infs recs fuel ts σ ts hrun
  exact ⟨calls, hC, hN, hq, hO⟩

/-- **`fast_SIR` on the constant-`tau` branch**: on a tape of non-negative `expovariate` values, whenever `fast_SIR`
returns, every value the rule returned (`ConstRowOK`) has a finite duration `≥ 0`, distinct keys among the susceptible
neighbours it was called with, and finite delays `0 ≤ x < duration`; in the tables read off the calls every edge with
a finite delay is therefore a kept edge (`delay < duration`) — the percolation picture of the constant-`tau` sampler —
and the returned objects are those of the event-queue model run on these drawn values.
(First-passage percolation for this branch: `fast_SIR_const_fpp` below.) -/
theorem fast_SIR_const_kept (exp : Rat → Rat) (nodes : List Node) (nbrs : Node → List Node) (tmin : Rat) (tmax : ERat)
    (tau gamma : Rat) (tw : Option Rate2) (rw : Option Rate1) (hbranch : tw = none ∧ tau * gamma ≠ 0)
    (infs recs : List Node) (fuel : Nat) (ts : TapeSt) (hts : TapeNonneg ts) (σ : Loc) (ts' : TapeSt)
    (h : fast_SIR exp nbrs nodes.length tmin tmax tau gamma tw rw infs recs fuel ts = .ok (σ, ts')) :
    ∃ calls : List RuleCall,
      Chain (fun node sus => const_trans exp node sus tau (get_rate_functions tau gamma tw rw).2) ts calls ts' ∧
      (calls.map (·.1)).Nodup ∧ (∀ c ∈ calls, ConstRowOK c) ∧
      (∀ u v, delayOf calls u v ≠ none →
        (∃ x, delayOf calls u v = some x ∧ 0 ≤ x) ∧ (∃ d, durOf calls u = some d ∧ 0 ≤ d) ∧
          ERat.lt (delayOf calls u v) (durOf calls u) = true) ∧
      (EventSIR.run (drawnParams nodes nbrs tmin tmax calls) (fun _ => 0) infs recs fuel).queue = [] ∧
      OutRel infs.length σ (EventSIR.run (drawnParams nodes nbrs tmin tmax calls) (fun _ => 0) infs recs fuel) := by
  obtain ⟨calls, hC, hN, hrow, _, _, hJ⟩ :=
    fast_SIR_const_rows exp nbrs nodes.length tmin tmax tau gamma tw rw hbranch infs recs fuel ts hts σ ts' h
  have hrun := hJ (fun u _ => tableOf calls u) (tableOf_agrees calls hN) ts
  have hA : Agree (EArgs.mk nbrs nodes.length tmin tmax (pureRule (fun u _ => tableOf calls u)))
      (drawnParams nodes nbrs tmin tmax calls) :=
    ⟨rfl, rfl, rfl, rfl, fun _ _ => rfl⟩
  have hW : WFJ (drawnParams nodes nbrs tmin tmax calls) :=
    drawnParams_WFJ nodes nbrs tmin tmax calls (fun c hc => (hrow c hc).2.1)
  obtain ⟨_, hq, hO⟩ := gen_run_refines hA hW infs recs fuel ts σ ts hrun
  exact ⟨calls, hC, hN, hrow, fun u v huv => const_tables_kept hrow u v huv, hq, hO⟩

/-- **`fast_SIR` is first-passage percolation of the values it drew — both branches, one statement.**  On a
well-formed graph (`WF` with trivial tables = its graph part) and a tape of non-negative `expovariate` values, whenever
`fast_SIR` returns: the rule was asked at most once per node, the calls consumed the tape one after the other and
nothing else touched it (`Chain`), every returned row has distinct keys among the susceptible neighbours it was asked
about and non-negative values (`DrawnRowOK`), the returned objects are those of the event-queue model run on the drawn
rows, and the reported transmissions and recoveries satisfy C11's `isFPP` for the delay / duration tables read off the
calls (`delayOf`, `durOf`: `∞` where nothing was drawn) -/
theorem fast_SIR_fpp (exp : Rat → Rat) (nodes : List Node) (nbrs : Node → List Node) (tmin : Rat) (tmax : ERat)
    (tau gamma : Rat) (tw : Option Rate2) (rw : Option Rate1)
    (infs recs : List Node) (hG : WF nodes nbrs (fun _ _ => none) (fun _ => none) infs recs)
    (fuel : Nat) (ts : TapeSt) (hts : TapeNonneg ts) (σ : Loc) (ts' : TapeSt)
    (h : fast_SIR exp nbrs nodes.length tmin tmax tau gamma tw rw infs recs fuel ts = .ok (σ, ts')) :
    ∃ calls : List RuleCall, Chain (fast_SIR_rule exp tau gamma tw rw) ts calls ts' ∧ (calls.map (·.1)).Nodup ∧
      (∀ c ∈ calls, DrawnRowOK c) ∧ TapeNonneg ts' ∧
      WF nodes nbrs (delayOf calls) (durOf calls) infs recs ∧
      OutRel infs.length σ (EventSIR.run (drawnParams nodes nbrs tmin tmax calls) (fun _ => 0) infs recs fuel) ∧
      isFPP nodes nbrs (delayOf calls) (durOf calls) tmin tmax infs recs (genTrans σ) (genRecov nodes recs σ) = true := by
  obtain ⟨calls, hC, hN, hrow, hn', hP, hJ⟩ :=
    fast_SIR_rows exp nbrs nodes.length tmin tmax tau gamma tw rw infs recs fuel ts hts σ ts' h
  have hrun := hJ (fun u _ => tableOf calls u) (tableOf_agrees calls hN) ts
  have hA : Agree (EArgs.mk nbrs nodes.length tmin tmax (pureRule (fun u _ => tableOf calls u)))
      (drawnParams nodes nbrs tmin tmax calls) :=
    ⟨rfl, rfl, rfl, rfl, fun _ _ => rfl⟩
  have hW : WFJ (drawnParams nodes nbrs tmin tmax calls) :=
    drawnParams_WFJ nodes nbrs tmin tmax calls (fun c hc => (hrow c hc).1)
  obtain ⟨_, hq, hO⟩ := gen_run_refines hA hW infs recs fuel ts σ ts hrun
  have hWF : WF nodes nbrs (delayOf calls) (durOf calls) infs recs :=
    { nodup := hG.nodup, nbr_nodup := hG.nbr_nodup, nbr_mem := hG.nbr_mem,
      delay_nonneg := drawn_delay_nonneg hrow, dur_nonneg := drawn_dur_nonneg hrow,
      infs_nodup := hG.infs_nodup, infs_mem := hG.infs_mem, recs_mem := hG.recs_mem, disjoint := hG.disjoint }
  refine ⟨calls, hC, hN, hrow, hn', hWF, hO, ?_⟩
  rw [hO.genTrans_eq, hO.genRecov_eq]
  rw [drawnParams_eq_rowParams] at hq ⊢
  exact rows_fpp (drawn_rowsOK hrow hP) hWF tmin tmax (fun _ => 0) fuel hq

/-- **`fast_SIR` on the constant-`tau` branch is first-passage percolation of the values it drew.**  The rule returns
the recipients in *sample* order (and only them), whereas C11's `fpp` is stated for rules listing the susceptible
neighbours in `G.neighbors` order; `rows_fpp` (`Proofs/GenFastSIR.lean`) re-proves the invariant step for rows in any
order, so: on a well-formed graph and a tape of non-negative `expovariate` values, whenever `fast_SIR` returns, the
reported transmissions and recoveries satisfy the C11 predicate `isFPP` for the delay / duration tables read off the
successive calls of the rule (non-recipients have delay `∞`; every finite delay is `< duration`,
`fast_SIR_const_kept`). -/
theorem fast_SIR_const_fpp (exp : Rat → Rat) (nodes : List Node) (nbrs : Node → List Node) (tmin : Rat) (tmax : ERat)
    (tau gamma : Rat) (tw : Option Rate2) (rw : Option Rate1) (hbranch : tw = none ∧ tau * gamma ≠ 0)
    (infs recs : List Node) (hG : WF nodes nbrs (fun _ _ => none) (fun _ => none) infs recs)
    (fuel : Nat) (ts : TapeSt) (hts : TapeNonneg ts) (σ : Loc) (ts' : TapeSt)
    (h : fast_SIR exp nbrs nodes.length tmin tmax tau gamma tw rw infs recs fuel ts = .ok (σ, ts')) :
    ∃ calls : List RuleCall,
      Chain (fun node sus => const_trans exp node sus tau (get_rate_functions tau gamma tw rw).2) ts calls ts' ∧
      (calls.map (·.1)).Nodup ∧ (∀ c ∈ calls, ConstRowOK c) ∧
      WF nodes nbrs (delayOf calls) (durOf calls) infs recs ∧
      isFPP nodes nbrs (delayOf calls) (durOf calls) tmin tmax infs recs (genTrans σ) (genRecov nodes recs σ) = true := by
  obtain ⟨calls, hC, hN, hrow, _, hP, hJ⟩ :=
    fast_SIR_const_rows exp nbrs nodes.length tmin tmax tau gamma tw rw hbranch infs recs fuel ts hts σ ts' h
  have hrun := hJ (fun u _ => tableOf calls u) (tableOf_agrees calls hN) ts
  have hA : Agree (EArgs.mk nbrs nodes.length tmin tmax (pureRule (fun u _ => tableOf calls u)))
      (drawnParams nodes nbrs tmin tmax calls) :=
    ⟨rfl, rfl, rfl, rfl, fun _ _ => rfl⟩
  have hW : WFJ (drawnParams nodes nbrs tmin tmax calls) :=
    drawnParams_WFJ nodes nbrs tmin tmax calls (fun c hc => (hrow c hc).2.1)
  obtain ⟨_, hq, hO⟩ := gen_run_refines hA hW infs recs fuel ts σ ts hrun
  have hWF : WF nodes nbrs (delayOf calls) (durOf calls) infs recs :=
    { nodup := hG.nodup, nbr_nodup := hG.nbr_nodup, nbr_mem := hG.nbr_mem,
      delay_nonneg := by
        intro u v d hd
        obtain ⟨⟨x, hx, hx0⟩, _⟩ := const_tables_kept hrow u v (by rw [hd]; exact fun e => by cases e)
        rw [hd] at hx; injection hx with hx; rw [hx]; exact hx0
      dur_nonneg := const_dur_nonneg hrow,
      infs_nodup := hG.infs_nodup, infs_mem := hG.infs_mem, recs_mem := hG.recs_mem, disjoint := hG.disjoint }
  refine ⟨calls, hC, hN, hrow, hWF, ?_⟩
  rw [hO.genTrans_eq, hO.genRecov_eq]
  rw [drawnParams_eq_rowParams] at hq ⊢
  exact rows_fpp (const_rowsOK hrow hP) hWF tmin tmax (fun _ => 0) fuel hq

/-- **`fast_SIR` on the per-edge branch is first-passage percolation of the values it drew**: on a well-formed graph
(`WF` with trivial tables = its graph part) with duplicate-free neighbour lists and a tape of non-negative
`expovariate` values, whenever `fast_SIR` returns there are delay and duration tables — read off the successive calls
of the rule (`Chain`), each call having returned exactly the table row `jointOfTables … u sus` — such that the
generated `fast_nonMarkov_SIR` with the pure table rule returns the same objects on any tape, and the reported
transmissions and recoveries satisfy the C11 predicate `isFPP` for these tables -/
theorem fast_SIR_perEdge_fpp (exp : Rat → Rat) (nodes : List Node) (nbrs : Node → List Node) (tmin : Rat) (tmax : ERat)
    (tau gamma : Rat) (tw : Option Rate2) (rw : Option Rate1) (hbranch : ¬ (tw = none ∧ tau * gamma ≠ 0))
    (infs recs : List Node) (hG : WF nodes nbrs (fun _ _ => none) (fun _ => none) infs recs)
    (hN : ∀ u, (nbrs u).Nodup) (fuel : Nat) (ts : TapeSt) (hts : TapeNonneg ts) (σ : Loc) (ts' : TapeSt)
    (h : fast_SIR exp nbrs nodes.length tmin tmax tau gamma tw rw infs recs fuel ts = .ok (σ, ts')) :
    ∃ calls : List RuleCall, Chain (perEdgeRule tau gamma tw rw) ts calls ts' ∧ (calls.map (·.1)).Nodup ∧
      (∀ c ∈ calls, c.2.2 = jointOfTables (delayOf calls) (durOf calls) c.1 c.2.1) ∧
      WF nodes nbrs (delayOf calls) (durOf calls) infs recs ∧
      (∀ ts0, run (tableArgs nodes nbrs (delayOf calls) (durOf calls) tmin tmax) infs recs fuel ts0 = .ok (σ, ts0)) ∧
      isFPP nodes nbrs (delayOf calls) (durOf calls) tmin tmax infs recs (genTrans σ) (genRecov nodes recs σ) = true := by
  obtain ⟨calls, hC, hNd, hag, hd1, hd2, hrun⟩ :=
    fast_SIR_perEdge_tables exp nbrs nodes.length tmin tmax tau gamma tw rw hbranch hN infs recs fuel ts hts σ ts' h
  have hWF : WF nodes nbrs (delayOf calls) (durOf calls) infs recs :=
    { nodup := hG.nodup, nbr_nodup := hG.nbr_nodup, nbr_mem := hG.nbr_mem, delay_nonneg := hd1, dur_nonneg := hd2,
      infs_nodup := hG.infs_nodup, infs_mem := hG.infs_mem, recs_mem := hG.recs_mem, disjoint := hG.disjoint }
  refine ⟨calls, hC, hNd, fun c hc => (hag c hc).symm, hWF, hrun, ?_⟩
  exact gen_fpp nodes nbrs (delayOf calls) (durOf calls) tmin tmax infs recs hWF
    (agree_tableArgs nodes nbrs (delayOf calls) (durOf calls) tmin tmax) fuel ts σ ts (hrun ts)

end GenFSIR

/-! ### a whole run: the path 0 – 1 – 2 with unit edge weights (per-edge branch), node 0 infected at time 0 -/
open GenFSIR

/-- `fast_SIR` on the tape … -/
example : c11bRows (fast_SIR (fun _ => 0) c01fNb 3 0 none 1 1 (some fun _ _ => .ok 1) none [0] [] 40 c01fTape) =
      some ([some 0, some 1, some (3/2), some 2, some (5/2), some 4], [2, 1, 0, 0, 0, 0], [1, 2, 3, 2, 1, 0],
        [0, 0, 0, 1, 2, 3]) ∧
    c11bTrans (fast_SIR (fun _ => 0) c01fNb 3 0 none 1 1 (some fun _ _ => .ok 1) none [0] [] 40 c01fTape) =
      some [(some 0, none, 0), (some 1, some 0, 1), (some (3/2), some 1, 2)] ∧
    (view (fast_SIR (fun _ => 0) c01fNb 3 0 none 1 1 (some fun _ _ => .ok 1) none [0] [] 40 c01fTape)).map (·.2) =
      .ok ([], [Call.expo 1, Call.expo 1, Call.expo 1, Call.expo 1, Call.expo 1]) := by
  decide +kernel
/-- … equals `fast_nonMarkov_SIR` with the pure table rule on an empty tape -/
example : c11bRows (run (tableArgs [0, 1, 2] c01fNb c01fDelay c01fDur 0 none) [0] [] 40 { tape := [] }) =
      some ([some 0, some 1, some (3/2), some 2, some (5/2), some 4], [2, 1, 0, 0, 0, 0], [1, 2, 3, 2, 1, 0],
        [0, 0, 0, 1, 2, 3]) ∧
    c11bTrans (run (tableArgs [0, 1, 2] c01fNb c01fDelay c01fDur 0 none) [0] [] 40 { tape := [] }) =
      some [(some 0, none, 0), (some 1, some 0, 1), (some (3/2), some 1, 2)] := by
  decide +kernel
/-- the constant-`tau` branch on the same graph (`exp ≡ 1/2`): node 0 lasts 2 and infects its one neighbour (delay
`3 mod 2 = 1`), node 1 lasts 1 and infects nobody -/
example : c11bTrans (fast_SIR (fun _ => 1/2) c01fNb 3 0 none 1 1 none none [0] [] 40
      ⟨[Draw.expo 2, Draw.binom 1, Draw.sample [0], Draw.expo 3, Draw.expo 1, Draw.binom 0, Draw.sample []], #[]⟩) =
    some [(some 0, none, 0), (some 1, some 0, 1)] := by
  decide +kernel

/-- the hypotheses of `fast_SIR_perEdge_fpp` are satisfiable: the run above is first-passage percolation of the
values it drew -/
example : ∃ σ ts', fast_SIR (fun _ => 0) c01fNb 3 0 none 1 1 (some fun _ _ => .ok 1) none [0] [] 40 c01fTape =
      .ok (σ, ts') ∧
    ∃ calls : List RuleCall, (calls.map (·.1)).Nodup ∧
      isFPP [0, 1, 2] c01fNb (delayOf calls) (durOf calls) 0 none [0] [] (genTrans σ) (genRecov [0, 1, 2] [] σ) = true := by
  cases hr : fast_SIR (fun _ => 0) c01fNb 3 0 none 1 1 (some fun _ _ => .ok 1) none [0] [] 40 c01fTape with
  | error e =>
    have : c11bRows (fast_SIR (fun _ => 0) c01fNb 3 0 none 1 1 (some fun _ _ => .ok 1) none [0] [] 40 c01fTape) ≠
        none := by decide +kernel
    rw [hr] at this
    exact absurd rfl this
  | ok r =>
    obtain ⟨σ, ts'⟩ := r
    have hts : TapeNonneg c01fTape := by
      intro d hd
      simp only [c01fTape, List.mem_cons, Draw.expo.injEq, List.not_mem_nil, or_false] at hd
      rcases hd with rfl | rfl | rfl | rfl | rfl <;> decide +kernel
    obtain ⟨calls, _, hN, _, _, _, hF⟩ := fast_SIR_perEdge_fpp (fun _ => 0) [0, 1, 2] c01fNb 0 none 1 1
      (some fun _ _ => .ok 1) none (by simp) [0] [] c01fWF c01fNb_nodup 40 c01fTape hts σ ts' hr
    exact ⟨σ, ts', rfl, calls, hN, hF⟩

/-! ### the constant-`tau` branch: the star 0 – {1, 2}; both leaves receive the transmission at time 1, the sample
lists leaf 2 first -/
/-- `fast_SIR` reports leaf 2 before leaf 1 (sample order) … -/
example : c11bTrans (fast_SIR (fun _ => 1/2) c01fStar 3 0 none 1 1 none none [0] [] 40 c01fStarTape) =
    some [(some 0, none, 0), (some 1, some 0, 2), (some 1, some 0, 1)] := by
  decide +kernel
/-- … whereas `fast_nonMarkov_SIR` with the pure table rule of the same delays and durations reports leaf 1 first
(`G.neighbors` order): on this branch the determinised run is NOT the `jointOfTables` run, only `isFPP`-equivalent -/
example : c11bTrans (run (tableArgs [0, 1, 2] c01fStar (fun u _ => if u = 0 then some 1 else none) (fun _ => some 2)
      0 none) [0] [] 40 { tape := [] }) =
    some [(some 0, none, 0), (some 1, some 0, 1), (some 1, some 0, 2)] := by
  decide +kernel

/-- the hypotheses of `fast_SIR_fpp` are satisfiable on the constant-`tau` branch -/
example : ∃ σ ts', fast_SIR (fun _ => 1/2) c01fStar 3 0 none 1 1 none none [0] [] 40 c01fStarTape = .ok (σ, ts') ∧
    ∃ calls : List RuleCall, (calls.map (·.1)).Nodup ∧
      isFPP [0, 1, 2] c01fStar (delayOf calls) (durOf calls) 0 none [0] [] (genTrans σ) (genRecov [0, 1, 2] [] σ) = true := by
  cases hr : fast_SIR (fun _ => 1/2) c01fStar 3 0 none 1 1 none none [0] [] 40 c01fStarTape with
  | error e =>
    have : c11bTrans (fast_SIR (fun _ => 1/2) c01fStar 3 0 none 1 1 none none [0] [] 40 c01fStarTape) ≠ none := by
      decide +kernel
    rw [hr] at this
    exact absurd rfl this
  | ok r =>
    obtain ⟨σ, ts'⟩ := r
    have hts : TapeNonneg c01fStarTape := by
      intro d hd
      simp only [c01fStarTape, List.mem_cons, Draw.expo.injEq, reduceCtorEq, List.not_mem_nil, or_false,
        false_or] at hd
      rcases hd with rfl | rfl | rfl | rfl | rfl <;> decide +kernel
    obtain ⟨calls, _, hN, _, _, _, _, hF⟩ := fast_SIR_fpp (fun _ => 1/2) [0, 1, 2] c01fStar 0 none 1 1 none none
      [0] [] c01fStarWF 40 c01fStarTape hts σ ts' hr
    exact ⟨σ, ts', rfl, calls, hN, hF⟩

#print axioms GenFSIR.truncated_exponential_spec
#print axioms GenFSIR.truncMod_def
#print axioms GenFSIR.truncated_exponential_mod
#print axioms GenFSIR.truncated_exponential_errors
#print axioms GenFSIR.truncated_exponential_real
#print axioms GenFSIR.truncated_exponential_truncExp
#print axioms GenFSIR.get_rate_functions_spec
#print axioms GenFSIR.const_trans_spec
#print axioms GenFSIR.const_trans_dict
#print axioms GenFSIR.const_trans_delay_lt_duration
#print axioms GenFSIR.const_trans_none_infected
#print axioms GenFSIR.const_trans_errors
#print axioms GenFSIR.fast_SIR_rule_dispatch
#print axioms GenFSIR.timeOfRate_spec
#print axioms GenFSIR.find_trans_and_rec_delays_SIR_spec
#print axioms GenFSIR.find_trans_and_rec_delays_SIR_dict
#print axioms GenFSIR.find_trans_and_rec_delays_SIR_inv
#print axioms GenFSIR.find_trans_and_rec_delays_SIR_error
#print axioms GenFSIR.process_trans_determinise
#print axioms GenFSIR.run_determinise
#print axioms GenFSIR.fast_SIR_determinise
#print axioms GenFSIR.fast_SIR_refines_model
#print axioms GenFSIR.fast_SIR_const_kept
#print axioms GenFSIR.fast_SIR_fpp
#print axioms GenFSIR.fast_SIR_const_fpp
#print axioms GenFSIR.fast_SIR_perEdge_fpp
